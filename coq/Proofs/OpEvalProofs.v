(* Proofs/OpEvalProofs.v — lemmas about Model/OpEval.v (Evaluation). *)
From Coq Require Import List NArith ZArith Bool Lia ZifyBool ZifyN ZifyNat.
From Coq.Strings Require Import Byte.
Require Import GV.Base.Res GV.Base.Byt GV.Base.Ints GV.Model.Leb GV.Model.Prim
  GV.Model.OpDec GV.Model.OpVal GV.Model.OpEval GV.Spec.StackSpec GV.Proofs.OpDecProofs GV.Proofs.OpValProofs.
Import ListNotations.
Local Open Scope N_scope.

(* ---------------------------------------------------------------- inversion of the primitives *)
Lemma push_inv c s v s' : push c s v = Ok s' -> s' = set_stack s (norm c v :: s_stack s).
Proof. unfold push. destruct (full _ _); [discriminate|]. now inversion 1. Qed.
Lemma pop_inv s v s' : pop s = Ok (v, s') -> exists r, s_stack s = v :: r /\ s' = set_stack s r.
Proof. unfold pop. destruct (s_stack s) as [|x r]; [discriminate|]. inversion 1; subst. now exists r. Qed.
Lemma push_piece_inv c s p s' : push_piece c s p = Ok s' -> s' = set_result s (p :: s_result s).
Proof. unfold push_piece. destruct (full _ _); [discriminate|]. now inversion 1. Qed.

(* the part of the state that only the control loop changes *)
Definition ctl (s : st) := (s_bytecode s, s_estack s, s_iter s, s_nops s, s_nparse s).

(* pc is inside the current bytecode, and so is every saved caller pc *)
Definition inv (s : st) : Prop :=
  sfx (s_pc s) (s_bytecode s) /\ Forall (fun p => sfx (fst p) (snd p)) (s_estack s).

Lemma sfx_skipn n (bs : list byte) : sfx (skipn n bs) bs.
Proof. exists (firstn n bs). now rewrite firstn_skipn. Qed.

Lemma compute_pc_ok s t pc' : compute_pc s t = Ok pc' -> sfx pc' (s_bytecode s).
Proof.
  unfold compute_pc. cbv zeta. destruct (_ <? _); [intros; discriminate|]. destruct (_ <? _); [intros; discriminate|].
  intros H. inversion H. apply sfx_skipn.
Qed.
Lemma compute_pc_no_panic s t : sfx (s_pc s) (s_bytecode s) ->
  compute_pc s t <> Panic /\ compute_pc s t <> OutOfFuel.
Proof.
  intros S. apply sfx_length in S. unfold compute_pc. cbv zeta.
  destruct (N.of_nat (length (s_bytecode s)) <? N.of_nat (length (s_pc s))) eqn:E; [lia|].
  match goal with |- context [if ?c then _ else _] => destruct c end; split; discriminate.
Qed.

Ltac peel :=
  repeat match goal with
  | H : Ok _ = Ok _ |- _ => inversion H; subst; clear H
  | H : Err _ = Ok _ |- _ => discriminate H
  | H : Panic = Ok _ |- _ => discriminate H
  | H : OutOfFuel = Ok _ |- _ => discriminate H
  | p : (_ * _)%type |- _ => destruct p
  | H : bind ?x _ = Ok _ |- _ => destruct x eqn:?; cbn [bind] in H
  | H : (if ?c then _ else _) = Ok _ |- _ => destruct c eqn:?
  | H : match ?x with _ => _ end = Ok _ |- _ => destruct x eqn:?
  end.
Ltac invert_prims :=
  repeat match goal with
  | H : push _ _ _ = Ok _ |- _ => apply push_inv in H; subst
  | H : pop _ = Ok (_, _) |- _ => apply pop_inv in H; destruct H as (? & ? & ?); subst
  | H : push_piece _ _ _ = Ok _ |- _ => apply push_piece_inv in H; subst
  | H : compute_pc _ _ = Ok _ |- _ => apply compute_pc_ok in H
  end.
Ltac fields := cbn [s_bytecode s_pc s_stack s_estack s_result s_iter s_vres s_nops s_nparse
                    set_stack set_pc set_result set_iter set_vres set_code count_op count_parse] in *.

Section Eval.
Variable F : fops.

Lemma eoo_ok dbg c mask s r s' :
  inv s -> evaluate_one_operation F dbg c mask s = Ok (r, s') ->
  inv s' /\ ctl s' = (s_bytecode s, s_estack s, s_iter s, s_nops s + 1, s_nparse s + 1).
Proof.
  intros [I1 I2] H. unfold evaluate_one_operation in H.
  destruct (parse_op dbg (c_enc c) (s_pc (count_op (count_parse s)))) as [[o pc']| | |] eqn:P; cbn [bind] in H; try discriminate H.
  destruct (parse_op_good dbg (c_enc c) (s_pc (count_op (count_parse s)))) as (_ & _ & G). specialize (G _ _ P).
  fields.
  destruct o; unfold binop, unop in H; peel; invert_prims; unfold inv, ctl; fields;
    (split; [split; [eauto using sfx_trans|assumption]|reflexivity]).
Qed.

Lemma eoe_loop_ok pc bc es :
  sfx pc bc -> Forall (fun p => sfx (fst p) (snd p)) es ->
  let '(b, (pc', bc', es')) := eoe_loop pc bc es in
  sfx pc' bc' /\ Forall (fun p => sfx (fst p) (snd p)) es' /\
  (b = false -> pc' <> []) /\ (b = true -> pc' = [] /\ es' = []).
Proof.
  revert pc bc. induction es as [|[npc nbc] es IH]; intros pc bc S Fo; destruct pc as [|x pc]; cbn [eoe_loop].
  - repeat split; auto; discriminate.
  - repeat split; auto; discriminate.
  - inversion Fo; subst. apply IH; auto.
  - repeat split; auto; discriminate.
Qed.

Lemma eoe_ok s : inv s ->
  inv (snd (end_of_expression s)) /\
  s_iter (snd (end_of_expression s)) = s_iter s /\ s_nops (snd (end_of_expression s)) = s_nops s /\
  s_nparse (snd (end_of_expression s)) = s_nparse s /\
  (fst (end_of_expression s) = false -> s_pc (snd (end_of_expression s)) <> []).
Proof.
  intros [I1 I2]. unfold end_of_expression. pose proof (eoe_loop_ok _ _ _ I1 I2) as H.
  destruct (eoe_loop (s_pc s) (s_bytecode s) (s_estack s)) as [b [[pc' bc'] es']].
  destruct H as (H1 & H2 & H3 & H4). unfold inv. fields. cbn [fst snd]. fields. repeat split; auto.
Qed.

Lemma resume_apply_ok c mask w a s s' :
  inv s -> resume_apply F c mask w a s = Ok s' ->
  inv s' /\ s_iter s' = s_iter s /\ s_nops s' = s_nops s /\ s_nparse s' = s_nparse s.
Proof.
  intros [I1 I2] H. unfold resume_apply in H.
  destruct w; peel; invert_prims; unfold inv; fields; repeat split; auto using sfx_refl.
Qed.
End Eval.

Section Eval2.
Variable F : fops.

Lemma finish_ok c mask s o s' : inv s -> finish c mask s = Ok (o, s') ->
  inv s' /\ s_iter s' = s_iter s /\ s_nops s' = s_nops s /\ s_nparse s' = s_nparse s.
Proof.
  intros [I1 I2] H. unfold finish in H. peel; invert_prims; unfold inv; fields; repeat split; auto.
Qed.

Lemma push_piece_ok c s p s' : inv s -> push_piece c s p = Ok s' ->
  inv s' /\ s_iter s' = s_iter s /\ s_nops s' = s_nops s /\ s_nparse s' = s_nparse s.
Proof. intros [I1 I2] H. invert_prims. unfold inv; fields; repeat split; auto. Qed.

Lemma chk_add_iter dbg it : it < 4294967295 -> chk_add 32 dbg it 1 = Ok (it + 1).
Proof.
  intros H. unfold chk_add. change (2 ^ 32) with 4294967296.
  destruct (it + 1 <? 4294967296) eqn:E; [reflexivity|lia].
Qed.

(* what one call of evaluate_internal does to the counters *)
Definition counted (s s' : st) : Prop :=
  inv s' /\ s_iter s <= s_iter s' /\ s_nops s' + s_iter s = s_nops s + s_iter s' /\
  s_nparse s' + 2 * s_iter s <= s_nparse s + 2 * s_iter s' /\ s_nparse s <= s_nparse s'.

Lemma count_iteration_fields dbg c s s2 : count_iteration dbg c s = Ok s2 ->
  s_stack s2 = s_stack s /\ s_result s2 = s_result s /\ s_vres s2 = s_vres s /\ s_pc s2 = s_pc s /\
  s_bytecode s2 = s_bytecode s /\ s_estack s2 = s_estack s /\ s_nops s2 = s_nops s /\ s_nparse s2 = s_nparse s.
Proof.
  unfold count_iteration. intros H. destruct (c_max c) as [m|]; peel; fields; repeat split; reflexivity.
Qed.
End Eval2.

(* ---------------------------------------------------------------- no panic *)
Definition noP {A} (r : res A) : Prop := r <> Panic /\ r <> OutOfFuel.
Lemma noP_ok {A} (a : A) : noP (Ok a). Proof. split; discriminate. Qed.
Lemma noP_err {A} e : @noP A (Err e). Proof. split; discriminate. Qed.
Lemma noP_bind {A B} (m : res A) (f : A -> res B) : noP m -> (forall a, m = Ok a -> noP (f a)) -> noP (bind m f).
Proof. intros [H1 H2] Hf. destruct m; cbn [bind]; auto using noP_err; contradiction. Qed.
Lemma noP_if {A} (c : bool) (x y : res A) : noP x -> noP y -> noP (if c then x else y).
Proof. now destruct c. Qed.
Global Hint Resolve noP_ok noP_err : nop.

Ltac nop_step :=
  match goal with
  | |- noP (Ok _) => apply noP_ok
  | |- noP (Err _) => apply noP_err
  | |- noP (if _ then _ else _) => apply noP_if
  | |- noP (bind _ _) => apply noP_bind; [|intros ? ?]
  | |- noP (match ?x with _ => _ end) => destruct x
  | |- noP (let '(_, _) := ?p in _) => destruct p
  end.

Section NoPanic.
Variable F : fops.

Lemma to_u64_nop v mask : noP (to_u64 v mask).
Proof. unfold to_u64. repeat nop_step. Qed.
Lemma from_u64_nop t x : noP (from_u64 F t x).
Proof. unfold from_u64. repeat nop_step. Qed.
Lemma arith_nop i f a b mask : noP (arith i f a b mask).
Proof. unfold arith. repeat nop_step. Qed.
Lemma vdiv_nop a b mask : noP (vdiv F a b mask).
Proof. unfold vdiv. repeat nop_step. Qed.
Lemma vrem_nop a b mask : noP (vrem a b mask).
Proof. unfold vrem. repeat nop_step. Qed.
Lemma vnot_nop a mask : noP (vnot F a mask).
Proof. unfold vnot. repeat nop_step; auto using to_u64_nop, from_u64_nop. Qed.
Lemma bitop_nop op a b mask : noP (bitop F op a b mask).
Proof. unfold bitop. repeat nop_step; auto using to_u64_nop, from_u64_nop. Qed.
Lemma vabs_nop a mask : noP (vabs a mask).
Proof. unfold vabs. repeat nop_step. Qed.
Lemma vneg_nop a mask : noP (vneg a mask).
Proof. unfold vneg. repeat nop_step. Qed.
Lemma shift_length_nop b mask : noP (shift_length b mask).
Proof. unfold shift_length. repeat nop_step. Qed.
Lemma vshl_nop a b mask : noP (vshl a b mask).
Proof. unfold vshl. repeat nop_step; auto using shift_length_nop. Qed.
Lemma vshr_nop a b mask : noP (vshr a b mask).
Proof. unfold vshr. repeat nop_step; auto using shift_length_nop. Qed.
Lemma vshra_nop a b mask : noP (vshra a b mask).
Proof. unfold vshra. repeat nop_step; auto using shift_length_nop. Qed.
Lemma compare_nop z f a b mask : noP (compare_op z f a b mask).
Proof. unfold compare_op. repeat nop_step. Qed.
Lemma from_float_nop s t b : noP (from_float F s t b).
Proof. unfold from_float. repeat nop_step. Qed.
Lemma convert_nop a t mask : noP (convert F a t mask).
Proof. unfold convert. repeat nop_step; auto using to_u64_nop, from_u64_nop, from_float_nop. Qed.
Lemma reinterpret_nop a t mask : noP (reinterpret a t mask).
Proof. unfold reinterpret. repeat nop_step. Qed.
Lemma read_un_nop n be bs : noP (read_un n be bs).
Proof. destruct (read_un_good n be bs) as (A & B & _). now split. Qed.
Lemma value_parse_nop be t bs : noP (value_parse be t bs).
Proof.
  unfold value_parse. destruct t; try apply noP_err;
  (apply noP_bind; [apply read_un_nop|intros [? ?] _; apply noP_ok]).
Qed.
Lemma push_nop c s v : noP (push c s v).
Proof. unfold push. repeat nop_step. Qed.
Lemma pop_nop s : noP (pop s).
Proof. unfold pop. repeat nop_step. Qed.
Lemma push_piece_nop c s p : noP (push_piece c s p).
Proof. unfold push_piece. repeat nop_step. Qed.
Lemma parse_op_nop dbg e bs : noP (parse_op dbg e bs).
Proof. apply parse_op_no_panic_lemma. Qed.
End NoPanic.
Global Hint Resolve to_u64_nop from_u64_nop arith_nop vdiv_nop vrem_nop vnot_nop bitop_nop vabs_nop vneg_nop
  vshl_nop vshr_nop vshra_nop compare_nop convert_nop reinterpret_nop value_parse_nop push_nop pop_nop
  push_piece_nop parse_op_nop : nop.

Section NoPanic2.
Variable F : fops.

Lemma compute_pc_nop s t : sfx (s_pc s) (s_bytecode s) -> noP (compute_pc s t).
Proof. apply compute_pc_no_panic. Qed.

Ltac nop_auto := repeat (nop_step; auto with nop).

Lemma eoo_nop dbg c mask s : inv s -> noP (evaluate_one_operation F dbg c mask s).
Proof.
  intros [I1 I2]. unfold evaluate_one_operation.
  apply noP_bind; [apply parse_op_nop|]. intros [o pc'] P.
  destruct (parse_op_good dbg (c_enc c) (s_pc (count_op (count_parse s)))) as (_ & _ & G). specialize (G _ _ P). fields.
  assert (S : sfx pc' (s_bytecode s)) by eauto using sfx_trans.
  destruct o; unfold binop, unop, vadd, vsub, vmul, vand, vor, vxor, veq, vge, vgt, vle, vlt, vne; try solve [nop_auto].
  - (* Pick *)
    fields.
    destruct (N.of_nat (length (s_stack s)) <=? index) eqn:EI; [apply noP_err|].
    destruct (nth_error (s_stack s) (N.to_nat index)) eqn:E; [nop_auto|].
    apply nth_error_None in E. lia.
  - (* Bra *)
    apply noP_bind; [auto with nop|]. intros [entry s1] PO. apply pop_inv in PO. destruct PO as (r & _ & ->).
    nop_auto. apply compute_pc_nop. fields. exact S.
  - (* Skip *)
    nop_auto. apply compute_pc_nop. fields. exact S.
Qed.
End NoPanic2.

Section Total.
Variable F : fops.

Lemma finish_nop c mask s : noP (finish c mask s).
Proof. unfold finish. repeat (nop_step; auto with nop). Qed.

Lemma resume_apply_nop c mask w a s : noP (resume_apply F c mask w a s).
Proof.
  unfold resume_apply, vadd. destruct w; repeat (nop_step; auto with nop); auto with nop.
Qed.

Lemma chk_sub_ok dbg a b : b <= a -> chk_sub 64 dbg a b = Ok (a - b).
Proof. intros H. unfold chk_sub. destruct (b <=? a) eqn:E; [reflexivity|lia]. Qed.

(* the iteration limit is a u32; the counter never exceeds it *)
Definition lim_ok (c : cfg) (s : st) : Prop :=
  match c_max c with Some n => n <= 4294967295 /\ s_iter s <= n | None => True end.

Lemma count_iteration_spec dbg c s : lim_ok c s ->
  match count_iteration dbg c s with
  | Ok s2 => (c_max c = None /\ s2 = s) \/
             (exists n, c_max c = Some n /\ s_iter s < n /\ s2 = set_iter s (s_iter s + 1))
  | Err _ => True
  | _ => False
  end.
Proof.
  unfold lim_ok, count_iteration. destruct (c_max c) as [n|]; [|intros _; now left].
  intros [NB L]. destruct (n <=? s_iter s) eqn:E; [exact I|].
  rewrite chk_add_iter by lia. cbn [bind]. right. exists n. repeat split; auto. lia.
Qed.

(* postcondition of evaluate_internal started in s with the given fuel *)
Definition ei_post (c : cfg) (fuel : nat) (s : st) (r : res (outcome * st)) : Prop :=
  match r with
  | Ok (_, s') => inv s' /\
      match c_max c with
      | Some n => counted s s' /\ s_iter s' <= n
      | None => s_iter s' = s_iter s        (* no limit set: the counter is not touched *)
      end
  | Err _ => True
  | Panic => False
  | OutOfFuel => match c_max c with Some n => (fuel <= N.to_nat (n - s_iter s))%nat | None => True end
  end.

(* s4 is the state after one more iteration (and possibly one extra decode) *)
Definition adv (c : cfg) (s s4 : st) : Prop :=
  match c_max c with
  | Some n => s_iter s4 = s_iter s + 1 /\ s_iter s4 <= n /\ s_nops s4 = s_nops s + 1 /\
              s_nparse s + 1 <= s_nparse s4 <= s_nparse s + 2
  | None => s_iter s4 = s_iter s
  end.

Lemma ei_post_mono c fuel s s4 r : adv c s s4 -> ei_post c fuel s4 r -> ei_post c (S fuel) s r.
Proof.
  unfold adv, ei_post, counted. destruct r as [[o s']| e | |]; auto; destruct (c_max c) as [n|]; intros A P; auto.
  - destruct P as (I & (I' & K1 & K2 & K3 & K4) & K5). split; [exact I|]. split; [|exact K5].
    split; [exact I'|]. lia.
  - destruct P as (I & K). split; [exact I|]. lia.
  - lia.
Qed.

Lemma ei_gen dbg c mask : forall fuel s, inv s -> lim_ok c s ->
  ei_post c fuel s (evaluate_internal F fuel dbg c mask s).
Proof.
  induction fuel as [|fuel IH]; intros s I L.
  { cbn [evaluate_internal ei_post]. destruct (c_max c); [lia|exact Logic.I]. }
  cbn [evaluate_internal].
  destruct (eoe_ok s I) as (I1 & E1 & E2 & E3 & _).
  destruct (end_of_expression s) as [e s1]. cbn [fst snd] in *.
  destruct e.
  { pose proof (finish_nop c mask s1) as [NP NF].
    destruct (finish c mask s1) as [[o s']| x | |] eqn:FN; cbn [ei_post]; auto; try congruence.
    apply finish_ok in FN; [|exact I1]. destruct FN as (J & J1 & J2 & J3). split; [exact J|].
    unfold lim_ok in L. destruct (c_max c) as [n|]; [|lia]. destruct L as [L0 L].
    unfold counted. split; [split; [exact J|lia]|lia]. }
  assert (L1 : lim_ok c s1) by (unfold lim_ok in *; destruct (c_max c); [lia|exact Logic.I]).
  pose proof (count_iteration_spec dbg c s1 L1) as CS.
  destruct (count_iteration dbg c s1) as [s2| x | |]; cbn [bind ei_post]; auto; try contradiction.
  assert (I2 : inv s2).
  { destruct CS as [[_ ->]|(n & _ & _ & ->)]; [exact I1|]. destruct I1. unfold inv; fields; auto. }
  assert (A2 : ctl s2 = (s_bytecode s1, s_estack s1, s_iter s2, s_nops s1, s_nparse s1) /\
               match c_max c with Some n => s_iter s2 = s_iter s + 1 /\ s_iter s2 <= n | None => s_iter s2 = s_iter s end).
  { destruct CS as [[CN ->]|(n & CN & LT & ->)]; rewrite CN; unfold ctl; fields; (split; [reflexivity|]); lia. }
  destruct A2 as [C2 A2].
  pose proof (eoo_nop F dbg c mask s2 I2) as [NP NF].
  destruct (evaluate_one_operation F dbg c mask s2) as [[r s3]| x | |] eqn:EO; cbn [bind ei_post]; auto; try congruence.
  destruct (eoo_ok F dbg c mask s2 r s3 I2 EO) as (I3 & C3). unfold ctl in C2, C3.
  inversion C2 as [[C21 C22 C24 C25]]. inversion C3 as [[C31 C32 C33 C34 C35]]. clear C2 C3.
  assert (Step : forall s4, inv s4 -> s_iter s4 = s_iter s3 -> s_nops s4 = s_nops s3 ->
             s_nparse s3 <= s_nparse s4 <= s_nparse s3 + 1 ->
             ei_post c (S fuel) s (evaluate_internal F fuel dbg c mask s4)).
  { intros s4 I4 B1 B2 B3. apply (ei_post_mono c fuel s s4).
    - unfold adv. destruct (c_max c); lia.
    - apply IH; [exact I4|]. unfold lim_ok in *. destruct (c_max c); lia. }
  destruct r.
  - apply Step; auto; lia.
  - destruct (eoe_ok s3 I3) as (I4 & F1 & F2 & F3 & _).
    destruct (end_of_expression s3) as [e4 s4]. cbn [fst snd] in *.
    destruct (e4 && _); [exact Logic.I|]. apply Step; auto; lia.
  - destruct (eoe_ok s3 I3) as (I4 & F1 & F2 & F3 & _).
    destruct (end_of_expression s3) as [e4 s4]. cbn [fst snd] in *.
    destruct e4.
    + destruct (s_result s4); [|exact Logic.I].
      pose proof (push_piece_nop c s4 {| p_size := None; p_bit_offset := None; p_loc := l |}) as [PN PF].
      destruct (push_piece c s4 _) as [s5| x | |] eqn:PP; cbn [bind ei_post]; auto; try congruence.
      destruct (push_piece_ok c s4 _ s5 I4 PP) as (I5 & G1 & G2 & G3). apply Step; auto; lia.
    + cbv zeta. fields.
      pose proof (parse_op_nop dbg (c_enc c) (s_pc s4)) as [PN PF].
      destruct (parse_op dbg (c_enc c) (s_pc s4)) as [[o2 pc2]| x | |] eqn:P2; cbn [bind ei_post]; auto; try congruence.
      pose proof (parse_op_shorter _ _ _ _ _ P2) as SH.
      destruct (parse_op_good dbg (c_enc c) (s_pc s4)) as (_ & _ & G). specialize (G _ _ P2).
      assert (I5 : inv (set_pc (count_parse s4) pc2)) by
          (destruct I4; unfold inv; fields; split; eauto using sfx_trans).
      assert (LB : N.of_nat (length pc2) + 1 <= N.of_nat (length (s_bytecode s4))).
      { destruct I4 as [J _]. apply sfx_length in J. lia. }
      destruct o2; fields;
        try (rewrite chk_sub_ok by lia; cbn [bind]; rewrite chk_sub_ok by lia; cbn [bind ei_post]; exact Logic.I).
      match goal with |- context [push_piece ?cc ?ss ?pp] =>
        pose proof (push_piece_nop cc ss pp) as [PN2 PF2];
        destruct (push_piece cc ss pp) as [s5| x | |] eqn:PP; cbn [bind ei_post]; auto; try congruence;
        destruct (push_piece_ok _ _ _ _ I5 PP) as (I6 & G1 & G2 & G3); fields; apply Step; auto; lia end.
  - cbn [ei_post]. split; [exact I3|]. destruct (c_max c) as [n|]; [|lia].
    unfold counted. split; [split; [exact I3|lia]|lia].
Qed.

(* corollaries in the shape the later lemmas use *)
Lemma ei_ok dbg c mask n : c_max c = Some n -> n <= 4294967295 -> forall fuel s o s',
  inv s -> s_iter s <= n -> evaluate_internal F fuel dbg c mask s = Ok (o, s') ->
  counted s s' /\ s_iter s' <= n.
Proof.
  intros CM NB fuel s o s' I L H. pose proof (ei_gen dbg c mask fuel s I) as G.
  unfold lim_ok, ei_post in G. rewrite CM, H in G. now destruct (G (conj NB L)).
Qed.
Lemma ei_total dbg c mask n : c_max c = Some n -> n <= 4294967295 -> forall fuel s,
  inv s -> s_iter s <= n -> (N.to_nat (n - s_iter s) < fuel)%nat ->
  noP (evaluate_internal F fuel dbg c mask s).
Proof.
  intros CM NB fuel s I L FU. pose proof (ei_gen dbg c mask fuel s I) as G.
  unfold lim_ok, ei_post in G. rewrite CM in G. specialize (G (conj NB L)).
  destruct (evaluate_internal F fuel dbg c mask s) as [[o s']| x | |]; split; try discriminate; try contradiction; lia.
Qed.
Lemma ei_unlimited dbg c mask : c_max c = None -> forall fuel s,
  inv s -> evaluate_internal F fuel dbg c mask s <> Panic /\
  forall o s', evaluate_internal F fuel dbg c mask s = Ok (o, s') -> inv s' /\ s_iter s' = s_iter s.
Proof.
  intros CM fuel s I. pose proof (ei_gen dbg c mask fuel s I) as G.
  unfold lim_ok, ei_post in G. rewrite CM in G. specialize (G Logic.I).
  destruct (evaluate_internal F fuel dbg c mask s) as [[o s']| x | |]; split; try discriminate; try contradiction.
  all: intros o' s'' E; inversion E; subst; exact G.
Qed.
End Total.

(* ---------------------------------------------------------------- compute_pc accepts exactly 0 <= target <= len *)
Local Ltac Zify.zify_post_hook ::= Z.to_euclidean_division_equations.

Lemma compute_pc_exact s t :
  sfx (s_pc s) (s_bytecode s) -> (- 32768 <= t < 32768)%Z -> N.of_nat (length (s_bytecode s)) < 2 ^ 63 ->
  let off := (Z.of_nat (length (s_bytecode s)) - Z.of_nat (length (s_pc s)))%Z in
  compute_pc s t =
    if ((0 <=? off + t) && (off + t <=? Z.of_nat (length (s_bytecode s))))%Z
    then Ok (skipn (Z.to_nat (off + t)) (s_bytecode s)) else Err EBadBranchTarget.
Proof.
  intros S T LB off. apply sfx_length in S. unfold compute_pc. cbv zeta.
  change (2 ^ 63) with 9223372036854775808 in LB.
  destruct (N.of_nat (length (s_bytecode s)) <? N.of_nat (length (s_pc s))) eqn:E; [lia|].
  rewrite w64_eq, usg_eq. unfold wrap64, two64, of_signed. change (2 ^ 64) with 18446744073709551616.
  set (lb := length (s_bytecode s)) in *. set (lp := length (s_pc s)) in *.
  set (new := (N.of_nat lb - N.of_nat lp + Z.to_N (t mod Z.of_N 18446744073709551616)) mod 18446744073709551616).
  destruct ((0 <=? off + t) && (off + t <=? Z.of_nat lb))%Z eqn:C.
  - assert (Hn : new = Z.to_N (off + t)) by (unfold new, off; lia).
    rewrite Hn. destruct (N.of_nat lb <? Z.to_N (off + t)) eqn:E2; [lia|].
    f_equal. f_equal. lia.
  - destruct (N.of_nat lb <? new) eqn:E2; [reflexivity|]. unfold new, off in *. lia.
Qed.

(* ---------------------------------------------------------------- the whole conversation *)
Section Run.
Variable F : fops.

Definition bounded_final (n : N) (f : final) : Prop :=
  f <> FOutOfFuel /\ f <> FPanic /\
  forall ps vr nops nparse, f = FComplete ps vr nops nparse -> nops <= n /\ nparse <= 2 * n.

(* what holds of every state handed back to the consumer *)
Definition run_inv (n : N) (s : st) : Prop :=
  inv s /\ s_iter s <= n /\ s_nops s = s_iter s /\ s_nparse s <= 2 * s_iter s.

Lemma drive_bound dbg c mask n fuel :
  c_max c = Some n -> n <= 4294967295 -> (N.to_nat n < fuel)%nat ->
  forall answers r, noP r -> (forall o s, r = Ok (o, s) -> run_inv n s) ->
  bounded_final n (snd (drive F fuel dbg c mask r answers)).
Proof.
  intros CM NB FU. induction answers as [|a rest IH]; intros r NP RI.
  - destruct r as [[[|w rq] s]| e | |]; cbn [drive snd]; unfold bounded_final.
    + destruct (RI _ _ eq_refl) as (I & L & A & B). split; [discriminate|split; [discriminate|]].
      intros ps vr nops nparse E; inversion E; subst; lia.
    + split; [discriminate|split; [discriminate|intros; discriminate]].
    + split; [discriminate|split; [discriminate|intros; discriminate]].
    + now destruct NP.
    + now destruct NP.
  - destruct r as [[[|w rq] s]| e | |]; cbn [drive].
    + cbn [snd]. destruct (RI _ _ eq_refl) as (I & L & A & B). unfold bounded_final. split; [discriminate|split; [discriminate|]].
      intros ps vr nops nparse E; inversion E; subst; lia.
    + destruct (RI _ _ eq_refl) as (I & L & A & B).
      specialize (IH (resume F fuel dbg c mask w a s)).
      destruct (drive F fuel dbg c mask (resume F fuel dbg c mask w a s) rest) as [rqs f] eqn:D. cbn [snd] in *.
      apply IH.
      * unfold resume. apply noP_bind; [apply resume_apply_nop|]. intros s1 RA.
        destruct (resume_apply_ok F c mask w a s s1 I RA) as (I1 & J1 & J2 & J3).
        apply (ei_total F dbg c mask n CM NB); auto; lia.
      * intros o s' E. unfold resume in E.
        destruct (resume_apply F c mask w a s) as [s1| | |] eqn:RA; cbn [bind] in E; try discriminate E.
        destruct (resume_apply_ok F c mask w a s s1 I RA) as (I1 & J1 & J2 & J3).
        destruct (ei_ok F dbg c mask n CM NB fuel s1 o s' I1 ltac:(lia) E) as ((K0 & K1 & K2 & K3 & K4) & K5).
        unfold run_inv. split; [exact K0|]. lia.
    + cbn [snd]. unfold bounded_final. split; [discriminate|split; [discriminate|intros; discriminate]].
    + now destruct NP.
    + now destruct NP.
Qed.

Lemma new_mask_ok dbg asz : asz <= 8 -> exists m, new_mask dbg asz = Ok m.
Proof.
  intros H. unfold new_mask. destruct (asz =? 8) eqn:E; [eauto|].
  destruct (64 <=? 8 * asz) eqn:E2; [lia|eauto].
Qed.

Lemma initial_inv bs : inv (initial_state bs).
Proof. unfold inv, initial_state; fields. split; [apply sfx_refl|constructor]. Qed.

Lemma run_bound dbg c n fuel program answers :
  c_max c = Some n -> n <= 4294967295 -> e_asz (c_enc c) <= 8 -> (N.to_nat n < fuel)%nat ->
  bounded_final n (snd (run F fuel dbg c program answers)).
Proof.
  intros CM NB AS FU. unfold run. destruct (new_mask_ok dbg _ AS) as [mask ->].
  apply (drive_bound dbg c mask n fuel CM NB FU).
  - unfold evaluate. apply noP_bind.
    + destruct (c_init c); auto with nop.
    + intros s1 E. assert (I1 : inv s1 /\ s_iter s1 = 0).
      { destruct (c_init c); [apply push_inv in E; subst|inversion E; subst]; (split; [|reflexivity]).
        - destruct (initial_inv program). unfold inv; fields; auto.
        - apply initial_inv. }
      destruct I1 as [I1 Z1]. apply (ei_total F dbg c mask n CM NB); auto; lia.
  - intros o s' E. unfold evaluate in E.
    destruct (match c_init c with Some v => _ | None => _ end) as [s1| | |] eqn:PI; cbn [bind] in E; try discriminate E.
    assert (I1 : inv s1 /\ s_iter s1 = 0 /\ s_nops s1 = 0 /\ s_nparse s1 = 0).
    { destruct (c_init c); [apply push_inv in PI; subst|inversion PI; subst]; (split; [|repeat split]).
      - destruct (initial_inv program). unfold inv; fields; auto.
      - apply initial_inv. }
    destruct I1 as (I1 & Z1 & Z2 & Z3).
    destruct (ei_ok F dbg c mask n CM NB fuel s1 o s' I1 ltac:(lia) E) as ((K0 & K1 & K2 & K3 & K4) & K5).
    unfold run_inv. split; [exact K0|]. lia.
Qed.
End Run.

(* ---------------------------------------------------------------- packaging for Properties/C07.v *)
Lemma pc_in_bounds_lemma (F : fops) (dbg : bool) (c : cfg) (mask : N) :
  (forall bs, inv (initial_state bs)) /\
  (forall s r s', inv s -> evaluate_one_operation F dbg c mask s = Ok (r, s') -> inv s') /\
  (forall s, inv s -> inv (snd (end_of_expression s))) /\
  (forall w a s s', inv s -> resume_apply F c mask w a s = Ok s' -> inv s') /\
  (forall fuel n s o s', c_max c = Some n -> n <= 4294967295 -> inv s -> s_iter s <= n ->
     evaluate_internal F fuel dbg c mask s = Ok (o, s') -> inv s') /\
  (forall s t, inv s -> compute_pc s t <> Panic).
Proof.
  refine (conj _ (conj _ (conj _ (conj _ (conj _ _))))).
  - apply initial_inv.
  - intros s r s' I H. now destruct (eoo_ok F dbg c mask s r s' I H).
  - intros s I. now destruct (eoe_ok s I).
  - intros w a s s' I H. now destruct (resume_apply_ok F c mask w a s s' I H).
  - intros fuel n s o s' CM NB I L H. destruct (ei_ok F dbg c mask n CM NB fuel s o s' I L H) as ((K & _) & _). exact K.
  - intros s t [I _]. now destruct (compute_pc_no_panic s t I).
Qed.

(* ---------------------------------------------------------------- shape of the result (composite locations) *)
Definition sized (l : list piece) : Prop := Forall (fun p => p_size p <> None) l.

(* what Evaluation::result()/value_result() can return *)
Definition result_shape (mask : N) (ps : list piece) (vr : option value) : Prop :=
  ps <> [] /\
  ((vr = None /\ (sized ps \/ exists loc, ps = [mkPiece None None loc])) \/
   (exists v a, vr = Some v /\ to_u64 v mask = Ok a /\ ps = [mkPiece None None (LAddress a)])).

Lemma sized_cons p l : p_size p <> None -> sized l -> sized (p :: l).
Proof. intros. now constructor. Qed.
Lemma sized_rev l : sized l -> sized (rev l).
Proof. unfold sized. intros H. apply Forall_rev. exact H. Qed.

Section Pieces.
Variable F : fops.

Lemma eoo_result dbg c mask s r s' :
  evaluate_one_operation F dbg c mask s = Ok (r, s') ->
  s_vres s' = s_vres s /\
  match r with
  | RPiece => exists p, p_size p <> None /\ s_result s' = p :: s_result s
  | _ => s_result s' = s_result s
  end.
Proof.
  intros H. unfold evaluate_one_operation in H.
  destruct (parse_op dbg (c_enc c) (s_pc (count_op (count_parse s)))) as [[o pc']| | |] eqn:P; cbn [bind] in H; try discriminate H.
  destruct o; unfold binop, unop in H; peel; invert_prims; fields; (split; [reflexivity|]); try reflexivity.
  all: eexists; split; [|reflexivity]; cbn; discriminate.
Qed.

Lemma eoe_result s : s_result (snd (end_of_expression s)) = s_result s /\ s_vres (snd (end_of_expression s)) = s_vres s.
Proof.
  unfold end_of_expression. destruct (eoe_loop _ _ _) as [b [[pc bc] es]]. cbn [snd]. fields. now split.
Qed.

Lemma eoe_loop_true pc bc es : forall b pc' bc' es', eoe_loop pc bc es = (b, (pc', bc', es')) ->
  b = true -> pc' = [] /\ es' = [].
Proof.
  revert pc bc. induction es as [|[npc nbc] es IH]; intros pc bc b pc' bc' es' H B; destruct pc as [|x pc]; cbn [eoe_loop] in H.
  - inversion H; subst. now split.
  - inversion H; subst. discriminate.
  - eapply IH; eauto.
  - inversion H; subst. discriminate.
Qed.

Lemma eoe_true s : fst (end_of_expression s) = true ->
  s_pc (snd (end_of_expression s)) = [] /\ s_estack (snd (end_of_expression s)) = [].
Proof.
  unfold end_of_expression. destruct (eoe_loop _ _ _) as [b [[pc bc] es]] eqn:E. cbn [fst snd]. fields.
  intros ->. eapply eoe_loop_true; eauto.
Qed.

Lemma ei_at_end dbg c mask fuel s : s_pc s = [] -> s_estack s = [] -> s_result s <> [] ->
  evaluate_internal F (S fuel) dbg c mask s = Ok (Done, set_code s (s_bytecode s) [] []).
Proof.
  intros P E R. cbn [evaluate_internal]. unfold end_of_expression. rewrite P, E. cbn [eoe_loop].
  unfold finish. fields. destruct (s_result s); [contradiction|reflexivity].
Qed.

Lemma ei_pieces dbg c mask : forall fuel s o s',
  sized (s_result s) -> s_vres s = None -> evaluate_internal F fuel dbg c mask s = Ok (o, s') ->
  match o with
  | Need _ _ => sized (s_result s') /\ s_vres s' = None
  | Done => result_shape mask (rev (s_result s')) (s_vres s')
  end.
Proof.
  induction fuel as [|fuel IH]; intros s o s' SZ VN H; [discriminate H|].
  cbn [evaluate_internal] in H.
  destruct (eoe_result s) as [R1 V1].
  destruct (end_of_expression s) as [e s1] eqn:EOE. cbn [fst snd] in *.
  destruct e.
  { (* finish *)
    unfold finish in H. destruct (s_result s1) as [|p l] eqn:RS.
    - peel; invert_prims; fields. unfold result_shape. rewrite RS. cbn [rev app]. split; [discriminate|].
      right. eauto.
    - inversion H; subst. unfold result_shape. rewrite RS, V1, VN. split.
      + intros E. apply (f_equal (@length _)) in E. rewrite rev_length in E. discriminate E.
      + left. split; [reflexivity|]. left. apply sized_rev. rewrite R1. exact SZ. }
  destruct (count_iteration dbg c s1) as [s2| | |] eqn:CI; cbn [bind] in H; try discriminate H.
  destruct (count_iteration_fields _ _ _ _ CI) as (_ & CF2 & CF3 & _).
  destruct (evaluate_one_operation F dbg c mask s2) as [[r s3]| | |] eqn:EO; cbn [bind] in H; try discriminate H.
  destruct (eoo_result dbg c mask _ r s3 EO) as [V3 R3]. rewrite CF2 in R3. rewrite CF3 in V3.
  assert (SZ1 : sized (s_result s1)) by (rewrite R1; exact SZ).
  assert (VN1 : s_vres s1 = None) by (rewrite V1; exact VN).
  destruct r.
  - destruct R3 as (p & PS & R3). apply (IH s3 o s'); auto; [rewrite R3; now apply sized_cons|congruence].
  - destruct (eoe_result s3) as [R4 V4]. destruct (end_of_expression s3) as [e4 s4]. cbn [fst snd] in *.
    destruct (e4 && _); [discriminate H|]. apply (IH s4 o s'); auto; congruence.
  - destruct (eoe_result s3) as [R4 V4]. pose proof (eoe_true s3) as ET.
    destruct (end_of_expression s3) as [e4 s4]. cbn [fst snd] in *.
    destruct e4.
    + destruct (ET eq_refl) as [PC4 ES4].
      destruct (s_result s4) eqn:RS4; [|discriminate H].
      destruct (push_piece c s4 _) as [s5| | |] eqn:PP; cbn [bind] in H; try discriminate H.
      apply push_piece_inv in PP. subst s5.
      destruct fuel as [|fuel]; [discriminate H|].
      rewrite ei_at_end in H by (fields; auto; rewrite RS4; discriminate).
      inversion H; subst. fields. rewrite RS4. cbn [rev app]. unfold result_shape. split; [discriminate|].
      left. split; [congruence|]. right. eauto.
    + cbv zeta in H. fields.
      destruct (parse_op dbg (c_enc c) (s_pc s4)) as [[o2 pc2]| | |] eqn:P2; cbn [bind] in H; try discriminate H.
      destruct o2; peel.
      match goal with PP : push_piece _ _ _ = Ok ?s5 |- _ => apply push_piece_inv in PP; subst s5 end.
      eapply IH; [| |exact H]; fields; [|congruence].
      apply sized_cons; [cbn; discriminate|]. congruence.
  - inversion H; subst. split; congruence.
Qed.

Lemma resume_apply_result c mask w a s s' : resume_apply F c mask w a s = Ok s' ->
  s_result s' = s_result s /\ s_vres s' = s_vres s.
Proof. intros H. unfold resume_apply in H. destruct w; peel; invert_prims; fields; now split. Qed.

Lemma drive_pieces dbg c mask fuel : forall answers r,
  (forall o s, r = Ok (o, s) ->
     match o with Need _ _ => sized (s_result s) /\ s_vres s = None
                | Done => result_shape mask (rev (s_result s)) (s_vres s) end) ->
  forall ps vr a b, snd (drive F fuel dbg c mask r answers) = FComplete ps vr a b -> result_shape mask ps vr.
Proof.
  induction answers as [|ans rest IH]; intros r HR ps vr a b E.
  - destruct r as [[[|w rq] s]| e | |]; cbn [drive snd] in E; try discriminate E.
    inversion E; subst. exact (HR _ _ eq_refl).
  - destruct r as [[[|w rq] s]| e | |]; cbn [drive] in E; try discriminate E.
    + cbn [snd] in E. inversion E; subst. exact (HR _ _ eq_refl).
    + destruct (HR _ _ eq_refl) as [SZ VN].
      destruct (drive F fuel dbg c mask (resume F fuel dbg c mask w ans s) rest) as [rqs f] eqn:D. cbn [snd] in E. subst f.
      apply (IH (resume F fuel dbg c mask w ans s)) with (a := a) (b := b); [|rewrite D; reflexivity].
      intros o s' ER. unfold resume in ER.
      destruct (resume_apply F c mask w ans s) as [s1| | |] eqn:RA; cbn [bind] in ER; try discriminate ER.
      destruct (resume_apply_result _ _ _ _ _ _ RA) as [R1 V1].
      apply (ei_pieces dbg c mask fuel s1 o s'); auto; congruence.
Qed.

Lemma run_pieces dbg c fuel program answers reqs ps vr a b mask :
  new_mask dbg (e_asz (c_enc c)) = Ok mask ->
  run F fuel dbg c program answers = (reqs, FComplete ps vr a b) -> result_shape mask ps vr.
Proof.
  intros NM H. unfold run in H. rewrite NM in H.
  apply (drive_pieces dbg c mask fuel answers (evaluate F fuel dbg c mask program)) with (a := a) (b := b); [|now rewrite H].
  intros o s E. unfold evaluate in E.
  destruct (match c_init c with Some v => _ | None => _ end) as [s1| | |] eqn:PI; cbn [bind] in E; try discriminate E.
  assert (I1 : s_result s1 = [] /\ s_vres s1 = None).
  { destruct (c_init c); [apply push_inv in PI; subst|inversion PI; subst]; now split. }
  destruct I1 as [R1 V1]. apply (ei_pieces dbg c mask fuel s1 o s); auto. rewrite R1. constructor.
Qed.
End Pieces.

(* ---------------------------------------------------------------- the normalised machine keeps its stack canonical *)
Definition gcanon (bits : N) (v : value) : Prop := vty v = TGeneric -> vbits v < 2 ^ bits.
Definition canon_stack (c : cfg) (s : st) : Prop :=
  match c_canon c with
  | Some bits => Forall (gcanon bits) (s_stack s)
  | None => True
  end.

Lemma norm_gcanon c bits v : c_canon c = Some bits -> gcanon bits (norm c v).
Proof.
  intros E. unfold norm, gcanon. rewrite E. destruct (vty v) eqn:T; cbn [vty vbits]; intros H; try congruence.
  rewrite N.land_ones. apply N.mod_lt, N.pow_nonzero. lia.
Qed.

Ltac forall_inv :=
  repeat match goal with
  | H : _ :: _ = _ :: _ |- _ => inversion H; subst; clear H
  | H : Forall _ (_ :: _) |- _ => inversion H; subst; clear H
  end.

Section Canon.
Variable F : fops.

Lemma eoo_canon dbg c mask s r s' :
  canon_stack c s -> evaluate_one_operation F dbg c mask s = Ok (r, s') -> canon_stack c s'.
Proof.
  unfold canon_stack. destruct (c_canon c) as [bits|] eqn:CC; [|trivial]. intros CS H.
  unfold evaluate_one_operation in H.
  destruct (parse_op dbg (c_enc c) (s_pc (count_op (count_parse s)))) as [[o pc']| | |] eqn:P; cbn [bind] in H; try discriminate H.
  fields.
  destruct o; unfold binop, unop in H; peel; invert_prims; fields;
    repeat match goal with E : s_stack _ = _ |- _ => fields; rewrite E in *; clear E end; fields;
    forall_inv; repeat (apply Forall_cons; [apply (norm_gcanon c bits _ CC)|]); auto.
Qed.

Lemma resume_apply_canon c mask w a s s' :
  canon_stack c s -> resume_apply F c mask w a s = Ok s' -> canon_stack c s'.
Proof.
  unfold canon_stack. destruct (c_canon c) as [bits|] eqn:CC; [|trivial]. intros CS H.
  unfold resume_apply in H.
  destruct w; peel; invert_prims; fields;
    repeat match goal with E : s_stack _ = _ |- _ => fields; rewrite E in *; clear E end; fields;
    forall_inv; repeat (apply Forall_cons; [apply (norm_gcanon c bits _ CC)|]); auto.
Qed.
End Canon.

Section Canon2.
Variable F : fops.

Lemma eoe_stack s : s_stack (snd (end_of_expression s)) = s_stack s.
Proof. unfold end_of_expression. destruct (eoe_loop _ _ _) as [b [[pc bc] es]]. reflexivity. Qed.

Lemma ei_canon dbg c mask : forall fuel s o s',
  canon_stack c s -> evaluate_internal F fuel dbg c mask s = Ok (o, s') -> canon_stack c s'.
Proof.
  induction fuel as [|fuel IH]; intros s o s' CS H; [discriminate H|].
  cbn [evaluate_internal] in H.
  pose proof (eoe_stack s) as ES.
  destruct (end_of_expression s) as [e s1]. cbn [snd] in ES.
  assert (CS1 : canon_stack c s1) by (unfold canon_stack in *; rewrite ES; exact CS).
  destruct e.
  { unfold finish in H. unfold canon_stack in *. destruct (c_canon c) as [bits|]; [|trivial].
    peel; invert_prims; fields;
      repeat match goal with E : s_stack _ = _ |- _ => fields; rewrite E in *; clear E end; fields; forall_inv; auto. }
  destruct (count_iteration dbg c s1) as [s2| | |] eqn:CI; cbn [bind] in H; try discriminate H.
  destruct (count_iteration_fields _ _ _ _ CI) as (CF1 & _).
  destruct (evaluate_one_operation F dbg c mask s2) as [[r s3]| | |] eqn:EO; cbn [bind] in H; try discriminate H.
  assert (CS3 : canon_stack c s3) by (eapply eoo_canon; [|exact EO]; unfold canon_stack in *; rewrite CF1; exact CS1).
  destruct r.
  - eapply IH; [|exact H]. exact CS3.
  - pose proof (eoe_stack s3) as E4. destruct (end_of_expression s3) as [e4 s4]. cbn [snd] in E4.
    destruct (e4 && _); [discriminate H|]. eapply IH; [|exact H]. unfold canon_stack in *. rewrite E4. exact CS3.
  - pose proof (eoe_stack s3) as E4. destruct (end_of_expression s3) as [e4 s4]. cbn [snd] in E4.
    assert (CS4 : canon_stack c s4) by (unfold canon_stack in *; rewrite E4; exact CS3).
    destruct e4.
    + destruct (s_result s4); [|discriminate H].
      destruct (push_piece c s4 _) as [s5| | |] eqn:PP; cbn [bind] in H; try discriminate H.
      apply push_piece_inv in PP. subst s5. eapply IH; [|exact H]. unfold canon_stack in *; fields. exact CS4.
    + cbv zeta in H. fields.
      destruct (parse_op dbg (c_enc c) (s_pc s4)) as [[o2 pc2]| | |] eqn:P2; cbn [bind] in H; try discriminate H.
      destruct o2; peel.
      match goal with PP : push_piece _ _ _ = Ok ?s5 |- _ => apply push_piece_inv in PP; subst s5 end.
      eapply IH; [|exact H]. unfold canon_stack in *; fields. exact CS4.
  - inversion H; subst. exact CS3.
Qed.

(* the normalised machine (c_canon = Some bits): every state handed back to the consumer has a stack whose
   generic values are below 2^bits *)
Lemma normalised_machine_lemma dbg c mask bits : c_canon c = Some bits ->
  (forall fuel program o s, evaluate F fuel dbg c mask program = Ok (o, s) -> Forall (gcanon bits) (s_stack s)) /\
  (forall fuel w a s o s', Forall (gcanon bits) (s_stack s) -> resume F fuel dbg c mask w a s = Ok (o, s') ->
     Forall (gcanon bits) (s_stack s')).
Proof.
  intros CC. split.
  - intros fuel program o s H. unfold evaluate in H.
    destruct (match c_init c with Some v => _ | None => _ end) as [s1| | |] eqn:PI; cbn [bind] in H; try discriminate H.
    assert (CS1 : canon_stack c s1).
    { unfold canon_stack. rewrite CC. destruct (c_init c); [apply push_inv in PI; subst|inversion PI; subst]; fields.
      - constructor; [apply (norm_gcanon c bits _ CC)|constructor].
      - constructor. }
    pose proof (ei_canon dbg c mask fuel s1 o s CS1 H) as R. unfold canon_stack in R. now rewrite CC in R.
  - intros fuel w a s o s' CS H. unfold resume in H.
    destruct (resume_apply F c mask w a s) as [s1| | |] eqn:RA; cbn [bind] in H; try discriminate H.
    assert (CS0 : canon_stack c s) by (unfold canon_stack; now rewrite CC).
    pose proof (resume_apply_canon F c mask w a s s1 CS0 RA) as CS1.
    pose proof (ei_canon dbg c mask fuel s1 o s' CS1 H) as R. unfold canon_stack in R. now rewrite CC in R.
Qed.
End Canon2.

(* ---------------------------------------------------------------- max_iterations = u32::MAX bounds a loop (repair 273f60c) *)
(* DW_OP_skip -3: an expression that jumps to itself *)
Definition loop_prog : list byte := [x2f; xfd; xff].
Definition loop_cfg : cfg := mkCfg (mkEnc 8 false 4 false) None (Some 4294967295) None None None None None.
Definition loop_state (k m : N) : st := mkSt loop_prog loop_prog [] [] [] k None m m.
Definition loop_mask : N := 18446744073709551615.

Lemma loop_eoo dbg k m it :
  evaluate_one_operation no_fops dbg loop_cfg loop_mask (set_iter (loop_state k m) it) =
  Ok (RIncomplete, loop_state it (m + 1)).
Proof. reflexivity. Qed.

Lemma loop_step dbg fuel k m : k < 4294967295 ->
  evaluate_internal no_fops (S fuel) dbg loop_cfg loop_mask (loop_state k m) =
  evaluate_internal no_fops fuel dbg loop_cfg loop_mask (loop_state (k + 1) (m + 1)).
Proof.
  intros H. cbn [evaluate_internal].
  change (end_of_expression (loop_state k m)) with (false, loop_state k m).
  cbv iota beta. unfold count_iteration. change (c_max loop_cfg) with (Some 4294967295).
  change (s_iter (loop_state k m)) with k. cbv iota beta.
  destruct (4294967295 <=? k) eqn:E; [lia|]. rewrite chk_add_iter by lia. cbn [bind].
  rewrite loop_eoo. cbn [bind]. reflexivity.
Qed.

Lemma loop_many dbg fuel : forall j k m, k + N.of_nat j <= 4294967295 ->
  evaluate_internal no_fops (j + fuel) dbg loop_cfg loop_mask (loop_state k m) =
  evaluate_internal no_fops fuel dbg loop_cfg loop_mask (loop_state (k + N.of_nat j) (m + N.of_nat j)).
Proof.
  induction j as [|j IH]; intros k m H.
  - cbn [Nat.add N.of_nat]. now rewrite !N.add_0_r.
  - cbn [Nat.add]. rewrite loop_step by lia. rewrite IH by lia. f_equal. f_equal; lia.
Qed.

Lemma loop_limit dbg fuel m :
  evaluate_internal no_fops (S fuel) dbg loop_cfg loop_mask (loop_state 4294967295 m) = Err ETooManyIterations.
Proof. reflexivity. Qed.

(* with set_max_iterations(u32::MAX) the self-loop is stopped by the limit error after 2^32-1 iterations, in both
   build modes (before the repair: debug panic / release non-termination) *)
Lemma iteration_limit_u32_max_lemma : forall dbg,
  exists fuel, run no_fops fuel dbg loop_cfg loop_prog [] = ([], FErr ETooManyIterations).
Proof.
  intros dbg. exists (N.to_nat 4294967295 + 1)%nat.
  unfold run. replace (new_mask dbg (e_asz (c_enc loop_cfg))) with (@Ok N loop_mask) by (destruct dbg; reflexivity).
  cbv iota beta. unfold evaluate. change (c_init loop_cfg) with (@None N). cbn [bind].
  change (initial_state loop_prog) with (loop_state 0 0).
  rewrite loop_many by (rewrite N2Nat.id; lia). rewrite N2Nat.id. cbn [N.add].
  change (1%nat) with (S 0). rewrite loop_limit. reflexivity.
Qed.

(* ---------------------------------------------------------------- no panic for any iteration limit, or none *)
Section NoPanicRun.
Variable F : fops.

Definition lim_cfg (c : cfg) : Prop := match c_max c with Some n => n <= 4294967295 | None => True end.

Lemma ei_gen_inv dbg c mask fuel s : inv s -> lim_ok c s ->
  evaluate_internal F fuel dbg c mask s <> Panic /\
  forall o s', evaluate_internal F fuel dbg c mask s = Ok (o, s') ->
    inv s' /\ lim_ok c s' /\ (c_max c = None -> s_iter s' = s_iter s).
Proof.
  intros I L. pose proof (ei_gen F dbg c mask fuel s I L) as G. unfold ei_post, lim_ok in *.
  destruct (evaluate_internal F fuel dbg c mask s) as [[o s']| x | |]; split; try discriminate; try contradiction.
  intros o' s'' E. inversion E; subst. destruct G as [I' G]. split; [exact I'|].
  destruct (c_max c) as [n|]; [|split; [exact Logic.I|auto]].
  destruct G as [_ G]. split; [split; [apply L|exact G]|discriminate].
Qed.

Lemma drive_nopanic dbg c mask fuel : forall answers r,
  r <> Panic -> (forall o s, r = Ok (o, s) -> inv s /\ lim_ok c s) ->
  snd (drive F fuel dbg c mask r answers) <> FPanic.
Proof.
  induction answers as [|a rest IH]; intros r NP RI.
  - destruct r as [[[|w rq] s]| e | |]; cbn [drive snd]; try discriminate. contradiction.
  - destruct r as [[[|w rq] s]| e | |]; cbn [drive]; try (cbn [snd]; discriminate); [|contradiction].
    destruct (RI _ _ eq_refl) as [I L].
    specialize (IH (resume F fuel dbg c mask w a s)).
    destruct (drive F fuel dbg c mask (resume F fuel dbg c mask w a s) rest) as [rqs f]. cbn [snd] in *.
    assert (RS : forall s1, resume_apply F c mask w a s = Ok s1 -> inv s1 /\ lim_ok c s1).
    { intros s1 RA. destruct (resume_apply_ok F c mask w a s s1 I RA) as (I1 & J1 & _). split; [exact I1|].
      unfold lim_ok in *. now rewrite J1. }
    apply IH.
    + unfold resume. destruct (resume_apply_nop F c mask w a s) as [RN _].
      destruct (resume_apply F c mask w a s) as [s1| | |] eqn:RA; cbn [bind]; try discriminate; try contradiction.
      destruct (RS s1 eq_refl) as [I1 L1]. now destruct (ei_gen_inv dbg c mask fuel s1 I1 L1).
    + intros o s' E. unfold resume in E.
      destruct (resume_apply F c mask w a s) as [s1| | |] eqn:RA; cbn [bind] in E; try discriminate E.
      destruct (RS s1 eq_refl) as [I1 L1]. destruct (ei_gen_inv dbg c mask fuel s1 I1 L1) as [_ G].
      destruct (G o s' E) as (I' & L' & _). now split.
Qed.

(* for every iteration limit that is a u32 and also with no limit at all, every address size up to 8, every
   program, answer list, fuel and both build modes: the evaluator does not panic *)
Lemma run_no_panic dbg c fuel program answers :
  lim_cfg c -> e_asz (c_enc c) <= 8 -> snd (run F fuel dbg c program answers) <> FPanic.
Proof.
  intros LC AS. unfold run. destruct (new_mask_ok dbg _ AS) as [mask ->].
  assert (II : forall s1, (match c_init c with Some v => push c (initial_state program) (mkV TGeneric v)
                                             | None => Ok (initial_state program) end) = Ok s1 -> inv s1 /\ lim_ok c s1).
  { intros s1 E. assert (X : inv s1 /\ s_iter s1 = 0).
    { destruct (c_init c); [apply push_inv in E; subst|inversion E; subst]; (split; [|reflexivity]).
      - destruct (initial_inv program). unfold inv; fields; auto.
      - apply initial_inv. }
    destruct X as [I1 Z1]. split; [exact I1|]. unfold lim_ok, lim_cfg in *. destruct (c_max c); [lia|exact Logic.I]. }
  apply drive_nopanic.
  - unfold evaluate.
    destruct (match c_init c with Some v => _ | None => _ end) as [s1| | |] eqn:PI; cbn [bind]; try discriminate.
    + destruct (II s1 eq_refl) as [I1 L1]. now destruct (ei_gen_inv dbg c mask fuel s1 I1 L1).
    + destruct (c_init c); [|discriminate PI]. destruct (push_nop c (initial_state program) (mkV TGeneric n)) as [A _]. contradiction.
  - intros o s' E. unfold evaluate in E.
    destruct (match c_init c with Some v => _ | None => _ end) as [s1| | |] eqn:PI; cbn [bind] in E; try discriminate E.
    destruct (II s1 eq_refl) as [I1 L1]. destruct (ei_gen_inv dbg c mask fuel s1 I1 L1) as [_ G].
    destruct (G o s' E) as (I' & L' & _). now split.
Qed.
End NoPanicRun.
