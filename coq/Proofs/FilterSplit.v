(* Proofs/FilterSplit.v — the split-unit filter path (ConvertSplitUnitSection::new_with_filter) on a .dwo section
   with ANY number of units (C19), as repaired (7a2e6de: only the offsets of the converted unit are reserved):
   what it emits, no reference to a DIE that is never emitted, a reference into another unit is an error. *)
From Coq Require Import List NArith ZArith Bool Lia.
Require Import GV.Base.Res GV.Base.Ints GV.Spec.Graph GV.Model.Filter GV.Spec.FilterSpec GV.Model.FilterAttrs.
Require Import GV.Proofs.FilterProofs GV.Proofs.FilterEdges GV.Proofs.FilterConv GV.Proofs.FilterTol GV.Proofs.FilterBounds.
Import ListNotations.
Local Open Scope N_scope.
Local Arguments N.add : simpl never.

Lemma cu_entry_strip : forall u ids st r st', cu_entry u ids st r = Ok st' -> cu_entry u ids st (strip_raw r) = Ok st'.
Proof.
  intros u ids [ps out] r st' H. unfold cu_entry in *. cbn [strip_raw r_ent r_depth r_kids e_off e_sites].
  destruct (mem_n (sec u (e_off (r_ent r))) ids); [|exact H].
  destruct (conv_sites u ids (e_sites (r_ent r))) as [[]| | |]; cbn [bind] in H; try discriminate. exact H.
Qed.

Lemma cu_entries_strip : forall u ids rs st st', cu_entries u ids st rs = Ok st' ->
  cu_entries u ids st (map strip_raw rs) = Ok st'.
Proof.
  intros u ids rs. induction rs as [|r rs IH]; intros st st' H; cbn [cu_entries map] in *; [exact H|].
  destruct (cu_entry u ids st r) as [st1| | |] eqn:E; cbn [bind] in H; try discriminate.
  rewrite (cu_entry_strip _ _ _ _ _ E). cbn [bind]. now apply IH.
Qed.

(* a strict conversion that succeeds emits what the tolerant loop emits *)
Lemma convert_units_strip : forall ids units out out', convert_units ids units out = Ok out' ->
  convert_units_tol ids units out = Ok out'.
Proof.
  intros ids units. induction units as [|u us IH]; intros out out' H; cbn [convert_units convert_units_tol] in *; [exact H|].
  match type of H with context [cu_entries u ids ?st ?rs] =>
    destruct (cu_entries u ids st rs) as [st1| | |] eqn:E end; cbn [bind] in H; try discriminate.
  rewrite (cu_entries_strip _ _ _ _ _ E). cbn [bind]. now apply IH.
Qed.

Lemma own_offsets_in : forall u S x, In x (own_offsets u S) <-> In x S /\ in_unit u x = true.
Proof. intros u S x. unfold own_offsets. rewrite filter_In. unfold in_unit. tauto. Qed.

Lemma split_units_full : forall rf (dbg : bool) (req : N -> bool) (u0 : unitd) (us : list unitd),
  wf_offsets (u0 :: us) -> wf_layout (u0 :: us) ->
  exists S out,
    reserved rf dbg req (u0 :: us) = Ok S /\
    convert_split_filtered_tol rf dbg req (u0 :: us) = Ok out /\
    (forall x, In x (map fst out) <-> In x S /\ in_unit u0 x = true) /\
    (forall out', convert_split_filtered rf dbg req (u0 :: us) = Ok out' -> out' = out).
Proof.
  intros rf dbg req u0 us Hwf Hlay.
  destruct (filtered_ids rf dbg req (u0 :: us) Hwf Hlay) as [S [ids [HS [Hsort [Hin _]]]]].
  assert (Hvalid : forall x, In x S -> f_valid (u0 :: us) x).
  { intros x Hx. apply Hin in Hx. eapply reach_valid; eauto. }
  destruct (convert_units_tol_char (root_off u0 :: own_offsets u0 S) [u0] []) as [out [Hout Hfst]].
  exists S, out. split; [exact HS|]. split.
  { unfold convert_split_filtered_tol. rewrite HS. exact Hout. }
  split.
  - intros x. rewrite Hfst. cbn [map app]. rewrite unit_raw_offsets.
    unfold section_offsets. cbn [flat_map]. rewrite app_nil_r, filter_In, mem_n_iff, in_map_iff. split.
    + intros [[[e par] [Hx Hp]] Hm]. cbn [fst] in Hx. subst x.
      assert (Hocc : occurs (u0 :: us) u0 e par) by (split; [now left|exact Hp]).
      destruct Hm as [Hr|Hs]; [|now apply own_offsets_in in Hs]. exfalso.
      eapply (valid_not_root (u0 :: us)); [exact Hlay| |exists u0; split; [now left|symmetry; exact Hr]].
      exists u0, e, par. auto.
    + intros [Hs Hu]. destruct (Hvalid _ Hs) as [u' [e' [par' [Hocc' ->]]]].
      assert (Hu' : in_unit u' (sec u' (e_off e')) = true).
      { destruct Hlay as [Hord Hins]. destruct (Hins _ _ _ Hocc') as [H1 H2]. apply in_unit_iff. unfold sec, unit_end. lia. }
      assert (u0 = u').
      { eapply ordered_unit_unique; [exact (proj1 Hlay)|now left|apply Hocc'|exact Hu|exact Hu']. }
      subst u'. split; [exists (e', par'); split; [reflexivity|apply Hocc']|].
      right. apply own_offsets_in. auto.
  - intros out' H. unfold convert_split_filtered in H. rewrite HS in H. cbn [bind] in H.
    apply convert_units_strip in H. rewrite Hout in H. now inversion H.
Qed.

(* every reference the strict split conversion resolves for an emitted DIE names the root DIE or an emitted DIE *)
Lemma split_refs_full : forall (dbg : bool) (req : N -> bool) (u0 : unitd) (us : list unitd) out,
  wf_offsets (u0 :: us) -> wf_layout (u0 :: us) ->
  convert_split_filtered filter_refs dbg req (u0 :: us) = Ok out ->
  forall e par s y, In (e, par) (unit_pairs u0) -> In (sec u0 (e_off e)) (map fst out) ->
    In s (e_sites e) -> In y (conv_refs u0 s) ->
    y = root_off u0 \/ In y (map fst out).
Proof.
  intros dbg req u0 us out Hwf Hlay Hrun e par s y Hp He Hs Hy.
  destruct (split_units_full filter_refs dbg req u0 us Hwf Hlay) as [S [out' [HS [_ [Hchar Heq]]]]].
  rewrite (Heq _ Hrun) in *. clear Heq.
  unfold convert_split_filtered in Hrun. rewrite HS in Hrun. cbn [bind] in Hrun.
  assert (Hraw : exists r, In r (unit_raw u0) /\ r_ent r = e).
  { assert (H : In e (map r_ent (unit_raw u0))).
    { rewrite unit_raw_ents. apply in_map_iff. exists (e, par). auto. }
    apply in_map_iff in H. destruct H as [r [Hr Hin]]. eauto. }
  destruct Hraw as [r [Hr Hre]].
  assert (Hm : mem_n (ent_sec u0 r) (root_off u0 :: own_offsets u0 S) = true).
  { apply mem_n_iff. right. unfold ent_sec. rewrite Hre. apply own_offsets_in. now apply Hchar. }
  pose proof (convert_units_sites _ _ _ _ Hrun u0 r (or_introl eq_refl) Hr Hm) as Hc.
  rewrite Hre in Hc. rewrite conv_sites_ok in Hc. specialize (Hc s Hs). apply conv_site_ok in Hc.
  destruct Hc as [_ Hc]. destruct (Hc y Hy) as [<-|HyS]; [now left|right].
  apply Hchar. now apply own_offsets_in.
Qed.

(* a reference from a reserved DIE of the first unit to a reachable DIE of ANOTHER unit of the .dwo section is
   a .debug_info-form reference, its conversion fails with InvalidDebugInfoRef, and the split conversion does
   not succeed - the error ConvertUnit::convert_split reports for it *)
Lemma split_foreign_ref_is_error_full : forall (dbg : bool) (req : N -> bool) (u0 : unitd) (us : list unitd) S,
  wf_offsets (u0 :: us) -> wf_layout (u0 :: us) ->
  reserved filter_refs dbg req (u0 :: us) = Ok S ->
  forall e par s y, In (e, par) (unit_pairs u0) -> In (sec u0 (e_off e)) S ->
    In s (e_sites e) -> In y (conv_refs u0 s) -> split_foreign u0 S y = true ->
    site_unit_relative s = false /\
    conv_site u0 (root_off u0 :: own_offsets u0 S) s = Err CInvalidDebugInfoRef /\
    forall out, convert_split_filtered filter_refs dbg req (u0 :: us) <> Ok out.
Proof.
  intros dbg req u0 us S Hwf Hlay HS e par s y Hp HeS Hs Hy Hf.
  unfold split_foreign in Hf. apply andb_true_iff in Hf. destruct Hf as [HyS Hout].
  assert (Hnu : in_unit u0 y = false).
  { unfold in_unit. destruct (to_unit_offset u0 y); [discriminate|reflexivity]. }
  assert (Hocc : occurs (u0 :: us) u0 e par) by (split; [now left|exact Hp]).
  assert (Hroot : in_unit u0 (root_off u0) = true).
  { destruct Hlay as [_ Hins]. destruct (Hins _ _ _ Hocc) as [H1 H2]. apply in_unit_iff. unfold root_off, sec, unit_end. lia. }
  assert (Hnot : ~ In y (root_off u0 :: own_offsets u0 S)).
  { intros [<-|H]; [congruence|]. apply own_offsets_in in H. destruct H. congruence. }
  assert (Hrel : site_unit_relative s = false).
  { destruct (site_unit_relative s) eqn:E; [|reflexivity].
    pose proof (unit_relative_target_in_unit u0 s y E (filter_refs_complete u0 s y Hy)). congruence. }
  assert (Hsite : conv_site u0 (root_off u0 :: own_offsets u0 S) s = Err CInvalidDebugInfoRef).
  { destruct s as [car v]. unfold conv_site, conv_refs in *. cbn [s_car s_val] in *.
    assert (Hi : In y [v] -> convert_debug_info_ref (root_off u0 :: own_offsets u0 S) v = Err CInvalidDebugInfoRef).
    { intros [<-|[]]. unfold convert_debug_info_ref.
      destruct (mem_n v (root_off u0 :: own_offsets u0 S)) eqn:Em; [apply mem_n_iff in Em; contradiction|reflexivity]. }
    destruct car as [| |nest op|k nest op]; cbn [site_unit_relative s_car] in Hrel; try discriminate; auto;
      destruct op; cbn [op_is_info negb] in Hrel; try discriminate; cbn [conv_op conv_op_refs] in *; auto. }
  split; [exact Hrel|]. split; [exact Hsite|].
  intros out Hrun.
  destruct (split_units_full filter_refs dbg req u0 us Hwf Hlay) as [S' [out' [HS' [_ [Hchar Heq]]]]].
  rewrite HS in HS'. inversion HS'; subst S'.
  assert (He : In (sec u0 (e_off e)) (map fst out)).
  { rewrite (Heq _ Hrun). apply Hchar. split; [exact HeS|].
    destruct Hlay as [_ Hins]. destruct (Hins _ _ _ Hocc) as [H1 H2]. apply in_unit_iff. unfold sec, unit_end. lia. }
  destruct (split_refs_full dbg req u0 us out Hwf Hlay Hrun e par s y Hp He Hs Hy) as [->|Hin]; [congruence|].
  rewrite (Heq _ Hrun) in Hin. apply Hchar in Hin. destruct Hin. congruence.
Qed.

(* ------------------------------------------------------------------------------------------ *)
(* a .dwo section with two units, a variable of the first unit whose DW_AT_type is a DW_FORM_ref_addr reference
   to a struct of the second unit (the input of the repaired defect) *)
Definition sx_var : entry :=
  {| e_off := 21; e_tag := 52; e_decl := false; e_sites := [ {| s_car := CAttrInfo; s_val := 131 |} ] |}.
Definition sx_ns : entry := {| e_off := 21; e_tag := 57; e_decl := false; e_sites := [] |}.
Definition sx_struct : entry := {| e_off := 31; e_tag := 19; e_decl := false; e_sites := [] |}.
Definition sx_u0 : unitd := {| u_off := 0; u_hdr := 11; u_len := 30; u_kids := [ Node sx_var [] ] |}.
Definition sx_units : list unitd :=
  [ sx_u0; {| u_off := 100; u_hdr := 11; u_len := 40; u_kids := [ Node sx_ns [ Node sx_struct [] ] ] |} ].

Lemma sx_wf : wf_offsets sx_units /\ wf_layout sx_units.
Proof.
  split.
  - unfold wf_offsets. cbn. repeat constructor; cbn; intuition discriminate.
  - split; [cbn; intuition; subst; cbn; discriminate|].
    intros u e par [[<-|[<-|[]]] Hin]; cbn in Hin;
      repeat (destruct Hin as [H|Hin]; [inversion H; subst; cbn; split; reflexivity|]); destruct Hin.
Qed.

Lemma split_foreign_example :
  wf_offsets sx_units /\ wf_layout sx_units /\
  reserved filter_refs true (fun x => x =? 21) sx_units = Ok [21; 121; 131] /\
  split_foreign sx_u0 [21; 121; 131] 131 = true /\
  convert_split_filtered filter_refs true (fun x => x =? 21) sx_units = Err CInvalidDebugInfoRef /\
  convert_split_filtered filter_refs false (fun x => x =? 21) sx_units = Err CInvalidDebugInfoRef /\
  convert_split_filtered_tol filter_refs true (fun x => x =? 21) sx_units = Ok [(21, 11)] /\
  convert_all [sx_u0] = Err CInvalidDebugInfoRef.
Proof.
  split; [apply sx_wf|]. split; [apply sx_wf|].
  repeat split; vm_compute; reflexivity.
Qed.
