(* Proofs/FilterSplit.v — the split-unit filter path (ConvertSplitUnitSection::new_with_filter) on a .dwo section
   with ANY number of units (C19): what it emits, and which references it resolves although the target is
   never emitted. *)
From Coq Require Import List NArith ZArith Bool Lia.
Require Import GV.Base.Res GV.Base.Ints GV.Spec.Graph GV.Model.Filter GV.Spec.FilterSpec GV.Model.FilterAttrs.
Require Import GV.Proofs.FilterProofs GV.Proofs.FilterEdges GV.Proofs.FilterConv GV.Proofs.FilterTol GV.Proofs.FilterBounds.
Import ListNotations.
Local Open Scope N_scope.
Local Arguments N.add : simpl never.

Lemma cu_entry_strip : forall u ids st r st', cu_entry u ids st r = Ok st' -> cu_entry u ids st (strip_raw r) = Ok st'.
Proof.
  intros u ids [ps out] r st' H. unfold cu_entry in *. cbn [strip_raw r_ent r_depth r_kids e_off e_sites].
  destruct (mem_n (sec u (e_off (r_ent r))) ids); [|exact H].
  destruct (conv_sites u ids (e_sites (r_ent r))) as [[]| | |]; cbn [bind] in H; try discriminate. exact H.
Qed.

Lemma cu_entries_strip : forall u ids rs st st', cu_entries u ids st rs = Ok st' ->
  cu_entries u ids st (map strip_raw rs) = Ok st'.
Proof.
  intros u ids rs. induction rs as [|r rs IH]; intros st st' H; cbn [cu_entries map] in *; [exact H|].
  destruct (cu_entry u ids st r) as [st1| | |] eqn:E; cbn [bind] in H; try discriminate.
  rewrite (cu_entry_strip _ _ _ _ _ E). cbn [bind]. now apply IH.
Qed.

(* a strict conversion that succeeds emits what the tolerant loop emits *)
Lemma convert_units_strip : forall ids units out out', convert_units ids units out = Ok out' ->
  convert_units_tol ids units out = Ok out'.
Proof.
  intros ids units. induction units as [|u us IH]; intros out out' H; cbn [convert_units convert_units_tol] in *; [exact H|].
  match type of H with context [cu_entries u ids ?st ?rs] =>
    destruct (cu_entries u ids st rs) as [st1| | |] eqn:E end; cbn [bind] in H; try discriminate.
  rewrite (cu_entries_strip _ _ _ _ _ E). cbn [bind]. now apply IH.
Qed.

Lemma split_units_full : forall rf (dbg : bool) (req : N -> bool) (u0 : unitd) (us : list unitd),
  wf_offsets (u0 :: us) -> wf_layout (u0 :: us) ->
  exists S out,
    reserved rf dbg req (u0 :: us) = Ok S /\
    convert_split_filtered_tol rf dbg req (u0 :: us) = Ok out /\
    (forall x, In x (map fst out) <-> In x S /\ in_unit u0 x = true) /\
    (forall out', convert_split_filtered rf dbg req (u0 :: us) = Ok out' -> out' = out).
Proof.
  intros rf dbg req u0 us Hwf Hlay.
  destruct (filtered_ids rf dbg req (u0 :: us) Hwf Hlay) as [S [ids [HS [Hsort [Hin _]]]]].
  assert (Hvalid : forall x, In x S -> f_valid (u0 :: us) x).
  { intros x Hx. apply Hin in Hx. eapply reach_valid; eauto. }
  destruct (convert_units_tol_char (root_off u0 :: S) [u0] []) as [out [Hout Hfst]].
  exists S, out. split; [exact HS|]. split.
  { unfold convert_split_filtered_tol. rewrite HS. exact Hout. }
  split.
  - intros x. rewrite Hfst. cbn [map app]. rewrite unit_raw_offsets.
    unfold section_offsets. cbn [flat_map]. rewrite app_nil_r, filter_In, mem_n_iff, in_map_iff. split.
    + intros [[[e par] [Hx Hp]] Hm]. cbn [fst] in Hx. subst x.
      assert (Hocc : occurs (u0 :: us) u0 e par) by (split; [now left|exact Hp]).
      destruct Hlay as [Hord Hins]. destruct (Hins _ _ _ Hocc) as [H1 H2].
      split.
      * destruct Hm as [Hr|Hs]; [|exact Hs]. exfalso.
        eapply (valid_not_root (u0 :: us)); [split; eauto| |exists u0; split; [now left|symmetry; exact Hr]].
        exists u0, e, par. auto.
      * apply in_unit_iff. unfold sec, unit_end. lia.
    + intros [Hs Hu]. destruct (Hvalid _ Hs) as [u' [e' [par' [Hocc' ->]]]].
      assert (Hu' : in_unit u' (sec u' (e_off e')) = true).
      { destruct Hlay as [Hord Hins]. destruct (Hins _ _ _ Hocc') as [H1 H2]. apply in_unit_iff. unfold sec, unit_end. lia. }
      assert (u0 = u').
      { eapply ordered_unit_unique; [exact (proj1 Hlay)|now left|apply Hocc'|exact Hu|exact Hu']. }
      subst u'. split; [exists (e', par'); split; [reflexivity|apply Hocc']|now right].
  - intros out' H. unfold convert_split_filtered in H. rewrite HS in H. cbn [bind] in H.
    apply convert_units_strip in H. rewrite Hout in H. now inversion H.
Qed.

(* every reference the strict split conversion resolves for an emitted DIE names the root, an emitted DIE, or -
   the known class - a reserved DIE of ANOTHER unit of the .dwo section, which is never emitted *)
Lemma split_refs_full : forall (dbg : bool) (req : N -> bool) (u0 : unitd) (us : list unitd) S out,
  wf_offsets (u0 :: us) -> wf_layout (u0 :: us) ->
  reserved filter_refs dbg req (u0 :: us) = Ok S ->
  convert_split_filtered filter_refs dbg req (u0 :: us) = Ok out ->
  forall e par s y, In (e, par) (unit_pairs u0) -> In (sec u0 (e_off e)) (map fst out) ->
    In s (e_sites e) -> In y (conv_refs u0 s) ->
    y = root_off u0 \/ In y (map fst out) \/ split_foreign u0 S y = true.
Proof.
  intros dbg req u0 us S out Hwf Hlay HS Hrun e par s y Hp He Hs Hy.
  destruct (split_units_full filter_refs dbg req u0 us Hwf Hlay) as [S' [out' [HS' [_ [Hchar Heq]]]]].
  rewrite HS in HS'. inversion HS'; subst S'. rewrite (Heq _ Hrun) in *. clear Heq.
  unfold convert_split_filtered in Hrun. rewrite HS in Hrun. cbn [bind] in Hrun.
  assert (HeS : In (sec u0 (e_off e)) S) by (apply Hchar in He; tauto).
  assert (Hraw : exists r, In r (unit_raw u0) /\ r_ent r = e).
  { assert (H : In e (map r_ent (unit_raw u0))).
    { rewrite unit_raw_ents. apply in_map_iff. exists (e, par). auto. }
    apply in_map_iff in H. destruct H as [r [Hr Hin]]. eauto. }
  destruct Hraw as [r [Hr Hre]].
  assert (Hm : mem_n (ent_sec u0 r) (root_off u0 :: S) = true).
  { apply mem_n_iff. right. unfold ent_sec. now rewrite Hre. }
  pose proof (convert_units_sites _ _ _ _ Hrun u0 r (or_introl eq_refl) Hr Hm) as Hc.
  rewrite Hre in Hc. rewrite conv_sites_ok in Hc. specialize (Hc s Hs). apply conv_site_ok in Hc.
  destruct Hc as [_ Hc]. destruct (Hc y Hy) as [<-|HyS]; [now left|right].
  destruct (in_unit u0 y) eqn:Eu.
  - left. apply Hchar. auto.
  - right. unfold split_foreign. apply andb_true_iff. split; [now apply mem_n_iff|].
    unfold in_unit in Eu. destruct (to_unit_offset u0 y); [discriminate|reflexivity].
Qed.

(* ------------------------------------------------------------------------------------------ *)
(* the known class is inhabited: a .dwo section with two units, a variable of the first unit whose DW_AT_type is
   a DW_FORM_ref_addr reference to a struct of the second unit *)
Definition sx_var : entry :=
  {| e_off := 21; e_tag := 52; e_decl := false; e_sites := [ {| s_car := CAttrInfo; s_val := 131 |} ] |}.
Definition sx_ns : entry := {| e_off := 21; e_tag := 57; e_decl := false; e_sites := [] |}.
Definition sx_struct : entry := {| e_off := 31; e_tag := 19; e_decl := false; e_sites := [] |}.
Definition sx_u0 : unitd := {| u_off := 0; u_hdr := 11; u_len := 30; u_kids := [ Node sx_var [] ] |}.
Definition sx_units : list unitd :=
  [ sx_u0; {| u_off := 100; u_hdr := 11; u_len := 40; u_kids := [ Node sx_ns [ Node sx_struct [] ] ] |} ].

Lemma sx_wf : wf_offsets sx_units /\ wf_layout sx_units.
Proof.
  split.
  - unfold wf_offsets. cbn. repeat constructor; cbn; intuition discriminate.
  - split; [cbn; intuition; subst; cbn; discriminate|].
    intros u e par [[<-|[<-|[]]] Hin]; cbn in Hin;
      repeat (destruct Hin as [H|Hin]; [inversion H; subst; cbn; split; reflexivity|]); destruct Hin.
Qed.

Lemma split_dangling_witness :
  wf_offsets sx_units /\ wf_layout sx_units /\
  reserved filter_refs true (fun x => x =? 21) sx_units = Ok [21; 121; 131] /\
  convert_split_filtered filter_refs true (fun x => x =? 21) sx_units = Ok [(21, 11)] /\
  convert_split_filtered filter_refs false (fun x => x =? 21) sx_units = Ok [(21, 11)] /\
  In 131 (conv_refs sx_u0 {| s_car := CAttrInfo; s_val := 131 |}) /\
  split_foreign sx_u0 [21; 121; 131] 131 = true /\
  convert_all [sx_u0] = Err CInvalidDebugInfoRef.
Proof.
  split; [apply sx_wf|]. split; [apply sx_wf|].
  repeat split; try (vm_compute; reflexivity). cbn. now left.
Qed.
