(* Proofs/SibOvSibProofs.v — next_sibling over units whose DW_AT_sibling values are overridden by values of
   the IGNORED class (Proofs/SibOvProofs.v, SibBadProofs.v): copy of NavProofs.skip_list / skip_tree /
   siblings_iter over evs_ov. An overridden entry takes the scanning path (bad_sibling_ignored), an entry
   with the correct value may jump; both reach the state behind the subtree. *)
From Coq Require Import List NArith ZArith Bool Lia ZifyBool ZifyN ZifyNat.
From Coq.Strings Require Import Byte.
Require Import GV.Base.Res GV.Base.Byt GV.Base.Ints GV.Model.Leb GV.Model.Prim
               GV.Spec.LebSpec GV.Spec.FormSpec GV.Model.Attr GV.Spec.Forest GV.Model.AbbrevRd
               GV.Model.DieRd GV.Proofs.AttrProofs GV.Proofs.AbbrevRdProofs GV.Proofs.DieRdProofs GV.Proofs.NavProofs
               GV.Proofs.SibBadProofs GV.Proofs.SibOvProofs GV.Proofs.SibOvTreeProofs.
Import ListNotations.
Local Open Scope N_scope.
Local Arguments N.add : simpl never.
Local Arguments N.sub : simpl never.
Local Arguments N.mul : simpl never.
Local Arguments N.pow : simpl never.
Local Arguments N.of_nat : simpl never.
Local Arguments Z.add : simpl never.
Local Arguments Z.sub : simpl never.

Section OvSib.
  Variables (codes : coding) (ov : N -> option N) (dbg : bool) (e : enc) (tbl : abbrevs) (E : N) (rest : list byte).

  (* the override of the entry at p is of the ignored class: backward or the entry itself, inside the
     entry's own bytes, or beyond the end E of the unit *)
  Definition ig (p : N * tree) : Prop :=
    match ov (fst p) with
    | Some w => w <= fst p \/ w < kids_off codes (fst p) (snd p) \/ E < w
    | None => True
    end.
  Definition pk (p : N * tree) : Prop := placed_ok_ov codes ov e tbl p /\ ig p.

  Lemma tail_ov_bytes_len d off t :
    kids_off codes off t + nlen (xbytes (tail_ov codes ov (be e) d off t)) = off + tree_size codes t.
  Proof.
    destruct (evs_ov_facts codes ov (be e) t d off) as (_ & L & _ & _).
    rewrite evs_ov_tail, xbytes_cons, nlen_app in L. cbn [head_ev_ov x_bytes] in L. rewrite head_bytes_ov_len in L.
    pose proof (kids_off_ge codes off t). lia.
  Qed.

  Lemma sibling_jump_root_ov r d off t l2 :
    node_ok codes e t -> ig (off, t) ->
    at_chain dbg e tbl E rest r (tail_ov codes ov (be e) d off t ++ l2) ->
    E = kids_off codes off t + nlen (xbytes (tail_ov codes ov (be e) d off t ++ l2) ++ rest) ->
    sibling_jump dbg r (root_die_ov codes ov off d t) = Ok r \/
    sibling_jump dbg r (root_die_ov codes ov off d t) = Ok (mkRaw (xbytes l2 ++ rest) E d).
  Proof.
    intros [_ Hitems] Hig Hat HE.
    assert (Hle : nlen (r_in r) <= r_end r /\ r_end r = E /\ r_in r = xbytes (tail_ov codes ov (be e) d off t ++ l2) ++ rest).
    { destruct Hat as [_ Hin Hend _ Hle _ _]. rewrite Hin, Hend. repeat split; assumption. }
    destruct Hle as (Hle & Hend & Hin).
    unfold ig in Hig. cbn [fst snd] in Hig. unfold sibling_jump. cbn [root_die_ov d_children].
    destruct (has_children t); [|left; reflexivity].
    fold (root_die_ov codes ov off d t).
    unfold die_sibling, die_attr_value, root_die_ov. cbn [d_attrs d_offset].
    destruct (find _ _) as [[s v]|] eqn:F; [|left; reflexivity].
    apply (find_sibling e) in F; [|exact Hitems]. destruct F as [Hs ->]. rewrite Hs.
    change (attr_normalise DW_AT_sibling (VUnitRef ?x)) with (VUnitRef x). cbv beta iota.
    unfold sibv in *. destruct (ov off) as [w|].
    - (* overridden: ignored *)
      left. destruct (N.ltb_spec off w) as [Hlt|Hge]; [|reflexivity].
      unfold seek_forward, next_offset, chk_sub. replace (nlen (r_in r) <=? r_end r) with true by lia. cbn [bind].
      assert (Hno : r_end r - nlen (r_in r) = kids_off codes off t) by (rewrite Hend, Hin; lia).
      rewrite Hno. destruct (N.ltb_spec w (kids_off codes off t)) as [Hb|Hb]; [reflexivity|].
      destruct Hig as [Hig|[Hig|Hig]]; try lia.
      destruct (skip_n_short (w - kids_off codes off t) (r_in r) ltac:(lia)) as (x & ->). reflexivity.
    - (* the correct value *)
      pose proof (tree_size_pos codes t).
      destruct (N.ltb_spec off (off + tree_size codes t)); [|lia]. right.
      unfold seek_forward, next_offset, chk_sub. replace (nlen (r_in r) <=? r_end r) with true by lia. cbn [bind].
      pose proof (tail_ov_bytes_len d off t) as Ht.
      pose proof (at_chain_nil _ _ _ _ _ _ _ Hat) as Er.
      rewrite Hend, Hin. rewrite xbytes_app, <- app_assoc, !nlen_app in *.
      replace (off + tree_size codes t <? E - (nlen (xbytes (tail_ov codes ov (be e) d off t)) + (nlen (xbytes l2) + nlen rest)))
        with false by lia.
      replace (off + tree_size codes t - (E - (nlen (xbytes (tail_ov codes ov (be e) d off t)) + (nlen (xbytes l2) + nlen rest))))
        with (nlen (xbytes (tail_ov codes ov (be e) d off t))) by lia.
      rewrite skip_n_app_len. cbn [bind d_depth]. reflexivity.
  Qed.

  Definition skip_claim_ov (T : Z) (t : tree) : Prop :=
    forall d off l2 c, (T <= d)%Z ->
      c_cur c = root_die_ov codes ov off d t ->
      at_chain dbg e tbl E rest (c_raw c) (tail_ov codes ov (be e) d off t ++ l2) ->
      r_depth (c_raw c) = post_depth d t ->
      E = kids_off codes off t + nlen (xbytes (tail_ov codes ov (be e) d off t ++ l2) ++ rest) ->
      Forall pk (placed codes off t) ->
      forall f r cur', sib_half f dbg e tbl T (mkCur (mkRaw (xbytes l2 ++ rest) E d) cur') = r -> ans r <> AOOF ->
      exists f', ans (sibling_loop f' dbg e tbl T c) = ans r.

  Lemma skip_list_ov T : forall ks D off' m r0,
    (T < D)%Z -> Forall (skip_claim_ov T) ks ->
    at_chain dbg e tbl E rest r0 (evs_list_ov codes ov (be e) D off' ks ++ m) -> r_depth r0 = D ->
    E = off' + nlen (xbytes (evs_list_ov codes ov (be e) D off' ks ++ m) ++ rest) ->
    Forall pk (on_list (placed codes) (tree_size codes) off' ks) ->
    forall f r cur', sib_half f dbg e tbl T (mkCur (mkRaw (xbytes m ++ rest) E D) cur') = r -> ans r <> AOOF ->
    exists f', forall cur'', ans (sib_half f' dbg e tbl T (mkCur r0 cur'')) = ans r.
  Proof.
    induction ks as [|k ks IH]; intros D off' m r0 HT Hcl Hat Hd HE Hp f r cur' Hr Hoof.
    - exists f. intros cur''. unfold evs_list_ov in Hat. cbn [on_list app] in Hat.
      rewrite (at_chain_nil _ _ _ _ _ _ _ Hat), Hd, <- Hr. apply sib_half_cur.
    - apply Forall_cons_iff in Hcl. destruct Hcl as [Hk Hks].
      unfold evs_list_ov in Hat, HE. rewrite on_list_cons in Hat, HE. rewrite on_list_cons in Hp.
      fold (evs_list_ov codes ov (be e) D (off' + tree_size codes k) ks) in Hat, HE.
      apply Forall_app in Hp. destruct Hp as [Hpk Hpks].
      rewrite evs_ov_tail in Hat, HE. rewrite <- !app_assoc in Hat, HE. cbn [app] in Hat, HE.
      set (l2 := evs_list_ov codes ov (be e) D (off' + tree_size codes k) ks ++ m) in *.
      destruct (at_chain_step _ _ _ _ _ _ _ _ Hat) as (_ & Hat1 & _).
      cbn [head_ev_ov x_post] in Hat1.
      pose proof (at_chain_drop _ _ _ _ _ _ _ _ Hat1) as Hat2. cbn [r_depth] in Hat2.
      rewrite tail_ov_end_depth in Hat2.
      assert (HE1 : E = kids_off codes off' k + nlen (xbytes (tail_ov codes ov (be e) D off' k ++ l2) ++ rest)).
      { rewrite xbytes_cons in HE. cbn [head_ev_ov x_bytes] in HE. rewrite <- app_assoc, nlen_app, head_bytes_ov_len in HE.
        pose proof (kids_off_ge codes off' k). lia. }
      assert (HE2 : E = off' + tree_size codes k + nlen (xbytes l2 ++ rest)).
      { pose proof (tail_ov_bytes_len D off' k). rewrite xbytes_app, <- app_assoc, nlen_app in HE1. lia. }
      destruct (IH D (off' + tree_size codes k) m (mkRaw (xbytes l2 ++ rest) E D) HT Hks Hat2 eq_refl HE2 Hpks f r cur' Hr Hoof)
        as (f1 & Hf1).
      set (c1 := mkCur (mkRaw (xbytes (tail_ov codes ov (be e) D off' k ++ l2) ++ rest) E (post_depth D k))
                       (root_die_ov codes ov off' D k)).
      destruct (Hk D off' l2 c1 ltac:(lia) eq_refl Hat1 eq_refl HE1 Hpk f1
                   (sib_half f1 dbg e tbl T (mkCur (mkRaw (xbytes l2 ++ rest) E D) null_die)) null_die eq_refl)
        as (f2 & Hf2); [rewrite Hf1; exact Hoof|].
      exists f2. intros cur''. unfold sib_half at 1.
      rewrite (next_entry_chain dbg e tbl E rest (mkCur r0 cur'') _ _ Hat). cbn [bind c_cur head_ev_ov x_die x_post root_die_ov d_depth].
      replace (D =? T)%Z with false by lia. fold (root_die_ov codes ov off' D k). fold c1.
      rewrite Hf2. apply Hf1.
  Qed.

  Lemma skip_tree_ov T : forall t, skip_claim_ov T t.
  Proof.
    induction t as [tag flag items kids IH] using tree_ind'.
    set (t := Node tag flag items kids) in *.
    intros d off l2 c HT Hcur Hat Hdep HE Hp f r cur' Hr Hoof.
    rewrite placed_unfold in Hp. apply Forall_cons_iff in Hp. destruct Hp as [((Hcv & Hn & Hfit) & Hig) Hpk]. cbn [snd] in *.
    change (t_kids t) with kids in Hpk.
    assert (Hcurrent : current c = Some (root_die_ov codes ov off d t)).
    { unfold current. rewrite Hcur, (root_die_ov_not_null codes ov e off d t Hn). reflexivity. }
    assert (Direct : forall g, ans (sib_half g dbg e tbl T (mkCur (mkRaw (xbytes l2 ++ rest) E d) (c_cur c))) =
                               ans (sib_half g dbg e tbl T (mkCur (mkRaw (xbytes l2 ++ rest) E d) cur'))).
    { intros g. apply sib_half_cur. }
    destruct (sibling_jump_root_ov (c_raw c) d off t l2 Hn Hig Hat HE) as [J|J].
    - destruct (has_children t) eqn:Hc.
      + unfold tail_ov in Hat, HE. rewrite Hc in Hat, HE. change (t_kids t) with kids in Hat, HE.
        rewrite <- app_assoc in Hat, HE. cbn [app] in Hat, HE.
        set (nul := null_ev (off + tree_size codes t - 1) (d + 1)) in *.
        unfold post_depth in Hdep. rewrite Hc in Hdep.
        pose proof (at_chain_drop _ _ _ _ _ _ _ _ Hat) as Hatm. rewrite Hdep in Hatm.
        assert (Hfacts : Forall (tree_facts codes ov (be e)) kids)
          by (apply Forall_forall; intros k _; apply evs_ov_facts).
        destruct (list_facts codes ov (be e) (d + 1) kids (kids_off codes off t) Hfacts) as (_ & _ & _ & Eend).
        rewrite Eend in Hatm.
        assert (Hm : forall cur0, ans (sib_half (S f) dbg e tbl T
                        (mkCur (mkRaw (xbytes (nul :: l2) ++ rest) E (d + 1)) cur0)) = ans r).
        { intros cur0. unfold sib_half at 1.
          rewrite (next_entry_chain dbg e tbl E rest (mkCur _ cur0) _ _ Hatm).
          cbn [bind c_cur nul null_ev x_die x_post null_at d_depth].
          replace (d + 1 =? T)%Z with false by lia. rewrite sibling_loop_S.
          unfold current at 1. cbn [c_cur is_null d_tag N.eqb c_raw bind].
          replace (d + 1 - 1)%Z with d by lia. rewrite <- Hr. apply sib_half_cur. }
        destruct (skip_list_ov T kids (d + 1)%Z (kids_off codes off t) (nul :: l2) (c_raw c)
                    ltac:(lia) IH Hat Hdep HE Hpk (S f) _ null_die eq_refl) as (f' & Hf'); [rewrite Hm; exact Hoof|].
        exists (S f'). rewrite sibling_loop_S, Hcurrent, J. cbn [bind]. rewrite Hf'. apply Hm.
      + unfold tail_ov in Hat. rewrite Hc in Hat. cbn [app] in Hat.
        unfold post_depth in Hdep. rewrite Hc in Hdep.
        exists (S f). rewrite sibling_loop_S, Hcurrent, J. cbn [bind].
        rewrite (at_chain_nil _ _ _ _ _ _ _ Hat), Hdep, Direct, Hr. reflexivity.
    - exists (S f). rewrite sibling_loop_S, Hcurrent, J. cbn [bind]. rewrite Direct, Hr. reflexivity.
  Qed.

  Definition roots_ov (off : N) (d : Z) (f : list tree) : list die :=
    on_list (fun o t => [root_die_ov codes ov o d t]) (tree_size codes) off f.

  Definition list_end_ov (d : Z) (m : list xev) : Prop :=
    (m = [] /\ rest = []) \/ (exists o l', m = null_ev o d :: l').

  Lemma siblings_iter_ov d m : list_end_ov d m ->
    forall ts t off c1 fuel,
    c_cur c1 = root_die_ov codes ov off d t ->
    at_chain dbg e tbl E rest (c_raw c1)
             (tail_ov codes ov (be e) d off t ++ evs_list_ov codes ov (be e) d (off + tree_size codes t) ts ++ m) ->
    r_depth (c_raw c1) = post_depth d t ->
    E = kids_off codes off t +
        nlen (xbytes (tail_ov codes ov (be e) d off t ++ evs_list_ov codes ov (be e) d (off + tree_size codes t) ts ++ m) ++ rest) ->
    Forall pk (on_list (placed codes) (tree_size codes) off (t :: ts)) ->
    (length ts < fuel)%nat ->
    siblings_all fuel dbg e tbl c1 = Ok (roots_ov (off + tree_size codes t) d ts, None).
  Proof.
    intros Hend. induction ts as [|t' ts IH]; intros t off c1 fuel Hcur Hat Hdep HE Hp Hf;
      (destruct fuel as [|fuel]; [lia|]); cbn [siblings_all];
      rewrite on_list_cons in Hp; apply Forall_app in Hp; destruct Hp as [Hpt Hpts].
    - assert (Hn : node_ok codes e t).
      { rewrite placed_unfold in Hpt. inversion Hpt as [|? ? ((_ & Hn & _) & _) _]. exact Hn. }
      unfold next_sibling. unfold current. rewrite Hcur, (root_die_ov_not_null codes ov e off d t Hn).
      cbn [root_die_ov d_depth]. fold (root_die_ov codes ov off d t).
      unfold evs_list_ov in Hat, HE. cbn [on_list app] in Hat, HE.
      pose proof (at_chain_drop _ _ _ _ _ _ _ _ Hat) as Hat2. rewrite Hdep, tail_ov_end_depth in Hat2.
      assert (Hans : ans (sib_half 0 dbg e tbl d (mkCur (mkRaw (xbytes m ++ rest) E d) null_die)) = ANone).
      { unfold sib_half. destruct Hend as [[-> ->]|(o & l' & ->)].
        - rewrite next_entry_end by reflexivity. reflexivity.
        - rewrite (next_entry_chain dbg e tbl E rest (mkCur _ null_die) _ _ Hat2).
          cbn [bind c_cur null_ev x_die null_at d_depth]. rewrite Z.eqb_refl. reflexivity. }
      destruct (skip_tree_ov d t d off m c1 ltac:(lia) Hcur Hat Hdep HE Hpt 0%nat _ null_die eq_refl)
        as (f' & Hf'); [rewrite Hans; discriminate|].
      rewrite Hans in Hf'. apply sibling_loop_ans in Hf'; [|discriminate].
      destruct (sibling_loop (cursor_fuel c1) dbg e tbl d c1) as [[[dd|] cc|x cc]| | |]; cbn [ans] in Hf'; try discriminate.
      reflexivity.
    - assert (Hn : node_ok codes e t).
      { rewrite placed_unfold in Hpt. inversion Hpt as [|? ? ((_ & Hn & _) & _) _]. exact Hn. }
      assert (Hn' : node_ok codes e t').
      { rewrite on_list_cons in Hpts. apply Forall_app in Hpts. destruct Hpts as [Hpt' _].
        rewrite placed_unfold in Hpt'. inversion Hpt' as [|? ? ((_ & Hn' & _) & _) _]. exact Hn'. }
      unfold next_sibling. unfold current. rewrite Hcur, (root_die_ov_not_null codes ov e off d t Hn).
      cbn [root_die_ov d_depth]. fold (root_die_ov codes ov off d t).
      set (o' := off + tree_size codes t) in *.
      unfold evs_list_ov in Hat, HE. rewrite on_list_cons in Hat, HE.
      fold (evs_list_ov codes ov (be e) d (o' + tree_size codes t') ts) in Hat, HE.
      rewrite evs_ov_tail in Hat, HE. rewrite <- !app_assoc in Hat, HE. cbn [app] in Hat, HE.
      set (l3 := tail_ov codes ov (be e) d o' t' ++ evs_list_ov codes ov (be e) d (o' + tree_size codes t') ts ++ m) in *.
      pose proof (at_chain_drop _ _ _ _ _ _ _ _ Hat) as Hat2. rewrite Hdep, tail_ov_end_depth in Hat2.
      destruct (at_chain_step _ _ _ _ _ _ _ _ Hat2) as (_ & Hat3 & _). cbn [head_ev_ov x_post] in Hat3.
      set (c2 := mkCur (mkRaw (xbytes l3 ++ rest) E (post_depth d t')) (root_die_ov codes ov o' d t')).
      assert (Hans : ans (sib_half 0 dbg e tbl d (mkCur (mkRaw (xbytes (head_ev_ov codes ov (be e) d o' t' :: l3) ++ rest) E d) null_die))
                     = ASome (root_die_ov codes ov o' d t') c2).
      { unfold sib_half. rewrite (next_entry_chain dbg e tbl E rest (mkCur _ null_die) _ _ Hat2).
        cbn [bind c_cur head_ev_ov x_die x_post root_die_ov d_depth]. rewrite Z.eqb_refl.
        fold (root_die_ov codes ov o' d t'). fold c2. unfold current. cbn [c_cur c2].
        rewrite (root_die_ov_not_null codes ov e o' d t' Hn'). reflexivity. }
      destruct (skip_tree_ov d t d off _ c1 ltac:(lia) Hcur Hat Hdep HE Hpt 0%nat _ null_die eq_refl)
        as (f' & Hf'); [rewrite Hans; discriminate|].
      rewrite Hans in Hf'. apply sibling_loop_ans in Hf'; [|discriminate].
      destruct (sibling_loop (cursor_fuel c1) dbg e tbl d c1) as [[[dd|] cc|x cc]| | |]; cbn [ans] in Hf'; try discriminate.
      inversion Hf'; subst dd cc. cbn [bind].
      assert (HE3 : E = kids_off codes o' t' + nlen (xbytes l3 ++ rest)).
      { pose proof (tail_ov_bytes_len d off t) as Ht.
        rewrite xbytes_app, <- app_assoc, nlen_app, xbytes_cons in HE. cbn [head_ev_ov x_bytes] in HE.
        rewrite <- app_assoc, nlen_app, head_bytes_ov_len in HE. pose proof (kids_off_ge codes o' t'). unfold o' in *. lia. }
      rewrite (IH t' o' c2 fuel eq_refl Hat3 eq_refl HE3 Hpts ltac:(cbn in Hf; lia)).
      unfold roots_ov. rewrite on_list_cons. reflexivity.
  Qed.
End OvSib.

(* ------------------------------------------------------------------ *)
(** * The next_sibling walk over the top-level entries of a unit with ignored-class overrides *)
Section UnitOvSib.
  Variables (dbg bigend types : bool) (uoff : N) (h : uheader) (codes : coding) (ov : N -> option N)
            (t : tree) (f : list tree) (pad : nat) (tbl : abbrevs).
  Let e := unit_enc bigend h.
  Let hl := header_len h.
  Let body := enc_forest_ov codes ov bigend hl (t :: f) pad.
  Let hdr := parsed_header bigend types uoff h body.
  Hypothesis He : addr_size_ok e.
  Hypothesis Hlen : hl + nlen body < two63.
  Hypothesis Hcov : all_covered tbl codes (t :: f).
  Hypothesis Hok : forest_ok codes e (t :: f).
  Hypothesis Hfit : sibs_fit_ov codes ov hl (t :: f).
  Hypothesis Hig : Forall (ig codes ov (hl + nlen body)) (on_list (placed codes) (tree_size codes) hl (t :: f)).

  Lemma siblings_ov :
    exists c c1, entries dbg hdr = Ok c /\ next_entry dbg e tbl c = Ok (SOk true c1) /\
                 c_cur c1 = root_die_ov codes ov hl 0 t /\
                 siblings_all (cursor_fuel c1) dbg e tbl c1 = Ok (roots_ov codes ov (hl + tree_size codes t) 0 f, None).
  Proof.
    set (l := evs_list_ov codes ov bigend 0 hl (t :: f) ++ pad_evs (hl + forest_size codes (t :: f)) 0 pad).
    assert (Hfacts : Forall (tree_facts codes ov bigend) (t :: f))
      by (apply Forall_forall; intros k _; apply evs_ov_facts).
    destruct (list_facts codes ov bigend 0 (t :: f) hl Hfacts) as (B & L & C & Ee).
    assert (Hb : xbytes l = body).
    { unfold l, body, enc_forest_ov. rewrite xbytes_app, B, pad_evs_bytes. reflexivity. }
    assert (Hp : Forall (pk codes ov e tbl (hl + nlen body)) (on_list (placed codes) (tree_size codes) hl (t :: f))).
    { unfold all_covered in Hcov. unfold forest_ok in Hok. unfold sibs_fit_ov in Hfit.
      rewrite Forall_forall in *. intros p Hin. split; [split; [|split]|].
      - apply Hcov. rewrite <- (placed_list_nodes codes (t :: f) hl). apply (in_map snd) in Hin. exact Hin.
      - apply Hok. rewrite <- (placed_list_nodes codes (t :: f) hl). apply (in_map snd) in Hin. exact Hin.
      - apply Hfit. exact Hin.
      - apply Hig. exact Hin. }
    assert (Hev : Forall (ev_ok dbg e tbl) l).
    { unfold l. apply Forall_app. split; [|apply pad_evs_ok].
      change bigend with (be e).
      apply (evs_list_ov_ok_of codes ov dbg e tbl 0 (t :: f) hl).
      - apply Forall_forall. intros k _ d o. apply evs_ov_ok. exact He.
      - eapply Forall_impl; [|exact Hp]. intros p [H _]. exact H. }
    assert (Hch : chain hl 0 l).
    { unfold l. apply chain_app. split; [exact C|]. rewrite Ee, L. apply pad_evs_chain. }
    pose proof (at_chain_init dbg e tbl l hl (hl + nlen body) Hev Hch ltac:(rewrite Hb; reflexivity) Hlen) as Hat.
    rewrite Hb in Hat.
    unfold l, evs_list_ov in Hat. rewrite on_list_cons, evs_ov_tail in Hat.
    fold (evs_list_ov codes ov bigend 0 (hl + tree_size codes t) f) in Hat.
    rewrite <- !app_assoc in Hat. cbn [app] in Hat. change bigend with (be e) in Hat.
    set (m := pad_evs (hl + forest_size codes (t :: f)) 0 pad) in *.
    set (c := mkCur (mkRaw body (hl + nlen body) 0) null_die).
    change (mkRaw body (hl + nlen body) 0) with (c_raw c) in Hat.
    destruct (at_chain_step _ _ _ _ _ _ _ _ Hat) as (_ & Hat1 & Ho & _ & _).
    cbn [head_ev_ov x_post x_die] in Hat1, Ho.
    exists c. eexists. split; [apply entries_parsed; exact Hlen|].
    split; [apply (next_entry_chain _ _ _ _ _ _ _ _ Hat)|]. cbn [head_ev_ov x_die x_post c_cur].
    split; [reflexivity|].
    apply (siblings_iter_ov codes ov dbg e tbl (hl + nlen body) [] 0%Z m); try assumption; try reflexivity.
    - unfold m. destruct pad as [|p]; [left; split; reflexivity|right; cbn [pad_evs]; eexists; eexists; reflexivity].
    - destruct Hat as [_ _ _ _ Hle _ _].
      rewrite xbytes_cons in Ho, Hle. cbn [head_ev_ov x_bytes] in Ho, Hle.
      rewrite <- app_assoc, nlen_app, head_bytes_ov_len in Ho, Hle.
      change (d_offset (root_die_ov codes ov hl 0 t)) with hl in Ho.
      pose proof (kids_off_ge codes hl t). lia.
    - unfold cursor_fuel. cbn [c_raw r_in].
      assert (Hf2 : Forall (tree_facts codes ov (be e)) f)
        by (apply Forall_forall; intros k _; apply evs_ov_facts).
      destruct (list_facts codes ov (be e) 0 f (hl + tree_size codes t) Hf2) as (_ & L2 & _ & _).
      pose proof (length_le_forest_size codes f) as Lf.
      rewrite !xbytes_app, !app_length. unfold nlen in *. lia.
  Qed.
End UnitOvSib.
