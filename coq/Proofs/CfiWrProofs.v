(* Proofs/CfiWrProofs.v — lemmas about the frame-table writer model (C14). *)
From Coq Require Import List NArith ZArith Bool Lia ZifyBool ZifyN ZifyNat.
From Coq.Strings Require Import Byte.
Require Import GV.Base.Res GV.Base.Byt GV.Base.Ints GV.Spec.LebSpec GV.Spec.CfaEncSpec.
Require Import GV.Model.Leb GV.Model.Prim GV.Model.CfiWr.
Import ListNotations.
Local Open Scope N_scope.
Local Arguments N.add : simpl never.
Local Arguments N.sub : simpl never.
Local Arguments N.mul : simpl never.
Local Arguments N.shiftl : simpl never.
Local Arguments N.shiftr : simpl never.
Local Arguments N.land : simpl never.
Local Arguments N.lor : simpl never.
Local Arguments N.pow : simpl never.
Local Arguments N.modulo : simpl never.
Local Arguments N.div : simpl never.
Local Arguments Z.mul : simpl never.
Local Arguments Z.add : simpl never.
Local Arguments Z.sub : simpl never.
Local Arguments Z.quot : simpl never.
Local Arguments Z.div : simpl never.
Local Arguments Z.modulo : simpl never.
Local Arguments Z.shiftr : simpl never.
Local Arguments Z.pow : simpl never.
Ltac Zify.zify_post_hook ::= Z.to_euclidean_division_equations.

(* ------------------------------------------------------------------ *)
(* 1. factoring                                                        *)
(* ------------------------------------------------------------------ *)

Lemma is_i32_iff z : is_i32 z = true <-> (-2147483648 <= z < 2147483648)%Z.
Proof. unfold is_i32. lia. Qed.
Lemma is_i8_iff z : is_i8 z = true <-> (-128 <= z < 128)%Z.
Proof. unfold is_i8. lia. Qed.
Lemma is_u8_iff n : is_u8 n = true <-> n < 256.
Proof. unfold is_u8. lia. Qed.
Lemma is_u16_iff n : is_u16 n = true <-> n < 65536.
Proof. unfold is_u16. lia. Qed.
Lemma is_u32_iff n : is_u32 n = true <-> n < 4294967296.
Proof. unfold is_u32. lia. Qed.

Lemma in_signed_32 z : in_signed 32 z = true <-> (-2147483648 <= z < 2147483648)%Z.
Proof.
  unfold in_signed. change (Z.of_N (2 ^ (32 - 1))) with 2147483648%Z. lia.
Qed.

Lemma chk_s_32_in dbg z : (-2147483648 <= z < 2147483648)%Z -> chk_s 32 dbg z = Ok z.
Proof.
  intros H. unfold chk_s. destruct (in_signed 32 z) eqn:E; [reflexivity|].
  apply in_signed_32 in H. congruence.
Qed.

Lemma quot_mul_bound (o f : Z) :
  f <> 0%Z -> (-2147483648 <= o < 2147483648)%Z -> (-128 <= f < 128)%Z -> ~ (o = -2147483648 /\ f = -1)%Z ->
  (-2147483648 <= Z.quot o f * f < 2147483648)%Z.
Proof. intros. nia. Qed.

Lemma quot_mul_exact (q f : Z) : f <> 0%Z -> Z.quot (q * f) f = q.
Proof. intros. nia. Qed.

(* the whole function, in closed form *)
Lemma factored_data_offset_eq dbg (o f : Z) :
  is_i32 o = true -> is_i8 f = true ->
  factored_data_offset dbg o f =
    if ((f =? 0) || ((o =? -2147483648) && (f =? -1)))%Z then Err WInvalidFrameDataOffset
    else if (Z.quot o f * f =? o)%Z then Ok (Z.quot o f) else Err WInvalidFrameDataOffset.
Proof.
  intros Ho Hf. apply is_i32_iff in Ho. apply is_i8_iff in Hf.
  unfold factored_data_offset.
  destruct ((f =? 0) || ((o =? -2147483648) && (f =? -1)))%Z eqn:E; [reflexivity|].
  rewrite chk_s_32_in by (apply quot_mul_bound; lia).
  cbn [bind].
  destruct (Z.quot o f * f =? o)%Z eqn:E2.
  - replace (o =? Z.quot o f * f)%Z with true by lia. reflexivity.
  - replace (o =? Z.quot o f * f)%Z with false by lia. reflexivity.
Qed.

Lemma factored_data_offset_ok dbg (o f q : Z) :
  is_i32 o = true -> is_i8 f = true ->
  (factored_data_offset dbg o f = Ok q <-> (f <> 0 /\ q * f = o /\ is_i32 q = true)%Z).
Proof.
  intros Ho Hf. rewrite (factored_data_offset_eq dbg o f Ho Hf).
  apply is_i32_iff in Ho. apply is_i8_iff in Hf. rewrite is_i32_iff.
  split.
  - destruct ((f =? 0) || ((o =? -2147483648) && (f =? -1)))%Z eqn:E; [discriminate|].
    destruct (Z.quot o f * f =? o)%Z eqn:E2; [|discriminate].
    intros H; inversion H; subst q. split; [lia|]. split; [lia|]. nia.
  - intros (Hf0 & Hq & Hr). subst o.
    destruct ((f =? 0) || ((q * f =? -2147483648) && (f =? -1)))%Z eqn:E; [exfalso; lia|].
    rewrite quot_mul_exact by exact Hf0.
    replace (q * f =? q * f)%Z with true by lia. reflexivity.
Qed.

Lemma factored_data_offset_total dbg (o f : Z) :
  is_i32 o = true -> is_i8 f = true ->
  factored_data_offset dbg o f = Err WInvalidFrameDataOffset \/
  exists q, factored_data_offset dbg o f = Ok q.
Proof.
  intros Ho Hf. rewrite (factored_data_offset_eq dbg o f Ho Hf).
  destruct ((f =? 0) || ((o =? -2147483648) && (f =? -1)))%Z; [left; reflexivity|].
  destruct (Z.quot o f * f =? o)%Z; [right; eexists; reflexivity|left; reflexivity].
Qed.

Lemma chk_sub_le bits dbg a b : b <= a -> chk_sub bits dbg a b = Ok (a - b).
Proof. intros H. unfold chk_sub. destruct (b <=? a) eqn:E; [reflexivity|lia]. Qed.

Lemma chk_mul_lt bits dbg a b : a * b < 2 ^ bits -> chk_mul bits dbg a b = Ok (a * b).
Proof. intros H. unfold chk_mul. destruct (a * b <? 2 ^ bits) eqn:E; [reflexivity|lia]. Qed.

Lemma factored_code_delta_eq dbg (prev off factor : N) :
  is_u32 prev = true -> is_u32 off = true -> is_u8 factor = true ->
  factored_code_delta dbg prev off factor =
    if (off <? prev) || (factor =? 0) then Err WInvalidFrameCodeOffset
    else if (off - prev) / factor * factor =? off - prev then Ok ((off - prev) / factor)
    else Err WInvalidFrameCodeOffset.
Proof.
  intros Hp Ho Hf. apply is_u32_iff in Hp. apply is_u32_iff in Ho. apply is_u8_iff in Hf.
  unfold factored_code_delta.
  destruct (off <? prev) eqn:E1; [reflexivity|]. cbn [orb].
  rewrite chk_sub_le by lia. cbn [bind].
  destruct (factor =? 0) eqn:E2; [reflexivity|].
  assert (Hle : (off - prev) / factor * factor <= off - prev).
  { rewrite N.mul_comm. apply N.mul_div_le. lia. }
  rewrite chk_mul_lt by (change (2 ^ 32) with 4294967296; lia).
  cbn [bind].
  destruct ((off - prev) / factor * factor =? off - prev) eqn:E3.
  - replace (off - prev =? (off - prev) / factor * factor) with true by lia. reflexivity.
  - replace (off - prev =? (off - prev) / factor * factor) with false by lia. reflexivity.
Qed.

Lemma factored_code_delta_ok dbg (prev off factor q : N) :
  is_u32 prev = true -> is_u32 off = true -> is_u8 factor = true ->
  (factored_code_delta dbg prev off factor = Ok q <->
   prev <= off /\ factor <> 0 /\ q * factor = off - prev).
Proof.
  intros Hp Ho Hf. rewrite (factored_code_delta_eq dbg prev off factor Hp Ho Hf).
  split.
  - destruct ((off <? prev) || (factor =? 0)) eqn:E; [discriminate|].
    destruct ((off - prev) / factor * factor =? off - prev) eqn:E2; [|discriminate].
    intros H; inversion H; subst q. lia.
  - intros (H1 & H2 & H3).
    destruct ((off <? prev) || (factor =? 0)) eqn:E; [exfalso; lia|].
    rewrite <- H3. rewrite N.div_mul by exact H2.
    replace (q * factor =? q * factor) with true by lia. reflexivity.
Qed.

Lemma factored_code_delta_total dbg (prev off factor : N) :
  is_u32 prev = true -> is_u32 off = true -> is_u8 factor = true ->
  factored_code_delta dbg prev off factor = Err WInvalidFrameCodeOffset \/
  exists q, factored_code_delta dbg prev off factor = Ok q.
Proof.
  intros Hp Ho Hf. rewrite (factored_code_delta_eq dbg prev off factor Hp Ho Hf).
  destruct ((off <? prev) || (factor =? 0)); [left; reflexivity|].
  destruct ((off - prev) / factor * factor =? off - prev); [right; eexists; reflexivity|left; reflexivity].
Qed.

Lemma factored_code_delta_decreasing dbg (prev off factor : N) :
  off < prev -> factored_code_delta dbg prev off factor = Err WInvalidFrameCodeOffset.
Proof. intros H. unfold factored_code_delta. destruct (off <? prev) eqn:E; [reflexivity|lia]. Qed.
(* ------------------------------------------------------------------ *)
(* 2. finite sweeps, fixed-width operands, the advance_loc forms       *)
(* ------------------------------------------------------------------ *)

Lemma forall_lt (P : N -> bool) (n : nat) :
  forallb P (map N.of_nat (seq 0 n)) = true -> forall x, x < N.of_nat n -> P x = true.
Proof.
  intros H x Hx. rewrite forallb_forall in H. apply H.
  apply in_map_iff. exists (N.to_nat x). split; [apply N2Nat.id|].
  apply in_seq. lia.
Qed.

Lemma byte_small (x : N) : x < 256 -> b2n (n2b x) = x.
Proof. intros. apply b2n_n2b_small. assumption. Qed.

Lemma lor64_small (d : N) : d < 64 -> N.lor 64 d = 64 + d.
Proof.
  intros H. apply N.eqb_eq.
  apply (forall_lt (fun d => N.lor 64 d =? 64 + d) 64); [vm_compute; reflexivity|exact H].
Qed.
Lemma lor128_small (d : N) : d < 64 -> N.lor 128 d = 128 + d.
Proof.
  intros H. apply N.eqb_eq.
  apply (forall_lt (fun d => N.lor 128 d =? 128 + d) 64); [vm_compute; reflexivity|exact H].
Qed.
Lemma lor192_small (d : N) : d < 64 -> N.lor 192 d = 192 + d.
Proof.
  intros H. apply N.eqb_eq.
  apply (forall_lt (fun d => N.lor 192 d =? 192 + d) 64); [vm_compute; reflexivity|exact H].
Qed.

Lemma wrap8_small x : x < 256 -> wrap8 x = x.
Proof. intros. unfold wrap8. apply N.mod_small. assumption. Qed.
Lemma wrap16_small x : x < 65536 -> wrap16 x = x.
Proof. intros. unfold wrap16. apply N.mod_small. assumption. Qed.

(* fixed-width numbers *)
Lemma le_enc_le_bytes n v : le_enc n v = le_bytes n v.
Proof. revert v. induction n as [|k IH]; intros v; cbn [le_enc le_bytes]; [reflexivity|]. now rewrite IH. Qed.
Lemma enc_num_enc_un n be v : enc_num n be v = enc_un n be v.
Proof. unfold enc_num, enc_un, be_bytes. now rewrite le_enc_le_bytes. Qed.

Lemma le_enc_length n v : length (le_enc n v) = n.
Proof. revert v. induction n as [|k IH]; intros v; cbn [le_enc length]; [reflexivity|]. now rewrite IH. Qed.
Lemma enc_num_length n be v : length (enc_num n be v) = n.
Proof. unfold enc_num. destruct be; [rewrite rev_length|]; apply le_enc_length. Qed.

Lemma pow256_succ (k : nat) : 256 ^ N.of_nat (S k) = 256 * 256 ^ N.of_nat k.
Proof. rewrite Nat2N.inj_succ, N.pow_succ_r by lia. reflexivity. Qed.

Lemma le_num_le_enc n v : le_num (le_enc n v) = v mod 256 ^ N.of_nat n.
Proof.
  revert v. induction n as [|k IH]; intros v.
  - cbn [le_enc le_num]. change (256 ^ N.of_nat 0) with 1. now rewrite N.mod_1_r.
  - cbn [le_enc le_num]. rewrite IH, b2n_n2b, pow256_succ.
    rewrite N.mod_mul_r; [reflexivity|lia|]. apply N.pow_nonzero. lia.
Qed.

Lemma num_enc_num n be v : num be (enc_num n be v) = v mod 256 ^ N.of_nat n.
Proof.
  unfold num, enc_num. destruct be; [rewrite rev_involutive|]; apply le_num_le_enc.
Qed.

Lemma firstn_app_exact {A} (l r : list A) : firstn (length l) (l ++ r) = l.
Proof. rewrite firstn_app, Nat.sub_diag, firstn_all. cbn [firstn]. apply app_nil_r. Qed.
Lemma skipn_app_exact {A} (l r : list A) : skipn (length l) (l ++ r) = r.
Proof. rewrite skipn_app, Nat.sub_diag, skipn_all. reflexivity. Qed.

Lemma fixed_enc_num n be v rest :
  fixed n be (enc_num n be v ++ rest) = Some (v mod 256 ^ N.of_nat n, rest).
Proof.
  unfold fixed. rewrite app_length, enc_num_length.
  destruct (n + length rest <? n)%nat eqn:E; [lia|].
  pose proof (enc_num_length n be v) as HL.
  rewrite <- HL at 1. rewrite firstn_app_exact.
  rewrite <- HL at 2. rewrite skipn_app_exact.
  now rewrite num_enc_num.
Qed.

Lemma fixed1_byte be (b : byte) rest : fixed 1 be (b :: rest) = Some (b2n b, rest).
Proof.
  unfold fixed. cbn [length firstn skipn Nat.ltb Nat.leb]. unfold num. cbn [rev app le_num].
  destruct be; f_equal; f_equal; lia.
Qed.

(* opcode dispatch of the decoder *)
Lemma decode1_hi1 be b r : b2n b / 64 = 1 -> decode1 be (b :: r) = Some (DAdvance (b2n b mod 64), r).
Proof. intros H. unfold decode1. cbv zeta. rewrite H. reflexivity. Qed.
Lemma decode1_hi2 be b r : b2n b / 64 = 2 ->
  decode1 be (b :: r) = omap (uleb r) (fun o r1 => Some (DOffset (b2n b mod 64) o, r1)).
Proof. intros H. unfold decode1. cbv zeta. rewrite H. reflexivity. Qed.
Lemma decode1_hi3 be b r : b2n b / 64 = 3 -> decode1 be (b :: r) = Some (DRestore (b2n b mod 64), r).
Proof. intros H. unfold decode1. cbv zeta. rewrite H. reflexivity. Qed.

Lemma decode1_x02 be r : decode1 be (x02 :: r) = omap (fixed 1 be r) (fun d r1 => Some (DAdvance d, r1)).
Proof. reflexivity. Qed.
Lemma decode1_x03 be r : decode1 be (x03 :: r) = omap (fixed 2 be r) (fun d r1 => Some (DAdvance d, r1)).
Proof. reflexivity. Qed.
Lemma decode1_x04 be r : decode1 be (x04 :: r) = omap (fixed 4 be r) (fun d r1 => Some (DAdvance d, r1)).
Proof. reflexivity. Qed.

(* the spec encoding decodes to the delta *)
Lemma decode1_adv_enc be delta rest :
  delta < 4294967296 -> decode1 be (adv_enc be delta ++ rest) = Some (DAdvance delta, rest).
Proof.
  intros Hd. unfold adv_enc.
  destruct (delta <? 64) eqn:E1.
  - cbn [app]. assert (Hb : b2n (n2b (64 + delta)) = 64 + delta) by (apply byte_small; lia).
    rewrite decode1_hi1 by (rewrite Hb; lia). rewrite Hb.
    f_equal. f_equal. f_equal. lia.
  - destruct (delta <? 256) eqn:E2.
    + cbn [app]. rewrite decode1_x02, fixed1_byte. cbn [omap]. rewrite byte_small by lia. reflexivity.
    + destruct (delta <? 65536) eqn:E3.
      * cbn [app]. rewrite decode1_x03, fixed_enc_num. cbn [omap].
        change (256 ^ N.of_nat 2) with 65536. rewrite N.mod_small by lia. reflexivity.
      * cbn [app]. rewrite decode1_x04, fixed_enc_num. cbn [omap].
        change (256 ^ N.of_nat 4) with 4294967296. rewrite N.mod_small by lia. reflexivity.
Qed.

(* the writer picks exactly the spec encoding of the factored delta *)
Lemma write_advance_loc_eq dbg be (caf prev off : N) :
  is_u8 caf = true -> is_u32 prev = true -> is_u32 off = true ->
  write_advance_loc dbg be caf prev off =
    if off =? prev then Ok []
    else if (off <? prev) || (caf =? 0) then Err WInvalidFrameCodeOffset
    else if (off - prev) / caf * caf =? off - prev then Ok (adv_enc be ((off - prev) / caf))
    else Err WInvalidFrameCodeOffset.
Proof.
  intros Hc Hp Ho. unfold write_advance_loc.
  destruct (off =? prev) eqn:E0; [reflexivity|].
  rewrite (factored_code_delta_eq dbg prev off caf Hp Ho Hc).
  destruct ((off <? prev) || (caf =? 0)) eqn:E1; [reflexivity|].
  destruct ((off - prev) / caf * caf =? off - prev) eqn:E2; [|reflexivity].
  cbn [bind]. set (d := (off - prev) / caf).
  assert (Hd : d < 4294967296).
  { apply is_u32_iff in Ho. subst d.
    apply N.le_lt_trans with (off - prev); [|lia]. apply N.div_le_upper_bound; nia. }
  unfold adv_enc.
  destruct (d <? 64) eqn:D1.
  - rewrite wrap8_small by lia. rewrite lor64_small by lia. reflexivity.
  - destruct (d <? 256) eqn:D2.
    + rewrite wrap8_small by lia. reflexivity.
    + destruct (d <? 65536) eqn:D3.
      * rewrite wrap16_small by lia. reflexivity.
      * reflexivity.
Qed.

Lemma write_advance_loc_ok dbg be (caf prev off : N) bs :
  is_u8 caf = true -> is_u32 prev = true -> is_u32 off = true ->
  write_advance_loc dbg be caf prev off = Ok bs ->
  (off = prev /\ bs = []) \/
  (exists delta, prev < off /\ delta * caf = off - prev /\ delta < 4294967296 /\ bs = adv_enc be delta).
Proof.
  intros Hc Hp Ho. rewrite (write_advance_loc_eq dbg be caf prev off Hc Hp Ho).
  destruct (off =? prev) eqn:E0.
  - intros H; inversion H. left. split; [lia|reflexivity].
  - destruct ((off <? prev) || (caf =? 0)) eqn:E1; [discriminate|].
    destruct ((off - prev) / caf * caf =? off - prev) eqn:E2; [|discriminate].
    intros H; inversion H. right. exists ((off - prev) / caf).
    apply is_u32_iff in Ho.
    split; [lia|]. split; [lia|]. split; [|reflexivity].
    apply N.le_lt_trans with (off - prev); [|lia]. apply N.div_le_upper_bound; nia.
Qed.

Lemma write_advance_loc_total dbg be (caf prev off : N) :
  is_u8 caf = true -> is_u32 prev = true -> is_u32 off = true ->
  write_advance_loc dbg be caf prev off = Err WInvalidFrameCodeOffset \/
  exists bs, write_advance_loc dbg be caf prev off = Ok bs.
Proof.
  intros Hc Hp Ho. rewrite (write_advance_loc_eq dbg be caf prev off Hc Hp Ho).
  destruct (off =? prev); [right; eexists; reflexivity|].
  destruct ((off <? prev) || (caf =? 0)); [left; reflexivity|].
  destruct ((off - prev) / caf * caf =? off - prev); [right; eexists; reflexivity|left; reflexivity].
Qed.
