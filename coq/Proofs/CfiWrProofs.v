(* Proofs/CfiWrProofs.v — lemmas about the frame-table writer model (C14). *)
From Coq Require Import List NArith ZArith Bool Lia ZifyBool ZifyN ZifyNat.
From Coq.Strings Require Import Byte.
Require Import GV.Base.Res GV.Base.Byt GV.Base.Ints GV.Spec.LebSpec GV.Spec.CfaEncSpec.
Require Import GV.Model.Leb GV.Model.Prim GV.Model.CfiWr.
Import ListNotations.
Local Open Scope N_scope.
Local Arguments N.add : simpl never.
Local Arguments N.sub : simpl never.
Local Arguments N.mul : simpl never.
Local Arguments N.shiftl : simpl never.
Local Arguments N.shiftr : simpl never.
Local Arguments N.land : simpl never.
Local Arguments N.lor : simpl never.
Local Arguments N.pow : simpl never.
Local Arguments N.modulo : simpl never.
Local Arguments N.div : simpl never.
Local Arguments Z.mul : simpl never.
Local Arguments Z.add : simpl never.
Local Arguments Z.sub : simpl never.
Local Arguments Z.quot : simpl never.
Local Arguments Z.div : simpl never.
Local Arguments Z.modulo : simpl never.
Local Arguments Z.shiftr : simpl never.
Local Arguments Z.pow : simpl never.
Ltac Zify.zify_post_hook ::= Z.to_euclidean_division_equations.

(* ------------------------------------------------------------------ *)
(* 1. factoring                                                        *)
(* ------------------------------------------------------------------ *)

Lemma is_i32_iff z : is_i32 z = true <-> (-2147483648 <= z < 2147483648)%Z.
Proof. unfold is_i32. lia. Qed.
Lemma is_i8_iff z : is_i8 z = true <-> (-128 <= z < 128)%Z.
Proof. unfold is_i8. lia. Qed.
Lemma is_u8_iff n : is_u8 n = true <-> n < 256.
Proof. unfold is_u8. lia. Qed.
Lemma is_u16_iff n : is_u16 n = true <-> n < 65536.
Proof. unfold is_u16. lia. Qed.
Lemma is_u32_iff n : is_u32 n = true <-> n < 4294967296.
Proof. unfold is_u32. lia. Qed.

Lemma in_signed_32 z : in_signed 32 z = true <-> (-2147483648 <= z < 2147483648)%Z.
Proof.
  unfold in_signed. change (Z.of_N (2 ^ (32 - 1))) with 2147483648%Z. lia.
Qed.

Lemma chk_s_32_in dbg z : (-2147483648 <= z < 2147483648)%Z -> chk_s 32 dbg z = Ok z.
Proof.
  intros H. unfold chk_s. destruct (in_signed 32 z) eqn:E; [reflexivity|].
  apply in_signed_32 in H. congruence.
Qed.

Lemma quot_mul_bound (o f : Z) :
  f <> 0%Z -> (-2147483648 <= o < 2147483648)%Z -> (-128 <= f < 128)%Z -> ~ (o = -2147483648 /\ f = -1)%Z ->
  (-2147483648 <= Z.quot o f * f < 2147483648)%Z.
Proof. intros. nia. Qed.

Lemma quot_mul_exact (q f : Z) : f <> 0%Z -> Z.quot (q * f) f = q.
Proof. intros. nia. Qed.

(* the whole function, in closed form *)
Lemma factored_data_offset_eq dbg (o f : Z) :
  is_i32 o = true -> is_i8 f = true ->
  factored_data_offset dbg o f =
    if ((f =? 0) || ((o =? -2147483648) && (f =? -1)))%Z then Err WInvalidFrameDataOffset
    else if (Z.quot o f * f =? o)%Z then Ok (Z.quot o f) else Err WInvalidFrameDataOffset.
Proof.
  intros Ho Hf. apply is_i32_iff in Ho. apply is_i8_iff in Hf.
  unfold factored_data_offset.
  destruct ((f =? 0) || ((o =? -2147483648) && (f =? -1)))%Z eqn:E; [reflexivity|].
  rewrite chk_s_32_in by (apply quot_mul_bound; lia).
  cbn [bind].
  destruct (Z.quot o f * f =? o)%Z eqn:E2.
  - replace (o =? Z.quot o f * f)%Z with true by lia. reflexivity.
  - replace (o =? Z.quot o f * f)%Z with false by lia. reflexivity.
Qed.

Lemma factored_data_offset_ok dbg (o f q : Z) :
  is_i32 o = true -> is_i8 f = true ->
  (factored_data_offset dbg o f = Ok q <-> (f <> 0 /\ q * f = o /\ is_i32 q = true)%Z).
Proof.
  intros Ho Hf. rewrite (factored_data_offset_eq dbg o f Ho Hf).
  apply is_i32_iff in Ho. apply is_i8_iff in Hf. rewrite is_i32_iff.
  split.
  - destruct ((f =? 0) || ((o =? -2147483648) && (f =? -1)))%Z eqn:E; [discriminate|].
    destruct (Z.quot o f * f =? o)%Z eqn:E2; [|discriminate].
    intros H; inversion H; subst q. split; [lia|]. split; [lia|]. nia.
  - intros (Hf0 & Hq & Hr). subst o.
    destruct ((f =? 0) || ((q * f =? -2147483648) && (f =? -1)))%Z eqn:E; [exfalso; lia|].
    rewrite quot_mul_exact by exact Hf0.
    replace (q * f =? q * f)%Z with true by lia. reflexivity.
Qed.

Lemma factored_data_offset_total dbg (o f : Z) :
  is_i32 o = true -> is_i8 f = true ->
  factored_data_offset dbg o f = Err WInvalidFrameDataOffset \/
  exists q, factored_data_offset dbg o f = Ok q.
Proof.
  intros Ho Hf. rewrite (factored_data_offset_eq dbg o f Ho Hf).
  destruct ((f =? 0) || ((o =? -2147483648) && (f =? -1)))%Z; [left; reflexivity|].
  destruct (Z.quot o f * f =? o)%Z; [right; eexists; reflexivity|left; reflexivity].
Qed.

Lemma chk_sub_le bits dbg a b : b <= a -> chk_sub bits dbg a b = Ok (a - b).
Proof. intros H. unfold chk_sub. destruct (b <=? a) eqn:E; [reflexivity|lia]. Qed.

Lemma chk_mul_lt bits dbg a b : a * b < 2 ^ bits -> chk_mul bits dbg a b = Ok (a * b).
Proof. intros H. unfold chk_mul. destruct (a * b <? 2 ^ bits) eqn:E; [reflexivity|lia]. Qed.

Lemma factored_code_delta_eq dbg (prev off factor : N) :
  is_u32 prev = true -> is_u32 off = true -> is_u8 factor = true ->
  factored_code_delta dbg prev off factor =
    if (off <? prev) || (factor =? 0) then Err WInvalidFrameCodeOffset
    else if (off - prev) / factor * factor =? off - prev then Ok ((off - prev) / factor)
    else Err WInvalidFrameCodeOffset.
Proof.
  intros Hp Ho Hf. apply is_u32_iff in Hp. apply is_u32_iff in Ho. apply is_u8_iff in Hf.
  unfold factored_code_delta.
  destruct (off <? prev) eqn:E1; [reflexivity|]. cbn [orb].
  rewrite chk_sub_le by lia. cbn [bind].
  destruct (factor =? 0) eqn:E2; [reflexivity|].
  assert (Hle : (off - prev) / factor * factor <= off - prev).
  { rewrite N.mul_comm. apply N.mul_div_le. lia. }
  rewrite chk_mul_lt by (change (2 ^ 32) with 4294967296; lia).
  cbn [bind].
  destruct ((off - prev) / factor * factor =? off - prev) eqn:E3.
  - replace (off - prev =? (off - prev) / factor * factor) with true by lia. reflexivity.
  - replace (off - prev =? (off - prev) / factor * factor) with false by lia. reflexivity.
Qed.

Lemma factored_code_delta_ok dbg (prev off factor q : N) :
  is_u32 prev = true -> is_u32 off = true -> is_u8 factor = true ->
  (factored_code_delta dbg prev off factor = Ok q <->
   prev <= off /\ factor <> 0 /\ q * factor = off - prev).
Proof.
  intros Hp Ho Hf. rewrite (factored_code_delta_eq dbg prev off factor Hp Ho Hf).
  split.
  - destruct ((off <? prev) || (factor =? 0)) eqn:E; [discriminate|].
    destruct ((off - prev) / factor * factor =? off - prev) eqn:E2; [|discriminate].
    intros H; inversion H; subst q. lia.
  - intros (H1 & H2 & H3).
    destruct ((off <? prev) || (factor =? 0)) eqn:E; [exfalso; lia|].
    rewrite <- H3. rewrite N.div_mul by exact H2.
    replace (q * factor =? q * factor) with true by lia. reflexivity.
Qed.

Lemma factored_code_delta_total dbg (prev off factor : N) :
  is_u32 prev = true -> is_u32 off = true -> is_u8 factor = true ->
  factored_code_delta dbg prev off factor = Err WInvalidFrameCodeOffset \/
  exists q, factored_code_delta dbg prev off factor = Ok q.
Proof.
  intros Hp Ho Hf. rewrite (factored_code_delta_eq dbg prev off factor Hp Ho Hf).
  destruct ((off <? prev) || (factor =? 0)); [left; reflexivity|].
  destruct ((off - prev) / factor * factor =? off - prev); [right; eexists; reflexivity|left; reflexivity].
Qed.

Lemma factored_code_delta_decreasing dbg (prev off factor : N) :
  off < prev -> factored_code_delta dbg prev off factor = Err WInvalidFrameCodeOffset.
Proof. intros H. unfold factored_code_delta. destruct (off <? prev) eqn:E; [reflexivity|lia]. Qed.
(* ------------------------------------------------------------------ *)
(* 2. finite sweeps, fixed-width operands, the advance_loc forms       *)
(* ------------------------------------------------------------------ *)

Lemma forall_lt (P : N -> bool) (n : nat) :
  forallb P (map N.of_nat (seq 0 n)) = true -> forall x, x < N.of_nat n -> P x = true.
Proof.
  intros H x Hx. rewrite forallb_forall in H. apply H.
  apply in_map_iff. exists (N.to_nat x). split; [apply N2Nat.id|].
  apply in_seq. lia.
Qed.

Lemma byte_small (x : N) : x < 256 -> b2n (n2b x) = x.
Proof. intros. apply b2n_n2b_small. assumption. Qed.

Lemma lor64_small (d : N) : d < 64 -> N.lor 64 d = 64 + d.
Proof.
  intros H. apply N.eqb_eq.
  apply (forall_lt (fun d => N.lor 64 d =? 64 + d) 64); [vm_compute; reflexivity|exact H].
Qed.
Lemma lor128_small (d : N) : d < 64 -> N.lor 128 d = 128 + d.
Proof.
  intros H. apply N.eqb_eq.
  apply (forall_lt (fun d => N.lor 128 d =? 128 + d) 64); [vm_compute; reflexivity|exact H].
Qed.
Lemma lor192_small (d : N) : d < 64 -> N.lor 192 d = 192 + d.
Proof.
  intros H. apply N.eqb_eq.
  apply (forall_lt (fun d => N.lor 192 d =? 192 + d) 64); [vm_compute; reflexivity|exact H].
Qed.

Lemma wrap8_small x : x < 256 -> wrap8 x = x.
Proof. intros. unfold wrap8. apply N.mod_small. assumption. Qed.
Lemma wrap16_small x : x < 65536 -> wrap16 x = x.
Proof. intros. unfold wrap16. apply N.mod_small. assumption. Qed.

(* fixed-width numbers *)
Lemma le_enc_le_bytes n v : le_enc n v = le_bytes n v.
Proof. revert v. induction n as [|k IH]; intros v; cbn [le_enc le_bytes]; [reflexivity|]. now rewrite IH. Qed.
Lemma enc_num_enc_un n be v : enc_num n be v = enc_un n be v.
Proof. unfold enc_num, enc_un, be_bytes. now rewrite le_enc_le_bytes. Qed.

Lemma le_enc_length n v : length (le_enc n v) = n.
Proof. revert v. induction n as [|k IH]; intros v; cbn [le_enc length]; [reflexivity|]. now rewrite IH. Qed.
Lemma enc_num_length n be v : length (enc_num n be v) = n.
Proof. unfold enc_num. destruct be; [rewrite rev_length|]; apply le_enc_length. Qed.

Lemma pow256_succ (k : nat) : 256 ^ N.of_nat (S k) = 256 * 256 ^ N.of_nat k.
Proof. rewrite Nat2N.inj_succ, N.pow_succ_r by lia. reflexivity. Qed.

Lemma le_num_le_enc n v : le_num (le_enc n v) = v mod 256 ^ N.of_nat n.
Proof.
  revert v. induction n as [|k IH]; intros v.
  - cbn [le_enc le_num]. change (256 ^ N.of_nat 0) with 1. now rewrite N.mod_1_r.
  - cbn [le_enc le_num]. rewrite IH, b2n_n2b, pow256_succ.
    rewrite N.mod_mul_r; [reflexivity|lia|]. apply N.pow_nonzero. lia.
Qed.

Lemma num_enc_num n be v : num be (enc_num n be v) = v mod 256 ^ N.of_nat n.
Proof.
  unfold num, enc_num. destruct be; [rewrite rev_involutive|]; apply le_num_le_enc.
Qed.

Lemma firstn_app_exact {A} (l r : list A) : firstn (length l) (l ++ r) = l.
Proof. rewrite firstn_app, Nat.sub_diag, firstn_all. cbn [firstn]. apply app_nil_r. Qed.
Lemma skipn_app_exact {A} (l r : list A) : skipn (length l) (l ++ r) = r.
Proof. rewrite skipn_app, Nat.sub_diag, skipn_all. reflexivity. Qed.

Lemma fixed_enc_num n be v rest :
  fixed n be (enc_num n be v ++ rest) = Some (v mod 256 ^ N.of_nat n, rest).
Proof.
  unfold fixed. rewrite app_length, enc_num_length.
  destruct (n + length rest <? n)%nat eqn:E; [lia|].
  pose proof (enc_num_length n be v) as HL.
  rewrite <- HL at 1. rewrite firstn_app_exact.
  rewrite <- HL at 2. rewrite skipn_app_exact.
  now rewrite num_enc_num.
Qed.

Lemma fixed1_byte be (b : byte) rest : fixed 1 be (b :: rest) = Some (b2n b, rest).
Proof.
  unfold fixed. cbn [length firstn skipn Nat.ltb Nat.leb]. unfold num. cbn [rev app le_num].
  destruct be; f_equal; f_equal; lia.
Qed.

(* opcode dispatch of the decoder *)
Lemma decode1_hi1 be b r : b2n b / 64 = 1 -> decode1 be (b :: r) = Some (DAdvance (b2n b mod 64), r).
Proof. intros H. unfold decode1. cbv zeta. rewrite H. reflexivity. Qed.
Lemma decode1_hi2 be b r : b2n b / 64 = 2 ->
  decode1 be (b :: r) = omap (uleb r) (fun o r1 => Some (DOffset (b2n b mod 64) o, r1)).
Proof. intros H. unfold decode1. cbv zeta. rewrite H. reflexivity. Qed.
Lemma decode1_hi3 be b r : b2n b / 64 = 3 -> decode1 be (b :: r) = Some (DRestore (b2n b mod 64), r).
Proof. intros H. unfold decode1. cbv zeta. rewrite H. reflexivity. Qed.

Lemma decode1_x02 be r : decode1 be (x02 :: r) = omap (fixed 1 be r) (fun d r1 => Some (DAdvance d, r1)).
Proof. reflexivity. Qed.
Lemma decode1_x03 be r : decode1 be (x03 :: r) = omap (fixed 2 be r) (fun d r1 => Some (DAdvance d, r1)).
Proof. reflexivity. Qed.
Lemma decode1_x04 be r : decode1 be (x04 :: r) = omap (fixed 4 be r) (fun d r1 => Some (DAdvance d, r1)).
Proof. reflexivity. Qed.

(* the spec encoding decodes to the delta *)
Lemma decode1_adv_enc be delta rest :
  delta < 4294967296 -> decode1 be (adv_enc be delta ++ rest) = Some (DAdvance delta, rest).
Proof.
  intros Hd. unfold adv_enc.
  destruct (delta <? 64) eqn:E1.
  - cbn [app]. assert (Hb : b2n (n2b (64 + delta)) = 64 + delta) by (apply byte_small; lia).
    rewrite decode1_hi1 by (rewrite Hb; lia). rewrite Hb.
    f_equal. f_equal. f_equal. lia.
  - destruct (delta <? 256) eqn:E2.
    + cbn [app]. rewrite decode1_x02, fixed1_byte. cbn [omap]. rewrite byte_small by lia. reflexivity.
    + destruct (delta <? 65536) eqn:E3.
      * cbn [app]. rewrite decode1_x03, fixed_enc_num. cbn [omap].
        change (256 ^ N.of_nat 2) with 65536. rewrite N.mod_small by lia. reflexivity.
      * cbn [app]. rewrite decode1_x04, fixed_enc_num. cbn [omap].
        change (256 ^ N.of_nat 4) with 4294967296. rewrite N.mod_small by lia. reflexivity.
Qed.

(* the writer picks exactly the spec encoding of the factored delta *)
Lemma write_advance_loc_eq dbg be (caf prev off : N) :
  is_u8 caf = true -> is_u32 prev = true -> is_u32 off = true ->
  write_advance_loc dbg be caf prev off =
    if off =? prev then Ok []
    else if (off <? prev) || (caf =? 0) then Err WInvalidFrameCodeOffset
    else if (off - prev) / caf * caf =? off - prev then Ok (adv_enc be ((off - prev) / caf))
    else Err WInvalidFrameCodeOffset.
Proof.
  intros Hc Hp Ho. unfold write_advance_loc.
  destruct (off =? prev) eqn:E0; [reflexivity|].
  rewrite (factored_code_delta_eq dbg prev off caf Hp Ho Hc).
  destruct ((off <? prev) || (caf =? 0)) eqn:E1; [reflexivity|].
  destruct ((off - prev) / caf * caf =? off - prev) eqn:E2; [|reflexivity].
  cbn [bind]. set (d := (off - prev) / caf).
  assert (Hd : d < 4294967296).
  { apply is_u32_iff in Ho. subst d.
    apply N.le_lt_trans with (off - prev); [|lia]. apply N.div_le_upper_bound; nia. }
  unfold adv_enc.
  destruct (d <? 64) eqn:D1.
  - rewrite wrap8_small by lia. rewrite lor64_small by lia. reflexivity.
  - destruct (d <? 256) eqn:D2.
    + rewrite wrap8_small by lia. reflexivity.
    + destruct (d <? 65536) eqn:D3.
      * rewrite wrap16_small by lia. reflexivity.
      * reflexivity.
Qed.

Lemma write_advance_loc_ok dbg be (caf prev off : N) bs :
  is_u8 caf = true -> is_u32 prev = true -> is_u32 off = true ->
  write_advance_loc dbg be caf prev off = Ok bs ->
  (off = prev /\ bs = []) \/
  (exists delta, prev < off /\ delta * caf = off - prev /\ delta < 4294967296 /\ bs = adv_enc be delta).
Proof.
  intros Hc Hp Ho. rewrite (write_advance_loc_eq dbg be caf prev off Hc Hp Ho).
  destruct (off =? prev) eqn:E0.
  - intros H; inversion H. left. split; [lia|reflexivity].
  - destruct ((off <? prev) || (caf =? 0)) eqn:E1; [discriminate|].
    destruct ((off - prev) / caf * caf =? off - prev) eqn:E2; [|discriminate].
    intros H; inversion H. right. exists ((off - prev) / caf).
    apply is_u32_iff in Ho.
    split; [lia|]. split; [lia|]. split; [|reflexivity].
    apply N.le_lt_trans with (off - prev); [|lia]. apply N.div_le_upper_bound; nia.
Qed.

Lemma write_advance_loc_total dbg be (caf prev off : N) :
  is_u8 caf = true -> is_u32 prev = true -> is_u32 off = true ->
  write_advance_loc dbg be caf prev off = Err WInvalidFrameCodeOffset \/
  exists bs, write_advance_loc dbg be caf prev off = Ok bs.
Proof.
  intros Hc Hp Ho. rewrite (write_advance_loc_eq dbg be caf prev off Hc Hp Ho).
  destruct (off =? prev); [right; eexists; reflexivity|].
  destruct ((off <? prev) || (caf =? 0)); [left; reflexivity|].
  destruct ((off - prev) / caf * caf =? off - prev); [right; eexists; reflexivity|left; reflexivity].
Qed.
(* ------------------------------------------------------------------ *)
(* 3. LEB128 writers decode (LebSpec) to the value written             *)
(* ------------------------------------------------------------------ *)

Lemma low7_land255 v : low7 (N.land v 255) = v mod 128.
Proof.
  unfold low7. rewrite <- N.land_assoc. change (N.land 255 127) with (N.ones 7).
  rewrite N.land_ones. reflexivity.
Qed.

Lemma shiftr7 v : N.shiftr v 7 = v / 128.
Proof. rewrite N.shiftr_div_pow2. reflexivity. Qed.

(* byte facts, by sweeps *)
Lemma byte7_plain x : x < 128 ->
  cont_bit (n2b x) = false /\ N.land (b2n (n2b x)) 127 = x.
Proof.
  intros H.
  assert (E : (negb (cont_bit (n2b x)) && (N.land (b2n (n2b x)) 127 =? x)) = true).
  { apply (forall_lt (fun x => negb (cont_bit (n2b x)) && (N.land (b2n (n2b x)) 127 =? x)) 128);
      [vm_compute; reflexivity|exact H]. }
  apply andb_true_iff in E. destruct E as [E1 E2]. split; [|lia].
  destruct (cont_bit (n2b x)); [discriminate|reflexivity].
Qed.

Lemma byte7_cont x : x < 128 ->
  cont_bit (n2b (N.lor x CONT)) = true /\ N.land (b2n (n2b (N.lor x CONT))) 127 = x.
Proof.
  intros H.
  assert (E : (cont_bit (n2b (N.lor x CONT)) && (N.land (b2n (n2b (N.lor x CONT))) 127 =? x)) = true).
  { apply (forall_lt (fun x => cont_bit (n2b (N.lor x CONT)) && (N.land (b2n (n2b (N.lor x CONT))) 127 =? x)) 128);
      [vm_compute; reflexivity|exact H]. }
  apply andb_true_iff in E. destruct E as [E1 E2]. split; [exact E1|lia].
Qed.

Lemma byte8_plain x : x < 256 ->
  cont_bit (n2b (N.land x 127)) = false /\ N.land (b2n (n2b (N.land x 127))) 127 = x mod 128.
Proof.
  intros H.
  assert (E : (negb (cont_bit (n2b (N.land x 127))) && (N.land (b2n (n2b (N.land x 127))) 127 =? x mod 128)) = true).
  { apply (forall_lt (fun x => negb (cont_bit (n2b (N.land x 127))) && (N.land (b2n (n2b (N.land x 127))) 127 =? x mod 128)) 256);
      [vm_compute; reflexivity|exact H]. }
  apply andb_true_iff in E. destruct E as [E1 E2]. split; [|lia].
  destruct (cont_bit (n2b (N.land x 127))); [discriminate|reflexivity].
Qed.

Lemma byte8_cont x : x < 256 ->
  cont_bit (n2b (N.lor x CONT)) = true /\ N.land (b2n (n2b (N.lor x CONT))) 127 = x mod 128.
Proof.
  intros H.
  assert (E : (cont_bit (n2b (N.lor x CONT)) && (N.land (b2n (n2b (N.lor x CONT))) 127 =? x mod 128)) = true).
  { apply (forall_lt (fun x => cont_bit (n2b (N.lor x CONT)) && (N.land (b2n (n2b (N.lor x CONT))) 127 =? x mod 128)) 256);
      [vm_compute; reflexivity|exact H]. }
  apply andb_true_iff in E. destruct E as [E1 E2]. split; [exact E1|lia].
Qed.

Lemma pow7_succ (f : nat) : 2 ^ (7 * N.of_nat (S f)) = 128 * 2 ^ (7 * N.of_nat f).
Proof.
  rewrite Nat2N.inj_succ. replace (7 * N.succ (N.of_nat f)) with (7 + 7 * N.of_nat f) by lia.
  rewrite N.pow_add_r. reflexivity.
Qed.

Lemma pow2_pos n : 0 < 2 ^ n.
Proof. apply N.neq_0_lt_0. apply N.pow_nonzero. discriminate. Qed.

(* unsigned *)
Lemma write_uleb_fuel_spec : forall (fuel : nat) (v : N),
  fuel <> O -> v < 2 ^ (7 * N.of_nat fuel) ->
  exists bs, write_uleb_fuel fuel v = Ok bs /\
             (forall rest, split_leb (bs ++ rest) = Some (bs, rest)) /\ uval bs = v.
Proof.
  induction fuel as [|f IH]; intros v Hf Hv; [congruence|].
  cbn [write_uleb_fuel]. rewrite low7_land255, shiftr7.
  assert (Hm : v mod 128 < 128) by (apply N.mod_lt; lia).
  destruct (v / 128 =? 0) eqn:E.
  - destruct (byte7_plain (v mod 128) Hm) as [Hc Hl].
    eexists. split; [reflexivity|]. split.
    + intros rest. cbn [app split_leb]. rewrite Hc. reflexivity.
    + cbn [uval]. rewrite Hl. lia.
  - assert (Hf' : f <> O).
    { intros ->. change (7 * N.of_nat 1) with 7 in Hv. change (2 ^ 7) with 128 in Hv. lia. }
    rewrite pow7_succ in Hv.
    destruct (IH (v / 128) Hf') as (bs & Hw & Hs & Hu); [lia|].
    rewrite Hw. cbn [bind].
    destruct (byte7_cont (v mod 128) Hm) as [Hc Hl].
    eexists. split; [reflexivity|]. split.
    + intros rest. cbn [app split_leb]. rewrite Hc, Hs. reflexivity.
    + cbn [uval]. rewrite Hl, Hu. lia.
Qed.

Lemma write_uleb128_spec (v : N) : v < 2 ^ 64 ->
  exists bs, write_uleb128 v = Ok bs /\ bs <> [] /\ forall rest, uleb (bs ++ rest) = Some (v, rest).
Proof.
  intros Hv. unfold write_uleb128.
  destruct (write_uleb_fuel_spec 10 v) as (bs & Hw & Hs & Hu); [discriminate| |].
  - change (7 * N.of_nat 10) with 70.
    apply N.lt_le_trans with (2 ^ 64); [exact Hv|]. apply N.pow_le_mono_r; lia.
  - exists bs. split; [exact Hw|]. split.
    + intros ->. specialize (Hs []). cbn in Hs. discriminate.
    + intros rest. unfold uleb. rewrite Hs, Hu. reflexivity.
Qed.

(* signed *)
Local Open Scope Z_scope.

Definition hpow (n : nat) : Z := 64 * 128 ^ Z.of_nat (n - 1).

Lemma hpow_pos n : 0 < hpow n.
Proof. unfold hpow. assert (0 < 128 ^ Z.of_nat (n - 1)) by (apply Z.pow_pos_nonneg; lia). lia. Qed.

Lemma hpow_succ n : n <> O -> hpow (S n) = 128 * hpow n.
Proof.
  intros Hn. unfold hpow. replace (S n - 1)%nat with (S (n - 1)) by lia.
  rewrite Nat2Z.inj_succ, Z.pow_succ_r by lia. lia.
Qed.

Lemma hpow_1 : hpow 1 = 64.
Proof. reflexivity. Qed.

Lemma shiftr_6_1 v : Z.shiftr (Z.shiftr v 6) 1 = v / 128.
Proof.
  rewrite !Z.shiftr_div_pow2 by lia. change (2 ^ 6) with 64. change (2 ^ 1) with 2.
  rewrite Z.div_div by lia. reflexivity.
Qed.

Lemma sleb_done_iff v :
  ((Z.shiftr v 6 =? 0) || (Z.shiftr v 6 =? -1)) = true <-> -64 <= v < 64.
Proof.
  rewrite Z.shiftr_div_pow2 by lia. change (2 ^ 6) with 64. lia.
Qed.

Lemma to_N_mod256_lt v : (Z.to_N (v mod 256) < 256)%N.
Proof. lia. Qed.

Lemma to_N_mod256_mod128 v : Z.of_N (Z.to_N (v mod 256) mod 128)%N = v mod 128.
Proof. lia. Qed.

(* invariant of the signed writer: the encoding has the value's low 7*len bits and the value fits them *)
Lemma write_sleb_fuel_spec : forall (fuel : nat) (v : Z),
  fuel <> O -> - hpow fuel <= v < hpow fuel ->
  exists bs, write_sleb_fuel fuel v = Ok bs /\
             (forall rest, split_leb (bs ++ rest) = Some (bs, rest)) /\
             bs <> [] /\
             Z.of_N (uval bs) = v mod (2 * hpow (length bs)) /\
             - hpow (length bs) <= v < hpow (length bs).
Proof.
  induction fuel as [|f IH]; intros v Hf Hv; [congruence|].
  cbn [write_sleb_fuel]. rewrite shiftr_6_1.
  pose proof (to_N_mod256_lt v) as Hb.
  destruct ((Z.shiftr v 6 =? 0) || (Z.shiftr v 6 =? -1)) eqn:E.
  - apply sleb_done_iff in E.
    destruct (byte8_plain _ Hb) as [Hc Hl].
    eexists. split; [reflexivity|]. split; [|split; [discriminate|]].
    + intros rest. cbn [app split_leb]. rewrite Hc. reflexivity.
    + cbn [uval length]. rewrite hpow_1. rewrite Hl. split; [|lia].
      rewrite N.mul_0_r, N.add_0_r. rewrite to_N_mod256_mod128. lia.
  - assert (E' : ~ (-64 <= v < 64)) by (rewrite <- sleb_done_iff; congruence).
    assert (Hf' : f <> O).
    { intros ->. rewrite hpow_1 in Hv. lia. }
    rewrite hpow_succ in Hv by exact Hf'.
    pose proof (hpow_pos f) as HP.
    destruct (IH (v / 128) Hf') as (bs & Hw & Hs & Hne & Hu & Hr); [lia|].
    rewrite Hw. cbn [bind].
    destruct (byte8_cont _ Hb) as [Hc Hl].
    eexists. split; [reflexivity|]. split; [|split; [discriminate|]].
    + intros rest. cbn [app split_leb]. rewrite Hc, Hs. reflexivity.
    + cbn [uval length].
      assert (Hlen : length bs <> O) by (destruct bs; [congruence|discriminate]).
      rewrite hpow_succ by exact Hlen.
      pose proof (hpow_pos (length bs)) as HP2.
      rewrite Hl. rewrite N2Z.inj_add, N2Z.inj_mul, Hu, to_N_mod256_mod128.
      split; [|lia].
      replace (2 * (128 * hpow (length bs))) with (128 * (2 * hpow (length bs))) by lia.
      assert (EQ : v mod (128 * (2 * hpow (length bs))) =
                   v mod 128 + 128 * ((v / 128) mod (2 * hpow (length bs)))) by (apply Z.rem_mul_r; lia).
      rewrite EQ. change (Z.of_N 128) with 128. reflexivity.
Qed.

Lemma pow_bits_hpow (n : nat) : n <> O ->
  Z.of_N (2 ^ (7 * N.of_nat n - 1))%N = hpow n /\ Z.of_N (2 ^ (7 * N.of_nat n))%N = 2 * hpow n.
Proof.
  intros Hn. unfold hpow.
  assert (E1 : (7 * N.of_nat n - 1 = 6 + 7 * N.of_nat (n - 1))%N) by lia.
  assert (E2 : (7 * N.of_nat n = 1 + (6 + 7 * N.of_nat (n - 1)))%N) by lia.
  assert (P : Z.of_N (2 ^ (6 + 7 * N.of_nat (n - 1)))%N = 64 * 128 ^ Z.of_nat (n - 1)).
  { rewrite N.pow_add_r, N.pow_mul_r.
    change (2 ^ 7)%N with 128%N. change (2 ^ 6)%N with 64%N.
    rewrite N2Z.inj_mul, N2Z.inj_pow, nat_N_Z. reflexivity. }
  split.
  - rewrite E1. exact P.
  - rewrite E2. rewrite (N.pow_add_r 2 1). change (2 ^ 1)%N with 2%N.
    rewrite N2Z.inj_mul, P. reflexivity.
Qed.

Lemma sval_of_invariant bs v :
  bs <> [] -> Z.of_N (uval bs) = v mod (2 * hpow (length bs)) ->
  - hpow (length bs) <= v < hpow (length bs) -> sval bs = v.
Proof.
  intros Hne Hu Hr. unfold sval.
  assert (Hlen : length bs <> O) by (destruct bs; [congruence|discriminate]).
  destruct (pow_bits_hpow (length bs) Hlen) as [P1 P2].
  pose proof (hpow_pos (length bs)) as HP.
  assert (Hcases : (0 <= v /\ Z.of_N (uval bs) = v) \/
                   (v < 0 /\ Z.of_N (uval bs) = v + 2 * hpow (length bs))).
  { destruct (Z_lt_le_dec v 0) as [Hneg|Hpos].
    - right. split; [lia|]. rewrite Hu. symmetry.
      apply (Z.mod_unique_pos v (2 * hpow (length bs)) (-1) (v + 2 * hpow (length bs))); lia.
    - left. split; [lia|]. rewrite Hu. apply Z.mod_small. lia. }
  destruct (uval bs <? 2 ^ (7 * N.of_nat (length bs) - 1))%N eqn:E.
  - assert (Z.of_N (uval bs) < hpow (length bs)) by lia. lia.
  - assert (hpow (length bs) <= Z.of_N (uval bs)) by lia. rewrite P2. lia.
Qed.

Lemma write_sleb128_spec (v : Z) : -9223372036854775808 <= v < 9223372036854775808 ->
  exists bs, write_sleb128 v = Ok bs /\ bs <> [] /\ forall rest, sleb (bs ++ rest) = Some (v, rest).
Proof.
  intros Hv. unfold write_sleb128.
  destruct (write_sleb_fuel_spec 10 v) as (bs & Hw & Hs & Hne & Hu & Hr); [discriminate| |].
  - assert (E : hpow 10 = 590295810358705651712) by (vm_compute; reflexivity). rewrite E. lia.
  - exists bs. split; [exact Hw|]. split; [exact Hne|].
    intros rest. unfold sleb. rewrite Hs. rewrite (sval_of_invariant bs v Hne Hu Hr). reflexivity.
Qed.
Local Close Scope Z_scope.

(* length-prefixed blobs *)
Lemma write_blob_spec (e : list byte) : is_blob e = true ->
  exists bs, write_blob e = Ok bs /\ bs <> [] /\ forall rest, blob (bs ++ rest) = Some (e, rest).
Proof.
  intros He. unfold is_blob in He. unfold write_blob, len.
  destruct (write_uleb128_spec (N.of_nat (length e))) as (l & Hw & Hne & Hu);
    [change (2 ^ 64) with 18446744073709551616; lia|].
  rewrite Hw. cbn [bind]. eexists. split; [reflexivity|]. split.
  - destruct l; [congruence|discriminate].
  - intros rest. unfold blob. rewrite <- app_assoc, Hu.
    rewrite app_length.
    destruct (N.of_nat (length e + length rest) <? N.of_nat (length e)) eqn:E; [lia|].
    rewrite Nat2N.id, firstn_app_exact, skipn_app_exact. reflexivity.
Qed.
(* ------------------------------------------------------------------ *)
(* 4. every written instruction decodes to the instruction             *)
(* ------------------------------------------------------------------ *)

Lemma decode1_x05 be r : decode1 be (x05 :: r) =
  omap (uleb r) (fun g r1 => omap (uleb r1) (fun o r2 => Some (DOffset g o, r2))).
Proof. reflexivity. Qed.
Lemma decode1_x06 be r : decode1 be (x06 :: r) = omap (uleb r) (fun g r1 => Some (DRestore g, r1)).
Proof. reflexivity. Qed.
Lemma decode1_x07 be r : decode1 be (x07 :: r) = omap (uleb r) (fun g r1 => Some (DUndefined g, r1)).
Proof. reflexivity. Qed.
Lemma decode1_x08 be r : decode1 be (x08 :: r) = omap (uleb r) (fun g r1 => Some (DSameValue g, r1)).
Proof. reflexivity. Qed.
Lemma decode1_x09 be r : decode1 be (x09 :: r) =
  omap (uleb r) (fun g r1 => omap (uleb r1) (fun h r2 => Some (DRegister g h, r2))).
Proof. reflexivity. Qed.
Lemma decode1_x0a be r : decode1 be (x0a :: r) = Some (DRememberState, r).
Proof. reflexivity. Qed.
Lemma decode1_x0b be r : decode1 be (x0b :: r) = Some (DRestoreState, r).
Proof. reflexivity. Qed.
Lemma decode1_x0c be r : decode1 be (x0c :: r) =
  omap (uleb r) (fun g r1 => omap (uleb r1) (fun o r2 => Some (DDefCfa g o, r2))).
Proof. reflexivity. Qed.
Lemma decode1_x0d be r : decode1 be (x0d :: r) = omap (uleb r) (fun g r1 => Some (DDefCfaRegister g, r1)).
Proof. reflexivity. Qed.
Lemma decode1_x0e be r : decode1 be (x0e :: r) = omap (uleb r) (fun o r1 => Some (DDefCfaOffset o, r1)).
Proof. reflexivity. Qed.
Lemma decode1_x0f be r : decode1 be (x0f :: r) = omap (blob r) (fun e r1 => Some (DDefCfaExpression e, r1)).
Proof. reflexivity. Qed.
Lemma decode1_x10 be r : decode1 be (x10 :: r) =
  omap (uleb r) (fun g r1 => omap (blob r1) (fun e r2 => Some (DExpression g e, r2))).
Proof. reflexivity. Qed.
Lemma decode1_x11 be r : decode1 be (x11 :: r) =
  omap (uleb r) (fun g r1 => omap (sleb r1) (fun o r2 => Some (DOffsetExtendedSf g o, r2))).
Proof. reflexivity. Qed.
Lemma decode1_x12 be r : decode1 be (x12 :: r) =
  omap (uleb r) (fun g r1 => omap (sleb r1) (fun o r2 => Some (DDefCfaSf g o, r2))).
Proof. reflexivity. Qed.
Lemma decode1_x13 be r : decode1 be (x13 :: r) = omap (sleb r) (fun o r1 => Some (DDefCfaOffsetSf o, r1)).
Proof. reflexivity. Qed.
Lemma decode1_x14 be r : decode1 be (x14 :: r) =
  omap (uleb r) (fun g r1 => omap (uleb r1) (fun o r2 => Some (DValOffset g o, r2))).
Proof. reflexivity. Qed.
Lemma decode1_x15 be r : decode1 be (x15 :: r) =
  omap (uleb r) (fun g r1 => omap (sleb r1) (fun o r2 => Some (DValOffsetSf g o, r2))).
Proof. reflexivity. Qed.
Lemma decode1_x16 be r : decode1 be (x16 :: r) =
  omap (uleb r) (fun g r1 => omap (blob r1) (fun e r2 => Some (DValExpression g e, r2))).
Proof. reflexivity. Qed.
Lemma decode1_x2d be r : decode1 be (x2d :: r) = Some (DNegateRaState, r).
Proof. reflexivity. Qed.
Lemma decode1_x2e be r : decode1 be (x2e :: r) = omap (uleb r) (fun n r1 => Some (DArgsSize n, r1)).
Proof. reflexivity. Qed.

Lemma z_as_u64_nonneg (o : Z) : (0 <= o < 9223372036854775808)%Z ->
  z_as_u64 o < 2 ^ 64 /\ Z.of_N (z_as_u64 o) = o.
Proof.
  intros H. unfold z_as_u64, of_signed. change (Z.of_N (2 ^ 64)) with 18446744073709551616%Z.
  change (2 ^ 64) with 18446744073709551616. lia.
Qed.

Ltac use_uleb v H :=
  let lb := fresh "lb" in let Hw := fresh "Hw" in let Hne := fresh "Hne" in let Hd := fresh "Hd" in
  destruct (write_uleb128_spec v) as (lb & Hw & Hne & Hd);
  [ try (change (2 ^ 64) with 18446744073709551616; lia)
  | rewrite Hw in H; cbn [bind] in H ].
Ltac use_sleb v H :=
  let lb := fresh "sb" in let Hw := fresh "Hw" in let Hne := fresh "Hne" in let Hd := fresh "Hd" in
  destruct (write_sleb128_spec v) as (lb & Hw & Hne & Hd);
  [ try lia
  | rewrite Hw in H; cbn [bind] in H ].
Ltac use_blob e H :=
  let lb := fresh "bb" in let Hw := fresh "Hw" in let Hne := fresh "Hne" in let Hd := fresh "Hd" in
  destruct (write_blob_spec e) as (lb & Hw & Hne & Hd);
  [ try assumption
  | rewrite Hw in H; cbn [bind] in H ].

Ltac finish_ok H := injection H as H; rewrite <- H; clear H.

Lemma fdo_inv dbg o daf (k : Z -> res (list byte)) bs :
  is_i32 o = true -> is_i8 daf = true ->
  bind (factored_data_offset dbg o daf) k = Ok bs ->
  exists f, (f * daf = o)%Z /\ is_i32 f = true /\ k f = Ok bs.
Proof.
  intros Ho Hd H. destruct (factored_data_offset dbg o daf) as [f| | |] eqn:E; try discriminate.
  apply (factored_data_offset_ok dbg o daf f Ho Hd) in E. destruct E as (_ & E1 & E2).
  exists f. auto.
Qed.

Lemma write_insn_decodes dbg be (caf : N) (daf : Z) (i : cfi) bs :
  cfi_wf i = true -> is_i8 daf = true -> write_insn dbg daf i = Ok bs ->
  bs <> [] /\
  exists d, (forall rest, decode1 be (bs ++ rest) = Some (d, rest)) /\ sem caf daf d = MInsn i.
Proof.
  intros Hwf Hdaf H.
  destruct i as [r o|r|o|e|r|r|r|r o|r o|r1 r2|r e|r e| | |n| ]; cbn [cfi_wf] in Hwf; cbn [write_insn] in H;
    repeat match goal with
           | Hx : _ && _ = true |- _ => apply andb_true_iff in Hx; destruct Hx
           end;
    repeat match goal with
           | Hx : is_u16 _ = true |- _ => apply is_u16_iff in Hx
           | Hx : is_u32 _ = true |- _ => apply is_u32_iff in Hx
           end.
  - (* Cfa *)
    destruct (o <? 0)%Z eqn:Eo.
    + apply fdo_inv in H; [|assumption|assumption]. destruct H as (f & Hf1 & Hf2 & H).
      apply is_i32_iff in Hf2.
      use_uleb r H. use_sleb f H. finish_ok H. split; [discriminate|].
      exists (DDefCfaSf r f). split.
      * intros rest. cbn [app]. rewrite <- app_assoc, decode1_x12, Hd. cbn [omap]. rewrite Hd0. reflexivity.
      * cbn [sem]. now rewrite Hf1.
    + match goal with Hx : is_i32 o = true |- _ => apply is_i32_iff in Hx end.
      destruct (z_as_u64_nonneg o) as [Hz1 Hz2]; [lia|].
      use_uleb r H. use_uleb (z_as_u64 o) H. finish_ok H. split; [discriminate|].
      exists (DDefCfa r (z_as_u64 o)). split.
      * intros rest. cbn [app]. rewrite <- app_assoc, decode1_x0c, Hd. cbn [omap]. rewrite Hd0. reflexivity.
      * cbn [sem]. now rewrite Hz2.
  - (* CfaRegister *)
    use_uleb r H. finish_ok H. split; [discriminate|].
    exists (DDefCfaRegister r). split; [|reflexivity].
    intros rest. cbn [app]. rewrite decode1_x0d, Hd. reflexivity.
  - (* CfaOffset *)
    destruct (o <? 0)%Z eqn:Eo.
    + apply fdo_inv in H; [|assumption|assumption]. destruct H as (f & Hf1 & Hf2 & H).
      apply is_i32_iff in Hf2.
      use_sleb f H. finish_ok H. split; [discriminate|].
      exists (DDefCfaOffsetSf f). split.
      * intros rest. cbn [app]. rewrite decode1_x13, Hd. reflexivity.
      * cbn [sem]. now rewrite Hf1.
    + apply is_i32_iff in Hwf.
      destruct (z_as_u64_nonneg o) as [Hz1 Hz2]; [lia|].
      use_uleb (z_as_u64 o) H. finish_ok H. split; [discriminate|].
      exists (DDefCfaOffset (z_as_u64 o)). split.
      * intros rest. cbn [app]. rewrite decode1_x0e, Hd. reflexivity.
      * cbn [sem]. now rewrite Hz2.
  - (* CfaExpression *)
    use_blob e H. finish_ok H. split; [discriminate|].
    exists (DDefCfaExpression e). split; [|reflexivity].
    intros rest. cbn [app]. rewrite decode1_x0f, Hd. reflexivity.
  - (* Restore *)
    destruct (r <? 64) eqn:Er.
    + finish_ok H. split; [discriminate|].
      exists (DRestore r). split; [|reflexivity].
      intros rest. cbn [app]. rewrite wrap8_small by lia. rewrite lor192_small by lia.
      assert (Hb : b2n (n2b (192 + r)) = 192 + r) by (apply byte_small; lia).
      rewrite decode1_hi3 by (rewrite Hb; lia). rewrite Hb. f_equal. f_equal. f_equal. lia.
    + use_uleb r H. finish_ok H. split; [discriminate|].
      exists (DRestore r). split; [|reflexivity].
      intros rest. cbn [app]. rewrite decode1_x06, Hd. reflexivity.
  - (* Undefined *)
    use_uleb r H. finish_ok H. split; [discriminate|].
    exists (DUndefined r). split; [|reflexivity].
    intros rest. cbn [app]. rewrite decode1_x07, Hd. reflexivity.
  - (* SameValue *)
    use_uleb r H. finish_ok H. split; [discriminate|].
    exists (DSameValue r). split; [|reflexivity].
    intros rest. cbn [app]. rewrite decode1_x08, Hd. reflexivity.
  - (* Offset *)
    apply fdo_inv in H; [|assumption|assumption]. destruct H as (f & Hf1 & Hf2 & H).
    apply is_i32_iff in Hf2.
    destruct (f <? 0)%Z eqn:Ef.
    + use_uleb r H. use_sleb f H. finish_ok H. split; [discriminate|].
      exists (DOffsetExtendedSf r f). split.
      * intros rest. cbn [app]. rewrite <- app_assoc, decode1_x11, Hd. cbn [omap]. rewrite Hd0. reflexivity.
      * cbn [sem]. now rewrite Hf1.
    + destruct (z_as_u64_nonneg f) as [Hz1 Hz2]; [lia|].
      destruct (r <? 64) eqn:Er.
      * use_uleb (z_as_u64 f) H. finish_ok H. split; [discriminate|].
        exists (DOffset r (z_as_u64 f)). split.
        -- intros rest. cbn [app]. rewrite wrap8_small by lia. rewrite lor128_small by lia.
           assert (Hb : b2n (n2b (128 + r)) = 128 + r) by (apply byte_small; lia).
           rewrite decode1_hi2 by (rewrite Hb; lia). rewrite Hb, Hd. cbn [omap].
           f_equal. f_equal. f_equal. lia.
        -- cbn [sem]. now rewrite Hz2, Hf1.
      * use_uleb r H. use_uleb (z_as_u64 f) H. finish_ok H. split; [discriminate|].
        exists (DOffset r (z_as_u64 f)). split.
        -- intros rest. cbn [app]. rewrite <- app_assoc, decode1_x05, Hd. cbn [omap]. rewrite Hd0. reflexivity.
        -- cbn [sem]. now rewrite Hz2, Hf1.
  - (* ValOffset *)
    apply fdo_inv in H; [|assumption|assumption]. destruct H as (f & Hf1 & Hf2 & H).
    apply is_i32_iff in Hf2.
    destruct (f <? 0)%Z eqn:Ef.
    + use_uleb r H. use_sleb f H. finish_ok H. split; [discriminate|].
      exists (DValOffsetSf r f). split.
      * intros rest. cbn [app]. rewrite <- app_assoc, decode1_x15, Hd. cbn [omap]. rewrite Hd0. reflexivity.
      * cbn [sem]. now rewrite Hf1.
    + destruct (z_as_u64_nonneg f) as [Hz1 Hz2]; [lia|].
      use_uleb r H. use_uleb (z_as_u64 f) H. finish_ok H. split; [discriminate|].
      exists (DValOffset r (z_as_u64 f)). split.
      * intros rest. cbn [app]. rewrite <- app_assoc, decode1_x14, Hd. cbn [omap]. rewrite Hd0. reflexivity.
      * cbn [sem]. now rewrite Hz2, Hf1.
  - (* Register *)
    use_uleb r1 H. use_uleb r2 H. finish_ok H. split; [discriminate|].
    exists (DRegister r1 r2). split; [|reflexivity].
    intros rest. cbn [app]. rewrite <- app_assoc, decode1_x09, Hd. cbn [omap]. rewrite Hd0. reflexivity.
  - (* Expression *)
    use_uleb r H. use_blob e H. finish_ok H. split; [discriminate|].
    exists (DExpression r e). split; [|reflexivity].
    intros rest. cbn [app]. rewrite <- app_assoc, decode1_x10, Hd. cbn [omap]. rewrite Hd0. reflexivity.
  - (* ValExpression *)
    use_uleb r H. use_blob e H. finish_ok H. split; [discriminate|].
    exists (DValExpression r e). split; [|reflexivity].
    intros rest. cbn [app]. rewrite <- app_assoc, decode1_x16, Hd. cbn [omap]. rewrite Hd0. reflexivity.
  - finish_ok H. split; [discriminate|]. exists DRememberState. split; [|reflexivity].
    intros rest. cbn [app]. apply decode1_x0a.
  - finish_ok H. split; [discriminate|]. exists DRestoreState. split; [|reflexivity].
    intros rest. cbn [app]. apply decode1_x0b.
  - (* ArgsSize *)
    use_uleb n H. finish_ok H. split; [discriminate|].
    exists (DArgsSize n). split; [|reflexivity].
    intros rest. cbn [app]. rewrite decode1_x2e, Hd. reflexivity.
  - finish_ok H. split; [discriminate|]. exists DNegateRaState. split; [|reflexivity].
    intros rest. cbn [app]. apply decode1_x2d.
Qed.
(* ------------------------------------------------------------------ *)
(* 5. totality of write_insn; instruction areas decode completely       *)
(* ------------------------------------------------------------------ *)

Ltac g_uleb v :=
  let lb := fresh "lb" in let Hw := fresh "Hw" in let Hne := fresh "Hne" in let Hd := fresh "Hd" in
  destruct (write_uleb128_spec v) as (lb & Hw & Hne & Hd);
  [ try (change (2 ^ 64) with 18446744073709551616; lia)
  | rewrite Hw; cbn [bind] ].
Ltac g_sleb v :=
  let lb := fresh "sb" in let Hw := fresh "Hw" in let Hne := fresh "Hne" in let Hd := fresh "Hd" in
  destruct (write_sleb128_spec v) as (lb & Hw & Hne & Hd);
  [ try lia
  | rewrite Hw; cbn [bind] ].
Ltac g_blob e :=
  let lb := fresh "bb" in let Hw := fresh "Hw" in let Hne := fresh "Hne" in let Hd := fresh "Hd" in
  destruct (write_blob_spec e) as (lb & Hw & Hne & Hd);
  [ try assumption
  | rewrite Hw; cbn [bind] ].

Lemma fdo_cases dbg o daf : is_i32 o = true -> is_i8 daf = true ->
  (factored_data_offset dbg o daf = Err WInvalidFrameDataOffset /\ ~ factorable daf o) \/
  (exists f, factored_data_offset dbg o daf = Ok f /\ (f * daf = o)%Z /\ is_i32 f = true).
Proof.
  intros Ho Hd. destruct (factored_data_offset_total dbg o daf Ho Hd) as [E|[q E]].
  - left. split; [exact E|]. intros (q & H1 & H2 & H3).
    assert (E' : factored_data_offset dbg o daf = Ok q)
      by (apply factored_data_offset_ok; auto).
    congruence.
  - right. exists q. split; [exact E|].
    apply (factored_data_offset_ok dbg o daf q Ho Hd) in E. tauto.
Qed.

Lemma write_insn_total dbg (daf : Z) (i : cfi) :
  cfi_wf i = true -> is_i8 daf = true ->
  (exists bs, write_insn dbg daf i = Ok bs) \/
  (write_insn dbg daf i = Err WInvalidFrameDataOffset /\
   exists o, factored_operand i = Some o /\ ~ factorable daf o).
Proof.
  intros Hwf Hdaf.
  destruct i as [r o|r|o|e|r|r|r|r o|r o|r1 r2|r e|r e| | |n| ]; cbn [cfi_wf] in Hwf; cbn [write_insn factored_operand];
    repeat match goal with
           | Hx : _ && _ = true |- _ => apply andb_true_iff in Hx; destruct Hx
           end;
    repeat match goal with
           | Hx : is_u16 _ = true |- _ => apply is_u16_iff in Hx
           | Hx : is_u32 _ = true |- _ => apply is_u32_iff in Hx
           end.
  - destruct (o <? 0)%Z eqn:Eo.
    + destruct (fdo_cases dbg o daf) as [[E Hn]|(f & E & Hf1 & Hf2)]; try assumption; rewrite E; cbn [bind].
      * right. split; [reflexivity|]. exists o. auto.
      * left. apply is_i32_iff in Hf2. g_uleb r. g_sleb f. eexists; reflexivity.
    + left. match goal with Hx : is_i32 o = true |- _ => apply is_i32_iff in Hx end.
      destruct (z_as_u64_nonneg o) as [Hz1 Hz2]; [lia|].
      g_uleb r. g_uleb (z_as_u64 o). eexists; reflexivity.
  - left. g_uleb r. eexists; reflexivity.
  - destruct (o <? 0)%Z eqn:Eo.
    + destruct (fdo_cases dbg o daf) as [[E Hn]|(f & E & Hf1 & Hf2)]; try assumption; rewrite E; cbn [bind].
      * right. split; [reflexivity|]. exists o. auto.
      * left. apply is_i32_iff in Hf2. g_sleb f. eexists; reflexivity.
    + left. apply is_i32_iff in Hwf.
      destruct (z_as_u64_nonneg o) as [Hz1 Hz2]; [lia|].
      g_uleb (z_as_u64 o). eexists; reflexivity.
  - left. g_blob e. eexists; reflexivity.
  - left. destruct (r <? 64); [eexists; reflexivity|]. g_uleb r. eexists; reflexivity.
  - left. g_uleb r. eexists; reflexivity.
  - left. g_uleb r. eexists; reflexivity.
  - destruct (fdo_cases dbg o daf) as [[E Hn]|(f & E & Hf1 & Hf2)]; try assumption; rewrite E; cbn [bind].
    + right. split; [reflexivity|]. exists o. auto.
    + left. apply is_i32_iff in Hf2. destruct (f <? 0)%Z eqn:Ef.
      * g_uleb r. g_sleb f. eexists; reflexivity.
      * destruct (z_as_u64_nonneg f) as [Hz1 Hz2]; [lia|].
        destruct (r <? 64).
        -- g_uleb (z_as_u64 f). eexists; reflexivity.
        -- g_uleb r. g_uleb (z_as_u64 f). eexists; reflexivity.
  - destruct (fdo_cases dbg o daf) as [[E Hn]|(f & E & Hf1 & Hf2)]; try assumption; rewrite E; cbn [bind].
    + right. split; [reflexivity|]. exists o. auto.
    + left. apply is_i32_iff in Hf2. destruct (f <? 0)%Z eqn:Ef.
      * g_uleb r. g_sleb f. eexists; reflexivity.
      * destruct (z_as_u64_nonneg f) as [Hz1 Hz2]; [lia|].
        g_uleb r. g_uleb (z_as_u64 f). eexists; reflexivity.
  - left. g_uleb r1. g_uleb r2. eexists; reflexivity.
  - left. g_uleb r. g_blob e. eexists; reflexivity.
  - left. g_uleb r. g_blob e. eexists; reflexivity.
  - left. eexists; reflexivity.
  - left. eexists; reflexivity.
  - left. g_uleb n. eexists; reflexivity.
  - left. eexists; reflexivity.
Qed.

(* an instruction that is written has a factorable operand *)
Lemma write_insn_ok_factorable dbg daf i bs o :
  cfi_wf i = true -> is_i8 daf = true -> write_insn dbg daf i = Ok bs ->
  factored_operand i = Some o -> factorable daf o.
Proof.
  intros Hwf Hdaf H Ho.
  assert (Hi : is_i32 o = true).
  { destruct i; cbn [factored_operand cfi_wf] in *; try discriminate;
      repeat match goal with Hx : _ && _ = true |- _ => apply andb_true_iff in Hx; destruct Hx end;
      try (destruct (_ <? 0)%Z; [|discriminate]); injection Ho as <-; assumption. }
  assert (K : exists (k : Z -> res (list byte)), write_insn dbg daf i = bind (factored_data_offset dbg o daf) k).
  { destruct i; cbn [factored_operand] in Ho; try discriminate; cbn [write_insn];
      try (destruct (_ <? 0)%Z; [|discriminate]); injection Ho as <-; eexists; reflexivity. }
  destruct K as [k K]. rewrite K in H.
  destruct (fdo_inv dbg o daf k bs Hi Hdaf H) as (f & Hf1 & Hf2 & _).
  exists f. split; [|split; assumption].
  intros ->. destruct (fdo_cases dbg o 0%Z Hi Hdaf) as [[E _]|(g & E & _)];
    rewrite E in H; cbn [bind] in H; [discriminate|].
  unfold factored_data_offset in E. cbn in E. discriminate.
Qed.

(* ---- whole instruction areas ---- *)
Lemma decode_fuel_mono be : forall f f' bs ds,
  decode_fuel f be bs = Some ds -> (f <= f')%nat -> decode_fuel f' be bs = Some ds.
Proof.
  induction f as [|f IH]; intros f' bs ds H Hle.
  - destruct bs; cbn [decode_fuel] in H; [|discriminate].
    destruct f'; exact H.
  - destruct f' as [|f']; [lia|].
    destruct bs as [|b r]; [exact H|].
    cbn [decode_fuel] in *.
    destruct (decode1 be (b :: r)) as [[d r1]|]; [|discriminate].
    destruct (decode_fuel f be r1) as [ds1|] eqn:E; [|discriminate].
    rewrite (IH f' r1 ds1 E) by lia. exact H.
Qed.

Lemma decode_all_nil be : decode_all be [] = Some [].
Proof. reflexivity. Qed.

Lemma decode_all_cons be (a b : list byte) d ds :
  a <> [] -> (forall rest, decode1 be (a ++ rest) = Some (d, rest)) ->
  decode_all be b = Some ds -> decode_all be (a ++ b) = Some (d :: ds).
Proof.
  intros Hne Ha Hb. unfold decode_all in *.
  destruct a as [|x a']; [congruence|].
  cbn [app length]. rewrite app_length. cbn [decode_fuel].
  change (x :: a' ++ b) with ((x :: a') ++ b). rewrite Ha.
  rewrite (decode_fuel_mono be (length b) (length a' + length b) b ds Hb) by lia.
  reflexivity.
Qed.

Lemma decode_all_single be (a : list byte) d :
  a <> [] -> (forall rest, decode1 be (a ++ rest) = Some (d, rest)) -> decode_all be a = Some [d].
Proof.
  intros Hne Ha. rewrite <- (app_nil_r a). apply decode_all_cons; auto.
Qed.

Lemma adv_enc_nonempty be d : adv_enc be d <> [].
Proof. unfold adv_enc. destruct (d <? 64); [discriminate|]. destruct (d <? 256); [discriminate|]. destruct (d <? 65536); discriminate. Qed.

Lemma write_insns_decodes dbg be (caf : N) (daf : Z) : forall (l : list cfi) bs,
  forallb cfi_wf l = true -> is_i8 daf = true ->
  write_insns dbg daf l = Ok bs ->
  exists ds, decode_all be bs = Some ds /\ map (sem caf daf) ds = map MInsn l.
Proof.
  induction l as [|i r IH]; intros bs Hwf Hdaf H.
  - cbn [write_insns] in H. injection H as <-. exists []. split; reflexivity.
  - cbn [write_insns] in H. cbn [forallb] in Hwf. apply andb_true_iff in Hwf. destruct Hwf as [Hi Hr].
    destruct (write_insn dbg daf i) as [a| | |] eqn:Ea; try discriminate. cbn [bind] in H.
    destruct (write_insns dbg daf r) as [b| | |] eqn:Eb; try discriminate. cbn [bind] in H.
    injection H as <-.
    destruct (write_insn_decodes dbg be caf daf i a Hi Hdaf Ea) as (Hne & d & Hd & Hs).
    destruct (IH b Hr Hdaf eq_refl) as (ds & Hds & Hm).
    exists (d :: ds). split.
    + apply decode_all_cons; assumption.
    + cbn [map]. now rewrite Hs, Hm.
Qed.

Definition fde_insn_wf (p : N * cfi) : bool := is_u32 (fst p) && cfi_wf (snd p).

Lemma write_fde_insns_decodes dbg be (caf : N) (daf : Z) : forall (l : list (N * cfi)) prev bs,
  forallb fde_insn_wf l = true -> is_u8 caf = true -> is_i8 daf = true -> is_u32 prev = true ->
  write_fde_insns dbg be caf daf prev l = Ok bs ->
  exists ds, decode_all be bs = Some ds /\ locate prev (map (sem caf daf) ds) = l.
Proof.
  induction l as [|[off i] r IH]; intros prev bs Hwf Hcaf Hdaf Hprev H.
  - cbn [write_fde_insns] in H. injection H as <-. exists []. split; reflexivity.
  - cbn [write_fde_insns] in H. cbn [forallb] in Hwf. apply andb_true_iff in Hwf. destruct Hwf as [Hi Hr].
    unfold fde_insn_wf in Hi. cbn [fst snd] in Hi. apply andb_true_iff in Hi. destruct Hi as [Hoff Hi].
    destruct (write_advance_loc dbg be caf prev off) as [a| | |] eqn:Ea; try discriminate. cbn [bind] in H.
    destruct (write_insn dbg daf i) as [b| | |] eqn:Eb; try discriminate. cbn [bind] in H.
    destruct (write_fde_insns dbg be caf daf off r) as [c| | |] eqn:Ec; try discriminate. cbn [bind] in H.
    injection H as <-.
    destruct (write_insn_decodes dbg be caf daf i b Hi Hdaf Eb) as (Hne & d & Hd & Hs).
    destruct (IH off c Hr Hcaf Hdaf Hoff Ec) as (ds & Hds & Hm).
    destruct (write_advance_loc_ok dbg be caf prev off a Hcaf Hprev Hoff Ea)
      as [[-> ->]|(delta & Hlt & Hmul & Hdl & ->)].
    + exists (d :: ds). split.
      * cbn [app]. apply decode_all_cons; assumption.
      * cbn [map locate]. rewrite Hs. cbn [locate]. now rewrite Hm.
    + exists (DAdvance delta :: d :: ds). split.
      * apply decode_all_cons; [apply adv_enc_nonempty| |].
        -- intros rest. apply decode1_adv_enc. exact Hdl.
        -- apply decode_all_cons; assumption.
      * cbn [map sem locate]. rewrite Hs. cbn [locate].
        replace (prev + delta * caf) with off by lia. now rewrite Hm.
Qed.
(* ------------------------------------------------------------------ *)
(* 6. entry layout: length field, nop padding, alignment                *)
(* ------------------------------------------------------------------ *)

Lemma pow2_u8_cases a : is_u8 a = true -> is_pow2 a = true ->
  a = 1 \/ a = 2 \/ a = 4 \/ a = 8 \/ a = 16 \/ a = 32 \/ a = 64 \/ a = 128.
Proof.
  intros Hu Hp. apply is_u8_iff in Hu.
  assert (E : (negb (is_pow2 a) || (a =? 1) || (a =? 2) || (a =? 4) || (a =? 8) || (a =? 16) || (a =? 32)
               || (a =? 64) || (a =? 128)) = true).
  { apply (forall_lt (fun a => negb (is_pow2 a) || (a =? 1) || (a =? 2) || (a =? 4) || (a =? 8) || (a =? 16)
                               || (a =? 32) || (a =? 64) || (a =? 128)) 256); [vm_compute; reflexivity|exact Hu]. }
  rewrite Hp in E. cbn [negb orb] in E. lia.
Qed.

Lemma land_pow2m1 a x :
  a = 1 \/ a = 2 \/ a = 4 \/ a = 8 \/ a = 16 \/ a = 32 \/ a = 64 \/ a = 128 ->
  N.land x (a - 1) = x mod a.
Proof.
  intros [->|[->|[->|[->|[->|[->|[->| ->]]]]]]].
  - change (1 - 1) with (N.ones 0). rewrite N.land_ones. reflexivity.
  - change (2 - 1) with (N.ones 1). rewrite N.land_ones. reflexivity.
  - change (4 - 1) with (N.ones 2). rewrite N.land_ones. reflexivity.
  - change (8 - 1) with (N.ones 3). rewrite N.land_ones. reflexivity.
  - change (16 - 1) with (N.ones 4). rewrite N.land_ones. reflexivity.
  - change (32 - 1) with (N.ones 5). rewrite N.land_ones. reflexivity.
  - change (64 - 1) with (N.ones 6). rewrite N.land_ones. reflexivity.
  - change (128 - 1) with (N.ones 7). rewrite N.land_ones. reflexivity.
Qed.

Lemma neg_mod_pow2 a L :
  a = 1 \/ a = 2 \/ a = 4 \/ a = 8 \/ a = 16 \/ a = 32 \/ a = 64 \/ a = 128 ->
  (L + (18446744073709551616 - L mod 18446744073709551616) mod 18446744073709551616 mod a) mod a = 0 /\
  (18446744073709551616 - L mod 18446744073709551616) mod 18446744073709551616 mod a < a.
Proof.
  intros [->|[->|[->|[->|[->|[->|[->| ->]]]]]]]; lia.
Qed.

Definition asz_ok (a : N) : Prop := a = 1 \/ a = 2 \/ a = 4 \/ a = 8.

Lemma asz_cases_pow2 a : (a = 1 \/ a = 2 \/ a = 4 \/ a = 8) -> is_u8 a = true /\ is_pow2 a = true.
Proof. intros [->|[->|[->| ->]]]; split; reflexivity. Qed.

Lemma asz_ok_dec a : ((a =? 1) || (a =? 2) || (a =? 4) || (a =? 8)) = true <-> asz_ok a.
Proof. unfold asz_ok. lia. Qed.

Lemma write_nop_ok_asz dbg L a pad : write_nop dbg L a = Ok pad -> asz_ok a.
Proof.
  unfold write_nop. destruct ((a =? 1) || (a =? 2) || (a =? 4) || (a =? 8)) eqn:E; cbn [negb]; [|discriminate].
  intros _. apply asz_ok_dec. exact E.
Qed.

Lemma write_nop_unsupported dbg L a : ~ asz_ok a -> write_nop dbg L a = Err WUnsupportedWordSize.
Proof.
  intros H. unfold write_nop. destruct ((a =? 1) || (a =? 2) || (a =? 4) || (a =? 8)) eqn:E; [|reflexivity].
  apply asz_ok_dec in E. contradiction.
Qed.

Lemma all_nop_repeat n : all_nop (repeat x00 n) = true.
Proof. induction n as [|n IH]; [reflexivity|]. cbn [repeat all_nop forallb]. exact IH. Qed.

Lemma write_nop_spec dbg L a pad :
  is_u8 a = true -> is_pow2 a = true -> write_nop dbg L a = Ok pad ->
  all_nop pad = true /\ len pad < a /\ (L + len pad) mod a = 0.
Proof.
  intros Hu Hp H. pose proof (pow2_u8_cases a Hu Hp) as Hc.
  unfold write_nop in H.
  destruct (negb ((a =? 1) || (a =? 2) || (a =? 4) || (a =? 8))); [discriminate|].
  destruct (dbg && (L =? 0)); [discriminate|].
  injection H as <-.
  rewrite (land_pow2m1 a _ Hc). unfold wrap64, two64, len.
  rewrite repeat_length, N2Nat.id.
  destruct (neg_mod_pow2 a L Hc) as [H1 H2].
  split; [apply all_nop_repeat|]. split; assumption.
Qed.

Lemma enc_un_length n be v : length (enc_un n be v) = n.
Proof. rewrite <- enc_num_enc_un. apply enc_num_length. Qed.

Lemma write_udata_length be v size bs : write_udata be v size = Ok bs -> len bs = size.
Proof.
  unfold write_udata, len.
  destruct (size =? 1) eqn:E1; [destruct (v <? 256); [|discriminate]; intros H; injection H as <-; rewrite enc_un_length; lia|].
  destruct (size =? 2) eqn:E2; [destruct (v <? two16); [|discriminate]; intros H; injection H as <-; rewrite enc_un_length; lia|].
  destruct (size =? 4) eqn:E4; [destruct (v <? two32); [|discriminate]; intros H; injection H as <-; rewrite enc_un_length; lia|].
  destruct (size =? 8) eqn:E8; [intros H; injection H as <-; rewrite enc_un_length; lia|discriminate].
Qed.

Lemma write_initial_length_len fmt64 be l il :
  write_initial_length fmt64 be l = Ok il -> len il = ilen_size fmt64.
Proof.
  unfold write_initial_length.
  destruct (negb fmt64 && (4294967280 <=? l) && (l <=? 4294967295)); [discriminate|].
  destruct (write_udata be l (word_size fmt64)) as [body| | |] eqn:E; try discriminate.
  cbn [bind]. intros H; injection H as <-.
  apply write_udata_length in E. unfold len in *. rewrite app_length.
  destruct fmt64; cbn [word_size ilen_size] in *.
  - rewrite enc_un_length. lia.
  - cbn [length]. lia.
Qed.

Lemma close_entry_spec dbg be fmt64 asize body bs :
  is_u8 asize = true -> is_pow2 asize = true ->
  close_entry dbg be fmt64 asize body = Ok bs ->
  exists il pad,
    bs = il ++ body ++ pad /\
    write_initial_length fmt64 be (len (body ++ pad)) = Ok il /\ len il = ilen_size fmt64 /\
    all_nop pad = true /\ len pad < asize /\
    (ilen_size fmt64 + len (body ++ pad)) mod asize = 0.
Proof.
  intros Hu Hp H. unfold close_entry in H.
  destruct (write_nop dbg (ilen_size fmt64 + len body) asize) as [pad| | |] eqn:En; try discriminate.
  cbn [bind] in H.
  destruct (write_initial_length fmt64 be (len (body ++ pad))) as [il| | |] eqn:Ei; try discriminate.
  cbn [bind] in H. injection H as <-.
  destruct (write_nop_spec dbg _ asize pad Hu Hp En) as (H1 & H2 & H3).
  exists il, pad. split; [reflexivity|]. split; [exact Ei|].
  split; [eapply write_initial_length_len; eassumption|].
  split; [exact H1|]. split; [exact H2|].
  unfold len in *. rewrite app_length. rewrite Nat2N.inj_add. rewrite N.add_assoc. exact H3.
Qed.

(* inversion helper for binds *)
Lemma bind_ok_inv {A B} (r : res A) (k : A -> res B) b : bind r k = Ok b -> exists a, r = Ok a /\ k a = Ok b.
Proof. apply bind_ok. Qed.

Lemma cie_write_layout dbg be eh pos (c : cie) bs :
  is_u8 (c_asize c) = true -> is_pow2 (c_asize c) = true ->
  cie_write dbg be eh pos c = Ok bs ->
  exists il hdr insns pad,
    bs = il ++ hdr ++ insns ++ pad /\
    write_initial_length (c_fmt64 c) be (len (hdr ++ insns ++ pad)) = Ok il /\
    len il = ilen_size (c_fmt64 c) /\
    write_insns dbg (c_daf c) (c_insns c) = Ok insns /\
    all_nop pad = true /\ len pad < c_asize c /\
    (ilen_size (c_fmt64 c) + len (hdr ++ insns ++ pad)) mod c_asize c = 0.
Proof.
  intros Hu Hp H. unfold cie_write in H.
  destruct (if eh then negb (c_version c =? 1)
            else negb ((c_version c =? 1) || (c_version c =? 3) || (c_version c =? 4))); [discriminate|].
  apply bind_ok_inv in H. destruct H as (cafb & _ & H).
  apply bind_ok_inv in H. destruct H as (dafb & _ & H).
  apply bind_ok_inv in H. destruct H as (rab & _ & H).
  apply bind_ok_inv in H. destruct H as (augdata & _ & H).
  apply bind_ok_inv in H. destruct H as (insns & Hins & H).
  apply (close_entry_spec dbg be _ _ _ _ Hu Hp) in H.
  destruct H as (il & pad & Hbs & Hil & Hlen & Hnop & Hpad & Hmod).
  match type of Hbs with _ = il ++ ((?P ++ augdata ++ insns) ++ pad) =>
    exists il, (P ++ augdata), insns, pad end.
  rewrite <- !app_assoc in *.
  repeat split; assumption.
Qed.

Lemma fde_write_layout dbg be eh pos coff (c : cie) (f : fde) bs :
  is_u8 (c_asize c) = true -> is_pow2 (c_asize c) = true ->
  fde_write dbg be eh pos coff c f = Ok bs ->
  exists il hdr insns pad,
    bs = il ++ hdr ++ insns ++ pad /\
    write_initial_length (c_fmt64 c) be (len (hdr ++ insns ++ pad)) = Ok il /\
    len il = ilen_size (c_fmt64 c) /\
    write_fde_insns dbg be (c_caf c) (c_daf c) 0 (f_insns f) = Ok insns /\
    all_nop pad = true /\ len pad < c_asize c /\
    (ilen_size (c_fmt64 c) + len (hdr ++ insns ++ pad)) mod c_asize c = 0.
Proof.
  intros Hu Hp H. unfold fde_write in H.
  apply bind_ok_inv in H. destruct H as (ptr & _ & H).
  apply bind_ok_inv in H. destruct H as (addrs & _ & H).
  destruct (negb (Bool.eqb (is_some (f_lsda f)) (is_some (c_lsda_enc c)))); [discriminate|].
  apply bind_ok_inv in H. destruct H as (augdata & _ & H).
  apply bind_ok_inv in H. destruct H as (insns & Hins & H).
  apply (close_entry_spec dbg be _ _ _ _ Hu Hp) in H.
  destruct H as (il & pad & Hbs & Hil & Hlen & Hnop & Hpad & Hmod).
  exists il, (ptr ++ addrs ++ augdata), insns, pad.
  rewrite <- !app_assoc in *.
  repeat split; assumption.
Qed.

Lemma close_entry_ok_asz dbg be fmt64 asize body bs : close_entry dbg be fmt64 asize body = Ok bs -> asz_ok asize.
Proof.
  unfold close_entry. intros H. apply bind_ok_inv in H. destruct H as (pad & Hpad & _).
  eapply write_nop_ok_asz. exact Hpad.
Qed.

Lemma cie_write_ok_asz dbg be eh pos c bs : cie_write dbg be eh pos c = Ok bs -> asz_ok (c_asize c).
Proof.
  intros H. unfold cie_write in H.
  destruct (if eh then negb (c_version c =? 1)
            else negb ((c_version c =? 1) || (c_version c =? 3) || (c_version c =? 4))); [discriminate|].
  apply bind_ok_inv in H. destruct H as (cafb & _ & H).
  apply bind_ok_inv in H. destruct H as (dafb & _ & H).
  apply bind_ok_inv in H. destruct H as (rab & _ & H).
  apply bind_ok_inv in H. destruct H as (augdata & _ & H).
  apply bind_ok_inv in H. destruct H as (insns & _ & H).
  eapply close_entry_ok_asz. exact H.
Qed.

Lemma fde_write_ok_asz dbg be eh pos coff c f bs : fde_write dbg be eh pos coff c f = Ok bs -> asz_ok (c_asize c).
Proof.
  intros H. unfold fde_write in H.
  apply bind_ok_inv in H. destruct H as (ptr & _ & H).
  apply bind_ok_inv in H. destruct H as (addrs & _ & H).
  destruct (negb (Bool.eqb (is_some (f_lsda f)) (is_some (c_lsda_enc c)))); [discriminate|].
  apply bind_ok_inv in H. destruct H as (augdata & _ & H).
  apply bind_ok_inv in H. destruct H as (insns & _ & H).
  eapply close_entry_ok_asz. exact H.
Qed.

(* the area after the header decodes to the instructions followed by nops only *)
Lemma decode1_x00 be r : decode1 be (x00 :: r) = Some (DNop, r).
Proof. reflexivity. Qed.

Lemma all_nop_decodes be : forall pad, all_nop pad = true ->
  decode_all be pad = Some (repeat DNop (length pad)).
Proof.
  induction pad as [|b r IH]; intros H; [reflexivity|].
  cbn [all_nop forallb] in H. apply andb_true_iff in H. destruct H as [Hb Hr].
  assert (b = x00). { apply b2n_inj. change (b2n x00) with 0. lia. } subst b.
  change (x00 :: r) with ([x00] ++ r). cbn [length repeat].
  apply decode_all_cons; [discriminate|intros rest; apply decode1_x00|]. apply IH. exact Hr.
Qed.

(* extensible form of the decoding lemmas: what follows an instruction area is decoded after it *)
Definition decodes_to (be : bool) (bs : list byte) (ds : list dinsn) : Prop :=
  forall rest ds', decode_all be rest = Some ds' -> decode_all be (bs ++ rest) = Some (ds ++ ds').

Lemma decodes_to_nil be : decodes_to be [] [].
Proof. intros rest ds' H. exact H. Qed.

Lemma decodes_to_cons be a d b ds :
  a <> [] -> (forall rest, decode1 be (a ++ rest) = Some (d, rest)) ->
  decodes_to be b ds -> decodes_to be (a ++ b) (d :: ds).
Proof.
  intros Hne Ha Hb rest ds' Hr. rewrite <- app_assoc. cbn [app].
  apply decode_all_cons; [exact Hne|exact Ha|]. apply Hb. exact Hr.
Qed.

Lemma decodes_to_all be bs ds : decodes_to be bs ds -> decode_all be bs = Some ds.
Proof. intros H. specialize (H [] [] eq_refl). now rewrite !app_nil_r in H. Qed.

Lemma write_insns_decodes_ext dbg be (caf : N) (daf : Z) : forall (l : list cfi) bs,
  forallb cfi_wf l = true -> is_i8 daf = true ->
  write_insns dbg daf l = Ok bs ->
  exists ds, decodes_to be bs ds /\ map (sem caf daf) ds = map MInsn l.
Proof.
  induction l as [|i r IH]; intros bs Hwf Hdaf H.
  - cbn [write_insns] in H. injection H as <-. exists []. split; [apply decodes_to_nil|reflexivity].
  - cbn [write_insns] in H. cbn [forallb] in Hwf. apply andb_true_iff in Hwf. destruct Hwf as [Hi Hr].
    destruct (write_insn dbg daf i) as [a| | |] eqn:Ea; try discriminate. cbn [bind] in H.
    destruct (write_insns dbg daf r) as [b| | |] eqn:Eb; try discriminate. cbn [bind] in H.
    injection H as <-.
    destruct (write_insn_decodes dbg be caf daf i a Hi Hdaf Ea) as (Hne & d & Hd & Hs).
    destruct (IH b Hr Hdaf eq_refl) as (ds & Hds & Hm).
    exists (d :: ds). split.
    + apply decodes_to_cons; assumption.
    + cbn [map]. now rewrite Hs, Hm.
Qed.

Lemma write_fde_insns_decodes_ext dbg be (caf : N) (daf : Z) : forall (l : list (N * cfi)) prev bs,
  forallb fde_insn_wf l = true -> is_u8 caf = true -> is_i8 daf = true -> is_u32 prev = true ->
  write_fde_insns dbg be caf daf prev l = Ok bs ->
  exists ds, decodes_to be bs ds /\ locate prev (map (sem caf daf) ds) = l.
Proof.
  induction l as [|[off i] r IH]; intros prev bs Hwf Hcaf Hdaf Hprev H.
  - cbn [write_fde_insns] in H. injection H as <-. exists []. split; [apply decodes_to_nil|reflexivity].
  - cbn [write_fde_insns] in H. cbn [forallb] in Hwf. apply andb_true_iff in Hwf. destruct Hwf as [Hi Hr].
    unfold fde_insn_wf in Hi. cbn [fst snd] in Hi. apply andb_true_iff in Hi. destruct Hi as [Hoff Hi].
    destruct (write_advance_loc dbg be caf prev off) as [a| | |] eqn:Ea; try discriminate. cbn [bind] in H.
    destruct (write_insn dbg daf i) as [b| | |] eqn:Eb; try discriminate. cbn [bind] in H.
    destruct (write_fde_insns dbg be caf daf off r) as [c| | |] eqn:Ec; try discriminate. cbn [bind] in H.
    injection H as <-.
    destruct (write_insn_decodes dbg be caf daf i b Hi Hdaf Eb) as (Hne & d & Hd & Hs).
    destruct (IH off c Hr Hcaf Hdaf Hoff Ec) as (ds & Hds & Hm).
    destruct (write_advance_loc_ok dbg be caf prev off a Hcaf Hprev Hoff Ea)
      as [[-> ->]|(delta & Hlt & Hmul & Hdl & ->)].
    + exists (d :: ds). split.
      * cbn [app]. apply decodes_to_cons; assumption.
      * cbn [map locate]. rewrite Hs. cbn [locate]. now rewrite Hm.
    + exists (DAdvance delta :: d :: ds). split.
      * apply decodes_to_cons; [apply adv_enc_nonempty| |].
        -- intros rest. apply decode1_adv_enc. exact Hdl.
        -- apply decodes_to_cons; assumption.
      * cbn [map sem locate]. rewrite Hs. cbn [locate].
        replace (prev + delta * caf) with off by lia. now rewrite Hm.
Qed.

(* nops contribute nothing *)
Lemma locate_nops caf daf loc ms n :
  locate loc (ms ++ map (sem caf daf) (repeat DNop n)) = locate loc ms.
Proof.
  revert loc. induction ms as [|m r IH]; intros loc.
  - cbn [app]. induction n as [|n IHn]; [reflexivity|]. cbn [repeat map sem locate]. exact IHn.
  - destruct m; cbn [app locate]; rewrite IH; reflexivity.
Qed.
(* ------------------------------------------------------------------ *)
(* 7. CIE identity: cie_eqb is equality; add_cie de-duplicates          *)
(* ------------------------------------------------------------------ *)

Lemma bytes_eq_iff a b : bytes_eq a b = true <-> a = b.
Proof.
  unfold bytes_eq, bytes_eqb. destruct (list_eq_dec Byte.byte_eq_dec a b); split; intros; congruence.
Qed.

Lemma cfi_eqb_iff a b : cfi_eqb a b = true <-> a = b.
Proof.
  split.
  - destruct a, b; cbn [cfi_eqb]; intros H; try discriminate; try reflexivity;
      repeat match goal with Hx : _ && _ = true |- _ => apply andb_true_iff in Hx; destruct Hx end;
      repeat match goal with
             | Hx : (_ =? _) = true |- _ => apply N.eqb_eq in Hx
             | Hx : (_ =? _)%Z = true |- _ => apply Z.eqb_eq in Hx
             | Hx : bytes_eq _ _ = true |- _ => apply bytes_eq_iff in Hx
             end; subst; reflexivity.
  - intros <-. destruct a; cbn [cfi_eqb]; try reflexivity;
      repeat (apply andb_true_iff; split);
      try apply N.eqb_refl; try apply Z.eqb_refl; try (apply bytes_eq_iff; reflexivity).
Qed.

Lemma cfis_eqb_iff : forall a b, cfis_eqb a b = true <-> a = b.
Proof.
  induction a as [|x r IH]; intros [|y s]; cbn [cfis_eqb]; split; intros H; try discriminate; try reflexivity.
  - apply andb_true_iff in H. destruct H as [H1 H2]. apply cfi_eqb_iff in H1. apply IH in H2. congruence.
  - injection H as -> ->. apply andb_true_iff. split; [apply cfi_eqb_iff|apply IH]; reflexivity.
Qed.

Lemma addr_eqb_iff a b : addr_eqb a b = true <-> a = b.
Proof.
  split.
  - destruct a, b; cbn [addr_eqb]; intros H; try discriminate.
    + apply N.eqb_eq in H. congruence.
    + apply andb_true_iff in H. destruct H as [H1 H2]. apply N.eqb_eq in H1. apply Z.eqb_eq in H2. congruence.
  - intros <-. destruct a; cbn [addr_eqb]; [apply N.eqb_refl|].
    apply andb_true_iff. split; [apply N.eqb_refl|apply Z.eqb_refl].
Qed.

Lemma opt_eqb_iff {A} (eqb : A -> A -> bool) :
  (forall x y, eqb x y = true <-> x = y) -> forall a b, opt_eqb eqb a b = true <-> a = b.
Proof.
  intros He [x|] [y|]; cbn [opt_eqb]; split; intros H; try discriminate; try reflexivity.
  - apply He in H. congruence.
  - injection H as ->. apply He. reflexivity.
Qed.

Lemma pers_eqb_iff (p q : N * addr) : ((fst p =? fst q) && addr_eqb (snd p) (snd q)) = true <-> p = q.
Proof.
  destruct p as [e a], q as [e' a']; cbn [fst snd]. rewrite andb_true_iff, N.eqb_eq, addr_eqb_iff.
  split; [intros [-> ->]; reflexivity|intros H; injection H as -> ->; auto].
Qed.

Lemma bool_eqb_iff a b : Bool.eqb a b = true <-> a = b.
Proof. destruct a, b; cbn; split; intros; congruence. Qed.

Lemma cie_eqb_iff a b : cie_eqb a b = true <-> a = b.
Proof.
  destruct a as [f1 v1 s1 c1 d1 r1 p1 l1 e1 g1 i1], b as [f2 v2 s2 c2 d2 r2 p2 l2 e2 g2 i2].
  unfold cie_eqb. cbn [c_fmt64 c_version c_asize c_caf c_daf c_ra c_pers c_lsda_enc c_fde_enc c_sig c_insns].
  rewrite !andb_true_iff, !bool_eqb_iff, !N.eqb_eq, Z.eqb_eq, cfis_eqb_iff.
  rewrite (opt_eqb_iff _ pers_eqb_iff), (opt_eqb_iff N.eqb N.eqb_eq).
  split.
  - intros H. decompose [and] H. subst. reflexivity.
  - intros H. injection H as -> -> -> -> -> -> -> -> -> -> ->. repeat split.
Qed.

Lemma find_cie_some c : forall l i k, find_cie c l i = Some k ->
  exists j, k = (i + j)%nat /\ nth_error l j = Some c.
Proof.
  induction l as [|x r IH]; intros i k H; cbn [find_cie] in H; [discriminate|].
  destruct (cie_eqb x c) eqn:E.
  - injection H as <-. apply cie_eqb_iff in E. subst x. exists O. split; [lia|reflexivity].
  - destruct (IH _ _ H) as (j & -> & Hj). exists (S j). split; [lia|exact Hj].
Qed.

Lemma find_cie_none c : forall l i, find_cie c l i = None -> ~ In c l.
Proof.
  induction l as [|x r IH]; intros i H; cbn [find_cie] in H; [intros []|].
  destruct (cie_eqb x c) eqn:E; [discriminate|].
  intros [->|Hin]; [|exact (IH _ H Hin)].
  assert (cie_eqb c c = true) by (apply cie_eqb_iff; reflexivity). congruence.
Qed.

Lemma NoDup_snoc {A} (l : list A) (x : A) : NoDup l -> ~ In x l -> NoDup (l ++ [x]).
Proof.
  intros Hnd Hx. induction Hnd as [|y l Hy Hl IH]; cbn [app].
  - constructor; [intros []|constructor].
  - constructor.
    + rewrite in_app_iff. intros [H|[H|[]]]; [exact (Hy H)|]. subst. apply Hx. left. reflexivity.
    + apply IH. intros H. apply Hx. right. exact H.
Qed.

Lemma add_cie_spec t c t' id :
  NoDup (t_cies t) -> add_cie t c = (t', id) ->
  NoDup (t_cies t') /\ nth_error (t_cies t') id = Some c /\
  (exists ext, t_cies t' = t_cies t ++ ext) /\ t_fdes t' = t_fdes t.
Proof.
  intros Hnd H. unfold add_cie in H.
  destruct (find_cie c (t_cies t) 0) as [i|] eqn:E.
  - injection H as <- <-. destruct (find_cie_some c _ _ _ E) as (j & -> & Hj).
    split; [exact Hnd|]. split; [exact Hj|]. split; [exists []; now rewrite app_nil_r|reflexivity].
  - injection H as <- <-. cbn [t_cies t_fdes]. apply find_cie_none in E.
    split.
    + apply NoDup_snoc; assumption.
    + split.
      * rewrite nth_error_app2 by lia. rewrite Nat.sub_diag. reflexivity.
      * split; [exists [c]; reflexivity|reflexivity].
Qed.
(* ------------------------------------------------------------------ *)
(* 8. ids returned by add_cie; the table is written as tiles in plan order *)
(* ------------------------------------------------------------------ *)

Fixpoint cies_of (ops : list bop) : list cie :=
  match ops with
  | [] => []
  | BAddCie c :: r => c :: cies_of r
  | BAddFde _ _ :: r => cies_of r
  end.

Lemma Forall2_nth {A B} (R : A -> B -> Prop) : forall l1 l2 j a b,
  Forall2 R l1 l2 -> nth_error l1 j = Some a -> nth_error l2 j = Some b -> R a b.
Proof.
  intros l1 l2 j a b H. revert j. induction H as [|x y l1 l2 Hxy H IH]; intros j Ha Hb.
  - destruct j; discriminate.
  - destruct j as [|j]; cbn [nth_error] in *; [congruence|]. eapply IH; eassumption.
Qed.

Lemma Forall2_snoc {A B} (R : A -> B -> Prop) l1 l2 a b :
  Forall2 R l1 l2 -> R a b -> Forall2 R (l1 ++ [a]) (l2 ++ [b]).
Proof. intros H Hab. apply Forall2_app; [exact H|constructor; [exact Hab|constructor]]. Qed.

Lemma Forall2_weaken {A B} (R S : A -> B -> Prop) l1 l2 :
  (forall a b, R a b -> S a b) -> Forall2 R l1 l2 -> Forall2 S l1 l2.
Proof. intros HI H. induction H; constructor; auto. Qed.

Lemma nth_error_ext {A} (l ext : list A) i x : nth_error l i = Some x -> nth_error (l ++ ext) i = Some x.
Proof.
  intros H. rewrite nth_error_app1; [exact H|]. apply nth_error_Some. congruence.
Qed.

Lemma build_ids dbg : forall ops t ids t' ids' (cs0 : list cie),
  NoDup (t_cies t) -> Forall2 (fun c id => nth_error (t_cies t) id = Some c) cs0 ids ->
  build dbg t ids ops = Ok (t', ids') ->
  NoDup (t_cies t') /\ Forall2 (fun c id => nth_error (t_cies t') id = Some c) (cs0 ++ cies_of ops) ids'.
Proof.
  induction ops as [|op r IH]; intros t ids t' ids' cs0 Hnd Hf H.
  - cbn [build] in H. injection H as <- <-. cbn [cies_of]. rewrite app_nil_r. auto.
  - destruct op as [c|k f]; cbn [build cies_of] in H |- *.
    + destruct (add_cie t c) as [t1 id] eqn:Ea.
      destruct (add_cie_spec t c t1 id Hnd Ea) as (Hnd1 & Hid & (ext & Hext) & _).
      replace (cs0 ++ c :: cies_of r) with ((cs0 ++ [c]) ++ cies_of r) by (rewrite <- app_assoc; reflexivity).
      apply (IH t1 (ids ++ [id]) t' ids' (cs0 ++ [c]) Hnd1); [|exact H].
      apply Forall2_snoc; [|exact Hid].
      eapply Forall2_weaken; [|exact Hf]. intros a b Hab. cbn beta in *. rewrite Hext. apply nth_error_ext. exact Hab.
    + destruct (nth_error ids k) as [id|]; [|discriminate].
      destruct (fde_add_instructions dbg _ (f_insns f)) as [f'| | |]; try discriminate.
      cbn [bind] in H. apply (IH (add_fde t id f') ids t' ids' cs0); [exact Hnd|exact Hf|exact H].
Qed.

Lemma build_ids_equal_iff dbg ops t ids j k cj ck idj idk :
  build dbg empty_table [] ops = Ok (t, ids) ->
  nth_error (cies_of ops) j = Some cj -> nth_error (cies_of ops) k = Some ck ->
  nth_error ids j = Some idj -> nth_error ids k = Some idk ->
  (idj = idk <-> cj = ck).
Proof.
  intros H Hcj Hck Hij Hik.
  destruct (build_ids dbg ops empty_table [] t ids []) as [Hnd Hf]; [constructor|constructor|exact H|].
  cbn [app] in Hf.
  pose proof (Forall2_nth _ _ _ j cj idj Hf Hcj Hij) as Hj. cbn beta in Hj.
  pose proof (Forall2_nth _ _ _ k ck idk Hf Hck Hik) as Hk. cbn beta in Hk.
  split.
  - intros ->. congruence.
  - intros ->. rewrite NoDup_nth_error in Hnd. apply Hnd; [|congruence].
    apply nth_error_Some. congruence.
Qed.

(* ---- emission ---- *)
Fixpoint lookup (idx : nat) (pl : list (nat * N)) : option N :=
  match pl with
  | [] => None
  | (i, o) :: r => if Nat.eqb idx i then Some o else lookup idx r
  end.

Section Tiled.
  Variables (dbg be eh : bool) (cies : list cie) (fdes : list (nat * fde)).
  (* chunks laid out from section offset pos; placed = the CIE tiles laid out so far with their offsets.
     A CIE tile is that CIE written at its own offset; an FDE tile is that FDE written at its own offset
     with the offset of its CIE's tile as CIE pointer. *)
  Fixpoint well_tiled (pos : N) (placed : list (nat * N)) (chunks : list (item * list byte)) : Prop :=
    match chunks with
    | [] => True
    | (ICie idx, b) :: r =>
        (exists c, nth_error cies idx = Some c /\ cie_write dbg be eh pos c = Ok b)
        /\ well_tiled (pos + len b) ((idx, pos) :: placed) r
    | (IFde k, b) :: r =>
        (exists idx f c coff, nth_error fdes k = Some (idx, f) /\ nth_error cies idx = Some c /\
                              lookup idx placed = Some coff /\ fde_write dbg be eh pos coff c f = Ok b)
        /\ well_tiled (pos + len b) placed r
    end.
End Tiled.

Lemma lookup_existsb idx placed :
  existsb (Nat.eqb idx) (map fst placed) = is_some (lookup idx placed).
Proof.
  induction placed as [|[i o] r IH]; [reflexivity|].
  cbn [map fst existsb lookup]. destruct (Nat.eqb idx i); [reflexivity|exact IH].
Qed.

Lemma nth_error_set_nth {A} : forall (l : list A) n x j,
  (n < length l)%nat ->
  nth_error (set_nth l n x) j = if Nat.eqb j n then Some x else nth_error l j.
Proof.
  induction l as [|y r IH]; intros n x j Hn; [cbn in Hn; lia|].
  destruct n as [|n]; destruct j as [|j]; cbn [set_nth nth_error Nat.eqb]; try reflexivity.
  apply IH. cbn [length] in Hn. lia.
Qed.

Lemma set_nth_length {A} : forall (l : list A) n x, length (set_nth l n x) = length l.
Proof.
  induction l as [|y r IH]; intros n x; [reflexivity|].
  destruct n; cbn [set_nth length]; [reflexivity|]. now rewrite IH.
Qed.

Lemma unwrap_ok {A} (o : option A) a : unwrap o = Ok a -> o = Some a.
Proof. destruct o; cbn; intros H; [injection H as ->; reflexivity|discriminate]. Qed.

Lemma len_nil : len [] = 0.
Proof. reflexivity. Qed.

Lemma write_fdes_tiled dbg be eh cies full : forall fdes pre offs pos placed bs,
  full = pre ++ fdes ->
  length offs = length cies ->
  (forall idx, (idx < length cies)%nat -> nth_error offs idx = Some (lookup idx placed)) ->
  write_fdes dbg be eh cies offs pos fdes = Ok bs ->
  exists chunks,
    map fst chunks = plan (map fst placed) (length pre) (map fst fdes) /\
    bs = concat (map snd chunks) /\
    well_tiled dbg be eh cies full pos placed chunks.
Proof.
  induction fdes as [|[idx f] rest IH]; intros pre offs pos placed bs Hfull Hlen Hoffs H.
  - cbn [write_fdes] in H. injection H as <-. exists []. repeat split.
  - cbn [write_fdes] in H.
    apply bind_ok_inv in H. destruct H as (c & Hc & H). apply unwrap_ok in Hc.
    assert (Hidx : (idx < length cies)%nat) by (apply nth_error_Some; congruence).
    apply bind_ok_inv in H. destruct H as (slot & Hslot & H). apply unwrap_ok in Hslot.
    rewrite (Hoffs idx Hidx) in Hslot. injection Hslot as Hslot.
    assert (Hk : nth_error full (length pre) = Some (idx, f)).
    { rewrite Hfull, nth_error_app2 by lia. rewrite Nat.sub_diag. reflexivity. }
    assert (Hfull' : full = (pre ++ [(idx, f)]) ++ rest) by (rewrite <- app_assoc; exact Hfull).
    assert (Hpre' : length (pre ++ [(idx, f)]) = S (length pre)) by (rewrite app_length; cbn [length]; lia).
    destruct slot as [off|].
    + (* CIE already written *)
      cbn [bind] in H. rewrite len_nil, N.add_0_r in H.
      apply bind_ok_inv in H. destruct H as (fb & Hfb & H).
      apply bind_ok_inv in H. destruct H as (r & Hr & H). injection H as <-.
      destruct (IH (pre ++ [(idx, f)]) offs (pos + len fb) placed r Hfull' Hlen Hoffs Hr)
        as (chunks & Hplan & Hbs & Htiled).
      exists ((IFde (length pre), fb) :: chunks). split; [|split].
      * cbn [map fst plan]. rewrite lookup_existsb, Hslot. cbn [is_some].
        rewrite Hplan, Hpre'. reflexivity.
      * cbn [map snd concat app]. now rewrite Hbs.
      * cbn [well_tiled]. split; [|exact Htiled].
        exists idx, f, c, off. auto.
    + (* first reference: the CIE is written here *)
      apply bind_ok_inv in H. destruct H as ([[cb coff] offs'] & Hcb & H).
      apply bind_ok_inv in Hcb. destruct Hcb as (cb' & Hcie & Hcb). injection Hcb as <- <- <-.
      apply bind_ok_inv in H. destruct H as (fb & Hfb & H).
      apply bind_ok_inv in H. destruct H as (r & Hr & H). injection H as <-.
      assert (Hlen' : length (set_nth offs idx (Some pos)) = length cies) by (now rewrite set_nth_length).
      assert (Hoffs' : forall j, (j < length cies)%nat ->
                nth_error (set_nth offs idx (Some pos)) j = Some (lookup j ((idx, pos) :: placed))).
      { intros j Hj. rewrite nth_error_set_nth by lia. cbn [lookup].
        destruct (Nat.eqb j idx); [reflexivity|]. apply Hoffs. exact Hj. }
      destruct (IH (pre ++ [(idx, f)]) _ (pos + len cb' + len fb) ((idx, pos) :: placed) r Hfull' Hlen' Hoffs' Hr)
        as (chunks & Hplan & Hbs & Htiled).
      exists ((ICie idx, cb') :: (IFde (length pre), fb) :: chunks). split; [|split].
      * cbn [map fst plan]. rewrite lookup_existsb, Hslot. cbn [is_some].
        cbn [map fst] in Hplan. rewrite Hplan, Hpre'. reflexivity.
      * cbn [map snd concat]. now rewrite Hbs.
      * cbn [well_tiled]. split; [exists c; auto|]. split; [|exact Htiled].
        exists idx, f, c, pos. cbn [lookup]. rewrite Nat.eqb_refl. auto.
Qed.

Lemma nth_error_repeat_lt {A} (x : A) n i : (i < n)%nat -> nth_error (repeat x n) i = Some x.
Proof.
  revert i. induction n as [|n IH]; intros i Hi; [lia|].
  destruct i; cbn [repeat nth_error]; [reflexivity|]. apply IH. lia.
Qed.

Lemma write_table_tiled dbg be eh pos t bs :
  write_table dbg be eh pos t = Ok bs ->
  exists chunks,
    map fst chunks = plan [] 0 (map fst (t_fdes t)) /\
    bs = concat (map snd chunks) /\
    well_tiled dbg be eh (t_cies t) (t_fdes t) pos [] chunks.
Proof.
  intros H. unfold write_table in H.
  apply (write_fdes_tiled dbg be eh (t_cies t) (t_fdes t) (t_fdes t) []
           (repeat None (length (t_cies t))) pos [] bs).
  - reflexivity.
  - apply repeat_length.
  - intros idx Hidx. cbn [lookup]. apply nth_error_repeat_lt. exact Hidx.
  - exact H.
Qed.

(* ---- combinatorics of the plan ---- *)
Fixpoint cie_items (l : list item) : list nat :=
  match l with [] => [] | ICie i :: r => i :: cie_items r | IFde _ :: r => cie_items r end.
Fixpoint fde_items (l : list item) : list nat :=
  match l with [] => [] | ICie _ :: r => fde_items r | IFde k :: r => k :: fde_items r end.

Lemma existsb_eqb_in idx seen : existsb (Nat.eqb idx) seen = true <-> In idx seen.
Proof.
  rewrite existsb_exists. split.
  - intros (x & Hx & He). apply Nat.eqb_eq in He. now subst.
  - intros H. exists idx. split; [exact H|apply Nat.eqb_refl].
Qed.

Lemma plan_fdes : forall refs seen k, fde_items (plan seen k refs) = seq k (length refs).
Proof.
  induction refs as [|idx r IH]; intros seen k; [reflexivity|].
  cbn [plan length seq]. destruct (existsb (Nat.eqb idx) seen); cbn [fde_items]; now rewrite IH.
Qed.

Lemma plan_cies : forall refs seen k,
  NoDup (cie_items (plan seen k refs)) /\
  (forall idx, In idx (cie_items (plan seen k refs)) <-> (In idx refs /\ ~ In idx seen)).
Proof.
  induction refs as [|idx r IH]; intros seen k.
  - cbn [plan cie_items]. split; [constructor|]. intros i. cbn [In]. tauto.
  - cbn [plan].
    destruct (existsb (Nat.eqb idx) seen) eqn:E.
    + destruct (IH seen (S k)) as [Hnd Hin].
      apply existsb_eqb_in in E. cbn [cie_items]. split; [exact Hnd|].
      intros i. rewrite Hin. cbn [In]. split.
      * intros [H1 H2]. tauto.
      * intros [[->|H1] H2]; [contradiction|]. tauto.
    + destruct (IH (idx :: seen) (S k)) as [Hnd Hin].
      assert (Hn : ~ In idx seen). { rewrite <- existsb_eqb_in. congruence. }
      cbn [cie_items]. split.
      * constructor; [|exact Hnd]. rewrite Hin. cbn [In]. tauto.
      * intros i. cbn [In]. rewrite Hin. cbn [In]. split.
        -- intros [<-|[H1 H2]]; [tauto|]. split; [tauto|]. intros H3. apply H2. right. exact H3.
        -- intros [[->|H1] H2]; [left; reflexivity|].
           destruct (Nat.eq_dec idx i) as [->|Hne]; [left; reflexivity|].
           right. split; [exact H1|]. intros [H3|H3]; contradiction.
Qed.

Lemma in_fde_items_app a j b : In j (fde_items (a ++ IFde j :: b)).
Proof.
  induction a as [|y a IHa]; cbn [app fde_items]; [left; reflexivity|].
  destruct y; cbn [fde_items]; [exact IHa|right; exact IHa].
Qed.

(* every FDE item is preceded by the item of its CIE (or the CIE was emitted before the plan started) *)
Lemma plan_cie_before_fde : forall refs seen k a j b idx,
  plan seen k refs = a ++ IFde j :: b -> nth_error refs (j - k) = Some idx -> (k <= j)%nat ->
  In idx seen \/ In (ICie idx) a.
Proof.
  induction refs as [|i r IH]; intros seen k a j b idx Hp Hn Hkj.
  - cbn [plan] in Hp. destruct a; discriminate.
  - cbn [plan] in Hp.
    destruct (existsb (Nat.eqb i) seen) eqn:E.
    + destruct a as [|x a'].
      * cbn [app] in Hp. injection Hp as <- _. rewrite Nat.sub_diag in Hn. cbn [nth_error] in Hn.
        injection Hn as <-. left. apply existsb_eqb_in. exact E.
      * cbn [app] in Hp. injection Hp as <- Hp.
        assert (Hj : (S k <= j)%nat).
        { pose proof (in_fde_items_app a' j b) as H. rewrite <- Hp, plan_fdes in H. apply in_seq in H. lia. }
        replace (j - k)%nat with (S (j - S k)) in Hn by lia. cbn [nth_error] in Hn.
        destruct (IH seen (S k) a' j b idx Hp Hn Hj) as [H|H]; [left; exact H|right; right; exact H].
    + destruct a as [|x a']; [cbn [app] in Hp; discriminate|].
      cbn [app] in Hp. injection Hp as <- Hp.
      destruct a' as [|y a''].
      * cbn [app] in Hp. injection Hp as <- _. rewrite Nat.sub_diag in Hn. cbn [nth_error] in Hn.
        injection Hn as <-. right. left. reflexivity.
      * cbn [app] in Hp. injection Hp as <- Hp.
        assert (Hj : (S k <= j)%nat).
        { pose proof (in_fde_items_app a'' j b) as H. rewrite <- Hp, plan_fdes in H. apply in_seq in H. lia. }
        replace (j - k)%nat with (S (j - S k)) in Hn by lia. cbn [nth_error] in Hn.
        destruct (IH (i :: seen) (S k) a'' j b idx Hp Hn Hj) as [[<-|H]|H].
        -- right. left. reflexivity.
        -- left. exact H.
        -- right. right. right. exact H.
Qed.
(* ------------------------------------------------------------------ *)
(* 9. where the writer can panic                                        *)
(* ------------------------------------------------------------------ *)

Definition addr_wf (a : addr) : bool :=
  match a with AConst v => v <? 18446744073709551616 | ASym _ _ => true end.

Definition cie_wf (c : cie) : bool :=
  is_u16 (c_version c) && is_u8 (c_asize c) && is_u8 (c_caf c) && is_i8 (c_daf c) && is_u16 (c_ra c)
  && match c_pers c with Some (e, a) => is_u8 e && addr_wf a | None => true end
  && match c_lsda_enc c with Some e => is_u8 e | None => true end
  && is_u8 (c_fde_enc c) && forallb cfi_wf (c_insns c).

Definition fde_wf (f : fde) : bool :=
  addr_wf (f_addr f) && is_u32 (f_len f)
  && match f_lsda f with Some a => addr_wf a | None => true end
  && forallb fde_insn_wf (f_insns f).

(* the FDE's LSDA is present exactly when the CIE has an encoding for it (otherwise InvalidAddress) *)
Definition lsda_ok (c : cie) (f : fde) : bool :=
  Bool.eqb (is_some (f_lsda f)) (is_some (c_lsda_enc c)).

Lemma write_uleb_fuel_len : forall f v bs, write_uleb_fuel f v = Ok bs -> (length bs <= f)%nat.
Proof.
  induction f as [|f IH]; intros v bs H; cbn [write_uleb_fuel] in H; [discriminate|].
  destruct (N.shiftr v 7 =? 0).
  - injection H as <-. cbn [length]. lia.
  - destruct (write_uleb_fuel f (N.shiftr v 7)) as [r| | |] eqn:E; try discriminate.
    cbn [bind] in H. injection H as <-. cbn [length]. apply IH in E. lia.
Qed.

Lemma write_sleb_fuel_len : forall f v bs, write_sleb_fuel f v = Ok bs -> (length bs <= f)%nat.
Proof.
  induction f as [|f IH]; intros v bs H; cbn [write_sleb_fuel] in H; [discriminate|].
  destruct ((Z.shiftr v 6 =? 0)%Z || (Z.shiftr v 6 =? -1)%Z).
  - injection H as <-. cbn [length]. lia.
  - destruct (write_sleb_fuel f (Z.shiftr (Z.shiftr v 6) 1)) as [r| | |] eqn:E; try discriminate.
    cbn [bind] in H. injection H as <-. cbn [length]. apply IH in E. lia.
Qed.

Lemma write_uleb128_np v : v < 2 ^ 64 -> write_uleb128 v <> Panic.
Proof. intros H. destruct (write_uleb128_spec v H) as (bs & E & _). congruence. Qed.
Lemma write_sleb128_np v : (-9223372036854775808 <= v < 9223372036854775808)%Z -> write_sleb128 v <> Panic.
Proof. intros H. destruct (write_sleb128_spec v H) as (bs & E & _). congruence. Qed.

Lemma write_udata_np be v size : write_udata be v size <> Panic.
Proof.
  unfold write_udata.
  repeat match goal with |- context [if ?c then _ else _] => destruct c end; discriminate.
Qed.
Lemma write_sdata_np be v size : write_sdata be v size <> Panic.
Proof.
  unfold write_sdata.
  repeat match goal with |- context [if ?c then _ else _] => destruct c end; discriminate.
Qed.

Lemma write_udata_len_le be v size bs : write_udata be v size = Ok bs -> (length bs <= 8)%nat.
Proof.
  unfold write_udata.
  repeat match goal with |- context [if ?c then _ else _] => destruct c end;
    intros H; try discriminate; injection H as <-; rewrite enc_un_length; lia.
Qed.
Lemma write_sdata_len_le be v size bs : write_sdata be v size = Ok bs -> (length bs <= 8)%nat.
Proof.
  unfold write_sdata.
  repeat match goal with |- context [if ?c then _ else _] => destruct c end;
    intros H; try discriminate; injection H as <-; rewrite enc_un_length; lia.
Qed.

Lemma to_i64_range x : (-9223372036854775808 <= to_i64 x < 9223372036854775808)%Z.
Proof.
  unfold to_i64, to_signed, wrapN. change (2 ^ 64) with 18446744073709551616.
  change (2 ^ (64 - 1)) with 9223372036854775808.
  destruct (x mod 18446744073709551616 <? 9223372036854775808) eqn:E; lia.
Qed.

Lemma write_eh_pointer_data_np be val fmt size :
  val < 2 ^ 64 -> write_eh_pointer_data be val fmt size <> Panic.
Proof.
  intros Hv. unfold write_eh_pointer_data.
  repeat match goal with |- context [if ?c then _ else _] => destruct c end;
    try apply write_udata_np; try apply write_sdata_np; try discriminate.
  - apply write_uleb128_np. exact Hv.
  - apply write_sleb128_np. apply to_i64_range.
Qed.

Lemma write_eh_pointer_data_len be val fmt size bs :
  write_eh_pointer_data be val fmt size = Ok bs -> (length bs <= 10)%nat.
Proof.
  unfold write_eh_pointer_data.
  repeat match goal with |- context [if ?c then _ else _] => destruct c end; intros H; try discriminate;
    try (apply write_udata_len_le in H; lia); try (apply write_sdata_len_le in H; lia).
  - apply write_uleb_fuel_len in H. exact H.
  - apply write_sleb_fuel_len in H. exact H.
Qed.

Lemma wrap64_lt' x : wrap64 x < 2 ^ 64.
Proof. apply wrap64_lt. Qed.

Lemma write_eh_pointer_np be pos a e size : addr_wf a = true -> write_eh_pointer be pos a e size <> Panic.
Proof.
  intros Ha. unfold write_eh_pointer. destruct a as [v|s d]; [|discriminate].
  cbn [addr_wf] in Ha.
  destruct (pe_application e =? 0).
  - cbn [bind]. apply write_eh_pointer_data_np. change (2 ^ 64) with 18446744073709551616. lia.
  - destruct (pe_application e =? 16); [|discriminate].
    cbn [bind]. apply write_eh_pointer_data_np. apply wrap64_lt'.
Qed.

Lemma write_eh_pointer_len be pos a e size bs :
  write_eh_pointer be pos a e size = Ok bs -> (length bs <= 10)%nat.
Proof.
  unfold write_eh_pointer. destruct a as [v|s d]; [|discriminate].
  destruct (pe_application e =? 0).
  - cbn [bind]. apply write_eh_pointer_data_len.
  - destruct (pe_application e =? 16); [|discriminate]. cbn [bind]. apply write_eh_pointer_data_len.
Qed.

Lemma write_address_np be a size : write_address be a size <> Panic.
Proof. destruct a; cbn [write_address]; [apply write_udata_np|discriminate]. Qed.

Lemma write_insn_np dbg daf i : cfi_wf i = true -> is_i8 daf = true -> write_insn dbg daf i <> Panic.
Proof.
  intros Hi Hd. destruct (write_insn_total dbg daf i Hi Hd) as [[bs E]|[E _]]; congruence.
Qed.

Lemma write_insns_np dbg daf : forall l, forallb cfi_wf l = true -> is_i8 daf = true -> write_insns dbg daf l <> Panic.
Proof.
  induction l as [|i r IH]; intros Hl Hd; cbn [write_insns]; [discriminate|].
  cbn [forallb] in Hl. apply andb_true_iff in Hl. destruct Hl as [Hi Hr].
  apply bind_not_panic; [apply write_insn_np; assumption|]. intros a _.
  apply bind_not_panic; [apply IH; assumption|]. intros b _. discriminate.
Qed.

Lemma write_advance_loc_np dbg be caf prev off :
  is_u8 caf = true -> is_u32 prev = true -> is_u32 off = true -> write_advance_loc dbg be caf prev off <> Panic.
Proof.
  intros H1 H2 H3. destruct (write_advance_loc_total dbg be caf prev off H1 H2 H3) as [E|[bs E]]; congruence.
Qed.

Lemma write_fde_insns_np dbg be caf daf : forall l prev,
  forallb fde_insn_wf l = true -> is_u8 caf = true -> is_i8 daf = true -> is_u32 prev = true ->
  write_fde_insns dbg be caf daf prev l <> Panic.
Proof.
  induction l as [|[off i] r IH]; intros prev Hl Hc Hd Hp; cbn [write_fde_insns]; [discriminate|].
  cbn [forallb] in Hl. apply andb_true_iff in Hl. destruct Hl as [Hi Hr].
  unfold fde_insn_wf in Hi. cbn [fst snd] in Hi. apply andb_true_iff in Hi. destruct Hi as [Hoff Hi].
  apply bind_not_panic; [apply write_advance_loc_np; assumption|]. intros a _.
  apply bind_not_panic; [apply write_insn_np; assumption|]. intros b _.
  apply bind_not_panic; [apply IH; assumption|]. intros c _. discriminate.
Qed.

Lemma with_aug_len_np dbg be data : (length data < 128)%nat -> with_aug_len dbg be data <> Panic.
Proof.
  intros H. unfold with_aug_len, len.
  destruct (dbg && (128 <=? N.of_nat (length data))) eqn:E; [lia|].
  apply bind_not_panic; [apply write_udata_np|]. intros lb _. discriminate.
Qed.

Lemma write_initial_length_np fmt64 be l : write_initial_length fmt64 be l <> Panic.
Proof.
  unfold write_initial_length.
  destruct (negb fmt64 && (4294967280 <=? l) && (l <=? 4294967295)); [discriminate|].
  apply bind_not_panic; [apply write_udata_np|]. intros b _. discriminate.
Qed.

Lemma write_nop_np dbg L a : 0 < L -> write_nop dbg L a <> Panic.
Proof.
  intros HL. unfold write_nop.
  destruct (negb ((a =? 1) || (a =? 2) || (a =? 4) || (a =? 8))); [discriminate|].
  destruct (dbg && (L =? 0)) eqn:E; [lia|]. discriminate.
Qed.

Lemma close_entry_np dbg be fmt64 asize body :
  close_entry dbg be fmt64 asize body <> Panic.
Proof.
  unfold close_entry.
  apply bind_not_panic.
  - apply write_nop_np. destruct fmt64; cbn [ilen_size]; lia.
  - intros pad _. apply bind_not_panic; [apply write_initial_length_np|]. intros il _. discriminate.
Qed.

Ltac split_wf H :=
  repeat match type of H with _ && _ = true => let H2 := fresh "W" in apply andb_true_iff in H; destruct H as [H H2] end.

Lemma cie_write_np dbg be eh pos c :
  cie_wf c = true -> cie_write dbg be eh pos c <> Panic.
Proof.
  intros Hwf. unfold cie_wf in Hwf. split_wf Hwf.
  rename W into Hinsns, W0 into Hfe, W1 into Hle, W2 into Hpe, W3 into Hra, W4 into Hdaf, W5 into Hcaf, W6 into Hasz.
  unfold cie_write.
  destruct (if eh then negb (c_version c =? 1)
            else negb ((c_version c =? 1) || (c_version c =? 3) || (c_version c =? 4))); [discriminate|].
  apply is_u8_iff in Hcaf. apply is_i8_iff in Hdaf. apply is_u16_iff in Hra.
  apply bind_not_panic; [apply write_uleb128_np; change (2 ^ 64) with 18446744073709551616; lia|]. intros cafb _.
  apply bind_not_panic; [apply write_sleb128_np; lia|]. intros dafb _.
  apply bind_not_panic.
  { destruct (c_version c =? 1).
    - destruct (c_ra c <? 256); discriminate.
    - apply write_uleb128_np. change (2 ^ 64) with 18446744073709551616. lia. }
  intros rab _.
  apply bind_not_panic.
  { destruct (has_augmentation c); [|discriminate].
    destruct (c_pers c) as [[e a]|] eqn:Ep.
    - apply andb_true_iff in Hpe. destruct Hpe as [_ Ha].
      apply bind_not_panic.
      + apply bind_not_panic; [apply write_eh_pointer_np; exact Ha|]. intros pb _. discriminate.
      + intros p Hpb. apply bind_ok_inv in Hpb. destruct Hpb as (pb & Hpb & Hp'). injection Hp' as <-.
        apply write_eh_pointer_len in Hpb.
        apply with_aug_len_np. rewrite !app_length. cbn [length].
        destruct (c_lsda_enc c); destruct (negb (c_fde_enc c =? 0)); cbn [length]; lia.
    - cbn [bind]. apply with_aug_len_np. rewrite !app_length.
      destruct (c_lsda_enc c); destruct (negb (c_fde_enc c =? 0)); cbn [length]; lia. }
  intros augdata _.
  apply bind_not_panic; [apply write_insns_np; [exact Hinsns|apply is_i8_iff; exact Hdaf]|]. intros insns _.
  apply close_entry_np.
Qed.

Lemma fde_write_np dbg be eh pos coff c f :
  cie_wf c = true -> fde_wf f = true ->
  coff <= pos ->
  fde_write dbg be eh pos coff c f <> Panic.
Proof.
  intros Hwf Hf Hcoff. unfold cie_wf in Hwf. split_wf Hwf.
  rename W into Hinsns, W0 into Hfe, W1 into Hle, W2 into Hpe, W3 into Hra, W4 into Hdaf, W5 into Hcaf, W6 into Hasz.
  unfold fde_wf in Hf. split_wf Hf. rename W into Hfi, W0 into Hfl, W1 into Hflen.
  unfold fde_write.
  apply bind_not_panic.
  { destruct eh; [|apply write_udata_np].
    apply bind_not_panic; [|intros d _; apply write_udata_np].
    rewrite chk_sub_le by (destruct (c_fmt64 c); cbn [ilen_size]; lia). discriminate. }
  intros ptr _.
  apply bind_not_panic.
  { destruct (negb (c_fde_enc c =? 0)).
    - apply bind_not_panic; [apply write_eh_pointer_np; exact Hf|]. intros a _.
      apply bind_not_panic; [|intros l _; discriminate].
      apply write_eh_pointer_data_np. apply is_u32_iff in Hflen. change (2 ^ 64) with 18446744073709551616. lia.
    - apply bind_not_panic; [apply write_address_np|]. intros a _.
      apply bind_not_panic; [apply write_udata_np|]. intros l _. discriminate. }
  intros addrs _.
  destruct (negb (Bool.eqb (is_some (f_lsda f)) (is_some (c_lsda_enc c)))); [discriminate|].
  apply bind_not_panic.
  { destruct (has_augmentation c) eqn:Ea; [|discriminate].
    destruct (f_lsda f) as [a|]; [destruct (c_lsda_enc c) as [e|]|].
    + apply bind_not_panic; [apply write_eh_pointer_np; exact Hfl|].
      intros d Hd. apply write_eh_pointer_len in Hd. apply with_aug_len_np. lia.
    + cbn [bind]. apply with_aug_len_np. cbn [length]. lia.
    + cbn [bind]. apply with_aug_len_np. cbn [length]. lia. }
  intros augdata _.
  apply bind_not_panic.
  { apply write_fde_insns_np; [exact Hfi|exact Hcaf|exact Hdaf|reflexivity]. }
  intros insns _.
  apply close_entry_np.
Qed.

(* the loop: offsets recorded so far never exceed the current position *)
Definition offs_le (offs : list (option N)) (pos : N) : Prop :=
  forall i o, nth_error offs i = Some (Some o) -> o <= pos.

Lemma write_fdes_np dbg be eh cies : forall fdes offs pos,
  Forall (fun c => cie_wf c = true) cies ->
  Forall (fun p => fde_wf (snd p) = true /\ exists c, nth_error cies (fst p) = Some c) fdes ->
  length offs = length cies -> offs_le offs pos ->
  write_fdes dbg be eh cies offs pos fdes <> Panic.
Proof.
  induction fdes as [|[idx f] rest IH]; intros offs pos Hc Hf Hlen Hle; cbn [write_fdes]; [discriminate|].
  inversion Hf as [|x l Hx Hrest]; subst. cbn [fst snd] in Hx. destruct Hx as (Hfw & c & Hnth).
  rewrite Hnth. cbn [unwrap bind].
  assert (Hcw : cie_wf c = true).
  { rewrite Forall_forall in Hc. apply Hc. eapply nth_error_In. exact Hnth. }
  assert (Hidx : (idx < length offs)%nat) by (rewrite Hlen; apply nth_error_Some; congruence).
  destruct (nth_error offs idx) as [slot|] eqn:Eslot; [|apply nth_error_None in Eslot; lia].
  cbn [unwrap bind].
  destruct slot as [off|].
  - cbn [bind]. rewrite len_nil, N.add_0_r.
    assert (Hoff : off <= pos) by (eapply Hle; exact Eslot).
    apply bind_not_panic.
    + apply fde_write_np; try assumption.
    + intros fb _. apply bind_not_panic; [|intros r _; discriminate].
      apply IH; try assumption. intros i o Hio. specialize (Hle i o Hio). lia.
  - apply bind_not_panic.
    + apply bind_not_panic; [apply cie_write_np; assumption|]. intros bs _. discriminate.
    + intros [[cb coff] offs'] Hcb.
      apply bind_ok_inv in Hcb. destruct Hcb as (cb' & _ & Hcb). injection Hcb as <- <- <-.
      apply bind_not_panic.
      * apply fde_write_np; try assumption. lia.
      * intros fb _. apply bind_not_panic; [|intros r _; discriminate].
        apply IH; try assumption.
        -- now rewrite set_nth_length.
        -- intros i o Hio. rewrite nth_error_set_nth in Hio by exact Hidx.
           destruct (Nat.eqb i idx).
           ++ injection Hio as <-. lia.
           ++ specialize (Hle i o Hio). lia.
Qed.

Lemma write_table_np dbg be eh pos t :
  Forall (fun c => cie_wf c = true) (t_cies t) ->
  Forall (fun p => fde_wf (snd p) = true /\ exists c, nth_error (t_cies t) (fst p) = Some c) (t_fdes t) ->
  write_table dbg be eh pos t <> Panic.
Proof.
  intros Hc Hf. unfold write_table. apply write_fdes_np; try assumption.
  - apply repeat_length.
  - intros i o Hio. exfalso.
    destruct (Nat.lt_ge_cases i (length (t_cies t))) as [Hlt|Hge].
    + rewrite nth_error_repeat_lt in Hio by exact Hlt. discriminate.
    + assert (nth_error (repeat (@None N) (length (t_cies t))) i = None)
        by (apply nth_error_None; rewrite repeat_length; exact Hge).
      congruence.
Qed.

(* add_instruction panics only in a checked build and only for a decreasing offset *)
Fixpoint nondecreasing (prev : N) (l : list (N * cfi)) : bool :=
  match l with [] => true | (o, _) :: r => (prev <=? o) && nondecreasing o r end.

Lemma fde_add_instructions_np dbg : forall l f,
  (dbg = true -> nondecreasing (match rev (f_insns f) with (o, _) :: _ => o | [] => 0 end) l = true) ->
  fde_add_instructions dbg f l <> Panic.
Proof.
  induction l as [|[o i] r IH]; intros f H; cbn [fde_add_instructions]; [discriminate|].
  apply bind_not_panic.
  - unfold fde_add_instruction.
    destruct (dbg && (o <? match rev (f_insns f) with (o0, _) :: _ => o0 | [] => 0 end)) eqn:E; [|discriminate].
    apply andb_true_iff in E. destruct E as [-> E]. specialize (H eq_refl). cbn [nondecreasing] in H. lia.
  - intros f' Hf'. unfold fde_add_instruction in Hf'.
    destruct (dbg && (o <? match rev (f_insns f) with (o0, _) :: _ => o0 | [] => 0 end)); [discriminate|].
    injection Hf' as <-. apply IH. cbn [f_insns]. rewrite rev_app_distr. cbn [rev app].
    intros Hd. specialize (H Hd). cbn [nondecreasing] in H. apply andb_true_iff in H. tauto.
Qed.

Fixpoint ops_sorted (ops : list bop) : bool :=
  match ops with
  | [] => true
  | BAddCie _ :: r => ops_sorted r
  | BAddFde _ f :: r => nondecreasing 0 (f_insns f) && ops_sorted r
  end.

Lemma build_np dbg : forall ops t ids, (dbg = true -> ops_sorted ops = true) -> build dbg t ids ops <> Panic.
Proof.
  induction ops as [|op r IH]; intros t ids H; cbn [build]; [discriminate|].
  destruct op as [c|k f].
  - destruct (add_cie t c) as [t' id]. apply IH. intros Hd. exact (H Hd).
  - destruct (nth_error ids k) as [id|]; [|discriminate].
    apply bind_not_panic.
    + apply fde_add_instructions_np. cbn [f_insns rev]. intros Hd. specialize (H Hd).
      cbn [ops_sorted] in H. apply andb_true_iff in H. tauto.
    + intros f' _. apply IH. intros Hd. specialize (H Hd). cbn [ops_sorted] in H. apply andb_true_iff in H. tauto.
Qed.
(* ------------------------------------------------------------------ *)
(* 10. the statements of Properties/C14.v                               *)
(* ------------------------------------------------------------------ *)

Lemma factoring_exact_data : forall (dbg : bool) (o f : Z),
  is_i32 o = true -> is_i8 f = true ->
  (forall q, factored_data_offset dbg o f = Ok q <-> (f <> 0 /\ q * f = o /\ is_i32 q = true)%Z) /\
  (factored_data_offset dbg o f = Err WInvalidFrameDataOffset \/
   exists q, factored_data_offset dbg o f = Ok q).
Proof.
  intros dbg o f Ho Hf. split.
  - intros q. apply factored_data_offset_ok; assumption.
  - apply factored_data_offset_total; assumption.
Qed.

Lemma factoring_exact_code_pack : forall (dbg : bool) (prev off factor : N),
  is_u32 prev = true -> is_u32 off = true -> is_u8 factor = true ->
  (forall q, factored_code_delta dbg prev off factor = Ok q <->
             prev <= off /\ factor <> 0 /\ q * factor = off - prev) /\
  (factored_code_delta dbg prev off factor = Err WInvalidFrameCodeOffset \/
   exists q, factored_code_delta dbg prev off factor = Ok q) /\
  (off < prev -> factored_code_delta dbg prev off factor = Err WInvalidFrameCodeOffset).
Proof.
  intros dbg prev off factor Hp Ho Hf. split; [|split].
  - intros q. apply factored_code_delta_ok; assumption.
  - apply factored_code_delta_total; assumption.
  - apply factored_code_delta_decreasing.
Qed.

Lemma advance_loc_forms_pack : forall (dbg be : bool) (caf prev off : N),
  is_u8 caf = true -> is_u32 prev = true -> is_u32 off = true ->
  (write_advance_loc dbg be caf prev off = Err WInvalidFrameCodeOffset \/
   exists bs, write_advance_loc dbg be caf prev off = Ok bs) /\
  (forall bs, write_advance_loc dbg be caf prev off = Ok bs ->
     (off = prev /\ bs = []) \/
     (exists delta, prev < off /\ delta * caf = off - prev /\ bs = adv_enc be delta /\
                    forall rest, decode1 be (bs ++ rest) = Some (DAdvance delta, rest))) /\
  (off < prev -> write_advance_loc dbg be caf prev off = Err WInvalidFrameCodeOffset).
Proof.
  intros dbg be caf prev off Hc Hp Ho. split; [|split].
  - apply write_advance_loc_total; assumption.
  - intros bs H. destruct (write_advance_loc_ok dbg be caf prev off bs Hc Hp Ho H)
      as [?|(delta & H1 & H2 & H3 & ->)]; [left; assumption|].
    right. exists delta. repeat split; try assumption.
    intros rest. apply decode1_adv_enc. exact H3.
  - intros Hlt. rewrite (write_advance_loc_eq dbg be caf prev off Hc Hp Ho).
    destruct (off =? prev) eqn:E; [lia|]. destruct (off <? prev) eqn:E2; [reflexivity|lia].
Qed.

Lemma adv_enc_forms : forall (be : bool) (delta : N),
  (delta < 64 -> adv_enc be delta = [n2b (64 + delta)]) /\
  (64 <= delta < 256 -> adv_enc be delta = [x02; n2b delta]) /\
  (256 <= delta < 65536 -> adv_enc be delta = x03 :: enc_num 2 be delta) /\
  (65536 <= delta -> adv_enc be delta = x04 :: enc_num 4 be delta).
Proof.
  intros be delta. unfold adv_enc. repeat split; intros H.
  - destruct (delta <? 64) eqn:E; [reflexivity|lia].
  - destruct (delta <? 64) eqn:E; [lia|]. destruct (delta <? 256) eqn:E2; [reflexivity|lia].
  - destruct (delta <? 64) eqn:E; [lia|]. destruct (delta <? 256) eqn:E2; [lia|].
    destruct (delta <? 65536) eqn:E3; [reflexivity|lia].
  - destruct (delta <? 64) eqn:E; [lia|]. destruct (delta <? 256) eqn:E2; [lia|].
    destruct (delta <? 65536) eqn:E3; [lia|reflexivity].
Qed.

Lemma insn_write_read_pack : forall (dbg be : bool) (caf : N) (daf : Z) (i : cfi),
  cfi_wf i = true -> is_i8 daf = true ->
  (forall bs, write_insn dbg daf i = Ok bs ->
     exists d, decode_all be bs = Some [d] /\
               (forall rest, decode1 be (bs ++ rest) = Some (d, rest)) /\
               sem caf daf d = MInsn i) /\
  ((exists bs, write_insn dbg daf i = Ok bs) \/
   (write_insn dbg daf i = Err WInvalidFrameDataOffset /\
    exists o, factored_operand i = Some o /\ ~ factorable daf o)) /\
  (forall bs o, write_insn dbg daf i = Ok bs -> factored_operand i = Some o -> factorable daf o).
Proof.
  intros dbg be caf daf i Hi Hd. split; [|split].
  - intros bs H. destruct (write_insn_decodes dbg be caf daf i bs Hi Hd H) as (Hne & d & Hdec & Hs).
    exists d. split; [apply decode_all_single; assumption|]. split; assumption.
  - apply write_insn_total; assumption.
  - intros bs o H Ho. eapply write_insn_ok_factorable; eassumption.
Qed.

Lemma fde_program_read_pack : forall (dbg be : bool) (caf : N) (daf : Z) (l : list (N * cfi)) bs,
  forallb fde_insn_wf l = true -> is_u8 caf = true -> is_i8 daf = true ->
  write_fde_insns dbg be caf daf 0 l = Ok bs ->
  exists ds, decode_all be bs = Some ds /\ locate 0 (map (sem caf daf) ds) = l.
Proof.
  intros dbg be caf daf l bs Hl Hc Hd H.
  apply (write_fde_insns_decodes dbg be caf daf l 0 bs Hl Hc Hd); [reflexivity|exact H].
Qed.

Lemma cie_program_read_pack : forall (dbg be : bool) (caf : N) (daf : Z) (l : list cfi) bs,
  forallb cfi_wf l = true -> is_i8 daf = true ->
  write_insns dbg daf l = Ok bs ->
  exists ds, decode_all be bs = Some ds /\ map (sem caf daf) ds = map MInsn l.
Proof. intros. eapply write_insns_decodes; eassumption. Qed.

Lemma len_app a b : len (a ++ b) = len a + len b.
Proof. unfold len. rewrite app_length. lia. Qed.

Lemma cie_wf_parts c : cie_wf c = true ->
  is_u8 (c_asize c) = true /\ is_u8 (c_caf c) = true /\ is_i8 (c_daf c) = true /\ forallb cfi_wf (c_insns c) = true.
Proof. intros H. unfold cie_wf in H. split_wf H. auto. Qed.

Lemma entry_layout_cie_pack : forall (dbg be eh : bool) (pos : N) (c : cie) bs,
  cie_wf c = true ->
  cie_write dbg be eh pos c = Ok bs ->
  asz_ok (c_asize c) /\
  exists il hdr area,
    bs = il ++ hdr ++ area /\
    write_initial_length (c_fmt64 c) be (len (hdr ++ area)) = Ok il /\ len il = ilen_size (c_fmt64 c) /\
    len bs mod c_asize c = 0 /\
    exists ds n, decode_all be area = Some (ds ++ repeat DNop n) /\ N.of_nat n < c_asize c /\
                 map (sem (c_caf c) (c_daf c)) ds = map MInsn (c_insns c).
Proof.
  intros dbg be eh pos c bs Hwf H.
  pose proof (cie_write_ok_asz _ _ _ _ _ _ H) as Hasz. split; [exact Hasz|].
  destruct (asz_cases_pow2 _ Hasz) as [_ Hp].
  destruct (cie_wf_parts c Hwf) as (Hu & Hcaf & Hdaf & Hins).
  destruct (cie_write_layout dbg be eh pos c bs Hu Hp H)
    as (il & hdr & insns & pad & -> & Hil & Hlen & Hw & Hnop & Hpad & Hmod).
  exists il, hdr, (insns ++ pad). repeat split; try assumption.
  - rewrite len_app, Hlen. exact Hmod.
  - destruct (write_insns_decodes_ext dbg be (c_caf c) (c_daf c) (c_insns c) insns Hins Hdaf Hw) as (ds & Hds & Hm).
    exists ds, (length pad). split; [|split; [exact Hpad|exact Hm]].
    apply Hds. apply all_nop_decodes. exact Hnop.
Qed.

Lemma fde_wf_parts f : fde_wf f = true -> forallb fde_insn_wf (f_insns f) = true.
Proof. intros H. unfold fde_wf in H. split_wf H. auto. Qed.

Lemma entry_layout_fde_pack : forall (dbg be eh : bool) (pos coff : N) (c : cie) (f : fde) bs,
  cie_wf c = true -> fde_wf f = true ->
  fde_write dbg be eh pos coff c f = Ok bs ->
  asz_ok (c_asize c) /\
  exists il hdr area,
    bs = il ++ hdr ++ area /\
    write_initial_length (c_fmt64 c) be (len (hdr ++ area)) = Ok il /\ len il = ilen_size (c_fmt64 c) /\
    len bs mod c_asize c = 0 /\
    exists ds n, decode_all be area = Some (ds ++ repeat DNop n) /\ N.of_nat n < c_asize c /\
                 locate 0 (map (sem (c_caf c) (c_daf c)) (ds ++ repeat DNop n)) = f_insns f.
Proof.
  intros dbg be eh pos coff c f bs Hwf Hfw H.
  pose proof (fde_write_ok_asz _ _ _ _ _ _ _ _ H) as Hasz. split; [exact Hasz|].
  destruct (asz_cases_pow2 _ Hasz) as [_ Hp].
  destruct (cie_wf_parts c Hwf) as (Hu & Hcaf & Hdaf & _).
  pose proof (fde_wf_parts f Hfw) as Hins.
  destruct (fde_write_layout dbg be eh pos coff c f bs Hu Hp H)
    as (il & hdr & insns & pad & -> & Hil & Hlen & Hw & Hnop & Hpad & Hmod).
  exists il, hdr, (insns ++ pad). repeat split; try assumption.
  - rewrite len_app, Hlen. exact Hmod.
  - destruct (write_fde_insns_decodes_ext dbg be (c_caf c) (c_daf c) (f_insns f) 0 insns Hins Hcaf Hdaf eq_refl Hw)
      as (ds & Hds & Hm).
    exists ds, (length pad). split; [|split; [exact Hpad|]].
    + apply Hds. apply all_nop_decodes. exact Hnop.
    + rewrite map_app, locate_nops. exact Hm.
Qed.

(* per-tile read-back: every tile of a written table is a well-formed entry whose instruction area decodes
   to the instructions of that CIE / to the instructions of that FDE at their code offsets *)
Definition tile_reads_back (be : bool) (cies : list cie) (fdes : list (nat * fde)) (ch : item * list byte) : Prop :=
  match ch with
  | (ICie idx, b) =>
      exists c il hdr area ds n,
        nth_error cies idx = Some c /\ b = il ++ hdr ++ area /\ len il = ilen_size (c_fmt64 c) /\
        decode_all be area = Some (ds ++ repeat DNop n) /\ N.of_nat n < c_asize c /\
        map (sem (c_caf c) (c_daf c)) ds = map MInsn (c_insns c)
  | (IFde k, b) =>
      exists idx f c il hdr area ds n,
        nth_error fdes k = Some (idx, f) /\ nth_error cies idx = Some c /\
        b = il ++ hdr ++ area /\ len il = ilen_size (c_fmt64 c) /\
        decode_all be area = Some (ds ++ repeat DNop n) /\ N.of_nat n < c_asize c /\
        locate 0 (map (sem (c_caf c) (c_daf c)) (ds ++ repeat DNop n)) = f_insns f
  end.

Lemma well_tiled_reads_back dbg be eh cies fdes :
  Forall (fun c => cie_wf c = true) cies ->
  Forall (fun p => fde_wf (snd p) = true) fdes ->
  forall chunks pos placed, well_tiled dbg be eh cies fdes pos placed chunks ->
  Forall (tile_reads_back be cies fdes) chunks.
Proof.
  intros Hc Hf. induction chunks as [|[it b] r IH]; intros pos placed H; [constructor|].
  destruct it as [idx|k]; cbn [well_tiled] in H; destruct H as [H Hr]; constructor; try (eapply IH; exact Hr).
  - destruct H as (c & Hn & Hw).
    assert (Hcw : cie_wf c = true).
    { rewrite Forall_forall in Hc. apply Hc. eapply nth_error_In. exact Hn. }
    destruct (entry_layout_cie_pack dbg be eh pos c b Hcw Hw)
      as (_ & il & hdr & area & -> & _ & Hlen & _ & ds & n & Hd & Hn' & Hm).
    cbn [tile_reads_back]. exists c, il, hdr, area, ds, n. auto 10.
  - destruct H as (idx & f & c & coff & Hk & Hn & _ & Hw).
    assert (Hcw : cie_wf c = true).
    { rewrite Forall_forall in Hc. apply Hc. eapply nth_error_In. exact Hn. }
    assert (Hfw : fde_wf f = true).
    { rewrite Forall_forall in Hf. apply (Hf (idx, f)). eapply nth_error_In. exact Hk. }
    destruct (entry_layout_fde_pack dbg be eh pos coff c f b Hcw Hfw Hw)
      as (_ & il & hdr & area & -> & _ & Hlen & _ & ds & n & Hd & Hn' & Hm).
    cbn [tile_reads_back]. exists idx, f, c, il, hdr, area, ds, n. auto 12.
Qed.

Lemma table_roundtrip_partial_pack : forall (dbg be eh : bool) (pos : N) (t : ftable) bs,
  Forall (fun c => cie_wf c = true) (t_cies t) ->
  Forall (fun p => fde_wf (snd p) = true) (t_fdes t) ->
  write_table dbg be eh pos t = Ok bs ->
  exists chunks,
    map fst chunks = plan [] 0 (map fst (t_fdes t)) /\
    bs = concat (map snd chunks) /\
    well_tiled dbg be eh (t_cies t) (t_fdes t) pos [] chunks /\
    Forall (tile_reads_back be (t_cies t) (t_fdes t)) chunks.
Proof.
  intros dbg be eh pos t bs Hc Hf H.
  destruct (write_table_tiled dbg be eh pos t bs H) as (chunks & Hp & Hb & Ht).
  exists chunks. repeat split; try assumption.
  eapply well_tiled_reads_back; eassumption.
Qed.

Lemma plan_properties : forall (refs : list nat),
  fde_items (plan [] 0 refs) = seq 0 (length refs) /\
  NoDup (cie_items (plan [] 0 refs)) /\
  (forall idx, In idx (cie_items (plan [] 0 refs)) <-> In idx refs) /\
  (forall a j b idx, plan [] 0 refs = a ++ IFde j :: b -> nth_error refs j = Some idx -> In (ICie idx) a).
Proof.
  intros refs. split; [apply plan_fdes|]. destruct (plan_cies refs [] 0) as [Hnd Hin].
  split; [exact Hnd|]. split.
  - intros idx. rewrite Hin. cbn [In]. tauto.
  - intros a j b idx Hp Hn.
    destruct (plan_cie_before_fde refs [] 0 a j b idx Hp) as [[]|H]; [now rewrite Nat.sub_0_r|lia|exact H].
Qed.

(* ------------------------------------------------------------------ *)
(* 11. pointer-encoded fields read back                                 *)
(* ------------------------------------------------------------------ *)

Lemma write_udata_fixed be v size bs rest :
  v < 18446744073709551616 -> write_udata be v size = Ok bs ->
  (size = 1 \/ size = 2 \/ size = 4 \/ size = 8) /\
  fixed (N.to_nat size) be (bs ++ rest) = Some (v, rest).
Proof.
  unfold write_udata. intros Hv H.
  destruct (size =? 1) eqn:E1.
  { assert (size = 1) by lia. subst size. destruct (v <? 256) eqn:Ev; [|discriminate]. injection H as <-.
    split; [auto|]. rewrite <- enc_num_enc_un. change (N.to_nat 1) with 1%nat. rewrite fixed_enc_num.
    change (256 ^ N.of_nat 1) with 256. rewrite N.mod_small by lia. reflexivity. }
  destruct (size =? 2) eqn:E2.
  { assert (size = 2) by lia. subst size. destruct (v <? two16) eqn:Ev; [|discriminate]. injection H as <-.
    split; [auto|]. rewrite <- enc_num_enc_un. change (N.to_nat 2) with 2%nat. rewrite fixed_enc_num.
    change (256 ^ N.of_nat 2) with 65536. unfold two16 in Ev. rewrite N.mod_small by lia. reflexivity. }
  destruct (size =? 4) eqn:E4.
  { assert (size = 4) by lia. subst size. destruct (v <? two32) eqn:Ev; [|discriminate]. injection H as <-.
    split; [auto|]. rewrite <- enc_num_enc_un. change (N.to_nat 4) with 4%nat. rewrite fixed_enc_num.
    change (256 ^ N.of_nat 4) with 4294967296. unfold two32 in Ev. rewrite N.mod_small by lia. reflexivity. }
  destruct (size =? 8) eqn:E8; [|discriminate].
  assert (size = 8) by lia. subst size. injection H as <-.
  split; [auto|]. rewrite <- enc_num_enc_un. change (N.to_nat 8) with 8%nat. rewrite fixed_enc_num.
  change (256 ^ N.of_nat 8) with 18446744073709551616. rewrite N.mod_small by lia. reflexivity.
Qed.

Lemma signed_of_of_signed bits z :
  (bits = 16 \/ bits = 32 \/ bits = 64) -> in_signed bits z = true -> signed_of bits (of_signed bits z) = z.
Proof.
  intros Hb Hz. unfold in_signed in Hz. unfold signed_of, of_signed.
  destruct Hb as [->|[->| ->]].
  - change (2 ^ (16 - 1)) with 32768 in *. change (2 ^ 16) with 65536.
    change (Z.of_N 32768) with 32768%Z in *. change (Z.of_N 65536) with 65536%Z.
    destruct (Z.to_N (z mod 65536) <? 32768) eqn:E; lia.
  - change (2 ^ (32 - 1)) with 2147483648 in *. change (2 ^ 32) with 4294967296.
    change (Z.of_N 2147483648) with 2147483648%Z in *. change (Z.of_N 4294967296) with 4294967296%Z.
    destruct (Z.to_N (z mod 4294967296) <? 2147483648) eqn:E; lia.
  - change (2 ^ (64 - 1)) with 9223372036854775808 in *. change (2 ^ 64) with 18446744073709551616.
    change (Z.of_N 9223372036854775808) with 9223372036854775808%Z in *.
    change (Z.of_N 18446744073709551616) with 18446744073709551616%Z.
    destruct (Z.to_N (z mod 18446744073709551616) <? 9223372036854775808) eqn:E; lia.
Qed.

Lemma of_signed_lt bits z : bits <> 0 -> of_signed bits z < 2 ^ bits.
Proof.
  intros Hb. unfold of_signed.
  assert (0 < Z.of_N (2 ^ bits))%Z by (pose proof (pow2_pos bits); lia).
  assert (0 <= z mod Z.of_N (2 ^ bits) < Z.of_N (2 ^ bits))%Z by (apply Z.mod_pos_bound; lia).
  lia.
Qed.

Lemma write_sdata_fixed be z size bs rest :
  write_sdata be z size = Ok bs -> (-9223372036854775808 <= z < 9223372036854775808)%Z ->
  (size = 2 /\ omap (fixed 2 be (bs ++ rest)) (fun v r => Some (signed_of 16 v, r)) = Some (z, rest)) \/
  (size = 4 /\ omap (fixed 4 be (bs ++ rest)) (fun v r => Some (signed_of 32 v, r)) = Some (z, rest)) \/
  (size = 8 /\ omap (fixed 8 be (bs ++ rest)) (fun v r => Some (signed_of 64 v, r)) = Some (z, rest)) \/
  size = 1.
Proof.
  unfold write_sdata. intros H Hz.
  destruct (size =? 1) eqn:E1; [right; right; right; lia|].
  destruct (size =? 2) eqn:E2.
  { left. split; [lia|]. destruct (in_signed 16 z) eqn:Ei; [|discriminate]. injection H as <-.
    rewrite <- enc_num_enc_un, fixed_enc_num. cbn [omap]. change (256 ^ N.of_nat 2) with (2 ^ 16).
    rewrite N.mod_small by (apply of_signed_lt; lia). rewrite signed_of_of_signed; auto. }
  destruct (size =? 4) eqn:E4.
  { right. left. split; [lia|]. destruct (in_signed 32 z) eqn:Ei; [|discriminate]. injection H as <-.
    rewrite <- enc_num_enc_un, fixed_enc_num. cbn [omap]. change (256 ^ N.of_nat 4) with (2 ^ 32).
    rewrite N.mod_small by (apply of_signed_lt; lia). rewrite signed_of_of_signed; auto. }
  destruct (size =? 8) eqn:E8; [|discriminate].
  right. right. left. split; [lia|]. injection H as <-.
  rewrite <- enc_num_enc_un, fixed_enc_num. cbn [omap]. change (256 ^ N.of_nat 8) with (2 ^ 64).
  rewrite N.mod_small by (apply of_signed_lt; lia). rewrite signed_of_of_signed; auto.
  unfold in_signed. change (Z.of_N (2 ^ (64 - 1))) with 9223372036854775808%Z. lia.
Qed.

Lemma to_i64_mod x : x < 18446744073709551616 -> (to_i64 x mod 18446744073709551616 = Z.of_N x)%Z.
Proof.
  intros Hx. unfold to_i64, to_signed, wrapN. change (2 ^ 64) with 18446744073709551616.
  change (2 ^ (64 - 1)) with 9223372036854775808.
  rewrite N.mod_small by exact Hx.
  destruct (x <? 9223372036854775808) eqn:E; change (Z.of_N 18446744073709551616) with 18446744073709551616%Z; lia.
Qed.

(* the decoded value is the written 64-bit pattern, as a signed or unsigned number *)
Lemma write_eh_pointer_data_reads be val fmt asz bs rest :
  val < 18446744073709551616 ->
  write_eh_pointer_data be val fmt asz = Ok bs ->
  exists v, pe_value be asz fmt (bs ++ rest) = Some (v, rest) /\
            (v mod 18446744073709551616 = Z.of_N val)%Z /\
            (fmt = 0 -> asz = 1 \/ asz = 2 \/ asz = 4 \/ asz = 8).
Proof.
  intros Hv H. unfold write_eh_pointer_data in H. unfold pe_value.
  destruct (fmt =? 0) eqn:F0.
  { destruct (write_udata_fixed be val asz bs rest Hv H) as [Hs Hf]. exists (Z.of_N val).
    rewrite Hf. cbn [omap]. split; [reflexivity|]. split; [lia|auto]. }
  destruct (fmt =? 1) eqn:F1.
  { destruct (write_uleb128_spec val) as (lb & Hw & _ & Hd); [exact Hv|].
    unfold write_uleb128 in *. rewrite Hw in H. injection H as <-. exists (Z.of_N val).
    rewrite Hd. cbn [omap]. split; [reflexivity|]. split; [lia|lia]. }
  destruct (fmt =? 2) eqn:F2.
  { destruct (write_udata_fixed be val 2 bs rest Hv H) as [_ Hf]. exists (Z.of_N val).
    change (N.to_nat 2) with 2%nat in Hf. rewrite Hf. cbn [omap]. split; [reflexivity|]. split; lia. }
  destruct (fmt =? 3) eqn:F3.
  { destruct (write_udata_fixed be val 4 bs rest Hv H) as [_ Hf]. exists (Z.of_N val).
    change (N.to_nat 4) with 4%nat in Hf. rewrite Hf. cbn [omap]. split; [reflexivity|]. split; lia. }
  destruct (fmt =? 4) eqn:F4.
  { destruct (write_udata_fixed be val 8 bs rest Hv H) as [_ Hf]. exists (Z.of_N val).
    change (N.to_nat 8) with 8%nat in Hf. rewrite Hf. cbn [omap]. split; [reflexivity|]. split; lia. }
  pose proof (to_i64_range val) as Hr. pose proof (to_i64_mod val Hv) as Hm.
  destruct (fmt =? 9) eqn:F9.
  { destruct (write_sleb128_spec (to_i64 val) Hr) as (sb & Hw & _ & Hd).
    unfold write_sleb128 in *. rewrite Hw in H. injection H as <-. exists (to_i64 val).
    rewrite Hd. split; [reflexivity|]. split; [exact Hm|lia]. }
  destruct (fmt =? 10) eqn:F10.
  { destruct (write_sdata_fixed be _ _ bs rest H Hr) as [[_ Hf]|[[Hs _]|[[Hs _]|Hs]]]; try lia.
    exists (to_i64 val). rewrite Hf. split; [reflexivity|]. split; [exact Hm|lia]. }
  destruct (fmt =? 11) eqn:F11.
  { destruct (write_sdata_fixed be _ _ bs rest H Hr) as [[Hs _]|[[_ Hf]|[[Hs _]|Hs]]]; try lia.
    exists (to_i64 val). rewrite Hf. split; [reflexivity|]. split; [exact Hm|lia]. }
  destruct (fmt =? 12) eqn:F12; [|discriminate].
  destruct (write_sdata_fixed be _ _ bs rest H Hr) as [[Hs _]|[[Hs _]|[[_ Hf]|Hs]]]; try lia.
  exists (to_i64 val). rewrite Hf. split; [reflexivity|]. split; [exact Hm|lia].
Qed.

Lemma pow8_cases asz : asz = 1 \/ asz = 2 \/ asz = 4 \/ asz = 8 ->
  Z.of_N (2 ^ (8 * asz)) = 256%Z \/ Z.of_N (2 ^ (8 * asz)) = 65536%Z \/
  Z.of_N (2 ^ (8 * asz)) = 4294967296%Z \/ Z.of_N (2 ^ (8 * asz)) = 18446744073709551616%Z.
Proof. intros [->|[->|[->| ->]]]; [left|right; left|right; right; left|right; right; right]; reflexivity. Qed.

Lemma mod_reduce (x a q m k : Z) :
  m <> 0%Z -> (18446744073709551616 = k * m)%Z -> (x = a + 18446744073709551616 * q)%Z -> (x mod m = a mod m)%Z.
Proof.
  intros Hm Hk Hx. rewrite Hx, Hk. replace (a + k * m * q)%Z with (a + (k * q) * m)%Z by ring.
  apply Z.mod_add. exact Hm.
Qed.

Lemma mod_reduce_cases (x a q m : Z) :
  (m = 256 \/ m = 65536 \/ m = 4294967296 \/ m = 18446744073709551616)%Z ->
  (x = a + 18446744073709551616 * q)%Z -> (x mod m = a mod m)%Z.
Proof.
  intros [->|[->|[->| ->]]] Hx.
  - apply (mod_reduce x a q 256 72057594037927936); [discriminate|reflexivity|exact Hx].
  - apply (mod_reduce x a q 65536 281474976710656); [discriminate|reflexivity|exact Hx].
  - apply (mod_reduce x a q 4294967296 4294967296); [discriminate|reflexivity|exact Hx].
  - apply (mod_reduce x a q 18446744073709551616 1); [discriminate|reflexivity|exact Hx].
Qed.

Lemma write_eh_pointer_reads be pos a enc asz bs rest :
  a < 18446744073709551616 -> pos < 18446744073709551616 ->
  (asz = 1 \/ asz = 2 \/ asz = 4 \/ asz = 8) ->
  write_eh_pointer be pos (AConst a) enc asz = Ok bs ->
  pe_pointer be asz enc pos (bs ++ rest) = Some (a mod 2 ^ (8 * asz), rest).
Proof.
  intros Ha Hp Hasz H. unfold write_eh_pointer in H. unfold pe_pointer.
  fold (pe_format enc). fold (pe_application enc).
  pose proof (pow8_cases asz Hasz) as Hm.
  assert (Hmod : Z.of_N (a mod 2 ^ (8 * asz)) = (Z.of_N a mod Z.of_N (2 ^ (8 * asz)))%Z).
  { rewrite N2Z.inj_mod. reflexivity. }
  assert (Hmpos : (0 < Z.of_N (2 ^ (8 * asz)))%Z) by (destruct Hm as [->|[->|[->| ->]]]; reflexivity).
  destruct (pe_application enc =? 0) eqn:A0.
  - cbn [bind] in H.
    destruct (write_eh_pointer_data_reads be a (pe_format enc) asz bs rest Ha H) as (v & Hv & Hvm & _).
    rewrite Hv. cbn [omap]. f_equal. f_equal.
    apply N2Z.inj. rewrite Hmod. rewrite Z2N.id by (apply Z.mod_pos_bound; exact Hmpos).
    apply (mod_reduce_cases v (Z.of_N a) (v / 18446744073709551616)); [exact Hm|].
    pose proof (Z.div_mod v 18446744073709551616 ltac:(discriminate)) as Hd. rewrite Hvm in Hd. lia.
  - destruct (pe_application enc =? 16) eqn:A16; [|discriminate].
    cbn [bind] in H.
    assert (Hval : wrap64 (two64 + a - wrap64 pos) < 18446744073709551616) by apply wrap64_lt.
    destruct (write_eh_pointer_data_reads be _ (pe_format enc) asz bs rest Hval H) as (v & Hv & Hvm & _).
    rewrite Hv. cbn [omap]. f_equal. f_equal.
    apply N2Z.inj. rewrite Hmod. rewrite Z2N.id by (apply Z.mod_pos_bound; exact Hmpos).
    unfold wrap64, two64 in Hvm. rewrite (N.mod_small pos) in Hvm by exact Hp.
    pose proof (Z.div_mod v 18446744073709551616 ltac:(discriminate)) as Hd. rewrite Hvm in Hd.
    assert (HW : exists q2, (Z.of_N ((18446744073709551616 + a - pos) mod 18446744073709551616)
                             = Z.of_N a - Z.of_N pos + 18446744073709551616 * q2)%Z).
    { destruct (pos <=? a) eqn:E.
      - exists 0%Z. replace (18446744073709551616 + a - pos) with ((a - pos) + 1 * 18446744073709551616) by lia.
        rewrite N.mod_add by discriminate. rewrite N.mod_small by lia. lia.
      - exists 1%Z. rewrite N.mod_small by lia. lia. }
    destruct HW as [q2 HW]. rewrite HW in Hd.
    apply (mod_reduce_cases _ (Z.of_N a) (v / 18446744073709551616 + q2)); [exact Hm|]. lia.
Qed.

(* ------------------------------------------------------------------ *)
(* 12. the CIE header reads back                                        *)
(* ------------------------------------------------------------------ *)

Definition aug_string (c : cie) : list byte :=
  if has_augmentation c then
    [x7a] ++ (if is_some (c_lsda_enc c) then [x4c] else [])
          ++ (if is_some (c_pers c) then [x50] else [])
          ++ (if negb (c_fde_enc c =? 0) then [x52] else [])
          ++ (if c_sig c then [x53] else [])
  else [].

Definition cie_fields_of (c : cie) : cie_fields :=
  mkFields (c_version c) (aug_string c)
           (if c_version c =? 4 then Some (c_asize c) else None)
           (c_caf c) (c_daf c) (c_ra c)
           (c_lsda_enc c)
           (match c_pers c with
            | Some (e, AConst a) => Some (e, a mod 2 ^ (8 * c_asize c))
            | Some (e, ASym _ _) => Some (e, 0)
            | None => None
            end)
           (if c_fde_enc c =? 0 then None else Some (c_fde_enc c))
           (c_sig c).

Lemma cstr_app (chars rest : list byte) :
  forallb (fun b => negb (b2n b =? 0)) chars = true -> cstr (chars ++ x00 :: rest) = Some (chars, rest).
Proof.
  induction chars as [|b r IH]; intros H; cbn [app cstr].
  - reflexivity.
  - cbn [forallb] in H. apply andb_true_iff in H. destruct H as [Hb Hr].
    destruct (b2n b =? 0); [discriminate|]. rewrite (IH Hr). reflexivity.
Qed.

Lemma consumed_app (a r : list byte) : consumed (a ++ r) r = len a.
Proof. unfold consumed, len. rewrite app_length. lia. Qed.

Lemma uleb_small_byte n rest : n < 128 -> uleb (n2b n :: rest) = Some (n, rest).
Proof.
  intros H. destruct (byte7_plain n H) as [Hc Hl].
  unfold uleb. cbn [split_leb]. rewrite Hc. cbn [uval]. rewrite Hl. f_equal. f_equal. lia.
Qed.

(* the optional pieces of the augmentation, one at a time *)
Lemma aug_walk_L be asz cs e d pos l p r s :
  aug_walk be asz (x4c :: cs) (e :: d) pos l p r s = aug_walk be asz cs d (pos + 1) (Some (b2n e)) p r s.
Proof. reflexivity. Qed.
Lemma aug_walk_R be asz cs e d pos l p r s :
  aug_walk be asz (x52 :: cs) (e :: d) pos l p r s = aug_walk be asz cs d (pos + 1) l p (Some (b2n e)) s.
Proof. reflexivity. Qed.
Lemma aug_walk_S be asz cs d pos l p r s :
  aug_walk be asz (x53 :: cs) d pos l p r s = aug_walk be asz cs d pos l p r true.
Proof. reflexivity. Qed.
Lemma aug_walk_P be asz cs e d pos l p r s :
  aug_walk be asz (x50 :: cs) (e :: d) pos l p r s =
  match pe_pointer be asz (b2n e) (pos + 1) d with
  | Some (v, d') => aug_walk be asz cs d' (pos + 1 + consumed d d') l (Some (b2n e, v)) r s
  | None => None
  end.
Proof. reflexivity. Qed.

Lemma with_aug_len_inv dbg be data bs :
  with_aug_len dbg be data = Ok bs -> len data < 256 /\ bs = n2b (len data) :: data.
Proof.
  unfold with_aug_len. destruct (dbg && (128 <=? len data)); [discriminate|].
  intros H. apply bind_ok_inv in H. destruct H as (lb & Hlb & H). injection H as <-.
  unfold write_udata in Hlb. change (1 =? 1) with true in Hlb. cbv iota in Hlb.
  destruct (len data <? 256) eqn:E; [|discriminate]. injection Hlb as <-. split; [lia|]. destruct be; reflexivity.
Qed.

Lemma uleb_of_write v bs : v < 18446744073709551616 -> write_uleb128 v = Ok bs ->
  forall rest, uleb (bs ++ rest) = Some (v, rest).
Proof.
  intros Hv H. destruct (write_uleb128_spec v) as (lb & Hw & _ & Hd); [exact Hv|].
  rewrite Hw in H. injection H as <-. exact Hd.
Qed.
Lemma sleb_of_write v bs : (-9223372036854775808 <= v < 9223372036854775808)%Z -> write_sleb128 v = Ok bs ->
  forall rest, sleb (bs ++ rest) = Some (v, rest).
Proof.
  intros Hv H. destruct (write_sleb128_spec v Hv) as (lb & Hw & _ & Hd).
  rewrite Hw in H. injection H as <-. exact Hd.
Qed.

Lemma id_stage (be eh fmt64 : bool) (R : list byte) :
  fixed (if eh then 4 else if fmt64 then 8 else 4)%nat be
        ((if eh then enc_un 4%nat be 0 else if fmt64 then enc_un 8%nat be (two64 - 1) else enc_un 4%nat be (two32 - 1)) ++ R)
  = Some ((if eh then 0 else if fmt64 then 18446744073709551615 else 4294967295), R).
Proof.
  destruct eh; [|destruct fmt64]; rewrite <- enc_num_enc_un, fixed_enc_num; reflexivity.
Qed.

Lemma aug_string_cstr c R :
  cstr (((if has_augmentation c then
            [x7a] ++ (if is_some (c_lsda_enc c) then [x4c] else [])
                  ++ (if is_some (c_pers c) then [x50] else [])
                  ++ (if negb (c_fde_enc c =? 0) then [x52] else [])
                  ++ (if c_sig c then [x53] else [])
          else []) ++ [x00]) ++ R) = Some (aug_string c, R).
Proof.
  rewrite <- app_assoc. cbn [app]. unfold aug_string.
  apply cstr_app.
  destruct (has_augmentation c); [|reflexivity].
  destruct (is_some (c_lsda_enc c)), (is_some (c_pers c)), (negb (c_fde_enc c =? 0)), (c_sig c); reflexivity.
Qed.

Lemma no_aug_fields c : has_augmentation c = false ->
  c_lsda_enc c = None /\ c_pers c = None /\ (c_fde_enc c =? 0) = true /\ c_sig c = false.
Proof.
  unfold has_augmentation. intros H.
  apply orb_false_iff in H. destruct H as [H H4].
  apply orb_false_iff in H. destruct H as [H H3].
  apply orb_false_iff in H. destruct H as [H1 H2].
  destruct (c_pers c); [discriminate|]. destruct (c_lsda_enc c); [discriminate|].
  destruct (c_fde_enc c =? 0); [|discriminate]. auto.
Qed.

(* the augmentation data against the characters after 'z' *)
Lemma aug_walk_written be (c : cie) (dpos : N) (pb : list byte) :
  cie_wf c = true ->
  (c_asize c = 1 \/ c_asize c = 2 \/ c_asize c = 4 \/ c_asize c = 8) ->
  (is_some (c_pers c) = true ->
   dpos + len (match c_lsda_enc c with Some e => [n2b e] | None => [] end) + 1 < 18446744073709551616) ->
  match c_pers c with
  | Some (e, a) => write_eh_pointer be (dpos + len (match c_lsda_enc c with Some e => [n2b e] | None => [] end) + 1)
                                    a e (c_asize c) = Ok pb
  | None => pb = []
  end ->
  aug_walk be (c_asize c)
    ((if is_some (c_lsda_enc c) then [x4c] else [])
       ++ (if is_some (c_pers c) then [x50] else [])
       ++ (if negb (c_fde_enc c =? 0) then [x52] else [])
       ++ (if c_sig c then [x53] else []))
    ((match c_lsda_enc c with Some e => [n2b e] | None => [] end)
       ++ (match c_pers c with Some (e, _) => n2b e :: pb | None => [] end)
       ++ (if negb (c_fde_enc c =? 0) then [n2b (c_fde_enc c)] else []))
    dpos None None None false
  = Some (cf_lsda_enc (cie_fields_of c), cf_pers (cie_fields_of c), cf_fde_enc (cie_fields_of c), c_sig c).
Proof.
  intros Hwf Hasz Hpos Hpb. unfold cie_wf in Hwf. split_wf Hwf.
  rename W into Hinsns, W0 into Hfe, W1 into Hle, W2 into Hpe.
  cbn [cie_fields_of cf_lsda_enc cf_pers cf_fde_enc].
  (* generalise over the state after 'L' *)
  assert (Tail : forall posP l0,
    (is_some (c_pers c) = true -> posP + 1 < 18446744073709551616) ->
    match c_pers c with
    | Some (e, a) => write_eh_pointer be (posP + 1) a e (c_asize c) = Ok pb
    | None => pb = []
    end ->
    aug_walk be (c_asize c)
      ((if is_some (c_pers c) then [x50] else [])
         ++ (if negb (c_fde_enc c =? 0) then [x52] else [])
         ++ (if c_sig c then [x53] else []))
      ((match c_pers c with Some (e, _) => n2b e :: pb | None => [] end)
         ++ (if negb (c_fde_enc c =? 0) then [n2b (c_fde_enc c)] else []))
      posP l0 None None false
    = Some (l0,
            match c_pers c with
            | Some (e, AConst a) => Some (e, a mod 2 ^ (8 * c_asize c))
            | Some (e, ASym _ _) => Some (e, 0)
            | None => None
            end,
            (if c_fde_enc c =? 0 then None else Some (c_fde_enc c)), c_sig c)).
  { intros posP l0 HposP HpbP.
    assert (Tail2 : forall posR p0,
      aug_walk be (c_asize c)
        ((if negb (c_fde_enc c =? 0) then [x52] else []) ++ (if c_sig c then [x53] else []))
        (if negb (c_fde_enc c =? 0) then [n2b (c_fde_enc c)] else [])
        posR l0 p0 None false
      = Some (l0, p0, (if c_fde_enc c =? 0 then None else Some (c_fde_enc c)), c_sig c)).
    { intros posR p0. apply is_u8_iff in Hfe.
      destruct (c_fde_enc c =? 0) eqn:Ef; cbn [negb app].
      - destruct (c_sig c); [rewrite aug_walk_S|]; reflexivity.
      - rewrite aug_walk_R. rewrite byte_small by exact Hfe.
        destruct (c_sig c); [rewrite aug_walk_S|]; reflexivity. }
    destruct (c_pers c) as [[e a]|] eqn:Ep; cbn [is_some app].
    - apply andb_true_iff in Hpe. destruct Hpe as [He Ha]. apply is_u8_iff in He.
      rewrite aug_walk_P. rewrite byte_small by exact He.
      destruct a as [av|sy ad]; [|cbn [write_eh_pointer] in HpbP; discriminate].
      cbn [addr_wf] in Ha.
      specialize (HposP eq_refl).
      rewrite (write_eh_pointer_reads be (posP + 1) av e (c_asize c) pb _) ; [|lia|lia|exact Hasz|exact HpbP].
      rewrite Tail2. reflexivity.
    - subst pb. cbn [app]. apply Tail2. }
  destruct (c_lsda_enc c) as [e|] eqn:El; cbn [is_some app].
  - apply is_u8_iff in Hle. rewrite aug_walk_L. rewrite byte_small by exact Hle.
    change (len [n2b e]) with 1 in *.
    apply Tail; [intros Hs; specialize (Hpos Hs); lia|]. destruct (c_pers c) as [[e' a]|]; [|exact Hpb].
    exact Hpb.
  - change (len []) with 0 in *. rewrite N.add_0_r in *.
    apply Tail; [intros Hs; specialize (Hpos Hs); lia|]. destruct (c_pers c) as [[e' a]|]; [|exact Hpb].
    exact Hpb.
Qed.


Lemma version_cases (eh : bool) ver :
  (if eh then negb (ver =? 1) else negb ((ver =? 1) || (ver =? 3) || (ver =? 4))) = false ->
  (ver = 1 \/ ver = 3 \/ ver = 4) /\ (eh = true -> ver = 1).
Proof. destruct eh; intros H; split; try lia; intros; lia. Qed.

Lemma len_cons (b : byte) l : len (b :: l) = 1 + len l.
Proof. unfold len. cbn [length]. lia. Qed.

Lemma cie_header_reads dbg be eh pos (c : cie) bs :
  cie_wf c = true ->
  pos + len bs < 18446744073709551616 ->
  cie_write dbg be eh pos c = Ok bs ->
  exists il body insns pad,
    bs = il ++ body /\ len il = ilen_size (c_fmt64 c) /\
    write_initial_length (c_fmt64 c) be (len body) = Ok il /\
    write_insns dbg (c_daf c) (c_insns c) = Ok insns /\ all_nop pad = true /\ len pad < c_asize c /\
    parse_cie_body be eh (c_fmt64 c) (c_asize c) (pos + ilen_size (c_fmt64 c)) body
      = Some (cie_fields_of c, insns ++ pad).
Proof.
  intros Hwf Hfit H.
  pose proof (cie_write_ok_asz _ _ _ _ _ _ H) as Hasz.
  destruct (asz_cases_pow2 _ Hasz) as [Hu8 Hp2].
  pose proof Hwf as Hwf0. unfold cie_wf in Hwf. split_wf Hwf.
  rename W into Hinsns, W0 into Hfe, W1 into Hle, W2 into Hpe, W3 into Hra, W4 into Hdaf, W5 into Hcaf, W6 into Hasz8.
  unfold cie_write in H. cbv zeta in H.
  destruct (if eh then negb (c_version c =? 1)
            else negb ((c_version c =? 1) || (c_version c =? 3) || (c_version c =? 4))) eqn:Ever; [discriminate|].
  destruct (version_cases eh _ Ever) as [Hver Hveh].
  assert (Hv4 : (4 <=? c_version c) = (c_version c =? 4)) by lia.
  rewrite Hv4 in H.
  apply bind_ok_inv in H. destruct H as (cafb & Hcafb & H).
  apply bind_ok_inv in H. destruct H as (dafb & Hdafb & H).
  apply bind_ok_inv in H. destruct H as (rab & Hrab & H).
  set (PRE := (if eh then enc_un 4 be 0 else if c_fmt64 c then enc_un 8 be (two64 - 1) else enc_un 4 be (two32 - 1)) ++
              [n2b (wrap8 (c_version c))] ++
              ((if has_augmentation c
                then [x7a] ++ (if is_some (c_lsda_enc c) then [x4c] else []) ++
                     (if is_some (c_pers c) then [x50] else []) ++
                     (if negb (c_fde_enc c =? 0) then [x52] else []) ++ (if c_sig c then [x53] else [])
                else []) ++ [x00]) ++
              (if c_version c =? 4 then [n2b (c_asize c); x00] else []) ++ cafb ++ dafb ++ rab) in H.
  apply bind_ok_inv in H. destruct H as (augdata & Haug & H).
  apply bind_ok_inv in H. destruct H as (insns & Hins & H).
  apply (close_entry_spec dbg be _ _ _ _ Hu8 Hp2) in H.
  destruct H as (il & pad & Hbs & Hil & Hlen & Hnop & Hpad & Hmod).
  exists il, ((PRE ++ augdata ++ insns) ++ pad), insns, pad.
  split; [exact Hbs|]. split; [exact Hlen|]. split; [exact Hil|]. split; [exact Hins|]. split; [exact Hnop|]. split; [exact Hpad|].
  apply is_u8_iff in Hcaf. apply is_i8_iff in Hdaf. apply is_u16_iff in Hra.
  pose proof (uleb_of_write (c_caf c) cafb ltac:(lia) Hcafb) as Dcaf.
  pose proof (sleb_of_write (c_daf c) dafb ltac:(lia) Hdafb) as Ddaf.
  assert (Hbound : pos + ilen_size (c_fmt64 c) + len PRE + len augdata < 18446744073709551616).
  { rewrite Hbs in Hfit. rewrite !len_app in Hfit. lia. }
  (* right-associate the body *)
  unfold PRE. rewrite <- !app_assoc. cbn [app].
  match goal with |- parse_cie_body _ _ _ _ _ ?B = _ =>
    assert (HB : B = (PRE ++ augdata) ++ insns ++ pad) by (unfold PRE; repeat rewrite <- app_assoc; reflexivity)
  end.
  unfold parse_cie_body.
  rewrite id_stage. cbn [omap]. rewrite N.eqb_refl. cbn [negb].
  (* version *)
  assert (Hvb : b2n (n2b (wrap8 (c_version c))) = c_version c).
  { rewrite wrap8_small by lia. apply byte_small. lia. }
  rewrite fixed1_byte, Hvb. cbn [omap].
  (* augmentation string *)
  rewrite cstr_app by (destruct (has_augmentation c); [|reflexivity];
                       destruct (is_some (c_lsda_enc c)), (is_some (c_pers c)), (negb (c_fde_enc c =? 0)), (c_sig c);
                       reflexivity).
  cbn [omap].
  (* address size and segment size *)
  assert (Stage4 : forall (B : Type) (R : list byte) (k : option N -> list byte -> option B),
    omap (if c_version c =? 4
          then omap (fixed 1 be ((if c_version c =? 4 then [n2b (c_asize c); x00] else []) ++ R))
                 (fun a r => omap (fixed 1 be r) (fun seg r' => if seg =? 0 then Some (Some a, r') else None))
          else Some (None, (if c_version c =? 4 then [n2b (c_asize c); x00] else []) ++ R)) k
    = k (if c_version c =? 4 then Some (c_asize c) else None) R).
  { intros B R k. destruct (c_version c =? 4).
    - cbn [app]. rewrite fixed1_byte. cbn [omap]. rewrite fixed1_byte. cbn [omap].
      rewrite byte_small by (apply is_u8_iff; exact Hasz8). reflexivity.
    - reflexivity. }
  rewrite Stage4.
  assert (Hasz' : match (if c_version c =? 4 then Some (c_asize c) else None) with Some a => a | None => c_asize c end
                  = c_asize c) by (destruct (c_version c =? 4); reflexivity).
  rewrite Hasz'.
  (* factors *)
  rewrite Dcaf. cbn [omap]. rewrite Ddaf. cbn [omap].
  (* return address register *)
  assert (StageRa : forall R, (if c_version c =? 1 then fixed 1 be (rab ++ R) else uleb (rab ++ R)) = Some (c_ra c, R)).
  { intros R. destruct (c_version c =? 1).
    - destruct (c_ra c <? 256) eqn:Er; [|discriminate]. injection Hrab as <-. cbn [app].
      rewrite fixed1_byte, byte_small by lia. reflexivity.
    - apply uleb_of_write; [lia|exact Hrab]. }
  rewrite StageRa. cbn [omap].
  (* augmentation data *)
  case_eq (has_augmentation c); intros Ea; rewrite Ea in Haug.
  - change (b2n x7a =? 122) with true. cbn [negb].
    apply bind_ok_inv in Haug. destruct Haug as (pp & Hpp & Haug).
    apply with_aug_len_inv in Haug. destruct Haug as [Hdl ->].
    set (l := match c_lsda_enc c with Some e => [n2b e] | None => [] end) in *.
    set (r := if negb (c_fde_enc c =? 0) then [n2b (c_fde_enc c)] else []) in *.
    assert (Hp : exists pb, pp = match c_pers c with Some (e, _) => n2b e :: pb | None => [] end /\
                 match c_pers c with
                 | Some (e, a) => write_eh_pointer be (pos + ilen_size (c_fmt64 c) + len PRE + 1 + len l + 1) a e (c_asize c) = Ok pb
                 | None => pb = []
                 end /\ (length pb <= 10)%nat).
    { destruct (c_pers c) as [[e a]|].
      - apply bind_ok_inv in Hpp. destruct Hpp as (pb & Hpb & Hpp). injection Hpp as <-.
        exists pb. split; [reflexivity|]. split; [exact Hpb|eapply write_eh_pointer_len; exact Hpb].
      - injection Hpp as <-. exists []. split; [reflexivity|]. split; [reflexivity|cbn; lia]. }
    destruct Hp as (pb & -> & Hpb & Hpbl).
    set (data := l ++ (match c_pers c with Some (e, _) => n2b e :: pb | None => [] end) ++ r) in *.
    assert (Hdl2 : len data < 128).
    { unfold len. subst data l r. rewrite !app_length.
      destruct (c_lsda_enc c), (c_pers c) as [[? ?]|], (negb (c_fde_enc c =? 0)); cbn [length]; lia. }
    cbn [app].
    rewrite uleb_small_byte by exact Hdl2. cbn [omap].
    destruct (N.of_nat (length (data ++ insns ++ pad)) <? len data) eqn:El;
      [rewrite app_length in El; unfold len in El; lia|].
    change (N.to_nat (len data)) with (N.to_nat (N.of_nat (length data))).
    rewrite Nat2N.id, firstn_app_exact, skipn_app_exact.
    match goal with |- context [consumed ?B (data ++ insns ++ pad)] =>
      assert (Hcons : consumed B (data ++ insns ++ pad) = len PRE + 1)
    end.
    { transitivity (consumed ((PRE ++ [n2b (len data)]) ++ data ++ insns ++ pad) (data ++ insns ++ pad));
        [|rewrite consumed_app, len_app; reflexivity].
      f_equal. rewrite Ea in HB.
      etransitivity; [|etransitivity; [exact HB|]]; [reflexivity|].
      repeat rewrite <- app_assoc. reflexivity. }
    rewrite Hcons. unfold data, l, r.
    rewrite (aug_walk_written be c (pos + ilen_size (c_fmt64 c) + (len PRE + 1)) pb Hwf0 Hasz).
    + unfold cie_fields_of, aug_string. rewrite Ea. reflexivity.
    + intros Hs. rewrite len_cons in Hbound. fold l.
      assert (len l + 1 <= len data).
      { unfold data. rewrite !len_app. destruct (c_pers c) as [[? ?]|]; [|discriminate]. rewrite len_cons. lia. }
      lia.
    + destruct (c_pers c) as [[e a]|]; [|exact Hpb]. rewrite <- Hpb. f_equal. fold l. lia.
  - destruct (no_aug_fields c Ea) as (E1 & E2 & E3 & E4).
    injection Haug as <-. cbn [app].
    unfold cie_fields_of, aug_string. rewrite Ea, E1, E2, E3, E4. reflexivity.
Qed.

(* ------------------------------------------------------------------ *)
(* 13. the FDE header reads back                                        *)
(* ------------------------------------------------------------------ *)

Definition fde_fields_of (c : cie) (f : fde) (coff : N) : fde_fields :=
  mkFdeFields coff
    (match f_addr f with AConst a => a mod 2 ^ (8 * c_asize c) | ASym _ _ => 0 end)
    (f_len f)
    (match f_lsda f, c_lsda_enc c with
     | Some (AConst a), Some _ => Some (a mod 2 ^ (8 * c_asize c))
     | _, _ => None
     end).

Lemma write_udata_lt be v size bs :
  v < 18446744073709551616 -> write_udata be v size = Ok bs -> v < 2 ^ (8 * size).
Proof.
  intros Hv H. unfold write_udata in H.
  destruct (size =? 1) eqn:E1; [assert (size = 1) by lia; subst; destruct (v <? 256) eqn:E; [|discriminate]; change (2 ^ (8 * 1)) with 256; lia|].
  destruct (size =? 2) eqn:E2; [assert (size = 2) by lia; subst; destruct (v <? two16) eqn:E; [|discriminate]; unfold two16 in E; change (2 ^ (8 * 2)) with 65536; lia|].
  destruct (size =? 4) eqn:E4; [assert (size = 4) by lia; subst; destruct (v <? two32) eqn:E; [|discriminate]; unfold two32 in E; change (2 ^ (8 * 4)) with 4294967296; lia|].
  destruct (size =? 8) eqn:E8; [|discriminate]. assert (size = 8) by lia; subst. change (2 ^ (8 * 8)) with 18446744073709551616. exact Hv.
Qed.

Lemma fde_wf_parts2 f : fde_wf f = true ->
  addr_wf (f_addr f) = true /\ is_u32 (f_len f) = true /\
  match f_lsda f with Some a => addr_wf a = true | None => True end.
Proof.
  intros H. unfold fde_wf in H. split_wf H. split; [exact H|]. split; [assumption|].
  destruct (f_lsda f); [assumption|exact I].
Qed.

Lemma fde_header_reads dbg be eh pos coff (c : cie) (f : fde) bs :
  cie_wf c = true -> fde_wf f = true ->
  pos + len bs < 18446744073709551616 -> coff <= pos ->
  fde_write dbg be eh pos coff c f = Ok bs ->
  exists il body insns pad,
    bs = il ++ body /\ len il = ilen_size (c_fmt64 c) /\
    write_initial_length (c_fmt64 c) be (len body) = Ok il /\
    write_fde_insns dbg be (c_caf c) (c_daf c) 0 (f_insns f) = Ok insns /\ all_nop pad = true /\ len pad < c_asize c /\
    parse_fde_body be eh (c_fmt64 c) (c_asize c) (cf_fde_enc (cie_fields_of c)) (c_lsda_enc c) (has_augmentation c)
                   (pos + ilen_size (c_fmt64 c)) body
      = Some (fde_fields_of c f coff, insns ++ pad).
Proof.
  intros Hwf Hfwf Hfit Hcoff H.
  pose proof (fde_write_ok_asz _ _ _ _ _ _ _ _ H) as Hasz.
  destruct (asz_cases_pow2 _ Hasz) as [Hu8 Hp2].
  pose proof Hwf as Hwf0. unfold cie_wf in Hwf. split_wf Hwf.
  rename W into Hinsns, W0 into Hfe, W1 into Hle, W2 into Hpe, W3 into Hra, W4 into Hdaf, W5 into Hcaf, W6 into Hasz8.
  destruct (fde_wf_parts2 f Hfwf) as (Hfa & Hfl & Hflsda).
  apply is_u32_iff in Hfl. apply is_u8_iff in Hfe.
  unfold fde_write in H. cbv zeta in H.
  set (base := pos + ilen_size (c_fmt64 c)) in *.
  apply bind_ok_inv in H. destruct H as (ptr & Hptr & H).
  apply bind_ok_inv in H. destruct H as (addrs & Haddrs & H).
  destruct (Bool.eqb (is_some (f_lsda f)) (is_some (c_lsda_enc c))) eqn:Hls; cbn [negb] in H; [|discriminate].
  apply bool_eqb_iff in Hls.
  apply bind_ok_inv in H. destruct H as (augdata & Haug & H).
  apply bind_ok_inv in H. destruct H as (insns & Hins & H).
  apply (close_entry_spec dbg be _ _ _ _ Hu8 Hp2) in H.
  destruct H as (il & pad & Hbs & Hil & Hlen & Hnop & Hpad & Hmod).
  exists il, ((ptr ++ addrs ++ augdata ++ insns) ++ pad), insns, pad.
  split; [exact Hbs|]. split; [exact Hlen|]. split; [exact Hil|]. split; [exact Hins|]. split; [exact Hnop|]. split; [exact Hpad|].
  assert (Hbound : base + len ptr + len addrs + len augdata < 18446744073709551616).
  { rewrite Hbs in Hfit. rewrite !len_app in Hfit. rewrite Hlen in Hfit. subst base. lia. }
  rewrite <- !app_assoc.
  set (BODY := ptr ++ addrs ++ augdata ++ insns ++ pad).
  unfold parse_fde_body.
  (* the CIE pointer *)
  assert (Sptr : fixed (if eh then 4 else if c_fmt64 c then 8 else 4) be (ptr ++ addrs ++ augdata ++ insns ++ pad)
                 = Some ((if eh then base - coff else coff), addrs ++ augdata ++ insns ++ pad)).
  { destruct eh.
    - apply bind_ok_inv in Hptr. destruct Hptr as (d & Hd & Hptr).
      rewrite chk_sub_le in Hd by (subst base; lia). injection Hd as <-.
      destruct (write_udata_fixed be (base - coff) 4 ptr (addrs ++ augdata ++ insns ++ pad)) as [_ Hf];
        [lia|exact Hptr|]. exact Hf.
    - destruct (write_udata_fixed be coff (word_size (c_fmt64 c)) ptr (addrs ++ augdata ++ insns ++ pad)) as [_ Hf];
        [lia|exact Hptr|]. destruct (c_fmt64 c); exact Hf. }
  unfold BODY at 1. rewrite Sptr. cbn [omap].
  assert (Hcie : (if eh then base - (if eh then base - coff else coff) else (if eh then base - coff else coff)) = coff).
  { destruct eh; [subst base; lia|reflexivity]. }
  rewrite Hcie.
  assert (Hc0 : consumed BODY (addrs ++ augdata ++ insns ++ pad) = len ptr) by (unfold BODY; apply consumed_app).
  rewrite Hc0.
  (* address and range *)
  assert (Saddr :
    match cf_fde_enc (cie_fields_of c) with
    | Some e =>
        omap (pe_pointer be (c_asize c) e (base + len ptr) (addrs ++ augdata ++ insns ++ pad)) (fun a r =>
        omap (pe_value be (c_asize c) (N.land e 15) r) (fun l r' =>
          Some ((a, Z.to_N (l mod 18446744073709551616)), r')))
    | None =>
        omap (fixed (N.to_nat (c_asize c)) be (addrs ++ augdata ++ insns ++ pad)) (fun a r =>
        omap (fixed (N.to_nat (c_asize c)) be r) (fun l r' => Some ((a, l), r')))
    end = Some ((match f_addr f with AConst a => a mod 2 ^ (8 * c_asize c) | ASym _ _ => 0 end, f_len f),
                augdata ++ insns ++ pad)).
  { cbn [cie_fields_of cf_fde_enc].
    destruct (c_fde_enc c =? 0) eqn:Ef; cbn [negb] in Haddrs.
    - apply bind_ok_inv in Haddrs. destruct Haddrs as (ab & Hab & Haddrs).
      apply bind_ok_inv in Haddrs. destruct Haddrs as (lb & Hlb & Haddrs). injection Haddrs as <-.
      destruct (f_addr f) as [a|sy ad]; [|discriminate]. cbn [write_address addr_wf] in *.
      rewrite <- !app_assoc.
      destruct (write_udata_fixed be a (c_asize c) ab (lb ++ augdata ++ insns ++ pad)) as [_ Hf]; [lia|exact Hab|].
      rewrite Hf. cbn [omap].
      destruct (write_udata_fixed be (f_len f) (c_asize c) lb (augdata ++ insns ++ pad)) as [_ Hf2]; [lia|exact Hlb|].
      rewrite Hf2. cbn [omap].
      rewrite N.mod_small by (eapply write_udata_lt; [|exact Hab]; lia). reflexivity.
    - apply bind_ok_inv in Haddrs. destruct Haddrs as (ab & Hab & Haddrs).
      apply bind_ok_inv in Haddrs. destruct Haddrs as (lb & Hlb & Haddrs). injection Haddrs as <-.
      destruct (f_addr f) as [a|sy ad]; [|discriminate]. cbn [addr_wf] in Hfa.
      rewrite <- !app_assoc.
      rewrite (write_eh_pointer_reads be (base + len ptr) a (c_fde_enc c) (c_asize c) ab _); [|lia|lia|exact Hasz|exact Hab].
      cbn [omap]. fold (pe_format (c_fde_enc c)).
      destruct (write_eh_pointer_data_reads be (f_len f) (pe_format (c_fde_enc c)) (c_asize c) lb (augdata ++ insns ++ pad))
        as (v & Hv & Hvm & _); [lia|exact Hlb|].
      rewrite Hv. cbn [omap]. rewrite Hvm, N2Z.id. reflexivity. }
  rewrite Saddr. cbn [omap fst snd].
  (* augmentation data *)
  case_eq (has_augmentation c); intros Ea; rewrite Ea in Haug.
  - apply bind_ok_inv in Haug. destruct Haug as (d & Hd & Haug).
    apply with_aug_len_inv in Haug. destruct Haug as [Hdl ->].
    assert (Hd10 : (length d <= 10)%nat).
    { destruct (f_lsda f); [destruct (c_lsda_enc c)|].
      - eapply write_eh_pointer_len; exact Hd.
      - injection Hd as <-. cbn; lia.
      - injection Hd as <-. cbn; lia. }
    cbn [app]. rewrite uleb_small_byte by (unfold len; lia). cbn [omap].
    destruct (N.of_nat (length (d ++ insns ++ pad)) <? len d) eqn:El;
      [rewrite app_length in El; unfold len in El; lia|].
    change (N.to_nat (len d)) with (N.to_nat (N.of_nat (length d))).
    rewrite Nat2N.id, firstn_app_exact, skipn_app_exact.
    assert (Hc2 : consumed BODY (d ++ insns ++ pad) = len ptr + len addrs + 1).
    { unfold BODY.
      replace (ptr ++ addrs ++ (n2b (len d) :: d) ++ insns ++ pad)
        with ((ptr ++ addrs ++ [n2b (len d)]) ++ d ++ insns ++ pad) by (repeat rewrite <- app_assoc; reflexivity).
      rewrite consumed_app, !len_app. change (len [n2b (len d)]) with 1. lia. }
    rewrite Hc2.
    unfold fde_fields_of.
    destruct (f_lsda f) as [la|] eqn:Efl; destruct (c_lsda_enc c) as [le|] eqn:Ecl; cbn [is_some] in Hls; try discriminate.
    + destruct la as [a|sy ad]; [|discriminate]. cbn [addr_wf] in Hflsda.
      rewrite len_cons in Hbound.
      rewrite <- (app_nil_r d) at 1.
      rewrite (write_eh_pointer_reads be _ a le (c_asize c) d []); [reflexivity|lia|lia|exact Hasz|].
      rewrite <- Hd. f_equal. subst base. lia.
    + reflexivity.
  - destruct (no_aug_fields c Ea) as (E1 & E2 & E3 & E4).
    injection Haug as <-. cbn [app]. unfold fde_fields_of. rewrite E1.
    destruct (f_lsda f) as [[?|? ?]|]; reflexivity.
Qed.

(* ------------------------------------------------------------------ *)
(* 14. the whole table reads back                                       *)
(* ------------------------------------------------------------------ *)

Section ReadsBack.
  Variables (be eh : bool) (cies : list cie) (fdes : list (nat * fde)).
  (* what a reader finds, tile by tile, in a section laid out from offset pos: placed = the CIE tiles met so
     far with their offsets *)
  Fixpoint reads_back (pos : N) (placed : list (nat * N)) (chunks : list (item * list byte)) : Prop :=
    match chunks with
    | [] => True
    | (ICie idx, b) :: r =>
        (exists c il body area ds n,
           nth_error cies idx = Some c /\ b = il ++ body /\ len il = ilen_size (c_fmt64 c) /\
           write_initial_length (c_fmt64 c) be (len body) = Ok il /\
           parse_cie_body be eh (c_fmt64 c) (c_asize c) (pos + ilen_size (c_fmt64 c)) body
             = Some (cie_fields_of c, area) /\
           decode_all be area = Some (ds ++ repeat DNop n) /\ N.of_nat n < c_asize c /\
           map (sem (c_caf c) (c_daf c)) ds = map MInsn (c_insns c))
        /\ reads_back (pos + len b) ((idx, pos) :: placed) r
    | (IFde k, b) :: r =>
        (exists idx f c coff il body area ds n,
           nth_error fdes k = Some (idx, f) /\ nth_error cies idx = Some c /\ lookup idx placed = Some coff /\
           b = il ++ body /\ len il = ilen_size (c_fmt64 c) /\
           write_initial_length (c_fmt64 c) be (len body) = Ok il /\
           parse_fde_body be eh (c_fmt64 c) (c_asize c) (cf_fde_enc (cie_fields_of c)) (c_lsda_enc c)
                          (has_augmentation c) (pos + ilen_size (c_fmt64 c)) body
             = Some (fde_fields_of c f coff, area) /\
           decode_all be area = Some (ds ++ repeat DNop n) /\ N.of_nat n < c_asize c /\
           locate 0 (map (sem (c_caf c) (c_daf c)) (ds ++ repeat DNop n)) = f_insns f)
        /\ reads_back (pos + len b) placed r
    end.
End ReadsBack.



Lemma reads_back_of_tiled dbg be eh cies fdes :
  Forall (fun c => cie_wf c = true) cies ->
  Forall (fun p => fde_wf (snd p) = true) fdes ->
  forall chunks pos placed,
    pos + len (concat (map snd chunks)) < 18446744073709551616 ->
    Forall (fun p => snd p <= pos) placed ->
    well_tiled dbg be eh cies fdes pos placed chunks ->
    reads_back be eh cies fdes pos placed chunks.
Proof.
  intros Hc Hf. induction chunks as [|[it b] r IH]; intros pos placed Hfit Hpl H; [exact I|].
  cbn [map snd concat] in Hfit. rewrite len_app in Hfit.
  destruct it as [idx|k]; cbn [well_tiled] in H; destruct H as [H Hr]; cbn [reads_back]; split.
  - destruct H as (c & Hn & Hw).
    assert (Hcw : cie_wf c = true).
    { rewrite Forall_forall in Hc. apply Hc. eapply nth_error_In. exact Hn. }
    destruct (cie_wf_parts c Hcw) as (_ & _ & Hdaf & Hins).
    destruct (cie_header_reads dbg be eh pos c b Hcw ltac:(lia) Hw)
      as (il & body & insns & pad & -> & Hlen & Hil & Hwi & Hnop & Hpad & Hparse).
    destruct (write_insns_decodes_ext dbg be (c_caf c) (c_daf c) (c_insns c) insns Hins Hdaf Hwi) as (ds & Hds & Hm).
    exists c, il, body, (insns ++ pad), ds, (length pad).
    repeat split; try assumption.
    apply Hds. apply all_nop_decodes. exact Hnop.
  - apply IH; [lia| |exact Hr].
    constructor; [cbn [snd]; lia|]. eapply Forall_impl; [|exact Hpl]. cbn beta. intros p Hp. lia.
  - destruct H as (idx & f & c & coff & Hk & Hn & Hlk & Hw).
    assert (Hcw : cie_wf c = true).
    { rewrite Forall_forall in Hc. apply Hc. eapply nth_error_In. exact Hn. }
    assert (Hfw : fde_wf f = true).
    { rewrite Forall_forall in Hf. apply (Hf (idx, f)). eapply nth_error_In. exact Hk. }
    destruct (cie_wf_parts c Hcw) as (_ & Hcaf & Hdaf & _).
    pose proof (fde_wf_parts f Hfw) as Hins.
    assert (Hcoff : coff <= pos).
    { clear - Hlk Hpl. induction placed as [|[i o] pl IHp]; [discriminate|].
      cbn [lookup] in Hlk. inversion Hpl as [|x l Hx Hl]; subst. destruct (Nat.eqb idx i).
      - injection Hlk as <-. exact Hx.
      - apply IHp; assumption. }
    destruct (fde_header_reads dbg be eh pos coff c f b Hcw Hfw ltac:(lia) Hcoff Hw)
      as (il & body & insns & pad & -> & Hlen & Hil & Hwi & Hnop & Hpad & Hparse).
    destruct (write_fde_insns_decodes_ext dbg be (c_caf c) (c_daf c) (f_insns f) 0 insns Hins Hcaf Hdaf eq_refl Hwi)
      as (ds & Hds & Hm).
    exists idx, f, c, coff, il, body, (insns ++ pad), ds, (length pad).
    repeat split; try assumption.
    + apply Hds. apply all_nop_decodes. exact Hnop.
    + rewrite map_app, locate_nops. exact Hm.
  - apply IH; [lia| |exact Hr].
    eapply Forall_impl; [|exact Hpl]. cbn beta. intros p Hp. lia.
Qed.

Lemma table_roundtrip_pack : forall (dbg be eh : bool) (pos : N) (t : ftable) bs,
  Forall (fun c => cie_wf c = true) (t_cies t) ->
  Forall (fun p => fde_wf (snd p) = true) (t_fdes t) ->
  pos + len bs < 18446744073709551616 ->
  write_table dbg be eh pos t = Ok bs ->
  exists chunks,
    map fst chunks = plan [] 0 (map fst (t_fdes t)) /\
    bs = concat (map snd chunks) /\
    reads_back be eh (t_cies t) (t_fdes t) pos [] chunks.
Proof.
  intros dbg be eh pos t bs Hc Hf Hfit H.
  destruct (write_table_tiled dbg be eh pos t bs H) as (chunks & Hp & Hb & Ht).
  exists chunks. split; [exact Hp|]. split; [exact Hb|].
  apply (reads_back_of_tiled dbg be eh (t_cies t) (t_fdes t) Hc Hf chunks pos []); [|constructor|exact Ht].
  rewrite <- Hb. exact Hfit.
Qed.


(* ------------------------------------------------------------------ *)
(* 15. an FDE whose LSDA does not match its CIE is an error             *)
(* ------------------------------------------------------------------ *)

Lemma lsda_mismatch_never_ok dbg be eh pos coff (c : cie) (f : fde) bs :
  fde_write dbg be eh pos coff c f = Ok bs -> lsda_ok c f = true.
Proof.
  intros H. unfold fde_write in H.
  apply bind_ok_inv in H. destruct H as (ptr & _ & H).
  apply bind_ok_inv in H. destruct H as (addrs & _ & H).
  unfold lsda_ok.
  destruct (Bool.eqb (is_some (f_lsda f)) (is_some (c_lsda_enc c))); [reflexivity|discriminate].
Qed.

Lemma lsda_mismatch_is_error_pack : forall (dbg be eh : bool) (pos coff : N) (c : cie) (f : fde),
  cie_wf c = true -> fde_wf f = true -> coff <= pos ->
  lsda_ok c f = false ->
  (forall bs, fde_write dbg be eh pos coff c f <> Ok bs) /\
  fde_write dbg be eh pos coff c f <> Panic /\
  (forall ptr addrs,
     (if eh then let* d := chk_sub 64 dbg (pos + ilen_size (c_fmt64 c)) coff in write_udata be d 4
      else write_udata be coff (word_size (c_fmt64 c))) = Ok ptr ->
     (if negb (c_fde_enc c =? 0)
      then let* a := write_eh_pointer be (pos + ilen_size (c_fmt64 c) + len ptr) (f_addr f) (c_fde_enc c) (c_asize c) in
           let* l := write_eh_pointer_data be (f_len f) (pe_format (c_fde_enc c)) (c_asize c) in Ok (a ++ l)
      else let* a := write_address be (f_addr f) (c_asize c) in
           let* l := write_udata be (f_len f) (c_asize c) in Ok (a ++ l)) = Ok addrs ->
     fde_write dbg be eh pos coff c f = Err WInvalidAddress).
Proof.
  intros dbg be eh pos coff c f Hwf Hf Hcoff Hls. split; [|split].
  - intros bs E. apply lsda_mismatch_never_ok in E. congruence.
  - apply fde_write_np; assumption.
  - intros ptr addrs Hptr Haddrs. unfold fde_write. cbv zeta. rewrite Hptr. cbn [bind]. rewrite Haddrs. cbn [bind].
    unfold lsda_ok in Hls. rewrite Hls. reflexivity.
Qed.

(* ------------------------------------------------------------------ *)
(* 16. address sizes other than 1/2/4/8 are an error                    *)
(* ------------------------------------------------------------------ *)

Lemma close_entry_unsupported dbg be fmt64 asize body :
  ~ asz_ok asize -> close_entry dbg be fmt64 asize body = Err WUnsupportedWordSize.
Proof. intros H. unfold close_entry. rewrite write_nop_unsupported by exact H. reflexivity. Qed.

Lemma unsupported_address_size_pack : forall (dbg be eh : bool) (pos coff : N) (c : cie) (f : fde),
  ~ asz_ok (c_asize c) ->
  (forall body, close_entry dbg be (c_fmt64 c) (c_asize c) body = Err WUnsupportedWordSize) /\
  (forall bs, cie_write dbg be eh pos c <> Ok bs) /\
  (forall bs, fde_write dbg be eh pos coff c f <> Ok bs) /\
  (cie_wf c = true -> cie_write dbg be eh pos c <> Panic) /\
  (cie_wf c = true -> fde_wf f = true -> coff <= pos -> fde_write dbg be eh pos coff c f <> Panic).
Proof.
  intros dbg be eh pos coff c f Hn. split; [|split; [|split; [|split]]].
  - intros body. apply close_entry_unsupported. exact Hn.
  - intros bs H. apply cie_write_ok_asz in H. contradiction.
  - intros bs H. apply fde_write_ok_asz in H. contradiction.
  - apply cie_write_np.
  - intros. apply fde_write_np; assumption.
Qed.
