(* Proofs/CfiRdEnt.v — decoding of entries produced by the spec encoder (C05 clause: entries round trip). *)
From Coq Require Import List NArith ZArith Bool Lia ZifyBool ZifyN ZifyNat.
From Coq.Strings Require Import Byte.
Require Import GV.Base.Res GV.Base.Byt GV.Base.Ints GV.Model.Leb GV.Model.Prim GV.Spec.LebSpec.
Require Import GV.Spec.CfiSpec GV.Model.CfiRd GV.Proofs.CfiRdBase GV.Proofs.CfiRdPtr GV.Proofs.CfiRdIter GV.Proofs.CfiRdSafe.
Import ListNotations.
Local Open Scope N_scope.

Local Ltac Zify.zify_post_hook ::= Z.div_mod_to_equations.
Local Arguments N.add : simpl never.
Local Arguments N.sub : simpl never.
Local Arguments N.mul : simpl never.
Local Arguments N.shiftl : simpl never.
Local Arguments N.shiftr : simpl never.
Local Arguments N.land : simpl never.
Local Arguments N.lor : simpl never.
Local Arguments N.pow : simpl never.
Local Arguments N.div : simpl never.
Local Arguments N.modulo : simpl never.

(* ------------------------------------------------------------------ initial length / prefix *)
Lemma read_initial_length_enc : forall be (fmt64 : bool) len rest,
  len < (if fmt64 then 2 ^ 64 else 4294967280) ->
  read_initial_length be (initial_length be fmt64 len ++ rest) = Ok ((len, fmt64), rest).
Proof.
  intros be fmt64 len rest Hlen. unfold read_initial_length, initial_length. destruct fmt64.
  - rewrite <- app_assoc. rewrite (read_un_small 4) by (vm_compute; reflexivity). cbn [bind].
    change (4294967295 <? 4294967280) with false. change (4294967295 =? 4294967295) with true. cbv iota.
    rewrite (read_un_small 8) by (change (256 ^ N.of_nat 8) with (2 ^ 64); exact Hlen). reflexivity.
  - rewrite (read_un_small 4) by (change (256 ^ N.of_nat 4) with 4294967296; lia). cbn [bind].
    destruct (len <? 4294967280) eqn:E; [reflexivity|lia].
Qed.

Lemma nlen_initial_length : forall be fmt64 len, nlen (initial_length be fmt64 len) = len_field_size fmt64.
Proof.
  intros. unfold initial_length, len_field_size. destruct fmt64.
  - rewrite nlen_app. unfold nlen. rewrite !un_bytes_length. reflexivity.
  - unfold nlen. rewrite un_bytes_length. reflexivity.
Qed.

Lemma nlen_un_bytes : forall n be v, nlen (un_bytes n be v) = N.of_nat n.
Proof. intros. unfold nlen. rewrite un_bytes_length. reflexivity. Qed.

Definition sp_of (c : scfg) : sparams := mksp (sc_eh c) (sc_be c) (sc_asz c).

(* the id word: its bytes, and what the reader returns for it *)
Lemma parse_prefix_enc : forall c (fmt64 : bool) idv tail rest o,
  let idsz := (if cie_id_is_u64 (sc_eh c) fmt64 then 8 else 4)%nat in
  let body := un_bytes idsz (sc_be c) idv ++ tail in
  idv < 256 ^ N.of_nat idsz ->
  blen body < (if fmt64 then 2 ^ 64 else 4294967280) ->
  parse_prefix c (mkrd o (initial_length (sc_be c) fmt64 (blen body) ++ body ++ rest)) =
  Ok (Some (mkprefix o (blen body) fmt64 (o + len_field_size fmt64) idv
              (mkrd (o + len_field_size fmt64 + N.of_nat idsz) tail)),
      mkrd (o + len_field_size fmt64 + blen body) rest).
Proof.
  intros c fmt64 idv tail rest o idsz body Hid Hlen. unfold parse_prefix.
  erewrite lift_app by (apply read_initial_length_enc; exact Hlen).
  cbn [bind off]. rewrite nlen_initial_length.
  assert (Hnz : (blen body =? 0) = false).
  { apply N.eqb_neq. unfold body, blen. rewrite app_length, un_bytes_length. unfold idsz.
    destruct (cie_id_is_u64 (sc_eh c) fmt64); lia. }
  rewrite Hnz. change (blen body) with (nlen body). rewrite rd_split_app. cbn [bind off].
  unfold body, idsz. destruct (cie_id_is_u64 (sc_eh c) fmt64) eqn:E64.
  - rewrite (lift_app _ _ _ _ _ idv) by (apply read_un_small; exact Hid). cbn [bind].
    rewrite nlen_un_bytes. reflexivity.
  - rewrite (lift_app _ _ _ _ _ idv) by (apply read_un_small; exact Hid). cbn [bind].
    rewrite nlen_un_bytes. reflexivity.
Qed.

(* ------------------------------------------------------------------ small readers on encoded pieces *)
Lemma parse_pointer_encoding_enc : forall o e rest, e < 256 -> valid_spec e = true ->
  parse_pointer_encoding (mkrd o (n2b e :: rest)) = Ok (e, mkrd (o + 1) rest).
Proof.
  intros o e rest He Hv. unfold parse_pointer_encoding. rewrite rd_u8_cons. cbn [bind].
  rewrite b2n_n2b_small by exact He. rewrite pe_valid_all_lem_base by exact He. rewrite Hv. reflexivity.
Qed.

Lemma read_cstr_app : forall s rest, Forall (fun b => b2n b <> 0) s ->
  read_cstr (s ++ n2b 0 :: rest) = Ok (s, rest).
Proof.
  induction s as [|b s IH]; intros rest H.
  - cbn [app read_cstr]. rewrite b2n_n2b_small by lia. reflexivity.
  - inversion H as [|x l Hb Hs]; subst. cbn [app read_cstr].
    destruct (b2n b =? 0) eqn:E; [lia|]. rewrite IH by exact Hs. reflexivity.
Qed.

(* ------------------------------------------------------------------ augmentation *)
Definition set_lsda (a : augm) (e : N) := mkaug (Some e) (a_pers a) (a_fde_enc a) (a_sig a).
Definition set_pers (a : augm) (p : N * pointer) := mkaug (a_lsda a) (Some p) (a_fde_enc a) (a_sig a).
Definition set_fde_enc (a : augm) (e : N) := mkaug (a_lsda a) (a_pers a) (Some e) (a_sig a).
Definition set_sig (a : augm) := mkaug (a_lsda a) (a_pers a) (a_fde_enc a) true.

(* what the items mean (and that they are well formed): None = not a well-formed item list *)
Fixpoint aug_fold (asz : N) (be : bool) (b : sbases) (items : list aug_item) (pos : N) (a : augm) : option augm :=
  match items with
  | [] => Some a
  | AL e :: r => if (e <? 256) && valid_spec e then aug_fold asz be b r (pos + 1) (set_lsda a e) else None
  | AP e raw :: r =>
      if (e <? 256) && valid_spec e && negb (e =? 255) && value_fits (fmt_of e) asz raw then
        match ptr_spec e asz (mkpb (sb_section b) (sb_text b) (sb_data b) None) (pos + 1) raw with
        | Some (ind, addr) =>
            aug_fold asz be b r (pos + 1 + nlen (enc_value (fmt_of e) asz be raw)) (set_pers a (e, mkptr ind addr))
        | None => None
        end
      else None
  | AR e :: r => if (e <? 256) && valid_spec e then aug_fold asz be b r (pos + 1) (set_fde_enc a e) else None
  | AS :: r => aug_fold asz be b r pos (set_sig a)
  end.

Definition item_chars (items : list aug_item) : list byte := map (fun i => n2b (item_char i)) items.
Definition items_data (asz : N) (be : bool) (items : list aug_item) : list byte :=
  concat (map (item_data asz be) items).

Lemma aug_loop_items : forall dbg c asz items pos a a' input,
  asz_ok asz -> aug_fold asz (sc_be c) (sc_bases c) items pos a = Some a' ->
  exists d', aug_loop dbg c asz (item_chars items) true a
               (Some (mkrd pos (items_data asz (sc_be c) items))) input
             = aug_loop dbg c asz [] true a' d' input.
Proof.
  intros dbg c asz items. induction items as [|it r IH]; intros pos a a' input Hasz Hf.
  - injection Hf as <-. eexists. reflexivity.
  - unfold item_chars, items_data in *. destruct it as [e|e raw|e|]; cbn [map concat item_data item_char aug_fold] in *.
    + destruct ((e <? 256) && valid_spec e) eqn:Hc; [|discriminate].
      apply andb_true_iff in Hc as [He Hv]. apply N.ltb_lt in He.
      cbn [aug_loop app]. rewrite b2n_n2b_small by lia.
      change (76 =? 122) with false. change (76 =? 76) with true. cbv iota.
      rewrite parse_pointer_encoding_enc by assumption. cbn [bind].
      apply IH; assumption.
    + destruct ((e <? 256) && valid_spec e && negb (e =? 255) && value_fits (fmt_of e) asz raw) eqn:Hc; [|discriminate].
      repeat rewrite andb_true_iff in Hc. destruct Hc as [[[He Hv] H255] Hfit]. apply N.ltb_lt in He.
      destruct (ptr_spec e asz _ (pos + 1) raw) as [[ind addr]|] eqn:Hp; [|discriminate].
      cbn [aug_loop app]. rewrite b2n_n2b_small by lia.
      change (80 =? 122) with false. change (80 =? 76) with false. change (80 =? 80) with true. cbv iota.
      rewrite parse_pointer_encoding_enc by assumption. cbn [bind].
      rewrite (pep_enc dbg (sc_be c) e (mkpp (sc_bases c) None asz) (pos + 1) raw _ ind addr);
        try assumption; try (cbn [pp_asz]; assumption).
      * cbn [bind pp_asz]. apply IH; assumption.
      * destruct (e =? 255) eqn:E; [discriminate|]. apply N.eqb_neq. exact E.
    + destruct ((e <? 256) && valid_spec e) eqn:Hc; [|discriminate].
      apply andb_true_iff in Hc as [He Hv]. apply N.ltb_lt in He.
      cbn [aug_loop app]. rewrite b2n_n2b_small by lia.
      change (82 =? 122) with false. change (82 =? 76) with false. change (82 =? 80) with false.
      change (82 =? 82) with true. cbv iota.
      rewrite parse_pointer_encoding_enc by assumption. cbn [bind].
      apply IH; assumption.
    + cbn [aug_loop app]. rewrite b2n_n2b_small by lia.
      change (83 =? 122) with false. change (83 =? 76) with false. change (83 =? 80) with false.
      change (83 =? 82) with false. change (83 =? 83) with true. cbv iota.
      apply IH; assumption.
Qed.

Lemma aug_loop_items_ok : forall dbg c asz items pos a a' input,
  asz_ok asz -> aug_fold asz (sc_be c) (sc_bases c) items pos a = Some a' ->
  aug_loop dbg c asz (item_chars items) true a (Some (mkrd pos (items_data asz (sc_be c) items))) input
  = Ok (a', input).
Proof.
  intros. destruct (aug_loop_items dbg c asz items pos a a' input H H0) as (d' & Hd). rewrite Hd. reflexivity.
Qed.

(* without 'z' only 'S' may appear *)
Lemma aug_loop_S_only : forall dbg c asz items first a input,
  Forall (fun i => i = AS) items ->
  aug_loop dbg c asz (item_chars items) first a None input =
  Ok ((match items with [] => a | _ => set_sig a end), input).
Proof.
  intros dbg c asz items. induction items as [|it r IH]; intros first a input H; [reflexivity|].
  inversion H as [|x l Hx Hr]; subst. unfold item_chars in *. cbn [map item_char aug_loop].
  rewrite b2n_n2b_small by lia.
  change (83 =? 122) with false. change (83 =? 76) with false. change (83 =? 80) with false.
  change (83 =? 82) with false. change (83 =? 83) with true. cbv iota.
  rewrite IH by exact Hr. destruct r; reflexivity.
Qed.

Ltac nlen_norm := change blen with nlen; repeat (rewrite nlen_app || rewrite nlen_cons); change (nlen []) with 0.

(* ------------------------------------------------------------------ CIE *)
Definition aug_string (cr : cie_rec) : list byte :=
  (if c_z cr then [n2b 122] else []) ++ item_chars (c_items cr).

Definition cie_pre (sp : sparams) (cr : cie_rec) : list byte :=
  [n2b (c_ver cr)] ++ (aug_string cr ++ [n2b 0])
  ++ (if negb (s_eh sp) && (c_ver cr =? 4) then [n2b (c_asz cr); n2b 0] else [])
  ++ enc_uleb (c_caf cr) ++ enc_sleb (c_daf cr)
  ++ (if c_ver cr =? 1 then [n2b (c_rar cr)] else enc_uleb (c_rar cr)).

Definition cie_augpart (sp : sparams) (cr : cie_rec) : list byte :=
  let data := items_data (cie_asz sp cr) (s_be sp) (c_items cr) in
  if c_z cr then enc_uleb (blen data) ++ data else [].

Lemma cie_tail_split : forall sp cr, cie_tail sp cr = cie_pre sp cr ++ cie_augpart sp cr ++ c_instr cr.
Proof.
  intros. unfold cie_tail, cie_pre, cie_augpart, aug_string, item_chars, items_data. cbv zeta.
  repeat rewrite <- app_assoc. reflexivity.
Qed.

(* expected augmentation of a CIE whose augmentation data starts at dpos *)
Definition exp_aug (c : scfg) (cr : cie_rec) (dpos : N) : option (option augm) :=
  let asz := cie_asz (sp_of c) cr in
  if c_z cr then
    match aug_fold asz (sc_be c) (sc_bases c) (c_items cr) dpos aug_default with
    | Some a => Some (Some a) | None => None end
  else match c_items cr with
       | [] => Some None
       | _ => if forallb (fun i => match i with AS => true | _ => false end) (c_items cr)
              then Some (Some (set_sig aug_default)) else None
       end.

Record wf_cie (c : scfg) (cr : cie_rec) : Prop := {
  wc_ver : c_ver cr = 1 \/ c_ver cr = 3 \/ c_ver cr = 4;
  wc_asz0 : asz_ok (sc_asz c);
  wc_asz : asz_ok (cie_asz (sp_of c) cr);
  wc_caf : c_caf cr < 2 ^ 64;
  wc_daf : (- 2 ^ 63 <= c_daf cr < 2 ^ 63)%Z;
  wc_rar : c_rar cr < (if c_ver cr =? 1 then 256 else 65536);
  wc_data : blen (items_data (cie_asz (sp_of c) cr) (sc_be c) (c_items cr)) < 2 ^ 64 }.

Lemma item_chars_nonzero : forall items, Forall (fun b => b2n b <> 0) (item_chars items).
Proof.
  induction items as [|it r IH]; [constructor|]. unfold item_chars in *. cbn [map]. constructor; [|exact IH].
  destruct it; cbn [item_char]; rewrite b2n_n2b_small by lia; lia.
Qed.

Lemma aug_string_nonzero : forall cr, Forall (fun b => b2n b <> 0) (aug_string cr).
Proof.
  intros. unfold aug_string. apply Forall_app. split; [|apply item_chars_nonzero].
  destruct (c_z cr); constructor; [|constructor]. rewrite b2n_n2b_small by lia. lia.
Qed.

(* the CIE the reader must produce for `cr` placed at offset o (tail at offset t) *)
Definition exp_cie (c : scfg) (cr : cie_rec) (o len t : N) (aug : option augm) : cie :=
  let sp := sp_of c in
  mkcie o len (c_fmt64 cr) (c_ver cr) aug (cie_asz sp cr) (c_caf cr) (c_daf cr) (c_rar cr)
        (mkrd (t + nlen (cie_pre sp cr) + nlen (cie_augpart sp cr)) (c_instr cr)).

Definition cie_dpos (c : scfg) (cr : cie_rec) (t : N) : N :=
  t + nlen (cie_pre (sp_of c) cr)
  + nlen (enc_uleb (blen (items_data (cie_asz (sp_of c) cr) (sc_be c) (c_items cr)))).

Lemma cie_from_prefix_enc : forall dbg c cr o len base id t aug,
  wf_cie c cr -> exp_aug c cr (cie_dpos c cr t) = Some aug ->
  cie_from_prefix dbg c (mkprefix o len (c_fmt64 cr) base id (mkrd t (cie_tail (sp_of c) cr)))
  = Ok (exp_cie c cr o len t aug).
Proof.
  intros dbg c cr o len base id t aug Hwf Haug. destruct Hwf as [Hver Hasz0 Hasz Hcaf Hdaf Hrar Hdata].
  unfold cie_from_prefix. cbn [px_rest px_off px_len px_fmt64].
  rewrite cie_tail_split. unfold exp_cie, cie_dpos in *. unfold cie_pre in *. cbn [s_eh s_be sp_of] in *.
  set (sp := sp_of c) in *.
  set (as0 := aug_string cr ++ [n2b 0]) in *.
  (* version *)
  cbn [app]. rewrite rd_u8_cons. cbn [bind].
  assert (Hv256 : c_ver cr < 256) by lia.
  rewrite b2n_n2b_small by exact Hv256.
  assert (Hvb : negb ((c_ver cr =? 1) || (c_ver cr =? 3) || (c_ver cr =? 4)) = false) by lia.
  rewrite Hvb.
  (* augmentation string *)
  rewrite <- !app_assoc. cbn [app].
  rewrite (lift_app _ _ _ as0 _ (aug_string cr)).
  2:{ unfold as0. rewrite <- app_assoc. cbn [app]. apply read_cstr_app, aug_string_nonzero. }
  cbn [bind].
  (* address / segment size *)
  unfold has_addr_seg_sizes.
  set (r2off := t + 1 + nlen as0).
  assert (Hszstep : forall rest,
    (if negb (sc_eh c) && (c_ver cr =? 4)
     then let* (a, q1) := lift read_address_size (mkrd r2off ((if negb (sc_eh c) && (c_ver cr =? 4) then [n2b (c_asz cr); n2b 0] else []) ++ rest)) in
          let* (seg, q2) := rd_u8 q1 in
          if negb (seg =? 0) then Err EUnsupportedSegmentSize else Ok (a, q2)
     else Ok (sc_asz c, mkrd r2off ((if negb (sc_eh c) && (c_ver cr =? 4) then [n2b (c_asz cr); n2b 0] else []) ++ rest)))
    = Ok (cie_asz sp cr, mkrd (r2off + nlen (if negb (sc_eh c) && (c_ver cr =? 4) then [n2b (c_asz cr); n2b 0] else [])) rest)).
  { intros rest. unfold cie_asz in *. cbn [s_eh sp sp_of s_asz] in *.
    destruct (negb (sc_eh c) && (c_ver cr =? 4)) eqn:E4.
    - cbn [app].
      assert (Ha256 : c_asz cr < 256) by (destruct Hasz as [H|[H|[H|H]]]; rewrite H; lia).
      change (n2b (c_asz cr) :: n2b 0 :: rest) with ([n2b (c_asz cr)] ++ n2b 0 :: rest).
      rewrite (lift_app _ _ _ _ _ (c_asz cr)).
      + cbn [bind]. rewrite rd_u8_cons. cbn [bind]. rewrite b2n_n2b_small by lia.
        change (negb (0 =? 0)) with false. cbv iota. do 2 f_equal. f_equal. unfold nlen. cbn [length]. lia.
      + cbn [app]. unfold read_address_size. cbn [read_u8 bind]. rewrite b2n_n2b_small by exact Ha256.
        destruct Hasz as [H|[H|[H|H]]]; rewrite H; reflexivity.
    - cbn [app]. do 2 f_equal. f_equal. change (nlen []) with 0. lia. }
  rewrite Hszstep. cbn [bind]. clear Hszstep.
  (* factors and return address register *)
  rewrite (lift_app _ _ _ _ _ (c_caf cr)) by (apply read_uleb_enc; exact Hcaf). cbn [bind].
  rewrite (lift_app _ _ _ _ _ (c_daf cr)) by (apply read_sleb_enc; exact Hdaf). cbn [bind].
  set (r5off := r2off + _ + nlen (enc_uleb (c_caf cr)) + nlen (enc_sleb (c_daf cr))).
  assert (Hrarstep : forall rest,
    (if c_ver cr =? 1 then rd_u8 (mkrd r5off ((if c_ver cr =? 1 then [n2b (c_rar cr)] else enc_uleb (c_rar cr)) ++ rest))
     else let* (x, q) := lift (read_uleb128 dbg) (mkrd r5off ((if c_ver cr =? 1 then [n2b (c_rar cr)] else enc_uleb (c_rar cr)) ++ rest)) in
          if x <? two16 then Ok (x, q) else Err EUnsupportedRegister)
    = Ok (c_rar cr, mkrd (r5off + nlen (if c_ver cr =? 1 then [n2b (c_rar cr)] else enc_uleb (c_rar cr))) rest)).
  { intros rest. destruct (c_ver cr =? 1).
    - cbn [app]. rewrite rd_u8_cons. rewrite b2n_n2b_small by exact Hrar. reflexivity.
    - rewrite (lift_app _ _ _ _ _ (c_rar cr)) by (apply read_uleb_enc; lia). cbn [bind].
      unfold two16. destruct (c_rar cr <? 65536) eqn:E; [reflexivity|lia]. }
  rewrite Hrarstep. cbn [bind]. clear Hrarstep.
  (* augmentation *)
  unfold exp_aug in Haug. unfold cie_augpart. cbv zeta. fold sp in Haug.
  assert (Hbe : s_be sp = sc_be c) by reflexivity. rewrite Hbe.
  unfold aug_string in *.
  destruct (c_z cr) eqn:Ez.
  - (* 'z' first *)
    cbn [app]. cbn [aug_loop]. rewrite b2n_n2b_small by lia.
    change (122 =? 122) with true. cbv iota.
    destruct (aug_fold (cie_asz sp cr) (sc_be c) (sc_bases c) (c_items cr) _ aug_default) as [a'|] eqn:Hfold; [|discriminate].
    injection Haug as <-.
    rewrite <- app_assoc.
    rewrite (lift_app _ _ _ _ _ (blen (items_data (cie_asz sp cr) (sc_be c) (c_items cr)))) by (apply read_uleb_enc; exact Hdata).
    cbn [bind]. change (blen (items_data (cie_asz sp cr) (sc_be c) (c_items cr))) with (nlen (items_data (cie_asz sp cr) (sc_be c) (c_items cr))).
    rewrite rd_split_app. cbn [bind].
    erewrite aug_loop_items_ok; [|exact Hasz|].
    + cbn [bind]. unfold r5off, r2off. f_equal. f_equal. f_equal.
      nlen_norm. lia.
    + rewrite <- Hfold. f_equal. unfold r5off, r2off.
      nlen_norm. lia.
  - cbn [app]. destruct (c_items cr) as [|i0 items] eqn:Eitems.
    + injection Haug as <-. cbn [item_chars map bind]. unfold r5off, r2off. f_equal. f_equal. f_equal.
      nlen_norm. lia.
    + destruct (forallb _ (i0 :: items)) eqn:Efa; [|discriminate]. injection Haug as <-.
      assert (HS : Forall (fun i => i = AS) (i0 :: items)).
      { rewrite forallb_forall in Efa. apply Forall_forall. intros x Hx. specialize (Efa x Hx). destruct x; try discriminate. reflexivity. }
      pose proof (aug_loop_S_only dbg c (cie_asz sp cr) (i0 :: items) false aug_default) as Hl.
      cbn [item_chars map] in Hl |- *.
      rewrite Hl by exact HS. cbn [bind]. unfold r5off, r2off. f_equal. f_equal. f_equal.
      nlen_norm. lia.
Qed.

(* ------------------------------------------------------------------ whole CIE entry *)
Definition cie_idv (c : scfg) (fmt64 : bool) : N :=
  if sc_eh c then 0 else if fmt64 then 18446744073709551615 else 4294967295.
Definition idsz_of (c : scfg) (fmt64 : bool) : nat := if cie_id_is_u64 (sc_eh c) fmt64 then 8%nat else 4%nat.

Lemma cie_id_bytes : forall c fmt64, cie_id (sp_of c) fmt64 = un_bytes (idsz_of c fmt64) (sc_be c) (cie_idv c fmt64).
Proof.
  intros. unfold cie_id, idsz_of, cie_idv, cie_id_is_u64. cbn [sp_of s_eh s_be].
  destruct (sc_eh c), fmt64; reflexivity.
Qed.

Lemma is_cie_idv : forall c fmt64, is_cie (sc_eh c) fmt64 (cie_idv c fmt64) = true.
Proof. intros. unfold is_cie, cie_idv. destruct (sc_eh c), fmt64; reflexivity. Qed.

Lemma cie_idv_lt : forall c fmt64, cie_idv c fmt64 < 256 ^ N.of_nat (idsz_of c fmt64).
Proof.
  intros. unfold cie_idv, idsz_of, cie_id_is_u64. destruct (sc_eh c), fmt64; cbn [negb andb]; vm_compute; reflexivity.
Qed.

Definition cie_body (c : scfg) (cr : cie_rec) : list byte := cie_id (sp_of c) (c_fmt64 cr) ++ cie_tail (sp_of c) cr.
Definition body_fits (fmt64 : bool) (body : list byte) : Prop := blen body < (if fmt64 then 2 ^ 64 else 4294967280).

(* offset of the tail (after length and id) of an entry placed at o *)
Definition tail_off (c : scfg) (fmt64 : bool) (o : N) : N := o + len_field_size fmt64 + N.of_nat (idsz_of c fmt64).

Lemma parse_cfi_entry_cie : forall dbg c cr o rest aug,
  wf_cie c cr -> body_fits (c_fmt64 cr) (cie_body c cr) ->
  exp_aug c cr (cie_dpos c cr (tail_off c (c_fmt64 cr) o)) = Some aug ->
  parse_cfi_entry dbg c (mkrd o (enc_cie (sp_of c) cr ++ rest)) =
  Ok (Some (ICie (exp_cie c cr o (blen (cie_body c cr)) (tail_off c (c_fmt64 cr) o) aug)),
      mkrd (o + blen (enc_cie (sp_of c) cr)) rest).
Proof.
  intros dbg c cr o rest aug Hwf Hfit Haug. unfold parse_cfi_entry, enc_cie. cbv zeta.
  fold (cie_body c cr). cbn [s_be sp_of]. unfold cie_body in *. rewrite cie_id_bytes in *.
  rewrite <- app_assoc.
  pose proof (parse_prefix_enc c (c_fmt64 cr) (cie_idv c (c_fmt64 cr)) (cie_tail (sp_of c) cr) rest o) as Hp.
  cbv zeta in Hp. unfold idsz_of in *. rewrite Hp; [|apply cie_idv_lt|exact Hfit]. clear Hp.
  cbn [bind px_fmt64 px_id]. rewrite is_cie_idv.
  rewrite (cie_from_prefix_enc dbg c cr _ _ _ _ _ aug Hwf Haug). cbn [bind].
  do 3 f_equal. nlen_norm. rewrite nlen_initial_length. lia.
Qed.

Lemma cie_from_offset_enc : forall dbg c cr pre post aug,
  wf_cie c cr -> body_fits (c_fmt64 cr) (cie_body c cr) ->
  exp_aug c cr (cie_dpos c cr (tail_off c (c_fmt64 cr) (nlen pre))) = Some aug ->
  cie_from_offset dbg c (pre ++ enc_cie (sp_of c) cr ++ post) (nlen pre) =
  Ok (exp_cie c cr (nlen pre) (blen (cie_body c cr)) (tail_off c (c_fmt64 cr) (nlen pre)) aug).
Proof.
  intros dbg c cr pre post aug Hwf Hfit Haug. unfold cie_from_offset.
  rewrite rd_skip_app. cbn [bind]. rewrite N.add_0_l.
  unfold enc_cie. cbv zeta. fold (cie_body c cr). cbn [s_be sp_of]. unfold cie_body in *. rewrite cie_id_bytes in *.
  rewrite <- app_assoc.
  pose proof (parse_prefix_enc c (c_fmt64 cr) (cie_idv c (c_fmt64 cr)) (cie_tail (sp_of c) cr) post (nlen pre)) as Hp.
  cbv zeta in Hp. unfold idsz_of in *. rewrite Hp; [|apply cie_idv_lt|exact Hfit]. clear Hp.
  cbn [bind px_fmt64 px_id]. rewrite is_cie_idv. cbn [negb].
  apply (cie_from_prefix_enc dbg c cr _ _ _ _ _ aug Hwf Haug).
Qed.

(* ------------------------------------------------------------------ FDE *)
Definition sb_pb (b : sbases) (func : option N) : pbases := mkpb (sb_section b) (sb_text b) (sb_data b) func.

Definition enc_ok (e : N) : bool := (e <? 256) && valid_spec e && negb (e =? 255).

(* the FDE the reader must produce (None: the record is not well formed for its CIE).
   ci = its parsed CIE, cr = the CIE record, tf = offset of the FDE's tail in the section *)
Definition exp_fde (c : scfg) (cr : cie_rec) (ci : cie) (f : fde_rec) (o len tf : N) : option fde :=
  let asz := cie_asz (sp_of c) cr in
  let be := sc_be c in
  let b := sc_bases c in
  let afmt := match find_R (c_items cr) with Some e => fmt_of e | None => 0 end in
  let e_init := enc_value afmt asz be (f_init f) in
  let e_range := enc_value afmt asz be (f_range f) in
  let ad := (match find_L (c_items cr) with Some e => enc_value (fmt_of e) asz be (f_lsda f) | None => [] end) ++ f_pad f in
  let pos2 := tf + nlen e_init + nlen e_range in
  let addr : option N :=
    match find_R (c_items cr) with
    | Some e =>
        if enc_ok e && value_fits (fmt_of e) asz (f_init f) && value_fits (fmt_of e) asz (f_range f) then
          match ptr_spec e asz (sb_pb b None) tf (f_init f) with Some (_, a) => Some a | None => None end
        else None
    | None => if (f_init f <? 2 ^ (8 * asz)) && (f_range f <? 2 ^ (8 * asz)) then Some (f_init f) else None
    end in
  match addr with
  | None => None
  | Some ia =>
      if has_aug cr then
        if blen ad <? 2 ^ 64 then
          let pos3 := pos2 + nlen (enc_uleb (blen ad)) in
          match find_L (c_items cr) with
          | Some le =>
              if enc_ok le && value_fits (fmt_of le) asz (f_lsda f) then
                match ptr_spec le asz (sb_pb b (Some ia)) pos3 (f_lsda f) with
                | Some (ind, la) =>
                    Some (mkfde o len (f_fmt64 f) ci ia (f_range f) (Some (Some (mkptr ind la)))
                                (mkrd (pos3 + blen ad) (f_instr f)))
                | None => None
                end
              else None
          | None => Some (mkfde o len (f_fmt64 f) ci ia (f_range f) (Some None) (mkrd (pos3 + blen ad) (f_instr f)))
          end
        else None
      else Some (mkfde o len (f_fmt64 f) ci ia (f_range f) None (mkrd pos2 (f_instr f)))
  end.

(* the parsed CIE agrees with the record about what FDEs need from it *)
Definition cie_links (c : scfg) (cr : cie_rec) (ci : cie) : Prop :=
  ci_asz ci = cie_asz (sp_of c) cr /\
  (match ci_aug ci with Some a => a_fde_enc a | None => None end) = find_R (c_items cr) /\
  (match ci_aug ci with Some a => a_lsda a | None => None end) = find_L (c_items cr) /\
  (match ci_aug ci with Some _ => true | None => false end) = has_aug cr.

Lemma enc_ok_split : forall e, enc_ok e = true -> e < 256 /\ valid_spec e = true /\ e <> 255.
Proof.
  intros e H. unfold enc_ok in H. repeat rewrite andb_true_iff in H. destruct H as [[H1 H2] H3].
  split; [lia|]. split; [exact H2|]. lia.
Qed.

Lemma fde_body_enc : forall dbg c sec cr ci f o len co tf fd,
  asz_ok (cie_asz (sp_of c) cr) ->
  cie_from_offset dbg c sec co = Ok ci -> cie_links c cr ci ->
  exp_fde c cr ci f o len tf = Some fd ->
  fde_parse dbg c sec (mkpfde o len (f_fmt64 f) co (mkrd tf (fde_tail (sp_of c) cr f))) = Ok fd.
Proof.
  intros dbg c sec cr ci f o len co tf fd Hasz Hci (Hl1 & Hl2 & Hl3 & Hl4) Hexp.
  unfold fde_parse. cbn [pf_cie_off pf_rest pf_off pf_len pf_fmt64]. rewrite Hci. cbn [bind].
  unfold exp_fde in Hexp. cbv zeta in Hexp.
  unfold fde_tail. cbv zeta. cbn [sp_of s_be] in *.
  set (asz := cie_asz (sp_of c) cr) in *.
  unfold fde_addresses. rewrite Hl2, Hl1. fold asz.
  destruct (find_R (c_items cr)) as [e|] eqn:ER.
  - (* encoded addresses *)
    destruct (enc_ok e && value_fits (fmt_of e) asz (f_init f) && value_fits (fmt_of e) asz (f_range f)) eqn:Hok; [|discriminate].
    repeat rewrite andb_true_iff in Hok. destruct Hok as [[Heok Hfi] Hfr].
    apply enc_ok_split in Heok as (He & Hv & H255).
    destruct (ptr_spec e asz (sb_pb (sc_bases c) None) tf (f_init f)) as [[ind ia]|] eqn:Hps; [|discriminate].
    rewrite (pep_enc dbg (sc_be c) e (mkpp (sc_bases c) None asz) tf (f_init f) _ ind ia); try assumption.
    cbn [bind pp_asz].
    destruct (pe_decomp_base e He) as (Hfmt & _).
    assert (Hfv : fmt_valid (pe_format e) = true).
    { unfold valid_spec in Hv. destruct (e =? 255) eqn:E; [lia|]. cbn [orb] in Hv. apply andb_true_iff in Hv. rewrite Hfmt. tauto. }
    rewrite <- Hfmt in *.
    rewrite (pev_enc dbg (sc_be c) e (mkpp (sc_bases c) None asz)); try assumption.
    cbn [bind pp_asz].
    assert (Hpv : pointer_value (mkptr ind ia) = ia) by (destruct ind; reflexivity). rewrite Hpv.
    destruct (has_aug cr) eqn:Haug.
    + destruct (ci_aug ci) as [a|]; [|discriminate].
      destruct (blen (_ ++ f_pad f) <? 2 ^ 64) eqn:Hlen; [|discriminate].
      unfold fde_aug_data. rewrite <- (app_assoc (enc_uleb _)).
      rewrite (lift_app _ _ _ _ _ (blen ((match find_L (c_items cr) with Some e0 => enc_value (fmt_of e0) asz (sc_be c) (f_lsda f) | None => [] end) ++ f_pad f))) by (apply read_uleb_enc; lia).
      cbn [bind]. change blen with nlen. rewrite rd_split_app. cbn [bind].
      rewrite Hl3.
      destruct (find_L (c_items cr)) as [le|] eqn:EL.
      * destruct (enc_ok le && value_fits (fmt_of le) asz (f_lsda f)) eqn:Hlok; [|discriminate].
        apply andb_true_iff in Hlok as [Hleok Hlfit]. apply enc_ok_split in Hleok as (Hle & Hlv & Hl255).
        match type of Hexp with match ?P with Some _ => _ | None => _ end = _ => destruct P as [[lind la]|] eqn:Hlps; [|discriminate] end.
        rewrite (pep_enc dbg (sc_be c) le (mkpp (sc_bases c) (Some ia) asz) _ (f_lsda f) _ lind la); try assumption.
        cbn [bind]. injection Hexp as <-. reflexivity.
      * cbn [bind]. injection Hexp as <-. reflexivity.
    + destruct (ci_aug ci) as [a|]; [discriminate|]. cbn [bind]. injection Hexp as <-. reflexivity.
  - (* plain addresses *)
    destruct ((f_init f <? 2 ^ (8 * asz)) && (f_range f <? 2 ^ (8 * asz))) eqn:Hok; [|discriminate].
    apply andb_true_iff in Hok as [Hi Hr].
    unfold enc_value in *. cbn [N.eqb] in *.
    rewrite !read_address_ok_fun by exact Hasz.
    rewrite (lift_app _ _ _ _ _ (f_init f)) by (apply read_un_small; rewrite N2Nat.id, pow256; lia). cbn [bind].
    rewrite (lift_app _ _ _ _ _ (f_range f)) by (apply read_un_small; rewrite N2Nat.id, pow256; lia). cbn [bind].
    destruct (has_aug cr) eqn:Haug.
    + destruct (ci_aug ci) as [a|]; [|discriminate].
      destruct (blen (_ ++ f_pad f) <? 2 ^ 64) eqn:Hlen; [|discriminate].
      unfold fde_aug_data. rewrite <- (app_assoc (enc_uleb _)).
      rewrite (lift_app _ _ _ _ _ (blen ((match find_L (c_items cr) with Some e0 => (if fmt_of e0 =? 0 then un_bytes (N.to_nat asz) (sc_be c) (f_lsda f) else _) | None => [] end) ++ f_pad f))) by (apply read_uleb_enc; lia).
      cbn [bind]. change blen with nlen. rewrite rd_split_app. cbn [bind].
      rewrite Hl3.
      destruct (find_L (c_items cr)) as [le|] eqn:EL.
      * destruct (enc_ok le && value_fits (fmt_of le) asz (f_lsda f)) eqn:Hlok; [|discriminate].
        apply andb_true_iff in Hlok as [Hleok Hlfit]. apply enc_ok_split in Hleok as (Hle & Hlv & Hl255).
        match type of Hexp with match ?P with Some _ => _ | None => _ end = _ => destruct P as [[lind la]|] eqn:Hlps; [|discriminate] end.
        fold (enc_value (fmt_of le) asz (sc_be c) (f_lsda f)) in *.
        rewrite (pep_enc dbg (sc_be c) le (mkpp (sc_bases c) (Some (f_init f)) asz) _ (f_lsda f) _ lind la); try assumption.
        cbn [bind]. injection Hexp as <-. reflexivity.
      * cbn [bind]. injection Hexp as <-. reflexivity.
    + destruct (ci_aug ci) as [a|]; [discriminate|]. cbn [bind]. injection Hexp as <-. reflexivity.
Qed.

(* ------------------------------------------------------------------ whole FDE entry (partial parse) *)
Definition fde_idv (c : scfg) (pos co : N) : N := if sc_eh c then pos - co else co.

Lemma cie_pointer_bytes : forall c fmt64 pos co,
  cie_pointer (sp_of c) fmt64 pos co = un_bytes (idsz_of c fmt64) (sc_be c) (fde_idv c pos co).
Proof.
  intros. unfold cie_pointer, idsz_of, fde_idv, cie_id_is_u64. cbn [sp_of s_eh s_be].
  destruct (sc_eh c), fmt64; reflexivity.
Qed.

Definition fde_body (c : scfg) (cr : cie_rec) (co o : N) (f : fde_rec) : list byte :=
  cie_pointer (sp_of c) (f_fmt64 f) (o + len_field_size (f_fmt64 f)) co ++ fde_tail (sp_of c) cr f.

(* where the CIE may sit relative to the FDE so that the pointer designates it *)
Definition cie_ref_ok (c : scfg) (fmt64 : bool) (o co : N) : Prop :=
  if sc_eh c then co < o + len_field_size fmt64 /\ o + len_field_size fmt64 - co < 2 ^ 32
  else co < (if fmt64 then 2 ^ 64 - 1 else 2 ^ 32 - 1).

Lemma parse_cfi_entry_fde : forall dbg c cr co o f rest,
  body_fits (f_fmt64 f) (fde_body c cr co o f) -> cie_ref_ok c (f_fmt64 f) o co ->
  parse_cfi_entry dbg c (mkrd o (enc_fde (sp_of c) cr co o f ++ rest)) =
  Ok (Some (IFde (mkpfde o (blen (fde_body c cr co o f)) (f_fmt64 f) co
                         (mkrd (tail_off c (f_fmt64 f) o) (fde_tail (sp_of c) cr f)))),
      mkrd (o + blen (enc_fde (sp_of c) cr co o f)) rest).
Proof.
  intros dbg c cr co o f rest Hfit Href. unfold parse_cfi_entry, enc_fde. cbv zeta.
  fold (fde_body c cr co o f). cbn [s_be sp_of]. unfold fde_body in *. rewrite cie_pointer_bytes in *.
  rewrite <- app_assoc.
  set (pos := o + len_field_size (f_fmt64 f)) in *.
  assert (Hidv : fde_idv c pos co < 256 ^ N.of_nat (idsz_of c (f_fmt64 f))).
  { unfold fde_idv, idsz_of, cie_id_is_u64, cie_ref_ok in *. fold pos in Href.
    destruct (sc_eh c); cbn [negb andb].
    - change (256 ^ N.of_nat 4) with (2 ^ 32). lia.
    - destruct (f_fmt64 f); [change (256 ^ N.of_nat 8) with (2 ^ 64)|change (256 ^ N.of_nat 4) with (2 ^ 32)]; lia. }
  pose proof (parse_prefix_enc c (f_fmt64 f) (fde_idv c pos co) (fde_tail (sp_of c) cr f) rest o) as Hp.
  cbv zeta in Hp. unfold idsz_of in *. rewrite Hp; [|exact Hidv|exact Hfit]. clear Hp.
  cbn [bind px_fmt64 px_id].
  assert (Hnot : is_cie (sc_eh c) (f_fmt64 f) (fde_idv c pos co) = false).
  { unfold is_cie, fde_idv, cie_ref_ok in *. fold pos in Href. destruct (sc_eh c); [lia|].
    destruct (f_fmt64 f); [change (2 ^ 64 - 1) with 18446744073709551615 in Href|change (2 ^ 32 - 1) with 4294967295 in Href]; lia. }
  rewrite Hnot. unfold pfde_from_prefix. cbn [px_base px_id px_off px_len px_fmt64 px_rest].
  assert (Hres : resolve_cie_offset (sc_eh c) pos (fde_idv c pos co) = Some co).
  { unfold resolve_cie_offset, fde_idv, cie_ref_ok in *. fold pos in Href. destruct (sc_eh c); [|reflexivity].
    destruct (pos - co <=? pos) eqn:E; [|lia]. f_equal. lia. }
  fold pos. rewrite Hres. cbn [bind]. unfold tail_off, idsz_of. fold pos.
  do 3 f_equal. nlen_norm. rewrite nlen_initial_length. lia.
Qed.

(* the size of an encoded FDE does not depend on where it or its CIE is placed *)
Lemma enc_fde_len : forall sp cr co o f, blen (enc_fde sp cr co o f) = blen (enc_fde sp cr 0 0 f).
Proof.
  intros. unfold enc_fde. cbv zeta. change blen with nlen. nlen_norm. rewrite !nlen_initial_length.
  assert (H : forall pos co', nlen (cie_pointer sp (f_fmt64 f) pos co') = N.of_nat (if s_eh sp then 4 else if f_fmt64 f then 8 else 4)%nat).
  { intros. unfold cie_pointer. destruct (s_eh sp); [|destruct (f_fmt64 f)]; apply nlen_un_bytes. }
  rewrite !H. reflexivity.
Qed.

(* ------------------------------------------------------------------ fuel independence of next() *)
Lemma iter_next_fuel_indep : forall f1 f2 dbg c input,
  (length (win input) < f1)%nat -> (length (win input) < f2)%nat ->
  iter_next f1 dbg c input = iter_next f2 dbg c input.
Proof.
  induction f1 as [|f1 IH]; intros f2 dbg c input H1 H2; [lia|].
  destruct f2 as [|f2]; [lia|]. cbn [iter_next].
  destruct (rd_is_empty input); [reflexivity|].
  destruct (parse_cfi_entry dbg c input) as [[o in1]|e| |] eqn:E; try reflexivity.
  destruct o as [it|]; [reflexivity|]. destruct (sc_eh c); [reflexivity|].
  assert (Hs : (length (win in1) + 4 <= length (win input))%nat).
  { unfold parse_cfi_entry in E. apply bind_ok in E as ([opx in0] & Hp & E).
    destruct opx as [px|].
    - destruct (is_cie _ _ _).
      + apply bind_ok in E as (x & _ & E). discriminate.
      + apply bind_ok in E as (x & _ & E). discriminate.
    - injection E as <-. unfold parse_prefix in Hp.
      apply bind_ok in Hp as ([[len fmt64] in2] & Hl & Hp).
      unfold lift in Hl. destruct (read_initial_length (sc_be c) (win input)) as [[x rest]| | |] eqn:El; cbn [bind] in Hl; try discriminate.
      injection Hl as _ <-.
      assert (Hrl : (length rest + 4 <= length (win input))%nat).
      { unfold read_initial_length in El. apply bind_ok in El as ([v r0] & Hv & El).
        unfold read_un, read_bytes in Hv. destruct (take 4 (win input)) as [[h t]|] eqn:Et; cbn [bind] in Hv; [|discriminate].
        injection Hv as _ <-. apply take_some_len in Et as [Hw Hh].
        destruct (v <? 4294967280).
        - injection El as _ <-. rewrite Hw, app_length. lia.
        - destruct (v =? 4294967295); [|discriminate].
          apply bind_ok in El as ([v8 r8] & Hv8 & El). injection El as _ <-.
          unfold read_un, read_bytes in Hv8. destruct (take 8 t) as [[h8 t8]|] eqn:Et8; cbn [bind] in Hv8; [|discriminate].
          injection Hv8 as _ <-. apply take_some_len in Et8 as [Hw8 Hh8]. rewrite Hw, Hw8, !app_length. lia. }
      destruct (len =? 0).
      + injection Hp as <-. cbn [win]. exact Hrl.
      + apply bind_ok in Hp as ([r1 in3] & _ & Hp). apply bind_ok in Hp as ([id rest1] & _ & Hp). discriminate. }
  apply IH; lia.
Qed.

(* ------------------------------------------------------------------ whole sections *)
Lemma rd_is_empty_app : forall o (l r : list byte), (0 < length l)%nat -> rd_is_empty (mkrd o (l ++ r)) = false.
Proof. intros o [|b l] r H; [cbn [length] in H; lia|reflexivity]. Qed.

Lemma initial_length_len : forall be fmt64 len, (0 < length (initial_length be fmt64 len))%nat.
Proof.
  intros. pose proof (nlen_initial_length be fmt64 len) as H. unfold nlen, len_field_size in H.
  destruct fmt64; lia.
Qed.

Lemma enc_cie_len : forall sp cr, (0 < length (enc_cie sp cr))%nat.
Proof. intros. unfold enc_cie. cbv zeta. rewrite app_length. pose proof (initial_length_len (s_be sp) (c_fmt64 cr) (blen (cie_id sp (c_fmt64 cr) ++ cie_tail sp cr))). lia. Qed.

Lemma enc_fde_len_pos : forall sp cr co o f, (0 < length (enc_fde sp cr co o f))%nat.
Proof.
  intros. unfold enc_fde. cbv zeta. rewrite app_length.
  match goal with |- (0 < length (initial_length ?a ?b ?l) + _)%nat => pose proof (initial_length_len a b l) end. lia.
Qed.

Section Sections.
  Variables (dbg : bool) (c : scfg) (es : list entry).
  Let sp := sp_of c.
  Let offs := offsets sp es.

  Definition cr_of (f : fde_rec) : cie_rec :=
    match cie_at es (f_cie f) with Some cr => cr | None => dummy_cie end.
  Definition co_of (f : fde_rec) : N := nth (f_cie f) offs 0.

  Definition exp_pfde (o : N) (f : fde_rec) : pfde :=
    mkpfde o (blen (fde_body c (cr_of f) (co_of f) o f)) (f_fmt64 f) (co_of f)
           (mkrd (tail_off c (f_fmt64 f) o) (fde_tail sp (cr_of f) f)).

  (* the items the iterator must report for the entry list l placed at offset o *)
  Fixpoint exp_items (o : N) (l : list entry) : option (list item) :=
    match l with
    | [] => Some []
    | ECie cr :: r =>
        match exp_aug c cr (cie_dpos c cr (tail_off c (c_fmt64 cr) o)),
              exp_items (o + entry_size sp es (ECie cr)) r with
        | Some aug, Some items =>
            Some (ICie (exp_cie c cr o (blen (cie_body c cr)) (tail_off c (c_fmt64 cr) o) aug) :: items)
        | _, _ => None
        end
    | EFde f :: r =>
        match exp_items (o + entry_size sp es (EFde f)) r with
        | Some items => Some (IFde (exp_pfde o f) :: items)
        | None => None
        end
    | EZero :: r => if sc_eh c then Some [] else exp_items (o + 4) r
    end.

  Fixpoint wf_entries (o : N) (l : list entry) : Prop :=
    match l with
    | [] => True
    | ECie cr :: r =>
        wf_cie c cr /\ body_fits (c_fmt64 cr) (cie_body c cr) /\ wf_entries (o + entry_size sp es (ECie cr)) r
    | EFde f :: r =>
        body_fits (f_fmt64 f) (fde_body c (cr_of f) (co_of f) o f) /\ cie_ref_ok c (f_fmt64 f) o (co_of f) /\
        wf_entries (o + entry_size sp es (EFde f)) r
    | EZero :: r => wf_entries (o + 4) r
    end.

  Lemma enc_entries_cons : forall o e r,
    enc_entries sp es offs o (e :: r) = enc_entry sp es offs o e ++ enc_entries sp es offs (o + entry_size sp es e) r.
  Proof. reflexivity. Qed.

  Lemma entries_loop_enc : forall l o fuel items,
    (length l < fuel)%nat -> wf_entries o l -> exp_items o l = Some items ->
    entries_loop fuel dbg c (mkrd o (enc_entries sp es offs o l)) = Ok (items, None).
  Proof.
    induction l as [|e r IH]; intros o fuel items Hf Hwf Hexp.
    - destruct fuel as [|f]; [cbn [length] in Hf; lia|]. injection Hexp as <-. reflexivity.
    - destruct fuel as [|f]; [lia|]. cbn [length] in Hf.
      rewrite enc_entries_cons.
      destruct e as [cr|fr|].
      + (* CIE *)
        cbn [wf_entries exp_items] in Hwf, Hexp. destruct Hwf as (Hwc & Hfit & Hwr).
        destruct (exp_aug c cr _) as [aug|] eqn:Haug; [|discriminate].
        destruct (exp_items _ r) as [items'|] eqn:Hitems; [|discriminate]. injection Hexp as <-.
        rewrite entries_loop_S. unfold iter_fuel. cbn [win]. rewrite iter_next_S.
        cbn [enc_entry]. rewrite rd_is_empty_app by apply enc_cie_len.
        unfold sp. rewrite (parse_cfi_entry_cie dbg c cr o _ aug Hwc Hfit Haug). cbn [bind].
        fold sp. cbn [entry_size] in *. rewrite (IH _ f items'); [reflexivity|lia|exact Hwr|exact Hitems].
      + (* FDE *)
        cbn [wf_entries exp_items] in Hwf, Hexp. destruct Hwf as (Hfit & Href & Hwr).
        destruct (exp_items _ r) as [items'|] eqn:Hitems; [|discriminate]. injection Hexp as <-.
        rewrite entries_loop_S. unfold iter_fuel. cbn [win]. rewrite iter_next_S.
        cbn [enc_entry]. fold (cr_of fr). fold (co_of fr).
        rewrite rd_is_empty_app by apply enc_fde_len_pos.
        unfold sp. rewrite (parse_cfi_entry_fde dbg c (cr_of fr) (co_of fr) o fr _ Hfit Href). cbn [bind].
        fold sp.
        assert (Hsz : blen (enc_fde sp (cr_of fr) (co_of fr) o fr) = entry_size sp es (EFde fr)).
        { cbn [entry_size]. fold (cr_of fr). apply enc_fde_len. }
        rewrite Hsz. unfold exp_pfde. fold sp.
        rewrite (IH _ f items'); [reflexivity|lia|exact Hwr|exact Hitems].
      + (* zero length *)
        cbn [wf_entries exp_items] in Hwf, Hexp.
        rewrite entries_loop_S. unfold iter_fuel. cbn [win]. rewrite iter_next_S.
        cbn [enc_entry entry_size].
        rewrite rd_is_empty_app by (rewrite un_bytes_length; lia).
        assert (Hp : parse_cfi_entry dbg c (mkrd o (un_bytes 4 (s_be sp) 0 ++ enc_entries sp es offs (o + 4) r))
                     = Ok (None, mkrd (o + 4) (enc_entries sp es offs (o + 4) r))).
        { unfold parse_cfi_entry, parse_prefix.
          erewrite lift_app.
          2:{ pose proof (read_initial_length_enc (sc_be c) false 0 (enc_entries sp es offs (o + 4) r)) as H0.
              unfold initial_length in H0. apply H0. lia. }
          cbn [bind]. change (0 =? 0) with true. cbv iota. cbn [bind].
          rewrite nlen_un_bytes. reflexivity. }
        rewrite Hp.
        destruct (sc_eh c) eqn:Eeh.
        * injection Hexp as <-. reflexivity.
        * (* .debug_frame: the zero length is skipped *)
          pose proof (entries_loop_S f dbg c (mkrd (o + 4) (enc_entries sp es offs (o + 4) r))) as HS.
          unfold iter_fuel in HS. cbn [win] in HS.
          rewrite (iter_next_fuel_indep _ (S (length (enc_entries sp es offs (o + 4) r)))).
          -- rewrite <- HS. apply IH; [lia|exact Hwf|exact Hexp].
          -- cbn [win]. rewrite app_length, un_bytes_length. lia.
          -- cbn [win]. lia.
  Qed.
End Sections.

(* ------------------------------------------------------------------ CIE/FDE linkage *)
Lemma aug_fold_links : forall asz be b items pos a a',
  aug_fold asz be b items pos a = Some a' ->
  a_fde_enc a' = (match find_R items with Some e => Some e | None => a_fde_enc a end) /\
  a_lsda a' = (match find_L items with Some e => Some e | None => a_lsda a end).
Proof.
  induction items as [|it r IH]; intros pos a a' H.
  - injection H as <-. auto.
  - destruct it as [e|e raw|e|]; cbn [aug_fold find_R find_L] in *.
    + destruct (_ && _); [|discriminate]. apply IH in H as [H1 H2]. cbn [set_lsda a_fde_enc a_lsda] in *.
      rewrite H1, H2. destruct (find_R r), (find_L r); auto.
    + destruct (_ && _ && _ && _); [|discriminate]. destruct (ptr_spec _ _ _ _ _) as [[ind addr]|]; [|discriminate].
      apply IH in H as [H1 H2]. cbn [set_pers a_fde_enc a_lsda] in *.
      rewrite H1, H2. destruct (find_R r), (find_L r); auto.
    + destruct (_ && _); [|discriminate]. apply IH in H as [H1 H2]. cbn [set_fde_enc a_fde_enc a_lsda] in *.
      rewrite H1, H2. destruct (find_R r), (find_L r); auto.
    + apply IH in H as [H1 H2]. cbn [set_sig a_fde_enc a_lsda] in *.
      rewrite H1, H2. destruct (find_R r), (find_L r); auto.
Qed.

Lemma all_S_find : forall items,
  forallb (fun i => match i with AS => true | _ => false end) items = true ->
  find_R items = None /\ find_L items = None.
Proof.
  induction items as [|it r IH]; intros H; [auto|]. cbn [forallb] in H. apply andb_true_iff in H as [H1 H2].
  destruct it; try discriminate. cbn [find_R find_L]. destruct (IH H2) as [-> ->]. auto.
Qed.

Lemma exp_cie_links : forall c cr o len t dpos aug,
  exp_aug c cr dpos = Some aug -> cie_links c cr (exp_cie c cr o len t aug).
Proof.
  intros c cr o len t dpos aug H. unfold cie_links, exp_cie. cbn [ci_asz ci_aug].
  split; [reflexivity|]. unfold exp_aug in H. unfold has_aug. cbv zeta in H.
  destruct (c_z cr) eqn:Ez.
  - destruct (aug_fold _ _ _ _ _ _) as [a|] eqn:Hf; [|discriminate]. injection H as <-.
    apply aug_fold_links in Hf as [H1 H2]. cbn [aug_default a_fde_enc a_lsda] in *.
    rewrite H1, H2. cbn [orb]. destruct (find_R (c_items cr)), (find_L (c_items cr)); auto.
  - destruct (c_items cr) as [|i0 items] eqn:Ei.
    + injection H as <-. cbn [find_R find_L orb negb]. auto.
    + destruct (forallb _ (i0 :: items)) eqn:Efa; [|discriminate]. injection H as <-.
      apply all_S_find in Efa as [-> ->]. cbn [set_sig aug_default a_fde_enc a_lsda orb negb]. auto.
Qed.

(* ------------------------------------------------------------------ locating an entry in the section *)
Section Locate.
  Variables (c : scfg) (es : list entry).
  Let sp := sp_of c.
  Let offs := offsets sp es.

  Lemma enc_entry_size : forall o e, blen (enc_entry sp es offs o e) = entry_size sp es e.
  Proof.
    intros o [cr|f|]; cbn [enc_entry entry_size].
    - reflexivity.
    - apply enc_fde_len.
    - change blen with nlen. apply nlen_un_bytes.
  Qed.

  Lemma enc_entries_split : forall l o i e,
    nth_error l i = Some e ->
    exists pre post,
      enc_entries sp es offs o l = pre ++ enc_entry sp es offs (nth i (offsets_from sp es o l) 0) e ++ post /\
      o + nlen pre = nth i (offsets_from sp es o l) 0.
  Proof.
    induction l as [|x r IH]; intros o i e H; [destruct i; discriminate|].
    destruct i as [|i].
    - injection H as <-. exists [], (enc_entries sp es offs (o + entry_size sp es x) r).
      cbn [offsets_from nth app]. split; [reflexivity|]. change (nlen []) with 0. lia.
    - cbn [nth_error] in H. destruct (IH (o + entry_size sp es x) i e H) as (pre & post & H1 & H2).
      exists (enc_entry sp es offs o x ++ pre), post. cbn [offsets_from nth]. split.
      + cbn [enc_entries]. rewrite H1, <- app_assoc. reflexivity.
      + rewrite nlen_app, <- H2. change (nlen (enc_entry sp es offs o x)) with (blen (enc_entry sp es offs o x)).
        rewrite enc_entry_size. lia.
  Qed.

  Lemma enc_entries_length : forall l o, (length l <= length (enc_entries sp es offs o l))%nat.
  Proof.
    induction l as [|x r IH]; intros o; [cbn; lia|].
    cbn [enc_entries]. rewrite app_length. cbn [length]. specialize (IH (o + entry_size sp es x)).
    assert ((0 < length (enc_entry sp es offs o x))%nat).
    { destruct x as [cr|f|]; cbn [enc_entry]; [apply enc_cie_len|apply enc_fde_len_pos|rewrite un_bytes_length; lia]. }
    lia.
  Qed.

  (* C05 entries round trip: iterating the encoded section yields exactly the expected items *)
  Lemma entries_all_enc : forall dbg items,
    wf_entries c es 0 es -> exp_items c es 0 es = Some items ->
    entries_all dbg c (enc_section sp es) = Ok (items, None).
  Proof.
    intros dbg items Hwf Hexp. unfold entries_all, enc_section.
    apply entries_loop_enc; [|exact Hwf|exact Hexp].
    pose proof (enc_entries_length es 0). fold offs. lia.
  Qed.

  (* each FDE is bound to the CIE its pointer designates, and decodes to the expected record *)
  Lemma fde_parse_enc : forall dbg f cr o aug fd,
    cie_at es (f_cie f) = Some cr ->
    wf_cie c cr -> body_fits (c_fmt64 cr) (cie_body c cr) ->
    let co := co_of c es f in
    exp_aug c cr (cie_dpos c cr (tail_off c (c_fmt64 cr) co)) = Some aug ->
    let ci := exp_cie c cr co (blen (cie_body c cr)) (tail_off c (c_fmt64 cr) co) aug in
    exp_fde c cr ci f o (blen (fde_body c cr co o f)) (tail_off c (f_fmt64 f) o) = Some fd ->
    fde_parse dbg c (enc_section sp es) (exp_pfde c es o f) = Ok fd.
  Proof.
    intros dbg f cr o aug fd Hat Hwc Hfit co Haug ci Hexp.
    unfold cie_at in Hat. destruct (nth_error es (f_cie f)) as [[cr'| |]|] eqn:Hn; try discriminate.
    injection Hat as ->.
    destruct (enc_entries_split es 0 (f_cie f) (ECie cr) Hn) as (pre & post & Hsec & Hoff).
    cbn [enc_entry] in Hsec. rewrite N.add_0_l in Hoff.
    assert (Hco : co = nlen pre) by (unfold co, co_of; fold sp; fold offs; unfold offs, offsets; symmetry; exact Hoff).
    unfold exp_pfde. unfold cr_of, cie_at. rewrite Hn. fold co. fold sp.
    apply (fde_body_enc dbg c (enc_section sp es) cr ci).
    - apply Hwc.
    - unfold enc_section. fold offs. rewrite Hsec. unfold ci. rewrite Hco in *.
      apply cie_from_offset_enc; assumption.
    - eapply exp_cie_links. exact Haug.
    - exact Hexp.
  Qed.
End Locate.
