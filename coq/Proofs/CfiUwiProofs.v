(* Proofs/CfiUwiProofs.v — unwind_info_for_address = address lookup (C05) composed with the table
   of the FDE found (C06): the row returned is the row of the DWARF call-frame table (CfaSpec) of
   the first FDE in section order that covers the address. *)
From Coq Require Import List NArith ZArith Bool Lia ZifyBool ZifyN ZifyNat.
From Coq.Strings Require Import Byte.
Require Import GV.Base.Res GV.Base.Byt GV.Base.Ints GV.Model.Leb GV.Model.Prim.
Require Import GV.Spec.CfaSpec GV.Model.CfiRun GV.Model.CfiRd GV.Model.CfiUwi.
Require GV.Proofs.CfiRunProofs.
Require Import GV.Proofs.CfiRdBase GV.Proofs.CfiRdPtr GV.Proofs.CfiRdBs GV.Proofs.CfiRdIter GV.Proofs.CfiRdSafe GV.Proofs.CfiRdHdr GV.Proofs.CfiRdEnt.
Import ListNotations.
Local Open Scope N_scope.

Local Arguments N.add : simpl never.
Local Arguments N.sub : simpl never.
Local Arguments N.mul : simpl never.
Local Arguments N.pow : simpl never.
Local Arguments N.div : simpl never.
Local Arguments N.modulo : simpl never.

Module R := GV.Proofs.CfiRunProofs.

(* ------------------------------------------------------------------ row selection *)
Definition outcome_err (o : outcome) : res row :=
  match o with
  | Done => Err ENoUnwindInfoForAddress
  | Fail e => Err e
  | Crash => Panic
  | Fuel => OutOfFuel
  end.

(* first delivered row that contains the address; else how the table ended *)
Definition pick (a : N) (rows : list row) (o : outcome) : res row :=
  match find (fun r => row_contains r a) rows with
  | Some r => Ok r
  | None => outcome_err o
  end.

Lemma find_row_collect : forall fuel dbg c d a t it,
  fst (find_row fuel dbg c d a t it) =
  pick a (fst (fst (collect fuel None dbg c d t it))) (snd (fst (collect fuel None dbg c d t it))).
Proof.
  induction fuel as [|f IH]; intros dbg c d a t it; [reflexivity|].
  cbn [find_row collect].
  destruct (next_row dbg c d t it) as [[[r|]|e| |] [t' it']]; try reflexivity.
  specialize (IH dbg c d a t' it').
  destruct (collect f None dbg c d t' it') as [[rows o] cx]. cbn [fst snd] in *.
  unfold pick. cbn [find]. destruct (row_contains r a); [reflexivity|].
  rewrite IH. reflexivity.
Qed.

(* FrameDescriptionEntry::unwind_info_for_address = the first row of fde.rows() containing a *)
Lemma fde_uwi_pick : forall dbg c f cx a,
  fst (CfiRun.unwind_info_for_address dbg c f cx a) =
  pick a (fst (fst (fde_rows dbg c f cx))) (snd (fst (fde_rows dbg c f cx))).
Proof.
  intros. unfold CfiRun.unwind_info_for_address, fde_rows, fde_rows_lim.
  destruct (negb (valid_asize (f_asize f))); [reflexivity|].
  destruct (table_new dbg c f cx) as [t|e| |]; try reflexivity.
  apply find_row_collect.
Qed.

(* ------------------------------------------------------------------ against the spec table *)
Definition srow_contains (sr : srow) (a : N) : bool := (sr_start sr <=? a) && (a <? sr_end sr).

(* what a lookup in the spec table (rows delivered, outcome) must give *)
Definition uwi_result_spec (a : N) (srows : list srow) (o : outcome) (result : res row) : Prop :=
  match find (fun sr => srow_contains sr a) srows with
  | Some sr => exists r, result = Ok r /\ R.row_equiv r sr /\ sr_start sr <= a /\ a < sr_end sr
  | None => result = outcome_err o
  end.

Lemma pick_row_equiv : forall a rows srows o,
  Forall2 R.row_equiv rows srows -> uwi_result_spec a srows o (pick a rows o).
Proof.
  intros a rows srows o H. unfold uwi_result_spec, pick. induction H as [|r sr rows srows Hr _ IH]; [reflexivity|].
  cbn [find].
  assert (Hc : row_contains r a = srow_contains sr a).
  { destruct Hr as (H1 & H2 & _). unfold row_contains, srow_contains. rewrite H1, H2. reflexivity. }
  rewrite Hc. destruct (srow_contains sr a) eqn:E; [|exact IH].
  exists r. split; [reflexivity|]. split; [exact Hr|]. unfold srow_contains in E. lia.
Qed.

Lemma asz_ok_valid : forall a, asz_ok a -> valid_asize a = true.
Proof. intros a [->|[->|[->| ->]]]; reflexivity. Qed.

(* one FDE: the row returned is the spec row containing the address *)
Lemma fde_uwi_spec : forall dbg cp f cx a,
  valid_asize (f_asize f) = true -> cap_full (max_stack cp) 0 = false ->
  uwi_result_spec a (fst (R.spec_of dbg cp f)) (snd (R.spec_of dbg cp f))
                  (fst (CfiRun.unwind_info_for_address dbg cp f cx a)).
Proof.
  intros dbg cp f cx a Hv Hc. rewrite fde_uwi_pick.
  destruct (R.model_eq_spec dbg cp f cx Hv Hc) as (H1 & H2). rewrite H2.
  apply pick_row_equiv. exact H1.
Qed.

(* ------------------------------------------------------------------ the composition, every byte string *)
Lemma uwi_compose : forall dbg cp c aa sec cx a,
  fst (unwind_info_for_address dbg cp c aa sec cx a) =
  match fde_for_address dbg c sec a with
  | Ok fd => let f := fde_in_of (sc_be c) aa fd in
             pick a (fst (fst (fde_rows dbg cp f cx))) (snd (fst (fde_rows dbg cp f cx)))
  | Err e => Err e
  | Panic => Panic
  | OutOfFuel => OutOfFuel
  end.
Proof.
  intros. unfold unwind_info_for_address.
  destruct (fde_for_address dbg c sec a) as [fd|e| |]; try reflexivity. apply fde_uwi_pick.
Qed.

Lemma hdr_uwi_compose : forall dbg cp hb h c aa sec cx a,
  fst (hdr_unwind_info_for_address dbg cp hb h c aa sec cx a) =
  match hdr_fde_for_address dbg hb h c sec a with
  | Ok fd => let f := fde_in_of (sc_be c) aa fd in
             pick a (fst (fst (fde_rows dbg cp f cx))) (snd (fst (fde_rows dbg cp f cx)))
  | Err e => Err e
  | Panic => Panic
  | OutOfFuel => OutOfFuel
  end.
Proof.
  intros. unfold hdr_unwind_info_for_address.
  destruct (hdr_fde_for_address dbg hb h c sec a) as [fd|e| |]; try reflexivity. apply fde_uwi_pick.
Qed.

(* ------------------------------------------------------------------ well-formed sections *)
(* first FDE in section order that covers a — also when FDE ranges overlap *)
Lemma uwi_spec_lem : forall dbg cp c aa sec cx a items fds,
  asz_ok (sc_asz c) -> cap_full (max_stack cp) 0 = false ->
  entries_all dbg c sec = Ok (items, None) ->
  parsed_fdes dbg c sec items = Some fds ->
  match find (fun f => covers f a) fds with
  | None => fst (unwind_info_for_address dbg cp c aa sec cx a) = Err ENoUnwindInfoForAddress
  | Some fd =>
      let f := fde_in_of (sc_be c) aa fd in
      uwi_result_spec a (fst (R.spec_of dbg cp f)) (snd (R.spec_of dbg cp f))
                      (fst (unwind_info_for_address dbg cp c aa sec cx a))
  end.
Proof.
  intros dbg cp c aa sec cx a items fds Hc Hcap He Hp.
  unfold unwind_info_for_address. rewrite (linear_lookup_lem dbg c sec a items fds Hc He Hp).
  destruct (find (fun f => covers f a) fds) as [fd|] eqn:Ef; [|reflexivity].
  cbv zeta. apply fde_uwi_spec; [|exact Hcap].
  cbn [fde_in_of f_asize]. apply asz_ok_valid.
  pose proof (parsed_fdes_asz dbg c sec items fds Hp Hc) as Hall. rewrite Forall_forall in Hall.
  apply Hall. apply find_some in Ef. tauto.
Qed.

(* the same against the unlimited DWARF machine when its occupancy stays within the storage *)
Lemma uwi_spec_unl_lem : forall dbg cp c aa sec cx a items fds fd,
  asz_ok (sc_asz c) -> cap_full (max_stack cp) 0 = false ->
  entries_all dbg c sec = Ok (items, None) ->
  parsed_fdes dbg c sec items = Some fds ->
  find (fun f => covers f a) fds = Some fd ->
  let f := fde_in_of (sc_be c) aa fd in
  R.within_limits dbg cp f = true ->
  uwi_result_spec a (fst (R.spec_unl dbg f)) (snd (R.spec_unl dbg f))
                  (fst (unwind_info_for_address dbg cp c aa sec cx a)).
Proof.
  intros dbg cp c aa sec cx a items fds fd Hc Hcap He Hp Ef f Hw.
  unfold unwind_info_for_address. rewrite (linear_lookup_lem dbg c sec a items fds Hc He Hp), Ef.
  fold f. rewrite fde_uwi_pick.
  assert (Hv : valid_asize (f_asize f) = true).
  { cbn [f fde_in_of f_asize]. apply asz_ok_valid.
    pose proof (parsed_fdes_asz dbg c sec items fds Hp Hc) as Hall. rewrite Forall_forall in Hall.
    apply Hall. apply find_some in Ef. tauto. }
  destruct (R.no_silent_limit_thm dbg cp f cx Hv Hcap Hw) as (H1 & H2). rewrite H2.
  apply pick_row_equiv. exact H1.
Qed.

(* ------------------------------------------------------------------ success iff covered *)
Lemma chain_covers : forall l0 lastx init a,
  R.chain init (l0 ++ [lastx]) -> Forall R.ordered l0 -> init <= a -> a < snd lastx ->
  exists x, In x (l0 ++ [lastx]) /\ fst x <= a /\ a < snd x.
Proof.
  induction l0 as [|x l0 IH]; intros lastx init a Hch Ho H1 H2.
  - cbn [app R.chain] in *. destruct Hch as [Hf _]. exists lastx. split; [left; reflexivity|lia].
  - cbn [app R.chain] in Hch. destruct Hch as [Hf Hch]. inversion Ho as [|? ? Hx Ho']; subst.
    unfold R.ordered in Hx.
    destruct (N.lt_ge_cases a (snd x)) as [Hlt|Hge].
    + exists x. split; [left; reflexivity|lia].
    + destruct (IH lastx (snd x) a Hch Ho' Hge H2) as (y & Hy & Hy2). exists y. split; [right; exact Hy|exact Hy2].
Qed.

Lemma find_exists : forall A (p : A -> bool) l x, In x l -> p x = true -> exists y, find p l = Some y.
Proof.
  intros A p l x Hin Hp. destruct (find p l) as [y|] eqn:E; [eauto|].
  eapply find_none in E; [|exact Hin]. congruence.
Qed.

(* a table that evaluates to its end covers the whole FDE range: every covered address has a row *)
Lemma fde_uwi_done_succeeds : forall dbg cp f cx a,
  snd (fst (fde_rows dbg cp f cx)) = Done ->
  CfiRun.f_init f <= a -> a < end_address f ->
  exists r, fst (CfiRun.unwind_info_for_address dbg cp f cx a) = Ok r /\ row_contains r a = true.
Proof.
  intros dbg cp f cx a Hd H1 H2. rewrite fde_uwi_pick. unfold pick.
  pose proof (R.rows_shape_thm dbg cp f cx) as [Hch Hsh]. rewrite Hd in Hsh.
  destruct Hsh as (l0 & lastx & Hl & Hlast & Ho).
  rewrite Hl in Hch. rewrite <- Hlast in H2.
  destruct (chain_covers l0 lastx _ a Hch Ho H1 H2) as (x & Hx & Hx1 & Hx2).
  rewrite <- Hl in Hx. apply in_map_iff in Hx as (r & Hr & Hin). subst x. cbn [R.mspan fst snd] in *.
  assert (Hrc : row_contains r a = true) by (unfold row_contains; lia).
  destruct (find_exists _ (fun r => row_contains r a) _ r Hin Hrc) as (y & Hy). rewrite Hy.
  exists y. split; [reflexivity|]. apply find_some in Hy. tauto.
Qed.

Lemma end_address_covers : forall be aa fd a, asz_ok (ci_asz (fd_cie fd)) ->
  covers fd a = true ->
  CfiRun.f_init (fde_in_of be aa fd) <= a /\ a < end_address (fde_in_of be aa fd).
Proof.
  intros be aa fd a Hasz H. unfold covers in H. unfold end_address, wrapping_add_sized, mask_of.
  cbn [fde_in_of CfiRun.f_init CfiRun.f_range f_asize].
  replace (2 ^ (8 * ci_asz (fd_cie fd)) - 1) with (N.ones (8 * ci_asz (fd_cie fd))) by (rewrite N.ones_equiv; lia).
  rewrite N.land_ones. unfold wrap64. change two64 with (2 ^ 64).
  assert (Hd : 2 ^ 64 = 2 ^ (8 * ci_asz (fd_cie fd)) * 2 ^ (64 - 8 * ci_asz (fd_cie fd))).
  { rewrite <- N.pow_add_r. f_equal. destruct Hasz as [->|[->|[->| ->]]]; reflexivity. }
  rewrite Hd. rewrite N.mod_mul_r by (apply N.pow_nonzero; lia).
  rewrite (N.mul_comm (2 ^ (8 * ci_asz (fd_cie fd))) (_ mod _)), N.mod_add by (apply N.pow_nonzero; lia).
  rewrite N.mod_mod by (apply N.pow_nonzero; lia). lia.
Qed.

(* success <-> some FDE covers the address, when the covering FDE's table evaluates to its end *)
Lemma uwi_succeeds_iff_lem : forall dbg cp c aa sec cx a items fds,
  asz_ok (sc_asz c) ->
  entries_all dbg c sec = Ok (items, None) ->
  parsed_fdes dbg c sec items = Some fds ->
  (forall fd, find (fun f => covers f a) fds = Some fd ->
              snd (fst (fde_rows dbg cp (fde_in_of (sc_be c) aa fd) cx)) = Done) ->
  ((exists r, fst (unwind_info_for_address dbg cp c aa sec cx a) = Ok r /\ row_contains r a = true)
   <-> exists fd, In fd fds /\ covers fd a = true).
Proof.
  intros dbg cp c aa sec cx a items fds Hc He Hp Hdone.
  unfold unwind_info_for_address. rewrite (linear_lookup_lem dbg c sec a items fds Hc He Hp).
  destruct (find (fun f => covers f a) fds) as [fd|] eqn:Ef.
  - split.
    + intros _. exists fd. apply find_some in Ef. exact Ef.
    + intros _. pose proof Ef as Ef'. apply find_some in Ef' as [Hin Hcov].
      assert (Hasz : asz_ok (ci_asz (fd_cie fd))).
      { pose proof (parsed_fdes_asz dbg c sec items fds Hp Hc) as Hall. rewrite Forall_forall in Hall. apply Hall, Hin. }
      destruct (end_address_covers (sc_be c) aa fd a Hasz Hcov) as [H1 H2].
      apply fde_uwi_done_succeeds; [apply Hdone; reflexivity|exact H1|exact H2].
  - split.
    + intros (r & Hr & _). discriminate.
    + intros (fd & Hin & Hcov). eapply find_none in Ef; [|exact Hin]. cbv beta in Ef. congruence.
Qed.

(* ------------------------------------------------------------------ header path *)
(* whatever the chosen table row designates: lookup -> pointer_to_offset -> fde_from_offset; that FDE's
   table is used when it covers the address, NoUnwindInfoForAddress otherwise — no matter which other
   FDEs (overlapping or not) the section holds *)
Lemma hdr_uwi_designated_lem : forall dbg cp hb h c aa sec cx a,
  asz_ok (sc_asz c) ->
  fst (hdr_unwind_info_for_address dbg cp hb h c aa sec cx a) =
  (let* p := hdr_lookup dbg hb h a in
   let* o := pointer_to_offset dbg h p in
   let* fd := fde_from_offset dbg c sec o in
   if covers fd a then
     let f := fde_in_of (sc_be c) aa fd in
     pick a (fst (fst (fde_rows dbg cp f cx))) (snd (fst (fde_rows dbg cp f cx)))
   else Err ENoUnwindInfoForAddress).
Proof.
  intros dbg cp hb h c aa sec cx a Hc. rewrite hdr_uwi_compose. unfold hdr_fde_for_address.
  destruct (hdr_lookup dbg hb h a) as [p|e| |]; try reflexivity. cbn [bind].
  destruct (pointer_to_offset dbg h p) as [o|e| |]; try reflexivity. cbn [bind].
  destruct (fde_from_offset dbg c sec o) as [fd|e| |] eqn:Efd; try reflexivity. cbn [bind].
  rewrite fde_contains_covers.
  - cbn [bind]. destruct (covers fd a); reflexivity.
  - unfold fde_from_offset in Efd. apply bind_ok in Efd as (p0 & _ & Efd). eapply fde_parse_asz; eassumption.
Qed.

(* for a well-formed header over disjoint FDEs both paths return the same *)
Lemma uwi_paths_agree_lem : forall dbg cp hb h c aa sec cx a items fds size o0 rows locs extra tfds e,
  asz_ok (sc_asz c) ->
  entries_all dbg c sec = Ok (items, None) ->
  parsed_fdes dbg c sec items = Some fds ->
  wf_hdr dbg hb h fds size o0 rows locs extra tfds e ->
  hdr_unwind_info_for_address dbg cp hb h c aa sec cx a = unwind_info_for_address dbg cp c aa sec cx a.
Proof.
  intros. unfold hdr_unwind_info_for_address, unwind_info_for_address.
  erewrite hdr_lookup_agrees_lem by eassumption. reflexivity.
Qed.

(* no panic, fuel suffices: every section, every address *)
Lemma uwi_total_lem : forall dbg cp c aa sec cx a,
  asz_ok (sc_asz c) -> cap_full (max_stack cp) 0 = false ->
  fst (unwind_info_for_address dbg cp c aa sec cx a) <> Panic /\
  fst (unwind_info_for_address dbg cp c aa sec cx a) <> OutOfFuel.
Proof.
  intros dbg cp c aa sec cx a Hc Hcap. rewrite uwi_compose.
  pose proof (fde_for_address_safe_lem dbg c sec a Hc) as [S1 S2].
  destruct (fde_for_address dbg c sec a) as [fd|e| |]; try congruence; [|split; discriminate].
  cbv zeta. unfold pick.
  destruct (find _ _); [split; discriminate|].
  pose proof (R.no_panic_thm dbg cp (fde_in_of (sc_be c) aa fd) cx Hcap) as [N1 N2].
  destruct (snd (fst (fde_rows dbg cp (fde_in_of (sc_be c) aa fd) cx))); cbn [outcome_err]; try congruence;
    split; discriminate.
Qed.

(* ------------------------------------------------------------------ DW_CFA_set_loc under a pointer encoding *)
(* the target of DW_CFA_set_loc in an FDE whose CIE gives an address encoding is the pointer the
   LSB definition assigns to the operand bytes (section bases, field offset, no function base),
   and an indirect encoding is refused *)
Lemma set_loc_roundtrip_lem : forall dbg c f enc o v rest ind a,
  fde_addr_enc f = Some enc ->
  enc < 256 -> asz_ok (ci_asz (fd_cie f)) -> CfiSpec.valid_spec enc = true -> enc <> 255 ->
  CfiSpec.value_fits (CfiSpec.fmt_of enc) (ci_asz (fd_cie f)) v = true ->
  CfiSpec.ptr_spec enc (ci_asz (fd_cie f)) (pb_of (mkpp (sc_bases c) None (ci_asz (fd_cie f)))) o v = Some (ind, a) ->
  parse_set_loc dbg c f
    (mkrd o (CfiSpec.enc_value (CfiSpec.fmt_of enc) (ci_asz (fd_cie f)) (sc_be c) v ++ rest)) =
  if ind then Err EUnsupportedIndirectPointer
  else Ok (a, mkrd (o + nlen (CfiSpec.enc_value (CfiSpec.fmt_of enc) (ci_asz (fd_cie f)) (sc_be c) v)) rest).
Proof.
  intros dbg c f enc o v rest ind a He H256 Hasz Hv Hn Hfit Hps. unfold parse_set_loc. rewrite He.
  pose proof (pep_enc dbg (sc_be c) enc (mkpp (sc_bases c) None (ci_asz (fd_cie f))) o v rest ind a) as Hp.
  cbn [pp_asz] in Hp. rewrite Hp by assumption.
  cbn [bind]. destruct ind; reflexivity.
Qed.

(* without an encoding it is a plain address of the CIE's address size *)
Lemma set_loc_plain_lem : forall dbg c f o v rest,
  fde_addr_enc f = None -> asz_ok (ci_asz (fd_cie f)) -> v < 2 ^ (8 * ci_asz (fd_cie f)) ->
  parse_set_loc dbg c f
    (mkrd o (CfiSpec.un_bytes (N.to_nat (ci_asz (fd_cie f))) (sc_be c) v ++ rest)) =
  Ok (v, mkrd (o + ci_asz (fd_cie f)) rest).
Proof.
  intros dbg c f o v rest He Hasz Hv. unfold parse_set_loc. rewrite He.
  rewrite read_address_ok_fun by exact Hasz.
  rewrite (lift_app _ _ _ _ _ v) by (apply read_un_small; rewrite N2Nat.id, pow256; exact Hv).
  rewrite nlen_un_bytes, N2Nat.id. reflexivity.
Qed.

(* on every reader: the errors of the encoded form are those of parse_encoded_pointer, then direct() *)
Lemma set_loc_all_inputs_lem : forall dbg c f enc r,
  fde_addr_enc f = Some enc -> enc < 256 -> asz_ok (ci_asz (fd_cie f)) ->
  parse_set_loc dbg c f r =
  let pp := mkpp (sc_bases c) None (ci_asz (fd_cie f)) in
  if negb (CfiSpec.valid_spec enc) then Err EUnknownPointerEncoding
  else if enc =? 255 then Err ECannotParseOmitPointerEncoding
  else match CfiSpec.base_spec (CfiSpec.app_of enc) (pp_asz pp) (pb_of pp) (off r) with
       | None => Err (base_err (CfiSpec.app_of enc))
       | Some base =>
           let* (offset, r1) := parse_encoded_value dbg (sc_be c) enc pp r in
           if negb (CfiSpec.ind_of enc =? 0) then Err EUnsupportedIndirectPointer
           else Ok ((base + offset) mod 2 ^ (8 * pp_asz pp), r1)
       end.
Proof.
  intros dbg c f enc r He H256 Hasz. unfold parse_set_loc. rewrite He. cbv zeta.
  rewrite pep_char by assumption.
  destruct (negb (CfiSpec.valid_spec enc)); [reflexivity|].
  destruct (enc =? 255); [reflexivity|].
  destruct (CfiSpec.base_spec _ _ _ _) as [base|]; [|reflexivity].
  destruct (parse_encoded_value dbg (sc_be c) enc _ r) as [[offset r1]| | |]; cbn [bind]; try reflexivity.
  destruct (negb (CfiSpec.ind_of enc =? 0)); reflexivity.
Qed.

(* ------------------------------------------------------------------ statements scoped to the adapter's domain *)
(* every FDE of the section decodes DW_CFA_set_loc operands as plain addresses (no 'R', or no set_loc reached) *)
Definition section_setloc_plain (dbg : bool) (c : scfg) (aa : bool) (fds : list CfiRd.fde) : Prop :=
  forall fd, In fd fds -> setloc_plain dbg (sc_be c) aa fd = true.

Lemma uwi_spec_scoped_lem : forall dbg cp c aa sec cx a items fds,
  asz_ok (sc_asz c) -> cap_full (max_stack cp) 0 = false ->
  entries_all dbg c sec = Ok (items, None) ->
  parsed_fdes dbg c sec items = Some fds ->
  section_setloc_plain dbg c aa fds ->
  match find (fun f => covers f a) fds with
  | None => fst (unwind_info_for_address dbg cp c aa sec cx a) = Err ENoUnwindInfoForAddress
  | Some fd =>
      let f := fde_in_of (sc_be c) aa fd in
      uwi_result_spec a (fst (R.spec_of dbg cp f)) (snd (R.spec_of dbg cp f))
                      (fst (unwind_info_for_address dbg cp c aa sec cx a))
  end.
Proof. intros dbg cp c aa sec cx a items fds H1 H2 H3 H4 _. apply (uwi_spec_lem dbg cp c aa sec cx a items fds); assumption. Qed.

(* ------------------------------------------------------------------ instances for Properties/C05.v *)
(* .eh_frame at 0x1000, CIE "zR" with absolute udata4 FDE addresses and initial instructions
   def_cfa r7+8; offset r16 at cfa-8. Two OVERLAPPING FDEs: [0x2000,0x2040) with three rows and
   [0x2008,0x206c) with one. *)
Definition ex_uw_cfg : scfg := mkcfg true false 8 (mksb (Some 4096) None None).
Definition ex_wires (l : list wire) : list byte := concat (map (enc_wire false 8) l).
Definition ex_uw_es : list CfiSpec.entry :=
  [ CfiSpec.ECie (CfiSpec.mkcie_rec false 1 true [CfiSpec.AR 3] 8 1 (-8) 16 (ex_wires [WDefCfa 7 8; WOffset0 16 1]));
    CfiSpec.EFde (CfiSpec.mkfde_rec false 0%nat 8192 64 0 []
                    (ex_wires [WAdvanceLoc0 4; WDefCfaOffset 16; WAdvanceLoc0 8; WOffset0 3 2]));
    CfiSpec.EFde (CfiSpec.mkfde_rec false 0%nat 8200 100 0 [] (ex_wires [WDefCfaOffset 99])) ].
Definition ex_uw_sec : list byte := CfiSpec.enc_section (sp_of ex_uw_cfg) ex_uw_es.
Definition ex_uw_fds : list CfiRd.fde :=
  Eval vm_compute in
    match entries_all true ex_uw_cfg ex_uw_sec with
    | Ok (items, _) => match parsed_fdes true ex_uw_cfg ex_uw_sec items with Some l => l | None => [] end
    | _ => []
    end.
Definition ex_heap : caps := {| max_stack := Some 4%nat; max_rules := Some 192%nat |}.
Definition ex_ctx : ctx := {| c_stack := []; c_initial_rule := None; c_init := true |}.

(* an FDE whose first instruction is DW_CFA_set_loc under pcrel|sdata4 *)
Definition ex_sl_es : list CfiSpec.entry :=
  [ CfiSpec.ECie (CfiSpec.mkcie_rec false 1 true [CfiSpec.AR 27] 8 1 (-8) 16 []);
    CfiSpec.EFde (CfiSpec.mkfde_rec false 0%nat 256 64 0 []
                    (n2b 1 :: CfiSpec.enc_value 11 8 false 512 ++ [n2b 0])) ].
Definition ex_sl_sec : list byte := CfiSpec.enc_section (sp_of ex_uw_cfg) ex_sl_es.
