(* Proofs/LineRtBytes.v — the byte level of the line WRITER model (Model/LineWr.v: insn_write, insns_write)
   is the reference encoding of the line READER's specification (Spec/LineSpec.v: enc_insn, enc_prog),
   under the translation `tr` of writer instructions into specification instructions. Hence (C04's
   insn_roundtrip) LineRd.parse_insn decodes every written instruction. Part of property C13. *)
From Coq Require Import List NArith ZArith Bool Lia ZifyBool ZifyN ZifyNat.
From Coq.Strings Require Import Byte.
Require Import GV.Base.Res GV.Base.Byt GV.Base.Ints GV.Model.Leb GV.Model.Prim GV.Spec.LebSpec.
Require Import GV.Spec.LineSpec GV.Model.LineRd GV.Proofs.LebProofs GV.Proofs.LineRdRefine GV.Proofs.LineRdInsn.
Require GV.Model.LineWr.
Import ListNotations.
Local Open Scope N_scope.

Local Ltac Zify.zify_post_hook ::= Z.div_mod_to_equations.

Module W := GV.Model.LineWr.

(* ------------------------------------------------------------------ LEB128 / fixed-width writers = reference encoders *)

Lemma enc_uleb_fuel_S g v :
  enc_uleb_fuel (S g) v = if v <? 128 then [n2b v] else n2b (128 + v mod 128) :: enc_uleb_fuel g (v / 128).
Proof. reflexivity. Qed.

Lemma write_uleb_fuel_enc : forall f g v, v < 128 * p128 f -> (f <= g)%nat ->
  write_uleb_fuel (S f) v = Ok (enc_uleb_fuel (S g) v).
Proof.
  induction f as [|f IH]; intros g v Hv Hg; rewrite write_uleb_fuel_S, enc_uleb_fuel_S.
  - cbn [p128] in Hv. assert (Hq : v / 128 = 0) by (apply N.div_small; lia).
    assert (Hm : v mod 128 = v) by (apply N.mod_small; lia). rewrite Hq, Hm. cbn [N.eqb].
    destruct (N.ltb_spec v 128); [reflexivity|lia].
  - cbn [p128] in Hv. pose proof (p128_pos f) as Hp.
    destruct (N.eqb_spec (v / 128) 0) as [Hq|Hq].
    + assert (v < 128) by lia. assert (Hm : v mod 128 = v) by (apply N.mod_small; lia). rewrite Hm.
      destruct (N.ltb_spec v 128); [reflexivity|lia].
    + destruct (N.ltb_spec v 128) as [Hc|_]; [lia|].
      destruct g as [|g]; [lia|].
      rewrite (IH g (v / 128)) by lia. cbn [bind].
      destruct (cont_byte (v mod 128)) as (Hlor & _); [lia|]. rewrite Hlor.
      now rewrite N.add_comm.
Qed.

Lemma write_uleb128_enc v : v < two64 -> write_uleb128 v = Ok (enc_uleb v).
Proof.
  intros Hv. unfold write_uleb128, enc_uleb. apply (write_uleb_fuel_enc 9 18).
  - unfold two64 in Hv. change (128 * p128 9) with 1180591620717411303424. lia.
  - lia.
Qed.

Lemma enc_sleb_fuel_S g z :
  enc_sleb_fuel (S g) z =
  if (((z / 128 =? 0) && (z mod 128 <? 64)) || ((z / 128 =? -1) && (64 <=? z mod 128)))%Z
  then [n2b (Z.to_N (z mod 128))]
  else n2b (128 + Z.to_N (z mod 128)) :: enc_sleb_fuel g (z / 128)%Z.
Proof. reflexivity. Qed.

Lemma write_sleb_fuel_enc : forall f g z,
  (- 64 * Z.of_N (p128 f) <= z < 64 * Z.of_N (p128 f))%Z -> (f <= g)%nat ->
  write_sleb_fuel (S f) z = Ok (enc_sleb_fuel (S g) z).
Proof.
  induction f as [|f IH]; intros g z Hz Hg; rewrite write_sleb_fuel_S, enc_sleb_fuel_S.
  - cbn [p128] in Hz.
    destruct ((-64 <=? z) && (z <? 64))%Z eqn:E; [|lia].
    destruct (((z / 128 =? 0) && (z mod 128 <? 64)) || ((z / 128 =? -1) && (64 <=? z mod 128)))%Z eqn:E2;
      [reflexivity|lia].
  - cbn [p128] in Hz. pose proof (p128_pos f) as Hp.
    destruct ((-64 <=? z) && (z <? 64))%Z eqn:E;
    destruct (((z / 128 =? 0) && (z mod 128 <? 64)) || ((z / 128 =? -1) && (64 <=? z mod 128)))%Z eqn:E2;
      try reflexivity; try lia.
    destruct g as [|g]; [lia|].
    rewrite (IH g (z / 128)%Z) by lia. cbn [bind]. now rewrite N.add_comm.
Qed.

Lemma write_sleb128_enc z : (-9223372036854775808 <= z < 9223372036854775808)%Z ->
  write_sleb128 z = Ok (enc_sleb z).
Proof.
  intros Hz. unfold write_sleb128, enc_sleb. apply (write_sleb_fuel_enc 9 18).
  - change (p128 9) with 9223372036854775808. lia.
  - lia.
Qed.

Lemma le_bytes_enc n : forall v, le_bytes n v = le_enc n v.
Proof. induction n as [|n IH]; intros v; cbn; [reflexivity|now rewrite IH]. Qed.

Lemma enc_un_fixed n be v : enc_un n be v = enc_fixed n be v.
Proof. unfold enc_un, enc_fixed, be_bytes. now rewrite le_bytes_enc. Qed.

Lemma le_enc_length n : forall v, length (le_enc n v) = n.
Proof. induction n as [|n IH]; intros v; cbn; [reflexivity|now rewrite IH]. Qed.

Lemma enc_fixed_length n be v : length (enc_fixed n be v) = n.
Proof. unfold enc_fixed. destruct be; [rewrite rev_length|]; apply le_enc_length. Qed.

Definition size_ok (size : N) : Prop := size = 1 \/ size = 2 \/ size = 4 \/ size = 8.

Lemma write_udata_enc be v size : size_ok size -> v < 256 ^ size ->
  write_udata be v size = Ok (enc_fixed (N.to_nat size) be v).
Proof.
  intros [-> | [-> | [-> | ->]]] Hv; unfold write_udata; cbn [N.eqb Pos.eqb];
    rewrite !enc_un_fixed.
  - change (256 ^ 1) with 256 in Hv. destruct (N.ltb_spec v 256); [reflexivity|lia].
  - change (256 ^ 2) with 65536 in Hv. unfold two16. destruct (N.ltb_spec v 65536); [reflexivity|lia].
  - change (256 ^ 4) with 4294967296 in Hv. unfold two32. destruct (N.ltb_spec v 4294967296); [reflexivity|lia].
  - reflexivity.
Qed.

(* ------------------------------------------------------------------ instructions *)

(* writer instruction -> specification instruction (file ids as written: FileId::raw) *)
Definition tr (ver : N) (i : W.linsn) : insn :=
  match i with
  | W.ISpecial v => ISpecial v
  | W.ICopy => ICopy
  | W.IAdvancePc n => IAdvancePc n
  | W.IAdvanceLine d => IAdvanceLine d
  | W.ISetFile f => ISetFile (if ver <=? 4 then f + 1 else f)
  | W.ISetColumn c => ISetColumn c
  | W.INegateStatement => INegateStmt
  | W.ISetBasicBlock => ISetBasicBlock
  | W.IConstAddPc => IConstAddPc
  | W.ISetPrologueEnd => ISetPrologueEnd
  | W.ISetEpilogueBegin => ISetEpilogueBegin
  | W.ISetIsa i => ISetIsa i
  | W.IEndSequence => IEndSequence
  | W.ISetAddress (W.AConst a) => ISetAddress a
  | W.ISetAddress (W.ASym _ _) => ISetAddress 0
  | W.ISetDiscriminator d => ISetDiscriminator d
  end.

(* operands the writer can encode: u64 / i64 fields, special opcodes that are bytes, constant addresses
   that fit the address size *)
Definition insn_enc_ok (e : W.enc) (i : W.linsn) : Prop :=
  match i with
  | W.ISpecial v => v < 256
  | W.IAdvancePc n | W.ISetColumn n | W.ISetIsa n | W.ISetDiscriminator n => n < two64
  | W.IAdvanceLine d => (-9223372036854775808 <= d < 9223372036854775808)%Z
  | W.ISetFile f => f + 1 < two64
  | W.ISetAddress (W.AConst a) => size_ok (W.e_addr_size e) /\ a < 256 ^ (W.e_addr_size e)
  | W.ISetAddress (W.ASym _ _) => False
  | _ => True
  end.

Lemma uleb1 : enc_uleb 1 = [x01]. Proof. reflexivity. Qed.

Lemma enc_uleb_len_lt v : v < two64 -> N.of_nat (length (enc_uleb v)) < 11.
Proof.
  intros Hv. destruct (write_uleb128_read v Hv) as (enc & Hw & _ & _ & Hr & _).
  rewrite write_uleb128_enc in Hw by exact Hv. inversion Hw; subst enc. lia.
Qed.

(* LineInstruction::write produces exactly the reference encoding of the translated instruction *)
Lemma insn_write_enc dbg be e h i :
  h_addr_size h = W.e_addr_size e -> insn_enc_ok e i ->
  W.insn_write dbg be e i = Ok (enc_insn be h (tr (W.e_version e) i)).
Proof.
  intros Hasz Hok. destruct i; cbn [W.insn_write tr enc_insn insn_enc_ok] in *; try reflexivity.
  - rewrite write_uleb128_enc by exact Hok. reflexivity.
  - rewrite write_sleb128_enc by exact Hok. reflexivity.
  - unfold W.fileid_raw. destruct (W.e_version e <=? 4).
    + unfold chk_add. change (2 ^ 64) with two64. destruct (N.ltb_spec (f + 1) two64); [|lia]. cbn [bind].
      rewrite write_uleb128_enc by exact Hok. reflexivity.
    + cbn [bind]. rewrite write_uleb128_enc by (unfold two64 in *; lia). reflexivity.
  - rewrite write_uleb128_enc by exact Hok. reflexivity.
  - rewrite write_uleb128_enc by exact Hok. reflexivity.
  - destruct a as [a|s ad]; [|contradiction]. destruct Hok as [Hs Ha].
    assert (Hlt : 1 + W.e_addr_size e < two64) by (unfold two64; destruct Hs as [-> | [-> | [-> | ->]]]; lia).
    rewrite write_uleb128_enc by exact Hlt. cbn [bind].
    rewrite write_udata_enc by assumption. cbn [bind].
    cbn [enc_insn]. unfold enc_ext, len_n. cbn [length]. rewrite enc_fixed_length. rewrite Hasz.
    replace (N.of_nat (S (N.to_nat (W.e_addr_size e)))) with (1 + W.e_addr_size e) by lia.
    reflexivity.
  - rewrite write_uleb128_enc by exact Hok. cbn [bind].
    pose proof (enc_uleb_len_lt d Hok) as Hl.
    rewrite write_uleb128_enc by (unfold two64; lia). cbn [bind].
    cbn [enc_insn]. unfold enc_ext, len_n. cbn [length].
    replace (N.of_nat (S (length (enc_uleb d)))) with (1 + N.of_nat (length (enc_uleb d))) by lia.
    reflexivity.
Qed.

Lemma insns_write_enc dbg be e h : forall is,
  h_addr_size h = W.e_addr_size e -> Forall (insn_enc_ok e) is ->
  W.insns_write dbg be e is = Ok (enc_prog be h (map (tr (W.e_version e)) is)).
Proof.
  induction is as [|i is IH]; intros Hasz Hok; [reflexivity|].
  inversion Hok as [|x xs Hi His]; subst. cbn [W.insns_write map].
  rewrite (insn_write_enc dbg be e h i Hasz Hi). cbn [bind]. rewrite (IH Hasz His). cbn [bind].
  reflexivity.
Qed.

(* what the header must say for the written instructions to be decodable: gimli's fixed opcode_base 13
   and standard_opcode_lengths, a real address size *)
Definition hdr_matches (e : W.enc) (l : W.lenc) (h : header) : Prop :=
  h_version h = W.e_version e /\ h_addr_size h = W.e_addr_size e /\
  h_min_inst_len h = W.le_min_len l /\ h_max_ops h = W.le_max_ops l /\
  h_default_is_stmt h = W.le_default_is_stmt l /\ h_line_base h = W.le_line_base l /\
  h_line_range h = W.le_line_range l /\ h_opcode_base h = 13 /\ h_std_lengths h = W.std_opcode_lengths.

Definition enc_params_ok (e : W.enc) (l : W.lenc) : Prop :=
  size_ok (W.e_addr_size e) /\ 1 <= W.le_min_len l < 256 /\ 1 <= W.le_max_ops l < 256 /\
  1 <= W.le_line_range l < 256 /\ (-128 <= W.le_line_base l < 128)%Z.

Lemma hdr_matches_pwf e l h : hdr_matches e l h -> enc_params_ok e l -> pwf h.
Proof.
  intros (Hv & Ha & Hm & Ho & Hd & Hb & Hr & Hob & Hs) (Hsz & Hmil & Hmops & Hlr & Hlb).
  constructor; try (rewrite ?Hm, ?Ho, ?Hr, ?Hob, ?Hb; lia).
  - rewrite Ha. destruct Hsz as [-> | [-> | [-> | ->]]]; lia.
  - rewrite Hs, Hob. reflexivity.
Qed.

Lemma addr_mask_pow h : (addr_mask h = Z.of_N (256 ^ h_addr_size h) - 1)%Z.
Proof.
  unfold addr_mask. rewrite N2Z.inj_pow. change (Z.of_N 256) with (2 ^ 8)%Z.
  rewrite <- Z.pow_mul_r by lia. reflexivity.
Qed.

(* the translated instruction is well-formed for C04's decoder theorem *)
Lemma tr_insn_wf e l h i :
  hdr_matches e l h -> enc_params_ok e l -> insn_enc_ok e i ->
  (match i with W.ISpecial v => 13 <= v | _ => True end) ->
  insn_wf h (tr (W.e_version e) i) = true.
Proof.
  intros (Hv & Ha & Hm & Ho & Hd & Hb & Hr & Hob & Hs) (Hsz & _) Hok H13.
  destruct i; cbn [tr insn_wf insn_enc_ok] in *; unfold std_known, u64b; rewrite ?Hob;
    try reflexivity; unfold two64 in *; try lia.
  - destruct (W.e_version e <=? 4); lia.
  - destruct a as [a|s ad]; [|contradiction]. destruct Hok as [_ Hlt]. cbn [tr insn_wf].
    rewrite addr_mask_pow, Ha.
    assert (E : ((W.e_addr_size e =? 1) || (W.e_addr_size e =? 2) || (W.e_addr_size e =? 4) || (W.e_addr_size e =? 8)) = true)
      by (destruct Hsz as [-> | [-> | [-> | ->]]]; reflexivity).
    rewrite E. cbn [andb]. lia.
Qed.

(* every written instruction is decoded by LineRd.parse_insn to its translation *)
Theorem insn_bytes_roundtrip dbg be e l h i bytes rest :
  hdr_matches e l h -> enc_params_ok e l -> insn_enc_ok e i ->
  (match i with W.ISpecial v => 13 <= v | _ => True end) ->
  W.insn_write dbg be e i = Ok bytes ->
  parse_insn dbg be h (bytes ++ rest) = Ok (tr (W.e_version e) i, rest).
Proof.
  intros Hm Hp Hok H13 Hw.
  pose proof Hm as (_ & Ha & _).
  rewrite (insn_write_enc dbg be e h i Ha Hok) in Hw. inversion Hw; subst bytes.
  apply insn_roundtrip_lemma; [eapply hdr_matches_pwf; eassumption|].
  eapply tr_insn_wf; eassumption.
Qed.
