(* Proofs/ConvertLineInv.v — property C12: invariants of the converter's private row threaded through read_row:
   the line register stays below 2^64 and, for maximum_operations_per_instruction = 1, op_index stays 0; hence every
   Row event has line < 2^64 and (max_ops = 1) op_index = 0 — two of the conjuncts of C13's script_ok. *)
From Coq Require Import List NArith ZArith Bool Lia.
From Coq.Strings Require Import Byte.
Require Import GV.Base.Res GV.Base.Byt GV.Base.Ints GV.Spec.LineSpec GV.Model.LineRd GV.Model.LineWr
               GV.Model.ConvertLine GV.Proofs.ConvertLineProofs.
Require GV.Proofs.LineWrSeqProofs.
Import ListNotations.
Local Open Scope N_scope.

Section Inv.
Variables (dbg be : bool) (sx : secs) (h : header).

Definition RP (r : row) : Prop := r_line r < two64 /\ (h_max_ops h = 1 -> r_opi r = 0).

Lemma RP_new : RP (row_new h).
Proof. split; [reflexivity|intros _; reflexivity]. Qed.

Lemma RP_reset r : RP r -> RP (row_reset h r).
Proof. intros [A B]. unfold row_reset. destruct (r_end r); [exact RP_new|split; [exact A|exact B]]. Qed.

Lemma RP_line_advance r z : RP r -> RP (apply_line_advance r z).
Proof.
  intros [A B]. unfold apply_line_advance.
  destruct (z <? 0)%Z; [destruct (Z.abs_N z <=? r_line r) eqn:E|]; split; cbn; try exact B.
  - apply N.leb_le in E. lia.
  - reflexivity.
  - apply wrap64_lt.
Qed.

Lemma RP_aoa r adv r' e : RP r -> apply_operation_advance dbg h r adv = Ok (r', e) -> RP r'.
Proof.
  intros [A B]. unfold apply_operation_advance.
  destruct (r_tomb r); [intros E; inversion E; subst; split; assumption|].
  destruct (h_max_ops h =? 1) eqn:E1.
  - cbn [bind]. destruct (add_sized_g dbg (r_addr (set_opi r 0)) (wrap64 (h_min_inst_len h * adv)) (h_addr_size h));
      intros E; inversion E; subst; split; cbn; try exact A; intros _; reflexivity.
  - apply N.eqb_neq in E1. destruct (h_max_ops h =? 0); [discriminate|]. cbn [bind].
    match goal with |- context [add_sized_g ?a ?b ?c ?d] => destruct (add_sized_g a b c d) end;
      intros E; inversion E; subst; split; cbn; try exact A; intros M; contradiction.
Qed.

Lemma RP_adv_result r adv k r' x :
  RP r -> adv_result (apply_operation_advance dbg h r adv) k = Ok (r', x) -> RP r'.
Proof.
  intros P. unfold adv_result.
  destruct (apply_operation_advance dbg h r adv) as [[r0 [e|]]|e| |] eqn:EA; cbn; intros E; inversion E; subst;
    eapply RP_aoa; eassumption.
Qed.

Lemma RP_execute r i r' x : RP r -> execute dbg h r i = Ok (r', x) -> RP r'.
Proof.
  intros P. pose proof P as [A B].
  destruct i; cbn [execute]; try (intros E; inversion E; subst; split; cbn; assumption).
  - destruct (adjust_opcode dbg h op); cbn [bind]; try discriminate.
    destruct (h_line_range h =? 0); [discriminate|]. apply RP_adv_result. apply RP_line_advance. exact P.
  - apply RP_adv_result. exact P.
  - intros E; inversion E; subst. apply RP_line_advance. exact P.
  - destruct (adjust_opcode dbg h 255); cbn [bind]; try discriminate.
    destruct (h_line_range h =? 0); [discriminate|]. apply RP_adv_result. exact P.
  - destruct (r_tomb r); [intros E; inversion E; subst; exact P|].
    destruct (add_sized_g dbg (r_addr r) n (h_addr_size h)); intros E; inversion E; subst;
      [split; cbn; [exact A|intros _; reflexivity]|exact P].
  - destruct (a <? r_addr r); cbn [bind].
    + intros E; inversion E; subst. split; cbn; assumption.
    + destruct (min_tombstone_g dbg (h_addr_size h)) as [mt|e| |]; cbn [bind]; try discriminate.
      destruct (mt <=? a); intros E; inversion E; subst; split; cbn; try assumption; intros _; reflexivity.
Qed.

(* what a returned event carries *)
Definition EVP (o : res (option clrow)) : Prop :=
  match o with
  | Ok (Some (CRRow w)) => w_line w < two64 /\ (h_max_ops h = 1 -> w_op_index w = 0)
  | _ => True
  end.

Lemma ret_row_RP c : RP (cl_row c) -> RP (cl_row (snd (ret_row h c))) /\ EVP (fst (ret_row h c)).
Proof.
  intros P. unfold ret_row. pose proof (convert_row_exact h c) as X.
  destruct (convert_row h c) as [w|e| |]; cbn; split; try exact P; try exact I.
  destruct X as ((_ & Eo & El & _) & _). rewrite El, Eo. exact P.
Qed.

Lemma read_loop_RP : forall f c tomb, RP (cl_row c) ->
  RP (cl_row (snd (read_loop f dbg be sx h c tomb))) /\ EVP (fst (read_loop f dbg be sx h c tomb)).
Proof.
  induction f as [|f IH]; intros c tomb P; [split; [exact P|exact I]|].
  cbn [read_loop]. destruct (cl_inp c) as [|b input]; [split; [exact P|exact I]|].
  destruct (parse_insn dbg be h (b :: input)) as [[i rest]|e| |]; try (split; [exact P|exact I]).
  set (c1 := with_inp rest c).
  assert (D : forall i0,
    let o := (match execute dbg h (cl_row c1) i0 with
    | Err e => (Err e, c1) | Panic => (Panic, c1) | OutOfFuel => (OutOfFuel, c1)
    | Ok (r', XErr e) => (Err e, with_row r' c1)
    | Ok (r', XNoRow) => read_loop f dbg be sx h (with_row r' c1) tomb
    | Ok (r', XRow) =>
        let c := with_row r' c1 in
        if tomb then
          let c1 := if r_end r' then with_addr None c else c in
          read_loop f dbg be sx h (with_row (row_reset h r') c1) (if r_end r' then false else tomb)
        else if r_end r' then
          match convert_address_offset c with
          | Ok ao => (Ok (Some (CREndSequence ao)), c) | Err e => (Err e, c)
          | Panic => (Panic, c) | OutOfFuel => (OutOfFuel, c)
          end
        else
          match cl_addr c with
          | Some a => (Ok (Some (CRSetAddress a)), with_st CSConvertRow (with_addr None c))
          | None => ret_row h (with_st CSReadRow c)
          end
    end : rr_out) in RP (cl_row (snd o)) /\ EVP (fst o)).
  { intros i0. cbv zeta.
    destruct (execute dbg h (cl_row c1) i0) as [[r' x]|e| |] eqn:EX; try (split; [exact P|exact I]).
    assert (P' : RP r') by (eapply RP_execute; [exact P|exact EX]).
    destruct x as [| |e]; [| |split; [exact P'|exact I]].
    - destruct tomb.
      + destruct (r_end r'); apply IH; apply RP_reset; exact P'.
      + destruct (r_end r').
        * destruct (convert_address_offset (with_row r' c1)); split; try exact P'; exact I.
        * destruct (cl_addr (with_row r' c1)); [split; [exact P'|exact I]|].
          apply ret_row_RP. exact P'.
    - apply IH. exact P'. }
  destruct i; try (match goal with |- context [execute dbg h _ ?i0] => exact (D i0) end).
  - destruct (execute dbg h (cl_row c1) (LineSpec.ISetAddress 0)) as [[r' x]|e| |] eqn:EX; try (split; [exact P|exact I]).
    assert (P' : RP r') by (eapply RP_execute; [exact P|exact EX]).
    destruct x as [| |e]; try (split; [exact P'|exact I]);
      (destruct (ones_sized dbg (h_addr_size h)) as [ta|e1| |]; try (split; [exact P'|exact I]); cbv zeta;
       match goal with |- context [N.eqb ?x ta] => destruct (N.eqb x ta) end; apply IH; exact P').
  - destruct (convert_file sx (p_enc (cl_prog c1)) (cl_dirs c1) (cl_ls c1) f0) as [[[[name d] info] ls']|e| |];
      try (split; [exact P|exact I]).
    destruct (LineWr.add_file (cl_prog c1) name d info) as [[p' id]|e| |]; try (split; [exact P|exact I]).
    apply IH. exact P.
Qed.

Lemma read_row_RP c : RP (cl_row c) ->
  RP (cl_row (snd (read_row dbg be sx h c))) /\ EVP (fst (read_row dbg be sx h c)).
Proof.
  intros P. unfold read_row. destruct (cl_st c).
  - apply read_loop_RP. apply RP_reset. exact P.
  - destruct (cl_addr c); [split; [exact P|exact I]|]. apply ret_row_RP. exact P.
  - apply ret_row_RP. exact P.
Qed.

Definition ev_ok (ev : clrow) : Prop :=
  match ev with CRRow w => w_line w < two64 /\ (h_max_ops h = 1 -> w_op_index w = 0) | _ => True end.

Lemma events_loop_RP : forall f c, RP (cl_row c) -> Forall ev_ok (fst (fst (events_loop f dbg be sx h c))).
Proof.
  induction f as [|f IH]; intros c P; [constructor|].
  cbn [events_loop]. destruct (read_row_RP c P) as [P' E].
  destruct (read_row dbg be sx h c) as [[[ev|]|e| |] c']; cbn [fst snd] in *; try constructor.
  specialize (IH c' P'). destruct (events_loop f dbg be sx h c') as [[evs s] cf]. cbn [fst] in *.
  constructor; [destruct ev; exact E || exact I|exact IH].
Qed.

(* ---- alignment: every offset handed to the writer is a multiple of minimum_instruction_length *)
Definition aligned (mil ao : N) : Prop := mil <= 1 \/ ao mod mil = 0.
Definition EVA (mil : N) (o : res (option clrow)) : Prop :=
  match o with
  | Ok (Some (CRRow w)) => aligned mil (w_address_offset w)
  | Ok (Some (CREndSequence n)) => aligned mil n
  | _ => True
  end.
Definition MIL (mil : N) (c : cl) : Prop := le_min_len (p_lenc (cl_prog c)) = mil.

Lemma ret_row_AL mil c : MIL mil c -> MIL mil (snd (ret_row h c)) /\ EVA mil (fst (ret_row h c)).
Proof.
  intros M. unfold ret_row. pose proof (convert_row_exact h c) as X.
  destruct (convert_row h c) as [w|e| |]; cbn; split; try exact M; try exact I.
  destruct X as (_ & _ & _ & X). unfold aligned. rewrite <- M. exact X.
Qed.

Lemma read_loop_AL mil : forall f c tomb, MIL mil c ->
  MIL mil (snd (read_loop f dbg be sx h c tomb)) /\ EVA mil (fst (read_loop f dbg be sx h c tomb)).
Proof.
  induction f as [|f IH]; intros c tomb M; [split; [exact M|exact I]|].
  cbn [read_loop]. destruct (cl_inp c) as [|b input]; [split; [exact M|exact I]|].
  destruct (parse_insn dbg be h (b :: input)) as [[i rest]|e| |]; try (split; [exact M|exact I]).
  set (c1 := with_inp rest c).
  assert (D : forall i0,
    let o := (match execute dbg h (cl_row c1) i0 with
    | Err e => (Err e, c1) | Panic => (Panic, c1) | OutOfFuel => (OutOfFuel, c1)
    | Ok (r', XErr e) => (Err e, with_row r' c1)
    | Ok (r', XNoRow) => read_loop f dbg be sx h (with_row r' c1) tomb
    | Ok (r', XRow) =>
        let c := with_row r' c1 in
        if tomb then
          let c1 := if r_end r' then with_addr None c else c in
          read_loop f dbg be sx h (with_row (row_reset h r') c1) (if r_end r' then false else tomb)
        else if r_end r' then
          match convert_address_offset c with
          | Ok ao => (Ok (Some (CREndSequence ao)), c) | Err e => (Err e, c)
          | Panic => (Panic, c) | OutOfFuel => (OutOfFuel, c)
          end
        else
          match cl_addr c with
          | Some a => (Ok (Some (CRSetAddress a)), with_st CSConvertRow (with_addr None c))
          | None => ret_row h (with_st CSReadRow c)
          end
    end : rr_out) in MIL mil (snd o) /\ EVA mil (fst o)).
  { intros i0. cbv zeta.
    destruct (execute dbg h (cl_row c1) i0) as [[r' x]|e| |]; try (split; [exact M|exact I]).
    destruct x as [| |e]; [| |split; [exact M|exact I]].
    - destruct tomb.
      + destruct (r_end r'); apply IH; exact M.
      + destruct (r_end r').
        * pose proof (address_offset_exact (with_row r' c1)) as AO.
          destruct (convert_address_offset (with_row r' c1)); split; try exact M; try exact I.
          destruct AO as [_ AO]. unfold EVA, aligned. cbn [fst]. rewrite <- M. exact AO.
        * destruct (cl_addr (with_row r' c1)); [split; [exact M|exact I]|].
          apply ret_row_AL. exact M.
    - apply IH. exact M. }
  destruct i; try (match goal with |- context [execute dbg h _ ?i0] => exact (D i0) end).
  - destruct (execute dbg h (cl_row c1) (LineSpec.ISetAddress 0)) as [[r' x]|e| |]; try (split; [exact M|exact I]).
    destruct x as [| |e]; try (split; [exact M|exact I]);
      (destruct (ones_sized dbg (h_addr_size h)) as [ta|e1| |]; try (split; [exact M|exact I]); cbv zeta;
       match goal with |- context [N.eqb ?x ta] => destruct (N.eqb x ta) end; apply IH; exact M).
  - destruct (convert_file sx (p_enc (cl_prog c1)) (cl_dirs c1) (cl_ls c1) f0) as [[[[name d] info] ls']|e| |];
      try (split; [exact M|exact I]).
    destruct (LineWr.add_file (cl_prog c1) name d info) as [[p' id]|e| |] eqn:EA; try (split; [exact M|exact I]).
    destruct (LineWrSeqProofs.add_file_same_rows _ _ _ _ _ _ EA) as (_ & _ & _ & _ & _ & E2).
    apply IH. unfold MIL in *. cbn. rewrite E2. exact M.
Qed.

Lemma read_row_AL mil c : MIL mil c ->
  MIL mil (snd (read_row dbg be sx h c)) /\ EVA mil (fst (read_row dbg be sx h c)).
Proof.
  intros M. unfold read_row. destruct (cl_st c).
  - apply read_loop_AL. exact M.
  - destruct (cl_addr c); [split; [exact M|exact I]|]. apply ret_row_AL. exact M.
  - apply ret_row_AL. exact M.
Qed.

Definition ev_aligned (mil : N) (ev : clrow) : Prop :=
  match ev with
  | CRRow w => aligned mil (w_address_offset w) | CREndSequence n => aligned mil n | _ => True
  end.

Lemma events_loop_AL mil : forall f c, MIL mil c -> Forall (ev_aligned mil) (fst (fst (events_loop f dbg be sx h c))).
Proof.
  induction f as [|f IH]; intros c M; [constructor|].
  cbn [events_loop]. destruct (read_row_AL mil c M) as [M' E].
  destruct (read_row dbg be sx h c) as [[[ev|]|e| |] c']; cbn [fst snd] in *; try constructor.
  specialize (IH c' M'). destruct (events_loop f dbg be sx h c') as [[evs s] cf]. cbn [fst] in *.
  constructor; [destruct ev; exact E || exact I|exact IH].
Qed.

End Inv.

(* every Row event of the read_row iteration started from ConvertLineProgram::new's state *)
Lemma events_rows_bounded dbg be sx h c :
  cl_row c = row_new h ->
  Forall (ev_ok h) (fst (fst (events dbg be sx h c))).
Proof. intros E. unfold events. apply events_loop_RP. rewrite E. apply RP_new. Qed.

(* every offset of the iteration is a multiple of the converted program's minimum_instruction_length *)
Lemma events_offsets_aligned dbg be sx h c :
  Forall (ev_aligned (le_min_len (p_lenc (cl_prog c)))) (fst (fst (events dbg be sx h c))).
Proof. unfold events. apply events_loop_AL. reflexivity. Qed.

