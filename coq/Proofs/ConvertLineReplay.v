(* Proofs/ConvertLineReplay.v — property C12, ConvertLineProgram::convert = the read_row events replayed through the
   writer API (set_address / generate_row / end_sequence): read_row does not depend on the writer's row machinery
   (prev_row, row, instructions, in_sequence), only on the tables and encodings of the program. *)
From Coq Require Import List NArith ZArith Bool Lia.
From Coq.Strings Require Import Byte.
Require Import GV.Base.Res GV.Base.Byt GV.Base.Ints GV.Spec.LineSpec GV.Model.LineRd GV.Model.LineWr
               GV.Model.ConvertLine.
Require GV.Proofs.LineWrSeqProofs.
Import ListNotations.
Local Open Scope N_scope.

(* p's tables and encodings with q's row machinery *)
Definition swap_rows (q p : prog) : prog :=
  mkProg (p_enc p) (p_lenc p) (p_dirs p) (p_files p) (p_has_timestamp p) (p_has_size p) (p_has_md5 p) (p_has_source p)
         (p_prev q) (p_row q) (p_insns q) (p_in_seq q).
Definition reprog (q : prog) (c : cl) : cl := with_prog (swap_rows q (cl_prog c)) c.
Definition map_out {A} (q : prog) (o : res A * cl) : res A * cl := (fst o, reprog q (snd o)).

Lemma add_file_swap q p name d info :
  LineWr.add_file (swap_rows q p) name d info =
  match LineWr.add_file p name d info with
  | Ok (p', id) => Ok (swap_rows q p', id) | Err e => Err e | Panic => Panic | OutOfFuel => OutOfFuel
  end.
Proof.
  unfold LineWr.add_file. cbn [p_enc swap_rows p_files].
  destruct (match name with
            | LStr val =>
                if (e_version (p_enc p) <=? 4) && (match val with [] => true | _ => false end) then Panic
                else if has_nul val then Panic else Ok tt
            | _ => Ok tt
            end) as [[]|e| |]; cbn [bind]; try reflexivity.
  destruct (file_find (p_files p) (name, d) 0); destruct info; reflexivity.
Qed.

Section Replay.
Variables (dbg be : bool) (sx : secs) (h : header).

Lemma ret_row_reprog q c : ret_row h (reprog q c) = map_out q (ret_row h c).
Proof.
  unfold ret_row. change (convert_row h (reprog q c)) with (convert_row h c).
  destruct (convert_row h c); reflexivity.
Qed.

Lemma read_loop_reprog : forall f c tomb q,
  read_loop f dbg be sx h (reprog q c) tomb = map_out q (read_loop f dbg be sx h c tomb).
Proof.
  induction f as [|f IH]; intros c tomb q; [reflexivity|].
  cbn [read_loop]. change (cl_inp (reprog q c)) with (cl_inp c).
  destruct (cl_inp c) as [|b input]; [reflexivity|].
  destruct (parse_insn dbg be h (b :: input)) as [[i rest]|e| |]; try reflexivity.
  change (with_inp rest (reprog q c)) with (reprog q (with_inp rest c)).
  set (c1 := with_inp rest c).
  assert (D : forall i0,
    match execute dbg h (cl_row (reprog q c1)) i0 with
    | Err e => (Err e, reprog q c1) | Panic => (Panic, reprog q c1) | OutOfFuel => (OutOfFuel, reprog q c1)
    | Ok (r', XErr e) => (Err e, with_row r' (reprog q c1))
    | Ok (r', XNoRow) => read_loop f dbg be sx h (with_row r' (reprog q c1)) tomb
    | Ok (r', XRow) =>
        let c := with_row r' (reprog q c1) in
        if tomb then
          let c1 := if r_end r' then with_addr None c else c in
          read_loop f dbg be sx h (with_row (row_reset h r') c1) (if r_end r' then false else tomb)
        else if r_end r' then
          match convert_address_offset c with
          | Ok ao => (Ok (Some (CREndSequence ao)), c) | Err e => (Err e, c)
          | Panic => (Panic, c) | OutOfFuel => (OutOfFuel, c)
          end
        else
          match cl_addr c with
          | Some a => (Ok (Some (CRSetAddress a)), with_st CSConvertRow (with_addr None c))
          | None => ret_row h (with_st CSReadRow c)
          end
    end =
    map_out q
    (match execute dbg h (cl_row c1) i0 with
    | Err e => (Err e, c1) | Panic => (Panic, c1) | OutOfFuel => (OutOfFuel, c1)
    | Ok (r', XErr e) => (Err e, with_row r' c1)
    | Ok (r', XNoRow) => read_loop f dbg be sx h (with_row r' c1) tomb
    | Ok (r', XRow) =>
        let c := with_row r' c1 in
        if tomb then
          let c1 := if r_end r' then with_addr None c else c in
          read_loop f dbg be sx h (with_row (row_reset h r') c1) (if r_end r' then false else tomb)
        else if r_end r' then
          match convert_address_offset c with
          | Ok ao => (Ok (Some (CREndSequence ao)), c) | Err e => (Err e, c)
          | Panic => (Panic, c) | OutOfFuel => (OutOfFuel, c)
          end
        else
          match cl_addr c with
          | Some a => (Ok (Some (CRSetAddress a)), with_st CSConvertRow (with_addr None c))
          | None => ret_row h (with_st CSReadRow c)
          end
    end)).
  { intros i0. change (cl_row (reprog q c1)) with (cl_row c1).
    destruct (execute dbg h (cl_row c1) i0) as [[r' [| |e]]|e| |]; try reflexivity.
    - cbv zeta. destruct tomb.
      + destruct (r_end r'); match goal with |- _ = map_out _ (read_loop _ _ _ _ _ ?c0 ?t0) => exact (IH c0 t0 q) end.
      + destruct (r_end r').
        * change (convert_address_offset (with_row r' (reprog q c1))) with (convert_address_offset (with_row r' c1)).
          destruct (convert_address_offset (with_row r' c1)); reflexivity.
        * change (cl_addr (with_row r' (reprog q c1))) with (cl_addr c1).
          change (cl_addr (with_row r' c1)) with (cl_addr c1).
          destruct (cl_addr c1); [reflexivity|].
          exact (ret_row_reprog q (with_st CSReadRow (with_row r' c1))).
    - match goal with |- _ = map_out _ (read_loop _ _ _ _ _ ?c0 ?t0) => exact (IH c0 t0 q) end. }
  destruct i; try (match goal with |- context [execute dbg h _ ?i0] => exact (D i0) end).
  - (* ISetAddress *)
    change (cl_row (reprog q c1)) with (cl_row c1).
    destruct (execute dbg h (cl_row c1) (LineSpec.ISetAddress 0)) as [[r' [| |e]]|e| |]; try reflexivity;
      (destruct (ones_sized dbg (h_addr_size h)) as [ta|e1| |]; try reflexivity; cbv zeta;
       match goal with |- context [N.eqb ?x ta] => destruct (N.eqb x ta) end; match goal with |- _ = map_out _ (read_loop _ _ _ _ _ ?c0 ?t0) => exact (IH c0 t0 q) end).
  - (* IDefineFile *)
    change (p_enc (cl_prog (reprog q c1))) with (p_enc (cl_prog c1)).
    change (cl_dirs (reprog q c1)) with (cl_dirs c1). change (cl_ls (reprog q c1)) with (cl_ls c1).
    destruct (convert_file sx (p_enc (cl_prog c1)) (cl_dirs c1) (cl_ls c1) f0) as [[[[name d] info] ls']|e| |];
      try reflexivity.
    change (cl_prog (reprog q c1)) with (swap_rows q (cl_prog c1)). rewrite add_file_swap.
    destruct (LineWr.add_file (cl_prog c1) name d info) as [[p' id]|e| |]; try reflexivity.
    exact (IH (with_file p' ls' id c1) tomb q).
Qed.

Lemma read_row_reprog q c : read_row dbg be sx h (reprog q c) = map_out q (read_row dbg be sx h c).
Proof.
  unfold read_row. change (cl_st (reprog q c)) with (cl_st c). destruct (cl_st c).
  - exact (read_loop_reprog _ (with_row (row_reset h (cl_row c)) (with_addr None c)) false q).
  - change (cl_addr (reprog q c)) with (cl_addr c). destruct (cl_addr c); [reflexivity|].
    exact (ret_row_reprog q (with_st CSReadRow c)).
  - exact (ret_row_reprog q (with_st CSReadRow c)).
Qed.

(* read_row keeps the encodings of the program *)
Definition same_enc (c c' : cl) : Prop :=
  p_enc (cl_prog c') = p_enc (cl_prog c) /\ p_lenc (cl_prog c') = p_lenc (cl_prog c).

Lemma ret_row_enc c : same_enc c (snd (ret_row h c)).
Proof. unfold ret_row. destruct (convert_row h c); split; reflexivity. Qed.

Lemma read_loop_enc : forall f c tomb, same_enc c (snd (read_loop f dbg be sx h c tomb)).
Proof.
  induction f as [|f IH]; intros c tomb; [split; reflexivity|].
  cbn [read_loop]. destruct (cl_inp c) as [|b input]; [split; reflexivity|].
  destruct (parse_insn dbg be h (b :: input)) as [[i rest]|e| |]; try (split; reflexivity).
  set (c1 := with_inp rest c).
  assert (K : forall c2 t, cl_prog c2 = cl_prog c -> same_enc c (snd (read_loop f dbg be sx h c2 t))).
  { intros c2 t E. destruct (IH c2 t) as [A B]. unfold same_enc. rewrite A, B, E. split; reflexivity. }
  assert (D : forall i0, same_enc c (snd
    (match execute dbg h (cl_row c1) i0 with
    | Err e => (Err e, c1) | Panic => (Panic, c1) | OutOfFuel => (OutOfFuel, c1)
    | Ok (r', XErr e) => (Err e, with_row r' c1)
    | Ok (r', XNoRow) => read_loop f dbg be sx h (with_row r' c1) tomb
    | Ok (r', XRow) =>
        let c := with_row r' c1 in
        if tomb then
          let c1 := if r_end r' then with_addr None c else c in
          read_loop f dbg be sx h (with_row (row_reset h r') c1) (if r_end r' then false else tomb)
        else if r_end r' then
          match convert_address_offset c with
          | Ok ao => (Ok (Some (CREndSequence ao)), c) | Err e => (Err e, c)
          | Panic => (Panic, c) | OutOfFuel => (OutOfFuel, c)
          end
        else
          match cl_addr c with
          | Some a => (Ok (Some (CRSetAddress a)), with_st CSConvertRow (with_addr None c))
          | None => ret_row h (with_st CSReadRow c)
          end
    end : rr_out))).
  { intros i0. destruct (execute dbg h (cl_row c1) i0) as [[r' [| |e]]|e| |]; try (split; reflexivity).
    - cbv zeta. destruct tomb.
      + destruct (r_end r'); apply K; reflexivity.
      + destruct (r_end r').
        * destruct (convert_address_offset (with_row r' c1)); split; reflexivity.
        * destruct (cl_addr (with_row r' c1)); [split; reflexivity|].
          exact (ret_row_enc (with_st CSReadRow (with_row r' c1))).
    - apply K. reflexivity. }
  destruct i; try (match goal with |- context [execute dbg h _ ?i0] => exact (D i0) end).
  - destruct (execute dbg h (cl_row c1) (LineSpec.ISetAddress 0)) as [[r' [| |e]]|e| |]; try (split; reflexivity);
      (destruct (ones_sized dbg (h_addr_size h)) as [ta|e1| |]; try (split; reflexivity); cbv zeta;
       match goal with |- context [N.eqb ?x ta] => destruct (N.eqb x ta) end; apply K; reflexivity).
  - destruct (convert_file sx (p_enc (cl_prog c1)) (cl_dirs c1) (cl_ls c1) f0) as [[[[name d] info] ls']|e| |];
      try (split; reflexivity).
    destruct (LineWr.add_file (cl_prog c1) name d info) as [[p' id]|e| |] eqn:EA; try (split; reflexivity).
    destruct (LineWrSeqProofs.add_file_same_rows _ _ _ _ _ _ EA) as (_ & _ & _ & _ & E1 & E2).
    destruct (IH (with_file p' ls' id c1) tomb) as [A B]. unfold same_enc. rewrite A, B. cbn. split; assumption.
Qed.

Lemma read_row_enc c : same_enc c (snd (read_row dbg be sx h c)).
Proof.
  unfold read_row. destruct (cl_st c).
  - exact (read_loop_enc _ (with_row (row_reset h (cl_row c)) (with_addr None c)) false).
  - destruct (cl_addr c); [split; reflexivity|]. exact (ret_row_enc (with_st CSReadRow c)).
  - exact (ret_row_enc (with_st CSReadRow c)).
Qed.

(* ------------------------------------------------------------------ convert = replay *)

Lemma apply_event_swap caddr q p ev : p_enc p = p_enc q -> p_lenc p = p_lenc q ->
  apply_event dbg caddr (swap_rows q p) ev =
  match apply_event dbg caddr q ev with
  | Ok q' => Ok (swap_rows q' p) | Err e => Err e | Panic => Panic | OutOfFuel => OutOfFuel
  end.
Proof.
  intros E1 E2. destruct ev as [a|r|n]; cbn [apply_event].
  - destruct (caddr a); reflexivity.
  - unfold generate_row. cbn [p_row p_prev p_lenc set_row swap_rows]. rewrite E2.
    destruct (line_chunks 3 (Z.of_N (w_line (clear_row_flags r)) - Z.of_N (w_line (p_prev q)))) as [[ch d]|e| |];
      cbn [bind]; try reflexivity.
    destruct (op_advance dbg (p_lenc q) (clear_row_flags r) (p_prev q)); cbn [bind]; try reflexivity.
    destruct (advance_insns dbg (p_lenc q) (wrap_signed 64 d) a); reflexivity.
  - unfold end_sequence. cbn [p_row p_prev p_lenc p_enc swap_rows]. rewrite E1, E2.
    match goal with |- context [op_advance ?a ?b ?c ?d] => destruct (op_advance a b c d) end; reflexivity.
Qed.

Lemma apply_event_enc caddr q ev q' : apply_event dbg caddr q ev = Ok q' -> p_enc q' = p_enc q /\ p_lenc q' = p_lenc q.
Proof.
  destruct ev as [a|r|n]; cbn [apply_event].
  - destruct (caddr a); intros E; inversion E; split; reflexivity.
  - unfold generate_row. cbn [p_row p_prev p_lenc set_row].
    destruct (line_chunks 3 (Z.of_N (w_line (clear_row_flags r)) - Z.of_N (w_line (p_prev q)))) as [[ch d]|e| |];
      cbn [bind]; try discriminate.
    destruct (op_advance dbg (p_lenc q) (clear_row_flags r) (p_prev q)); cbn [bind]; try discriminate.
    destruct (advance_insns dbg (p_lenc q) (wrap_signed 64 d) a); cbn [bind]; try discriminate.
    intros E; inversion E; split; reflexivity.
  - unfold end_sequence.
    match goal with |- context [op_advance ?a ?b ?c ?d] => destruct (op_advance a b c d) end; cbn [bind]; try discriminate.
    intros E; inversion E; split; reflexivity.
Qed.

(* the writer calls of the documented loop, on the row machinery alone *)
Fixpoint replay (caddr : N -> option waddr) (q : prog) (evs : list clrow) : res prog :=
  match evs with
  | [] => Ok q
  | ev :: r => let* q' := apply_event dbg caddr q ev in replay caddr q' r
  end.

Lemma convert_loop_replay caddr : forall f c q,
  p_enc (cl_prog c) = p_enc q -> p_lenc (cl_prog c) = p_lenc q ->
  convert_loop f dbg be sx h caddr (reprog q c) =
  let '(evs, s, cf) := events_loop f dbg be sx h c in
  match replay caddr q evs with
  | Ok q' => match s with
             | SEnd => if p_in_seq q' then Err CMissingLineEndSequence else Ok (reprog q' cf)
             | SErr e => Err e | SPanic => Panic | SFuel => OutOfFuel
             end
  | Err e => Err e | Panic => Panic | OutOfFuel => OutOfFuel
  end.
Proof.
  induction f as [|f IH]; intros c q E1 E2; [reflexivity|].
  cbn [convert_loop events_loop]. rewrite read_row_reprog.
  destruct (read_row_enc c) as [A1 A2].
  destruct (read_row dbg be sx h c) as [[[ev|]|e| |] c']; cbn [map_out fst snd] in *; try reflexivity.
  change (cl_prog (reprog q c')) with (swap_rows q (cl_prog c')).
  rewrite apply_event_swap by congruence.
  destruct (apply_event dbg caddr q ev) as [q'|e| |] eqn:EA; cbn [bind].
  - change (with_prog (swap_rows q' (cl_prog c')) (reprog q c')) with (reprog q' c').
    destruct (apply_event_enc _ _ _ _ EA) as [B1 B2].
    rewrite (IH c' q') by congruence.
    destruct (events_loop f dbg be sx h c') as [[evs0 s0] cf0]. cbn [replay]. rewrite EA. reflexivity.
  - destruct (events_loop f dbg be sx h c') as [[evs0 s0] cf0]. cbn [replay]. rewrite EA. reflexivity.
  - destruct (events_loop f dbg be sx h c') as [[evs0 s0] cf0]. cbn [replay]. rewrite EA. reflexivity.
  - destruct (events_loop f dbg be sx h c') as [[evs0 s0] cf0]. cbn [replay]. rewrite EA. reflexivity.
Qed.

Lemma reprog_self c : reprog (cl_prog c) c = c.
Proof. destruct c as [r i f d p l a s]. destruct p. reflexivity. Qed.

(* ConvertLineProgram::convert is the read_row iteration replayed through set_address / generate_row /
   end_sequence: the events do not depend on the writer calls made in between *)
Lemma convert_is_replay caddr c :
  convert dbg be sx h caddr c =
  let '(evs, s, cf) := events dbg be sx h c in
  match replay caddr (cl_prog c) evs with
  | Ok q' => match s with
             | SEnd => if p_in_seq q' then Err CMissingLineEndSequence else Ok (reprog q' cf)
             | SErr e => Err e | SPanic => Panic | SFuel => OutOfFuel
             end
  | Err e => Err e | Panic => Panic | OutOfFuel => OutOfFuel
  end.
Proof.
  unfold convert, events.
  pose proof (convert_loop_replay caddr (seq_fuel c) c (cl_prog c) eq_refl eq_refl) as H.
  rewrite reprog_self in H. exact H.
Qed.

(* ------------------------------------------------------------------ the events as a C13 writer script *)

(* `opi` = op_index of the writer's current row (end_sequence reuses it) *)
Fixpoint script_of (opi : N) (evs : list clrow) : list LineWrSeqProofs.rop :=
  match evs with
  | [] => []
  | CRSetAddress a :: r => LineWrSeqProofs.RSetAddr a :: script_of opi r
  | CRRow w :: r => LineWrSeqProofs.RRow w :: script_of (w_op_index w) r
  | CREndSequence n :: r => LineWrSeqProofs.REnd n opi :: script_of 0 r
  end.

Lemma set_row_self p : set_row (with_op_index (p_row p) (w_op_index (p_row p))) p = p.
Proof. destruct p as [e l d f a b c0 d0 pv rw ins sq]. destruct rw. reflexivity. Qed.

Lemma replay_is_script : forall evs q,
  replay (fun a => Some (AConst a)) q evs =
  LineWrSeqProofs.apply_rops dbg q (script_of (w_op_index (p_row q)) evs).
Proof.
  induction evs as [|ev evs IH]; intros q; [reflexivity|].
  destruct ev as [a|w|n]; cbn [replay script_of LineWrSeqProofs.apply_rops LineWrSeqProofs.apply_rop apply_event].
  - cbn [bind option_map]. rewrite IH. reflexivity.
  - destruct (generate_row dbg (set_row w q)) as [q'|e| |] eqn:EG; cbn [bind]; try reflexivity.
    rewrite IH. f_equal. f_equal.
    unfold generate_row in EG. cbn [p_row p_prev p_lenc set_row] in EG.
    destruct (line_chunks 3 (Z.of_N (w_line (clear_row_flags w)) - Z.of_N (w_line (p_prev q)))) as [[ch d]|e| |];
      cbn [bind] in EG; try discriminate EG.
    destruct (op_advance dbg (p_lenc q) (clear_row_flags w) (p_prev q)); cbn [bind] in EG; try discriminate EG.
    destruct (advance_insns dbg (p_lenc q) (wrap_signed 64 d) a); cbn [bind] in EG; try discriminate EG.
    inversion EG. reflexivity.
  - rewrite set_row_self.
    destruct (end_sequence dbg q n) as [q'|e| |] eqn:EG; cbn [bind]; try reflexivity.
    rewrite IH. f_equal. f_equal.
    unfold end_sequence in EG.
    match type of EG with context [op_advance ?a ?b ?c ?d] => destruct (op_advance a b c d) end;
      cbn [bind] in EG; try discriminate EG.
    inversion EG. reflexivity.
Qed.

End Replay.

(* convert() composed with C13 (LineWrSeqProofs.script_correct): for a converter state whose program is fresh
   (no instruction yet, prev_row/row initial — what ConvertLineProgram::new returns) and the identity address
   conversion: IF the read_row iteration ends normally and the event script is admissible for the writer (C13's
   script_ok: offsets monotone and aligned, op_index below max_ops and not going back, advance < 2^64 — it fails exactly
   in the VLIW known-finding class), THEN convert() does not panic, its result is Ok or MissingLineEndSequence, and
   the instructions it emitted, executed on the DWARF line state machine (Spec/LineAdvSpec), yield exactly C13's
   meaning of the event script. *)
Lemma convert_emits_meaning dbg be sx h c evs cf :
  let p := cl_prog c in
  p_insns p = [] -> p_prev p = wrow_initial (p_enc p) (p_lenc p) -> p_row p = wrow_initial (p_enc p) (p_lenc p) ->
  p_in_seq p = false ->
  LineWrProofs.enc_ok (p_lenc p) -> (e_version (p_enc p) <= 5)%N ->
  events dbg be sx h c = (evs, SEnd, cf) ->
  LineWrSeqProofs.script_ok (p_enc p) (p_lenc p) (wrow_initial (p_enc p) (p_lenc p)) false (script_of 0 evs) ->
  exists q',
    convert dbg be sx h (fun a => Some (AConst a)) c =
      (if p_in_seq q' then Err CMissingLineEndSequence else Ok (reprog q' cf)) /\
    Forall LineWrProofs.special_ok (p_insns q') /\
    LineAdvSpec.rows_of (params_of (p_lenc p)) (map (denote (e_version (p_enc p))) (p_insns q')) =
      fst (LineWrSeqProofs.meaning (e_version (p_enc p)) (params_of (p_lenc p))
             (LineAdvSpec.init_regs (params_of (p_lenc p)), 0%N) (script_of 0 evs)).
Proof.
  intros p Hins Hprev Hrow Hseq Hok Hver Hev Hscript.
  destruct (LineWrSeqProofs.script_correct dbg (script_of 0 evs) p (LineAdvSpec.init_regs (params_of (p_lenc p))))
    as (q' & new & Eap & Eins & _ & _ & Fnew & Rnew).
  - exact Hok.
  - exact Hver.
  - rewrite Hprev. apply LineWrSeqProofs.seq_reset. exact Hver.
  - rewrite Hprev, Hseq. exact Hscript.
  - exists q'. rewrite (convert_is_replay dbg be sx h). rewrite Hev.
    rewrite (replay_is_script dbg). fold p. rewrite Hrow. cbn [wrow_initial w_op_index]. rewrite Eap.
    split; [reflexivity|]. rewrite Eins, Hins. cbn [app]. split; [exact Fnew|].
    unfold LineAdvSpec.rows_of. rewrite Rnew. rewrite Hprev. reflexivity.
Qed.

(* the hypotheses of convert_emits_meaning on a concrete two-sequence program (ConvertLineSim.wit_plain) *)
Require Import GV.Proofs.ConvertLineProofs GV.Proofs.ConvertLineSim.
Definition plain_c0 (dbg : bool) : option cl := match cl_new dbg wit_sx (mk_src wit_plain None None) [] with Ok c => Some c | _ => None end.
Lemma plain_script_ok : forall dbg,
  match plain_c0 dbg with
  | Some c0 =>
      let p := cl_prog c0 in
      p_insns p = [] /\ p_prev p = wrow_initial (p_enc p) (p_lenc p) /\ p_row p = wrow_initial (p_enc p) (p_lenc p) /\
      p_in_seq p = false /\ LineWrProofs.enc_ok (p_lenc p) /\ (e_version (p_enc p) <= 5)%N /\
      snd (fst (events dbg true wit_sx wit_plain c0)) = SEnd /\
      LineWrSeqProofs.script_ok (p_enc p) (p_lenc p) (wrow_initial (p_enc p) (p_lenc p)) false
        (script_of 0 (fst (fst (events dbg true wit_sx wit_plain c0))))
  | None => False
  end.
Proof.
  intros dbg. destruct dbg; vm_compute; repeat split; try discriminate; try reflexivity; try (left; reflexivity); try (right; intro; discriminate).
Qed.
