(* Proofs/LineRoundtrip5.v — program_roundtrip for the VERSION 5 header: LineProgram::write (entry formats,
   directory/file entries with the three string forms, optional timestamp/size/MD5/LLVM source) is C04's
   enc_unit of a raw_wf5 header; composition with header_roundtrip_v5 and program rows. Property C13. *)
From Coq Require Import List NArith ZArith Bool Lia ZifyBool ZifyN ZifyNat.
From Coq.Strings Require Import Byte.
Require Import GV.Base.Res GV.Base.Byt GV.Base.Ints GV.Model.Leb GV.Model.Prim GV.Spec.LebSpec.
Require Import GV.Spec.LineSpec GV.Model.LineRd GV.Proofs.LineRdRefine GV.Proofs.LineRdInsn.
Require Import GV.Proofs.LineRdHdr GV.Proofs.LineRdHdrSafe GV.Proofs.LineRdHdr5.
Require GV.Spec.LineAdvSpec GV.Model.LineWr GV.Proofs.LineWrProofs GV.Proofs.LineWrSeqProofs.
Require Import GV.Proofs.LineRtBytes GV.Proofs.LineRtRows GV.Proofs.LineRtScript GV.Proofs.LineRoundtrip.
Import ListNotations.

Local Ltac Zify.zify_post_hook ::= Z.div_mod_to_equations.
Local Open Scope N_scope.

(* ------------------------------------------------------------------ strings *)

Definition toff (t : W.strtab) (id : N) : N :=
  match W.tab_offset t (N.to_nat id) with Ok o => o | _ => 0 end.

(* the value a reader must see for a LineString *)
Definition lstr_val5 (ls ss : W.strtab) (d : W.lstr) : form_val :=
  match d with
  | W.LStr s => VString s
  | W.LStrRef id => VStrRef (toff ss id)
  | W.LLineStrRef id => VLineStrRef (toff ls id)
  end.

Definition lstr_ok5 (fmt64 : bool) (ls ss : W.strtab) (d : W.lstr) : Prop :=
  match d with
  | W.LStr s => no_nul s = true
  | W.LStrRef id => exists o, W.tab_offset ss (N.to_nat id) = Ok o /\ o < word_lim fmt64
  | W.LLineStrRef id => exists o, W.tab_offset ls (N.to_nat id) = Ok o /\ o < word_lim fmt64
  end.

Lemma lstr_write5 dbg be e ls ss d :
  5 <= W.e_version e -> lstr_ok5 (W.e_fmt64 e) ls ss d ->
  W.lstr_write dbg be d (W.lstr_form d) e ls ss =
    Ok (enc_val be (W.e_fmt64 e) (W.lstr_form d) (lstr_val5 ls ss d)) /\
  val_ok (W.e_fmt64 e) (W.lstr_form d) (lstr_val5 ls ss d).
Proof.
  intros Hv Hok. unfold W.lstr_write. rewrite N.eqb_refl. cbn [negb].
  destruct d as [s|id|id]; cbn [W.lstr_form lstr_val5 lstr_ok5 enc_val val_ok] in *.
  - destruct (N.leb_spec (W.e_version e) 4) as [Hc|_]; [lia|]. rewrite andb_false_r. cbn [andb].
    split; [reflexivity|]. split; [reflexivity|exact Hok].
  - destruct (N.ltb_spec (W.e_version e) 5) as [Hc|_]; [lia|].
    destruct Hok as (o & Ho & Hlt). unfold toff. rewrite Ho. cbn [bind].
    change (W.DW_FORM_strp =? FORM_strp) with true. cbv iota.
    split; [apply enc_word_udata; exact Hlt|]. split; [reflexivity|exact Hlt].
  - destruct (N.ltb_spec (W.e_version e) 5) as [Hc|_]; [lia|].
    destruct Hok as (o & Ho & Hlt). unfold toff. rewrite Ho. cbn [bind].
    change (W.DW_FORM_line_strp =? FORM_line_strp) with true. cbv iota.
    split; [apply enc_word_udata; exact Hlt|]. split; [reflexivity|exact Hlt].
Qed.

(* ------------------------------------------------------------------ directories *)

Definition dir_fmt5 (form : N) : list entry_format := [mk_ef LNCT_path form].
Definition raw_dir5 (ls ss : W.strtab) (d : W.lstr) : list form_val := [lstr_val5 ls ss d].

Definition dir5_ok (fmt64 : bool) (ls ss : W.strtab) (form : N) (d : W.lstr) : Prop :=
  W.lstr_form d = form /\ lstr_ok5 fmt64 ls ss d.

Lemma dirs_write5 dbg be e ls ss form : forall ds,
  5 <= W.e_version e -> Forall (dir5_ok (W.e_fmt64 e) ls ss form) ds ->
  W.dirs_write dbg be form e ls ss ds =
    Ok (concat (map (enc_entry be (W.e_fmt64 e) (dir_fmt5 form)) (map (raw_dir5 ls ss) ds))) /\
  Forall (entry_ok (W.e_fmt64 e) (dir_fmt5 form)) (map (raw_dir5 ls ss) ds).
Proof.
  induction ds as [|d ds IH]; intros Hv F; [split; [reflexivity|constructor]|].
  inversion F as [|x xs [Hf Hok] F']; subst x xs.
  destruct (IH Hv F') as [IH1 IH2].
  destruct (lstr_write5 dbg be e ls ss d Hv Hok) as [Hw Hval]. rewrite Hf in Hw, Hval.
  cbn [W.dirs_write map concat]. rewrite Hw. cbn [bind]. rewrite IH1. cbn [bind].
  split.
  - cbn [raw_dir5 dir_fmt5 enc_entry ef_form]. now rewrite app_nil_r.
  - constructor; [|exact IH2]. constructor; [exact Hval|constructor].
Qed.

(* ------------------------------------------------------------------ files *)

Definition file_fmt5 (p : W.prog) (file_form src_form : N) : list entry_format :=
  [mk_ef LNCT_path file_form; mk_ef LNCT_directory_index FORM_udata]
  ++ (if W.p_has_timestamp p then [mk_ef LNCT_timestamp FORM_udata] else [])
  ++ (if W.p_has_size p then [mk_ef LNCT_size FORM_udata] else [])
  ++ (if W.p_has_md5 p then [mk_ef LNCT_MD5 FORM_data16] else [])
  ++ (if W.p_has_source p then [mk_ef LNCT_LLVM_source src_form] else []).

Definition src_val5 (ls ss : W.strtab) (info : W.finfo) : form_val :=
  match W.fi_source info with Some s => lstr_val5 ls ss s | None => VString [] end.

Definition raw_file5 (p : W.prog) (ls ss : W.strtab) (f : (W.lstr * N) * W.finfo) : list form_val :=
  [lstr_val5 ls ss (fst (fst f)); VUdata (snd (fst f))]
  ++ (if W.p_has_timestamp p then [VUdata (W.fi_timestamp (snd f))] else [])
  ++ (if W.p_has_size p then [VUdata (W.fi_size (snd f))] else [])
  ++ (if W.p_has_md5 p then [VBlock (W.fi_md5 (snd f))] else [])
  ++ (if W.p_has_source p then [src_val5 ls ss (snd f)] else []).

Definition file5_ok (p : W.prog) (ls ss : W.strtab) (file_form src_form : N) (f : (W.lstr * N) * W.finfo) : Prop :=
  let fmt64 := W.e_fmt64 (W.p_enc p) in
  W.lstr_form (fst (fst f)) = file_form /\ lstr_ok5 fmt64 ls ss (fst (fst f)) /\
  snd (fst f) < two64 /\ W.fi_timestamp (snd f) < two64 /\ W.fi_size (snd f) < two64 /\
  length (W.fi_md5 (snd f)) = 16%nat /\
  (W.p_has_source p = true ->
   exists s, W.fi_source (snd f) = Some s /\ W.lstr_form s = src_form /\ lstr_ok5 fmt64 ls ss s).

(* one file entry: the pieces LineProgram::write emits are the reference encoding of the entry *)
Lemma file_entry5 be p ls ss file_form src_form fl dir info srcb :
  let fmt64 := W.e_fmt64 (W.p_enc p) in
  val_ok fmt64 file_form (lstr_val5 ls ss fl) ->
  dir < two64 -> W.fi_timestamp info < two64 -> W.fi_size info < two64 -> length (W.fi_md5 info) = 16%nat ->
  (W.p_has_source p = true ->
     srcb = enc_val be fmt64 src_form (src_val5 ls ss info) /\ val_ok fmt64 src_form (src_val5 ls ss info)) ->
  (W.p_has_source p = false -> srcb = []) ->
  enc_val be fmt64 file_form (lstr_val5 ls ss fl) ++ enc_uleb dir
    ++ (if W.p_has_timestamp p then enc_uleb (W.fi_timestamp info) else [])
    ++ (if W.p_has_size p then enc_uleb (W.fi_size info) else [])
    ++ (if W.p_has_md5 p then W.fi_md5 info else []) ++ srcb
  = enc_entry be fmt64 (file_fmt5 p file_form src_form) (raw_file5 p ls ss ((fl, dir), info)) /\
  entry_ok fmt64 (file_fmt5 p file_form src_form) (raw_file5 p ls ss ((fl, dir), info)).
Proof.
  intros fmt64 Hval Hd Ht Hz Hm Hs1 Hs0. unfold file_fmt5, raw_file5. cbn [fst snd].
  assert (Vd : val_ok fmt64 FORM_udata (VUdata dir)) by (split; [reflexivity|exact Hd]).
  assert (Vt : val_ok fmt64 FORM_udata (VUdata (W.fi_timestamp info))) by (split; [reflexivity|exact Ht]).
  assert (Vz : val_ok fmt64 FORM_udata (VUdata (W.fi_size info))) by (split; [reflexivity|exact Hz]).
  assert (Vm : val_ok fmt64 FORM_data16 (VBlock (W.fi_md5 info))).
  { cbn [val_ok]. right; right; right; right. split; [reflexivity|]. unfold len_n. rewrite Hm. reflexivity. }
  destruct (W.p_has_source p).
  - destruct (Hs1 eq_refl) as [-> Vs].
    destruct (W.p_has_timestamp p), (W.p_has_size p), (W.p_has_md5 p);
      cbn [app enc_entry ef_form enc_val]; change (FORM_udata =? FORM_udata) with true;
      change (FORM_data16 =? FORM_block1) with false; change (FORM_data16 =? FORM_block2) with false;
      change (FORM_data16 =? FORM_block4) with false; change (FORM_data16 =? FORM_block) with false;
      change (FORM_data16 =? FORM_data16) with true; cbv iota;
      (split; [rewrite ?app_nil_r, <- ?app_assoc; reflexivity | repeat (constructor; try assumption)]).
  - rewrite (Hs0 eq_refl).
    destruct (W.p_has_timestamp p), (W.p_has_size p), (W.p_has_md5 p);
      cbn [app enc_entry ef_form enc_val]; change (FORM_udata =? FORM_udata) with true;
      change (FORM_data16 =? FORM_block1) with false; change (FORM_data16 =? FORM_block2) with false;
      change (FORM_data16 =? FORM_block4) with false; change (FORM_data16 =? FORM_block) with false;
      change (FORM_data16 =? FORM_data16) with true; cbv iota;
      (split; [rewrite ?app_nil_r, <- ?app_assoc; reflexivity | repeat (constructor; try assumption)]).
Qed.

Lemma files_write5 dbg be p ls ss file_form src_form : forall fs,
  5 <= W.e_version (W.p_enc p) -> Forall (file5_ok p ls ss file_form src_form) fs ->
  W.files_write_v5 dbg be p file_form src_form ls ss fs =
    Ok (concat (map (enc_entry be (W.e_fmt64 (W.p_enc p)) (file_fmt5 p file_form src_form))
                    (map (raw_file5 p ls ss) fs)), ls, ss) /\
  Forall (entry_ok (W.e_fmt64 (W.p_enc p)) (file_fmt5 p file_form src_form)) (map (raw_file5 p ls ss) fs).
Proof.
  induction fs as [|[[fl dir] info] fs IH]; intros Hv F; [split; [reflexivity|constructor]|].
  inversion F as [|x xs (Hf & Hok & Hd & Ht & Hz & Hm & Hs) F']; subst x xs. cbn [fst snd] in *.
  destruct (IH Hv F') as [IH1 IH2].
  destruct (lstr_write5 dbg be (W.p_enc p) ls ss fl Hv Hok) as [Hw Hval]. rewrite Hf in Hw, Hval.
  cbn [W.files_write_v5 map concat]. rewrite Hw. cbn [bind].
  rewrite (write_uleb128_enc dir Hd). cbn [bind].
  assert (Et : (if W.p_has_timestamp p then write_uleb128 (W.fi_timestamp info) else Ok [])
               = Ok (if W.p_has_timestamp p then enc_uleb (W.fi_timestamp info) else []))
    by (destruct (W.p_has_timestamp p); [apply write_uleb128_enc; exact Ht|reflexivity]).
  assert (Es : (if W.p_has_size p then write_uleb128 (W.fi_size info) else Ok [])
               = Ok (if W.p_has_size p then enc_uleb (W.fi_size info) else []))
    by (destruct (W.p_has_size p); [apply write_uleb128_enc; exact Hz|reflexivity]).
  rewrite Et, Es. cbn [bind].
  destruct (W.p_has_source p) eqn:Esrc.
  - destruct (Hs eq_refl) as (s & Hsome & Hsf & Hsok). rewrite Hsome.
    destruct (lstr_write5 dbg be (W.p_enc p) ls ss s Hv Hsok) as [Hws Hvals]. rewrite Hsf in Hws, Hvals.
    rewrite Hws. cbn [bind]. rewrite IH1. cbn [bind].
    destruct (file_entry5 be p ls ss file_form src_form fl dir info
                (enc_val be (W.e_fmt64 (W.p_enc p)) src_form (lstr_val5 ls ss s)) Hval Hd Ht Hz Hm) as [E1 E2].
    + intros _. unfold src_val5. rewrite Hsome. split; [reflexivity|exact Hvals].
    + intros Hc. rewrite Esrc in Hc. discriminate.
    + split; [|constructor; [exact E2|exact IH2]].
      rewrite <- E1. rewrite <- !app_assoc. reflexivity.
  - cbn [bind]. rewrite IH1. cbn [bind].
    destruct (file_entry5 be p ls ss file_form src_form fl dir info [] Hval Hd Ht Hz Hm) as [E1 E2].
    + intros Hc. rewrite Esrc in Hc. discriminate.
    + reflexivity.
    + split; [|constructor; [exact E2|exact IH2]].
      rewrite <- E1. rewrite <- !app_assoc. reflexivity.
Qed.

(* ------------------------------------------------------------------ the version 5 header *)

Definition dform_of (p : W.prog) : N := match W.p_dirs p with d0 :: _ => W.lstr_form d0 | [] => 0 end.
Definition fform_of (p : W.prog) : N := match W.p_files p with f0 :: _ => W.lstr_form (fst (fst f0)) | [] => 0 end.

Definition raw5 (p : W.prog) (ls ss : W.strtab) : raw_header :=
  let e := W.p_enc p in let l := W.p_lenc p in
  mk_raw (W.e_fmt64 e) (W.e_version e) (W.e_addr_size e) (W.le_min_len l) (W.le_max_ops l)
         (W.le_default_is_stmt l) (W.le_line_base l) (W.le_line_range l) 13 W.std_opcode_lengths
         (dir_fmt5 (dform_of p)) (map (raw_dir5 ls ss) (W.p_dirs p))
         (file_fmt5 p (fform_of p) (W.source_form (W.p_files p))) (map (raw_file5 p ls ss) (W.p_files p)).

Lemma lstr_form_small d : W.lstr_form d < 16384.
Proof. destruct d; cbn; unfold W.DW_FORM_string, W.DW_FORM_strp, W.DW_FORM_line_strp; lia. Qed.

Lemma source_form_small : forall fs, W.source_form fs < 16384.
Proof.
  induction fs as [|[k info] fs IH]; cbn [W.source_form]; [unfold W.DW_FORM_string; lia|].
  destruct (W.fi_source info); [apply lstr_form_small|exact IH].
Qed.

Lemma file_fmts_enc5 p fform sform :
  fform < 16384 -> sform < 16384 ->
  [n2b (2 + W.b2N (W.p_has_timestamp p) + W.b2N (W.p_has_size p) + W.b2N (W.p_has_md5 p) + W.b2N (W.p_has_source p))]
  ++ ([x01] ++ enc_uleb fform ++ [x02; n2b W.DW_FORM_udata]
      ++ (if W.p_has_timestamp p then [x03; n2b W.DW_FORM_udata] else [])
      ++ (if W.p_has_size p then [x04; n2b W.DW_FORM_udata] else [])
      ++ (if W.p_has_md5 p then [x05; n2b W.DW_FORM_data16] else [])
      ++ (if W.p_has_source p then enc_uleb 8193 ++ enc_uleb sform else []))
  = enc_fmts (file_fmt5 p fform sform) /\
  Forall fmt_ok (file_fmt5 p fform sform) /\ len_n (file_fmt5 p fform sform) < 256 /\
  count_path (file_fmt5 p fform sform) = 1.
Proof.
  intros Hf Hs. unfold file_fmt5, enc_fmts.
  destruct (W.p_has_timestamp p), (W.p_has_size p), (W.p_has_md5 p), (W.p_has_source p);
    cbn [app map concat ef_ct ef_form W.b2N len_n length];
    (split; [rewrite ?app_nil_r, <- ?app_assoc; reflexivity|]);
    (split; [|split; [vm_compute; reflexivity|reflexivity]]).
  all: repeat constructor; cbn; unfold LNCT_path, LNCT_directory_index, LNCT_timestamp, LNCT_size, LNCT_MD5,
       LNCT_LLVM_source, FORM_udata, FORM_data16; try lia.
Qed.

Lemma dir_fmts_enc5 form : form < 16384 ->
  [x01; x01] ++ enc_uleb form = enc_fmts (dir_fmt5 form) /\
  Forall fmt_ok (dir_fmt5 form) /\ len_n (dir_fmt5 form) < 256 /\ count_path (dir_fmt5 form) = 1.
Proof.
  intros Hf. unfold dir_fmt5, enc_fmts. cbn [map concat ef_ct ef_form len_n length].
  split; [rewrite app_nil_r; reflexivity|]. split; [|split; [vm_compute; reflexivity|reflexivity]].
  repeat constructor; cbn; unfold LNCT_path; lia.
Qed.

(* LineProgram::write for version 5 produces exactly the reference encoding of raw5 *)
Lemma write_v5 dbg be p unit_enc ls ss prog d0 ds f0 fs :
  W.e_version (W.p_enc p) = 5 -> 5 <= W.e_version unit_enc ->
  W.e_addr_size unit_enc = W.e_addr_size (W.p_enc p) ->
  W.p_dirs p = d0 :: ds -> W.p_files p = f0 :: fs ->
  Forall (dir5_ok (W.e_fmt64 (W.p_enc p)) ls ss (dform_of p)) (W.p_dirs p) ->
  Forall (file5_ok p ls ss (fform_of p) (W.source_form (W.p_files p))) (W.p_files p) ->
  len_n (W.p_dirs p) < two64 -> len_n (W.p_files p) < two64 ->
  W.insns_write dbg be (W.p_enc p) (W.p_insns p) = Ok prog ->
  len_n (enc_after_len be (raw5 p ls ss) prog) < (if W.e_fmt64 (W.p_enc p) then two64 else 4294967280) ->
  W.write dbg be p unit_enc ls ss = Ok (enc_unit be (raw5 p ls ss) prog, ls, ss).
Proof.
  intros Hv Huv Hasz Hd Hf Fd Ff Ld Lf Hins Hlen.
  set (e := W.p_enc p) in *. set (l := W.p_lenc p) in *.
  assert (Hv5 : 5 <= W.e_version e) by lia.
  destruct (dirs_write5 dbg be e ls ss (dform_of p) (W.p_dirs p) Hv5 Fd) as [Wd _].
  destruct (files_write5 dbg be p ls ss (fform_of p) (W.source_form (W.p_files p)) (W.p_files p) Hv5 Ff) as [Wf _].
  fold e in Wf.
  pose proof (lstr_form_small d0) as Sd. pose proof (lstr_form_small (fst (fst f0))) as Sf.
  pose proof (source_form_small (W.p_files p)) as Ss.
  assert (Edf : dform_of p = W.lstr_form d0) by (unfold dform_of; rewrite Hd; reflexivity).
  assert (Eff : fform_of p = W.lstr_form (fst (fst f0))) by (unfold fform_of; rewrite Hf; reflexivity).
  destruct (dir_fmts_enc5 (dform_of p) ltac:(rewrite Edf; exact Sd)) as [Ed _].
  destruct (file_fmts_enc5 p (fform_of p) (W.source_form (W.p_files p)) ltac:(rewrite Eff; exact Sf) Ss) as [Ef _].
  unfold W.write. fold e l.
  destruct (N.ltb_spec (W.e_version unit_enc) 5) as [Hc|_]; [lia|]. cbn [andb].
  rewrite Hasz, N.eqb_refl. cbn [negb orb].
  rewrite Hv. change (5 <? 2) with false. change (5 <? 5) with false. change (5 <=? 5) with true.
  change (4 <=? 5) with true. change (5 <=? 4) with false. cbn [orb bind]. cbv iota.
  rewrite Hd at 1. cbn [hd_error unwrap bind].
  rewrite <- Edf. rewrite (write_uleb128_enc (dform_of p)) by (unfold two64; rewrite Edf; lia). cbn [bind].
  change (N.of_nat (length (W.p_dirs p))) with (len_n (W.p_dirs p)).
  rewrite (write_uleb128_enc _ Ld). cbn [bind]. rewrite Wd. cbn [bind].
  rewrite Hf at 1. cbn [hd_error unwrap bind].
  rewrite <- Eff. rewrite (write_uleb128_enc (fform_of p)) by (unfold two64; rewrite Eff; lia). cbn [bind].
  rewrite (write_uleb128_enc (W.source_form (W.p_files p))) by (unfold two64; lia). cbn [bind].
  rewrite (write_uleb128_enc 8193) by (unfold two64; lia). cbn [bind].
  change (N.of_nat (length (W.p_files p))) with (len_n (W.p_files p)).
  rewrite (write_uleb128_enc _ Lf). cbn [bind]. rewrite Wf. cbn [bind].
  (* the header body *)
  match goal with |- context [write_udata be (N.of_nat (length ?hd)) _] => set (hdr := hd) end.
  assert (Ehdr : hdr = enc_header_body be (raw5 p ls ss)).
  { unfold hdr, enc_header_body, raw5.
    cbn [rh_version rh_min_inst_len rh_max_ops rh_default_is_stmt rh_line_base rh_line_range rh_opcode_base
         rh_std_lengths rh_dirs rh_files rh_fmt64 rh_dir_fmt rh_file_fmt]. fold e l. rewrite Hv.
    change (4 <=? 5) with true. change (5 <=? 4) with false. cbv iota.
    rewrite <- Ed, <- Ef.
    replace (n2b (W.b2N (W.le_default_is_stmt l))) with (if W.le_default_is_stmt l then x01 else x00)
      by (destruct (W.le_default_is_stmt l); reflexivity).
    change (of_signed 8 (W.le_line_base l)) with (Z.to_N (W.le_line_base l mod 256)%Z).
    unfold W.OPCODE_BASE, len_n. rewrite !map_length. rewrite <- !app_assoc. reflexivity. }
  clearbody hdr. subst hdr.
  set (body := enc_header_body be (raw5 p ls ss)) in *.
  unfold enc_after_len in Hlen. cbn [raw5 rh_version rh_fmt64 rh_addr_size] in Hlen. fold e l in Hlen.
  rewrite Hv in Hlen. change (5 <=? 5) with true in Hlen. cbv iota in Hlen. fold body in Hlen.
  unfold len_n in Hlen. rewrite !app_length, enc_fixed_length in Hlen. cbn [length] in Hlen.
  assert (Hbl : N.of_nat (length body) < (if W.e_fmt64 e then two64 else 4294967296))
    by (destruct (W.e_fmt64 e); unfold two64 in *; lia).
  rewrite enc_word_udata by exact Hbl. cbn [bind]. rewrite Hins. cbn [bind].
  rewrite !enc_un_fixed.
  match goal with |- context [write_initial_length _ _ (N.of_nat (length ?b))] => set (after := b) end.
  assert (Eafter : after = enc_after_len be (raw5 p ls ss) prog).
  { unfold after, enc_after_len. cbn [raw5 rh_version rh_fmt64 rh_addr_size]. fold e l. rewrite Hv.
    change (5 <=? 5) with true. cbv iota. fold body. unfold len_n. rewrite <- !app_assoc. reflexivity. }
  rewrite write_initial_length_enc.
  - cbn [bind]. unfold enc_unit. cbn [raw5 rh_fmt64]. fold e. rewrite Eafter. unfold len_n.
    rewrite <- !app_assoc. reflexivity.
  - rewrite Eafter. unfold enc_after_len. cbn [raw5 rh_version rh_fmt64 rh_addr_size]. fold e l. rewrite Hv.
    change (5 <=? 5) with true. cbv iota. fold body.
    unfold len_n. rewrite !app_length, enc_fixed_length. cbn [length]. exact Hlen.
Qed.

(* ------------------------------------------------------------------ the tables a reader must see, version 5 *)

Definition file5_entry (p : W.prog) (ls ss : W.strtab) (f : (W.lstr * N) * W.finfo) : file_entry :=
  mk_file (lstr_val5 ls ss (fst (fst f))) (snd (fst f))
          (if W.p_has_timestamp p then W.fi_timestamp (snd f) else 0)
          (if W.p_has_size p then W.fi_size (snd f) else 0)
          (if W.p_has_md5 p then W.fi_md5 (snd f) else repeat x00 16)
          (if W.p_has_source p then Some (src_val5 ls ss (snd f)) else None).

Lemma dirs_of_raw5 ls ss form : forall ds,
  flat_map (fun o : option form_val => match o with Some v => [v] | None => [] end)
           (map (fun vals => dir_of_entry (dir_fmt5 form) vals None) (map (raw_dir5 ls ss) ds))
  = map (lstr_val5 ls ss) ds.
Proof. induction ds as [|d ds IH]; [reflexivity|]. cbn [map flat_map]. rewrite IH. reflexivity. Qed.

Lemma file_of_raw5 p ls ss ff sf f : length (W.fi_md5 (snd f)) = 16%nat ->
  (let fp := file_of_entry (file_fmt5 p ff sf) (raw_file5 p ls ss f) file0 None in
   mk_file (match snd fp with Some v => v | None => VString [] end)
           (fe_dir (fst fp)) (fe_time (fst fp)) (fe_size (fst fp)) (fe_md5 (fst fp)) (fe_source (fst fp)))
  = file5_entry p ls ss f.
Proof.
  intros Hm. unfold file_fmt5, raw_file5, file5_entry.
  assert (E16 : len_n (W.fi_md5 (snd f)) =? 16 = true) by (unfold len_n; rewrite Hm; reflexivity).
  destruct (W.p_has_timestamp p), (W.p_has_size p), (W.p_has_md5 p), (W.p_has_source p);
    cbn [app file_of_entry upd_file ef_ct udata_of fst snd fe_path fe_dir fe_time fe_size fe_md5 fe_source file0];
    repeat (first [ change (LNCT_path =? LNCT_path) with true | change (LNCT_directory_index =? LNCT_path) with false
                  | change (LNCT_directory_index =? LNCT_directory_index) with true
                  | change (LNCT_timestamp =? LNCT_path) with false | change (LNCT_timestamp =? LNCT_directory_index) with false
                  | change (LNCT_timestamp =? LNCT_timestamp) with true ]; cbv iota);
    cbn; rewrite ?E16; reflexivity.
Qed.

Lemma files_of_raw5 p ls ss ff sf : forall fs,
  Forall (fun f => length (W.fi_md5 (snd f)) = 16%nat) fs ->
  map (fun fp : file_entry * option form_val =>
         let f := fst fp in
         mk_file (match snd fp with Some v => v | None => VString [] end)
                 (fe_dir f) (fe_time f) (fe_size f) (fe_md5 f) (fe_source f))
      (map (fun vals => file_of_entry (file_fmt5 p ff sf) vals file0 None) (map (raw_file5 p ls ss) fs))
  = map (file5_entry p ls ss) fs.
Proof.
  induction fs as [|f fs IH]; intros F; [reflexivity|]. inversion F as [|x xs Hm F']; subst.
  cbn [map]. f_equal; [exact (file_of_raw5 p ls ss ff sf f Hm) | exact (IH F')].
Qed.

(* program_roundtrip, version 5, both formats, both byte orders, address sizes 1/2/4/8: directory and file
   tables in any of the three string forms (one form per table, offsets into the given string tables),
   optional timestamp / size / MD5 / LLVM source columns; then any admissible script of row calls. *)
Theorem program_roundtrip_v5 dbg be e l p0 ops unit_enc ls ss d0 ds f0 fs :
  W.p_insns p0 = [] -> W.p_prev p0 = W.wrow_initial e l -> W.p_in_seq p0 = false ->
  W.p_enc p0 = e -> W.p_lenc p0 = l ->
  W.e_version e = 5 -> 5 <= W.e_version unit_enc ->
  enc_params_ok e l -> P1.enc_ok l -> W.e_addr_size unit_enc = W.e_addr_size e ->
  W.p_dirs p0 = d0 :: ds -> W.p_files p0 = f0 :: fs ->
  Forall (dir5_ok (W.e_fmt64 e) ls ss (dform_of p0)) (W.p_dirs p0) ->
  Forall (file5_ok p0 ls ss (fform_of p0) (W.source_form (W.p_files p0))) (W.p_files p0) ->
  len_n (W.p_dirs p0) < two64 -> len_n (W.p_files p0) < two64 ->
  P2.script_ok e l (W.wrow_initial e l) false ops ->
  script_enc_ok (hdr_of_asz (W.e_addr_size e)) (W.e_version e) (W.params_of l)
                (A.init_regs (W.params_of l), 0) ops ->
  (forall p' prog, P2.apply_rops dbg p0 ops = Ok p' -> W.insns_write dbg be e (W.p_insns p') = Ok prog ->
     len_n (enc_after_len be (raw5 p' ls ss) prog) < (if W.e_fmt64 e then two64 else 4294967280)) ->
  exists p' bytes h rs,
    P2.apply_rops dbg p0 ops = Ok p' /\
    W.write dbg be p' unit_enc ls ss = Ok (bytes, ls, ss) /\
    parse_header dbg be (W.e_addr_size e) bytes = Ok h /\
    rows_model dbg be h = (rs, SEnd) /\
    map rep rs = map r2s (fst (P2.meaning (W.e_version e) (W.params_of l) (A.init_regs (W.params_of l), 0) ops)) /\
    Forall (fun r => r_tomb r = false) rs /\
    h_dirs h = map (lstr_val5 ls ss) (W.p_dirs p0) /\ h_files h = map (file5_entry p0 ls ss) (W.p_files p0) /\
    hdr_matches e l h.
Proof.
  intros Ins Prev Seq Enc Lenc Hv Huv HP Hok Hasz Hd Hf Fd Ff Ld Lf Hscript Henc Hfits.
  set (hc := mk_header (W.e_fmt64 e) (W.e_version e) (W.e_addr_size e) 0 0 (W.le_min_len l) (W.le_max_ops l)
               (W.le_default_is_stmt l) (W.le_line_base l) (W.le_line_range l) 13 W.std_opcode_lengths
               [] [] [] [] []).
  assert (HMc : hdr_matches e l hc) by (unfold hdr_matches, hc; cbn; repeat split).
  assert (Hb0 : bounds hc (r2s (A.init_regs (W.params_of l)))).
  { pose proof (hdr_matches_pwf e l hc HMc HP) as [_ _ _ _ Hs _ _].
    split; [|cbn; unfold two64z; lia].
    change (s_address (r2s (A.init_regs (W.params_of l)))) with 0%Z. unfold addr_mask.
    assert (0 < 2 ^ (8 * Z.of_N (h_addr_size hc)))%Z by (apply Z.pow_pos_nonneg; lia). lia. }
  destruct (script_wf e l hc HMc HP dbg ops p0 (A.init_regs (W.params_of l)) Lenc Enc Hok ltac:(lia))
    as (p' & new & Eap & Eins & Wf & Een & Nos & Sp & Run).
  { rewrite Prev. apply P2.seq_reset. lia. }
  { exact Hb0. }
  { rewrite Prev, Seq. exact Hscript. }
  { rewrite Prev. cbn [W.wrow_initial W.w_address_offset].
    eapply script_enc_ok_ext; [|exact Henc]. reflexivity. }
  rewrite Ins in Eins. cbn [app] in Eins. rewrite Prev in Run. cbn [W.wrow_initial W.w_address_offset] in Run.
  destruct (apply_rops_tables dbg ops p0 p' Eap) as (Td & Tf & Te & Tl).
  rewrite Enc in Te. rewrite Lenc in Tl.
  (* the flags are untouched as well: raw5 / file5_ok only read tables, flags, encodings *)
  assert (Tflags : W.p_has_timestamp p' = W.p_has_timestamp p0 /\ W.p_has_size p' = W.p_has_size p0 /\
                   W.p_has_md5 p' = W.p_has_md5 p0 /\ W.p_has_source p' = W.p_has_source p0).
  { clear -Eap. revert p0 p' Eap. induction ops as [|o ops IH]; intros p0 p' H; cbn [P2.apply_rops] in H.
    - inversion H; subst; repeat split.
    - apply bind_ok in H as (p1 & H1 & H). destruct (IH p1 p' H) as (B1 & B2 & B3 & B4).
      assert (A0 : W.p_has_timestamp p1 = W.p_has_timestamp p0 /\ W.p_has_size p1 = W.p_has_size p0 /\
                   W.p_has_md5 p1 = W.p_has_md5 p0 /\ W.p_has_source p1 = W.p_has_source p0).
      { destruct o as [a|a|row|off opi]; cbn [P2.apply_rop] in H1.
        - unfold W.begin_sequence in H1. destruct (W.p_in_seq p0); [discriminate|].
          destruct a; inversion H1; subst; repeat split.
        - inversion H1; subst; repeat split.
        - unfold W.generate_row in H1. apply bind_ok in H1 as (x & _ & H1). destruct x as [c d].
          apply bind_ok in H1 as (opa & _ & H1). apply bind_ok in H1 as (adv & _ & H1).
          inversion H1; subst; repeat split.
        - unfold W.end_sequence in H1. apply bind_ok in H1 as (opa & _ & H1). inversion H1; subst; repeat split. }
      destruct A0 as (A1 & A2 & A3 & A4). repeat split; congruence. }
  destruct Tflags as (G1 & G2 & G3 & G4).
  assert (Eraw : raw5 p' ls ss = raw5 p0 ls ss).
  { unfold raw5, dform_of, fform_of, file_fmt5, raw_file5.
    rewrite Td, Tf, Te, Tl, Enc, Lenc, G1, G2, G3, G4. reflexivity. }
  set (prog := enc_prog be hc (map (tr (W.e_version e)) new)).
  assert (Hprog : W.insns_write dbg be e (W.p_insns p') = Ok prog)
    by (rewrite Eins; apply insns_write_enc; [reflexivity|exact Een]).
  pose proof (Hfits p' prog Eap Hprog) as Hlen.
  assert (Fd' : Forall (dir5_ok (W.e_fmt64 (W.p_enc p')) ls ss (dform_of p')) (W.p_dirs p')).
  { unfold dform_of. rewrite Td, Te. exact Fd. }
  assert (Ff' : Forall (file5_ok p' ls ss (fform_of p') (W.source_form (W.p_files p'))) (W.p_files p')).
  { unfold fform_of. rewrite Tf. unfold fform_of in Ff. eapply Forall_impl; [|exact Ff].
    intros f (H1 & H2 & H3 & H4 & H5 & H6 & H7). unfold file5_ok. rewrite Te, G4. rewrite Enc in *.
    repeat split; assumption. }
  assert (Hw : W.write dbg be p' unit_enc ls ss = Ok (enc_unit be (raw5 p' ls ss) prog, ls, ss)).
  { apply (write_v5 dbg be p' unit_enc ls ss prog d0 ds f0 fs); try assumption;
      rewrite ?Te, ?Td, ?Tf; try assumption. }
  rewrite Eraw in Hw, Hlen.
  (* the header *)
  pose proof (lstr_form_small d0) as Sd. pose proof (lstr_form_small (fst (fst f0))) as Sf.
  pose proof (source_form_small (W.p_files p0)) as Ss.
  assert (Edf : dform_of p0 = W.lstr_form d0) by (unfold dform_of; rewrite Hd; reflexivity).
  assert (Eff : fform_of p0 = W.lstr_form (fst (fst f0))) by (unfold fform_of; rewrite Hf; reflexivity).
  assert (Hv5 : 5 <= W.e_version e) by lia.
  assert (Hraw : raw_wf5 be (raw5 p0 ls ss) prog).
  { pose proof HP as (Hsz & Hmil & Hmops & Hlr & Hlb).
    destruct (dir_fmts_enc5 (dform_of p0) ltac:(rewrite Edf; exact Sd)) as (_ & D1 & D2 & D3).
    destruct (file_fmts_enc5 p0 (fform_of p0) (W.source_form (W.p_files p0)) ltac:(rewrite Eff; exact Sf) Ss)
      as (_ & F1 & F2 & F3).
    rewrite <- Enc in Fd, Hv5.
    destruct (dirs_write5 dbg be (W.p_enc p0) ls ss (dform_of p0) (W.p_dirs p0) Hv5 Fd) as [_ Ed2].
    destruct (files_write5 dbg be p0 ls ss (fform_of p0) (W.source_form (W.p_files p0)) (W.p_files p0) Hv5 Ff) as [_ Ef2].
    constructor; cbn [raw5 rh_version rh_addr_size rh_min_inst_len rh_max_ops rh_line_range rh_opcode_base rh_line_base
                      rh_std_lengths rh_dirs rh_files rh_fmt64 rh_dir_fmt rh_file_fmt]; rewrite ?Enc, ?Lenc; try lia;
      try reflexivity; try assumption.
    - repeat split; assumption.
    - repeat split; assumption.
    - rewrite Enc in Ed2. split; [exact Ed2|]. unfold len_n in *. rewrite map_length. exact Ld.
    - rewrite Enc in Ef2. split; [exact Ef2|]. unfold len_n in *. rewrite map_length. exact Lf. }
  pose proof (header_roundtrip_v5_lemma dbg be (W.e_addr_size e) (raw5 p0 ls ss) prog [] Hraw) as Hparse.
  rewrite app_nil_r in Hparse.
  set (h := header_of_raw be (W.e_addr_size e) (raw5 p0 ls ss) prog) in *.
  assert (HM : hdr_matches e l h).
  { unfold hdr_matches, h, header_of_raw. cbn. rewrite ?Enc, ?Lenc, Hv. repeat split. }
  assert (Hph : h_program h = prog) by reflexivity.
  assert (Eprog : prog = enc_prog be h (map (tr (W.e_version e)) new)).
  { unfold prog. apply enc_prog_ext. pose proof HM as (_ & Ha & _). rewrite Ha. reflexivity. }
  assert (Easz : h_addr_size hc = h_addr_size h) by (pose proof HM as (_ & Ha & _); rewrite Ha; reflexivity).
  assert (Wf' : prog_wf_from h (r2s (A.init_regs (W.params_of l))) (map (tr (W.e_version e)) new) = true).
  { destruct (script_wf e l h HM HP dbg ops p0 (A.init_regs (W.params_of l)) Lenc Enc Hok ltac:(lia))
      as (p2 & new2 & Eap2 & Eins2 & Wf2 & _).
    - rewrite Prev. apply P2.seq_reset. lia.
    - eapply bounds_ext; [exact Easz|exact Hb0].
    - rewrite Prev, Seq. exact Hscript.
    - rewrite Prev. cbn [W.wrow_initial W.w_address_offset].
      eapply script_enc_ok_ext; [|exact Henc]. exact Easz.
    - rewrite Eap in Eap2. inversion Eap2; subst p2. rewrite Ins in Eins2. cbn [app] in Eins2.
      rewrite Eins in Eins2. subst new2. exact Wf2. }
  pose proof (hdr_matches_pwf e l h HM HP) as Pw.
  assert (Hs0 : s_init h = r2s (A.init_regs (W.params_of l))).
  { unfold s_init, r2s, A.init_regs. cbn. rewrite ?Lenc. reflexivity. }
  destruct (rows_refine_spec_lemma dbg be h (map (tr (W.e_version e)) new)) as (rs & R1 & R2 & R3).
  { unfold prog_wf. rewrite (pwf_params_wf h Pw), Hs0, Wf'. reflexivity. }
  { rewrite Hph. exact Eprog. }
  exists p', (enc_unit be (raw5 p0 ls ss) prog), h, rs.
  split; [exact Eap|]. split; [exact Hw|]. split; [exact Hparse|]. split; [exact R1|].
  split.
  { rewrite R2. unfold rows_spec. rewrite srun_rows, Hs0.
    assert (He0 : A.r_end_sequence (A.init_regs (W.params_of l)) = false) by reflexivity.
    destruct (srun_iso e l h new _ _ _ HM Nos He0 Run) as [Iso _]. rewrite Iso. reflexivity. }
  split; [exact R3|].
  split; [|split; [|exact HM]].
  - unfold h, header_of_raw. cbn [h_dirs]. unfold dirs_of_raw. cbn [raw5 rh_version rh_dirs rh_dir_fmt].
    rewrite Enc, Hv. change (5 <=? 4) with false. cbv iota. apply dirs_of_raw5.
  - unfold h, header_of_raw. cbn [h_files]. unfold files_of_raw. cbn [raw5 rh_version rh_files rh_file_fmt].
    rewrite Enc, Hv. change (5 <=? 4) with false. cbv iota. apply files_of_raw5.
    clear -Ff. induction Ff as [|f fl (_ & _ & _ & _ & _ & H6 & _) F IH]; constructor; assumption.
Qed.

(* ------------------------------------------------------------------ non-vacuity: a concrete version 5 program *)
Definition ex5_enc : W.enc := W.mkEnc true 5 4.
Definition ex5_ls : W.strtab := [[x64]; [x66; x2e; x63]; [x69; x6e; x63]].   (* .debug_line_str: "d" "f.c" "inc" *)
Definition ex5_md5 : list byte := [x00; x01; x02; x03; x04; x05; x06; x07; x08; x09; x0a; x0b; x0c; x0d; x0e; x0f].
Definition ex5_info (src : list byte) : W.finfo := W.mkFinfo 77 4096 ex5_md5 (Some (W.LStr src)).

(* new(v5, DWARF64, address size 4; names as .debug_line_str references; source_info with MD5 and source);
   file_has_* = true; add_directory("inc"); add_file("inc", dir 1, info) *)
Definition ex5_prog : res W.prog :=
  let* p := W.lp_new false ex5_enc ex_lenc (W.LLineStrRef 0) None (W.LLineStrRef 1)
              (Some (ex5_info [x69; x6e; x74; x0a])) in
  let p := W.set_flags true true true true p in
  let* (p, d) := W.add_directory p (W.LLineStrRef 2) in
  let* (p, _) := W.add_file p (W.LLineStrRef 2) d (Some (ex5_info [x79])) in
  Ok p.

Definition ex5_p0 : W.prog :=
  Eval vm_compute in match ex5_prog with Ok p => p | _ => P2.fresh ex_lenc end.

Lemma ex5_prog_ok : ex5_prog = Ok ex5_p0 /\
  W.p_insns ex5_p0 = [] /\ W.p_prev ex5_p0 = W.wrow_initial ex5_enc ex_lenc /\ W.p_in_seq ex5_p0 = false /\
  W.p_enc ex5_p0 = ex5_enc /\ W.p_lenc ex5_p0 = ex_lenc /\
  (exists d0 ds f0 fs, W.p_dirs ex5_p0 = d0 :: ds /\ W.p_files ex5_p0 = f0 :: fs) /\
  length (W.p_dirs ex5_p0) = 2%nat /\ length (W.p_files ex5_p0) = 2%nat /\
  Forall (dir5_ok (W.e_fmt64 ex5_enc) ex5_ls [] (dform_of ex5_p0)) (W.p_dirs ex5_p0) /\
  Forall (file5_ok ex5_p0 ex5_ls [] (fform_of ex5_p0) (W.source_form (W.p_files ex5_p0))) (W.p_files ex5_p0).
Proof.
  split; [vm_compute; reflexivity|]. split; [reflexivity|]. split; [reflexivity|]. split; [reflexivity|].
  split; [reflexivity|]. split; [reflexivity|]. split; [do 4 eexists; split; reflexivity|].
  split; [reflexivity|]. split; [reflexivity|]. split.
  - unfold ex5_p0, dform_of. cbn [W.p_dirs].
    constructor; [|constructor; [|constructor]]; (split; [reflexivity|]);
      cbn; eexists; (split; [reflexivity|]); cbn; unfold two64; lia.
  - assert (Hone : forall f, In f (W.p_files ex5_p0) ->
              file5_ok ex5_p0 ex5_ls [] (fform_of ex5_p0) (W.source_form (W.p_files ex5_p0)) f).
    { intros f [<- | [<- | []]]; unfold file5_ok; cbn; repeat split;
        first [ reflexivity | (unfold two64; lia)
              | (eexists; split; [reflexivity | cbn; unfold word_lim, two64; lia])
              | (intros _; eexists; repeat split; reflexivity) ]. }
    apply Forall_forall. exact Hone.
Qed.
