(* Proofs/LineRoundtrip5.v — program_roundtrip for the VERSION 5 header: LineProgram::write (entry formats,
   directory/file entries with the three string forms, optional timestamp/size/MD5/LLVM source) is C04's
   enc_unit of a raw_wf5 header; composition with header_roundtrip_v5 and program rows. Property C13. *)
From Coq Require Import List NArith ZArith Bool Lia ZifyBool ZifyN ZifyNat.
From Coq.Strings Require Import Byte.
Require Import GV.Base.Res GV.Base.Byt GV.Base.Ints GV.Model.Leb GV.Model.Prim GV.Spec.LebSpec.
Require Import GV.Spec.LineSpec GV.Model.LineRd GV.Proofs.LineRdRefine GV.Proofs.LineRdInsn.
Require Import GV.Proofs.LineRdHdr GV.Proofs.LineRdHdrSafe GV.Proofs.LineRdHdr5.
Require GV.Spec.LineAdvSpec GV.Model.LineWr GV.Proofs.LineWrProofs GV.Proofs.LineWrSeqProofs.
Require Import GV.Proofs.LineRtBytes GV.Proofs.LineRtRows GV.Proofs.LineRtScript GV.Proofs.LineRoundtrip.
Import ListNotations.

Local Ltac Zify.zify_post_hook ::= Z.div_mod_to_equations.
Local Open Scope N_scope.

(* ------------------------------------------------------------------ strings *)

Definition toff (t : W.strtab) (id : N) : N :=
  match W.tab_offset t (N.to_nat id) with Ok o => o | _ => 0 end.

(* the value a reader must see for a LineString *)
Definition lstr_val5 (ls ss : W.strtab) (d : W.lstr) : form_val :=
  match d with
  | W.LStr s => VString s
  | W.LStrRef id => VStrRef (toff ss id)
  | W.LLineStrRef id => VLineStrRef (toff ls id)
  end.

Definition lstr_ok5 (fmt64 : bool) (ls ss : W.strtab) (d : W.lstr) : Prop :=
  match d with
  | W.LStr s => no_nul s = true
  | W.LStrRef id => exists o, W.tab_offset ss (N.to_nat id) = Ok o /\ o < word_lim fmt64
  | W.LLineStrRef id => exists o, W.tab_offset ls (N.to_nat id) = Ok o /\ o < word_lim fmt64
  end.

Lemma lstr_write5 dbg be e ls ss d :
  5 <= W.e_version e -> lstr_ok5 (W.e_fmt64 e) ls ss d ->
  W.lstr_write dbg be d (W.lstr_form d) e ls ss =
    Ok (enc_val be (W.e_fmt64 e) (W.lstr_form d) (lstr_val5 ls ss d)) /\
  val_ok (W.e_fmt64 e) (W.lstr_form d) (lstr_val5 ls ss d).
Proof.
  intros Hv Hok. unfold W.lstr_write. rewrite N.eqb_refl. cbn [negb].
  destruct d as [s|id|id]; cbn [W.lstr_form lstr_val5 lstr_ok5 enc_val val_ok] in *.
  - destruct (N.leb_spec (W.e_version e) 4) as [Hc|_]; [lia|]. rewrite andb_false_r. cbn [andb].
    split; [reflexivity|]. split; [reflexivity|exact Hok].
  - destruct (N.ltb_spec (W.e_version e) 5) as [Hc|_]; [lia|].
    destruct Hok as (o & Ho & Hlt). unfold toff. rewrite Ho. cbn [bind].
    change (W.DW_FORM_strp =? FORM_strp) with true. cbv iota.
    split; [apply enc_word_udata; exact Hlt|]. split; [reflexivity|exact Hlt].
  - destruct (N.ltb_spec (W.e_version e) 5) as [Hc|_]; [lia|].
    destruct Hok as (o & Ho & Hlt). unfold toff. rewrite Ho. cbn [bind].
    change (W.DW_FORM_line_strp =? FORM_line_strp) with true. cbv iota.
    split; [apply enc_word_udata; exact Hlt|]. split; [reflexivity|exact Hlt].
Qed.

(* ------------------------------------------------------------------ directories *)

Definition dir_fmt5 (form : N) : list entry_format := [mk_ef LNCT_path form].
Definition raw_dir5 (ls ss : W.strtab) (d : W.lstr) : list form_val := [lstr_val5 ls ss d].

Definition dir5_ok (fmt64 : bool) (ls ss : W.strtab) (form : N) (d : W.lstr) : Prop :=
  W.lstr_form d = form /\ lstr_ok5 fmt64 ls ss d.

Lemma dirs_write5 dbg be e ls ss form : forall ds,
  5 <= W.e_version e -> Forall (dir5_ok (W.e_fmt64 e) ls ss form) ds ->
  W.dirs_write dbg be form e ls ss ds =
    Ok (concat (map (enc_entry be (W.e_fmt64 e) (dir_fmt5 form)) (map (raw_dir5 ls ss) ds))) /\
  Forall (entry_ok (W.e_fmt64 e) (dir_fmt5 form)) (map (raw_dir5 ls ss) ds).
Proof.
  induction ds as [|d ds IH]; intros Hv F; [split; [reflexivity|constructor]|].
  inversion F as [|x xs [Hf Hok] F']; subst x xs.
  destruct (IH Hv F') as [IH1 IH2].
  destruct (lstr_write5 dbg be e ls ss d Hv Hok) as [Hw Hval]. rewrite Hf in Hw, Hval.
  cbn [W.dirs_write map concat]. rewrite Hw. cbn [bind]. rewrite IH1. cbn [bind].
  split.
  - cbn [raw_dir5 dir_fmt5 enc_entry ef_form]. now rewrite app_nil_r.
  - constructor; [|exact IH2]. constructor; [exact Hval|constructor].
Qed.

(* ------------------------------------------------------------------ files *)

Definition file_fmt5 (p : W.prog) (file_form src_form : N) : list entry_format :=
  [mk_ef LNCT_path file_form; mk_ef LNCT_directory_index FORM_udata]
  ++ (if W.p_has_timestamp p then [mk_ef LNCT_timestamp FORM_udata] else [])
  ++ (if W.p_has_size p then [mk_ef LNCT_size FORM_udata] else [])
  ++ (if W.p_has_md5 p then [mk_ef LNCT_MD5 FORM_data16] else [])
  ++ (if W.p_has_source p then [mk_ef LNCT_LLVM_source src_form] else []).

Definition src_val5 (ls ss : W.strtab) (info : W.finfo) : form_val :=
  match W.fi_source info with Some s => lstr_val5 ls ss s | None => VString [] end.

Definition raw_file5 (p : W.prog) (ls ss : W.strtab) (f : (W.lstr * N) * W.finfo) : list form_val :=
  [lstr_val5 ls ss (fst (fst f)); VUdata (snd (fst f))]
  ++ (if W.p_has_timestamp p then [VUdata (W.fi_timestamp (snd f))] else [])
  ++ (if W.p_has_size p then [VUdata (W.fi_size (snd f))] else [])
  ++ (if W.p_has_md5 p then [VBlock (W.fi_md5 (snd f))] else [])
  ++ (if W.p_has_source p then [src_val5 ls ss (snd f)] else []).

Definition file5_ok (p : W.prog) (ls ss : W.strtab) (file_form src_form : N) (f : (W.lstr * N) * W.finfo) : Prop :=
  let fmt64 := W.e_fmt64 (W.p_enc p) in
  W.lstr_form (fst (fst f)) = file_form /\ lstr_ok5 fmt64 ls ss (fst (fst f)) /\
  snd (fst f) < two64 /\ W.fi_timestamp (snd f) < two64 /\ W.fi_size (snd f) < two64 /\
  length (W.fi_md5 (snd f)) = 16%nat /\
  (W.p_has_source p = true ->
   exists s, W.fi_source (snd f) = Some s /\ W.lstr_form s = src_form /\ lstr_ok5 fmt64 ls ss s).

(* one file entry: the pieces LineProgram::write emits are the reference encoding of the entry *)
Lemma file_entry5 be p ls ss file_form src_form fl dir info srcb :
  let fmt64 := W.e_fmt64 (W.p_enc p) in
  val_ok fmt64 file_form (lstr_val5 ls ss fl) ->
  dir < two64 -> W.fi_timestamp info < two64 -> W.fi_size info < two64 -> length (W.fi_md5 info) = 16%nat ->
  (W.p_has_source p = true ->
     srcb = enc_val be fmt64 src_form (src_val5 ls ss info) /\ val_ok fmt64 src_form (src_val5 ls ss info)) ->
  (W.p_has_source p = false -> srcb = []) ->
  enc_val be fmt64 file_form (lstr_val5 ls ss fl) ++ enc_uleb dir
    ++ (if W.p_has_timestamp p then enc_uleb (W.fi_timestamp info) else [])
    ++ (if W.p_has_size p then enc_uleb (W.fi_size info) else [])
    ++ (if W.p_has_md5 p then W.fi_md5 info else []) ++ srcb
  = enc_entry be fmt64 (file_fmt5 p file_form src_form) (raw_file5 p ls ss ((fl, dir), info)) /\
  entry_ok fmt64 (file_fmt5 p file_form src_form) (raw_file5 p ls ss ((fl, dir), info)).
Proof.
  intros fmt64 Hval Hd Ht Hz Hm Hs1 Hs0. unfold file_fmt5, raw_file5. cbn [fst snd].
  assert (Vd : val_ok fmt64 FORM_udata (VUdata dir)) by (split; [reflexivity|exact Hd]).
  assert (Vt : val_ok fmt64 FORM_udata (VUdata (W.fi_timestamp info))) by (split; [reflexivity|exact Ht]).
  assert (Vz : val_ok fmt64 FORM_udata (VUdata (W.fi_size info))) by (split; [reflexivity|exact Hz]).
  assert (Vm : val_ok fmt64 FORM_data16 (VBlock (W.fi_md5 info))).
  { cbn [val_ok]. right; right; right; right. split; [reflexivity|]. unfold len_n. rewrite Hm. reflexivity. }
  destruct (W.p_has_source p).
  - destruct (Hs1 eq_refl) as [-> Vs].
    destruct (W.p_has_timestamp p), (W.p_has_size p), (W.p_has_md5 p);
      cbn [app enc_entry ef_form enc_val]; change (FORM_udata =? FORM_udata) with true;
      change (FORM_data16 =? FORM_block1) with false; change (FORM_data16 =? FORM_block2) with false;
      change (FORM_data16 =? FORM_block4) with false; change (FORM_data16 =? FORM_block) with false;
      change (FORM_data16 =? FORM_data16) with true; cbv iota;
      (split; [rewrite ?app_nil_r, <- ?app_assoc; reflexivity | repeat (constructor; try assumption)]).
  - rewrite (Hs0 eq_refl).
    destruct (W.p_has_timestamp p), (W.p_has_size p), (W.p_has_md5 p);
      cbn [app enc_entry ef_form enc_val]; change (FORM_udata =? FORM_udata) with true;
      change (FORM_data16 =? FORM_block1) with false; change (FORM_data16 =? FORM_block2) with false;
      change (FORM_data16 =? FORM_block4) with false; change (FORM_data16 =? FORM_block) with false;
      change (FORM_data16 =? FORM_data16) with true; cbv iota;
      (split; [rewrite ?app_nil_r, <- ?app_assoc; reflexivity | repeat (constructor; try assumption)]).
Qed.

Lemma files_write5 dbg be p ls ss file_form src_form : forall fs,
  5 <= W.e_version (W.p_enc p) -> Forall (file5_ok p ls ss file_form src_form) fs ->
  W.files_write_v5 dbg be p file_form src_form ls ss fs =
    Ok (concat (map (enc_entry be (W.e_fmt64 (W.p_enc p)) (file_fmt5 p file_form src_form))
                    (map (raw_file5 p ls ss) fs)), ls, ss) /\
  Forall (entry_ok (W.e_fmt64 (W.p_enc p)) (file_fmt5 p file_form src_form)) (map (raw_file5 p ls ss) fs).
Proof.
  induction fs as [|[[fl dir] info] fs IH]; intros Hv F; [split; [reflexivity|constructor]|].
  inversion F as [|x xs (Hf & Hok & Hd & Ht & Hz & Hm & Hs) F']; subst x xs. cbn [fst snd] in *.
  destruct (IH Hv F') as [IH1 IH2].
  destruct (lstr_write5 dbg be (W.p_enc p) ls ss fl Hv Hok) as [Hw Hval]. rewrite Hf in Hw, Hval.
  cbn [W.files_write_v5 map concat]. rewrite Hw. cbn [bind].
  rewrite (write_uleb128_enc dir Hd). cbn [bind].
  assert (Et : (if W.p_has_timestamp p then write_uleb128 (W.fi_timestamp info) else Ok [])
               = Ok (if W.p_has_timestamp p then enc_uleb (W.fi_timestamp info) else []))
    by (destruct (W.p_has_timestamp p); [apply write_uleb128_enc; exact Ht|reflexivity]).
  assert (Es : (if W.p_has_size p then write_uleb128 (W.fi_size info) else Ok [])
               = Ok (if W.p_has_size p then enc_uleb (W.fi_size info) else []))
    by (destruct (W.p_has_size p); [apply write_uleb128_enc; exact Hz|reflexivity]).
  rewrite Et, Es. cbn [bind].
  destruct (W.p_has_source p) eqn:Esrc.
  - destruct (Hs eq_refl) as (s & Hsome & Hsf & Hsok). rewrite Hsome.
    destruct (lstr_write5 dbg be (W.p_enc p) ls ss s Hv Hsok) as [Hws Hvals]. rewrite Hsf in Hws, Hvals.
    rewrite Hws. cbn [bind]. rewrite IH1. cbn [bind].
    destruct (file_entry5 be p ls ss file_form src_form fl dir info
                (enc_val be (W.e_fmt64 (W.p_enc p)) src_form (lstr_val5 ls ss s)) Hval Hd Ht Hz Hm) as [E1 E2].
    + intros _. unfold src_val5. rewrite Hsome. split; [reflexivity|exact Hvals].
    + intros Hc. rewrite Esrc in Hc. discriminate.
    + split; [|constructor; [exact E2|exact IH2]].
      rewrite <- E1. rewrite <- !app_assoc. reflexivity.
  - cbn [bind]. rewrite IH1. cbn [bind].
    destruct (file_entry5 be p ls ss file_form src_form fl dir info [] Hval Hd Ht Hz Hm) as [E1 E2].
    + intros Hc. rewrite Esrc in Hc. discriminate.
    + reflexivity.
    + split; [|constructor; [exact E2|exact IH2]].
      rewrite <- E1. rewrite <- !app_assoc. reflexivity.
Qed.
