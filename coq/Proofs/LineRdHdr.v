(* Proofs/LineRdHdr.v — LineProgramHeader::parse inverts the reference unit encoder for versions 2-4
   (parameters, standard_opcode_lengths, include_directories, file_names, program), both formats,
   both byte orders, any trailing bytes after the unit. *)
From Coq Require Import List NArith ZArith Bool Lia ZifyBool ZifyN ZifyNat.
From Coq.Strings Require Import Byte.
Require Import GV.Base.Res GV.Base.Byt GV.Base.Ints GV.Model.Leb GV.Model.Prim GV.Spec.LebSpec GV.Spec.LineSpec
               GV.Model.LineRd GV.Proofs.LineRdBase GV.Proofs.LineRdMono GV.Proofs.LineRdCodec GV.Proofs.LineRdRefine
               GV.Proofs.LineRdInsn.
Import ListNotations.
Local Open Scope N_scope.
Local Arguments N.add : simpl never.
Local Arguments N.sub : simpl never.
Local Arguments N.mul : simpl never.
Local Arguments N.pow : simpl never.
Local Arguments N.modulo : simpl never.
Local Arguments N.div : simpl never.
Local Arguments N.ltb : simpl never.
Local Arguments N.leb : simpl never.
Local Arguments N.eqb : simpl never.

(* ---------------------------------------------------------------- well-formed raw headers, versions 2-4 *)
Definition dir_ok (vals : list form_val) : Prop :=
  exists s, vals = [VString s] /\ s <> [] /\ no_nul s = true.
Definition file_ok (vals : list form_val) : Prop :=
  exists p d t z, vals = [VString p; VUdata d; VUdata t; VUdata z] /\ p <> [] /\ no_nul p = true /\
                  d < two64 /\ t < two64 /\ z < two64.

Record raw_wf4 (be : bool) (r : raw_header) (prog : list byte) : Prop := mk_raw_wf4 {
  rw_ver : 2 <= rh_version r <= 4;
  rw_mil : 1 <= rh_min_inst_len r < 256; rw_mops : 1 <= rh_max_ops r < 256;
  rw_lr : 1 <= rh_line_range r < 256; rw_ob : 1 <= rh_opcode_base r < 256;
  rw_lb : (-128 <= rh_line_base r < 128)%Z;
  rw_std : N.of_nat (length (rh_std_lengths r)) = rh_opcode_base r - 1;
  rw_dirs : Forall dir_ok (rh_dirs r); rw_files : Forall file_ok (rh_files r);
  rw_len : len_n (enc_after_len be r prog) < (if rh_fmt64 r then two64 else 4294967280) }.

(* ---------------------------------------------------------------- small reader facts *)
Lemma read_u8_cons v rest : v < 256 -> read_u8 (n2b v :: rest) = Ok (v, rest).
Proof. intros H. cbn. now rewrite b2n_n2b_small. Qed.

Lemma read_word_enc (fmt64 be : bool) (v : N) tail : v < (if fmt64 then two64 else 4294967296) ->
  read_word fmt64 be (enc_word be fmt64 v ++ tail) = Ok (v, tail).
Proof.
  intros H. unfold read_word, enc_word. destruct fmt64.
  - apply read_un_enc. change (256 ^ N.of_nat 8) with two64. exact H.
  - apply read_un_enc. change (256 ^ N.of_nat 4) with 4294967296. exact H.
Qed.

Lemma read_initial_length_enc (be fmt64 : bool) (v : N) tail : v < (if fmt64 then two64 else 4294967280) ->
  read_initial_length be ((if fmt64 then enc_fixed 4 be 4294967295 else []) ++ enc_word be fmt64 v ++ tail)
  = Ok ((v, fmt64), tail).
Proof.
  intros H. unfold read_initial_length. destruct fmt64.
  - rewrite read_un_enc by (change (256 ^ N.of_nat 4) with 4294967296; lia). cbn [bind].
    change (4294967295 <? 4294967280) with false. change (4294967295 =? 4294967295) with true. cbv iota.
    unfold enc_word. rewrite read_un_enc by (change (256 ^ N.of_nat 8) with two64; exact H). reflexivity.
  - cbn [app]. unfold enc_word. rewrite read_un_enc by (change (256 ^ N.of_nat 4) with 4294967296; lia).
    cbn [bind]. destruct (v <? 4294967280) eqn:E; [reflexivity|lia].
Qed.

Lemma read_i8_enc be lb rest : (-128 <= lb < 128)%Z ->
  read_in 1 be (n2b (Z.to_N (lb mod 256)) :: rest) = Ok (lb, rest).
Proof.
  intros H. unfold read_in, read_un, read_bytes. cbn [take bind].
  assert (V : Z.to_N (lb mod 256) < 256) by lia.
  assert (E : (if be then be_val [n2b (Z.to_N (lb mod 256))] else le_val [n2b (Z.to_N (lb mod 256))])
              = Z.to_N (lb mod 256)).
  { destruct be; unfold be_val; cbn [rev app le_val]; rewrite b2n_n2b_small by exact V; lia. }
  rewrite E. f_equal. f_equal.
  unfold to_signed, wrapN. change (8 * N.of_nat 1) with 8. change (2 ^ 8) with 256. change (2 ^ (8 - 1)) with 128.
  rewrite N.mod_small by exact V.
  destruct (Z.to_N (lb mod 256) <? 128) eqn:E2; lia.
Qed.

Lemma skip_n_app a b : skip_n (N.of_nat (length a)) (a ++ b) = Ok b.
Proof.
  unfold skip_n. rewrite app_length. destruct (N.of_nat (length a + length b) <? N.of_nat (length a)) eqn:E; [lia|].
  rewrite Nat2N.id, skipn_app, Nat.sub_diag, skipn_all. reflexivity.
Qed.
Lemma truncate_n_app a b : truncate_n (N.of_nat (length a)) (a ++ b) = Ok a.
Proof.
  unfold truncate_n. rewrite app_length. destruct (N.of_nat (length a + length b) <? N.of_nat (length a)) eqn:E; [lia|].
  rewrite Nat2N.id, firstn_app, Nat.sub_diag, firstn_all. cbn [firstn]. now rewrite app_nil_r.
Qed.

Lemma read_u8_bool (b : bool) rest :
  read_u8 ((if b then x01 else x00) :: rest) = Ok ((if b then 1 else 0), rest).
Proof. destruct b; reflexivity. Qed.

(* ---------------------------------------------------------------- the two table loops *)
Lemma dirs_v4_loop_enc be fmt64 : forall dirs fuel rest,
  Forall dir_ok dirs -> (length dirs < fuel)%nat ->
  dirs_v4_loop fuel (concat (map (enc_entry be fmt64 dir_fmt_v4) dirs) ++ x00 :: rest) =
  Ok (flat_map (fun o => match o with Some v => [v] | None => [] end)
               (map (fun vals => dir_of_entry dir_fmt_v4 vals None) dirs), rest).
Proof.
  induction dirs as [|d dirs IH]; intros fuel rest F Hf; destruct fuel as [|f]; try (simpl in Hf; lia).
  - cbn. reflexivity.
  - inversion F as [|? ? (s & -> & Hs & Hn) F']; subst.
    cbn [map concat enc_entry dir_fmt_v4 enc_val ef_form].
    change (FORM_string =? FORM_string) with true. cbv iota. rewrite app_nil_r, <- !app_assoc.
    cbn [dirs_v4_loop]. cbn [app]. rewrite read_cstr_app by exact Hn. cbn [bind].
    destruct s as [|b s]; [contradiction|].
    rewrite IH by (auto; simpl in Hf; lia). cbn [bind].
    cbn [map flat_map dir_of_entry dir_fmt_v4 ef_ct]. change (LNCT_path =? LNCT_path) with true. cbv iota.
    reflexivity.
Qed.

Lemma files_v4_loop_enc dbg be fmt64 : forall files fuel rest,
  Forall file_ok files -> (length files < fuel)%nat ->
  files_v4_loop fuel dbg (concat (map (enc_entry be fmt64 file_fmt_v4) files) ++ x00 :: rest) =
  Ok (map (fun fp => let f := fst fp in
                     mk_file (match snd fp with Some v => v | None => VString [] end)
                             (fe_dir f) (fe_time f) (fe_size f) (fe_md5 f) (fe_source f))
          (map (fun vals => file_of_entry file_fmt_v4 vals file0 None) files), rest).
Proof.
  induction files as [|d files IH]; intros fuel rest F Hf; destruct fuel as [|f]; try (simpl in Hf; lia).
  - cbn. reflexivity.
  - inversion F as [|? ? (p & dd & t & z & -> & Hp & Hn & Hd & Ht & Hz) F']; subst.
    cbn [map concat enc_entry file_fmt_v4 enc_val ef_form].
    change (FORM_string =? FORM_string) with true. change (FORM_udata =? FORM_udata) with true. cbv iota.
    rewrite app_nil_r, <- !app_assoc.
    cbn [files_v4_loop]. cbn [app]. rewrite read_cstr_app by exact Hn. cbn [bind].
    destruct p as [|b p]; [contradiction|].
    unfold file_entry_parse. rewrite read_uleb128_enc by exact Hd. cbn [bind].
    rewrite read_uleb128_enc by exact Ht. cbn [bind]. rewrite read_uleb128_enc by exact Hz. cbn [bind].
    rewrite IH by (auto; simpl in Hf; lia). cbn [bind]. reflexivity.
Qed.

Lemma dir_enc_len1 be fmt64 d : dir_ok d -> (1 <= length (enc_entry be fmt64 dir_fmt_v4 d))%nat.
Proof.
  intros (s & -> & Hs & Hn). cbn [enc_entry dir_fmt_v4 enc_val ef_form].
  change (FORM_string =? FORM_string) with true. cbv iota. rewrite !app_length. cbn [length]. lia.
Qed.
Lemma file_enc_len1 be fmt64 d : file_ok d -> (1 <= length (enc_entry be fmt64 file_fmt_v4 d))%nat.
Proof.
  intros (p & dd & t & z & -> & Hp & Hn & Hd & Ht & Hz). cbn [enc_entry file_fmt_v4 enc_val ef_form].
  change (FORM_string =? FORM_string) with true. cbv iota. rewrite !app_length. cbn [length]. lia.
Qed.
Lemma dirs_enc_len be fmt64 : forall dirs, Forall dir_ok dirs ->
  (length dirs <= length (concat (map (enc_entry be fmt64 dir_fmt_v4) dirs)))%nat.
Proof.
  induction 1 as [|d dirs Hd F IH]; [simpl; lia|].
  cbn [map concat length]. rewrite app_length. pose proof (dir_enc_len1 be fmt64 d Hd). lia.
Qed.
Lemma files_enc_len be fmt64 : forall files, Forall file_ok files ->
  (length files <= length (concat (map (enc_entry be fmt64 file_fmt_v4) files)))%nat.
Proof.
  induction 1 as [|d files Hd F IH]; [simpl; lia|].
  cbn [map concat length]. rewrite app_length. pose proof (file_enc_len1 be fmt64 d Hd). lia.
Qed.

(* ---------------------------------------------------------------- the header *)
Lemma header_roundtrip_v4_lemma dbg be asz0 r prog tail :
  raw_wf4 be r prog ->
  parse_header dbg be asz0 (enc_unit be r prog ++ tail) = Ok (header_of_raw be asz0 r prog).
Proof.
  intros [Hv Hmil Hmops Hlr Hob Hlb Hstd Hd Hf Hlen].
  unfold parse_header, enc_unit. rewrite <- !app_assoc.
  rewrite read_initial_length_enc by exact Hlen. cbn [bind].
  unfold len_n at 1. rewrite split_n_app by (unfold len_n in Hlen; destruct (rh_fmt64 r); unfold two64 in *; lia).
  cbn [bind].
  unfold header_of_raw.
  assert (V5 : (5 <=? rh_version r) = false) by lia.
  assert (V4 : (rh_version r <=? 4) = true) by lia.
  unfold enc_after_len at 1. rewrite V5. cbn [app].
  unfold read_u16. rewrite read_un_enc by (change (256 ^ N.of_nat 2) with 65536; lia). cbn [bind].
  assert (Vr : ((rh_version r <? 2) || (5 <? rh_version r)) = false) by lia. rewrite Vr, V5. cbn [bind].
  assert (Hbl : len_n (enc_header_body be r) < (if rh_fmt64 r then two64 else 4294967296)).
  { unfold len_n in *. unfold enc_after_len in Hlen. rewrite V5 in Hlen. rewrite !app_length in Hlen.
    destruct (rh_fmt64 r); unfold two64 in *; lia. }
  rewrite read_word_enc by exact Hbl. cbn [bind].
  unfold len_n at 1 2. rewrite skip_n_app, truncate_n_app. cbn [bind].
  (* the body *)
  unfold enc_header_body. rewrite V4.
  cbn [app]. rewrite read_u8_cons by lia. cbn [bind].
  destruct (rh_min_inst_len r =? 0) eqn:E1; [lia|].
  match goal with |- context[(if 4 <=? rh_version r then read_u8 ?inp else Ok (1, ?inp))] =>
    match inp with
    | (?opt ++ ?rest2) =>
      assert (Mo : (if 4 <=? rh_version r then read_u8 inp else Ok (1, inp)) =
                   Ok (if 4 <=? rh_version r then rh_max_ops r else 1, rest2))
    end
  end.
  { destruct (4 <=? rh_version r); cbn [app]; [apply read_u8_cons; lia|reflexivity]. }
  rewrite Mo. clear Mo. cbn [bind].
  destruct ((if 4 <=? rh_version r then rh_max_ops r else 1) =? 0) eqn:E2; [destruct (4 <=? rh_version r); lia|].
  cbn [app].
  rewrite read_u8_bool. cbn [bind].
  rewrite read_i8_enc by exact Hlb. cbn [bind].
  rewrite read_u8_cons by lia. cbn [bind].
  destruct (rh_line_range r =? 0) eqn:E3; [lia|].
  rewrite read_u8_cons by lia. cbn [bind].
  destruct (rh_opcode_base r =? 0) eqn:E4; [lia|].
  rewrite <- Hstd. rewrite split_n_app by (unfold two64; lia). cbn [bind].
  cbn [app].
  pose proof (dirs_enc_len be (rh_fmt64 r) _ Hd) as Ld. pose proof (files_enc_len be (rh_fmt64 r) _ Hf) as Lf.
  rewrite (dirs_v4_loop_enc be (rh_fmt64 r) (rh_dirs r)); [|exact Hd|].
  2:{ rewrite !app_length. cbn [length]. lia. }
  cbn [bind].
  rewrite (files_v4_loop_enc dbg be (rh_fmt64 r) (rh_files r)); [|exact Hf|].
  2:{ rewrite !app_length. cbn [length]. lia. }
  cbn [bind].
  unfold dirs_of_raw, files_of_raw. rewrite V4.
  f_equal. f_equal. destruct (rh_default_is_stmt r); reflexivity.
Qed.

(* a non-trivial instance: version 3, 64-bit format, two directories, two files, opcode_base 10 *)
Definition sample_raw : raw_header :=
  mk_raw true 3 8 4 1 false (-3)%Z 12 10 [x00; x01; x01; x01; x01; x00; x00; x00; x01]
    [] [[VString [x61; x62]]; [VString [x2f]]]
    [] [[VString [x78; x2e; x63]; VUdata 1; VUdata 18446744073709551615; VUdata 300];
        [VString [x79]; VUdata 0; VUdata 0; VUdata 0]].

Lemma sample_raw_wf be : raw_wf4 be sample_raw [x01; x02; x03].
Proof.
  constructor; cbn; try lia.
  - repeat constructor; eexists; repeat split; try reflexivity; discriminate.
  - repeat constructor; do 4 eexists; repeat split; try reflexivity; try discriminate; unfold two64; lia.
  - destruct be; vm_compute; reflexivity.
Qed.

Lemma sample_raw_header be :
  let h := header_of_raw be 4 sample_raw [x01; x02; x03] in
  (h_version h, h_addr_size h, h_max_ops h, h_line_base h, length (h_dirs h), length (h_files h),
   h_unit_length h, h_header_length h, h_program h) =
  (3, 4, 1, (-3)%Z, 2%nat, 2%nat, 56, 43, [x01; x02; x03]).
Proof. destruct be; vm_compute; reflexivity. Qed.
