(* Proofs/GenAgreeValueType.v — translator tie for src/read/value.rs: the tables of ValueType::bit_size,
   ValueType::from_encoding and Value::value_type regenerated from the source text (coq/Gen/ValueType.v)
   against Model/OpVal.v (vtype, width, tclass_of, bit_size). *)
From Coq Require Import List NArith Bool String Lia PeanoNat.
Require Import GV.Proofs.GenSweep.
Require GV.Gen.ValueType GV.Gen.Constants.
Require Import GV.Model.OpVal.
Import ListNotations.
Local Open Scope string_scope.
Local Open Scope N_scope.

(* the Rust name of each model constructor, in the declaration order of `enum ValueType` *)
Definition vtype_name (t : vtype) : string :=
  match t with
  | TGeneric => "Generic" | TI8 => "I8" | TU8 => "U8" | TI16 => "I16" | TU16 => "U16" | TI32 => "I32"
  | TU32 => "U32" | TI64 => "I64" | TU64 => "U64" | TF32 => "F32" | TF64 => "F64"
  end.
Definition all_vtypes : list vtype := [TGeneric; TI8; TU8; TI16; TU16; TI32; TU32; TI64; TU64; TF32; TF64].
Lemma all_vtypes_complete : forall t, In t all_vtypes.
Proof. destruct t; cbn; tauto. Qed.
Definition vtype_of_name (s : string) : option vtype := find (fun t => String.eqb s (vtype_name t)) all_vtypes.
Lemma vtype_of_name_name : forall t, vtype_of_name (vtype_name t) = Some t.
Proof. destruct t; reflexivity. Qed.

(* enum ValueType and enum Value have exactly the model's constructors, in the same order *)
Lemma gen_value_type_variants :
  ValueType.value_type_variants = map vtype_name all_vtypes /\
  ValueType.value_variants = map vtype_name all_vtypes.
Proof. split; reflexivity. Qed.

(* Value::value_type maps every variant to the ValueType of the same name (the model keeps one tag) *)
Lemma gen_value_type_identity :
  ValueType.value_type_table = map (fun t => (vtype_name t, vtype_name t)) all_vtypes.
Proof. reflexivity. Qed.

(* ValueType::bit_size, every type, every address mask *)
Definition gen_bit_size (t : vtype) (mask : N) : option N :=
  match sassoc (vtype_name t) ValueType.bit_size_table with
  | Some (Some n) => Some n
  | Some None => Some (mask_bit_size mask)
  | None => None
  end.
Lemma gen_bit_size_agree : forall t mask, gen_bit_size t mask = Some (bit_size t mask).
Proof. destruct t; reflexivity. Qed.
Lemma gen_bit_size_arms : sperm (map fst ValueType.bit_size_table) ValueType.value_type_variants = true.
Proof. vm_compute. reflexivity. Qed.

(* ValueType::from_encoding: DW_ATE class and byte size of every arm are the class and width of the model type *)
Definition ate_class (enc : N) : option tclass :=
  if enc =? Constants.DW_ATE_signed then Some CSigned
  else if enc =? Constants.DW_ATE_unsigned then Some CUnsigned
  else if enc =? Constants.DW_ATE_float then Some CFloat
  else None.
Definition tclass_eqb (a b : tclass) : bool :=
  match a, b with CGeneric, CGeneric | CSigned, CSigned | CUnsigned, CUnsigned | CFloat, CFloat => true | _, _ => false end.
Definition from_encoding_arm_ok (arm : (N * N) * string) : bool :=
  match vtype_of_name (snd arm), ate_class (fst (fst arm)) with
  | Some t, Some c => (width t =? 8 * snd (fst arm)) && tclass_eqb (tclass_of t) c
  | _, _ => false
  end.
Lemma gen_from_encoding_sound : forallb from_encoding_arm_ok ValueType.from_encoding_table = true.
Proof. vm_compute. reflexivity. Qed.
(* every typed (non-generic) model type is produced by exactly one arm *)
Definition from_encoding_arms_of (t : vtype) : list ((N * N) * string) :=
  filter (fun arm => String.eqb (snd arm) (vtype_name t)) ValueType.from_encoding_table.
Lemma gen_from_encoding_complete :
  forallb (fun t => Nat.eqb (List.length (from_encoding_arms_of t)) (if vtype_eqb t TGeneric then 0 else 1)) all_vtypes = true.
Proof. vm_compute. reflexivity. Qed.

(* readable corollaries *)
Lemma gen_from_encoding_arm : forall enc sz name, In ((enc, sz), name) ValueType.from_encoding_table ->
  exists t c, vtype_of_name name = Some t /\ ate_class enc = Some c /\ width t = 8 * sz /\ tclass_of t = c.
Proof.
  intros enc sz name H. pose proof (forallb_In _ _ _ gen_from_encoding_sound _ H) as S.
  unfold from_encoding_arm_ok in S. cbn [fst snd] in S.
  destruct (vtype_of_name name) as [t|]; [|discriminate]. destruct (ate_class enc) as [c|]; [|discriminate].
  apply andb_prop in S. destruct S as [S1 S2]. exists t, c. repeat split.
  - apply N.eqb_eq. exact S1.
  - destruct (tclass_of t), c; try discriminate; reflexivity.
Qed.
Lemma gen_from_encoding_bit_size : forall enc sz name t mask,
  In ((enc, sz), name) ValueType.from_encoding_table -> vtype_of_name name = Some t -> bit_size t mask = 8 * sz.
Proof.
  intros enc sz name t mask H E. destruct (gen_from_encoding_arm _ _ _ H) as [t' [c [E' [_ [W _]]]]].
  rewrite E in E'. injection E' as <-. rewrite <- W. destruct t; try reflexivity.
  (* no arm yields Generic *)
  exfalso. pose proof gen_from_encoding_complete as C. cbn [forallb all_vtypes] in C.
  apply andb_prop in C. destruct C as [C _]. cbn [vtype_eqb] in C. apply Nat.eqb_eq in C.
  apply length_zero_iff_nil in C.
  assert (I : In ((enc, sz), name) (from_encoding_arms_of TGeneric)).
  { unfold from_encoding_arms_of. apply filter_In. split; [exact H|]. cbn [snd].
    unfold vtype_of_name in E. apply find_some in E. destruct E as [_ E]. exact E. }
  rewrite C in I. exact I.
Qed.
