(* Proofs/ConvertLineSafe.v — property C12, ConvertLineProgram (Model/ConvertLine.v), part C:
   read_row never panics, its fuel suffices, the private row stays inside the address size, every returned event
   consumed input or left the SetAddress/ConvertRow states — for EVERY byte string (both build modes), for every
   header that LineProgramHeader::parse can produce (C04's hdr_ok). Then: the whole-program event iteration
   terminates within its fuel. Uses C04's parse_insn_good / execute_good. *)
From Coq Require Import List NArith ZArith Bool Lia ZifyBool ZifyN ZifyNat.
From Coq.Strings Require Import Byte.
Require Import GV.Base.Res GV.Base.Byt GV.Base.Ints GV.Model.Leb GV.Model.Prim GV.Spec.LineSpec GV.Model.LineRd
               GV.Proofs.LineRdBase GV.Proofs.LineRdMono GV.Model.LineWr GV.Model.ConvertLine
               GV.Proofs.ConvertLineProofs.
Import ListNotations.
Local Open Scope N_scope.
Local Arguments N.add : simpl never.
Local Arguments N.sub : simpl never.
Local Arguments N.mul : simpl never.
Local Arguments N.modulo : simpl never.
Local Arguments N.div : simpl never.
Local Arguments N.ltb : simpl never.
Local Arguments N.leb : simpl never.
Local Arguments N.eqb : simpl never.
Local Arguments N.of_nat : simpl never.

(* ------------------------------------------------------------------ DW_LNE_define_file *)

Lemma read_cstr_no_nul : forall bs s r, read_cstr bs = Ok (s, r) -> has_nul s = false.
Proof.
  induction bs as [|b bs IH]; cbn [read_cstr]; intros s r H; [discriminate|].
  destruct (b2n b =? 0) eqn:E.
  { inversion H. reflexivity. }
  destruct (read_cstr bs) as [[s' t]|e| |]; cbn [bind] in H; try discriminate.
  inversion H; subst. unfold has_nul. cbn [existsb]. rewrite E. cbn [orb]. exact (IH _ _ eq_refl).
Qed.

(* what the decoder guarantees about a DW_LNE_define_file entry: an inline NUL-free path, no source *)
Definition define_ok (f : file_entry) : Prop :=
  exists p, fe_path f = VString p /\ has_nul p = false /\ fe_source f = None.

Ltac crunch H :=
  repeat match type of H with
  | bind ?x _ = Ok _ =>
      let v := fresh "v" in let E := fresh "E" in
      destruct x as [v|?| |] eqn:E; cbn [bind] in H; try discriminate H;
      try match type of v with (_ * _)%type => destruct v end
  | (if ?c then _ else _) = Ok _ => let E := fresh "E" in destruct c eqn:E; try discriminate H
  end.

Lemma parse_define_file dbg be h inp f rest :
  parse_insn dbg be h inp = Ok (LineSpec.IDefineFile f, rest) -> define_ok f.
Proof.
  unfold parse_insn. destruct inp as [|b input]; [discriminate|]. intros H.
  crunch H; try (inversion H; fail).
  inversion H; subst. clear H.
  match goal with Hf : file_entry_parse _ _ _ = Ok _ |- _ => unfold file_entry_parse in Hf; crunch Hf;
    inversion Hf; subst end.
  match goal with Hc : read_cstr _ = Ok _ |- _ => apply read_cstr_no_nul in Hc; rename Hc into Hn end.
  eexists. cbn. repeat split; [exact Hn].
Qed.

Lemma bytes_eqb_nil p : bytes_eqb p [] = false -> p <> [].
Proof. unfold bytes_eqb. destruct (list_eq_dec Byte.byte_eq_dec p []); [discriminate|auto]. Qed.

Lemma add_file_total p name d info :
  (match name with
   | LStr val => has_nul val = false /\ ((e_version (p_enc p) <=? 4) = true -> val <> [])
   | _ => True
   end) ->
  exists r, LineWr.add_file p name d info = Ok r.
Proof.
  intros Hn. unfold LineWr.add_file.
  assert (G : (match name with
               | LStr val =>
                   if (e_version (p_enc p) <=? 4) && (match val with [] => true | _ => false end) then Panic
                   else if has_nul val then Panic else Ok tt
               | _ => Ok tt
               end) = Ok tt).
  { destruct name as [val|id|id]; try reflexivity. destruct Hn as [Hn He]. rewrite Hn.
    destruct (e_version (p_enc p) <=? 4); cbn [andb]; [|reflexivity].
    destruct val; [exfalso; apply He; reflexivity|reflexivity]. }
  rewrite G. cbn [bind].
  destruct (file_find (p_files p) (name, d) 0); destruct info; eauto.
Qed.

(* convert_file + add_file on a decoded define_file entry: an error or a new FileId, never a panic *)
Lemma define_file_safe sx dirs ls p f :
  define_ok f ->
  match convert_file sx (p_enc p) dirs ls f with
  | Ok (name, d, info, ls') => exists r, LineWr.add_file p name d info = Ok r
  | Err _ => True
  | _ => False
  end.
Proof.
  intros (path & Ep & Hn & Es). unfold convert_file, convert_string, attr_line_string, lstr_new.
  rewrite Ep, Es. cbn [bind].
  destruct (e_version (p_enc p) <=? 4) eqn:V; cbn [bind].
  - cbn [lstr_eqb andb].
    destruct (bytes_eqb path []) eqn:Eb; [exact I|].
    destruct (N.of_nat (length dirs) <=? fe_dir f) eqn:Ed; [exact I|].
    destruct (nth_error dirs (N.to_nat (fe_dir f))) as [d|] eqn:En.
    + cbn [unwrap bind]. apply add_file_total. split; [exact Hn|]. intros _. apply bytes_eqb_nil. exact Eb.
    + apply nth_error_None in En. lia.
  - unfold tab_add. rewrite Hn. destruct (tab_find ls path 0); cbn [bind andb].
    + destruct (N.of_nat (length dirs) <=? fe_dir f) eqn:Ed; [exact I|].
      destruct (nth_error dirs (N.to_nat (fe_dir f))) as [d|] eqn:En.
      * cbn [unwrap bind]. apply add_file_total. exact I.
      * apply nth_error_None in En. lia.
    + destruct (N.of_nat (length dirs) <=? fe_dir f) eqn:Ed; [exact I|].
      destruct (nth_error dirs (N.to_nat (fe_dir f))) as [d|] eqn:En.
      * cbn [unwrap bind]. apply add_file_total. exact I.
      * apply nth_error_None in En. lia.
Qed.

(* ------------------------------------------------------------------ read_row *)

Definition rl_post (h : header) (c : cl) (o : rr_out) : Prop :=
  let '(out, c') := o in
  out <> Panic /\ out <> OutOfFuel /\ r_addr (cl_row c') <= amask h /\ sfx (cl_inp c') (cl_inp c) /\
  (forall ev, out = Ok (Some ev) ->
     (length (cl_inp c') < length (cl_inp c))%nat /\ (cl_st c' = cl_st c \/ cl_st c' = CSReadRow \/ cl_st c' = CSConvertRow)) /\
  (out = Ok None -> cl_inp c' = []).

Lemma ret_row_post h c0 c :
  r_addr (cl_row c) <= amask h -> sfx (cl_inp c) (cl_inp c0) -> (length (cl_inp c) < length (cl_inp c0))%nat ->
  (cl_st c = cl_st c0 \/ cl_st c = CSReadRow \/ cl_st c = CSConvertRow) ->
  rl_post h c0 (ret_row h c).
Proof.
  intros Ha Hs Hl Hst. unfold ret_row. pose proof (convert_row_exact h c) as X.
  destruct (convert_row h c) as [w|e| |]; try contradiction; cbn;
    repeat split; try discriminate; auto.
Qed.

Lemma rl_post_step h c0 c o :
  sfx (cl_inp c) (cl_inp c0) -> (length (cl_inp c) <= length (cl_inp c0))%nat -> cl_st c = cl_st c0 ->
  rl_post h c o -> rl_post h c0 o.
Proof.
  intros Hs Hl Hst. unfold rl_post. destruct o as [out c'].
  intros (P1 & P2 & P3 & P4 & P5 & P6). repeat split; auto.
  - eapply sfx_trans; eassumption.
  - destruct (P5 ev H) as [? ?]. eapply Nat.lt_le_trans; eassumption.
  - destruct (P5 ev H) as [_ Q]. rewrite <- Hst. exact Q.
Qed.

Lemma read_loop_post dbg be sx h : hdr_ok h ->
  forall fuel c tomb,
  r_addr (cl_row c) <= amask h -> (length (cl_inp c) < fuel)%nat ->
  rl_post h c (read_loop fuel dbg be sx h c tomb).
Proof.
  intros Hh. pose proof Hh as (Hlr & Hmo & Hob & Hsz).
  induction fuel as [|f IH]; intros c tomb Ha Hf; [lia|].
  cbn [read_loop].
  destruct (cl_inp c) as [|b input] eqn:Einp.
  { cbn. rewrite Einp. repeat split; try discriminate; auto. apply sfx_refl. }
  pose proof (parse_insn_good dbg be h (b :: input)) as G.
  destruct (parse_insn dbg be h (b :: input)) as [[i rest]|e| |] eqn:EP; cbn [good] in G; try contradiction.
  2:{ cbn. rewrite Einp. repeat split; try discriminate; auto. exists (b :: input). now rewrite app_nil_r. }
  destruct G as (Gs & Gl & Gi); cbn [fst snd] in *.
  set (c1 := with_inp rest c).
  assert (S1 : sfx (cl_inp c1) (cl_inp c)) by (rewrite Einp; exact Gs).
  assert (L1 : (length (cl_inp c1) < length (cl_inp c))%nat) by (rewrite Einp; exact Gl).
  assert (A1 : r_addr (cl_row c1) <= amask h) by exact Ha.
  assert (F1 : (length (cl_inp c1) < f)%nat) by (change (length rest < f)%nat; cbn [length] in Gl, Hf; lia).
  (* the generic continuation: recursion on a state with the same input as c1 *)
  assert (K : forall c2 tomb2, cl_inp c2 = cl_inp c1 -> cl_st c2 = cl_st c -> r_addr (cl_row c2) <= amask h ->
              rl_post h c (read_loop f dbg be sx h c2 tomb2)).
  { intros c2 tomb2 E2 Est A2. eapply rl_post_step with (c := c2); [rewrite E2; exact S1|rewrite E2; lia|exact Est|].
    apply IH; [exact A2|rewrite E2; exact F1]. }
  (* the default branch: every instruction except set_address / define_file *)
  assert (D : forall i0, insn_ok h i0 ->
    rl_post h c
      (match execute dbg h (cl_row c1) i0 with
       | Err e => (Err e, c1) | Panic => (Panic, c1) | OutOfFuel => (OutOfFuel, c1)
       | Ok (r', XErr e) => (Err e, with_row r' c1)
       | Ok (r', XNoRow) => read_loop f dbg be sx h (with_row r' c1) tomb
       | Ok (r', XRow) =>
           let c := with_row r' c1 in
           if tomb then
             let c1 := if r_end r' then with_addr None c else c in
             read_loop f dbg be sx h (with_row (row_reset h r') c1) (if r_end r' then false else tomb)
           else if r_end r' then
             match convert_address_offset c with
             | Ok ao => (Ok (Some (CREndSequence ao)), c) | Err e => (Err e, c)
             | Panic => (Panic, c) | OutOfFuel => (OutOfFuel, c)
             end
           else
             match cl_addr c with
             | Some a => (Ok (Some (CRSetAddress a)), with_st CSConvertRow (with_addr None c))
             | None => ret_row h (with_st CSReadRow c)
             end
       end)).
  { intros i0 Hi0.
    pose proof (execute_good dbg h (cl_row c1) i0 Hh Hi0 A1) as X.
    destruct (execute dbg h (cl_row c1) i0) as [[r' x]|e| |]; cbn [good] in X; try contradiction.
    2:{ cbn. repeat split; try discriminate; auto. }
    cbn [fst] in X. destruct X as [X1 X2].
    destruct x as [| |e].
    - (* XRow *) cbv zeta.
      destruct tomb.
      + apply K; [destruct (r_end r'); reflexivity|destruct (r_end r'); reflexivity|].
        assert (R : r_addr (row_reset h r') <= amask h).
        { rewrite row_reset_addr. destruct (r_end r'); [lia|exact X2]. }
        destruct (r_end r'); exact R.
      + destruct (r_end r').
        * pose proof (address_offset_exact (with_row r' c1)) as AO.
          destruct (convert_address_offset (with_row r' c1)) as [ao|e| |]; try contradiction; cbn;
            repeat split; try discriminate; auto; intros; try lia.
        * destruct (cl_addr (with_row r' c1)) as [a|].
          -- cbn. repeat split; try discriminate; auto.
          -- apply ret_row_post; cbn; auto.
    - (* XNoRow *) apply K; [reflexivity|reflexivity|exact X2].
    - (* XErr *) cbn. repeat split; try discriminate; auto. }
  destruct i; try (apply D; exact Gi).
  - (* ISetAddress *)
    assert (Hi0 : insn_ok h (LineSpec.ISetAddress 0)).
    { cbn. split; [lia|exact Hsz]. }
    pose proof (execute_good dbg h (cl_row c1) (LineSpec.ISetAddress 0) Hh Hi0 A1) as X.
    destruct (execute dbg h (cl_row c1) (LineSpec.ISetAddress 0)) as [[r' x]|e| |]; cbn [good] in X; try contradiction.
    2:{ cbn. repeat split; try discriminate; auto. }
    cbn [fst] in X. destruct X as [X1 X2].
    destruct x as [| |e];
      try (rewrite (ones_sized_ok dbg (h_addr_size h) Hsz); cbv zeta;
           apply K; [destruct (a =? mask_of (h_addr_size h)); reflexivity
                    |destruct (a =? mask_of (h_addr_size h)); reflexivity
                    |destruct (a =? mask_of (h_addr_size h)); exact X2]).
    cbn. repeat split; try discriminate; auto.
  - (* IDefineFile *)
    pose proof (define_file_safe sx (cl_dirs c1) (cl_ls c1) (cl_prog c1) f0 (parse_define_file _ _ _ _ _ _ EP)) as DF.
    destruct (convert_file sx (p_enc (cl_prog c1)) (cl_dirs c1) (cl_ls c1) f0) as [[[[name d] info] ls']|e| |];
      try contradiction.
    + destruct DF as [[p' id] ->]. apply K; [reflexivity|reflexivity|exact A1].
    + cbn. repeat split; try discriminate; auto.
Qed.

Definition cl_ok (h : header) (c : cl) : Prop := r_addr (cl_row c) <= amask h.

(* measure that every successful read_row call decreases *)
Definition st_weight (s : cstate) : nat := match s with CSReadRow => 0 | CSConvertRow => 1 | CSSetAddress => 2 end.
Definition measure (c : cl) : nat := 2 * length (cl_inp c) + st_weight (cl_st c).

Definition rr_post (h : header) (c : cl) (o : rr_out) : Prop :=
  let '(out, c') := o in
  out <> Panic /\ out <> OutOfFuel /\ cl_ok h c' /\ sfx (cl_inp c') (cl_inp c) /\
  (forall ev, out = Ok (Some ev) -> (measure c' < measure c)%nat) /\
  (out = Ok None -> cl_inp c' = []).

Lemma read_row_post dbg be sx h c : hdr_ok h -> cl_ok h c -> rr_post h c (read_row dbg be sx h c).
Proof.
  intros Hh Ha. unfold read_row, cl_ok in *.
  destruct (cl_st c) eqn:Est.
  - (* ReadRow *)
    set (c0 := with_row (row_reset h (cl_row c)) (with_addr None c)).
    assert (A0 : r_addr (cl_row c0) <= amask h).
    { cbn. rewrite row_reset_addr. destruct (r_end (cl_row c)); [lia|exact Ha]. }
    pose proof (read_loop_post dbg be sx h Hh (S (length (cl_inp c0))) c0 false A0 ltac:(lia)) as P.
    unfold rl_post, rr_post in *. destruct (read_loop _ dbg be sx h c0 false) as [out c'].
    destruct P as (P1 & P2 & P3 & P4 & P5 & P6). repeat split; auto.
    intros ev Hev. destruct (P5 ev Hev) as [L Q]. unfold measure. cbn [cl_inp cl_st c0 with_row with_addr] in L, Q.
    rewrite Est in *. destruct Q as [Q|[Q|Q]]; rewrite Q; cbn [st_weight]; lia.
  - (* SetAddress *)
    destruct (cl_addr c) as [a|].
    + cbn. unfold measure. cbn. rewrite Est. cbn. repeat split; try discriminate; auto; try apply sfx_refl. intros; lia.
    + pose proof (convert_row_exact h (with_st CSReadRow c)) as X. unfold ret_row.
      destruct (convert_row h (with_st CSReadRow c)) as [w|e| |]; try contradiction; cbn; unfold measure; cbn;
        rewrite ?Est; cbn; repeat split; try discriminate; auto; try apply sfx_refl; intros; lia.
  - (* ConvertRow *)
    pose proof (convert_row_exact h (with_st CSReadRow c)) as X. unfold ret_row.
    destruct (convert_row h (with_st CSReadRow c)) as [w|e| |]; try contradiction; cbn; unfold measure; cbn;
      rewrite ?Est; cbn; repeat split; try discriminate; auto; try apply sfx_refl; intros; lia.
Qed.

(* ------------------------------------------------------------------ the whole-program iteration *)

Lemma events_loop_post dbg be sx h : hdr_ok h ->
  forall fuel c, cl_ok h c -> (measure c < fuel)%nat ->
  let '(evs, s, cf) := events_loop fuel dbg be sx h c in s <> SPanic /\ s <> SFuel /\ cl_ok h cf.
Proof.
  intros Hh. induction fuel as [|f IH]; intros c Ha Hf; [lia|].
  cbn [events_loop]. pose proof (read_row_post dbg be sx h c Hh Ha) as P. unfold rr_post in P.
  destruct (read_row dbg be sx h c) as [out c']. destruct P as (P1 & P2 & P3 & P4 & P5 & P6).
  destruct out as [[ev|]|e| |]; try contradiction; try (repeat split; try discriminate; assumption).
  - specialize (IH c' P3 ltac:(specialize (P5 ev eq_refl); lia)).
    destruct (events_loop f dbg be sx h c') as [[evs s] cf]. exact IH.
Qed.

Lemma seq_fuel_enough c : (measure c < seq_fuel c)%nat.
Proof. unfold measure, seq_fuel. destruct (cl_st c); cbn [st_weight]; lia. Qed.

(* ------------------------------------------------------------------ packaged statements *)

(* ConvertLineProgram::new starts inside the invariant *)
Lemma cl_new_ok dbg sx s ls c : cl_new dbg sx s ls = Ok c -> cl_ok (sh_h s) c /\ cl_st c = CSReadRow.
Proof.
  unfold cl_new. intros H.
  repeat match type of H with
  | bind ?x _ = Ok _ =>
      let v := fresh "v" in let E := fresh "E" in
      destruct x as [v|?| |] eqn:E; cbn [bind] in H; try discriminate H;
      repeat match goal with v : (_ * _)%type |- _ => destruct v end
  | (if ?c then _ else _) = Ok _ => let E := fresh "E" in destruct c eqn:E; try discriminate H
  end.
  inversion H; subst. unfold cl_ok. cbn. split; [lia|reflexivity].
Qed.

Lemma read_row_safe dbg be sx h c : hdr_ok h -> cl_ok h c ->
  fst (read_row dbg be sx h c) <> Panic /\ fst (read_row dbg be sx h c) <> OutOfFuel /\
  cl_ok h (snd (read_row dbg be sx h c)) /\
  (forall ev, fst (read_row dbg be sx h c) = Ok (Some ev) -> (measure (snd (read_row dbg be sx h c)) < measure c)%nat).
Proof.
  intros Hh Ha. pose proof (read_row_post dbg be sx h c Hh Ha) as P. unfold rr_post in P.
  destruct (read_row dbg be sx h c) as [out c']. cbn [fst snd].
  destruct P as (P1 & P2 & P3 & _ & P5 & _). auto.
Qed.

Lemma events_terminate dbg be sx h c : hdr_ok h -> cl_ok h c ->
  snd (fst (events dbg be sx h c)) <> SPanic /\ snd (fst (events dbg be sx h c)) <> SFuel.
Proof.
  intros Hh Ha. unfold events.
  pose proof (events_loop_post dbg be sx h Hh (seq_fuel c) c Ha (seq_fuel_enough c)) as P.
  destruct (events_loop (seq_fuel c) dbg be sx h c) as [[evs s] cf]. cbn [fst snd]. tauto.
Qed.
