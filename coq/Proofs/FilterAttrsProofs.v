(* Proofs/FilterAttrsProofs.v — same attributes as the unfiltered conversion, no dangling id (C19).
   For every DIE of the reserved set, ConvertUnit::convert_attributes under the filter's entry_ids and under
   the entry_ids of the unfiltered conversion give the same result once every id is read back as the source DIE
   it stands for: same attributes in the same order, same bodies, references to the same source DIEs, or the
   same error. *)
From Coq Require Import List NArith ZArith Bool Lia.
Require Import GV.Base.Res GV.Base.Ints GV.Spec.Graph GV.Model.Filter GV.Spec.FilterSpec GV.Model.FilterAttrs.
Require Import GV.Proofs.FilterProofs GV.Proofs.FilterEdges GV.Proofs.FilterConv.
Import ListNotations.
Local Open Scope N_scope.
Local Arguments N.add : simpl never.

(* ========================================================================================== *)
(* nested induction on attribute trees                                                         *)
Section ATreeInd.
  Variable P : atree -> Prop.
  Variable Q : list atree -> Prop.
  Hypothesis HN : forall e ks, Q ks -> P (ANode e ks).
  Hypothesis Hnil : Q [].
  Hypothesis Hcons : forall t l, P t -> Q l -> Q (t :: l).
  Fixpoint atree_ind2 (t : atree) : P t :=
    match t with
    | ANode e ks =>
        HN e ks ((fix go (l : list atree) : Q l :=
                    match l with
                    | [] => Hnil
                    | t' :: l' => Hcons t' l' (atree_ind2 t') (go l')
                    end) ks)
    end.
  Lemma aforest_ind2 : forall l, Q l.
  Proof. induction l as [|t l IH]; [exact Hnil|]. apply Hcons; auto. apply atree_ind2. Qed.
End ATreeInd.

Lemma aforest_entries_pairs : forall l top,
  map entry_of (aforest_entries l) = map fst (forest_pairs top (map tree_of l)).
Proof.
  apply (aforest_ind2
           (fun t => forall top, map entry_of (atree_entries t) = map fst (tree_pairs top (tree_of t)))
           (fun l => forall top, map entry_of (aforest_entries l) = map fst (forest_pairs top (map tree_of l)))).
  - intros e ks IH top. cbn [tree_of]. rewrite tree_pairs_eq. cbn [map fst].
    replace (atree_entries (ANode e ks)) with (e :: aforest_entries ks) by reflexivity.
    cbn [map]. f_equal. apply IH.
  - reflexivity.
  - intros t l Ht Hl top. cbn [aforest_entries map forest_pairs]. rewrite !map_app, <- Ht, <- Hl. reflexivity.
Qed.

(* every DIE of the attribute forest is a DIE of the forest the filter works on *)
Lemma aentry_occurs : forall aunits au e, In au aunits -> In e (aunit_entries au) ->
  exists par, occurs (map unit_of aunits) (unit_of au) (entry_of e) par.
Proof.
  intros aunits au e Hau He.
  assert (H : In (entry_of e) (map fst (unit_pairs (unit_of au)))).
  { unfold unit_pairs, unit_of. cbn [u_kids]. rewrite <- aforest_entries_pairs. now apply in_map. }
  apply in_map_iff in H. destruct H as [[e' par] [Heq Hin]]. cbn [fst] in Heq. subst e'.
  exists par. split; [now apply in_map|exact Hin].
Qed.

(* ========================================================================================== *)
(* entry_ids                                                                                   *)

Lemma im_get_in : forall y m id, im_get y m = Some id -> In (y, id) m.
Proof.
  intros y m. induction m as [|[k v] m IH]; intros id H; cbn [im_get] in H; [discriminate|].
  destruct (im_get y m) as [v'|] eqn:E.
  - right. apply IH. congruence.
  - destruct (y =? k) eqn:Ek; [|discriminate]. apply N.eqb_eq in Ek. left. congruence.
Qed.

Lemma im_get_none : forall y m, im_get y m = None <-> ~ In y (map fst m).
Proof.
  intros y m. induction m as [|[k v] m IH]; cbn [im_get map fst In]; [tauto|].
  destruct (im_get y m) as [v'|] eqn:E.
  - split; [discriminate|]. intros H. exfalso. apply H. right.
    apply im_get_in in E. apply in_map_iff. exists (y, v'). auto.
  - destruct (y =? k) eqn:Ek.
    + apply N.eqb_eq in Ek. split; [discriminate|]. intros H. exfalso. apply H. left. congruence.
    + apply N.eqb_neq in Ek. split; [|reflexivity]. intros _ [H|H]; [congruence|]. now apply IH.
Qed.

Lemma im_src_in : forall id m y, NoDup (map snd m) -> In (y, id) m -> im_src id m = Some y.
Proof.
  intros id m y. induction m as [|[k [a b]] m IH]; intros Hnd Hin; [destruct Hin|].
  cbn [map snd] in Hnd. inversion Hnd as [|? ? Hnot Hnd']; subst. cbn [im_src].
  destruct Hin as [Heq|Hin].
  - inversion Heq; subst. cbn [fst snd]. now rewrite !N.eqb_refl.
  - destruct ((a =? fst id) && (b =? snd id)) eqn:E.
    + exfalso. apply andb_true_iff in E. destruct E as [E1 E2]. apply N.eqb_eq in E1, E2.
      apply Hnot. apply in_map_iff. exists (y, id). split; [|exact Hin].
      destruct id as [i1 i2]. cbn [fst snd] in *. cbn [snd]. congruence.
    + now apply IH.
Qed.

Lemma combine_fst_len : forall (A B : Type) (l : list A) (l' : list B), length l = length l' ->
  map fst (combine l l') = l.
Proof.
  intros A B l. induction l as [|x l IH]; intros [|y l'] H; cbn in *; try discriminate; auto.
  f_equal. apply IH. lia.
Qed.
Lemma combine_snd_len : forall (A B : Type) (l : list A) (l' : list B), length l = length l' ->
  map snd (combine l l') = l'.
Proof.
  intros A B l. induction l as [|x l IH]; intros [|y l'] H; cbn in *; try discriminate; auto.
  f_equal. apply IH. lia.
Qed.

Lemma section_ids_keys : forall units sl j, map fst (section_ids j units sl) = reserve_all units sl.
Proof.
  induction units as [|u us IH]; intros [|s sl] j; cbn [section_ids reserve_all]; try reflexivity.
  rewrite map_app, IH. unfold unit_ids. cbn [map fst app]. f_equal. f_equal.
  apply combine_fst_len. now rewrite map_length, seq_length.
Qed.

Lemma section_ids_units_ge : forall units sl j id, In id (map snd (section_ids j units sl)) -> j <= fst id.
Proof.
  induction units as [|u us IH]; intros [|s sl] j id H; cbn [section_ids] in H; try (now destruct H).
  rewrite map_app, in_app_iff in H. destruct H as [H|H].
  - unfold unit_ids in H. cbn [map snd] in H. destruct H as [<-|H]; [cbn; lia|].
    rewrite combine_snd_len in H by now rewrite map_length, seq_length.
    apply in_map_iff in H. destruct H as [i [<- _]]. cbn. lia.
  - apply IH in H. lia.
Qed.

Lemma nodup_app : forall (A : Type) (l1 l2 : list A), NoDup l1 -> NoDup l2 ->
  (forall x, In x l1 -> In x l2 -> False) -> NoDup (l1 ++ l2).
Proof.
  intros A l1. induction l1 as [|a l1 IH]; intros l2 H1 H2 Hd; [exact H2|].
  inversion H1; subst. cbn. constructor.
  - rewrite in_app_iff. intros [H|H]; [auto|]. apply (Hd a); [now left|exact H].
  - apply IH; auto. intros x Hx. apply Hd. now right.
Qed.

Lemma section_ids_nodup : forall units sl j, NoDup (map snd (section_ids j units sl)).
Proof.
  induction units as [|u us IH]; intros [|s sl] j; cbn [section_ids]; try apply NoDup_nil.
  rewrite map_app. apply nodup_app.
  - unfold unit_ids. cbn [map snd]. rewrite combine_snd_len by now rewrite map_length, seq_length.
    constructor.
    + intros H. apply in_map_iff in H. destruct H as [i [Heq Hi]]. apply in_seq in Hi.
      inversion Heq. lia.
    + apply FinFun.Injective_map_NoDup; [|apply seq_NoDup].
      intros a b Hab. inversion Hab. lia.
  - apply IH.
  - intros id H1 H2. apply section_ids_units_ge in H2.
    unfold unit_ids in H1. cbn [map snd] in H1. destruct H1 as [<-|H1]; [cbn in H2; lia|].
    rewrite combine_snd_len in H1 by now rewrite map_length, seq_length.
    apply in_map_iff in H1. destruct H1 as [i [<- _]]. cbn in H2. lia.
Qed.

(* ========================================================================================== *)
(* reading converted references back as source DIEs                                            *)

Definition dec (m : idmap) (r : res (list eid)) : res (list (option N)) :=
  let* l := r in Ok (map (fun id => im_src id m) l).

(* the two maps agree on the offset y: unknown to both, or known to both under ids that stand for y *)
Definition agree (mF mA : idmap) (y : N) : Prop :=
  (im_get y mF = None /\ im_get y mA = None) \/
  (exists idF idA, im_get y mF = Some idF /\ im_get y mA = Some idA /\
                   im_src idF mF = Some y /\ im_src idA mA = Some y).

Lemma dec_unit_ref : forall u mF mA v, (forall y, In y (unit_target u v) -> agree mF mA y) ->
  dec mF (one (cv_unit_ref u mF v)) = dec mA (one (cv_unit_ref u mA v)).
Proof.
  intros u mF mA v H. unfold cv_unit_ref, unit_target in *. destruct (in_bounds u v); cbn [negb]; [|reflexivity].
  destruct (H (sec u v) (or_introl eq_refl)) as [[H1 H2]|[idF [idA [H1 [H2 [H3 H4]]]]]]; rewrite H1, H2; cbn.
  - reflexivity.
  - now rewrite H3, H4.
Qed.

Lemma dec_info_ref : forall mF mA v, agree mF mA v ->
  dec mF (one (cv_info_ref mF v)) = dec mA (one (cv_info_ref mA v)).
Proof.
  intros mF mA v H. unfold cv_info_ref.
  destruct H as [[H1 H2]|[idF [idA [H1 [H2 [H3 H4]]]]]]; rewrite H1, H2; cbn.
  - reflexivity.
  - now rewrite H3, H4.
Qed.

Lemma dec_op : forall u mF mA op v, (forall y, In y (conv_op_refs u op v) -> agree mF mA y) ->
  dec mF (cv_op u mF op v) = dec mA (cv_op u mA op v).
Proof.
  intros u mF mA op v H. destruct op; cbn [cv_op conv_op_refs] in *;
    try (destruct (v =? 0); [reflexivity|]); try (now apply dec_unit_ref);
    apply dec_info_ref; apply H; now left.
Qed.

Lemma dec_site : forall u mF mA s, (forall y, In y (conv_refs u s) -> agree mF mA y) ->
  dec mF (cv_site u mF s) = dec mA (cv_site u mA s).
Proof.
  intros u mF mA [car v] H. unfold cv_site, conv_refs in *. cbn [s_car s_val] in *.
  destruct car as [| |nest op|k nest op].
  - now apply dec_unit_ref.
  - apply dec_info_ref. apply H. now left.
  - now apply dec_op.
  - pose proof (dec_op u mF mA op v H) as Hd.
    destruct (cv_op u mF op v) as [l1| | |], (cv_op u mA op v) as [l2| | |]; cbn in Hd |- *;
      try discriminate; try exact Hd.
    destruct k; cbn; try exact Hd; reflexivity.
Qed.

Lemma dec_bind2 : forall m (ra rb : res (list eid)),
  dec m (let* a := ra in let* b := rb in Ok (a ++ b)) =
  (let* a := dec m ra in let* b := dec m rb in Ok (a ++ b)).
Proof.
  intros m ra rb. destruct ra as [a| | |]; cbn; try reflexivity.
  destruct rb as [b| | |]; cbn; try reflexivity. now rewrite map_app.
Qed.

Lemma dec_sites : forall u mF mA ss, (forall s y, In s ss -> In y (conv_refs u s) -> agree mF mA y) ->
  dec mF (cv_sites u mF ss) = dec mA (cv_sites u mA ss).
Proof.
  intros u mF mA ss. induction ss as [|s ss IH]; intros H; [reflexivity|].
  cbn [cv_sites]. rewrite !dec_bind2.
  rewrite (dec_site u mF mA s) by (intros y Hy; apply (H s y); [now left|exact Hy]).
  rewrite IH by (intros s' y Hs' Hy; apply (H s' y); [now right|exact Hy]). reflexivity.
Qed.

Lemma decode_attrs_cons : forall m name body (X : res (list eid)) (Y : res (list cattr)),
  decode_attrs m (let* ids := X in let* r := Y in Ok ({| ca_name := name; ca_body := body; ca_refs := ids |} :: r)) =
  (let* ids := dec m X in let* r := decode_attrs m Y in
   Ok ({| da_name := name; da_body := body; da_refs := ids |} :: r)).
Proof.
  intros m name body X Y. destruct X as [a| | |]; cbn; try reflexivity.
  destruct Y as [b| | |]; cbn; reflexivity.
Qed.

Lemma decode_attributes_eq : forall u mF mA l,
  (forall a s y, In a l -> (at_name a =? DW_AT_GNU_locviews) = false -> In s (at_sites a) ->
                 In y (conv_refs u s) -> agree mF mA y) ->
  decode_attrs mF (cv_attributes u mF l) = decode_attrs mA (cv_attributes u mA l).
Proof.
  intros u mF mA l. induction l as [|a l IH]; intros H; [reflexivity|].
  cbn [cv_attributes]. destruct (at_name a =? DW_AT_GNU_locviews) eqn:E.
  - apply IH. intros a' s y Ha'. apply H. now right.
  - rewrite !decode_attrs_cons.
    rewrite (dec_sites u mF mA (at_sites a)) by (intros s y Hs Hy; apply (H a s y); auto; now left).
    rewrite IH by (intros a' s y Ha'; apply H; now right). reflexivity.
Qed.

(* the same for the tolerant loop: the same attributes survive *)
Lemma decode_attributes_tol_eq : forall u mF mA l,
  (forall a s y, In a l -> (at_name a =? DW_AT_GNU_locviews) = false -> In s (at_sites a) ->
                 In y (conv_refs u s) -> agree mF mA y) ->
  map (decode_attr mF) (cv_attributes_tol u mF l) = map (decode_attr mA) (cv_attributes_tol u mA l).
Proof.
  intros u mF mA l. induction l as [|a l IH]; intros H; [reflexivity|].
  cbn [cv_attributes_tol]. destruct (at_name a =? DW_AT_GNU_locviews) eqn:E.
  - apply IH. intros a' s y Ha'. apply H. now right.
  - assert (Hd : dec mF (cv_sites u mF (at_sites a)) = dec mA (cv_sites u mA (at_sites a))).
    { apply dec_sites. intros s y Hs Hy. apply (H a s y); auto. now left. }
    assert (IH' : map (decode_attr mF) (cv_attributes_tol u mF l) = map (decode_attr mA) (cv_attributes_tol u mA l)).
    { apply IH. intros a' s y Ha'. apply H. now right. }
    destruct (cv_sites u mF (at_sites a)) as [l1| | |], (cv_sites u mA (at_sites a)) as [l2| | |];
      cbn in Hd; try discriminate; try exact IH'.
    cbn [map]. rewrite IH'. unfold decode_attr at 1 3. cbn [ca_name ca_body ca_refs]. inversion Hd. reflexivity.
Qed.

(* every id a conversion puts into an attribute was found in entry_ids *)
Lemma cv_site_ids : forall u m s l id, cv_site u m s = Ok l -> In id l -> exists y, im_get y m = Some id.
Proof.
  intros u m [car v] l id H Hin. unfold cv_site in H. cbn [s_car s_val] in H.
  assert (Hu : forall l, one (cv_unit_ref u m v) = Ok l -> In id l -> exists y, im_get y m = Some id).
  { intros l0 H0 Hin0. unfold cv_unit_ref, one in H0. destruct (negb (in_bounds u v)); [discriminate|].
    destruct (im_get (sec u v) m) as [i|] eqn:E; cbn in H0; [|discriminate].
    inversion H0; subst. destruct Hin0 as [<-|[]]. eauto. }
  assert (Hi : forall l, one (cv_info_ref m v) = Ok l -> In id l -> exists y, im_get y m = Some id).
  { intros l0 H0 Hin0. unfold cv_info_ref, one in H0.
    destruct (im_get v m) as [i|] eqn:E; cbn in H0; [|discriminate].
    inversion H0; subst. destruct Hin0 as [<-|[]]. eauto. }
  assert (Ho : forall op l, cv_op u m op v = Ok l -> In id l -> exists y, im_get y m = Some id).
  { intros op l0 H0 Hin0. destruct op; cbn [cv_op] in H0;
      try (destruct (v =? 0); [inversion H0; subst; destruct Hin0|]); eauto. }
  destruct car as [| |nest op|k nest op]; eauto.
  destruct (cv_op u m op v) as [l0| | |] eqn:E; cbn in H; try discriminate.
  inversion H; subst. destruct k; eauto; destruct Hin.
Qed.

Lemma cv_sites_ids : forall u m ss l id, cv_sites u m ss = Ok l -> In id l -> exists y, im_get y m = Some id.
Proof.
  intros u m ss. induction ss as [|s ss IH]; intros l id H Hin; cbn [cv_sites] in H.
  - inversion H; subst. destruct Hin.
  - destruct (cv_site u m s) as [a| | |] eqn:Ea; cbn in H; try discriminate.
    destruct (cv_sites u m ss) as [b| | |] eqn:Eb; cbn in H; try discriminate.
    inversion H; subst. apply in_app_iff in Hin. destruct Hin as [Hin|Hin].
    + eapply cv_site_ids; eauto.
    + eapply IH; eauto.
Qed.

Lemma cv_attributes_ids : forall u m l out a id, cv_attributes u m l = Ok out -> In a out -> In id (ca_refs a) ->
  exists y, im_get y m = Some id.
Proof.
  intros u m l. induction l as [|a0 l IH]; intros out a id H Ha Hid; cbn [cv_attributes] in H.
  - inversion H; subst. destruct Ha.
  - destruct (at_name a0 =? DW_AT_GNU_locviews); [eapply IH; eauto|].
    destruct (cv_sites u m (at_sites a0)) as [ids| | |] eqn:Es; cbn in H; try discriminate.
    destruct (cv_attributes u m l) as [r| | |] eqn:Er; cbn in H; try discriminate.
    inversion H; subst. destruct Ha as [<-|Ha].
    + cbn [ca_refs] in Hid. eapply cv_sites_ids; eauto.
    + eapply IH; eauto.
Qed.

(* ========================================================================================== *)
(* the theorem                                                                                 *)

Lemma same_attributes_full : forall (dbg : bool) (req : N -> bool) (aunits : list aunit),
  wf_offsets (map unit_of aunits) -> wf_layout (map unit_of aunits) ->
  exists S mF,
    reserved filter_refs dbg req (map unit_of aunits) = Ok S /\
    ids_filtered dbg req (map unit_of aunits) = Ok mF /\
    (forall x, In x (map fst mF) <-> is_root (map unit_of aunits) x \/ In x S) /\
    (* same attributes *)
    (forall au e, In au aunits -> In e (aunit_entries au) -> In (sec (unit_of au) (ae_off e)) S ->
       decode_attrs mF (cv_entry_attrs (unit_of au) mF e) =
       decode_attrs (ids_all (map unit_of aunits)) (cv_entry_attrs (unit_of au) (ids_all (map unit_of aunits)) e)) /\
    (* no dangling id: whatever DIE is converted, every id put into its attributes stands for a root DIE or a
       reserved DIE *)
    (forall au e out a id, cv_entry_attrs (unit_of au) mF e = Ok out -> In a out -> In id (ca_refs a) ->
       exists y, im_src id mF = Some y /\ (is_root (map unit_of aunits) y \/ In y S)).
Proof.
  intros dbg req aunits Hwf Hlay. set (units := map unit_of aunits) in *.
  destruct (filtered_ids filter_refs dbg req units Hwf Hlay) as [S [ids [HS [Hsort [Hin [Hsl [_ _]]]]]]].
  destruct (reserved_closure filter_refs dbg req units Hwf) as [S' [HS' [_ [Hclosed [Hvalid _]]]]].
  rewrite HS in HS'. inversion HS'; subst S'. clear HS'.
  set (sl := map (fun u => filter (in_unit u) S) units) in *.
  set (mF := section_ids 0 units sl).
  set (mA := ids_all units).
  assert (HmF : ids_filtered dbg req units = Ok mF).
  { unfold ids_filtered. rewrite HS. cbn [bind]. rewrite Hsl. reflexivity. }
  assert (HkF : forall x, In x (map fst mF) <-> is_root units x \/ In x S).
  { intros x. unfold mF. rewrite section_ids_keys. unfold sl. rewrite reserve_all_in. unfold is_root. split.
    - intros [u [Hu [->|Hx]]]; [left; eauto|]. right. apply filter_In in Hx. tauto.
    - intros [[u [Hu ->]]|Hx]; [exists u; auto|].
      destruct (valid_covered _ _ Hlay (Hvalid _ Hx)) as [u [Hu Hx']].
      exists u. split; auto. right. apply filter_In. auto. }
  assert (HkA : forall x, In x (map fst mA) <-> is_root units x \/ f_valid units x).
  { intros x. unfold mA, ids_all. rewrite section_ids_keys.
    rewrite <- ids_all_in. clear. induction units as [|u us IH]; cbn [reserve_all map flat_map]; [tauto|].
    cbn [In]. rewrite !in_app_iff, IH. cbn [In]. tauto. }
  assert (HndF : NoDup (map snd mF)) by apply section_ids_nodup.
  assert (HndA : NoDup (map snd mA)) by apply section_ids_nodup.
  assert (Hknown : forall m y, NoDup (map snd m) -> In y (map fst m) ->
                               exists id, im_get y m = Some id /\ im_src id m = Some y).
  { intros m y Hnd Hy. destruct (im_get y m) as [id|] eqn:E.
    - exists id. split; auto. apply im_src_in; auto. now apply im_get_in.
    - apply im_get_none in E. contradiction. }
  exists S, mF. split; [exact HS|]. split; [exact HmF|]. split; [exact HkF|]. split.
  - intros au e Hau He HeS. unfold cv_entry_attrs, cu_filter_attributes. cbn [snd].
    destruct (aentry_occurs aunits au e Hau He) as [par Hocc]. fold units in Hocc.
    apply decode_attributes_eq. intros a s y Ha Hlv Hs Hy.
    assert (Hsite : In s (e_sites (entry_of e))).
    { unfold entry_of, fu_filter_attributes. cbn [e_sites]. apply in_flat_map. exists a. auto. }
    assert (Hyf : In y (filter_refs (unit_of au) s)) by (apply (filter_refs_complete (unit_of au) s); exact Hy).
    destruct (im_get y mA) as [idA|] eqn:EA.
    + assert (HyA : In y (map fst mA)).
      { apply im_get_in in EA. apply in_map_iff. exists (y, idA). auto. }
      assert (HyF : In y (map fst mF)).
      { apply HkF. apply HkA in HyA. destruct HyA as [Hr|Hv]; [now left|right].
        destruct Hclosed as [_ [_ [Hrefs _]]].
        apply (Hrefs (unit_of au) (entry_of e) par s y Hocc Hsite Hyf Hv). exact HeS. }
      destruct (Hknown mF y HndF HyF) as [idF [H1 H2]].
      destruct (Hknown mA y HndA HyA) as [idA' [H3 H4]].
      right. exists idF, idA'. auto.
    + left. split; [|exact EA]. apply im_get_none. apply im_get_none in EA.
      intros HyF. apply EA. apply HkA. apply HkF in HyF. destruct HyF as [Hr|Hs']; [now left|right; auto].
  - intros au e out a id Hout Ha Hid.
    destruct (cv_attributes_ids _ _ _ _ _ _ Hout Ha Hid) as [y Hy].
    exists y. split.
    + apply im_src_in; auto. now apply im_get_in.
    + apply HkF. apply im_get_in in Hy. apply in_map_iff. exists (y, id). auto.
Qed.

Lemma no_dangling_written_full : forall (dbg : bool) (req : N -> bool) (aunits : list aunit),
  wf_offsets (map unit_of aunits) -> wf_layout (map unit_of aunits) ->
  exists S mF,
    reserved filter_refs dbg req (map unit_of aunits) = Ok S /\
    ids_filtered dbg req (map unit_of aunits) = Ok mF /\
    forall au e out a id, cv_entry_attrs (unit_of au) mF e = Ok out -> In a out -> In id (ca_refs a) ->
      exists y, im_src id mF = Some y /\ (is_root (map unit_of aunits) y \/ In y S).
Proof.
  intros dbg req aunits Hwf Hlay.
  destruct (same_attributes_full dbg req aunits Hwf Hlay) as [S [mF [H1 [H2 [_ [_ H3]]]]]].
  exists S, mF. auto.
Qed.

(* ========================================================================================== *)
(* split DWARF: with one unit in the .dwo section the split path reserves what the ordinary path reserves *)
Lemma split_single_unit_full : forall rf (dbg : bool) (req : N -> bool) (u : unitd),
  wf_offsets [u] -> wf_layout [u] ->
  convert_split_filtered rf dbg req [u] = convert_filtered rf dbg req [u].
Proof.
  intros rf dbg req u Hwf Hlay.
  destruct (filtered_ids rf dbg req [u] Hwf Hlay) as [S [ids [HS [Hsort [Hin [Hsl _]]]]]].
  unfold convert_split_filtered, convert_filtered. rewrite HS. cbn [bind]. rewrite Hsl. cbn [bind map reserve_all].
  rewrite app_nil_r. reflexivity.
Qed.
