(* Proofs/GenAgreeNumerals.v — translator tie for the opcode / kind numerals that model decoders match on with
   bare numerals: the decoder applied to the one-byte input [Constants.DW_x] (plus minimal operands) yields the
   constructor named x, for every constant of the family, and every other byte of the family's domain is the
   decoder's error.  Constants = coq/Gen/Constants.v, regenerated from /repo/src/constants.rs on every run. *)
From Coq Require Import List NArith Bool String Lia.
From Coq.Strings Require Import Byte.
Require Import GV.Base.Res GV.Base.Byt GV.Proofs.GenSweep.
Require GV.Gen.Constants.
Require GV.Spec.ListSpec GV.Model.ListsRd GV.Spec.MacroSpec GV.Model.MacroRd GV.Model.NamesRd GV.Spec.LineSpec.
Import ListNotations.
Local Open Scope string_scope.
Local Open Scope N_scope.

(* operands: every LEB128 / length / index is the single byte 1 *)
Definition tail : list byte := repeat x01 40.
Definition mem (k : N) (l : list N) : bool := existsb (N.eqb k) l.

(* ------------------------------------------------------------------ DW_RLE_* / DW_LLE_* (Model/ListsRd.v) *)
Import ListSpec.
Definition lent_name (e : lent) : string :=
  match e with
  | LPair _ _ => "pair" | LBase _ => "base_address" | LBasex _ => "base_addressx"
  | LStartxEndx _ _ => "startx_endx" | LStartxLength _ _ => "startx_length" | LOffsetPair _ _ => "offset_pair"
  | LDefault => "default_location" | LStartEnd _ _ => "start_end" | LStartLength _ _ => "start_length"
  end.
Definition cfg5 : lcfg := {| c_be := false; c_asize := 8; c_version := 5 |}.
Definition cfg4 : lcfg := {| c_be := false; c_asize := 8; c_version := 4 |}.   (* GNU split-DWARF .debug_loc.dwo: u16 data
   length (0x0101 on the all-ones operands, hence the longer tail) and u32 startx_length *)
Definition rle_kind (k : N) : string :=
  match ListsRd.rng_parse false cfg5 false (n2b k :: tail) with
  | Ok (None, _) => "end_of_list" | Ok (Some e, _) => lent_name e
  | Err EUnknownRangeListsEntry => "unknown" | _ => "?"
  end.
Definition lle_kind (c : lcfg) (k : N) : string :=
  match ListsRd.loc_parse false c false (n2b k :: (if c_version c <=? 4 then repeat x01 300 else tail)) with
  | Ok (None, _) => "end_of_list" | Ok (Some (e, _), _) => lent_name e
  | Err EUnknownLocListsEntry => "unknown" | _ => "?"
  end.
Definition rle_decoded : list N :=
  [Constants.DW_RLE_end_of_list; Constants.DW_RLE_base_addressx; Constants.DW_RLE_startx_endx;
   Constants.DW_RLE_startx_length; Constants.DW_RLE_offset_pair; Constants.DW_RLE_base_address;
   Constants.DW_RLE_start_end; Constants.DW_RLE_start_length].
Definition lle_decoded : list N :=
  [Constants.DW_LLE_end_of_list; Constants.DW_LLE_base_addressx; Constants.DW_LLE_startx_endx;
   Constants.DW_LLE_startx_length; Constants.DW_LLE_offset_pair; Constants.DW_LLE_default_location;
   Constants.DW_LLE_base_address; Constants.DW_LLE_start_end; Constants.DW_LLE_start_length].

Lemma gen_rle_numerals :
  map rle_kind rle_decoded =
    ["end_of_list"; "base_addressx"; "startx_endx"; "startx_length"; "offset_pair"; "base_address"; "start_end";
     "start_length"] /\
  rle_decoded = Constants.DwRle_values /\
  forallb (fun k => mem k rle_decoded || String.eqb (rle_kind k) "unknown") (count_up 256) = true.
Proof. repeat split; vm_compute; reflexivity. Qed.

Lemma gen_lle_numerals :
  map (lle_kind cfg5) lle_decoded =
    ["end_of_list"; "base_addressx"; "startx_endx"; "startx_length"; "offset_pair"; "default_location";
     "base_address"; "start_end"; "start_length"] /\
  map (lle_kind cfg4) lle_decoded = map (lle_kind cfg5) lle_decoded /\
  (* every DW_LLE_* of constants.rs is decoded, except the GNU view pair, which gimli rejects *)
  (lle_decoded ++ [Constants.DW_LLE_GNU_view_pair])%list = Constants.DwLle_values /\
  forallb (fun k => mem k lle_decoded || (String.eqb (lle_kind cfg5 k) "unknown" && String.eqb (lle_kind cfg4 k) "unknown"))
          (count_up 256) = true.
Proof. repeat split; vm_compute; reflexivity. Qed.

(* ------------------------------------------------------------------ DW_MACRO_* / DW_MACINFO_* (Model/MacroRd.v) *)
Import MacroSpec.
Definition mstring_name (s : mstring) : string :=
  match s with MDirect _ => "" | MStrp _ => "_strp" | MStrx _ => "_strx" | MSup _ => "_sup" end.
Definition mentry_name (e : mentry) : string :=
  match e with
  | MDefine _ s => "define" ++ mstring_name s | MUndef _ s => "undef" ++ mstring_name s
  | MStartFile _ _ => "start_file" | MEndFile => "end_file" | MImport _ => "import" | MImportSup _ => "import_sup"
  | MVendorExt _ _ => "vendor_ext"
  end.
(* operands "\x01\x01\x00...": LEB128 1, then a one-character NUL-terminated string / offsets *)
Definition mtail : list byte := [x01; x01; x00; x00; x00; x00; x00; x00; x00; x00; x00; x00].
Definition macro_kind (is_macro : bool) (k : N) : string :=
  match MacroRd.parse_next false false
          {| MacroRd.mi_input := n2b k :: mtail; MacroRd.mi_fmt64 := false; MacroRd.mi_is_macro := is_macro |} with
  | Ok (None, _) => "end" | Ok (Some e, _) => mentry_name e
  | Err EInvalidMacroType => "invalid_macro" | Err EInvalidMacinfoType => "invalid_macinfo" | _ => "?"
  end.
Definition macro_decoded : list N :=
  [Constants.DW_MACRO_define; Constants.DW_MACRO_undef; Constants.DW_MACRO_start_file; Constants.DW_MACRO_end_file;
   Constants.DW_MACRO_define_strp; Constants.DW_MACRO_undef_strp; Constants.DW_MACRO_import;
   Constants.DW_MACRO_define_sup; Constants.DW_MACRO_undef_sup; Constants.DW_MACRO_import_sup;
   Constants.DW_MACRO_define_strx; Constants.DW_MACRO_undef_strx].
Definition macinfo_decoded : list N :=
  [Constants.DW_MACINFO_define; Constants.DW_MACINFO_undef; Constants.DW_MACINFO_start_file;
   Constants.DW_MACINFO_end_file; Constants.DW_MACINFO_vendor_ext].

Lemma gen_macro_numerals :
  map (macro_kind true) macro_decoded =
    ["define"; "undef"; "start_file"; "end_file"; "define_strp"; "undef_strp"; "import"; "define_sup"; "undef_sup";
     "import_sup"; "define_strx"; "undef_strx"] /\
  (* every DW_MACRO_* of constants.rs but the lo_user/hi_user bounds *)
  (macro_decoded ++ [Constants.DW_MACRO_lo_user; Constants.DW_MACRO_hi_user])%list = Constants.DwMacro_values /\
  forallb (fun k => (k =? 0) || mem k macro_decoded || String.eqb (macro_kind true k) "invalid_macro") (count_up 256) = true /\
  macro_kind true 0 = "end".
Proof. repeat split; vm_compute; reflexivity. Qed.

Lemma gen_macinfo_numerals :
  map (macro_kind false) macinfo_decoded = ["define"; "undef"; "start_file"; "end_file"; "vendor_ext"] /\
  macinfo_decoded = Constants.DwMacinfo_values /\
  forallb (fun k => (k =? 0) || mem k macinfo_decoded || String.eqb (macro_kind false k) "invalid_macinfo") (count_up 256) = true /\
  macro_kind false 0 = "end".
Proof. repeat split; vm_compute; reflexivity. Qed.

(* ------------------------------------------------------------------ forms of .debug_names (Model/NamesRd.v) *)
Definition nform_kind (form : N) : string * N :=
  match NamesRd.read_nform false false form tail with
  | Ok (NamesRd.NVUnsigned _, r) => ("unsigned", N.of_nat (List.length tail - List.length r))
  | Ok (NamesRd.NVOffset _, r) => ("offset", N.of_nat (List.length tail - List.length r))
  | Ok (NamesRd.NVFlag _, r) => ("flag", N.of_nat (List.length tail - List.length r))
  | Err EUnknownForm => ("unknown", 0)
  | _ => ("?", 0)
  end.
Definition nforms_decoded : list N :=
  [Constants.DW_FORM_flag; Constants.DW_FORM_flag_present; Constants.DW_FORM_data1; Constants.DW_FORM_data2;
   Constants.DW_FORM_data4; Constants.DW_FORM_data8; Constants.DW_FORM_udata; Constants.DW_FORM_ref1;
   Constants.DW_FORM_ref2; Constants.DW_FORM_ref4; Constants.DW_FORM_ref8; Constants.DW_FORM_ref_udata].
(* class and encoded size (udata / ref_udata: one LEB128 byte here) *)
Lemma gen_names_form_numerals :
  map nform_kind nforms_decoded =
    [("flag", 1); ("flag", 0); ("unsigned", 1); ("unsigned", 2); ("unsigned", 4); ("unsigned", 8); ("unsigned", 1);
     ("offset", 1); ("offset", 2); ("offset", 4); ("offset", 8); ("offset", 1)] /\
  forallb (fun f => mem f nforms_decoded || String.eqb (fst (nform_kind f)) "unknown") (count_up 65536) = true.
Proof. split; vm_compute; reflexivity. Qed.
Lemma gen_names_form_unknown : forall f, f < 65536 -> mem f nforms_decoded = false ->
  NamesRd.read_nform false false f tail = Err EUnknownForm.
Proof.
  intros f H M. destruct gen_names_form_numerals as [_ S]. pose proof (sweep_lt _ _ S f H) as P. cbv beta in P.
  rewrite M in P. cbn [orb] in P. unfold nform_kind in P.
  destruct (NamesRd.read_nform false false f tail) as [[[v|v|b] r]|e| |]; try discriminate P.
  destruct e; try discriminate P. reflexivity.
Qed.

(* ------------------------------------------------------------------ DW_LNCT_* (Spec/LineSpec.v, used by Model/LineRd.v) *)
Lemma gen_lnct_numerals :
  Constants.DW_LNCT_path = LineSpec.LNCT_path /\
  Constants.DW_LNCT_directory_index = LineSpec.LNCT_directory_index /\
  Constants.DW_LNCT_timestamp = LineSpec.LNCT_timestamp /\
  Constants.DW_LNCT_size = LineSpec.LNCT_size /\
  Constants.DW_LNCT_MD5 = LineSpec.LNCT_MD5 /\
  Constants.DW_LNCT_LLVM_source = LineSpec.LNCT_LLVM_source.
Proof. repeat split; reflexivity. Qed.
