(* Proofs/LineWrProofs.v — lemmas about Model/LineWr.v against Spec/LineAdvSpec.v (property C13). *)
From Coq Require Import List NArith ZArith Bool Lia ZifyBool ZifyN ZifyNat.
From Coq.Strings Require Import Byte.
Require Import GV.Base.Res GV.Base.Byt GV.Base.Ints GV.Model.Leb GV.Model.Prim.
Require Import GV.Spec.LineAdvSpec GV.Model.LineWr.
Import ListNotations.

Local Ltac Zify.zify_post_hook ::= Z.div_mod_to_equations.
Local Arguments N.add : simpl never.
Local Arguments N.sub : simpl never.
Local Arguments N.mul : simpl never.
Local Arguments N.div : simpl never.
Local Arguments N.modulo : simpl never.
Local Arguments N.pow : simpl never.
Local Arguments Z.add : simpl never.
Local Arguments Z.sub : simpl never.
Local Arguments Z.mul : simpl never.
Local Arguments Z.div : simpl never.
Local Arguments Z.modulo : simpl never.
Local Arguments Z.of_N : simpl never.

(* ------------------------------------------------------------------ fixed-width helpers *)

Lemma pow64 : (2 ^ 64 = 18446744073709551616)%N. Proof. reflexivity. Qed.
Lemma pow8 : (2 ^ 8 = 256)%N. Proof. reflexivity. Qed.

Lemma chk_add64_ok dbg a b : (a + b < 18446744073709551616)%N -> chk_add 64 dbg a b = Ok (a + b)%N.
Proof. intros H. unfold chk_add. rewrite pow64. destruct (N.ltb_spec (a + b) 18446744073709551616); [reflexivity | lia]. Qed.

Lemma chk_mul64_ok dbg a b : (a * b < 18446744073709551616)%N -> chk_mul 64 dbg a b = Ok (a * b)%N.
Proof. intros H. unfold chk_mul. rewrite pow64. destruct (N.ltb_spec (a * b) 18446744073709551616); [reflexivity | lia]. Qed.

Lemma chk_sub64_ok dbg a b : (b <= a)%N -> chk_sub 64 dbg a b = Ok (a - b)%N.
Proof. intros H. unfold chk_sub. destruct (N.leb_spec b a); [reflexivity | lia]. Qed.

(* i64 as u64 *)
Lemma of_i64_Z z : (-9223372036854775808 <= z < 9223372036854775808)%Z ->
  Z.of_N (of_i64 z) = (z mod 18446744073709551616)%Z.
Proof.
  intros H. unfold of_i64, of_signed. rewrite pow64.
  rewrite Z2N.id; [reflexivity|]. apply Z.mod_pos_bound. lia.
Qed.

(* (a as u64).wrapping_sub(b as u64), for i64 values a, b *)
Lemma wrapping_sub_i64 a b :
  (-9223372036854775808 <= a < 9223372036854775808)%Z ->
  (-9223372036854775808 <= b < 9223372036854775808)%Z ->
  Z.of_N (wrap64 (of_i64 a + two64 - of_i64 b)) = ((a - b) mod 18446744073709551616)%Z.
Proof.
  intros Ha Hb. pose proof (of_i64_Z a Ha) as Ea. pose proof (of_i64_Z b Hb) as Eb.
  unfold wrap64, two64. lia.
Qed.

Lemma to_i8_small n : (n < 128)%N -> to_i8 n = Z.of_N n.
Proof.
  intros H. unfold to_i8, to_signed, wrapN. rewrite pow8. change (2 ^ (8 - 1))%N with 128%N.
  rewrite N.mod_small by lia. destruct (N.ltb_spec n 128); [reflexivity | lia].
Qed.

Lemma chk_s8_ok dbg z : (-128 <= z < 128)%Z -> chk_s 8 dbg z = Ok z.
Proof.
  intros H. unfold chk_s.
  assert (E : in_signed 8 z = true).
  { unfold in_signed. change (Z.of_N (2 ^ (8 - 1))) with 128%Z.
    apply andb_true_intro; split; [apply Z.leb_le | apply Z.ltb_lt]; lia. }
  now rewrite E.
Qed.

(* ------------------------------------------------------------------ spec-side algebra *)

Lemma run_app p a b r :
  run p (a ++ b) r =
  let (rows1, r1) := run p a r in let (rows2, r2) := run p b r1 in (rows1 ++ rows2, r2).
Proof.
  revert r. induction a as [|i a IH]; intros r; cbn [app run].
  - destruct (run p b r); reflexivity.
  - destruct (step p i r) as [rows0 r0]. rewrite IH.
    destruct (run p a r0) as [rows1 r1]. destruct (run p b r1) as [rows2 r2].
    now rewrite app_assoc.
Qed.

Lemma op_adv_0 p r : (0 < lp_max_ops p)%Z -> (0 <= r_op_index r < lp_max_ops p)%Z -> op_adv p 0 r = r.
Proof.
  intros Hm Hi. unfold op_adv. destruct r; cbn in *.
  rewrite Z.add_0_r. rewrite Z.div_small, Z.mod_small by lia. f_equal. lia.
Qed.

Lemma div_mod_add_split i b a m : (0 < m)%Z ->
  ((i + b) / m + ((i + b) mod m + a) / m = (i + b + a) / m)%Z /\
  (((i + b) mod m + a) mod m = (i + b + a) mod m)%Z.
Proof.
  intros Hm. split.
  - rewrite (Z.div_mod (i + b) m) at 3 by lia.
    replace (m * ((i + b) / m) + (i + b) mod m + a)%Z with (((i + b) mod m + a) + ((i + b) / m) * m)%Z by ring.
    rewrite Z.div_add by lia. ring.
  - rewrite Z.add_mod_idemp_l by lia. reflexivity.
Qed.

Lemma op_adv_op_adv p a b r : (0 < lp_max_ops p)%Z ->
  op_adv p a (op_adv p b r) = op_adv p (b + a) r.
Proof.
  intros Hm. unfold op_adv. cbn.
  destruct (div_mod_add_split (r_op_index r) b a (lp_max_ops p) Hm) as [Hd Hmod].
  rewrite Z.add_assoc. rewrite <- Hd, Hmod. f_equal. ring.
Qed.

Lemma op_adv_line_adv p n d r : op_adv p n (line_adv d r) = line_adv d (op_adv p n r).
Proof. reflexivity. Qed.

Lemma line_adv_line_adv a b r : line_adv a (line_adv b r) = line_adv (b + a) r.
Proof. unfold line_adv; cbn. f_equal. ring. Qed.

Lemma line_adv_0 r : line_adv 0 r = r.
Proof. unfold line_adv. destruct r; cbn. f_equal. ring. Qed.

(* decomposition of an adjusted special opcode *)
Lemma special_decompose sl k lr : (0 <= sl < lr)%Z ->
  ((sl + k * lr) / lr = k)%Z /\ ((sl + k * lr) mod lr = sl)%Z.
Proof.
  intros H. split.
  - rewrite Z.div_add by lia. rewrite Z.div_small by lia. ring.
  - rewrite Z.mod_add by lia. apply Z.mod_small; lia.
Qed.

(* ------------------------------------------------------------------ advance_correct *)

(* the documented precondition of LineProgram::new plus the field widths *)
Definition enc_ok (l : lenc) : Prop :=
  (-128 <= le_line_base l <= 0)%Z /\ (0 < le_line_base l + Z.of_N (le_line_range l))%Z /\
  (le_line_range l <= 255)%N /\ (1 <= le_min_len l)%N /\ (1 <= le_max_ops l)%N.

Definition i64 (z : Z) : Prop := (-9223372036854775808 <= z < 9223372036854775808)%Z.

Definition regs_ok (p : lparams) (r : regs) : Prop := (0 <= r_op_index r < lp_max_ops p)%Z.

Definition special_ok (i : linsn) : Prop :=
  match i with ISpecial v => (13 <= v <= 255)%N | _ => True end.

Lemma special_default_val l : enc_ok l -> Z.of_N (special_default l) = (13 - le_line_base l)%Z.
Proof.
  intros (Hb & _). unfold special_default, OPCODE_BASE, wrap64, two64.
  assert (E : Z.of_N (of_i64 (le_line_base l)) = (le_line_base l mod 18446744073709551616)%Z)
    by (apply of_i64_Z; lia).
  lia.
Qed.

Lemma regs_ok_line_adv p d r : regs_ok p r -> regs_ok p (line_adv d r).
Proof. exact (fun H => H). Qed.

Lemma regs_ok_op_adv p n r : (0 < lp_max_ops p)%Z -> regs_ok p (op_adv p n r).
Proof. intros Hm. unfold regs_ok, op_adv; cbn. apply Z.mod_pos_bound; lia. Qed.

(* stage 1: the line advance *)
Lemma line_stage_ok dbg l ladv : enc_ok l -> i64 ladv ->
  exists special use pre,
    adv_line_stage dbg l ladv = Ok (special, use, pre) /\
    (13 <= special)%N /\ (special - 13 < le_line_range l)%N /\ (special <= 255)%N /\
    (use = false -> special = special_default l) /\
    Forall special_ok pre /\
    (forall ver p r, run p (map (denote ver) pre) r =
                     ([], line_adv (ladv - (le_line_base l + (Z.of_N special - 13))) r)).
Proof.
  intros Hok Hl. pose proof (special_default_val l Hok) as Hdef.
  destruct Hok as (Hb & Hr & Hr255 & _). unfold i64 in Hl.
  unfold adv_line_stage.
  destruct (Z.eqb_spec ladv 0) as [E0|E0]; cbn [negb].
  - (* no line advance *)
    exists (special_default l), false, []. repeat split; try lia; auto.
    intros ver p r. cbn [map run]. subst ladv.
    replace (0 - (le_line_base l + (Z.of_N (special_default l) - 13)))%Z with 0%Z by lia.
    now rewrite line_adv_0.
  - assert (Esl : Z.of_N (wrap64 (of_i64 ladv + two64 - of_i64 (le_line_base l)))
                  = ((ladv - le_line_base l) mod 18446744073709551616)%Z)
      by (apply wrapping_sub_i64; lia).
    set (sl := wrap64 (of_i64 ladv + two64 - of_i64 (le_line_base l))) in *.
    destruct (N.ltb_spec sl (le_line_range l)) as [Hlt|Hge].
    + (* special opcode candidate *)
      rewrite chk_add64_ok by (unfold OPCODE_BASE; lia). unfold OPCODE_BASE. cbn [bind].
      destruct (N.leb_spec (13 + sl) 255) as [Hfit|Hbig].
      * exists (13 + sl)%N, true, []. repeat split; try lia; auto; try discriminate.
        intros ver p r. cbn [map run].
        replace (ladv - (le_line_base l + (Z.of_N (13 + sl) - 13)))%Z with 0%Z by lia.
        now rewrite line_adv_0.
      * (* it would not fit a byte: DW_LNS_advance_line *)
        exists (special_default l), false, [IAdvanceLine ladv]. repeat split; try lia; auto.
        -- repeat constructor.
        -- intros ver p r. cbn [map denote run step exec app].
           replace (ladv - (le_line_base l + (Z.of_N (special_default l) - 13)))%Z with ladv by lia.
           reflexivity.
    + (* DW_LNS_advance_line *)
      exists (special_default l), false, [IAdvanceLine ladv]. repeat split; try lia; auto.
      * repeat constructor.
      * intros ver p r. cbn [map denote run step exec app].
        replace (ladv - (le_line_base l + (Z.of_N (special_default l) - 13)))%Z with ladv by lia.
        reflexivity.
Qed.

Lemma op_range_le special oadv lr : (1 <= lr)%N -> (special <= 12 + lr)%N ->
  (255 < special + oadv * lr)%N -> (242 / lr <= oadv)%N.
Proof.
  intros Hlr Hs Hgt. destruct (N.le_gt_cases (242 / lr) oadv) as [H|H]; [exact H|exfalso].
  assert (H1 : ((oadv + 1) * lr <= (242 / lr) * lr)%N) by (apply N.mul_le_mono_r; lia).
  assert (H2 : (lr * (242 / lr) <= 242)%N) by (apply N.mul_div_le; lia).
  lia.
Qed.

(* stage 2: the operation advance *)
(* the saturating fit test decides the exact (unbounded) inequality *)
Lemma sat_fit s a b : (sat_add64 s (sat_mul64 a b) <=? 255)%N = (s + a * b <=? 255)%N.
Proof.
  unfold sat_add64, sat_mul64, two64.
  destruct (N.leb_spec (s + a * b) 255); destruct (N.leb_spec (N.min (s + N.min (a * b) (18446744073709551616 - 1)) (18446744073709551616 - 1)) 255); try reflexivity; lia.
Qed.

Lemma sat_mul_small a b : (a * b <= 255)%N -> sat_mul64 a b = (a * b)%N.
Proof. intros H. unfold sat_mul64, two64. lia. Qed.

Lemma op_stage_ok dbg l special use oadv : enc_ok l ->
  (13 <= special)%N -> (special - 13 < le_line_range l)%N ->
  exists special' use' mid k,
    adv_op_stage dbg l special use oadv = Ok (special', use', mid) /\
    special' = (special + k * le_line_range l)%N /\ (k <= oadv)%N /\
    (special <= 255 -> special' <= 255)%N /\
    (use' = false -> use = false /\ k = 0%N) /\
    Forall special_ok mid /\
    (forall ver r, regs_ok (params_of l) r ->
       run (params_of l) (map (denote ver) mid) r = ([], op_adv (params_of l) (Z.of_N (oadv - k)) r)).
Proof.
  intros Hok H13 Hsl. destruct Hok as (Hb & Hr & Hr255 & Hmin & Hmax).
  set (lr := le_line_range l) in *.
  assert (Hlr : (1 <= lr)%N) by lia.
  assert (Hmaxz : (0 < lp_max_ops (params_of l))%Z) by (cbn; lia).
  unfold adv_op_stage. fold lr.
  destruct (N.eqb_spec oadv 0) as [E0|E0]; cbn [negb].
  - (* no operation advance *)
    exists special, use, [], 0%N. subst oadv. repeat split; try lia; auto.
    intros ver r Hr0. cbn [map run]. now rewrite op_adv_0.
  - rewrite sat_fit.
    destruct (N.leb_spec (special + oadv * lr) 255) as [Hle|Hgt]; cbn [bind].
    + (* folded into the special opcode *)
      rewrite sat_fit.
      destruct (N.leb_spec (special + oadv * lr) 255) as [_|Hc]; [|lia].
      rewrite sat_mul_small by lia. rewrite chk_add64_ok by lia. cbn [bind].
      exists (special + oadv * lr)%N, true, [], oadv. repeat split; try lia; auto; try discriminate.
      intros ver r Hr0. cbn [map run]. rewrite N.sub_diag. now rewrite op_adv_0.
    + destruct (N.eqb_spec lr 0) as [Hz|_]; [lia|].
      unfold OPCODE_BASE. change (255 - 13)%N with 242%N.
      pose proof (op_range_le special oadv lr Hlr ltac:(lia) Hgt) as Hq.
      rewrite chk_sub64_ok by exact Hq. cbn [bind].
      set (q := (242 / lr)%N) in *.
      rewrite sat_fit.
      destruct (N.leb_spec (special + (oadv - q) * lr) 255) as [Hle2|Hgt2].
      * (* DW_LNS_const_add_pc + special opcode *)
        rewrite sat_mul_small by lia. rewrite chk_add64_ok by lia. cbn [bind].
        exists (special + (oadv - q) * lr)%N, true, [IConstAddPc], (oadv - q)%N.
        repeat split; try lia; auto; try discriminate.
        -- repeat constructor.
        -- intros ver r Hr0. cbn [map denote run step exec app].
           unfold special_op_adv. cbn [params_of lp_opcode_base lp_line_range]. fold lr.
           unfold OPCODE_BASE. change (255 - Z.of_N 13)%Z with 242%Z.
           f_equal. f_equal. unfold q. lia.
      * (* DW_LNS_advance_pc *)
        exists special, use, [IAdvancePc oadv], 0%N. repeat split; try lia; auto.
        -- repeat constructor.
        -- intros ver r Hr0. cbn [map denote run step exec app]. now rewrite N.sub_0_r.
Qed.

Lemma debug_asserts_ok dbg l : enc_ok l -> adv_debug_asserts dbg l = Ok tt.
Proof.
  intros (Hb & Hr & _). unfold adv_debug_asserts. destruct dbg; [|reflexivity].
  destruct (Z.leb_spec (le_line_base l) 0) as [_|Hc]; [|lia]. cbn [negb].
  destruct (Z.leb_spec 0 (le_line_base l + Z.of_N (le_line_range l))) as [_|Hc]; [reflexivity|lia].
Qed.

Lemma wrap8_small n : (n <= 255)%N -> wrap8 n = n.
Proof. intros H. unfold wrap8. apply N.mod_small. lia. Qed.

Lemma advance_correct dbg l ladv oadv :
  enc_ok l -> i64 ladv ->
  exists insns,
    advance_insns dbg l ladv oadv = Ok insns /\
    Forall special_ok insns /\
    forall ver r, regs_ok (params_of l) r ->
      run (params_of l) (map (denote ver) insns) r =
      ([op_adv (params_of l) (Z.of_N oadv) (line_adv ladv r)],
       after_row (params_of l) (op_adv (params_of l) (Z.of_N oadv) (line_adv ladv r))).
Proof.
  intros Hok Hl.
  pose proof (special_default_val l Hok) as Hdef.
  destruct (line_stage_ok dbg l ladv Hok Hl) as (special & use & pre & E1 & H13 & Hsl & Hsp255 & Huse & Fpre & Rpre).
  destruct (op_stage_ok dbg l special use oadv Hok H13 Hsl)
    as (special' & use' & mid & k & E2 & Hs' & Hk & H255 & Huse' & Fmid & Rmid).
  unfold advance_insns. rewrite (debug_asserts_ok dbg l Hok). cbn [bind].
  rewrite E1. cbn [bind]. rewrite E2. cbn [bind].
  destruct Hok as (Hb & Hr & Hr255 & Hmin & Hmax).
  set (lr := le_line_range l) in *.
  assert (Hs255 : (special' <= 255)%N) by (apply H255; exact Hsp255).
  assert (Hmaxz : (0 < lp_max_ops (params_of l))%Z) by (cbn; lia).
  assert (Hkl : (k = 0%N) \/ (lr <= k * lr)%N).
  { destruct (N.eq_dec k 0) as [->|Hk0]; [now left|right].
    replace lr with (1 * lr)%N at 1 by lia. apply N.mul_le_mono_r. lia. }
  unfold adv_final.
  destruct (use' && negb (special' =? special_default l)%N) eqn:Efin.
  - (* special opcode *)
    assert (Hdbg : (dbg && ((special' <? OPCODE_BASE)%N || (255 <? special')%N))%bool = false).
    { unfold OPCODE_BASE. destruct (N.ltb_spec special' 13); [lia|].
      destruct (N.ltb_spec 255 special'); [lia|]. now rewrite andb_false_r. }
    rewrite Hdbg. cbn [bind]. rewrite wrap8_small by exact Hs255.
    eexists. split; [reflexivity|]. split.
    { apply Forall_app; split; [exact Fpre|]. apply Forall_app; split; [exact Fmid|].
      constructor; [cbn; lia | constructor]. }
    intros ver r Hr0. rewrite !map_app. rewrite run_app, Rpre. cbv beta iota.
    rewrite run_app, Rmid by (apply regs_ok_line_adv; exact Hr0). cbv beta iota.
    cbn [map denote run step exec app].
    f_equal.
    + f_equal.
      unfold special_op_adv, special_line_adv. cbn [params_of lp_opcode_base lp_line_range lp_line_base].
      fold lr. unfold OPCODE_BASE.
      destruct (special_decompose (Z.of_N special - 13) (Z.of_N k) (Z.of_N lr) ltac:(lia)) as [Ed Em].
      replace (Z.of_N special' - Z.of_N 13)%Z with (Z.of_N special - 13 + Z.of_N k * Z.of_N lr)%Z by lia.
      rewrite Ed, Em.
      rewrite op_adv_line_adv, op_adv_op_adv by exact Hmaxz.
      rewrite <- op_adv_line_adv. rewrite line_adv_line_adv.
      f_equal; [lia|]. f_equal. lia.
    + f_equal.
      unfold special_op_adv, special_line_adv. cbn [params_of lp_opcode_base lp_line_range lp_line_base].
      fold lr. unfold OPCODE_BASE.
      destruct (special_decompose (Z.of_N special - 13) (Z.of_N k) (Z.of_N lr) ltac:(lia)) as [Ed Em].
      replace (Z.of_N special' - Z.of_N 13)%Z with (Z.of_N special - 13 + Z.of_N k * Z.of_N lr)%Z by lia.
      rewrite Ed, Em.
      rewrite op_adv_line_adv, op_adv_op_adv by exact Hmaxz.
      rewrite <- op_adv_line_adv. rewrite line_adv_line_adv.
      f_equal; [lia|]. f_equal. lia.
  - (* DW_LNS_copy: nothing is left to advance *)
    assert (Hnone : k = 0%N /\ (le_line_base l + (Z.of_N special - 13) = 0)%Z).
    { destruct use'.
      - cbn [andb] in Efin. apply negb_false_iff in Efin. apply N.eqb_eq in Efin.
        rewrite Efin in Hs'. destruct Hkl as [->|Hge]; lia.
      - destruct (Huse' eq_refl) as [Hu ->]. rewrite (Huse Hu). lia. }
    destruct Hnone as [-> Hrl].
    eexists. split; [reflexivity|]. split.
    { apply Forall_app; split; [exact Fpre|]. apply Forall_app; split; [exact Fmid|].
      repeat constructor. }
    intros ver r Hr0. rewrite !map_app. rewrite run_app, Rpre. cbv beta iota.
    rewrite run_app, Rmid by (apply regs_ok_line_adv; exact Hr0). cbv beta iota.
    cbn [map denote run step exec app]. rewrite N.sub_0_r.
    replace (ladv - (le_line_base l + (Z.of_N special - 13)))%Z with ladv by lia.
    reflexivity.
Qed.

(* ------------------------------------------------------------------ LineProgram::new *)

(* the assertions of `new` pass exactly under the documented precondition (after fix eea5f40 of F9) *)
Lemma new_asserts_pass l : enc_ok l ->
  (le_line_base l <=? 0)%Z = true /\ (0 <? le_line_base l + Z.of_N (le_line_range l))%Z = true.
Proof. intros (Hb & Hr & _). split; [apply Z.leb_le | apply Z.ltb_lt]; lia. Qed.

Lemma new_panics_outside_precondition dbg e l wd sd sf info :
  (0 < le_line_base l \/ le_line_base l + Z.of_N (le_line_range l) <= 0)%Z ->
  lp_new dbg e l wd sd sf info = Panic.
Proof.
  intros H. unfold lp_new.
  destruct (Z.leb_spec (le_line_base l) 0) as [Hle|Hgt]; cbn [negb]; [|reflexivity].
  destruct (Z.ltb_spec 0 (le_line_base l + Z.of_N (le_line_range l))) as [Hlt|Hge]; cbn [negb]; [lia|reflexivity].
Qed.

(* ------------------------------------------------------------------ row_fields *)

(* the file number a FileId is written as (FileId::raw) *)
Definition raw (ver : N) (f : N) : Z := Z.of_N (if (ver <=? 4)%N then f + 1 else f)%N.

(* the writer's picture of the reader (prev_row) agrees with the reader's registers *)
Definition synced (ver : N) (prev : wrow) (r : regs) : Prop :=
  r_op_index r = Z.of_N (w_op_index prev) /\ r_file r = raw ver (w_file prev) /\
  r_line r = Z.of_N (w_line prev) /\ r_column r = Z.of_N (w_column prev) /\
  r_is_stmt r = w_is_statement prev /\ r_isa r = Z.of_N (w_isa prev) /\
  r_discriminator r = 0%Z /\ r_basic_block r = false /\ r_prologue_end r = false /\
  r_epilogue_begin r = false /\ r_end_sequence r = false.

(* registers after the field instructions of a row: every non-address field is the row's *)
Definition fields_set (ver : N) (row : wrow) (r : regs) : regs :=
  mkRegs (r_address r) (r_op_index r) (raw ver (w_file row)) (r_line r) (Z.of_N (w_column row))
         (w_is_statement row) (w_basic_block row) false (w_prologue_end row) (w_epilogue_begin row)
         (Z.of_N (w_isa row)) (Z.of_N (w_discriminator row)).

Lemma row_fields ver p row prev r : synced ver prev r ->
  run p (map (denote ver) (field_insns row prev)) r = ([], fields_set ver row r).
Proof.
  intros H. unfold synced in H. unfold field_insns, fields_set.
  destruct r as [addr opi file line col stmt bb es pe eb isa disc].
  destruct row as [rao ropi rfile rline rcol rdisc rstmt rbb rpe reb risa].
  destruct prev as [pao popi pfile pline pcol pdisc pstmt pbb ppe peb pisa].
  cbn in H. destruct H as (-> & -> & -> & -> & -> & -> & -> & -> & -> & -> & ->).
  cbn [w_address_offset w_op_index w_file w_line w_column w_discriminator w_is_statement w_basic_block
       w_prologue_end w_epilogue_begin w_isa r_address r_op_index r_line].
  destruct (N.eqb_spec rdisc 0) as [->|?]; destruct rbb; destruct rpe; destruct reb;
  destruct rstmt; destruct pstmt;
  destruct (N.eqb_spec rfile pfile) as [->|?]; destruct (N.eqb_spec rcol pcol) as [->|?];
  destruct (N.eqb_spec risa pisa) as [->|?]; reflexivity.
Qed.

(* each persistent register is set iff it differs from the writer's picture of the reader *)
Lemma field_insns_set_file row prev f :
  In (ISetFile f) (field_insns row prev) <-> (f = w_file row /\ w_file row <> w_file prev).
Proof.
  unfold field_insns.
  repeat rewrite in_app_iff.
  destruct (N.eqb_spec (w_discriminator row) 0); destruct (w_basic_block row); destruct (w_prologue_end row);
  destruct (w_epilogue_begin row); destruct (Bool.eqb (w_is_statement row) (w_is_statement prev));
  destruct (N.eqb_spec (w_file row) (w_file prev)); destruct (N.eqb_spec (w_column row) (w_column prev));
  destruct (N.eqb_spec (w_isa row) (w_isa prev)); cbn; split; intros H;
  repeat (destruct H as [H|H]; try discriminate H; try contradiction);
  try (injection H as <-; split; [reflexivity | assumption]);
  try (destruct H as [-> Hne]; try contradiction; tauto).
Qed.

Lemma field_insns_set_column row prev c :
  In (ISetColumn c) (field_insns row prev) <-> (c = w_column row /\ w_column row <> w_column prev).
Proof.
  unfold field_insns.
  repeat rewrite in_app_iff.
  destruct (N.eqb_spec (w_discriminator row) 0); destruct (w_basic_block row); destruct (w_prologue_end row);
  destruct (w_epilogue_begin row); destruct (Bool.eqb (w_is_statement row) (w_is_statement prev));
  destruct (N.eqb_spec (w_file row) (w_file prev)); destruct (N.eqb_spec (w_column row) (w_column prev));
  destruct (N.eqb_spec (w_isa row) (w_isa prev)); cbn; split; intros H;
  repeat (destruct H as [H|H]; try discriminate H; try contradiction);
  try (injection H as <-; split; [reflexivity | assumption]);
  try (destruct H as [-> Hne]; try contradiction; tauto).
Qed.

Lemma field_insns_set_isa row prev c :
  In (ISetIsa c) (field_insns row prev) <-> (c = w_isa row /\ w_isa row <> w_isa prev).
Proof.
  unfold field_insns.
  repeat rewrite in_app_iff.
  destruct (N.eqb_spec (w_discriminator row) 0); destruct (w_basic_block row); destruct (w_prologue_end row);
  destruct (w_epilogue_begin row); destruct (Bool.eqb (w_is_statement row) (w_is_statement prev));
  destruct (N.eqb_spec (w_file row) (w_file prev)); destruct (N.eqb_spec (w_column row) (w_column prev));
  destruct (N.eqb_spec (w_isa row) (w_isa prev)); cbn; split; intros H;
  repeat (destruct H as [H|H]; try discriminate H; try contradiction);
  try (injection H as <-; split; [reflexivity | assumption]);
  try (destruct H as [-> Hne]; try contradiction; tauto).
Qed.

Lemma field_insns_negate row prev :
  In INegateStatement (field_insns row prev) <-> w_is_statement row <> w_is_statement prev.
Proof.
  unfold field_insns.
  repeat rewrite in_app_iff.
  destruct (N.eqb_spec (w_discriminator row) 0); destruct (w_basic_block row); destruct (w_prologue_end row);
  destruct (w_epilogue_begin row); destruct (w_is_statement row); destruct (w_is_statement prev);
  destruct (N.eqb_spec (w_file row) (w_file prev)); destruct (N.eqb_spec (w_column row) (w_column prev));
  destruct (N.eqb_spec (w_isa row) (w_isa prev)); cbn; split; intros H;
  repeat (destruct H as [H|H]; try discriminate H; try contradiction);
  try congruence; try tauto; try (right; tauto).
Qed.

