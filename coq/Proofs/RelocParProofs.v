(* Proofs/RelocParProofs.v — the STATIC form of reading-side transparency (C18) and its instances for the
   gimli parsers of Model/RelocPar.v.

   parser_reloc (RelocProofs) has a side condition on the ghost trace of the RELOCATING run.  Here the side
   condition is moved to the field map of the parser on the APPLIED section (what a plain reader sees after
   linking): if no relocation site touches a span the parser reads plainly, every site touching a relocatable
   field is exactly that field, and the relocated values fit, then the relocating run is acceptable — hence
   transparent.  Proved once for every `prog`. *)
From Coq Require Import List NArith ZArith Bool Lia ZifyBool ZifyN ZifyNat.
From Coq.Strings Require Import Byte.
Require Import GV.Base.Res GV.Base.Byt GV.Base.Ints GV.Model.Leb GV.Model.Prim GV.Spec.FormSpec GV.Model.Attr.
Require Import GV.Model.Reloc GV.Proofs.RelocProofs GV.Model.RelocPar.
Import ListNotations.
Local Open Scope N_scope.

Local Arguments N.add : simpl never.
Local Arguments N.sub : simpl never.
Local Arguments N.mul : simpl never.
Local Arguments N.pow : simpl never.
Local Arguments N.of_nat : simpl never.
Local Arguments N.to_nat : simpl never.

(* ------------------------------------------------------------------ the traced interpreter is the plain one *)

Lemma pt_plain_snd {A} base (f : list byte -> res (A * list byte)) r : snd (pt_plain base f r) = rd_lift f r.
Proof. unfold pt_plain. destruct (rd_lift f r) as [[a r']|e| |]; reflexivity. Qed.

Lemma pt_rel_snd base w f r : snd (pt_rel base w f r) = rd_lift f r.
Proof. unfold pt_rel. destruct (rd_lift f r) as [[a r']|e| |]; reflexivity. Qed.

Lemma tbind_snd {A B} (t : tres A) (g : A -> tres B) : snd (tbind t g) = bind (snd t) (fun a => snd (g a)).
Proof. unfold tbind. destruct t as [tr [a|e| |]]; reflexivity. Qed.

Lemma run_plain_tr_snd {A} be dbg base (p : prog A) : forall r,
  snd (run_plain_tr be dbg base p r) = run_plain_rd be dbg p r.
Proof.
  induction p as [a|e| |n k IH|k IH|k IH|n k IH|k IH|size k IH|f k IH|size k IH|f k IH|len sub IHs k IHk];
    intros r; cbn [run_plain_tr run_plain_rd]; try reflexivity;
    try (rewrite tbind_snd, ?pt_plain_snd, ?pt_rel_snd;
         match goal with |- bind ?x _ = bind ?x _ => destruct x as [[v r']|e| |]; cbn [bind]; auto end).
  - rewrite tbind_snd. cbn [tret snd]. destruct (rd_skip n r); cbn [bind]; auto.
  - apply IH.
  - rewrite tbind_snd. cbn [tret snd]. destruct (rd_split len r) as [[h r']|e| |]; cbn [bind]; auto.
    rewrite tbind_snd, IHs. destruct (run_plain_rd be dbg sub h) as [[a r'']|e| |]; cbn [bind]; auto.
Qed.

(* ------------------------------------------------------------------ static simulation *)

Lemma shape_plain R pos n : shape_okb R (EvPlain pos n) = true -> forall r, In r R -> site_disjoint r pos n.
Proof. cbn [shape_okb]. rewrite forallb_forall. intros H r Hr. apply site_disjointb_ok. auto. Qed.

Section Static.
  Variables (be dbg : bool) (R : list rrel) (sec : list byte) (base : N).
  Hypothesis HR : sites_disjointb R = true.
  Hypothesis Hfit : fitsb be R sec = true.

  Notation P := (apply_rrels be R sec).
  Notation strel := (st_rel be R sec base).
  Notation rrel_ := (res_rel be R sec base).
  Notation shape_all t := (forallb (shape_okb R) t = true).

  Lemma plain_step {A} (f : list byte -> res (A * list byte)) x r :
    prefix_det f -> strel x r -> shape_all (fst (pt_plain base f r)) -> trace_ok R (fst (rr_plain f x)).
  Proof.
    intros Hf (o & l & Hb & -> & ->) Hs.
    assert (HbP : (o + l <= length P)%nat) by now rewrite apply_rrels_length.
    unfold pt_plain in Hs. unfold rr_plain. cbn [reader section].
    replace (off (mkst base P o l) - base) with (N.of_nat o) in Hs by (unfold mkst; cbn [off]; lia).
    replace (off (mkst base sec o l) - off (mkRd base sec)) with (N.of_nat o) by (unfold mkst; cbn [off]; lia).
    destruct (f (slice P o l)) as [[v rest]|e| |] eqn:Ef.
    - destruct (Hf _ _ _ Ef) as (c & Hc & Hrest & Hdet). rewrite slice_length in Hc by auto. subst rest.
      rewrite (rd_lift_mkst R base f P o l v c HbP Hc Ef) in Hs. cbn [fst forallb] in Hs.
      rewrite !rd_len_mkst in Hs by lia. apply andb_true_iff in Hs as [Hs _].
      pose proof (shape_plain _ _ _ Hs) as Hd.
      assert (Hagree : slice P o c = slice sec o c).
      { apply slices_agree; [lia|]. intros r Hr. specialize (Hd r Hr). unfold site_disjoint in *. lia. }
      assert (Esec : f (slice sec o l) = Ok (v, skipn c (slice sec o l))).
      { apply Hdet.
        - rewrite !firstn_slice by auto. now symmetry.
        - rewrite slice_length; auto. }
      rewrite (rd_lift_mkst R base f sec o l v c Hb Hc Esec). cbn [fst].
      rewrite !rd_len_mkst by lia. constructor; [|constructor]. cbn [ev_ok]. exact Hd.
    - assert (Hl : rd_lift f (mkst base P o l) = Err e) by (unfold rd_lift, mkst; cbn [win]; now rewrite Ef).
      rewrite Hl in Hs. cbn [fst forallb] in Hs. rewrite rd_len_mkst in Hs by auto.
      apply andb_true_iff in Hs as [Hs _]. pose proof (shape_plain _ _ _ Hs) as Hd.
      rewrite (slices_agree be R sec o l Hb Hd) in Ef.
      assert (Hl2 : rd_lift f (mkst base sec o l) = Err e) by (unfold rd_lift, mkst; cbn [win]; now rewrite Ef).
      rewrite Hl2. cbn [fst]. rewrite rd_len_mkst by auto. constructor; [|constructor]. exact Hd.
    - assert (Hl : rd_lift f (mkst base P o l) = Panic) by (unfold rd_lift, mkst; cbn [win]; now rewrite Ef).
      rewrite Hl in Hs. cbn [fst forallb] in Hs. rewrite rd_len_mkst in Hs by auto.
      apply andb_true_iff in Hs as [Hs _]. pose proof (shape_plain _ _ _ Hs) as Hd.
      rewrite (slices_agree be R sec o l Hb Hd) in Ef.
      assert (Hl2 : rd_lift f (mkst base sec o l) = Panic) by (unfold rd_lift, mkst; cbn [win]; now rewrite Ef).
      rewrite Hl2. cbn [fst]. rewrite rd_len_mkst by auto. constructor; [|constructor]. exact Hd.
    - assert (Hl : rd_lift f (mkst base P o l) = OutOfFuel) by (unfold rd_lift, mkst; cbn [win]; now rewrite Ef).
      rewrite Hl in Hs. cbn [fst forallb] in Hs. rewrite rd_len_mkst in Hs by auto.
      apply andb_true_iff in Hs as [Hs _]. pose proof (shape_plain _ _ _ Hs) as Hd.
      rewrite (slices_agree be R sec o l Hb Hd) in Ef.
      assert (Hl2 : rd_lift f (mkst base sec o l) = OutOfFuel) by (unfold rd_lift, mkst; cbn [win]; now rewrite Ef).
      rewrite Hl2. cbn [fst]. rewrite rd_len_mkst by auto. constructor; [|constructor]. exact Hd.
  Qed.

  Lemma rel_step (w : N) (f : list byte -> res (N * list byte)) (hook : N -> N -> res N) x r :
    sized_reader be w f -> strel x r -> shape_all (fst (pt_rel base w f r)) ->
    trace_ok R (fst (rr_rel dbg w f hook x)).
  Proof.
    intros Hs (o & l & Hb & -> & ->) Hsh.
    assert (HbP : (o + l <= length P)%nat) by now rewrite apply_rrels_length.
    unfold rr_rel. cbn [reader section]. rewrite (offset_from_mkst dbg R sec base o l Hb).
    destruct Hs as [(k & Hk & Hw & Hfk) | (e & He)].
    - destruct (Nat.le_gt_cases k l) as [Hkl|Hkl].
      + assert (E1 : f (slice sec o l) = Ok (dec_un be (slice sec o k), skipn k (slice sec o l)))
          by (rewrite Hfk; now apply (read_un_slice be R)).
        assert (E2 : f (slice P o l) = Ok (dec_un be (slice P o k), skipn k (slice P o l)))
          by (rewrite Hfk; now apply (read_un_slice be R)).
        rewrite (rd_lift_mkst R base f sec o l _ k Hb Hkl E1).
        unfold pt_rel in Hsh. rewrite (rd_lift_mkst R base f P o l _ k HbP Hkl E2) in Hsh.
        replace (off (mkst base P o l) - base) with (N.of_nat o) in Hsh by (unfold mkst; cbn [off]; lia).
        cbn [fst forallb] in *. apply andb_true_iff in Hsh as [Hsh _]. cbn [shape_okb] in Hsh.
        rewrite forallb_forall in Hsh. unfold fitsb in Hfit. rewrite forallb_forall in Hfit.
        constructor; [|constructor]. cbn [ev_ok]. split.
        * intros r Hr Hpos. specialize (Hsh r Hr). rewrite Hpos, N.eqb_refl in Hsh. apply N.eqb_eq in Hsh.
          split; auto. specialize (Hfit r Hr). apply N.ltb_lt in Hfit.
          rewrite Hpos, Hsh, <- Hw, !Nat2N.id in Hfit. rewrite <- Hw. exact Hfit.
        * intros r Hr Hpos. specialize (Hsh r Hr). apply N.eqb_neq in Hpos. rewrite Hpos in Hsh.
          now apply site_disjointb_ok.
      + assert (E1 : rd_lift f (mkst base sec o l) = Err EUnexpectedEof).
        { unfold rd_lift, mkst. cbn [win]. rewrite Hfk, (read_un_slice_eof be R) by auto. reflexivity. }
        rewrite E1. cbn [fst]. constructor.
    - assert (E1 : rd_lift f (mkst base sec o l) = Err e) by (unfold rd_lift; now rewrite He).
      rewrite E1. cbn [fst]. constructor.
  Qed.

  Lemma tbind_static {V A} (t : tres (V * rrd)) (g : V * rrd -> tres (A * rrd))
        (t' : tres (V * rd)) (g' : V * rd -> tres (A * rd)) :
    shape_all (fst (tbind t' g')) ->
    (shape_all (fst t') -> trace_ok R (fst t)) ->
    (trace_ok R (fst t) -> rrel_ (snd t) (snd t')) ->
    (forall v x' r', strel x' r' -> shape_all (fst (g' (v, r'))) -> trace_ok R (fst (g (v, x')))) ->
    trace_ok R (fst (tbind t g)).
  Proof.
    intros Hs H1 H2 H3. unfold tbind in *.
    destruct t' as [tr' [[v' r']|e'| |]]; cbn [fst snd] in *.
    - rewrite forallb_app in Hs. apply andb_true_iff in Hs as [Hs1 Hs2].
      specialize (H1 Hs1). specialize (H2 H1).
      destruct t as [tr [[v x']|e| |]]; cbn [fst snd res_rel] in *; try contradiction.
      destruct H2 as [<- Hst]. apply Forall_app. split; [exact H1|]. eapply H3; eauto.
    - specialize (H1 Hs). specialize (H2 H1).
      destruct t as [tr [[v x']|e| |]]; cbn [fst snd res_rel] in *; try contradiction; auto.
    - specialize (H1 Hs). specialize (H2 H1).
      destruct t as [tr [[v x']|e| |]]; cbn [fst snd res_rel] in *; try contradiction; auto.
    - specialize (H1 Hs). specialize (H2 H1).
      destruct t as [tr [[v x']|e| |]]; cbn [fst snd res_rel] in *; try contradiction; auto.
  Qed.

  Lemma sim_static {A} (p : prog A) : forall x r,
    strel x r -> shape_all (fst (run_plain_tr be dbg base p r)) ->
    trace_ok R (fst (run_reloc_rd be dbg (map_relocator R) p x)).
  Proof.
    induction p as [a|e| |n k IH|k IH|k IH|n k IH|k IH|size k IH|f k IH|size k IH|f k IH|len sub IHs k IHk];
      intros x r Hst Hs; cbn [run_reloc_rd run_plain_tr] in *.
    - constructor.
    - constructor.
    - constructor.
    - eapply tbind_static; [exact Hs| | |].
      + intros Hs'. eapply plain_step; eauto. apply prefix_det_read_un.
      + intros Ht. rewrite pt_plain_snd. apply plain_case; auto. apply prefix_det_read_un.
      + intros v x' r' Hst' Hs'. eapply IH; eauto.
    - eapply tbind_static; [exact Hs| | |].
      + intros Hs'. eapply plain_step; eauto. apply prefix_det_uleb.
      + intros Ht. rewrite pt_plain_snd. apply plain_case; auto. apply prefix_det_uleb.
      + intros v x' r' Hst' Hs'. eapply IH; eauto.
    - eapply tbind_static; [exact Hs| | |].
      + intros Hs'. eapply plain_step; eauto. apply prefix_det_sleb.
      + intros Ht. rewrite pt_plain_snd. apply plain_case; auto. apply prefix_det_sleb.
      + intros v x' r' Hst' Hs'. eapply IH; eauto.
    - destruct Hst as (o & l & Hb & -> & ->). cbn [reader section] in *.
      assert (HbP : (o + l <= length P)%nat) by now rewrite apply_rrels_length.
      rewrite (rd_skip_mkst R base) in * by auto.
      destruct (N.ltb_spec (N.of_nat l) n).
      + cbn. constructor.
      + unfold tbind, tret in *. cbn [fst snd bind app] in *.
        eapply IH; eauto. exists (o + N.to_nat n)%nat, (l - N.to_nat n)%nat. repeat split; auto. lia.
    - destruct Hst as (o & l & Hb & -> & ->). cbn [reader section] in *.
      rewrite !rd_len_mkst in * by (rewrite ?apply_rrels_length; auto).
      eapply IH; eauto. exists o, l. auto.
    - eapply tbind_static; [exact Hs| | |].
      + intros Hs'. eapply rel_step; eauto. apply sized_read_address.
      + intros Ht. rewrite pt_rel_snd. apply rel_case; auto. apply sized_read_address.
      + intros v x' r' Hst' Hs'. eapply IH; eauto.
    - eapply tbind_static; [exact Hs| | |].
      + intros Hs'. eapply rel_step; eauto. apply sized_read_word.
      + intros Ht. rewrite pt_rel_snd. apply rel_case; auto. apply sized_read_word.
      + intros v x' r' Hst' Hs'. eapply IH; eauto.
    - eapply tbind_static; [exact Hs| | |].
      + intros Hs'. eapply rel_step; eauto. apply sized_read_sized_offset.
      + intros Ht. rewrite pt_rel_snd. apply rel_case; auto. apply sized_read_sized_offset.
      + intros v x' r' Hst' Hs'. eapply IH; eauto.
    - eapply tbind_static; [exact Hs| | |].
      + intros Hs'. eapply plain_step; eauto. apply prefix_det_read_word.
      + intros Ht. rewrite pt_plain_snd. apply plain_case; auto. apply prefix_det_read_word.
      + intros v x' r' Hst' Hs'. eapply IH; eauto.
    - destruct Hst as (o & l & Hb & -> & ->).
      assert (HbP : (o + l <= length P)%nat) by now rewrite apply_rrels_length.
      unfold rr_split in *. cbn [reader section] in *.
      rewrite (rd_truncate_mkst R base), (rd_skip_mkst R base) by auto.
      rewrite (rd_split_mkst R base) in Hs by auto.
      destruct (N.ltb_spec (N.of_nat l) len).
      + cbn. constructor.
      + cbn [bind] in *. unfold tbind at 1 in Hs. unfold tbind at 1. unfold tret in *.
        cbn [fst snd app] in *.
        eapply tbind_static; [exact Hs| | |].
        * intros Hs'. eapply IHs; eauto. exists o, (N.to_nat len). repeat split; auto. lia.
        * intros Ht. rewrite run_plain_tr_snd. apply sim_run; auto.
          exists o, (N.to_nat len). repeat split; auto. lia.
        * intros a x'' r'' _ Hs'. eapply IHk; eauto.
          exists (o + N.to_nat len)%nat, (l - N.to_nat len)%nat. repeat split; auto. lia.
  Qed.
End Static.

(* ------------------------------------------------------------------ the static transparency theorem *)

Lemma parser_reloc_static_lemma :
  forall (A : Type) (be dbg : bool) (R : list rrel) (p : prog A) (bs : list byte) (base : N),
  sites_disjointb R = true -> fitsb be R bs = true ->
  forallb (shape_okb R) (field_trace be dbg base p (apply_rrels be R bs)) = true ->
  out_reloc (snd (run_reloc_rd be dbg (map_relocator R) p (rrd_new (mkRd base bs)))) =
  out_plain (mkRd base (apply_rrels be R bs))
            (run_plain_rd be dbg p (mkRd base (apply_rrels be R bs))).
Proof.
  intros A be dbg R p bs base HR Hf Hs. apply parser_reloc_lemma; auto.
  eapply sim_static; eauto. apply st_rel_start.
Qed.

Lemma static_okb_sound :
  forall (A : Type) (be dbg : bool) (R : list rrel) (p : prog A) (bs : list byte) (base : N),
  static_okb be dbg base R p bs = true ->
  trace_ok R (fst (run_reloc_rd be dbg (map_relocator R) p (rrd_new (mkRd base bs)))).
Proof.
  intros A be dbg R p bs base H. unfold static_okb in H.
  apply andb_true_iff in H as [H H3]. apply andb_true_iff in H as [H1 H2].
  eapply sim_static; eauto. apply st_rel_start.
Qed.

Lemma parser_reloc_static_b_lemma :
  forall (A : Type) (be dbg : bool) (R : list rrel) (p : prog A) (bs : list byte) (base : N),
  static_okb be dbg base R p bs = true ->
  out_reloc (snd (run_reloc_rd be dbg (map_relocator R) p (rrd_new (mkRd base bs)))) =
  out_plain (mkRd base (apply_rrels be R bs))
            (run_plain_rd be dbg p (mkRd base (apply_rrels be R bs))).
Proof.
  intros A be dbg R p bs base H. pose proof (static_okb_sound _ _ _ _ _ _ _ H) as Ht.
  unfold static_okb in H. apply andb_true_iff in H as [H _]. apply andb_true_iff in H as [H1 _].
  now apply parser_reloc_lemma.
Qed.

(* ------------------------------------------------------------------ which primitive parse_attribute uses *)

(* the forms whose value is an offset into another section: read_offset *)
Lemma attr_offset_forms_lemma : forall (A : Type) (k : list N -> prog A) (fuel : nat) (e : enc) (spec : aspec) (form : N),
  In form [DW_FORM_strp; DW_FORM_sec_offset; DW_FORM_strp_sup; DW_FORM_line_strp; DW_FORM_GNU_ref_alt; DW_FORM_GNU_strp_alt] ->
  exists tag, p_attr_direct k fuel e spec form = POffset (fmt64 e) (fun v => k [tag; v]).
Proof.
  intros A k fuel e spec form H. cbn [In] in H.
  repeat (destruct H as [<-|H]; [eexists; reflexivity|]). destruct H.
Qed.

Lemma attr_addr_form_lemma : forall (A : Type) (k : list N -> prog A) (fuel : nat) (e : enc) (spec : aspec),
  p_attr_direct k fuel e spec DW_FORM_addr = PAddr (address_size e) (fun v => k [T_Addr; v]).
Proof. reflexivity. Qed.

Lemma attr_ref_addr_form_lemma : forall (A : Type) (k : list N -> prog A) (fuel : nat) (e : enc) (spec : aspec),
  p_attr_direct k fuel e spec DW_FORM_ref_addr =
  if version e =? 2 then PSized (address_size e) (fun v => k [T_DebugInfoRef; v])
  else POffset (fmt64 e) (fun v => k [T_DebugInfoRef; v]).
Proof. reflexivity. Qed.

(* constants, unit-local references, signatures, supplementary-file references of fixed width, indices: plain *)
Lemma attr_plain_forms_lemma : forall (A : Type) (k : list N -> prog A) (fuel : nat) (e : enc) (spec : aspec) (form : N),
  In form [DW_FORM_data1; DW_FORM_data2; DW_FORM_data16; DW_FORM_ref1; DW_FORM_ref2; DW_FORM_ref4; DW_FORM_ref8;
           DW_FORM_ref_sig8; DW_FORM_ref_sup4; DW_FORM_ref_sup8; DW_FORM_strx1; DW_FORM_strx2; DW_FORM_strx3;
           DW_FORM_strx4; DW_FORM_addrx1; DW_FORM_addrx2; DW_FORM_addrx3; DW_FORM_addrx4] ->
  exists n tag, p_attr_direct k fuel e spec form = PU n (fun v => k [tag; v]).
Proof.
  intros A k fuel e spec form H. cbn [In] in H.
  repeat (destruct H as [<-|H]; [do 2 eexists; reflexivity|]). destruct H.
Qed.

Lemma attr_leb_forms_lemma : forall (A : Type) (k : list N -> prog A) (fuel : nat) (e : enc) (spec : aspec) (form : N),
  In form [DW_FORM_udata; DW_FORM_ref_udata; DW_FORM_strx; DW_FORM_addrx; DW_FORM_loclistx; DW_FORM_rnglistx;
           DW_FORM_GNU_str_index; DW_FORM_GNU_addr_index] ->
  exists tag, p_attr_direct k fuel e spec form = PUleb (fun v => k [tag; v]).
Proof.
  intros A k fuel e spec form H. cbn [In] in H.
  repeat (destruct H as [<-|H]; [eexists; reflexivity|]). destruct H.
Qed.

(* the line-table variant: the four string-offset forms and sec_offset are read_offset *)
Lemma line_attr_offset_forms_lemma : forall (A : Type) (sfuel : nat) (fmt md5 : bool) (k : list N -> prog A) (form : N),
  In form [DW_FORM_strp; DW_FORM_sec_offset; DW_FORM_strp_sup; DW_FORM_line_strp; DW_FORM_GNU_strp_alt] ->
  exists tag, p_line_attr sfuel fmt md5 form k = POffset fmt (fun v => k [tag; v]).
Proof.
  intros A sfuel fmt md5 k form H. cbn [In] in H.
  repeat (destruct H as [<-|H]; [eexists; reflexivity|]). destruct H.
Qed.
