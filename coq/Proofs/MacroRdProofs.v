(* Proofs/MacroRdProofs.v — lemmas about Model/MacroRd.v (src/read/macros.rs) for the C01 extension:
   no panic / fuel bound, termination with errors ignored, stop after an error, progress, round trip. *)
From Coq Require Import List NArith ZArith Bool Lia ZifyBool ZifyN ZifyNat.
From Coq.Strings Require Import Byte.
Require Import GV.Base.Res GV.Base.Byt GV.Base.Ints GV.Spec.LebSpec GV.Model.Leb GV.Model.Prim
  GV.Spec.MacroSpec GV.Model.MacroRd GV.Proofs.LebProofs GV.Proofs.PrimProofs.
Require GV.Proofs.OpDecProofs.
Import ListNotations.
Local Open Scope N_scope.
Local Arguments N.add : simpl never.
Local Arguments N.sub : simpl never.
Local Arguments N.mul : simpl never.
Local Arguments N.land : simpl never.
Local Arguments N.pow : simpl never.

(* ------------------------------------------------------------------ "returns": neither Panic nor OutOfFuel *)

Definition returns {A} (r : res A) : Prop := r <> Panic /\ r <> OutOfFuel.

Lemma returns_ok {A} (a : A) : returns (Ok a).
Proof. split; discriminate. Qed.
Lemma returns_err {A} e : returns (@Err A e).
Proof. split; discriminate. Qed.
Lemma returns_bind {A B} (r : res A) (f : A -> res B) :
  returns r -> (forall a, r = Ok a -> returns (f a)) -> returns (bind r f).
Proof.
  intros [H1 H2] Hf. destruct r as [a|e| |]; cbn [bind].
  - apply Hf; reflexivity.
  - apply returns_err.
  - contradiction.
  - contradiction.
Qed.

(* "r, when it succeeds, consumed the non-empty prefix c of bs" *)
Definition consumed (bs rest : list byte) : Prop := exists c, bs = c ++ rest /\ c <> [].

Lemma consumed_trans a b c : consumed a b -> consumed b c -> consumed a c.
Proof.
  intros (x & -> & Hx) (y & -> & Hy). exists (x ++ y). split; [now rewrite app_assoc|].
  destruct x; [contradiction|discriminate].
Qed.
Lemma consumed_cons b r : consumed (b :: r) r.
Proof. exists [b]. split; [reflexivity|discriminate]. Qed.
Lemma consumed_length a b : consumed a b -> (length b < length a)%nat.
Proof. intros (c & -> & Hc). rewrite app_length. destruct c; [contradiction|cbn [length]; lia]. Qed.

(* weak form: possibly nothing consumed *)
Definition suffix (bs rest : list byte) : Prop := exists c, bs = c ++ rest.
Lemma consumed_suffix a b c : consumed a b -> suffix b c -> consumed a c.
Proof.
  intros (x & -> & Hx) (y & ->). exists (x ++ y). split; [now rewrite app_assoc|].
  destruct x; [contradiction|discriminate].
Qed.

(* ------------------------------------------------------------------ primitive readers *)

Lemma read_u8_returns bs : returns (read_u8 bs).
Proof. destruct bs; [apply returns_err|apply returns_ok]. Qed.
Lemma read_u8_ok bs v r : read_u8 bs = Ok (v, r) -> exists b, bs = b :: r /\ v = b2n b.
Proof. destruct bs as [|b t]; cbn [read_u8]; intros H; inversion H; subst. now exists b. Qed.

Lemma read_uleb128_returns dbg bs : returns (read_uleb128 dbg bs).
Proof. exact (read_uleb128_total dbg bs). Qed.
Lemma read_uleb128_consumed dbg bs v r : read_uleb128 dbg bs = Ok (v, r) -> consumed bs r.
Proof.
  rewrite read_uleb128_exact. unfold uleb_spec.
  destruct (split_leb bs) as [[e rest]|] eqn:Hs.
  - destruct ((length e <=? 10)%nat && (uval e <? 2 ^ 64)); [|discriminate].
    intros H; inversion H; subst. exists e. split; [now apply split_leb_app|].
    pose proof (split_leb_nonempty _ _ _ Hs). destruct e; [cbn [length] in *; lia|discriminate].
  - destruct (10 <=? length bs)%nat; discriminate.
Qed.

Lemma read_cstr_returns bs : returns (read_cstr bs).
Proof.
  induction bs as [|b r IH]; cbn [read_cstr]; [apply returns_err|].
  destruct (b2n b =? 0); [apply returns_ok|].
  apply returns_bind; [exact IH|]. intros [s t] _. apply returns_ok.
Qed.
Lemma read_cstr_ok : forall bs s r, read_cstr bs = Ok (s, r) -> bs = s ++ x00 :: r /\ no_nul s = true.
Proof.
  induction bs as [|b t IH]; intros s r; cbn [read_cstr]; [discriminate|].
  destruct (b2n b =? 0) eqn:E.
  - intros H; inversion H; subst. split; [|reflexivity].
    cbn [app]. f_equal. apply b2n_inj. apply N.eqb_eq in E. rewrite E. reflexivity.
  - destruct (read_cstr t) as [[s' t']|e| |] eqn:Hr; cbn [bind]; try discriminate.
    intros H; inversion H; subst. destruct (IH _ _ eq_refl) as [-> Hn]. split; [reflexivity|].
    cbn [no_nul forallb]. rewrite E. cbn [negb andb]. exact Hn.
Qed.
Lemma read_cstr_consumed bs s r : read_cstr bs = Ok (s, r) -> consumed bs r.
Proof.
  intros H. destruct (read_cstr_ok _ _ _ H) as [-> _]. exists (s ++ [x00]).
  split; [now rewrite <- app_assoc|]. destruct s; discriminate.
Qed.
Lemma read_cstr_enc s r : no_nul s = true -> read_cstr (enc_cstr s ++ r) = Ok (s, r).
Proof.
  unfold enc_cstr. induction s as [|b t IH]; intros Hn.
  - reflexivity.
  - cbn [no_nul forallb] in Hn. apply andb_true_iff in Hn. destruct Hn as [Hb Ht].
    cbn [app read_cstr]. destruct (b2n b =? 0); [discriminate|].
    change (read_cstr ((t ++ [x00]) ++ r)) with (read_cstr ((t ++ [x00]) ++ r)).
    rewrite (IH Ht). reflexivity.
Qed.

Lemma read_un_returns n be bs : returns (read_un n be bs).
Proof. rewrite read_un_exact. destruct (length bs <? n)%nat; [apply returns_err|apply returns_ok]. Qed.
Lemma read_un_consumed n be bs v r : (1 <= n)%nat -> read_un n be bs = Ok (v, r) -> consumed bs r.
Proof.
  intros Hn H. destruct (read_un_ok_inv _ _ _ _ _ H) as (h & -> & Hl & _). exists h. split; [reflexivity|].
  destruct h; [cbn [length] in Hl; lia|discriminate].
Qed.

Lemma read_offset_returns fmt be bs : returns (read_offset fmt be bs).
Proof. unfold read_offset, read_word. destruct fmt; apply read_un_returns. Qed.
Lemma read_offset_consumed fmt be bs v r : read_offset fmt be bs = Ok (v, r) -> consumed bs r.
Proof. unfold read_offset, read_word. destruct fmt; apply read_un_consumed; lia. Qed.
Lemma read_offset_enc fmt be o r : fits_off fmt o = true -> read_offset fmt be (enc_off fmt be o ++ r) = Ok (o, r).
Proof.
  unfold read_offset, read_word, enc_off, fits_off, off_bytes. destruct fmt; intros H.
  - apply read_un_enc_un_small. change (p256 8) with two64. lia.
  - apply read_un_enc_un_small. change (p256 4) with two32. lia.
Qed.

Lemma read_uleb128_enc dbg v r : v < two64 -> read_uleb128 dbg (enc_uleb v ++ r) = Ok (v, r).
Proof. exact (OpDecProofs.read_uleb128_enc dbg v r). Qed.

(* ------------------------------------------------------------------ operand shapes *)

Lemma p_line_str_returns dbg bs : returns (p_line_str dbg bs).
Proof.
  unfold p_line_str. apply returns_bind; [apply read_uleb128_returns|]. intros [l r1] _.
  apply returns_bind; [apply read_cstr_returns|]. intros [s r2] _. apply returns_ok.
Qed.
Lemma p_line_str_consumed dbg bs p r : p_line_str dbg bs = Ok (p, r) -> consumed bs r.
Proof.
  unfold p_line_str. destruct (read_uleb128 dbg bs) as [[l r1]|e| |] eqn:H1; cbn [bind]; try discriminate.
  destruct (read_cstr r1) as [[s r2]|e| |] eqn:H2; cbn [bind]; try discriminate.
  intros H; inversion H; subst.
  eapply consumed_trans; [eapply read_uleb128_consumed; eassumption|eapply read_cstr_consumed; eassumption].
Qed.
Lemma p_line_str_enc dbg l s r : l < two64 -> no_nul s = true ->
  p_line_str dbg (enc_uleb l ++ enc_cstr s ++ r) = Ok ((l, s), r).
Proof.
  intros Hl Hs. unfold p_line_str. rewrite read_uleb128_enc by exact Hl. cbn [bind].
  rewrite read_cstr_enc by exact Hs. reflexivity.
Qed.

Lemma p_two_uleb_returns dbg bs : returns (p_two_uleb dbg bs).
Proof.
  unfold p_two_uleb. apply returns_bind; [apply read_uleb128_returns|]. intros [l r1] _.
  apply returns_bind; [apply read_uleb128_returns|]. intros [s r2] _. apply returns_ok.
Qed.
Lemma p_two_uleb_consumed dbg bs p r : p_two_uleb dbg bs = Ok (p, r) -> consumed bs r.
Proof.
  unfold p_two_uleb. destruct (read_uleb128 dbg bs) as [[l r1]|e| |] eqn:H1; cbn [bind]; try discriminate.
  destruct (read_uleb128 dbg r1) as [[s r2]|e| |] eqn:H2; cbn [bind]; try discriminate.
  intros H; inversion H; subst.
  eapply consumed_trans; eapply read_uleb128_consumed; eassumption.
Qed.
Lemma p_two_uleb_enc dbg a b r : a < two64 -> b < two64 ->
  p_two_uleb dbg (enc_uleb a ++ enc_uleb b ++ r) = Ok ((a, b), r).
Proof.
  intros Ha Hb. unfold p_two_uleb. rewrite read_uleb128_enc by exact Ha. cbn [bind].
  rewrite read_uleb128_enc by exact Hb. reflexivity.
Qed.

Lemma p_line_off_returns dbg fmt be bs : returns (p_line_off dbg fmt be bs).
Proof.
  unfold p_line_off. apply returns_bind; [apply read_uleb128_returns|]. intros [l r1] _.
  apply returns_bind; [apply read_offset_returns|]. intros [s r2] _. apply returns_ok.
Qed.
Lemma p_line_off_consumed dbg fmt be bs p r : p_line_off dbg fmt be bs = Ok (p, r) -> consumed bs r.
Proof.
  unfold p_line_off. destruct (read_uleb128 dbg bs) as [[l r1]|e| |] eqn:H1; cbn [bind]; try discriminate.
  destruct (read_offset fmt be r1) as [[s r2]|e| |] eqn:H2; cbn [bind]; try discriminate.
  intros H; inversion H; subst.
  eapply consumed_trans; [eapply read_uleb128_consumed; eassumption|eapply read_offset_consumed; eassumption].
Qed.
Lemma p_line_off_enc dbg fmt be l o r : l < two64 -> fits_off fmt o = true ->
  p_line_off dbg fmt be (enc_uleb l ++ enc_off fmt be o ++ r) = Ok ((l, o), r).
Proof.
  intros Hl Ho. unfold p_line_off. rewrite read_uleb128_enc by exact Hl. cbn [bind].
  rewrite read_offset_enc by exact Ho. reflexivity.
Qed.

(* ------------------------------------------------------------------ parse_next *)

(* every `let* (p, r') := P in Ok (Some .., r')` arm *)
Lemma arm_returns {A} (P : res (A * list byte)) (k : A -> mentry) :
  returns P -> returns (let* (p, r') := P in Ok (Some (k p), r')).
Proof. intros H. apply returns_bind; [exact H|]. intros [p r'] _. apply returns_ok. Qed.

Lemma arm_consumed {A} (P : res (A * list byte)) (k : A -> mentry) bs o rest :
  (forall p r, P = Ok (p, r) -> consumed bs r) ->
  (let* (p, r') := P in Ok (Some (k p), r')) = Ok (o, rest) ->
  (exists e, o = Some e) /\ consumed bs rest.
Proof.
  intros HP. destruct P as [[p r']|e| |]; cbn [bind]; try discriminate.
  intros H; inversion H; subst. split; [eauto|]. apply (HP p rest eq_refl).
Qed.

Lemma parse_next_returns dbg be it : returns (parse_next dbg be it).
Proof.
  unfold parse_next. apply returns_bind; [apply read_u8_returns|]. intros [ty r] _.
  repeat match goal with
  | |- returns (if ?c then _ else _) => destruct c
  end;
  try apply returns_ok; try apply returns_err;
  first [ apply (arm_returns _ (fun p => MDefine (fst p) (MDirect (snd p)))); apply p_line_str_returns
        | apply (arm_returns _ (fun p => MUndef (fst p) (MDirect (snd p)))); apply p_line_str_returns
        | apply (arm_returns _ (fun p => MVendorExt (fst p) (snd p))); apply p_line_str_returns
        | apply (arm_returns _ (fun p => MStartFile (fst p) (snd p))); apply p_two_uleb_returns
        | apply (arm_returns _ (fun p => MDefine (fst p) (MStrx (snd p)))); apply p_two_uleb_returns
        | apply (arm_returns _ (fun p => MUndef (fst p) (MStrx (snd p)))); apply p_two_uleb_returns
        | apply (arm_returns _ (fun p => MDefine (fst p) (MStrp (snd p)))); apply p_line_off_returns
        | apply (arm_returns _ (fun p => MUndef (fst p) (MStrp (snd p)))); apply p_line_off_returns
        | apply (arm_returns _ (fun p => MDefine (fst p) (MSup (snd p)))); apply p_line_off_returns
        | apply (arm_returns _ (fun p => MUndef (fst p) (MSup (snd p)))); apply p_line_off_returns
        | apply (arm_returns _ MImport); apply read_offset_returns
        | apply (arm_returns _ MImportSup); apply read_offset_returns ].
Qed.

(* a successful parse either reports the end and leaves nothing, or yields an entry and has consumed a
   non-empty prefix of the input: the rest is a proper suffix (so it stays inside the section) *)
Lemma parse_next_ok dbg be it o rest : parse_next dbg be it = Ok (o, rest) ->
  (o = None /\ rest = [] /\ mi_input it <> []) \/ ((exists e, o = Some e) /\ consumed (mi_input it) rest).
Proof.
  unfold parse_next. destruct (read_u8 (mi_input it)) as [[ty r]|e| |] eqn:H8; cbn [bind]; try discriminate.
  destruct (read_u8_ok _ _ _ H8) as (b & Hin & _). rewrite Hin.
  assert (Hc : consumed (b :: r) r) by apply consumed_cons.
  assert (K : forall (A : Type) (P : res (A * list byte)) (k : A -> mentry),
             (forall p r', P = Ok (p, r') -> consumed r r') ->
             (let* (p, r') := P in Ok (Some (k p), r')) = Ok (o, rest) ->
             (o = None /\ rest = [] /\ b :: r <> []) \/ ((exists e, o = Some e) /\ consumed (b :: r) rest)).
  { intros A P k HP H. right. destruct (arm_consumed P k r o rest HP H) as [He Hr]. split; [exact He|].
    eapply consumed_trans; eassumption. }
  repeat match goal with
  | |- (if ?c then _ else _) = _ -> _ => destruct c
  end; try discriminate.
  - intros H; inversion H; subst. left. repeat split. discriminate.
  - apply (K _ _ (fun p => MDefine (fst p) (MDirect (snd p)))). apply p_line_str_consumed.
  - apply (K _ _ (fun p => MUndef (fst p) (MDirect (snd p)))). apply p_line_str_consumed.
  - apply (K _ _ (fun p => MStartFile (fst p) (snd p))). apply p_two_uleb_consumed.
  - intros H; inversion H; subst. right. split; [eauto|exact Hc].
  - apply (K _ _ (fun p => MDefine (fst p) (MStrp (snd p)))). apply p_line_off_consumed.
  - apply (K _ _ (fun p => MUndef (fst p) (MStrp (snd p)))). apply p_line_off_consumed.
  - apply (K _ _ MImport). apply read_offset_consumed.
  - apply (K _ _ (fun p => MDefine (fst p) (MSup (snd p)))). apply p_line_off_consumed.
  - apply (K _ _ (fun p => MUndef (fst p) (MSup (snd p)))). apply p_line_off_consumed.
  - apply (K _ _ MImportSup). apply read_offset_consumed.
  - apply (K _ _ (fun p => MDefine (fst p) (MStrx (snd p)))). apply p_two_uleb_consumed.
  - apply (K _ _ (fun p => MUndef (fst p) (MStrx (snd p)))). apply p_two_uleb_consumed.
  - apply (K _ _ (fun p => MVendorExt (fst p) (snd p))). apply p_line_str_consumed.
Qed.

(* ------------------------------------------------------------------ MacroIter::next *)

Lemma macro_next_empty dbg be it : mi_input it = [] -> macro_next dbg be it = (Ok None, it).
Proof. intros H. unfold macro_next. rewrite H. reflexivity. Qed.

Lemma set_input_same it : set_input it (mi_input it) = it.
Proof. destruct it; reflexivity. Qed.

(* the complete case analysis of one call *)
Lemma macro_next_cases dbg be it :
  (mi_input it = [] /\ macro_next dbg be it = (Ok None, it)) \/
  (mi_input it <> [] /\ macro_next dbg be it = (Ok None, set_input it [])) \/
  (exists e rest, macro_next dbg be it = (Ok (Some e), set_input it rest) /\ consumed (mi_input it) rest) \/
  (exists e, mi_input it <> [] /\ macro_next dbg be it = (Err e, set_input it [])).
Proof.
  destruct (mi_input it) as [|b t] eqn:Hin.
  - left. split; [reflexivity|]. now apply macro_next_empty.
  - right. unfold macro_next. rewrite Hin.
    pose proof (parse_next_returns dbg be it) as [Hp Hf].
    destruct (parse_next dbg be it) as [[o rest]|e| |] eqn:Hpn; try contradiction.
    + destruct (parse_next_ok _ _ _ _ _ Hpn) as [(-> & -> & _)|((e & ->) & Hc)].
      * left. split; [discriminate|reflexivity].
      * right. left. exists e, rest. split; [reflexivity|]. rewrite <- Hin. exact Hc.
    + right. right. exists e. split; [discriminate|reflexivity].
Qed.

Lemma macro_next_returns dbg be it : returns (fst (macro_next dbg be it)).
Proof.
  destruct (macro_next_cases dbg be it) as [[_ H]|[[_ H]|[(e & rest & H & _)|(e & _ & H)]]];
    rewrite H; cbn [fst]; first [apply returns_ok|apply returns_err].
Qed.

(* format and is_macro never change; the remaining input only shrinks (it is a suffix of what it was) *)
Lemma macro_next_state dbg be it :
  let it' := snd (macro_next dbg be it) in
  mi_fmt64 it' = mi_fmt64 it /\ mi_is_macro it' = mi_is_macro it /\ suffix (mi_input it) (mi_input it').
Proof.
  destruct (macro_next_cases dbg be it) as [[_ H]|[[_ H]|[(e & rest & H & Hc)|(e & _ & H)]]];
    rewrite H; cbn [snd set_input mi_fmt64 mi_is_macro mi_input]; repeat split.
  - exists []. reflexivity.
  - exists (mi_input it). now rewrite app_nil_r.
  - destruct Hc as (c & -> & _). now exists c.
  - exists (mi_input it). now rewrite app_nil_r.
Qed.

Lemma macro_after_empty dbg be it : mi_input it = [] -> forall j, macro_after j dbg be it = it.
Proof.
  intros H j. induction j as [|j IH]; [reflexivity|].
  cbn [macro_after]. rewrite macro_next_empty by exact H. cbn [snd]. exact IH.
Qed.

Lemma none_forever dbg be it : mi_input it = [] ->
  forall j, fst (macro_next dbg be (macro_after j dbg be it)) = Ok None.
Proof.
  intros H j. rewrite macro_after_empty by exact H. rewrite macro_next_empty by exact H. reflexivity.
Qed.

(* ------------------------------------------------------------------ the caller that ignores errors *)

(* with fuel above the number of remaining bytes the loop finishes, and what it collected is exactly
   what the successive calls of next() returned; after that every call returns Ok(None) *)
Lemma macro_run_spec dbg be : forall fuel it, (length (mi_input it) < fuel)%nat ->
  exists l, macro_run fuel dbg be it = Ok l /\
    (length l <= length (mi_input it))%nat /\
    (forall j, (j < length l)%nat -> ev_of (fst (macro_next dbg be (macro_after j dbg be it))) = nth_error l j) /\
    (forall j, (length l <= j)%nat -> fst (macro_next dbg be (macro_after j dbg be it)) = Ok None) /\
    (forall j e, nth_error l j = Some (EvErr e) -> S j = length l).
Proof.
  induction fuel as [|f IH]; intros it Hf; [lia|].
  cbn [macro_run].
  destruct (macro_next_cases dbg be it) as [[Hin H]|[[Hin H]|[(e & rest & H & Hc)|(e & Hin & H)]]].
  - rewrite H. exists []. split; [reflexivity|]. cbn [length]. split; [lia|]. split; [intros j Hj; lia|].
    split; [|intros j e Hj; destruct j; discriminate]. intros j _. now apply none_forever.
  - rewrite H. exists []. split; [reflexivity|]. cbn [length]. split; [lia|]. split; [intros j Hj; lia|].
    split; [|intros j e Hj; destruct j; discriminate].
    intros j _. destruct j as [|j]; [cbn [macro_after]; rewrite H; reflexivity|].
    cbn [macro_after]. rewrite H. cbn [snd]. now apply none_forever.
  - rewrite H. pose proof (consumed_length _ _ Hc) as Hlen.
    destruct (IH (set_input it rest)) as (l & Hr & Hl & Hev & Hnone & Herr); [cbn [set_input mi_input]; lia|].
    rewrite Hr. cbn [bind]. exists (EvEntry e :: l). split; [reflexivity|].
    cbn [set_input mi_input] in Hl. cbn [length]. split; [lia|]. split; [|split].
    + intros [|j] Hj; cbn [macro_after nth_error]; rewrite H; [reflexivity|]. cbn [snd]. apply Hev. lia.
    + intros [|j] Hj; [lia|]. cbn [macro_after]. rewrite H. cbn [snd]. apply Hnone. lia.
    + intros [|j] e' Hj; cbn [nth_error] in Hj; [discriminate|]. f_equal. eapply Herr; eassumption.
  - rewrite H.
    assert (Hrun : macro_run f dbg be (set_input it []) = Ok []).
    { destruct f as [|f']; [destruct (mi_input it); [contradiction|cbn [length] in Hf; lia]|].
      cbn [macro_run]. rewrite macro_next_empty by reflexivity. reflexivity. }
    rewrite Hrun. cbn [bind]. exists [EvErr e]. split; [reflexivity|]. cbn [length].
    split; [destruct (mi_input it); [contradiction|cbn [length]; lia]|]. split; [|split].
    + intros [|j] Hj; [|lia]. cbn [macro_after nth_error]. rewrite H. reflexivity.
    + intros [|j] Hj; [lia|]. cbn [macro_after]. rewrite H. cbn [snd]. now apply none_forever.
    + intros [|[|j]] e' Hj; cbn [nth_error] in Hj; try discriminate. reflexivity.
Qed.

(* get_* : the iterator starts inside the section *)
Lemma mskip_returns n bs : returns (mskip n bs).
Proof. unfold mskip. destruct (N.of_nat (length bs) <? n); [apply returns_err|apply returns_ok]. Qed.
Lemma mskip_ok n bs r : mskip n bs = Ok r -> suffix bs r.
Proof.
  unfold mskip. destruct (N.of_nat (length bs) <? n); [discriminate|]. intros H; inversion H; subst.
  exists (firstn (N.to_nat n) bs). symmetry. apply firstn_skipn.
Qed.
Lemma suffix_length a b : suffix a b -> (length b <= length a)%nat.
Proof. intros (c & ->). rewrite app_length. lia. Qed.
Lemma suffix_trans a b c : suffix a b -> suffix b c -> suffix a c.
Proof. intros (x & ->) (y & ->). exists (x ++ y). now rewrite app_assoc. Qed.
Lemma consumed_is_suffix a b : consumed a b -> suffix a b.
Proof. intros (c & -> & _). now exists c. Qed.

Lemma get_macinfo_returns section offset : returns (get_macinfo section offset).
Proof.
  unfold get_macinfo. apply returns_bind; [apply mskip_returns|]. intros inp _. apply returns_ok.
Qed.
Lemma get_macinfo_ok section offset it : get_macinfo section offset = Ok it ->
  suffix section (mi_input it) /\ mi_fmt64 it = false /\ mi_is_macro it = false.
Proof.
  unfold get_macinfo. destruct (mskip offset section) as [inp|e| |] eqn:Hs; cbn [bind]; try discriminate.
  intros H; inversion H; subst. cbn [mi_input mi_fmt64 mi_is_macro]. repeat split. now apply mskip_ok in Hs.
Qed.

Lemma parse_header_returns be bs : returns (parse_header be bs).
Proof.
  unfold parse_header. apply returns_bind; [apply read_un_returns|]. intros [v r1] _.
  apply returns_bind; [apply read_u8_returns|]. intros [fl r2] _.
  apply returns_bind.
  - destruct (flag_set fl DEBUG_LINE_OFFSET_FLAG); [apply read_offset_returns|apply returns_ok].
  - intros [lo r3] _. destruct (flag_set fl OPCODE_OPERANDS_TABLE_FLAG); [apply returns_err|apply returns_ok].
Qed.
Lemma parse_header_ok be bs h r : parse_header be bs = Ok (h, r) ->
  consumed bs r /\ mh_has_table h = false /\ mh_version h < two16 /\ mh_flags h < 256.
Proof.
  unfold parse_header.
  destruct (read_u16 be bs) as [[v r1]|e| |] eqn:H1; cbn [bind]; try discriminate.
  destruct (read_u8 r1) as [[fl r2]|e| |] eqn:H2; cbn [bind]; try discriminate.
  assert (C1 : consumed bs r1) by (eapply (read_un_consumed 2); [lia|exact H1]).
  destruct (read_u8_ok _ _ _ H2) as (b & -> & ->).
  assert (C2 : consumed bs r2) by (eapply consumed_trans; [exact C1|apply consumed_cons]).
  destruct (read_un_value_lt _ _ _ _ _ H1) as [Hv _]. change (p256 2) with two16 in Hv.
  pose proof (b2n_lt b) as Hb.
  destruct (flag_set (b2n b) DEBUG_LINE_OFFSET_FLAG).
  - destruct (read_offset _ be r2) as [[lo r3]|e| |] eqn:H3; cbn [bind]; try discriminate.
    destruct (flag_set (b2n b) OPCODE_OPERANDS_TABLE_FLAG) eqn:Ht; [discriminate|].
    intros H; inversion H; subst. unfold mh_has_table. cbn [mh_flags mh_version]. repeat split; try assumption.
    eapply consumed_trans; [exact C2|eapply read_offset_consumed; exact H3].
  - cbn [bind]. destruct (flag_set (b2n b) OPCODE_OPERANDS_TABLE_FLAG) eqn:Ht; [discriminate|].
    intros H; inversion H; subst. unfold mh_has_table. cbn [mh_flags mh_version]. repeat split; assumption.
Qed.

Lemma get_macros_returns be section offset : returns (get_macros be section offset).
Proof.
  unfold get_macros. apply returns_bind; [apply mskip_returns|]. intros inp _.
  apply returns_bind; [apply parse_header_returns|]. intros [h r] _. apply returns_ok.
Qed.
Lemma get_macros_ok be section offset it : get_macros be section offset = Ok it ->
  suffix section (mi_input it) /\ mi_is_macro it = true.
Proof.
  unfold get_macros. destruct (mskip offset section) as [inp|e| |] eqn:Hs; cbn [bind]; try discriminate.
  destruct (parse_header be inp) as [[h r]|e| |] eqn:Hh; cbn [bind]; try discriminate.
  intros H; inversion H; subst. cbn [mi_input mi_is_macro]. split; [|reflexivity].
  eapply suffix_trans; [eapply mskip_ok; exact Hs|]. apply consumed_is_suffix. now apply parse_header_ok in Hh.
Qed.

Lemma run_from_section dbg be section it : suffix section (mi_input it) ->
  returns (macro_run (S (length section)) dbg be it).
Proof.
  intros Hs. apply suffix_length in Hs.
  destruct (macro_run_spec dbg be (S (length section)) it) as (l & -> & _); [lia|]. apply returns_ok.
Qed.

(* ================================================================== (a) no panic, fuel bound *)

Theorem macro_no_panic_lemma : forall (dbg be : bool) (section : list byte) (offset : N),
  (get_macinfo section offset <> Panic /\ get_macinfo section offset <> OutOfFuel) /\
  (get_macros be section offset <> Panic /\ get_macros be section offset <> OutOfFuel) /\
  (forall it, fst (macro_next dbg be it) <> Panic /\ fst (macro_next dbg be it) <> OutOfFuel) /\
  (macinfo_all dbg be section offset <> Panic /\ macinfo_all dbg be section offset <> OutOfFuel) /\
  (macros_all dbg be section offset <> Panic /\ macros_all dbg be section offset <> OutOfFuel).
Proof.
  intros dbg be section offset.
  split; [apply get_macinfo_returns|]. split; [apply get_macros_returns|].
  split; [intros it; apply macro_next_returns|]. split.
  - unfold macinfo_all. apply returns_bind; [apply get_macinfo_returns|]. intros it Hit.
    apply run_from_section. now apply get_macinfo_ok in Hit.
  - unfold macros_all. apply returns_bind; [apply get_macros_returns|]. intros it Hit.
    apply run_from_section. now apply get_macros_ok in Hit.
Qed.

(* ================================================================== (b) termination, errors ignored *)

Theorem macro_iter_terminates_lemma : forall (dbg be : bool) (it : miter),
  exists l : list mev,
    macro_run (S (length (mi_input it))) dbg be it = Ok l /\
    (length l <= length (mi_input it))%nat /\
    (forall j, (j < length l)%nat ->
       ev_of (fst (macro_next dbg be (macro_after j dbg be it))) = nth_error l j) /\
    (forall j, (length l <= j)%nat -> fst (macro_next dbg be (macro_after j dbg be it)) = Ok None).
Proof.
  intros dbg be it.
  destruct (macro_run_spec dbg be (S (length (mi_input it))) it) as (l & H1 & H2 & H3 & H4 & _); [lia|].
  exists l. repeat split; assumption.
Qed.

(* the same from an entry point: at most |section| + 1 calls of next() are needed in total *)
Theorem macro_section_terminates_lemma : forall (dbg be : bool) (section : list byte) (offset : N) (it : miter),
  get_macinfo section offset = Ok it \/ get_macros be section offset = Ok it ->
  exists k, (k <= length section)%nat /\
    forall j, (k <= j)%nat -> fst (macro_next dbg be (macro_after j dbg be it)) = Ok None.
Proof.
  intros dbg be section offset it Hit.
  assert (Hs : suffix section (mi_input it)).
  { destruct Hit as [H|H]; [now apply get_macinfo_ok in H|now apply get_macros_ok in H]. }
  apply suffix_length in Hs.
  destruct (macro_iter_terminates_lemma dbg be it) as (l & _ & Hl & _ & Hn).
  exists (length l). split; [lia|exact Hn].
Qed.

(* ================================================================== (c) stop after an error *)

Theorem macro_stops_after_error_lemma : forall (dbg be : bool) (it it' : miter) (e : error),
  macro_next dbg be it = (Err e, it') ->
  mi_input it' = [] /\
  forall j, macro_next dbg be (macro_after j dbg be it') = (Ok None, it').
Proof.
  intros dbg be it it' e H.
  destruct (macro_next_cases dbg be it) as [[_ H']|[[_ H']|[(e' & rest & H' & _)|(e' & _ & H')]]];
    rewrite H' in H; inversion H; subst.
  split; [reflexivity|]. intros j. rewrite macro_after_empty by reflexivity. now apply macro_next_empty.
Qed.

(* in a run with errors ignored an error can only be the last thing reported *)
Theorem macro_error_is_last_lemma : forall (dbg be : bool) (it : miter) (l : list mev) (j : nat) (e : error),
  macro_run (S (length (mi_input it))) dbg be it = Ok l -> nth_error l j = Some (EvErr e) -> S j = length l.
Proof.
  intros dbg be it l j e Hr Hj.
  destruct (macro_run_spec dbg be (S (length (mi_input it))) it) as (l' & H1 & _ & _ & _ & H5); [lia|].
  rewrite Hr in H1. inversion H1; subst. eapply H5; eassumption.
Qed.

(* ================================================================== (d) progress *)

Theorem macro_progress_lemma : forall (dbg be : bool) (it it' : miter) (r : res (option mentry)),
  macro_next dbg be it = (r, it') ->
  mi_fmt64 it' = mi_fmt64 it /\ mi_is_macro it' = mi_is_macro it /\
  (exists c, mi_input it = c ++ mi_input it' /\
     ((exists e, r = Ok (Some e)) -> (1 <= length c)%nat) /\
     ((exists e, r = Err e) -> (1 <= length c)%nat /\ mi_input it' = []) /\
     (r = Ok None -> mi_input it' = [])).
Proof.
  intros dbg be it it' r H.
  destruct (macro_next_cases dbg be it) as [[Hin H']|[[Hin H']|[(e' & rest & H' & Hc)|(e' & Hin & H')]]];
    rewrite H' in H; inversion H; subst; cbn [set_input mi_fmt64 mi_is_macro mi_input];
    split; try reflexivity; split; try reflexivity.
  - exists []. rewrite Hin. split; [reflexivity|]. split; [intros (e & He); discriminate|].
    split; [intros (e & He); discriminate|]. intros _. reflexivity.
  - exists (mi_input it). split; [now rewrite app_nil_r|]. split; [intros (e & He); discriminate|].
    split; [intros (e & He); discriminate|]. intros _. reflexivity.
  - destruct Hc as (c & Hc & Hne). exists c. split; [exact Hc|].
    split; [intros _; destruct c; [contradiction|cbn [length]; lia]|].
    split; [intros (e & He); discriminate|]. intros He; discriminate.
  - exists (mi_input it). split; [now rewrite app_nil_r|]. split; [intros (e & He); discriminate|].
    split; [|intros He; discriminate]. intros _. split; [|reflexivity].
    destruct (mi_input it); [contradiction|cbn [length]; lia].
Qed.

(* ================================================================== (e) round trip *)

Lemma enc_entry_cons fmt be e : exists b t, enc_entry fmt be e = b :: t.
Proof. destruct e as [l [s|o|i|o]|l [s|o|i|o]|l f| |o|o|n s]; cbn [enc_entry]; eauto. Qed.

Lemma enc_entries_cons fmt be e es : enc_entries fmt be (e :: es) = enc_entry fmt be e ++ enc_entries fmt be es.
Proof. reflexivity. Qed.

Lemma enc_entries_length fmt be es : (length es <= length (enc_entries fmt be es))%nat.
Proof.
  induction es as [|e es IH]; [cbn; lia|]. rewrite enc_entries_cons, app_length.
  destruct (enc_entry_cons fmt be e) as (b & t & ->). cbn [length]. lia.
Qed.

Ltac wf_split :=
  cbn [wf_entry wf_mstring] in *;
  repeat match goal with
  | H : _ && _ = true |- _ => apply andb_true_iff in H; destruct H
  end.

Lemma parse_next_enc dbg be fmt ism e rest :
  wf_entry ism fmt e = true ->
  parse_next dbg be {| mi_input := enc_entry fmt be e ++ rest; mi_fmt64 := fmt; mi_is_macro := ism |}
  = Ok (Some e, rest).
Proof.
  intros Hwf. unfold parse_next. cbn [mi_input mi_fmt64 mi_is_macro].
  destruct e as [l [s|o|i|o]|l [s|o|i|o]|l f| |o|o|n s]; cbn [enc_entry app read_u8 bind]; wf_split;
    repeat match goal with
    | H : ism = true |- _ => subst ism
    | H : negb ism = true |- _ => destruct ism; [discriminate H|clear H]
    end;
    rewrite b2n_n2b_small by reflexivity;
    unfold DW_MACRO_define, DW_MACRO_undef, DW_MACRO_start_file, DW_MACRO_end_file, DW_MACRO_define_strp,
      DW_MACRO_undef_strp, DW_MACRO_import, DW_MACRO_define_sup, DW_MACRO_undef_sup, DW_MACRO_import_sup,
      DW_MACRO_define_strx, DW_MACRO_undef_strx, DW_MACINFO_vendor_ext;
    cbn [N.eqb Pos.eqb andb];
    try rewrite <- !app_assoc;
    first [ rewrite p_line_str_enc by (first [assumption|lia])
          | rewrite p_two_uleb_enc by lia
          | rewrite p_line_off_enc by (first [assumption|lia])
          | rewrite read_offset_enc by assumption
          | idtac ];
    reflexivity.
Qed.

Lemma macro_next_nonempty dbg be it : mi_input it <> [] ->
  macro_next dbg be it =
  match parse_next dbg be it with
  | Ok (entry, rest) => (Ok entry, set_input it rest)
  | Err e => (Err e, set_input it [])
  | Panic => (Panic, it)
  | OutOfFuel => (OutOfFuel, it)
  end.
Proof. unfold macro_next. destruct (mi_input it); [contradiction|reflexivity]. Qed.

Lemma macro_next_enc dbg be fmt ism e rest :
  wf_entry ism fmt e = true ->
  macro_next dbg be {| mi_input := enc_entry fmt be e ++ rest; mi_fmt64 := fmt; mi_is_macro := ism |}
  = (Ok (Some e), {| mi_input := rest; mi_fmt64 := fmt; mi_is_macro := ism |}).
Proof.
  intros Hwf. rewrite macro_next_nonempty.
  - rewrite parse_next_enc by exact Hwf. reflexivity.
  - cbn [mi_input]. destruct (enc_entry_cons fmt be e) as (b & t & ->). discriminate.
Qed.

Lemma macro_next_end dbg be fmt ism tail : ends_list tail ->
  fst (macro_next dbg be {| mi_input := tail; mi_fmt64 := fmt; mi_is_macro := ism |}) = Ok None.
Proof. intros [->|(t & ->)]; reflexivity. Qed.

Lemma macro_run_enc dbg be fmt ism : forall es tail fuel,
  forallb (wf_entry ism fmt) es = true -> ends_list tail -> (length es < fuel)%nat ->
  macro_run fuel dbg be {| mi_input := enc_entries fmt be es ++ tail; mi_fmt64 := fmt; mi_is_macro := ism |}
  = Ok (map EvEntry es).
Proof.
  induction es as [|e es IH]; intros tail fuel Hwf Hend Hf; (destruct fuel as [|f]; [cbn [length] in Hf; lia|]).
  - cbn [enc_entries map concat app macro_run].
    pose proof (macro_next_end dbg be fmt ism tail Hend) as Hn.
    destruct (macro_next dbg be _) as [r it']. cbn [fst] in Hn. subst r. reflexivity.
  - cbn [forallb] in Hwf. apply andb_true_iff in Hwf. destruct Hwf as [He Hes].
    rewrite enc_entries_cons, <- app_assoc. cbn [macro_run]. rewrite macro_next_enc by exact He.
    rewrite IH by (try assumption; cbn [length] in Hf; lia). reflexivity.
Qed.

(* call by call: the j-th call of next() returns the j-th entry, every later call returns Ok(None) *)
Lemma macro_calls_enc dbg be fmt ism es tail :
  forallb (wf_entry ism fmt) es = true -> ends_list tail ->
  let it := {| mi_input := enc_entries fmt be es ++ tail; mi_fmt64 := fmt; mi_is_macro := ism |} in
  (forall j e, nth_error es j = Some e -> fst (macro_next dbg be (macro_after j dbg be it)) = Ok (Some e)) /\
  (forall j, (length es <= j)%nat -> fst (macro_next dbg be (macro_after j dbg be it)) = Ok None).
Proof.
  intros Hwf Hend it.
  destruct (macro_run_spec dbg be (S (length (mi_input it))) it) as (l & Hr & _ & Hev & Hn & _); [lia|].
  assert (Hl : l = map EvEntry es).
  { unfold it in Hr. rewrite macro_run_enc in Hr; try assumption.
    - now inversion Hr.
    - cbn [mi_input]. rewrite app_length. pose proof (enc_entries_length fmt be es). lia. }
  subst l. rewrite map_length in *. split; [|exact Hn].
  intros j e Hj.
  assert (Hlt : (j < length es)%nat) by (apply nth_error_Some; rewrite Hj; discriminate).
  specialize (Hev j Hlt). rewrite (map_nth_error EvEntry j es Hj) in Hev.
  destruct (fst (macro_next dbg be (macro_after j dbg be it))) as [[e'|]|e'| |]; cbn [ev_of] in Hev;
    inversion Hev; subst; reflexivity.
Qed.

Lemma mskip_app pre bs : mskip (N.of_nat (length pre)) (pre ++ bs) = Ok bs.
Proof.
  unfold mskip. rewrite app_length.
  destruct (N.of_nat (length pre + length bs) <? N.of_nat (length pre)) eqn:E; [lia|].
  rewrite Nat2N.id, skipn_app, Nat.sub_diag, skipn_all. reflexivity.
Qed.

Lemma parse_header_enc be h rest : wf_header h = true -> mh_has_table h = false ->
  parse_header be (enc_header be h ++ rest) = Ok (h, rest).
Proof.
  destruct h as [ver flags lo]. unfold enc_header, wf_header, mh_has_table, mh_has_line, mh_fmt64.
  cbn [mh_version mh_flags mh_line_offset]. intros Hwf Ht.
  apply andb_true_iff in Hwf. destruct Hwf as [Hwf Hlo]. apply andb_true_iff in Hwf. destruct Hwf as [Hv Hf].
  unfold parse_header, read_u16. rewrite <- !app_assoc.
  rewrite read_un_enc_un_small by (change (p256 2) with two16; lia). cbn [bind app read_u8].
  rewrite b2n_n2b_small by lia. rewrite Ht.
  destruct (flag_set flags DEBUG_LINE_OFFSET_FLAG).
  - rewrite read_offset_enc by exact Hlo. reflexivity.
  - apply N.eqb_eq in Hlo. subst lo. reflexivity.
Qed.

(* a header with the operands-table flag is rejected (after its other fields were read) *)
Lemma parse_header_table be h rest : wf_header h = true -> mh_has_table h = true ->
  parse_header be (enc_header be h ++ rest) = Err EUnsupportedOpcodeOperandsTable.
Proof.
  destruct h as [ver flags lo]. unfold enc_header, wf_header, mh_has_table, mh_has_line, mh_fmt64.
  cbn [mh_version mh_flags mh_line_offset]. intros Hwf Ht.
  apply andb_true_iff in Hwf. destruct Hwf as [Hwf Hlo]. apply andb_true_iff in Hwf. destruct Hwf as [Hv Hf].
  unfold parse_header, read_u16. rewrite <- !app_assoc.
  rewrite read_un_enc_un_small by (change (p256 2) with two16; lia). cbn [bind app read_u8].
  rewrite b2n_n2b_small by lia. rewrite Ht.
  destruct (flag_set flags DEBUG_LINE_OFFSET_FLAG).
  - rewrite read_offset_enc by exact Hlo. reflexivity.
  - reflexivity.
Qed.

Theorem macro_roundtrip_lemma :
  (* DWARF 5 .debug_macro unit *)
  (forall (dbg be : bool) (h : mheader) (es : list mentry) (pre tail : list byte),
     wf_header h = true -> mh_has_table h = false ->
     forallb (wf_entry true (mh_fmt64 h)) es = true -> ends_list tail ->
     let section := pre ++ enc_header be h ++ enc_entries (mh_fmt64 h) be es ++ tail in
     macros_all dbg be section (N.of_nat (length pre)) = Ok (map EvEntry es) /\
     exists it, get_macros be section (N.of_nat (length pre)) = Ok it /\
       (forall j e, nth_error es j = Some e -> fst (macro_next dbg be (macro_after j dbg be it)) = Ok (Some e)) /\
       (forall j, (length es <= j)%nat -> fst (macro_next dbg be (macro_after j dbg be it)) = Ok None)) /\
  (* .debug_macinfo list *)
  (forall (dbg be : bool) (es : list mentry) (pre tail : list byte),
     forallb (wf_entry false false) es = true -> ends_list tail ->
     let section := pre ++ enc_entries false be es ++ tail in
     macinfo_all dbg be section (N.of_nat (length pre)) = Ok (map EvEntry es) /\
     exists it, get_macinfo section (N.of_nat (length pre)) = Ok it /\
       (forall j e, nth_error es j = Some e -> fst (macro_next dbg be (macro_after j dbg be it)) = Ok (Some e)) /\
       (forall j, (length es <= j)%nat -> fst (macro_next dbg be (macro_after j dbg be it)) = Ok None)).
Proof.
  split.
  - intros dbg be h es pre tail Hh Ht Hes Hend section.
    assert (Hg : get_macros be section (N.of_nat (length pre))
                 = Ok {| mi_input := enc_entries (mh_fmt64 h) be es ++ tail; mi_fmt64 := mh_fmt64 h; mi_is_macro := true |}).
    { unfold get_macros, section. rewrite mskip_app. cbn [bind].
      rewrite parse_header_enc by assumption. reflexivity. }
    split.
    + unfold macros_all. rewrite Hg. cbn [bind]. apply macro_run_enc; try assumption.
      unfold section. rewrite !app_length. pose proof (enc_entries_length (mh_fmt64 h) be es). lia.
    + eexists. split; [exact Hg|]. apply macro_calls_enc; assumption.
  - intros dbg be es pre tail Hes Hend section.
    assert (Hg : get_macinfo section (N.of_nat (length pre))
                 = Ok {| mi_input := enc_entries false be es ++ tail; mi_fmt64 := false; mi_is_macro := false |}).
    { unfold get_macinfo, section. rewrite mskip_app. reflexivity. }
    split.
    + unfold macinfo_all. rewrite Hg. cbn [bind]. apply macro_run_enc; try assumption.
      unfold section. rewrite !app_length. pose proof (enc_entries_length false be es). lia.
    + eexists. split; [exact Hg|]. apply macro_calls_enc; assumption.
Qed.

(* the same for complete units / lists (zero terminator) followed by ANY trailing bytes *)
Theorem macro_roundtrip_unit_lemma :
  (forall (dbg be : bool) (h : mheader) (es : list mentry) (pre trailing : list byte),
     wf_header h = true -> mh_has_table h = false -> forallb (wf_entry true (mh_fmt64 h)) es = true ->
     macros_all dbg be (pre ++ enc_unit be h es ++ trailing) (N.of_nat (length pre)) = Ok (map EvEntry es)) /\
  (forall (dbg be : bool) (es : list mentry) (pre trailing : list byte),
     forallb (wf_entry false false) es = true ->
     macinfo_all dbg be (pre ++ enc_macinfo be es ++ trailing) (N.of_nat (length pre)) = Ok (map EvEntry es)).
Proof.
  destruct macro_roundtrip_lemma as [Hm Hi]. split.
  - intros dbg be h es pre trailing Hh Ht Hes. unfold enc_unit. rewrite <- !app_assoc. cbn [app].
    apply (Hm dbg be h es pre (x00 :: trailing)); try assumption. right. now exists trailing.
  - intros dbg be es pre trailing Hes. unfold enc_macinfo. rewrite <- !app_assoc. cbn [app].
    apply (Hi dbg be es pre (x00 :: trailing)); try assumption. right. now exists trailing.
Qed.

(* the operands table: gimli does not parse it — any unit whose header announces one is rejected *)
Theorem macro_operands_table_unsupported_lemma :
  (forall (be : bool) (h : mheader) (pre rest : list byte),
     wf_header h = true -> mh_has_table h = true ->
     get_macros be (pre ++ enc_header be h ++ rest) (N.of_nat (length pre)) = Err EUnsupportedOpcodeOperandsTable) /\
  (forall (be : bool) (bs : list byte) (h : mheader) (r : list byte),
     parse_header be bs = Ok (h, r) -> mh_has_table h = false).
Proof.
  split.
  - intros be h pre rest Hh Ht. unfold get_macros. rewrite mskip_app. cbn [bind].
    rewrite parse_header_table by assumption. reflexivity.
  - intros be bs h r H. now apply parse_header_ok in H.
Qed.
