(* Proofs/LineRdBase.v — facts about the primitive readers used by the line-program model:
   no panic, the rest is a suffix no longer than the input, locality. *)
From Coq Require Import List NArith ZArith Bool Lia ZifyBool ZifyN ZifyNat.
From Coq.Strings Require Import Byte.
Require Import GV.Base.Res GV.Base.Byt GV.Base.Ints GV.Model.Leb GV.Model.Prim.
Import ListNotations.
Local Open Scope N_scope.
Local Ltac Zify.zify_post_hook ::= Z.div_mod_to_equations.
Local Arguments N.add : simpl never.
Local Arguments N.sub : simpl never.
Local Arguments N.mul : simpl never.
Local Arguments N.shiftl : simpl never.
Local Arguments N.shiftr : simpl never.
Local Arguments N.land : simpl never.
Local Arguments N.lor : simpl never.
Local Arguments N.pow : simpl never.
Local Arguments N.modulo : simpl never.
Local Arguments N.div : simpl never.

(* ---------------------------------------------------------------- finite sweeps over byte values *)
Definition below256 : list N := map N.of_nat (seq 0 256).
Lemma below256_in n : n < 256 -> In n below256.
Proof.
  intros H. unfold below256. apply in_map_iff. exists (N.to_nat n). split; [lia|].
  apply in_seq. lia.
Qed.
Lemma sweep256 (P : N -> bool) : forallb P below256 = true -> forall n, n < 256 -> P n = true.
Proof. intros H n Hn. rewrite forallb_forall in H. apply H. now apply below256_in. Qed.

(* ---------------------------------------------------------------- suffixes *)
(* `sfx r bs`: r is what is left of bs after reading a prefix *)
Definition sfx (r bs : list byte) : Prop := exists p, bs = p ++ r.
Lemma sfx_refl bs : sfx bs bs. Proof. now exists []. Qed.
Lemma sfx_cons b r bs : sfx r bs -> sfx r (b :: bs).
Proof. intros [p ->]. now exists (b :: p). Qed.
Lemma sfx_trans a b c : sfx a b -> sfx b c -> sfx a c.
Proof. intros [p ->] [q ->]. exists (q ++ p). now rewrite app_assoc. Qed.
Lemma sfx_len r bs : sfx r bs -> (length r <= length bs)%nat.
Proof. intros [p ->]. rewrite app_length. lia. Qed.
Lemma sfx_tl b r bs : sfx r bs -> sfx r (b :: bs) /\ (length r < length (b :: bs))%nat.
Proof. intros H. split; [now apply sfx_cons|]. apply sfx_len in H. simpl. lia. Qed.

(* ---------------------------------------------------------------- read_u8 / take / read_un *)
Lemma read_u8_ok bs v r : read_u8 bs = Ok (v, r) -> exists b, bs = b :: r /\ v = b2n b.
Proof. destruct bs; simpl; intros H; inversion H; eauto. Qed.
Lemma read_u8_np bs : read_u8 bs <> Panic.
Proof. destruct bs; simpl; discriminate. Qed.

Lemma take_app n : forall bs h t, take n bs = Some (h, t) -> bs = h ++ t /\ length h = n.
Proof.
  induction n as [|n IH]; intros bs h t H; simpl in H.
  - inversion H; subst. now split.
  - destruct bs as [|b r]; [discriminate|].
    destruct (take n r) as [[h' t']|] eqn:E; [|discriminate].
    inversion H; subst. destruct (IH _ _ _ E) as [-> <-]. now split.
Qed.

Lemma read_bytes_ok n bs h t : read_bytes n bs = Ok (h, t) -> bs = h ++ t /\ length h = n.
Proof. unfold read_bytes. destruct (take n bs) as [[a b]|] eqn:E; intros H; inversion H; subst. eapply take_app; eauto. Qed.

Lemma read_un_sfx n be bs v r : read_un n be bs = Ok (v, r) -> sfx r bs.
Proof.
  unfold read_un. destruct (read_bytes n bs) as [[h t]| | |] eqn:E; simpl; intros H; inversion H; subst.
  apply read_bytes_ok in E as [-> _]. now exists h.
Qed.
Lemma read_un_np n be bs : read_un n be bs <> Panic.
Proof. unfold read_un, read_bytes. destruct (take n bs) as [[a b]|]; simpl; discriminate. Qed.

Lemma le_val_bound h : le_val h < 256 ^ N.of_nat (length h).
Proof.
  induction h as [|b h IH]; [simpl; lia|].
  cbn [le_val length]. rewrite Nat2N.inj_succ, N.pow_succ_r'. pose proof (b2n_lt b). lia.
Qed.

Lemma read_un_bound n be bs v r : read_un n be bs = Ok (v, r) -> v < 256 ^ N.of_nat n.
Proof.
  unfold read_un. destruct (read_bytes n bs) as [[h t]| | |] eqn:E; simpl; intros H; inversion H; subst.
  apply read_bytes_ok in E as [_ <-]. destruct be.
  - unfold be_val. rewrite <- rev_length. apply le_val_bound.
  - apply le_val_bound.
Qed.

(* ---------------------------------------------------------------- LEB128 readers *)
Lemma shl64_np_lt dbg x s : s < 64 -> exists v, shl64 dbg x s = Ok v.
Proof. intros H. unfold shl64. destruct (64 <=? s) eqn:E; [lia|]. eauto. Qed.

Lemma has_cont_01 n : (n =? 0) || (n =? 1) = true -> has_cont n = false.
Proof. intros H. apply orb_true_iff in H as [H|H]; apply N.eqb_eq in H; subst; reflexivity. Qed.
Lemma has_cont_0_127 n : (n =? 0) || (n =? 127) = true -> has_cont n = false.
Proof. intros H. apply orb_true_iff in H as [H|H]; apply N.eqb_eq in H; subst; reflexivity. Qed.

(* shift stays on the grid 7,14,..,63 *)
Definition on_grid (shift : N) : Prop := exists k, shift = 7 * k /\ k <= 9.

Lemma uleb_loop_props dbg : forall bs result shift,
  on_grid shift ->
  uleb_loop dbg result shift bs <> Panic /\ uleb_loop dbg result shift bs <> OutOfFuel /\
  forall v r, uleb_loop dbg result shift bs = Ok (v, r) -> sfx r bs /\ (length r < length bs)%nat.
Proof.
  induction bs as [|b bs IH]; intros result shift [k [-> Hk]].
  - simpl. split; [discriminate|split; [discriminate|intros v r H0; discriminate]].
  - cbn [uleb_loop].
    destruct ((7 * k =? 63) && negb (b2n b =? 0) && negb (b2n b =? 1)) eqn:E1.
    { split; [discriminate|split; [discriminate|intros v r H0; discriminate]]. }
    destruct (shl64_np_lt dbg (low7 (b2n b)) (7 * k) ltac:(lia)) as [sh ->]. cbn [bind].
    destruct (has_cont (b2n b)) eqn:E2.
    + assert (k <> 9).
      { intros ->. rewrite has_cont_01 in E2; [discriminate|].
        destruct (b2n b =? 0), (b2n b =? 1); simpl in *; try reflexivity; discriminate. }
      assert (G : on_grid (7 * k + 7)) by (exists (k + 1); lia).
      destruct (IH (N.lor result sh) (7 * k + 7) G) as (P1 & P2 & P3).
      split; [exact P1|split; [exact P2|]].
      intros v r H0. apply P3 in H0 as [? ?]. split; [now apply sfx_cons|simpl; lia].
    + split; [discriminate|split; [discriminate|]].
      intros v r H0; inversion H0; subst. split; [exists [b]; reflexivity|simpl; lia].
Qed.

Lemma grid7 : on_grid 7. Proof. exists 1. lia. Qed.
Lemma grid0 : on_grid 0. Proof. exists 0. lia. Qed.

Lemma read_uleb128_np dbg bs : read_uleb128 dbg bs <> Panic.
Proof.
  destruct bs as [|b bs]; simpl; [discriminate|].
  destruct (has_cont (b2n b)); [|discriminate]. apply uleb_loop_props, grid7.
Qed.
Lemma read_uleb128_nf dbg bs : read_uleb128 dbg bs <> OutOfFuel.
Proof.
  destruct bs as [|b bs]; simpl; [discriminate|].
  destruct (has_cont (b2n b)); [|discriminate]. apply uleb_loop_props, grid7.
Qed.
Lemma read_uleb128_sfx dbg bs v r : read_uleb128 dbg bs = Ok (v, r) -> sfx r bs /\ (length r < length bs)%nat.
Proof.
  destruct bs as [|b bs]; simpl; [discriminate|].
  destruct (has_cont (b2n b)).
  - intros H. apply (uleb_loop_props dbg bs _ 7 grid7) in H as [? ?]. split; [now apply sfx_cons|simpl; lia].
  - intros H; inversion H; subst. split; [exists [b]; reflexivity|simpl; lia].
Qed.

Lemma sleb_loop_props dbg : forall bs result shift,
  on_grid shift ->
  sleb_loop dbg result shift bs <> Panic /\ sleb_loop dbg result shift bs <> OutOfFuel /\
  forall v r, sleb_loop dbg result shift bs = Ok (v, r) -> sfx r bs /\ (length r < length bs)%nat.
Proof.
  induction bs as [|b bs IH]; intros result shift [k [-> Hk]].
  - simpl. split; [discriminate|split; [discriminate|intros v r H0; discriminate]].
  - cbn [sleb_loop].
    destruct ((7 * k =? 63) && negb (b2n b =? 0) && negb (b2n b =? 127)) eqn:E1.
    { split; [discriminate|split; [discriminate|intros v r H0; discriminate]]. }
    destruct (shl64_np_lt dbg (low7 (b2n b)) (7 * k) ltac:(lia)) as [sh ->]. cbn [bind].
    destruct (has_cont (b2n b)) eqn:E2.
    + assert (k <> 9).
      { intros ->. rewrite has_cont_0_127 in E2; [discriminate|].
        destruct (b2n b =? 0), (b2n b =? 127); simpl in *; try reflexivity; discriminate. }
      assert (G : on_grid (7 * k + 7)) by (exists (k + 1); lia).
      destruct (IH (N.lor result sh) (7 * k + 7) G) as (P1 & P2 & P3).
      split; [exact P1|split; [exact P2|]].
      intros v r H0. apply P3 in H0 as [? ?]. split; [now apply sfx_cons|simpl; lia].
    + destruct ((7 * k + 7 <? 64) && (N.land (b2n b) 64 =? 64)) eqn:E3.
      * destruct (shl64_np_lt dbg (two64 - 1) (7 * k + 7) ltac:(lia)) as [on ->]. cbn [bind].
        split; [discriminate|split; [discriminate|]].
        intros v r H0; inversion H0; subst. split; [exists [b]; reflexivity|simpl; lia].
      * split; [discriminate|split; [discriminate|]].
        intros v r H0; inversion H0; subst. split; [exists [b]; reflexivity|simpl; lia].
Qed.

Lemma read_sleb128_np dbg bs : read_sleb128 dbg bs <> Panic.
Proof. apply sleb_loop_props, grid0. Qed.
Lemma read_sleb128_nf dbg bs : read_sleb128 dbg bs <> OutOfFuel.
Proof. apply sleb_loop_props, grid0. Qed.
Lemma read_sleb128_sfx dbg bs v r : read_sleb128 dbg bs = Ok (v, r) -> sfx r bs /\ (length r < length bs)%nat.
Proof. apply sleb_loop_props, grid0. Qed.

Lemma read_cstr_sfx : forall bs s r, read_cstr bs = Ok (s, r) -> sfx r bs /\ (length r < length bs)%nat.
Proof.
  induction bs as [|b bs IH]; intros s r H; simpl in H; [discriminate|].
  destruct (b2n b =? 0).
  - inversion H; subst. split; [exists [b]; reflexivity|simpl; lia].
  - destruct (read_cstr bs) as [[s' t]| | |] eqn:E; simpl in H; inversion H; subst.
    destruct (IH _ _ eq_refl) as [? ?]. split; [now apply sfx_cons|simpl; lia].
Qed.
Lemma read_cstr_np : forall bs, read_cstr bs <> Panic /\ read_cstr bs <> OutOfFuel.
Proof.
  induction bs as [|b bs [IH1 IH2]]; simpl; [split; discriminate|].
  destruct (b2n b =? 0); [split; discriminate|].
  destruct (read_cstr bs) as [[s' t]| | |]; simpl; split; congruence.
Qed.

(* ---------------------------------------------------------------- a predicate transformer for res *)
(* `good P x`: x is not a panic, not out of fuel, and an Ok value satisfies P *)
Definition good {A} (P : A -> Prop) (x : res A) : Prop :=
  match x with Ok a => P a | Err _ => True | Panic => False | OutOfFuel => False end.

Lemma good_bind {A B} (Q : A -> Prop) (P : B -> Prop) (x : res A) (f : A -> res B) :
  good Q x -> (forall a, Q a -> good P (f a)) -> good P (bind x f).
Proof. destruct x; simpl; auto; contradiction. Qed.

Lemma good_weaken {A} (P Q : A -> Prop) (x : res A) : good P x -> (forall a, P a -> Q a) -> good Q x.
Proof. destruct x; simpl; auto. Qed.

Lemma good_np {A} (P : A -> Prop) (x : res A) : good P x -> x <> Panic /\ x <> OutOfFuel.
Proof. destruct x; simpl; intros H; try contradiction; split; discriminate. Qed.

Lemma good_ok {A} (P : A -> Prop) (x : res A) a : good P x -> x = Ok a -> P a.
Proof. intros H ->. exact H. Qed.

Lemma good_intro {A} (P : A -> Prop) (x : res A) :
  x <> Panic -> x <> OutOfFuel -> (forall a, x = Ok a -> P a) -> good P x.
Proof. destruct x; simpl; intros H1 H2 H3; auto; congruence. Qed.

Lemma read_u8_good bs : good (fun p => sfx (snd p) bs /\ fst p < 256) (read_u8 bs).
Proof. destruct bs as [|b r]; simpl; [exact I|]. split; [exists [b]; reflexivity|apply b2n_lt]. Qed.

Lemma read_uleb128_good dbg bs : good (fun p => sfx (snd p) bs) (read_uleb128 dbg bs).
Proof.
  apply good_intro; [apply read_uleb128_np|apply read_uleb128_nf|].
  intros [v r] H. now apply read_uleb128_sfx in H as [? _].
Qed.
Lemma read_sleb128_good dbg bs : good (fun p => sfx (snd p) bs) (read_sleb128 dbg bs).
Proof.
  apply good_intro; [apply read_sleb128_np|apply read_sleb128_nf|].
  intros [v r] H. now apply read_sleb128_sfx in H as [? _].
Qed.
Lemma read_cstr_good bs : good (fun p => sfx (snd p) bs) (read_cstr bs).
Proof.
  apply good_intro; [apply read_cstr_np|apply read_cstr_np|].
  intros [v r] H. now apply read_cstr_sfx in H as [? _].
Qed.
Lemma read_un_good n be bs : good (fun p => sfx (snd p) bs /\ fst p < 256 ^ N.of_nat n) (read_un n be bs).
Proof.
  apply good_intro; [apply read_un_np| |].
  - unfold read_un, read_bytes. destruct (take n bs) as [[a b]|]; simpl; discriminate.
  - intros [v r] H. split; [eapply read_un_sfx; eauto|eapply read_un_bound; eauto].
Qed.

Lemma read_address_good size be bs :
  good (fun p => sfx (snd p) bs /\ fst p <= mask_of size /\ 1 <= size <= 8) (read_address size be bs).
Proof.
  unfold read_address.
  destruct (size =? 1) eqn:E1; [apply N.eqb_eq in E1; subst|].
  { eapply good_weaken; [apply read_un_good|]. intros [v r] [? ?]; cbn in *. repeat split; auto; try lia.
    change (mask_of 1) with 255. lia. }
  destruct (size =? 2) eqn:E2; [apply N.eqb_eq in E2; subst|].
  { eapply good_weaken; [apply read_un_good|]. intros [v r] [? ?]; cbn in *. repeat split; auto; try lia.
    change (mask_of 2) with 65535. change (256 ^ N.of_nat 2) with 65536 in *. lia. }
  destruct (size =? 4) eqn:E4; [apply N.eqb_eq in E4; subst|].
  { eapply good_weaken; [apply read_un_good|]. intros [v r] [? ?]; cbn in *. repeat split; auto; try lia.
    change (mask_of 4) with 4294967295. change (256 ^ N.of_nat 4) with 4294967296 in *. lia. }
  destruct (size =? 8) eqn:E8; [apply N.eqb_eq in E8; subst|exact I].
  { eapply good_weaken; [apply read_un_good|]. intros [v r] [? ?]; cbn in *. repeat split; auto; try lia.
    change (mask_of 8) with 18446744073709551615. change (256 ^ N.of_nat 8) with 18446744073709551616 in *. lia. }
Qed.
