(* Proofs/LineRdHdrSafe.v — LineProgramHeader::parse on ANY byte string: no panic (the two
   `path_name.unwrap()`s, the u16 LEB accumulation, read_uint(3)) and the fuel of the model loops
   (directory/file tables of versions 2-4, `for _ in 0..count` over a u64 count in version 5)
   suffices, in both build modes. *)
From Coq Require Import List NArith ZArith Bool Lia ZifyBool ZifyN ZifyNat.
From Coq.Strings Require Import Byte.
Require Import GV.Base.Res GV.Base.Byt GV.Base.Ints GV.Model.Leb GV.Model.Prim GV.Spec.LineSpec GV.Model.LineRd
               GV.Proofs.LineRdBase GV.Proofs.LineRdMono GV.Proofs.LineRdCodec.
Import ListNotations.
Local Open Scope N_scope.
Local Arguments N.add : simpl never.
Local Arguments N.sub : simpl never.
Local Arguments N.mul : simpl never.
Local Arguments N.shiftl : simpl never.
Local Arguments N.land : simpl never.
Local Arguments N.lor : simpl never.
Local Arguments N.pow : simpl never.
Local Arguments N.ltb : simpl never.
Local Arguments N.leb : simpl never.
Local Arguments N.eqb : simpl never.

(* strict consumption *)
Definition sg (inp : list byte) {A} (p : A * list byte) : Prop :=
  sfx (snd p) inp /\ (length (snd p) < length inp)%nat.

Lemma sg_trans {A B} inp (p : A * list byte) (q : B * list byte) : sg inp p -> sfx (snd q) (snd p) -> sg inp q.
Proof. intros [H1 H2] H3. split; [eapply sfx_trans; eauto|apply sfx_len in H3; lia]. Qed.

Lemma read_u8_sg bs : good (sg bs) (read_u8 bs).
Proof. destruct bs as [|b r]; simpl; [exact I|]. split; [exists [b]; reflexivity|simpl; lia]. Qed.
Lemma read_uleb128_sg dbg bs : good (sg bs) (read_uleb128 dbg bs).
Proof.
  apply good_intro; [apply read_uleb128_np|apply read_uleb128_nf|].
  intros [v r] H. apply read_uleb128_sfx in H. exact H.
Qed.
Lemma read_sleb128_sg dbg bs : good (sg bs) (read_sleb128 dbg bs).
Proof.
  apply good_intro; [apply read_sleb128_np|apply read_sleb128_nf|].
  intros [v r] H. apply read_sleb128_sfx in H. exact H.
Qed.
Lemma read_cstr_sg bs : good (sg bs) (read_cstr bs).
Proof.
  apply good_intro; [apply read_cstr_np|apply read_cstr_np|].
  intros [v r] H. apply read_cstr_sfx in H. exact H.
Qed.
Lemma read_un_sg n be bs : (0 < n)%nat -> good (sg bs) (read_un n be bs).
Proof.
  intros Hn. apply good_intro; [apply read_un_np| |].
  - unfold read_un, read_bytes. destruct (take n bs) as [[a b]|]; simpl; discriminate.
  - intros [v r] H. unfold read_un in H.
    destruct (read_bytes n bs) as [[h t]| | |] eqn:E; cbn [bind] in H; inversion H; subst.
    apply read_bytes_ok in E as [-> L]. split; cbn [snd]; [now exists h|rewrite app_length; lia].
Qed.
Lemma read_word_sg fmt64 be bs : good (sg bs) (read_word fmt64 be bs).
Proof. unfold read_word. destruct fmt64; apply read_un_sg; lia. Qed.

Lemma split_n_sg n bs : 0 < n -> good (sg bs) (split_n n bs).
Proof.
  intros Hn. eapply good_weaken; [apply split_n_good|]. intros [a r] [H L]; cbn [fst snd] in *.
  split; cbn [snd]; [now exists a|]. subst bs. rewrite app_length. lia.
Qed.

(* ---------------------------------------------------------------- leb128::read::u16 never overflows *)
Lemma low7_lt x : low7 x < 128.
Proof. unfold low7. change 127 with (N.ones 7). rewrite N.land_ones. apply N.mod_lt. discriminate. Qed.

Lemma read_uleb128_u16_good bs : good (fun p => sfx (snd p) bs) (read_uleb128_u16 bs).
Proof.
  unfold read_uleb128_u16.
  eapply good_bind; [apply read_u8_good|]. intros [b0 r0] [S0 _]; cbn [fst snd] in *.
  destruct (negb (has_cont b0)); [exact S0|].
  eapply good_bind; [apply read_u8_good|]. intros [b1 r1] [S1 _]; cbn [fst snd] in *.
  destruct (negb (has_cont b1)); [cbn; eapply sfx_trans; eauto|].
  eapply good_bind; [apply read_u8_good|]. intros [b2 r2] [S2 _]; cbn [fst snd] in *.
  destruct (3 <? b2) eqn:E3; [exact I|].
  pose proof (low7_lt b0) as L0. pose proof (low7_lt b1) as L1.
  assert (W1 : wrap16 (N.shiftl (low7 b1) 7) = N.shiftl (low7 b1) 7).
  { unfold wrap16, two16. apply N.mod_small. rewrite N.shiftl_mul_pow2. change (2 ^ 7) with 128. lia. }
  rewrite W1. rewrite lor_shift_add by (change (2 ^ 7) with 128; exact L0).
  rewrite N.shiftl_mul_pow2. change (2 ^ 7) with 128.
  assert (W2 : wrap16 (N.shiftl b2 14) = b2 * 16384).
  { unfold wrap16, two16. rewrite N.shiftl_mul_pow2. change (2 ^ 14) with 16384. apply N.mod_small. lia. }
  rewrite W2.
  destruct (low7 b0 + low7 b1 * 128 + b2 * 16384 <? two16) eqn:E; [|unfold two16 in E; lia].
  cbn. eapply sfx_trans; [exact S2|]. eapply sfx_trans; eauto.
Qed.

(* ---------------------------------------------------------------- parse_attribute consumes input *)
Ltac blk L := eapply good_bind; [apply L|]; intros [? ?] ?; cbn [fst snd] in *;
              eapply good_bind; [apply split_n_sfx|]; intros [? ?] ?; cbn [fst snd] in *;
              cbn [good]; eapply sg_trans; [eassumption|cbn [snd]; assumption].
Ltac one L := eapply good_weaken; [apply L|]; intros [? ?] ?; cbn [fst snd] in *; assumption.

Lemma parse_attribute_good dbg be fmt64 form inp : good (sg inp) (parse_attribute dbg be fmt64 form inp).
Proof.
  unfold parse_attribute.
  destruct (form =? FORM_block1); [blk read_u8_sg|].
  destruct (form =? FORM_block2); [blk (read_un_sg 2 be inp ltac:(lia))|].
  destruct (form =? FORM_block4); [blk (read_un_sg 4 be inp ltac:(lia))|].
  destruct (form =? FORM_block); [blk (read_uleb128_sg dbg inp)|].
  destruct (form =? FORM_data1); [eapply good_bind; [apply read_u8_sg|]; intros [? ?] ?; exact H|].
  destruct (form =? FORM_data2); [eapply good_bind; [apply (read_un_sg 2 be inp ltac:(lia))|]; intros [? ?] ?; exact H|].
  destruct (form =? FORM_data4); [eapply good_bind; [apply (read_un_sg 4 be inp ltac:(lia))|]; intros [? ?] ?; exact H|].
  destruct (form =? FORM_data8); [eapply good_bind; [apply (read_un_sg 8 be inp ltac:(lia))|]; intros [? ?] ?; exact H|].
  destruct (form =? FORM_data16); [eapply good_bind; [apply (split_n_sg 16 inp ltac:(lia))|]; intros [? ?] ?; exact H|].
  destruct (form =? FORM_udata); [eapply good_bind; [apply read_uleb128_sg|]; intros [? ?] ?; exact H|].
  destruct (form =? FORM_sdata); [eapply good_bind; [apply read_sleb128_sg|]; intros [? ?] ?; exact H|].
  destruct (form =? FORM_flag); [eapply good_bind; [apply read_u8_sg|]; intros [? ?] ?; exact H|].
  destruct (form =? FORM_sec_offset); [eapply good_bind; [apply read_word_sg|]; intros [? ?] ?; exact H|].
  destruct (form =? FORM_string); [eapply good_bind; [apply read_cstr_sg|]; intros [? ?] ?; exact H|].
  destruct (form =? FORM_strp); [eapply good_bind; [apply read_word_sg|]; intros [? ?] ?; exact H|].
  destruct ((form =? FORM_strp_sup) || (form =? FORM_GNU_strp_alt));
    [eapply good_bind; [apply read_word_sg|]; intros [? ?] ?; exact H|].
  destruct (form =? FORM_line_strp); [eapply good_bind; [apply read_word_sg|]; intros [? ?] ?; exact H|].
  destruct ((form =? FORM_strx) || (form =? FORM_GNU_str_index));
    [eapply good_bind; [apply read_uleb128_sg|]; intros [? ?] ?; exact H|].
  destruct (form =? FORM_strx1); [eapply good_bind; [apply read_u8_sg|]; intros [? ?] ?; exact H|].
  destruct (form =? FORM_strx2); [eapply good_bind; [apply (read_un_sg 2 be inp ltac:(lia))|]; intros [? ?] ?; exact H|].
  destruct (form =? FORM_strx3).
  { unfold read_uint. change (Nat.ltb 8 3) with false. cbv iota.
    eapply good_bind; [apply (read_un_sg 3 be inp ltac:(lia))|]; intros [? ?] ?; exact H. }
  destruct (form =? FORM_strx4); [eapply good_bind; [apply (read_un_sg 4 be inp ltac:(lia))|]; intros [? ?] ?; exact H|].
  exact I.
Qed.

(* ---------------------------------------------------------------- entry formats *)
Definition has_path (fmts : list entry_format) : Prop := exists f, In f fmts /\ ef_ct f = LNCT_path.

Fixpoint count_path (fmts : list entry_format) : N :=
  match fmts with
  | [] => 0
  | f :: tl => (if ef_ct f =? LNCT_path then 1 else 0) + count_path tl
  end.

Lemma count_path_has fmts : 0 < count_path fmts -> has_path fmts.
Proof.
  induction fmts as [|f tl IH]; cbn [count_path]; [lia|].
  destruct (ef_ct f =? LNCT_path) eqn:E.
  - intros _. exists f. split; [left; reflexivity|lia].
  - intros H. destruct IH as [g [G1 G2]]; [lia|]. exists g. split; [right; exact G1|exact G2].
Qed.

Lemma parse_formats_loop_good dbg : forall count pc inp,
  good (fun p => let '(fs, pc', r) := p in sfx r inp /\ pc' = pc + count_path fs)
       (parse_formats_loop dbg count pc inp).
Proof.
  induction count as [|k IH]; intros pc inp; cbn [parse_formats_loop].
  - cbn. split; [apply sfx_refl|lia].
  - eapply good_bind; [apply read_uleb128_good|]. intros [ct r] S1; cbn [fst snd] in *.
    eapply good_bind; [apply read_uleb128_u16_good|]. intros [form r'] S2; cbn [fst snd] in *.
    eapply good_bind; [apply IH|]. intros [[fs pc'] r''] [S3 Hpc]. cbn [good count_path ef_ct].
    split; [eapply sfx_trans; [exact S3|eapply sfx_trans; eauto]|].
    rewrite Hpc. destruct ((if 65535 <? ct then 65535 else ct) =? LNCT_path); lia.
Qed.

Lemma parse_formats_good dbg inp :
  good (fun p => sfx (snd p) inp /\ has_path (fst p)) (parse_formats dbg inp).
Proof.
  unfold parse_formats.
  eapply good_bind; [apply read_u8_good|]. intros [count r] [S1 _]; cbn [fst snd] in *.
  eapply good_bind; [apply parse_formats_loop_good|]. intros [[fs pc] r'] [S2 Hpc].
  destruct (pc =? 1) eqn:E; [|exact I]. cbn. split; [eapply sfx_trans; eauto|].
  apply count_path_has. lia.
Qed.

(* ---------------------------------------------------------------- v5 entries *)
Lemma parse_directory_loop_good dbg be fmt64 : forall fmts path inp,
  good (fun p => sfx (snd p) inp /\ (fmts <> [] -> (length (snd p) < length inp)%nat) /\
                 (path <> None \/ has_path fmts -> fst p <> None))
       (parse_directory_loop dbg be fmt64 fmts path inp).
Proof.
  induction fmts as [|f ft IH]; intros path inp; cbn [parse_directory_loop].
  - cbn. split; [apply sfx_refl|]. split; [congruence|].
    intros [H|[g [[] _]]]. exact H.
  - eapply good_bind; [apply parse_attribute_good|]. intros [v r] [S1 L1]; cbn [fst snd] in *.
    eapply good_weaken; [apply IH|]. intros [p r'] (S2 & L2 & P2); cbn [fst snd] in *.
    split; [eapply sfx_trans; eauto|]. split; [intros _; apply sfx_len in S2; lia|].
    intros HP. apply P2.
    destruct (ef_ct f =? LNCT_path) eqn:E; [left; discriminate|].
    destruct HP as [HP|[g [[<-|G1] G2]]]; [left; exact HP|lia|right; exists g; auto].
Qed.

Lemma parse_directory_v5_good dbg be fmt64 fmts inp : has_path fmts ->
  good (sg inp) (parse_directory_v5 dbg be fmt64 fmts inp).
Proof.
  intros HP. unfold parse_directory_v5.
  eapply good_bind; [apply parse_directory_loop_good|]. intros [p r] (S1 & L1 & P1); cbn [fst snd] in *.
  destruct p as [p|]; [|exfalso; apply P1; [right; exact HP|reflexivity]].
  cbn. split; [exact S1|]. apply L1. destruct HP as [g [G _]]. intros ->. exact G.
Qed.

Lemma parse_file_loop_good dbg be fmt64 : forall fmts f path inp,
  good (fun p => let '(f', p', r) := p in
                 sfx r inp /\ (fmts <> [] -> (length r < length inp)%nat) /\
                 (path <> None \/ has_path fmts -> p' <> None))
       (parse_file_loop dbg be fmt64 fmts f path inp).
Proof.
  induction fmts as [|fm ft IH]; intros f path inp; cbn [parse_file_loop].
  - cbn. split; [apply sfx_refl|]. split; [congruence|].
    intros [H|[g [[] _]]]. exact H.
  - eapply good_bind; [apply parse_attribute_good|]. intros [v r] [S1 L1]; cbn [fst snd] in *.
    destruct (file_field (ef_ct fm) v f path) as [f' p'] eqn:FF.
    eapply good_weaken; [apply IH|]. intros [[f'' p''] r'] (S2 & L2 & P2).
    split; [eapply sfx_trans; eauto|]. split; [intros _; apply sfx_len in S2; lia|].
    intros HP. apply P2. unfold file_field in FF.
    destruct (ef_ct fm =? LNCT_path) eqn:E; [inversion FF; subst; left; discriminate|].
    assert (Pp : p' = path).
    { repeat match type of FF with
        | (if ?c then _ else _) = _ => destruct c
        end; inversion FF; reflexivity. }
    subst p'.
    destruct HP as [HP|[g [[<-|G1] G2]]]; [left; exact HP|lia|right; exists g; auto].
Qed.

Lemma parse_file_v5_good dbg be fmt64 fmts inp : has_path fmts ->
  good (sg inp) (parse_file_v5 dbg be fmt64 fmts inp).
Proof.
  intros HP. unfold parse_file_v5.
  eapply good_bind; [apply parse_file_loop_good|]. intros [[f p] r] (S1 & L1 & P1).
  destruct p as [p|]; [|exfalso; apply P1; [right; exact HP|reflexivity]].
  cbn. split; [exact S1|]. apply L1. destruct HP as [g [G _]]. intros ->. exact G.
Qed.

(* `for _ in 0..count`: fuel beyond the input length suffices when every iteration consumes *)
Lemma count_loop_good {A} (one : list byte -> res (A * list byte)) :
  (forall inp, good (sg inp) (one inp)) ->
  forall fuel count inp, (length inp < fuel)%nat ->
  good (fun p => sfx (snd p) inp) (count_loop fuel count one inp).
Proof.
  intros G. induction fuel as [|f IH]; intros count inp Hf; [lia|].
  cbn [count_loop]. destruct (count =? 0); [cbn; apply sfx_refl|].
  eapply good_bind; [apply G|]. intros [a r] [S1 L1]; cbn [fst snd] in *.
  eapply good_bind; [apply IH; lia|]. intros [tl r'] S2; cbn [fst snd] in *.
  cbn. eapply sfx_trans; eauto.
Qed.

(* ---------------------------------------------------------------- version 2-4 tables *)
Lemma file_entry_parse_sfx dbg inp path : good (fun p => sfx (snd p) inp) (file_entry_parse dbg inp path).
Proof. apply file_entry_parse_good. Qed.

Lemma dirs_v4_loop_good : forall fuel inp, (length inp < fuel)%nat ->
  good (fun p => sfx (snd p) inp) (dirs_v4_loop fuel inp).
Proof.
  induction fuel as [|f IH]; intros inp Hf; [lia|]. cbn [dirs_v4_loop].
  eapply good_bind; [apply read_cstr_sg|]. intros [d r] [S1 L1]; cbn [fst snd] in *.
  destruct d; [cbn; exact S1|].
  eapply good_bind; [apply IH; lia|]. intros [tl r'] S2; cbn [fst snd] in *. cbn. eapply sfx_trans; eauto.
Qed.

Lemma files_v4_loop_good dbg : forall fuel inp, (length inp < fuel)%nat ->
  good (fun p => sfx (snd p) inp) (files_v4_loop fuel dbg inp).
Proof.
  induction fuel as [|f IH]; intros inp Hf; [lia|]. cbn [files_v4_loop].
  eapply good_bind; [apply read_cstr_sg|]. intros [d r] [S1 L1]; cbn [fst snd] in *.
  destruct d; [cbn; exact S1|].
  eapply good_bind; [apply file_entry_parse_sfx|]. intros [fe r1] S2; cbn [fst snd] in *.
  apply sfx_len in S2 as S2'.
  eapply good_bind; [apply IH; lia|]. intros [tl r'] S3; cbn [fst snd] in *. cbn.
  eapply sfx_trans; [exact S3|]. eapply sfx_trans; eauto.
Qed.

(* ---------------------------------------------------------------- the whole header *)
Lemma read_initial_length_np be bs : good (fun _ => True) (read_initial_length be bs).
Proof.
  unfold read_initial_length.
  eapply good_bind; [apply (read_un_good 4)|]. intros [v r] _.
  destruct (v <? 4294967280); [exact I|]. destruct (v =? 4294967295); [|exact I].
  eapply good_bind; [apply (read_un_good 8)|]. intros [v8 r8] _. exact I.
Qed.

Lemma any_good {A} (P : A -> Prop) (x : res A) : good P x -> good (fun _ => True) x.
Proof. intros H. eapply good_weaken; [exact H|auto]. Qed.

Lemma parse_header_good dbg be asz0 bs : good (fun _ => True) (parse_header dbg be asz0 bs).
Proof.
  unfold parse_header.
  eapply good_bind; [apply read_initial_length_np|]. intros [[ul f64] r0] _.
  eapply good_bind; [apply (any_good _ _ (split_n_good ul r0))|]. intros [rest0 r1] _.
  eapply good_bind; [apply (any_good _ _ (read_un_good 2 be rest0))|]. intros [version rest1] _.
  destruct ((version <? 2) || (5 <? version)); [exact I|].
  eapply good_bind with (Q := fun _ => True).
  { destruct (5 <=? version); [|exact I].
    eapply good_bind with (Q := fun _ => True).
    { unfold read_address_size.
      eapply good_bind; [apply (any_good _ _ (read_u8_good rest1))|]. intros [s' r'] _.
      destruct ((s' =? 1) || (s' =? 2) || (s' =? 4) || (s' =? 8)); exact I. }
    intros [a' r''] _.
    eapply good_bind; [apply (any_good _ _ (read_u8_good r''))|]. intros [seg r3] _.
    destruct (negb (seg =? 0)); exact I. }
  intros [asz rest2] _.
  eapply good_bind; [apply (any_good _ _ (read_word_sg f64 be rest2))|]. intros [hl rest3] _.
  eapply good_bind; [apply (any_good _ _ (skip_n_good hl rest3))|]. intros prog _.
  eapply good_bind with (Q := fun _ => True).
  { unfold truncate_n. destruct (N.of_nat (length rest3) <? hl); exact I. }
  intros rest4 _.
  eapply good_bind; [apply (any_good _ _ (read_u8_good rest4))|]. intros [mil rest5] _.
  destruct (mil =? 0); [exact I|].
  eapply good_bind with (Q := fun _ => True).
  { destruct (4 <=? version); [apply (any_good _ _ (read_u8_good rest5))|exact I]. }
  intros [mops rest6] _.
  destruct (mops =? 0); [exact I|].
  eapply good_bind; [apply (any_good _ _ (read_u8_good rest6))|]. intros [dis rest7] _.
  eapply good_bind with (Q := fun _ => True).
  { unfold read_in. eapply good_bind; [apply (read_un_good 1)|]. intros [v r] _. exact I. }
  intros [lb rest8] _.
  eapply good_bind; [apply (any_good _ _ (read_u8_good rest8))|]. intros [lr rest9] _.
  destruct (lr =? 0); [exact I|].
  eapply good_bind; [apply (any_good _ _ (read_u8_good rest9))|]. intros [ob rest10] _.
  destruct (ob =? 0); [exact I|].
  eapply good_bind; [apply (any_good _ _ (split_n_good (ob - 1) rest10))|]. intros [std rest11] _.
  eapply good_bind with (Q := fun _ => True).
  { destruct (version <=? 4).
    - eapply good_bind; [apply dirs_v4_loop_good; lia|]. intros [ds r] _. exact I.
    - eapply good_bind; [apply parse_formats_good|]. intros [fm r] [_ HP]; cbn [fst snd] in *.
      eapply good_bind; [apply read_uleb128_good|]. intros [count r'] _.
      eapply good_bind; [apply count_loop_good; [intros; apply parse_directory_v5_good; exact HP|lia]|].
      intros [ds r''] _. exact I. }
  intros [[dfmt dirs] rest12] _.
  eapply good_bind with (Q := fun _ => True).
  { destruct (version <=? 4).
    - eapply good_bind; [apply files_v4_loop_good; lia|]. intros [fs r] _. exact I.
    - eapply good_bind; [apply parse_formats_good|]. intros [fm r] [_ HP]; cbn [fst snd] in *.
      eapply good_bind; [apply read_uleb128_good|]. intros [count r'] _.
      eapply good_bind; [apply count_loop_good; [intros; apply parse_file_v5_good; exact HP|lia]|].
      intros [fs r''] _. exact I. }
  intros [[ffmt files] rest13] _. exact I.
Qed.

Lemma parse_header_np dbg be asz0 bs :
  parse_header dbg be asz0 bs <> Panic /\ parse_header dbg be asz0 bs <> OutOfFuel.
Proof. eapply good_np, parse_header_good. Qed.
