(* Proofs/ListsWrProofs.v — C16: written range / location lists read back as the same lists.
   Part 1: fixed-width and ULEB128 write->read lemmas; Part 2: DWARF 5 writers; Part 3: pre-v5 writers
   (rejects, ambiguity, decode/resolve); Part 4: tables (offsets, de-duplication); Part 5: unit base address;
   Part 6: panic freedom. *)
From Coq Require Import List NArith ZArith Bool Lia ZifyBool ZifyN ZifyNat.
From Coq.Strings Require Import Byte.
Require Import GV.Base.Res GV.Base.Byt GV.Base.Ints GV.Spec.LebSpec GV.Model.Leb GV.Model.Prim
  GV.Proofs.LebProofs GV.Spec.ListWrSpec GV.Model.ListsWr.
Import ListNotations.
Local Open Scope N_scope.
Local Arguments N.add : simpl never.
Local Arguments N.sub : simpl never.
Local Arguments N.mul : simpl never.
Local Arguments N.shiftl : simpl never.
Local Arguments N.shiftr : simpl never.
Local Arguments N.land : simpl never.
Local Arguments N.lor : simpl never.
Local Arguments N.pow : simpl never.
Local Arguments N.modulo : simpl never.
Local Arguments N.div : simpl never.
Local Arguments N.of_nat : simpl never.
Local Arguments N.to_nat : simpl never.
Local Ltac Zify.zify_post_hook ::= Z.div_mod_to_equations.

(* ================================================================ Part 1: primitive codecs *)

Lemma lw_take_app (a rest : list byte) : take (length a) (a ++ rest) = Some (a, rest).
Proof.
  induction a as [|x a IH]; cbn [length take app]; [reflexivity|]. now rewrite IH.
Qed.

Lemma lw_le_bytes_length n v : length (le_bytes n v) = n.
Proof. revert v; induction n as [|n IH]; intros v; cbn [le_bytes length]; [reflexivity|]. now rewrite IH. Qed.

Lemma lw_enc_un_length n be v : length (enc_un n be v) = n.
Proof. unfold enc_un, be_bytes. destruct be; [rewrite rev_length|]; apply lw_le_bytes_length. Qed.

Lemma lw_le_val_le_bytes n v : le_val (le_bytes n v) = v mod 256 ^ N.of_nat n.
Proof.
  revert v; induction n as [|n IH]; intros v; cbn [le_bytes le_val].
  - change (N.of_nat 0) with 0. change (256 ^ 0) with 1. now rewrite N.mod_1_r.
  - rewrite IH, b2n_n2b.
    replace (N.of_nat (S n)) with (N.of_nat n + 1) by lia.
    rewrite N.pow_add_r. change (256 ^ 1) with 256.
    rewrite (N.mul_comm (256 ^ N.of_nat n) 256).
    rewrite N.mod_mul_r by (try apply N.pow_nonzero; discriminate). reflexivity.
Qed.

Lemma lw_read_un_enc n be v rest :
  v < 256 ^ N.of_nat n -> read_un n be (enc_un n be v ++ rest) = Ok (v, rest).
Proof.
  intros Hv. unfold read_un, read_bytes.
  rewrite <- (lw_enc_un_length n be v) at 1. rewrite lw_take_app. cbn [bind].
  unfold enc_un, be_val, be_bytes. destruct be.
  - rewrite rev_involutive, lw_le_val_le_bytes, N.mod_small by exact Hv. reflexivity.
  - rewrite lw_le_val_le_bytes, N.mod_small by exact Hv. reflexivity.
Qed.

Definition size_ok (s : N) : Prop := s = 1 \/ s = 2 \/ s = 4 \/ s = 8.

Lemma lw_write_udata_ok be v size bs :
  write_udata be v size = Ok bs -> v < 2 ^ 64 ->
  size_ok size /\ v < amod size /\ bs = enc_un (N.to_nat size) be v.
Proof.
  unfold write_udata, size_ok, amod. intros H Hv.
  destruct (size =? 1) eqn:E1.
  { assert (size = 1) by lia; subst. destruct (v <? 256) eqn:E; [|discriminate].
    inversion H; subst. change (2 ^ (8 * 1)) with 256. repeat split; [lia|lia]. }
  destruct (size =? 2) eqn:E2.
  { assert (size = 2) by lia; subst. destruct (v <? two16) eqn:E; [|discriminate].
    inversion H; subst. change (2 ^ (8 * 2)) with 65536. unfold two16 in E. repeat split; [lia|lia]. }
  destruct (size =? 4) eqn:E4.
  { assert (size = 4) by lia; subst. destruct (v <? two32) eqn:E; [|discriminate].
    inversion H; subst. change (2 ^ (8 * 4)) with 4294967296. unfold two32 in E. repeat split; [lia|lia]. }
  destruct (size =? 8) eqn:E8; [|discriminate].
  assert (size = 8) by lia; subst. inversion H; subst.
  change (2 ^ (8 * 8)) with (2 ^ 64). repeat split; [lia|exact Hv].
Qed.

Lemma lw_write_udata_fits be v size :
  size_ok size -> v < amod size -> write_udata be v size = Ok (enc_un (N.to_nat size) be v).
Proof.
  unfold size_ok, amod, write_udata. intros [-> | [-> | [-> | ->]]] Hv; cbn [N.eqb Pos.eqb].
  - change (2 ^ (8 * 1)) with 256 in Hv. destruct (v <? 256) eqn:E; [reflexivity|lia].
  - change (2 ^ (8 * 2)) with 65536 in Hv. unfold two16. destruct (v <? 65536) eqn:E; [reflexivity|lia].
  - change (2 ^ (8 * 4)) with 4294967296 in Hv. unfold two32. destruct (v <? 4294967296) eqn:E; [reflexivity|lia].
  - reflexivity.
Qed.

Lemma lw_read_address_enc size be v rest :
  size_ok size -> v < amod size ->
  read_address size be (enc_un (N.to_nat size) be v ++ rest) = Ok (v, rest).
Proof.
  unfold size_ok, amod, read_address. intros [-> | [-> | [-> | ->]]] Hv; cbn [N.eqb Pos.eqb];
    apply lw_read_un_enc; exact Hv.
Qed.

Lemma lw_amod_le_64 size : size_ok size -> amod size <= 2 ^ 64.
Proof. unfold size_ok, amod. intros [-> | [-> | [-> | ->]]]; vm_compute; discriminate. Qed.

Lemma lw_mask_amod size : mask_of size = amod size - 1.
Proof. reflexivity. Qed.

(* ---- ULEB128: write then read ---- *)

Lemma lw_small_byte (x : N) : x < 128 ->
  cont_bit (n2b x) = false /\ N.land (b2n (n2b x)) 127 = x.
Proof.
  intros Hx. rewrite <- (N2Nat.id x). assert (Hn : (N.to_nat x < 128)%nat) by lia.
  revert Hn. generalize (N.to_nat x). intros n Hn.
  do 128 (destruct n as [|n]; [vm_compute; split; reflexivity|]). lia.
Qed.

Lemma lw_cont_byte (x : N) : x < 128 ->
  cont_bit (n2b (N.lor x CONT)) = true /\ N.land (b2n (n2b (N.lor x CONT))) 127 = x.
Proof.
  intros Hx. rewrite <- (N2Nat.id x). assert (Hn : (N.to_nat x < 128)%nat) by lia.
  revert Hn. generalize (N.to_nat x). intros n Hn.
  do 128 (destruct n as [|n]; [vm_compute; split; reflexivity|]). lia.
Qed.

Lemma lw_low7_land v : low7 (N.land v 255) = v mod 128.
Proof.
  unfold low7. rewrite <- N.land_assoc. change (N.land 255 127) with (N.ones 7).
  rewrite N.land_ones. reflexivity.
Qed.

Lemma lw_write_uleb_fuel fuel v bs rest :
  write_uleb_fuel fuel v = Ok bs ->
  split_leb (bs ++ rest) = Some (bs, rest) /\ uval bs = v /\ (1 <= length bs <= fuel)%nat.
Proof.
  revert v bs. induction fuel as [|f IH]; intros v bs; cbn [write_uleb_fuel]; [discriminate|].
  rewrite lw_low7_land, N.shiftr_div_pow2. change (2 ^ 7) with 128.
  assert (Hm : v mod 128 < 128) by lia.
  destruct (v / 128 =? 0) eqn:E.
  - intros H; inversion H; subst. destruct (lw_small_byte _ Hm) as [Hc Hl].
    cbn [app split_leb uval length]. rewrite Hc, Hl. repeat split; lia.
  - destruct (write_uleb_fuel f (v / 128)) as [r| | |] eqn:Hr; cbn [bind]; try discriminate.
    intros H; inversion H; subst.
    destruct (IH _ _ Hr) as [Hs [Hu Hlen]]. destruct (lw_cont_byte _ Hm) as [Hc Hl].
    cbn [app split_leb uval length]. rewrite Hc, Hs, Hl, Hu. repeat split; lia.
Qed.

Lemma lw_wuf_S f v :
  write_uleb_fuel (S f) v =
  if v / 128 =? 0 then Ok [n2b (v mod 128)]
  else let* rest := write_uleb_fuel f (v / 128) in Ok (n2b (N.lor (v mod 128) CONT) :: rest).
Proof.
  cbn [write_uleb_fuel]. rewrite lw_low7_land, N.shiftr_div_pow2. reflexivity.
Qed.

Lemma lw_write_uleb_total v : v < 2 ^ 64 -> exists bs, write_uleb128 v = Ok bs.
Proof.
  intros Hv. unfold write_uleb128.
  assert (G : forall fuel w, w < 2 ^ (7 * (N.of_nat fuel + 1)) -> exists bs, write_uleb_fuel (S fuel) w = Ok bs).
  { induction fuel as [|f IH]; intros w Hw; rewrite lw_wuf_S.
    - change (2 ^ (7 * (N.of_nat 0 + 1))) with 128 in Hw.
      destruct (w / 128 =? 0) eqn:E; [eexists; reflexivity|].
      assert (w / 128 = 0) by (apply N.div_small; exact Hw). lia.
    - destruct (w / 128 =? 0); [eexists; reflexivity|].
      destruct (IH (w / 128)) as [r Hr].
      { replace (7 * (N.of_nat (S f) + 1)) with (7 * (N.of_nat f + 1) + 7) in Hw by lia.
        rewrite N.pow_add_r in Hw. change (2 ^ 7) with 128 in Hw.
        apply N.div_lt_upper_bound; lia. }
      rewrite Hr. cbn [bind]. eexists; reflexivity. }
  apply (G 9%nat). change (7 * (N.of_nat 9 + 1)) with 70.
  apply N.lt_trans with (2 ^ 64); [exact Hv|]. vm_compute; reflexivity.
Qed.

Lemma lw_read_write_uleb dbg v bs rest :
  write_uleb128 v = Ok bs -> v < 2 ^ 64 -> read_uleb128 dbg (bs ++ rest) = Ok (v, rest).
Proof.
  intros H Hv. rewrite read_uleb128_exact. unfold uleb_spec, write_uleb128 in *.
  destruct (lw_write_uleb_fuel _ _ _ rest H) as [Hs [Hu Hl]].
  rewrite Hs, Hu.
  destruct ((length bs <=? 10)%nat && (v <? 2 ^ 64)) eqn:E; [reflexivity|lia].
Qed.

Lemma lw_write_uleb_nonempty v bs : write_uleb128 v = Ok bs -> (1 <= length bs)%nat.
Proof. intros H. destruct (lw_write_uleb_fuel _ _ _ [] H) as [_ [_ Hl]]. lia. Qed.

(* ================================================================ Part 2: DWARF 5 writers *)

Definition data_of (x : wloc) : list byte :=
  match x with
  | LBase _ => []
  | LOffsetPair _ _ d | LStartEnd _ _ d | LStartLength _ _ d | LDefault d => d
  end.

(* the input is a value of the Rust types; a range list carries no expression data *)
Definition wf (loc : bool) (x : wloc) : Prop :=
  wloc_wf x /\ N.of_nat (length (data_of x)) < 2 ^ 64 /\ (loc = false -> exists r, x = loc_of_range r).

Lemma lw_wf_range (r : wrange) : wloc_wf (loc_of_range r) -> wf false (loc_of_range r).
Proof. intros H. split; [exact H|]. split; [destruct r; vm_compute; reflexivity|]. intros _. eauto. Qed.

Lemma lw_wf_nodata loc x : wf loc x -> loc = false -> data_of x = [].
Proof. intros [_ [_ H]] Hl. destruct (H Hl) as [r ->]. destruct r; reflexivity. Qed.

Ltac bind_ok H :=
  match type of H with
  | bind ?r _ = Ok _ =>
      let E := fresh "E" in destruct r eqn:E; cbn [bind] in H; try discriminate H
  end.

Lemma lw_write_address_ok be a size bs :
  write_address be a size = Ok bs -> addr_wf a ->
  exists v, a = AConst v /\ size_ok size /\ v < amod size /\ bs = enc_un (N.to_nat size) be v.
Proof.
  destruct a as [v|s z]; cbn [write_address addr_wf]; [|discriminate].
  intros H Hv. destruct (lw_write_udata_ok _ _ _ _ H Hv) as [Hs [Hf Hb]]. eauto.
Qed.

Lemma lw_opt_data5 dbg loc be d x rest :
  opt_expression loc be 5 d = Ok x -> N.of_nat (length d) < 2 ^ 64 -> (loc = false -> d = []) ->
  dec_opt_data dbg loc true be (x ++ rest) = Ok (d, rest).
Proof.
  unfold opt_expression, dec_opt_data. destruct loc; intros H Hd Hn.
  - unfold write_expression in H. change (5 <=? 4) with false in H. cbv iota in H.
    bind_ok H. inversion H; subst. unfold dec_data.
    rewrite <- app_assoc. rewrite (lw_read_write_uleb dbg _ _ _ E Hd). cbn [bind].
    destruct (N.of_nat (length (d ++ rest)) <? N.of_nat (length d)) eqn:El.
    { rewrite app_length in El. lia. }
    unfold read_bytes. rewrite Nat2N.id, lw_take_app. reflexivity.
  - inversion H; subst. rewrite (Hn eq_refl). reflexivity.
Qed.

Lemma lw_b2n_n2b_kind k : k < 256 -> b2n (n2b k) = k.
Proof. apply b2n_n2b_small. Qed.

Lemma lw_entry5 dbg loc be asz x bs :
  write_entry_v5 loc be 5 asz x = Ok bs -> wf loc x ->
  exists k tail e, bs = n2b k :: tail /\ 1 <= k < 256 /\ ent_of x = Some e /\
    forall rest, dec5_entry dbg loc be asz k (tail ++ rest) = Ok (e, rest).
Proof.
  intros H Hw. pose proof (lw_wf_nodata _ _ Hw) as Hn. destruct Hw as [Hwf [Hd Hr]].
  destruct x as [a|b e d|b e d|b len d|d]; cbn [write_entry_v5] in H; cbn [wloc_wf data_of] in *.
  - (* base *)
    bind_ok H. inversion H; subst.
    destruct (lw_write_address_ok _ _ _ _ E Hwf) as [v [-> [Hs [Hv ->]]]].
    exists (kind_base loc), (enc_un (N.to_nat asz) be v), (EBase v).
    split; [reflexivity|]. split; [destruct loc; vm_compute; split; congruence|].
    split; [reflexivity|]. intros rest. unfold dec5_entry, kind_base.
    destruct loc; cbn [N.eqb Pos.eqb]; rewrite (lw_read_address_enc _ _ _ _ Hs Hv); reflexivity.
  - (* offset pair *)
    destruct Hwf as [Hb He]. bind_ok H. bind_ok H. bind_ok H. inversion H; subst.
    exists kind_offset_pair, (a ++ a0 ++ a1), (EOffsetPair b e d).
    split; [reflexivity|]. split; [vm_compute; split; congruence|]. split; [reflexivity|].
    intros rest. unfold dec5_entry, kind_offset_pair. cbn [N.eqb Pos.eqb].
    rewrite <- !app_assoc. rewrite (lw_read_write_uleb dbg _ _ _ E Hb). cbn [bind].
    rewrite (lw_read_write_uleb dbg _ _ _ E0 He). cbn [bind].
    rewrite (lw_opt_data5 dbg _ _ _ _ _ E1 Hd Hn). reflexivity.
  - (* start end *)
    destruct Hwf as [Hb He]. bind_ok H. bind_ok H. bind_ok H. inversion H; subst.
    destruct (lw_write_address_ok _ _ _ _ E Hb) as [vb [-> [Hs [Hvb ->]]]].
    destruct (lw_write_address_ok _ _ _ _ E0 He) as [ve [-> [_ [Hve ->]]]].
    exists (kind_start_end loc), (enc_un (N.to_nat asz) be vb ++ enc_un (N.to_nat asz) be ve ++ a1), (EStartEnd vb ve d).
    split; [reflexivity|]. split; [destruct loc; vm_compute; split; congruence|]. split; [reflexivity|].
    intros rest. unfold dec5_entry, kind_start_end.
    destruct loc; cbn [N.eqb Pos.eqb]; rewrite <- !app_assoc;
      rewrite (lw_read_address_enc _ _ _ _ Hs Hvb); cbn [bind];
      rewrite (lw_read_address_enc _ _ _ _ Hs Hve); cbn [bind];
      rewrite (lw_opt_data5 dbg _ _ _ _ _ E1 Hd Hn); reflexivity.
  - (* start length *)
    destruct Hwf as [Hb Hl]. bind_ok H. bind_ok H. bind_ok H. inversion H; subst.
    destruct (lw_write_address_ok _ _ _ _ E Hb) as [vb [-> [Hs [Hvb ->]]]].
    exists (kind_start_length loc), (enc_un (N.to_nat asz) be vb ++ a0 ++ a1), (EStartLength vb len d).
    split; [reflexivity|]. split; [destruct loc; vm_compute; split; congruence|]. split; [reflexivity|].
    intros rest. unfold dec5_entry, kind_start_length.
    destruct loc; cbn [N.eqb Pos.eqb]; rewrite <- !app_assoc;
      rewrite (lw_read_address_enc _ _ _ _ Hs Hvb); cbn [bind];
      rewrite (lw_read_write_uleb dbg _ _ _ E0 Hl); cbn [bind];
      rewrite (lw_opt_data5 dbg _ _ _ _ _ E1 Hd Hn); reflexivity.
  - (* default location: only in location lists *)
    bind_ok H. inversion H; subst.
    destruct loc.
    + exists kind_default, a, (EDefault d).
      split; [reflexivity|]. split; [vm_compute; split; congruence|]. split; [reflexivity|].
      intros rest. unfold dec5_entry, kind_default. cbn [N.eqb Pos.eqb andb].
      pose proof (lw_opt_data5 dbg true be d a rest E Hd Hn) as Hx. unfold dec_opt_data in Hx.
      rewrite Hx. reflexivity.
    + (* a range list has no such entry *)
      destruct (Hr eq_refl) as [r Hx]. destruct r; discriminate Hx.
Qed.

Lemma lw_pairs_ents_nil : ents_of [] = Some []. Proof. reflexivity. Qed.

Lemma lw_list5 dbg loc be asz l bs :
  write_list_v5 loc be 5 asz l = Ok bs -> Forall (wf loc) l ->
  exists es, ents_of l = Some es /\
    forall rest fuel, (length bs <= fuel)%nat ->
      dec5_fuel fuel dbg loc be asz (bs ++ rest) = Ok (es, rest).
Proof.
  revert bs. induction l as [|x r IH]; intros bs H Hwf; cbn [write_list_v5] in H.
  - inversion H; subst. exists []. split; [reflexivity|]. intros rest fuel Hf.
    destruct fuel as [|f]; [cbn [length] in Hf; lia|].
    cbn [dec5_fuel app read_u8 bind]. rewrite lw_b2n_n2b_kind by lia. reflexivity.
  - bind_ok H. bind_ok H. inversion H; subst.
    inversion Hwf as [|? ? Hx Hr]; subst.
    destruct (lw_entry5 dbg _ _ _ _ _ E Hx) as [k [tail [e [-> [Hk [He Hdec]]]]]].
    destruct (IH _ eq_refl Hr) as [es [Hes Hrest]].
    exists (e :: es). split; [cbn [ents_of]; rewrite He, Hes; reflexivity|].
    intros rest fuel Hf. destruct fuel as [|f]; [cbn [length app] in Hf; lia|].
    cbn [app length] in Hf. rewrite app_length in Hf.
    cbn [dec5_fuel app read_u8 bind]. rewrite lw_b2n_n2b_kind by lia.
    destruct (k =? 0) eqn:Ek; [lia|].
    rewrite <- app_assoc. rewrite Hdec. cbn [bind].
    rewrite Hrest by lia. reflexivity.
Qed.

Lemma lw_list5_dec dbg loc be asz l bs :
  write_list_v5 loc be 5 asz l = Ok bs -> Forall (wf loc) l ->
  exists es, ents_of l = Some es /\ forall rest, dec5 dbg loc be asz (bs ++ rest) = Ok (es, rest).
Proof.
  intros H Hwf. destruct (lw_list5 dbg _ _ _ _ _ H Hwf) as [es [He Hd]].
  exists es. split; [exact He|]. intros rest. unfold dec5. apply Hd. rewrite app_length. lia.
Qed.

(* ================================================================ Part 4 (used early): table layout *)

(* both table loops have this shape *)
Fixpoint tbl_gen (f : list wloc -> res (list byte)) (pos : N) (tbl : list (list wloc)) : res (list byte * list N) :=
  match tbl with
  | [] => Ok ([], [])
  | l :: r =>
      let* bs := f l in
      let* (rest, offs) := tbl_gen f (pos + N.of_nat (length bs)) r in
      Ok (bs ++ rest, pos :: offs)
  end.

Lemma lw_tbl_v4_gen dbg loc be version asz hb pos tbl :
  write_tbl_v4 dbg loc be version asz hb pos tbl = tbl_gen (write_list_v4 dbg loc be version asz hb) pos tbl.
Proof. revert pos; induction tbl as [|l r IH]; intros pos; cbn [write_tbl_v4 tbl_gen]; [reflexivity|].
  destruct (write_list_v4 dbg loc be version asz hb l); cbn [bind]; try reflexivity. now rewrite IH. Qed.

Lemma lw_lists_v5_gen loc be version asz pos tbl :
  write_lists_v5 loc be version asz pos tbl = tbl_gen (write_list_v5 loc be version asz) pos tbl.
Proof. revert pos; induction tbl as [|l r IH]; intros pos; cbn [write_lists_v5 tbl_gen]; [reflexivity|].
  destruct (write_list_v5 loc be version asz l); cbn [bind]; try reflexivity. now rewrite IH. Qed.

Fixpoint offsets_from (pos : N) (bss : list (list byte)) : list N :=
  match bss with
  | [] => []
  | b :: r => pos :: offsets_from (pos + N.of_nat (length b)) r
  end.

(* the table is emitted as one copy of every element, in table order, and the offsets are the running positions *)
Lemma lw_tbl_gen_char f : forall tbl pos body offs,
  tbl_gen f pos tbl = Ok (body, offs) ->
  exists bss, Forall2 (fun l bs => f l = Ok bs) tbl bss /\ body = concat bss /\ offs = offsets_from pos bss.
Proof.
  induction tbl as [|l r IH]; intros pos body offs H; cbn [tbl_gen] in H.
  - inversion H; subst. exists []. repeat split; constructor.
  - bind_ok H. bind_ok H. destruct a0 as [rest o]. inversion H; subst.
    destruct (IH _ _ _ E0) as [bss [HF [-> ->]]].
    exists (a :: bss). split; [constructor; assumption|]. split; reflexivity.
Qed.

Lemma lw_offsets_from_nth : forall bss pos i bs,
  nth_error bss i = Some bs ->
  nth_error (offsets_from pos bss) i = Some (pos + N.of_nat (length (concat (firstn i bss)))) /\
  concat bss = concat (firstn i bss) ++ bs ++ concat (skipn (S i) bss).
Proof.
  induction bss as [|b r IH]; intros pos i bs H; destruct i as [|i]; cbn [nth_error] in H; try discriminate.
  - inversion H; subst. cbn [offsets_from nth_error firstn skipn concat app length]. split; [f_equal; lia|reflexivity].
  - destruct (IH (pos + N.of_nat (length b)) i bs H) as [H1 H2].
    cbn [offsets_from nth_error firstn skipn concat]. rewrite H1. split.
    + f_equal. rewrite app_length. lia.
    + rewrite H2 at 1. rewrite <- app_assoc. reflexivity.
Qed.

Lemma lw_forall2_nth {A B} (P : A -> B -> Prop) : forall la lb i a,
  Forall2 P la lb -> nth_error la i = Some a -> exists b, nth_error lb i = Some b /\ P a b.
Proof.
  intros la lb i a HF. revert i. induction HF as [|x y la lb Hxy HF IH]; intros i Hn; destruct i; cbn [nth_error] in *; try discriminate.
  - inversion Hn; subst. eauto.
  - apply IH. exact Hn.
Qed.

Lemma lw_at_offset_app (sec0 pre x : list byte) (start : N) :
  N.of_nat (length sec0) = start ->
  at_offset (start + N.of_nat (length pre)) (sec0 ++ pre ++ x) = x.
Proof.
  intros <-. unfold at_offset. rewrite app_assoc.
  replace (N.to_nat (N.of_nat (length sec0) + N.of_nat (length pre))) with (length (sec0 ++ pre) + 0)%nat
    by (rewrite app_length; lia).
  rewrite skipn_app. rewrite Nat.add_0_r, skipn_all. cbn [app].
  replace (length (sec0 ++ pre) - length (sec0 ++ pre))%nat with 0%nat by lia. reflexivity.
Qed.

(* per-index view of a generic table write *)
Lemma lw_tbl_gen_nth f tbl pos body offs (sec0 : list byte) :
  tbl_gen f pos tbl = Ok (body, offs) -> N.of_nat (length sec0) = pos ->
  length offs = length tbl /\
  forall i l, nth_error tbl i = Some l ->
    exists o bs post, nth_error offs i = Some o /\ f l = Ok bs /\ at_offset o (sec0 ++ body) = bs ++ post.
Proof.
  intros H Hs. destruct (lw_tbl_gen_char f _ _ _ _ H) as [bss [HF [-> ->]]]. split.
  - clear H Hs. revert pos. induction HF as [|x y la lb _ _ IH]; intros pos; cbn [offsets_from length]; [reflexivity|].
    now rewrite IH.
  - intros i l Hl. destruct (lw_forall2_nth _ _ _ _ _ HF Hl) as [bs [Hb Hfl]].
    destruct (lw_offsets_from_nth _ pos _ _ Hb) as [Ho Hc].
    exists (pos + N.of_nat (length (concat (firstn i bss)))), bs, (concat (skipn (S i) bss)).
    split; [exact Ho|]. split; [exact Hfl|]. rewrite Hc. apply lw_at_offset_app. exact Hs.
Qed.

Lemma lw_write_initial_length_len fmt64 be len il :
  write_initial_length fmt64 be len = Ok il -> N.of_nat (length il) = initial_length_size fmt64.
Proof.
  unfold write_initial_length, initial_length_size.
  destruct (negb fmt64 && (4294967280 <=? len) && (len <=? 4294967295)); [discriminate|].
  intros H. bind_ok H. inversion H; subst.
  unfold write_udata, word_size in E. destruct fmt64; cbn [N.eqb Pos.eqb] in E.
  - inversion E; subst. rewrite app_length, !lw_enc_un_length. reflexivity.
  - destruct (len <? two32); [|discriminate]. inversion E; subst. cbn [app]. rewrite lw_enc_un_length. reflexivity.
Qed.

Lemma lw_header_v5_len be version asz : length (header_v5 be version asz) = 8%nat.
Proof. unfold header_v5. rewrite !app_length, !lw_enc_un_length. reflexivity. Qed.

(* write_read_v5: every list of the table decodes, at the offset recorded for it, to exactly its entries *)
Lemma lw_write_read_v5 dbg loc be fmt64 asz start tbl out offs (sec0 : list byte) :
  write_tbl_v5 loc be fmt64 5 asz start tbl = Ok (out, offs) ->
  N.of_nat (length sec0) = start ->
  Forall (Forall (wf loc)) tbl ->
  length offs = length tbl /\
  forall i l, nth_error tbl i = Some l ->
    exists o es rest, nth_error offs i = Some o /\ ents_of l = Some es /\
      dec5 dbg loc be asz (at_offset o (sec0 ++ out)) = Ok (es, rest).
Proof.
  unfold write_tbl_v5. change (negb (5 =? 5)) with false. cbv iota.
  intros H Hs Hwf. bind_ok H. destruct a as [body o]. bind_ok H. inversion H; subst.
  rewrite lw_lists_v5_gen in E.
  pose proof (lw_write_initial_length_len _ _ _ _ E0) as Hil.
  pose proof (lw_header_v5_len be 5 asz) as Hh.
  destruct (lw_tbl_gen_nth _ _ _ _ _ (sec0 ++ a ++ header_v5 be 5 asz) E) as [Hlen Hn].
  { rewrite !app_length, Hh. lia. }
  split; [exact Hlen|]. intros i l Hl. destruct (Hn i l Hl) as [off [bs [post [Ho [Hw Hat]]]]].
  rewrite Forall_forall in Hwf. assert (Hwl : Forall (wf loc) l) by (apply Hwf; eapply nth_error_In; eauto).
  destruct (lw_list5_dec dbg _ _ _ _ _ Hw Hwl) as [es [Hes Hdec]].
  exists off, es, post. split; [exact Ho|]. split; [exact Hes|].
  replace (sec0 ++ a ++ header_v5 be 5 asz ++ body) with ((sec0 ++ a ++ header_v5 be 5 asz) ++ body)
    by (rewrite <- !app_assoc; reflexivity).
  rewrite Hat. apply Hdec.
Qed.

(* ================================================================ Part 3: DWARF 2-4 writers *)

Definition enc_word (be : bool) (asz v : N) : list byte := enc_un (N.to_nat asz) be v.

(* the pair format, as a function of the pairs *)
Definition enc_pair4 (loc be : bool) (asz : N) (p : ent) : list byte :=
  match p with
  | EBase a => enc_word be asz (mask_of asz) ++ enc_word be asz a
  | EPair b e d =>
      enc_word be asz b ++ enc_word be asz e ++
      (if loc then enc_un 2 be (N.of_nat (length d)) ++ d else [])
  | _ => []
  end.
Definition enc_list4 (loc be : bool) (asz : N) (ps : list ent) : list byte :=
  flat_map (enc_pair4 loc be asz) ps ++ enc_word be asz 0 ++ enc_word be asz 0.

(* what every emitted pair satisfies: it fits the address size and is not the (0,0) terminator *)
Definition pair_ok (loc : bool) (asz : N) (p : ent) : Prop :=
  match p with
  | EBase a => a < amod asz
  | EPair b e d =>
      b < amod asz /\ e < amod asz /\ ~ (b = 0 /\ e = 0) /\
      N.of_nat (length d) < 65536 /\ (loc = false -> d = [])
  | _ => False
  end.
(* what is NOT guaranteed (finding F8): a non-base pair does not begin with the base-selection marker *)
Definition pair_nomark (asz : N) (p : ent) : Prop :=
  match p with EPair b _ _ => b <> mask_of asz | _ => True end.

Lemma lw_opt_expr4 loc be version d x :
  opt_expression loc be version d = Ok x -> version <= 4 -> (loc = false -> d = []) ->
  x = (if loc then enc_un 2 be (N.of_nat (length d)) ++ d else []) /\
  N.of_nat (length d) < 65536.
Proof.
  unfold opt_expression. destruct loc; intros H Hv Hn.
  - unfold write_expression in H. destruct (version <=? 4) eqn:E; [|lia].
    bind_ok H. inversion H; subst.
    assert (Hl : N.of_nat (length d) < 2 ^ 64).
    { unfold write_udata in E0. cbn [N.eqb Pos.eqb] in E0.
      destruct (N.of_nat (length d) <? two16) eqn:E2; [|discriminate]. unfold two16 in E2.
      apply N.lt_trans with 65536; [lia|vm_compute; reflexivity]. }
    destruct (lw_write_udata_ok _ _ _ _ E0 Hl) as [_ [Hf ->]]. change (amod 2) with 65536 in Hf.
    split; [reflexivity|exact Hf].
  - inversion H; subst. rewrite (Hn eq_refl). split; [reflexivity|vm_compute; reflexivity].
Qed.

Lemma lw_sle_const dbg v len e :
  start_length_end dbg (AConst v) len = Ok e -> e = AConst ((v + len) mod 2 ^ 64).
Proof.
  cbn [start_length_end]. unfold chk_add, wrapN. destruct (v + len <? 2 ^ 64) eqn:E; cbn [bind].
  - intros H; inversion H; subst. rewrite N.mod_small by lia. reflexivity.
  - destruct dbg; cbn [bind]; [discriminate|]. intros H; inversion H; subst. reflexivity.
Qed.

Lemma lw_mod64_lt x : x mod 2 ^ 64 < 2 ^ 64.
Proof. apply N.mod_lt. vm_compute; discriminate. Qed.

Lemma lw_ones_sized_ok dbg asz m : ones_sized dbg asz = Ok m -> size_ok asz -> m = mask_of asz.
Proof.
  intros H [-> | [-> | [-> | ->]]]; destruct dbg; vm_compute in H; inversion H; reflexivity.
Qed.

Lemma lw_ones_sized_u64 dbg asz m : ones_sized dbg asz = Ok m -> m < 2 ^ 64.
Proof.
  unfold ones_sized. intros H. bind_ok H. bind_ok H.
  assert (G : forall s, N.shiftr (two64 - 1) s < 2 ^ 64).
  { intros s. rewrite N.shiftr_div_pow2. apply N.le_lt_trans with (two64 - 1).
    - apply N.div_le_upper_bound; [apply N.pow_nonzero; discriminate|].
      pose proof (pow_pos s). nia.
    - vm_compute; reflexivity. }
  destruct (64 <=? a0); [destruct dbg; [discriminate|]|]; inversion H; subst; apply G.
Qed.

(* W4: on success the writer has emitted exactly the pair encoding of `pairs_of l`, every pair fits and none is (0,0) *)
Lemma lw_write_v4_enc dbg loc be version asz : forall l hb bs,
  write_list_v4 dbg loc be version asz hb l = Ok bs -> version <= 4 -> Forall (wf loc) l ->
  size_ok asz /\ exists ps, pairs_of l = Some ps /\ Forall (pair_ok loc asz) ps /\ bs = enc_list4 loc be asz ps.
Proof.
  induction l as [|x r IH]; intros hb bs H Hv Hwf; cbn [write_list_v4] in H.
  - bind_ok H. inversion H; subst.
    assert (H0 : 0 < 2 ^ 64) by (vm_compute; reflexivity).
    destruct (lw_write_udata_ok _ _ _ _ E H0) as [Hs [_ ->]].
    split; [exact Hs|]. exists []. split; [reflexivity|]. split; [constructor|reflexivity].
  - inversion Hwf as [|? ? Hx Hr]; subst. pose proof (lw_wf_nodata _ _ Hx) as Hn.
    destruct Hx as [Hxw [Hd _]].
    destruct x as [a|b e d|b e d|b len d|d]; cbn [wloc_wf data_of] in *.
    + (* base *)
      bind_ok H. bind_ok H. bind_ok H. bind_ok H. inversion H; subst.
      destruct (IH _ _ E2 Hv Hr) as [Hs [ps [Hp [Hok ->]]]].
      destruct (lw_write_address_ok _ _ _ _ E1 Hxw) as [v [-> [_ [Hvf ->]]]].
      pose proof (lw_ones_sized_ok _ _ _ E Hs) as ->.
      destruct (lw_write_udata_ok _ _ _ _ E0 (lw_ones_sized_u64 _ _ _ E)) as [_ [_ ->]].
      split; [exact Hs|]. exists (EBase v :: ps). cbn [pairs_of pair_of]. rewrite Hp.
      split; [reflexivity|]. split; [constructor; [exact Hvf|exact Hok]|].
      unfold enc_list4. cbn [flat_map enc_pair4]. unfold enc_word. rewrite <- !app_assoc. reflexivity.
    + (* offset pair *)
      destruct Hxw as [Hb He].
      destruct (b =? e) eqn:Ebe; [discriminate|]. destruct (negb hb) eqn:Ehb; [discriminate|].
      bind_ok H. bind_ok H. bind_ok H. bind_ok H. inversion H; subst.
      destruct (IH _ _ E2 Hv Hr) as [Hs [ps [Hp [Hok ->]]]].
      destruct (lw_write_udata_ok _ _ _ _ E Hb) as [_ [Hbf ->]].
      destruct (lw_write_udata_ok _ _ _ _ E0 He) as [_ [Hef ->]].
      destruct (lw_opt_expr4 _ _ _ _ _ E1 Hv Hn) as [-> Hdl].
      split; [exact Hs|]. exists (EPair b e d :: ps). cbn [pairs_of pair_of]. rewrite Hp.
      split; [reflexivity|]. split.
      * constructor; [|exact Hok]. cbn [pair_ok]. repeat split; try assumption. lia.
      * unfold enc_list4. cbn [flat_map enc_pair4]. unfold enc_word. rewrite <- !app_assoc. reflexivity.
    + (* start end *)
      destruct Hxw as [Hb He].
      destruct (addr_eqb b e) eqn:Ebe; [discriminate|]. destruct hb eqn:Ehb; [discriminate|].
      bind_ok H. bind_ok H. bind_ok H. bind_ok H. inversion H; subst.
      destruct (IH _ _ E2 Hv Hr) as [Hs [ps [Hp [Hok ->]]]].
      destruct (lw_write_address_ok _ _ _ _ E Hb) as [vb [-> [_ [Hbf ->]]]].
      destruct (lw_write_address_ok _ _ _ _ E0 He) as [ve [-> [_ [Hef ->]]]].
      destruct (lw_opt_expr4 _ _ _ _ _ E1 Hv Hn) as [-> Hdl].
      cbn [addr_eqb] in Ebe.
      split; [exact Hs|]. exists (EPair vb ve d :: ps). cbn [pairs_of pair_of]. rewrite Hp.
      split; [reflexivity|]. split.
      * constructor; [|exact Hok]. cbn [pair_ok]. repeat split; try assumption. lia.
      * unfold enc_list4. cbn [flat_map enc_pair4]. unfold enc_word. rewrite <- !app_assoc. reflexivity.
    + (* start length *)
      destruct Hxw as [Hb Hl].
      bind_ok H.
      destruct (addr_eqb b a) eqn:Ebe; [discriminate|]. destruct hb eqn:Ehb; [discriminate|].
      bind_ok H. bind_ok H. bind_ok H. bind_ok H. inversion H; subst.
      destruct (IH _ _ E3 Hv Hr) as [Hs [ps [Hp [Hok ->]]]].
      destruct (lw_write_address_ok _ _ _ _ E0 Hb) as [vb [-> [_ [Hbf ->]]]].
      pose proof (lw_sle_const _ _ _ _ E) as ->.
      destruct (lw_write_address_ok _ _ _ _ E1 (lw_mod64_lt _)) as [ve [Hve [_ [Hef ->]]]].
      inversion Hve; subst ve.
      destruct (lw_opt_expr4 _ _ _ _ _ E2 Hv Hn) as [-> Hdl].
      cbn [addr_eqb] in Ebe.
      split; [exact Hs|]. exists (EPair vb ((vb + len) mod 2 ^ 64) d :: ps). cbn [pairs_of pair_of]. rewrite Hp.
      split; [reflexivity|]. split.
      * constructor; [|exact Hok]. cbn [pair_ok]. repeat split; try assumption. lia.
      * unfold enc_list4. cbn [flat_map enc_pair4]. unfold enc_word. rewrite <- !app_assoc. reflexivity.
    + discriminate.
Qed.

Lemma lw_enc_word_length be asz v : length (enc_word be asz v) = N.to_nat asz.
Proof. apply lw_enc_un_length. Qed.

Lemma lw_mask_pos asz : size_ok asz -> mask_of asz <> 0 /\ mask_of asz < amod asz.
Proof. intros [-> | [-> | [-> | ->]]]; vm_compute; split; congruence. Qed.

Lemma lw_opt_data4 dbg loc be d rest :
  N.of_nat (length d) < 65536 -> (loc = false -> d = []) ->
  dec_opt_data dbg loc false be ((if loc then enc_un 2 be (N.of_nat (length d)) ++ d else []) ++ rest) = Ok (d, rest).
Proof.
  intros Hd Hn. unfold dec_opt_data. destruct loc.
  - unfold dec_data. rewrite <- app_assoc. rewrite lw_read_un_enc by exact Hd. cbn [bind].
    destruct (N.of_nat (length (d ++ rest)) <? N.of_nat (length d)) eqn:El.
    { rewrite app_length in El. lia. }
    unfold read_bytes. rewrite Nat2N.id, lw_take_app. reflexivity.
  - rewrite (Hn eq_refl). reflexivity.
Qed.

(* D4: the pair decoder inverts the pair encoding on lists without (0,0) pairs and without marker clashes *)
Lemma lw_dec4_enc dbg loc be asz : size_ok asz -> forall ps,
  Forall (pair_ok loc asz) ps -> Forall (pair_nomark asz) ps ->
  forall rest fuel, (length (flat_map (enc_pair4 loc be asz) ps) < fuel)%nat ->
    dec4_fuel fuel dbg loc be asz (enc_list4 loc be asz ps ++ rest) = Ok (ps, rest).
Proof.
  intros Hs. assert (Hz : 0 < amod asz) by (destruct Hs as [-> | [-> | [-> | ->]]]; vm_compute; reflexivity).
  assert (Hsz : (1 <= N.to_nat asz)%nat) by (destruct Hs as [-> | [-> | [-> | ->]]]; vm_compute; lia).
  destruct (lw_mask_pos _ Hs) as [Hm0 Hmf].
  induction ps as [|p ps IH]; intros Hok Hnm rest fuel Hf.
  - destruct fuel as [|f]; [cbn [flat_map length] in Hf; lia|].
    unfold enc_list4. cbn [flat_map app dec4_fuel]. unfold enc_word. rewrite <- app_assoc.
    rewrite (lw_read_address_enc _ _ _ _ Hs Hz). cbn [bind].
    rewrite (lw_read_address_enc _ _ _ _ Hs Hz). cbn [bind]. reflexivity.
  - inversion Hok as [|? ? Hp Hok']; subst. inversion Hnm as [|? ? Hq Hnm']; subst.
    destruct fuel as [|f]; [lia|].
    cbn [flat_map] in Hf. rewrite app_length in Hf.
    unfold enc_list4. cbn [flat_map]. rewrite <- !app_assoc.
    fold (enc_list4 loc be asz ps).
    destruct p as [a|b e d|b e d|b len d|d|b e d]; cbn [pair_ok] in Hp; try contradiction.
    + (* base selection *)
      cbn [enc_pair4] in *. rewrite app_length, !lw_enc_word_length in Hf.
      unfold enc_word at 1 2. rewrite <- !app_assoc. cbn [dec4_fuel].
      rewrite (lw_read_address_enc _ _ _ _ Hs Hmf). cbn [bind].
      rewrite (lw_read_address_enc _ _ _ _ Hs Hp). cbn [bind].
      destruct ((mask_of asz =? 0) && (a =? 0)) eqn:E0; [lia|].
Show.
