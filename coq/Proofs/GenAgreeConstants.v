(* Proofs/GenAgreeConstants.v — translator tie: every DW_* constant that a model or specification file
   defines by a numeral is equal to the constant of the same name regenerated from /repo/src/constants.rs
   (coq/Gen/Constants.v, rewritten by translate/tables.py on every ./check run).  If a `dw!` entry changes
   in /repo the lemma naming the model file stops checking. *)
From Coq Require Import List NArith.
Require GV.Gen.Constants.

Require GV.Model.Attr GV.Model.CfiRd GV.Model.ConvertExpr GV.Model.Filter GV.Model.LineWr GV.Spec.Forest GV.Spec.ListWrSpec GV.Spec.MacroSpec GV.Spec.UnitWrSpec.
Local Open Scope N_scope.

(* Model/Attr.v: 61 constants *)
Lemma gen_constants_Attr :
  Constants.DW_FORM_addr = Attr.DW_FORM_addr /\
  Constants.DW_FORM_block2 = Attr.DW_FORM_block2 /\
  Constants.DW_FORM_block4 = Attr.DW_FORM_block4 /\
  Constants.DW_FORM_data2 = Attr.DW_FORM_data2 /\
  Constants.DW_FORM_data4 = Attr.DW_FORM_data4 /\
  Constants.DW_FORM_data8 = Attr.DW_FORM_data8 /\
  Constants.DW_FORM_string = Attr.DW_FORM_string /\
  Constants.DW_FORM_block = Attr.DW_FORM_block /\
  Constants.DW_FORM_block1 = Attr.DW_FORM_block1 /\
  Constants.DW_FORM_data1 = Attr.DW_FORM_data1 /\
  Constants.DW_FORM_flag = Attr.DW_FORM_flag /\
  Constants.DW_FORM_sdata = Attr.DW_FORM_sdata /\
  Constants.DW_FORM_strp = Attr.DW_FORM_strp /\
  Constants.DW_FORM_udata = Attr.DW_FORM_udata /\
  Constants.DW_FORM_ref_addr = Attr.DW_FORM_ref_addr /\
  Constants.DW_FORM_ref1 = Attr.DW_FORM_ref1 /\
  Constants.DW_FORM_ref2 = Attr.DW_FORM_ref2 /\
  Constants.DW_FORM_ref4 = Attr.DW_FORM_ref4 /\
  Constants.DW_FORM_ref8 = Attr.DW_FORM_ref8 /\
  Constants.DW_FORM_ref_udata = Attr.DW_FORM_ref_udata /\
  Constants.DW_FORM_indirect = Attr.DW_FORM_indirect /\
  Constants.DW_FORM_sec_offset = Attr.DW_FORM_sec_offset /\
  Constants.DW_FORM_exprloc = Attr.DW_FORM_exprloc /\
  Constants.DW_FORM_flag_present = Attr.DW_FORM_flag_present /\
  Constants.DW_FORM_strx = Attr.DW_FORM_strx /\
  Constants.DW_FORM_addrx = Attr.DW_FORM_addrx /\
  Constants.DW_FORM_ref_sup4 = Attr.DW_FORM_ref_sup4 /\
  Constants.DW_FORM_strp_sup = Attr.DW_FORM_strp_sup /\
  Constants.DW_FORM_data16 = Attr.DW_FORM_data16 /\
  Constants.DW_FORM_line_strp = Attr.DW_FORM_line_strp /\
  Constants.DW_FORM_ref_sig8 = Attr.DW_FORM_ref_sig8 /\
  Constants.DW_FORM_implicit_const = Attr.DW_FORM_implicit_const /\
  Constants.DW_FORM_loclistx = Attr.DW_FORM_loclistx /\
  Constants.DW_FORM_rnglistx = Attr.DW_FORM_rnglistx /\
  Constants.DW_FORM_ref_sup8 = Attr.DW_FORM_ref_sup8 /\
  Constants.DW_FORM_strx1 = Attr.DW_FORM_strx1 /\
  Constants.DW_FORM_strx2 = Attr.DW_FORM_strx2 /\
  Constants.DW_FORM_strx3 = Attr.DW_FORM_strx3 /\
  Constants.DW_FORM_strx4 = Attr.DW_FORM_strx4 /\
  Constants.DW_FORM_addrx1 = Attr.DW_FORM_addrx1 /\
  Constants.DW_FORM_addrx2 = Attr.DW_FORM_addrx2 /\
  Constants.DW_FORM_addrx3 = Attr.DW_FORM_addrx3 /\
  Constants.DW_FORM_addrx4 = Attr.DW_FORM_addrx4 /\
  Constants.DW_FORM_GNU_addr_index = Attr.DW_FORM_GNU_addr_index /\
  Constants.DW_FORM_GNU_str_index = Attr.DW_FORM_GNU_str_index /\
  Constants.DW_FORM_GNU_ref_alt = Attr.DW_FORM_GNU_ref_alt /\
  Constants.DW_FORM_GNU_strp_alt = Attr.DW_FORM_GNU_strp_alt /\
  Constants.DW_AT_location = Attr.DW_AT_location /\
  Constants.DW_AT_stmt_list = Attr.DW_AT_stmt_list /\
  Constants.DW_AT_string_length = Attr.DW_AT_string_length /\
  Constants.DW_AT_return_addr = Attr.DW_AT_return_addr /\
  Constants.DW_AT_start_scope = Attr.DW_AT_start_scope /\
  Constants.DW_AT_frame_base = Attr.DW_AT_frame_base /\
  Constants.DW_AT_macro_info = Attr.DW_AT_macro_info /\
  Constants.DW_AT_macros = Attr.DW_AT_macros /\
  Constants.DW_AT_segment = Attr.DW_AT_segment /\
  Constants.DW_AT_static_link = Attr.DW_AT_static_link /\
  Constants.DW_AT_use_location = Attr.DW_AT_use_location /\
  Constants.DW_AT_vtable_elem_location = Attr.DW_AT_vtable_elem_location /\
  Constants.DW_AT_ranges = Attr.DW_AT_ranges /\
  Constants.DW_AT_data_member_location = Attr.DW_AT_data_member_location.
Proof. repeat split; reflexivity. Qed.

(* Model/CfiRd.v: 1 constants *)
Lemma gen_constants_CfiRd :
  Constants.DW_EH_PE_omit = CfiRd.DW_EH_PE_omit.
Proof. repeat split; reflexivity. Qed.

(* Model/ConvertExpr.v: 29 constants *)
Lemma gen_constants_ConvertExpr :
  Constants.DW_OP_drop = ConvertExpr.DW_OP_drop /\
  Constants.DW_OP_swap = ConvertExpr.DW_OP_swap /\
  Constants.DW_OP_rot = ConvertExpr.DW_OP_rot /\
  Constants.DW_OP_abs = ConvertExpr.DW_OP_abs /\
  Constants.DW_OP_and = ConvertExpr.DW_OP_and /\
  Constants.DW_OP_div = ConvertExpr.DW_OP_div /\
  Constants.DW_OP_minus = ConvertExpr.DW_OP_minus /\
  Constants.DW_OP_mod = ConvertExpr.DW_OP_mod /\
  Constants.DW_OP_mul = ConvertExpr.DW_OP_mul /\
  Constants.DW_OP_neg = ConvertExpr.DW_OP_neg /\
  Constants.DW_OP_not = ConvertExpr.DW_OP_not /\
  Constants.DW_OP_or = ConvertExpr.DW_OP_or /\
  Constants.DW_OP_plus = ConvertExpr.DW_OP_plus /\
  Constants.DW_OP_shl = ConvertExpr.DW_OP_shl /\
  Constants.DW_OP_shr = ConvertExpr.DW_OP_shr /\
  Constants.DW_OP_shra = ConvertExpr.DW_OP_shra /\
  Constants.DW_OP_xor = ConvertExpr.DW_OP_xor /\
  Constants.DW_OP_eq = ConvertExpr.DW_OP_eq /\
  Constants.DW_OP_ge = ConvertExpr.DW_OP_ge /\
  Constants.DW_OP_gt = ConvertExpr.DW_OP_gt /\
  Constants.DW_OP_le = ConvertExpr.DW_OP_le /\
  Constants.DW_OP_lt = ConvertExpr.DW_OP_lt /\
  Constants.DW_OP_ne = ConvertExpr.DW_OP_ne /\
  Constants.DW_OP_nop = ConvertExpr.DW_OP_nop /\
  Constants.DW_OP_push_object_address = ConvertExpr.DW_OP_push_object_address /\
  Constants.DW_OP_form_tls_address = ConvertExpr.DW_OP_form_tls_address /\
  Constants.DW_OP_call_frame_cfa = ConvertExpr.DW_OP_call_frame_cfa /\
  Constants.DW_OP_stack_value = ConvertExpr.DW_OP_stack_value /\
  Constants.DW_OP_GNU_uninit = ConvertExpr.DW_OP_GNU_uninit.
Proof. repeat split; reflexivity. Qed.

(* Model/Filter.v: 2 constants *)
Lemma gen_constants_Filter :
  Constants.DW_TAG_namespace = Filter.DW_TAG_namespace /\
  Constants.DW_TAG_subprogram = Filter.DW_TAG_subprogram.
Proof. repeat split; reflexivity. Qed.

(* Model/LineWr.v: 5 constants *)
Lemma gen_constants_LineWr :
  Constants.DW_FORM_string = LineWr.DW_FORM_string /\
  Constants.DW_FORM_strp = LineWr.DW_FORM_strp /\
  Constants.DW_FORM_udata = LineWr.DW_FORM_udata /\
  Constants.DW_FORM_data16 = LineWr.DW_FORM_data16 /\
  Constants.DW_FORM_line_strp = LineWr.DW_FORM_line_strp.
Proof. repeat split; reflexivity. Qed.

(* Spec/Forest.v: 1 constants *)
Lemma gen_constants_Forest :
  Constants.DW_AT_sibling = Forest.DW_AT_sibling.
Proof. repeat split; reflexivity. Qed.

(* Spec/ListWrSpec.v: 1 constants *)
Lemma gen_constants_ListWrSpec :
  Constants.DW_AT_low_pc = ListWrSpec.DW_AT_low_pc.
Proof. repeat split; reflexivity. Qed.

(* Spec/MacroSpec.v: 13 constants *)
Lemma gen_constants_MacroSpec :
  Constants.DW_MACRO_define = MacroSpec.DW_MACRO_define /\
  Constants.DW_MACRO_undef = MacroSpec.DW_MACRO_undef /\
  Constants.DW_MACRO_start_file = MacroSpec.DW_MACRO_start_file /\
  Constants.DW_MACRO_end_file = MacroSpec.DW_MACRO_end_file /\
  Constants.DW_MACRO_define_strp = MacroSpec.DW_MACRO_define_strp /\
  Constants.DW_MACRO_undef_strp = MacroSpec.DW_MACRO_undef_strp /\
  Constants.DW_MACRO_import = MacroSpec.DW_MACRO_import /\
  Constants.DW_MACRO_define_sup = MacroSpec.DW_MACRO_define_sup /\
  Constants.DW_MACRO_undef_sup = MacroSpec.DW_MACRO_undef_sup /\
  Constants.DW_MACRO_import_sup = MacroSpec.DW_MACRO_import_sup /\
  Constants.DW_MACRO_define_strx = MacroSpec.DW_MACRO_define_strx /\
  Constants.DW_MACRO_undef_strx = MacroSpec.DW_MACRO_undef_strx /\
  Constants.DW_MACINFO_vendor_ext = MacroSpec.DW_MACINFO_vendor_ext.
Proof. repeat split; reflexivity. Qed.

(* Spec/UnitWrSpec.v: 30 constants *)
Lemma gen_constants_UnitWrSpec :
  Constants.DW_FORM_addr = UnitWrSpec.DW_FORM_addr /\
  Constants.DW_FORM_data2 = UnitWrSpec.DW_FORM_data2 /\
  Constants.DW_FORM_data4 = UnitWrSpec.DW_FORM_data4 /\
  Constants.DW_FORM_data8 = UnitWrSpec.DW_FORM_data8 /\
  Constants.DW_FORM_string = UnitWrSpec.DW_FORM_string /\
  Constants.DW_FORM_block = UnitWrSpec.DW_FORM_block /\
  Constants.DW_FORM_data1 = UnitWrSpec.DW_FORM_data1 /\
  Constants.DW_FORM_flag = UnitWrSpec.DW_FORM_flag /\
  Constants.DW_FORM_sdata = UnitWrSpec.DW_FORM_sdata /\
  Constants.DW_FORM_strp = UnitWrSpec.DW_FORM_strp /\
  Constants.DW_FORM_udata = UnitWrSpec.DW_FORM_udata /\
  Constants.DW_FORM_ref_addr = UnitWrSpec.DW_FORM_ref_addr /\
  Constants.DW_FORM_ref4 = UnitWrSpec.DW_FORM_ref4 /\
  Constants.DW_FORM_ref8 = UnitWrSpec.DW_FORM_ref8 /\
  Constants.DW_FORM_sec_offset = UnitWrSpec.DW_FORM_sec_offset /\
  Constants.DW_FORM_exprloc = UnitWrSpec.DW_FORM_exprloc /\
  Constants.DW_FORM_flag_present = UnitWrSpec.DW_FORM_flag_present /\
  Constants.DW_FORM_ref_sup4 = UnitWrSpec.DW_FORM_ref_sup4 /\
  Constants.DW_FORM_strp_sup = UnitWrSpec.DW_FORM_strp_sup /\
  Constants.DW_FORM_data16 = UnitWrSpec.DW_FORM_data16 /\
  Constants.DW_FORM_line_strp = UnitWrSpec.DW_FORM_line_strp /\
  Constants.DW_FORM_ref_sig8 = UnitWrSpec.DW_FORM_ref_sig8 /\
  Constants.DW_FORM_implicit_const = UnitWrSpec.DW_FORM_implicit_const /\
  Constants.DW_FORM_ref_sup8 = UnitWrSpec.DW_FORM_ref_sup8 /\
  Constants.DW_AT_sibling = UnitWrSpec.DW_AT_sibling /\
  Constants.DW_AT_stmt_list = UnitWrSpec.DW_AT_stmt_list /\
  Constants.DW_AT_low_pc = UnitWrSpec.DW_AT_low_pc /\
  Constants.DW_TAG_compile_unit = UnitWrSpec.DW_TAG_compile_unit /\
  Constants.DW_TAG_base_type = UnitWrSpec.DW_TAG_base_type /\
  Constants.DW_UT_compile = UnitWrSpec.DW_UT_compile.
Proof. repeat split; reflexivity. Qed.
