(* Proofs/AbbrevCacheProofs.v — the abbreviation cache is transparent (C20). *)
From Coq Require Import List NArith Bool Lia.
Require Import GV.Model.AbbrevCache.
Import ListNotations.
Local Open Scope N_scope.

Section Proofs.
  Context {A : Type}.
  Variable parse : N -> A.

  (* invariant: every cached entry holds exactly what parsing its key yields *)
  Definition faithful (c : @cache A) : Prop := forall k v, In (k, v) c -> v = parse k.

  Lemma insert_faithful k (c : @cache A) : faithful c -> faithful (insert k (parse k) c).
  Proof.
    induction c as [|[k' v'] r IH]; intros H k0 v0; cbn [insert].
    - intros [E|[]]. inversion E; subst. reflexivity.
    - destruct (k =? k') eqn:E.
      + intros [E'|Hin]; [inversion E'; subst; reflexivity|]. apply (H k0 v0). right. exact Hin.
      + intros [E'|Hin].
        * inversion E'; subst. apply (H k0 v0). left. reflexivity.
        * apply IH; [|exact Hin]. intros k1 v1 H1. apply (H k1 v1). right. exact H1.
  Qed.

  Lemma fold_faithful l : forall c, faithful c ->
    faithful (fold_left (fun c o => insert o (parse o) c) l c).
  Proof.
    induction l as [|o r IH]; intros c H; cbn [fold_left]; [exact H|].
    apply IH. apply insert_faithful. exact H.
  Qed.

  Lemma populate_faithful s offs : faithful (populate parse s offs).
  Proof. unfold populate. apply fold_faithful. intros k v []. Qed.

  Lemma lookup_in k (c : @cache A) v : lookup k c = Some v -> In (k, v) c.
  Proof.
    induction c as [|[k' v'] r IH]; cbn [lookup]; [discriminate|].
    destruct (k =? k') eqn:E.
    - intros H; inversion H; subst. apply N.eqb_eq in E; subst. left. reflexivity.
    - intros H. right. apply IH. exact H.
  Qed.

  Lemma get_faithful (c : @cache A) o : faithful c -> get parse c o = parse o.
  Proof.
    intros H. unfold get. destruct (lookup o c) eqn:E; [|reflexivity].
    apply lookup_in in E. apply (H _ _ E).
  Qed.

  (* The cache never changes a result, whatever the strategy and whatever units were scanned. *)
  Theorem cache_transparent_lemma s offs o : get parse (populate parse s offs) o = parse o.
  Proof. apply get_faithful. apply populate_faithful. Qed.

  (* populating again (any strategy, any unit list) still gives a transparent cache *)
  Theorem cache_repopulate_lemma s1 offs1 s2 offs2 o :
    get parse (populate parse s2 offs2) o = get parse (populate parse s1 offs1) o.
  Proof. rewrite !cache_transparent_lemma. reflexivity. Qed.
End Proofs.

(* what each strategy keeps — the model of `retain` really selects the offsets seen at least twice *)
Lemma retain_second_in prev count l o :
  In o (retain_second prev count l) -> In o l.
Proof.
  revert prev count. induction l as [|x r IH]; intros prev count; cbn [retain_second]; [intros []|].
  destruct ((count =? 0) || negb (prev =? x)); cbn [fst snd].
  - destruct (1 =? 2) eqn:E; [discriminate|]. intros H. right. eapply IH. exact H.
  - destruct (count + 1 =? 2).
    + intros [->|H]; [left; reflexivity|right; eapply IH; exact H].
    + intros H. right. eapply IH. exact H.
Qed.
