(* Proofs/IndexRdProofs.v — C17: the unit-index hash probe, contribution rows and the byte-level
   lemmas (words inside a section) shared with NamesRdProofs / ArangesRdProofs. *)
From Coq Require Import List NArith ZArith Bool Lia ZifyBool ZifyN ZifyNat.
From Coq.Strings Require Import Byte.
Require Import GV.Base.Res GV.Base.Byt GV.Base.Ints GV.Model.Leb GV.Model.Prim.
Require Import GV.Spec.LookupSpec GV.Model.IndexRd.
Import ListNotations.
Local Open Scope N_scope.
Local Arguments N.add : simpl never.
Local Arguments N.sub : simpl never.
Local Arguments N.mul : simpl never.
Local Arguments N.shiftl : simpl never.
Local Arguments N.shiftr : simpl never.
Local Arguments N.land : simpl never.
Local Arguments N.lor : simpl never.
Local Arguments N.pow : simpl never.
Local Arguments N.modulo : simpl never.
Local Arguments N.div : simpl never.
Local Arguments N.of_nat : simpl never.
Local Arguments N.to_nat : simpl never.
Ltac Zify.zify_post_hook ::= Z.div_mod_to_equations.

(* ------------------------------------------------------------------ fixed-width words *)

Lemma pow256 (n : nat) : 2 ^ (8 * N.of_nat (S n)) = 256 * 2 ^ (8 * N.of_nat n).
Proof.
  replace (8 * N.of_nat (S n)) with (8 + 8 * N.of_nat n) by lia.
  rewrite N.pow_add_r. reflexivity.
Qed.

Lemma pow_pos_N (s : N) : 0 < 2 ^ s.
Proof. apply N.neq_0_lt_0. apply N.pow_nonzero. discriminate. Qed.

Lemma le_bytes_length n v : length (le_bytes n v) = n.
Proof. revert v; induction n as [|n IH]; intros v; cbn [le_bytes length]; [reflexivity|now rewrite IH]. Qed.

Lemma enc_un_length n be v : length (enc_un n be v) = n.
Proof. unfold enc_un, be_bytes. destruct be; [rewrite rev_length|]; apply le_bytes_length. Qed.

Lemma le_val_le_bytes n v : le_val (le_bytes n v) = v mod 2 ^ (8 * N.of_nat n).
Proof.
  revert v; induction n as [|n IH]; intros v.
  - cbn [le_bytes le_val]. change (8 * N.of_nat 0) with 0. rewrite N.pow_0_r, N.mod_1_r. reflexivity.
  - cbn [le_bytes le_val]. rewrite IH, b2n_n2b, pow256.
    pose proof (pow_pos_N (8 * N.of_nat n)) as Hp.
    set (P := 2 ^ (8 * N.of_nat n)) in *.
    rewrite N.mod_mul_r by lia. reflexivity.
Qed.

Lemma be_val_be_bytes n v : be_val (be_bytes n v) = v mod 2 ^ (8 * N.of_nat n).
Proof. unfold be_val, be_bytes. rewrite rev_involutive. apply le_val_le_bytes. Qed.

Lemma take_app n (a b : list byte) : length a = n -> take n (a ++ b) = Some (a, b).
Proof.
  revert a; induction n as [|n IH]; intros a Hl.
  - destruct a; [reflexivity|discriminate].
  - destruct a as [|x a]; [discriminate|]. cbn [app take]. rewrite IH by (cbn in Hl; lia). reflexivity.
Qed.

Lemma read_un_enc n be v rest :
  read_un n be (enc_un n be v ++ rest) = Ok (v mod 2 ^ (8 * N.of_nat n), rest).
Proof.
  unfold read_un, read_bytes. rewrite take_app by apply enc_un_length. cbn [bind].
  unfold enc_un. destruct be; [rewrite be_val_be_bytes|rewrite le_val_le_bytes]; reflexivity.
Qed.

Lemma read_un_enc_small n be v rest :
  v < 2 ^ (8 * N.of_nat n) -> read_un n be (enc_un n be v ++ rest) = Ok (v, rest).
Proof. intros H. rewrite read_un_enc, N.mod_small by exact H. reflexivity. Qed.

Lemma take_short n (bs : list byte) : (length bs < n)%nat -> take n bs = None.
Proof.
  revert bs; induction n as [|n IH]; intros bs H; [lia|].
  destruct bs as [|b r]; [reflexivity|]. cbn [take]. rewrite IH by (cbn in H; lia). reflexivity.
Qed.

Lemma take_some n (bs : list byte) : (n <= length bs)%nat ->
  take n bs = Some (firstn n bs, skipn n bs).
Proof.
  revert bs; induction n as [|n IH]; intros bs H; [reflexivity|].
  destruct bs as [|b r]; [cbn in H; lia|]. cbn [take firstn skipn]. rewrite IH by (cbn in H; lia). reflexivity.
Qed.

Lemma read_un_eof n be bs : (length bs < n)%nat -> read_un n be bs = Err EUnexpectedEof.
Proof. intros H. unfold read_un, read_bytes. rewrite take_short by exact H. reflexivity. Qed.

(* read_un never panics and, when it succeeds, consumes exactly n bytes *)
Lemma read_un_cases n be bs :
  (exists v, read_un n be bs = Ok (v, skipn n bs) /\ (n <= length bs)%nat /\ v < 2 ^ (8 * N.of_nat n))
  \/ (read_un n be bs = Err EUnexpectedEof /\ (length bs < n)%nat).
Proof.
  destruct (Nat.le_gt_cases n (length bs)) as [H|H].
  - left. unfold read_un, read_bytes. rewrite take_some by exact H. cbn [bind].
    eexists; split; [reflexivity|]. split; [exact H|].
    assert (Hl : length (firstn n bs) = n) by (rewrite firstn_length; lia).
    assert (Hb : forall l : list byte, le_val l < 2 ^ (8 * N.of_nat (length l))).
    { induction l as [|b l IH]; [cbn; lia|]. cbn [le_val length]. rewrite pow256.
      pose proof (b2n_lt b). lia. }
    destruct be.
    + unfold be_val. specialize (Hb (rev (firstn n bs))). rewrite rev_length, Hl in Hb. exact Hb.
    + specialize (Hb (firstn n bs)). rewrite Hl in Hb. exact Hb.
  - right. split; [apply read_un_eof; exact H|exact H].
Qed.

(* ------------------------------------------------------------------ slices *)

Lemma blen_app a b : blen (a ++ b) = blen a + blen b.
Proof. unfold blen. rewrite app_length. lia. Qed.

Lemma rd_split_app (a b : list byte) : rd_split (blen a) (a ++ b) = Ok (a, b).
Proof.
  unfold rd_split. rewrite blen_app.
  destruct (blen a + blen b <? blen a) eqn:E; [lia|].
  unfold blen. rewrite Nat2N.id, firstn_app, Nat.sub_diag, firstn_all, skipn_app, Nat.sub_diag, skipn_all.
  cbn. now rewrite app_nil_r.
Qed.

Lemma rd_split_app_n n (a b : list byte) : n = blen a -> rd_split n (a ++ b) = Ok (a, b).
Proof. intros ->. apply rd_split_app. Qed.

Lemma rd_skip_app (a b : list byte) : rd_skip (blen a) (a ++ b) = Ok b.
Proof.
  unfold rd_skip. rewrite blen_app.
  destruct (blen a + blen b <? blen a) eqn:E; [lia|].
  unfold blen. rewrite Nat2N.id, skipn_app, Nat.sub_diag, skipn_all. reflexivity.
Qed.

Lemma rd_skip_app_n n (a b : list byte) : n = blen a -> rd_skip n (a ++ b) = Ok b.
Proof. intros ->. apply rd_skip_app. Qed.

Lemma rd_skip_cases n bs :
  (rd_skip n bs = Ok (skipn (N.to_nat n) bs) /\ n <= blen bs) \/ (rd_skip n bs = Err EUnexpectedEof /\ blen bs < n).
Proof. unfold rd_skip. destruct (blen bs <? n) eqn:E; [right|left]; split; (reflexivity || lia). Qed.

Lemma rd_split_cases n bs :
  (rd_split n bs = Ok (firstn (N.to_nat n) bs, skipn (N.to_nat n) bs) /\ n <= blen bs)
  \/ (rd_split n bs = Err EUnexpectedEof /\ blen bs < n).
Proof. unfold rd_split. destruct (blen bs <? n) eqn:E; [right|left]; split; (reflexivity || lia). Qed.

Lemma enc_words_cons n be w ws : enc_words n be (w :: ws) = enc_un n be w ++ enc_words n be ws.
Proof. reflexivity. Qed.

Lemma enc_words_length n be ws : length (enc_words n be ws) = (n * length ws)%nat.
Proof.
  induction ws as [|w ws IH]; [cbn; lia|].
  rewrite enc_words_cons, app_length, enc_un_length, IH. cbn [length]. lia.
Qed.

Lemma enc_words_app n be a b : enc_words n be (a ++ b) = enc_words n be a ++ enc_words n be b.
Proof. unfold enc_words. rewrite map_app, concat_app. reflexivity. Qed.

(* skipping s words of an encoded array *)
Lemma rd_skip_words n be ws tail (s : nat) :
  (s <= length ws)%nat ->
  rd_skip (N.of_nat s * N.of_nat n) (enc_words n be ws ++ tail) = Ok (enc_words n be (skipn s ws) ++ tail).
Proof.
  intros Hs.
  rewrite <- (firstn_skipn s ws) at 1. rewrite enc_words_app, <- app_assoc.
  apply rd_skip_app_n. unfold blen. rewrite enc_words_length, firstn_length, Nat.min_l by lia.
  rewrite Nat2N.inj_mul. lia.
Qed.

(* the s-th word of an encoded array *)
Lemma word_at_words n be ws tail (s : nat) w :
  nth_error ws s = Some w -> w < 2 ^ (8 * N.of_nat n) ->
  exists r, rd_skip (N.of_nat s * N.of_nat n) (enc_words n be ws ++ tail) = Ok r /\
            exists r', read_un n be r = Ok (w, r').
Proof.
  intros Hn Hw.
  assert (Hs : (s < length ws)%nat) by (apply nth_error_Some; congruence).
  eexists; split; [apply rd_skip_words; lia|].
  destruct (nth_error_split ws s Hn) as (l1 & l2 & -> & Hl).
  rewrite <- Hl, skipn_app, skipn_all, Nat.sub_diag. cbn [skipn app].
  rewrite enc_words_cons, <- app_assoc. eexists. apply read_un_enc_small. exact Hw.
Qed.

(* ------------------------------------------------------------------ checked arithmetic *)

Lemma chk_add_ok bits dbg a b : a + b < 2 ^ bits -> chk_add bits dbg a b = Ok (a + b).
Proof. intros H. unfold chk_add. destruct (a + b <? 2 ^ bits) eqn:E; [reflexivity|lia]. Qed.
Lemma chk_mul_ok bits dbg a b : a * b < 2 ^ bits -> chk_mul bits dbg a b = Ok (a * b).
Proof. intros H. unfold chk_mul. destruct (a * b <? 2 ^ bits) eqn:E; [reflexivity|lia]. Qed.
Lemma chk_sub_ok bits dbg a b : b <= a -> chk_sub bits dbg a b = Ok (a - b).
Proof. intros H. unfold chk_sub. destruct (b <=? a) eqn:E; [reflexivity|lia]. Qed.

Lemma land_le_r a b : N.land a b <= b.
Proof.
  assert (H : N.lor (N.ldiff b a) (N.land b a) = b) by apply N.lor_ldiff_and.
  assert (Hd : N.land (N.ldiff b a) (N.land b a) = 0).
  { apply N.bits_inj_0. intros i. rewrite !N.land_spec, N.ldiff_spec.
    destruct (N.testbit b i), (N.testbit a i); reflexivity. }
  rewrite <- N.lxor_lor in H by exact Hd.
  rewrite <- N.add_nocarry_lxor in H by exact Hd.
  rewrite N.land_comm. clear Hd.
  generalize dependent (N.ldiff b a). generalize (N.land b a). intros; lia.
Qed.

Lemma lor_1_le a : N.lor a 1 <= a + 1.
Proof. destruct a as [|p]; [vm_compute; discriminate|]. destruct p; unfold N.lor; cbn [Pos.lor]; lia. Qed.

Lemma lor_1_odd a : N.lor a 1 mod 2 = 1.
Proof. destruct a as [|p]; [reflexivity|]. destruct p; unfold N.lor; cbn [Pos.lor]; lia. Qed.

(* ------------------------------------------------------------------ find: termination and panic freedom
   for ANY index record (any bytes in the tables, any slot count that fits the u32 field) *)

Lemma pow32_lt_64 : 2 ^ 32 * 8 < 2 ^ 64. Proof. reflexivity. Qed.

Lemma find_probe_total dbg be ix id h :
  h < 2 ^ 32 -> exists r, find_probe dbg be ix id h = Ok r.
Proof.
  intros Hh. unfold find_probe.
  assert (H8 : h * 8 < 2 ^ 64) by (change (2 ^ 64) with 18446744073709551616; change (2 ^ 32) with 4294967296 in Hh; lia).
  assert (H4 : h * 4 < 2 ^ 64) by (change (2 ^ 64) with 18446744073709551616; change (2 ^ 32) with 4294967296 in Hh; lia).
  rewrite (chk_mul_ok 64 dbg h 8 H8). cbn [bind].
  destruct (rd_skip (h * 8) (ix_hash_ids ix)) as [r| | |]; try (eexists; reflexivity).
  destruct (read_un 8 be r) as [[hid r']| | |]; try (eexists; reflexivity).
  destruct (hid =? id).
  - rewrite (chk_mul_ok 64 dbg h 4 H4). cbn [bind].
    destruct (rd_skip (h * 4) (ix_hash_rows ix)) as [r2| | |]; try (eexists; reflexivity).
    destruct (read_un 4 be r2) as [[row r3]| | |]; eexists; reflexivity.
  - destruct (hid =? 0); eexists; reflexivity.
Qed.

Lemma find_loop_total dbg be ix id mask hash2 :
  mask < 2 ^ 32 -> hash2 <= 2 ^ 32 ->
  forall n h, h < 2 ^ 32 ->
  exists r c, find_loop dbg be ix id mask hash2 n h = Ok (r, c) /\ c <= N.of_nat n.
Proof.
  intros Hm H2. induction n as [|n IH]; intros h Hh.
  - exists None, 0. split; [reflexivity|lia].
  - cbn [find_loop]. destruct (find_probe_total dbg be ix id h Hh) as [p Hp]. rewrite Hp. cbn [bind].
    destruct p as [r|].
    + exists r, 1. split; [reflexivity|lia].
    + assert (Hs : h + hash2 < 2 ^ 64)
        by (change (2 ^ 64) with 18446744073709551616; change (2 ^ 32) with 4294967296 in *; lia).
      rewrite (chk_add_ok 64 dbg h hash2 Hs). cbn [bind].
      assert (Hl : N.land (h + hash2) mask < 2 ^ 32) by (pose proof (land_le_r (h + hash2) mask); lia).
      destruct (IH _ Hl) as (r & c & Hr & Hc). rewrite Hr. cbn [bind].
      exists r, (c + 1). split; [reflexivity|lia].
Qed.

Lemma index_find_probes_total dbg be ix id :
  ix_slot_count ix < 2 ^ 32 ->
  exists r c, index_find_probes dbg be ix id = Ok (r, c) /\ c <= ix_slot_count ix.
Proof.
  intros Hs. unfold index_find_probes.
  destruct ((ix_slot_count ix =? 0) || (id =? 0)) eqn:E0.
  - exists None, 0. split; [reflexivity|lia].
  - rewrite chk_sub_ok by lia. cbn [bind].
    set (mask := ix_slot_count ix - 1).
    assert (Hm : mask < 2 ^ 32) by (unfold mask; lia).
    assert (H2 : N.lor (N.land (N.shiftr id 32) mask) 1 <= 2 ^ 32).
    { pose proof (lor_1_le (N.land (N.shiftr id 32) mask)). pose proof (land_le_r (N.shiftr id 32) mask). lia. }
    assert (H1 : N.land id mask < 2 ^ 32) by (pose proof (land_le_r id mask); lia).
    destruct (find_loop_total dbg be ix id mask _ Hm H2 (N.to_nat (ix_slot_count ix)) _ H1) as (r & c & Hr & Hc).
    exists r, c. split; [exact Hr|lia].
Qed.

Lemma index_find_total dbg be ix id :
  ix_slot_count ix < 2 ^ 32 -> exists r, index_find dbg be ix id = Ok r.
Proof.
  intros Hs. destruct (index_find_probes_total dbg be ix id Hs) as (r & c & Hr & _).
  unfold index_find. rewrite Hr. exists r. reflexivity.
Qed.

(* id 0 is the unused-slot marker: never found, whatever the table *)
Lemma index_find_zero dbg be ix : index_find dbg be ix 0 = Ok None.
Proof. unfold index_find, index_find_probes. rewrite orb_true_r. reflexivity. Qed.

(* ------------------------------------------------------------------ tables built by insertion *)

Lemma upd_length {A} (l : list A) n x : length (upd l n x) = length l.
Proof. revert n; induction l as [|a l IH]; intros [|n]; cbn; auto. Qed.

Lemma nth_error_upd_same {A} (l : list A) n x : (n < length l)%nat -> nth_error (upd l n x) n = Some x.
Proof. revert n; induction l as [|a l IH]; intros [|n] H; cbn in *; try lia; auto. apply IH; lia. Qed.

Lemma nth_error_upd_other {A} (l : list A) n m x : n <> m -> nth_error (upd l n x) m = nth_error l m.
Proof.
  revert n m; induction l as [|a l IH]; intros [|n] [|m] H; cbn; auto; try congruence.
Qed.

Lemma empty_table_length slots : length (empty_table slots) = N.to_nat slots.
Proof. unfold empty_table. apply repeat_length. Qed.

Lemma probe_lt slots id j : slots <> 0 -> probe slots id j < slots.
Proof. intros H. unfold probe. apply N.mod_lt. exact H. Qed.

(* every used slot sits at the first position of its id's probe sequence that was neither unused nor
   holding that id *)
Definition placed (slots : N) (t : table) : Prop :=
  forall s id row, nth_error t s = Some (id, row) -> id <> 0 ->
    exists j, j < slots /\ N.to_nat (probe slots id j) = s /\
      forall i, i < j -> exists x, slot_id t (probe slots id i) = Some x /\ x <> 0 /\ x <> id.

Definition in_range (t : table) : Prop := forall e, In e t -> fst e < 2 ^ 64 /\ snd e < 2 ^ 32.

Lemma slot_id_nth t s x : slot_id t s = Some x <-> exists r, nth_error t (N.to_nat s) = Some (x, r).
Proof.
  unfold slot_id. destruct (nth_error t (N.to_nat s)) as [[a b]|]; cbn; split.
  - intros [= ->]. eauto.
  - intros [r [= -> _]]. reflexivity.
  - discriminate.
  - intros [r H]. discriminate.
Qed.

Lemma In_upd {A} (l : list A) n x e : In e (upd l n x) -> e = x \/ In e l.
Proof.
  revert n; induction l as [|a l IH]; intros [|n]; cbn; auto.
  - intros [H|H]; auto.
  - intros [H|H]; auto. destruct (IH _ H); auto.
Qed.

Lemma built_inv slots t :
  built slots t -> length t = N.to_nat slots /\ placed slots t /\ in_range t.
Proof.
  induction 1 as [|t id row t' Hb (Hlen & Hpl & Hrg) Hid Hid64 Hrow Hfresh Hins].
  - split; [apply empty_table_length|]. split.
    + intros s id row Hn Hid. unfold empty_table in Hn. apply nth_error_In, repeat_spec in Hn.
      inversion Hn; subst. congruence.
    + intros e He. unfold empty_table in He. apply repeat_spec in He. subst. cbn. split; reflexivity.
  - destruct Hins as (j & Hj & Hbefore & Hzero & ->).
    assert (Hs0 : slots <> 0) by lia.
    set (p := probe slots id j) in *.
    assert (Hp : (N.to_nat p < length t)%nat) by (pose proof (probe_lt slots id j Hs0); fold p in H; lia).
    split; [rewrite upd_length; exact Hlen|]. split.
    + intros s id0 row0 Hn Hid0.
      destruct (Nat.eq_dec (N.to_nat p) s) as [<-|Hne].
      * rewrite nth_error_upd_same in Hn by exact Hp. inversion Hn; subst id0 row0.
        exists j. split; [exact Hj|]. split; [reflexivity|].
        intros i Hi. destruct (Hbefore i Hi) as (x & Hx & Hx0).
        assert (Hpi : N.to_nat (probe slots id i) <> N.to_nat p).
        { intros Heq. apply N2Nat.inj in Heq. rewrite Heq in Hx. rewrite Hx in Hzero. congruence. }
        exists x. split; [|split; [exact Hx0|]].
        -- unfold slot_id in *. rewrite nth_error_upd_other by congruence. exact Hx.
        -- intros ->. apply slot_id_nth in Hx. destruct Hx as [r Hr]. apply nth_error_In in Hr.
           exact (Hfresh r Hr).
      * rewrite nth_error_upd_other in Hn by exact Hne.
        destruct (Hpl s id0 row0 Hn Hid0) as (j0 & Hj0 & Hs & Hpath).
        exists j0. split; [exact Hj0|]. split; [exact Hs|].
        intros i Hi. destruct (Hpath i Hi) as (x & Hx & Hx0 & Hxid).
        exists x. split; [|split; assumption].
        assert (Hpi : N.to_nat (probe slots id0 i) <> N.to_nat p).
        { intros Heq. apply N2Nat.inj in Heq. rewrite Heq in Hx. rewrite Hx in Hzero. congruence. }
        unfold slot_id in *. rewrite nth_error_upd_other by congruence. exact Hx.
    + intros e He. apply In_upd in He. destruct He as [->|He]; [cbn; split; assumption|apply Hrg; exact He].
Qed.

(* the executable insertion is an instance of the relation *)
Lemma insert_at_inserted slots t id row : forall fuel j0 t',
  (forall i, i < j0 -> exists x, slot_id t (probe slots id i) = Some x /\ x <> 0) ->
  j0 + N.of_nat fuel <= slots ->
  insert_at fuel slots t id row j0 = Some t' -> inserted slots t id row t'.
Proof.
  induction fuel as [|fuel IH]; intros j0 t' Hbefore Hle Hins; [discriminate|].
  cbn [insert_at] in Hins.
  destruct (slot_id t (probe slots id j0)) as [x|] eqn:Ex; [|discriminate].
  destruct (x =? 0) eqn:E0.
  - inversion Hins; subst t'. exists j0. split; [lia|]. split; [exact Hbefore|].
    split; [|reflexivity]. rewrite Ex. f_equal. lia.
  - apply (IH (j0 + 1) t'); [|lia|exact Hins].
    intros i Hi. destruct (N.eq_dec i j0) as [->|Hne].
    + exists x. split; [exact Ex|lia].
    + apply Hbefore. lia.
Qed.

Lemma insert_inserted slots t id row t' : insert slots t id row = Some t' -> inserted slots t id row t'.
Proof.
  unfold insert. apply insert_at_inserted; [intros i Hi; lia|lia].
Qed.

(* ------------------------------------------------------------------ find on an encoded table *)

Lemma land_mask k x : N.land x (2 ^ k - 1) = x mod 2 ^ k.
Proof. rewrite <- N.land_ones. f_equal. rewrite N.ones_equiv. lia. Qed.

Lemma probe_0 slots id : slots <> 0 -> probe slots id 0 = id mod slots.
Proof. intros H. unfold probe. rewrite N.mul_0_l, N.add_0_r. apply N.mod_mod. exact H. Qed.

Lemma probe_succ slots id j : slots <> 0 ->
  (probe slots id j + probe_step slots id) mod slots = probe slots id (j + 1).
Proof.
  intros H. unfold probe. rewrite N.add_mod_idemp_l by exact H. f_equal. lia.
Qed.

Section FindCorrect.
  Variables (dbg be : bool) (k : N) (t : table) (ix : unit_index).
  Hypothesis Hk : k < 32.
  Hypothesis Hlen : length t = N.to_nat (2 ^ k).
  Hypothesis Hrg : in_range t.
  Hypothesis Hsc : ix_slot_count ix = 2 ^ k.
  Hypothesis Hids : ix_hash_ids ix = enc_words 8 be (map fst t).
  Hypothesis Hrows : ix_hash_rows ix = enc_words 4 be (map snd t).

  Let slots_lt : 2 ^ k < 2 ^ 32.
  Proof. apply N.pow_lt_mono_r; lia. Qed.
  Let slots_nz : 2 ^ k <> 0.
  Proof. apply N.pow_nonzero. discriminate. Qed.

  Lemma find_probe_spec id h a r :
    h < 2 ^ k -> nth_error t (N.to_nat h) = Some (a, r) ->
    find_probe dbg be ix id h =
      Ok (if a =? id then Some (Some r) else if a =? 0 then Some None else None).
  Proof.
    intros Hh Hn. unfold find_probe.
    assert (Hr : a < 2 ^ 64 /\ r < 2 ^ 32) by (apply (Hrg (a, r)); eapply nth_error_In; exact Hn).
    assert (H8 : h * 8 < 2 ^ 64)
      by (change (2 ^ 64) with 18446744073709551616; change (2 ^ 32) with 4294967296 in slots_lt; lia).
    assert (H4 : h * 4 < 2 ^ 64)
      by (change (2 ^ 64) with 18446744073709551616; change (2 ^ 32) with 4294967296 in slots_lt; lia).
    rewrite (chk_mul_ok 64 dbg h 8 H8). cbn [bind].
    assert (Hf : nth_error (map fst t) (N.to_nat h) = Some a) by (rewrite nth_error_map, Hn; reflexivity).
    assert (Hs : nth_error (map snd t) (N.to_nat h) = Some r) by (rewrite nth_error_map, Hn; reflexivity).
    destruct (word_at_words 8 be (map fst t) [] (N.to_nat h) a Hf) as (r1 & Hr1 & r1' & Hr1').
    { change (8 * N.of_nat 8) with 64. tauto. }
    rewrite app_nil_r, N2Nat.id in Hr1. change (N.of_nat 8) with 8 in Hr1.
    rewrite Hids, Hr1, Hr1'.
    destruct (a =? id) eqn:Ea.
    - rewrite (chk_mul_ok 64 dbg h 4 H4). cbn [bind].
      destruct (word_at_words 4 be (map snd t) [] (N.to_nat h) r Hs) as (r2 & Hr2 & r2' & Hr2').
      { change (8 * N.of_nat 4) with 32. tauto. }
      rewrite app_nil_r, N2Nat.id in Hr2. change (N.of_nat 4) with 4 in Hr2.
      rewrite Hrows, Hr2, Hr2'. reflexivity.
    - destruct (a =? 0); reflexivity.
  Qed.

  Lemma slot_exists h : h < 2 ^ k -> exists a r, nth_error t (N.to_nat h) = Some (a, r).
  Proof.
    intros Hh. destruct (nth_error t (N.to_nat h)) as [[a r]|] eqn:E; [eauto|].
    apply nth_error_None in E. lia.
  Qed.

  Let mask := 2 ^ k - 1.

  Lemma find_loop_step id n h a r :
    h < 2 ^ k -> nth_error t (N.to_nat h) = Some (a, r) -> a <> id -> a <> 0 ->
    find_loop dbg be ix id mask (probe_step (2 ^ k) id) (S n) h =
      let* (res, cnt) := find_loop dbg be ix id mask (probe_step (2 ^ k) id) n
                           ((h + probe_step (2 ^ k) id) mod 2 ^ k) in Ok (res, cnt + 1).
  Proof.
    intros Hh Hn Hid H0. cbn [find_loop]. rewrite (find_probe_spec id h a r Hh Hn).
    destruct (a =? id) eqn:E1; [lia|]. destruct (a =? 0) eqn:E2; [lia|]. cbn [bind].
    assert (Hst : probe_step (2 ^ k) id <= 2 ^ 32).
    { unfold probe_step. pose proof (lor_1_le ((id / 2 ^ 32) mod 2 ^ k)).
      pose proof (N.mod_lt (id / 2 ^ 32) (2 ^ k) slots_nz). lia. }
    rewrite chk_add_ok
      by (change (2 ^ 64) with 18446744073709551616; change (2 ^ 32) with 4294967296 in *; lia).
    cbn [bind]. unfold mask. rewrite land_mask. reflexivity.
  Qed.

  (* the entry placed at step j of its probe sequence is found after j + 1 probes *)
  Lemma find_loop_hit id row j :
    nth_error t (N.to_nat (probe (2 ^ k) id j)) = Some (id, row) ->
    (forall i, i < j -> exists x, slot_id t (probe (2 ^ k) id i) = Some x /\ x <> 0 /\ x <> id) ->
    forall (d : nat) j0 n, j0 + N.of_nat d = j -> (d < n)%nat ->
    find_loop dbg be ix id mask (probe_step (2 ^ k) id) n (probe (2 ^ k) id j0) = Ok (Some row, N.of_nat d + 1).
  Proof.
    intros Hj Hpath. induction d as [|d IH]; intros j0 n Hd Hn.
    - assert (j0 = j) by lia. subst j0. destruct n as [|n]; [lia|].
      cbn [find_loop]. rewrite (find_probe_spec id _ id row (probe_lt _ _ _ slots_nz) Hj).
      rewrite N.eqb_refl. reflexivity.
    - destruct n as [|n]; [lia|].
      destruct (Hpath j0 ltac:(lia)) as (x & Hx & Hx0 & Hxid).
      apply slot_id_nth in Hx. destruct Hx as [r Hr].
      rewrite (find_loop_step id n _ x r (probe_lt _ _ _ slots_nz) Hr Hxid Hx0).
      rewrite probe_succ by exact slots_nz.
      rewrite (IH (j0 + 1) n) by lia. cbn [bind]. f_equal. f_equal. lia.
  Qed.

  (* whatever the loop reports as found is an entry of the table *)
  Lemma find_loop_sound id : forall n h row c,
    h < 2 ^ k ->
    find_loop dbg be ix id mask (probe_step (2 ^ k) id) n h = Ok (Some row, c) -> In (id, row) t.
  Proof.
    induction n as [|n IH]; intros h row c Hh Hf; [discriminate|].
    destruct (slot_exists h Hh) as (a & r & Hn).
    destruct (N.eq_dec a id) as [->|Hne].
    - cbn [find_loop] in Hf. rewrite (find_probe_spec id h id r Hh Hn), N.eqb_refl in Hf.
      cbn [bind] in Hf. inversion Hf; subst. eapply nth_error_In; exact Hn.
    - destruct (N.eq_dec a 0) as [->|H0].
      + cbn [find_loop] in Hf. rewrite (find_probe_spec id h 0 r Hh Hn) in Hf.
        destruct (0 =? id) eqn:E; [lia|]. cbn in Hf. discriminate.
      + rewrite (find_loop_step id n h a r Hh Hn Hne H0) in Hf.
        destruct (find_loop dbg be ix id mask (probe_step (2 ^ k) id) n
                    ((h + probe_step (2 ^ k) id) mod 2 ^ k)) as [[res cnt]| | |] eqn:E; try discriminate.
        cbn [bind] in Hf. inversion Hf; subst.
        eapply IH; [|exact E]. apply N.mod_lt. exact slots_nz.
  Qed.

  Lemma index_find_probes_unfold id : id <> 0 ->
    index_find_probes dbg be ix id =
      find_loop dbg be ix id mask (probe_step (2 ^ k) id) (N.to_nat (2 ^ k)) (probe (2 ^ k) id 0).
  Proof.
    intros Hid0. unfold index_find_probes. rewrite Hsc.
    destruct ((2 ^ k =? 0) || (id =? 0)) eqn:E; [lia|].
    rewrite chk_sub_ok by lia. cbn [bind]. fold mask. unfold mask.
    rewrite !land_mask, probe_0 by exact slots_nz.
    unfold probe_step. rewrite N.shiftr_div_pow2. reflexivity.
  Qed.

  Theorem find_correct id row :
    placed (2 ^ k) t -> id <> 0 ->
    (index_find dbg be ix id = Ok (Some row) <-> In (id, row) t).
  Proof.
    intros Hpl Hid. unfold index_find. rewrite index_find_probes_unfold by exact Hid. split.
    - intros Hf.
      destruct (find_loop dbg be ix id mask (probe_step (2 ^ k) id) (N.to_nat (2 ^ k)) (probe (2 ^ k) id 0))
        as [[res cnt]| | |] eqn:E; try discriminate.
      cbn [bind] in Hf. inversion Hf; subst.
      eapply find_loop_sound; [|exact E]. apply probe_lt. exact slots_nz.
    - intros Hin. apply In_nth_error in Hin. destruct Hin as [s Hs].
      destruct (Hpl s id row Hs Hid) as (j & Hj & Hsj & Hpath). subst s.
      rewrite (find_loop_hit id row j Hs Hpath (N.to_nat j) 0 (N.to_nat (2 ^ k))) by lia.
      reflexivity.
  Qed.

  (* number of probes for a present key: its position in its probe sequence, at most slot_count *)
  Theorem find_absent id :
    id <> 0 -> (forall row, ~ In (id, row) t) -> index_find dbg be ix id = Ok None.
  Proof.
    intros Hid Habs.
    assert (Hs : ix_slot_count ix < 2 ^ 32) by (rewrite Hsc; exact slots_lt).
    destruct (index_find_total dbg be ix id Hs) as [[row|] Hr]; [|exact Hr].
    exfalso. unfold index_find in Hr. rewrite index_find_probes_unfold in Hr by exact Hid.
    destruct (find_loop dbg be ix id mask (probe_step (2 ^ k) id) (N.to_nat (2 ^ k)) (probe (2 ^ k) id 0))
      as [[res cnt]| | |] eqn:E; try discriminate.
    cbn [bind] in Hr. inversion Hr; subst.
    eapply Habs, find_loop_sound; [|exact E]. apply probe_lt. exact slots_nz.
  Qed.
End FindCorrect.

(* ------------------------------------------------------------------ contribution rows *)

Lemma sect_iter_words be : forall ss os zs t1 t2,
  length os = length ss -> length zs = length ss ->
  Forall (fun v => v < 2 ^ 32) os -> Forall (fun v => v < 2 ^ 32) zs ->
  sect_iter be ss (enc_words 4 be os ++ t1) (enc_words 4 be zs ++ t2) = combine (combine ss os) zs.
Proof.
  induction ss as [|s ss IH]; intros os zs t1 t2 Ho Hz Fo Fz.
  - destruct os; [|discriminate]. destruct zs; [|discriminate]. reflexivity.
  - destruct os as [|o os]; [discriminate|]. destruct zs as [|z zs]; [discriminate|].
    inversion Fo; subst. inversion Fz; subst.
    cbn [sect_iter]. rewrite !enc_words_cons, <- !app_assoc.
    rewrite !read_un_enc_small by (change (8 * N.of_nat 4) with 32; assumption).
    cbn [combine]. f_equal. apply IH; cbn in *; try lia; assumption.
Qed.

Lemma in_firstn {A} (x : A) n l : In x (firstn n l) -> In x l.
Proof. revert l; induction n as [|n IH]; intros [|a l]; cbn; auto; try tauto. intros [H|H]; auto. Qed.
Lemma in_skipn {A} (x : A) n l : In x (skipn n l) -> In x l.
Proof. revert l; induction n as [|n IH]; intros [|a l]; cbn; auto. Qed.
Lemma Forall_firstn {A} (P : A -> Prop) n l : Forall P l -> Forall P (firstn n l).
Proof. intros H. apply Forall_forall. intros x Hx. eapply Forall_forall; [exact H|]. eapply in_firstn; exact Hx. Qed.
Lemma Forall_skipn {A} (P : A -> Prop) n l : Forall P l -> Forall P (skipn n l).
Proof. intros H. apply Forall_forall. intros x Hx. eapply Forall_forall; [exact H|]. eapply in_skipn; exact Hx. Qed.

Theorem sections_spec dbg be ix (offs szs : list N) row :
  ix_section_count ix <= 8 -> length (ix_sections ix) = 8%nat ->
  ix_unit_count ix < 2 ^ 32 ->
  ix_offsets ix = enc_words 4 be offs -> ix_sizes ix = enc_words 4 be szs ->
  length offs = (N.to_nat (ix_unit_count ix) * N.to_nat (ix_section_count ix))%nat ->
  length szs = (N.to_nat (ix_unit_count ix) * N.to_nat (ix_section_count ix))%nat ->
  Forall (fun v => v < 2 ^ 32) offs -> Forall (fun v => v < 2 ^ 32) szs ->
  index_sections dbg be ix row =
    if (row =? 0) || (ix_unit_count ix <? row) then Err EInvalidIndexRow
    else let c := N.to_nat (ix_section_count ix) in
         let k := (N.to_nat (row - 1) * c)%nat in
         Ok (combine (combine (firstn c (ix_sections ix)) (firstn c (skipn k offs)))
                     (firstn c (skipn k szs))).
Proof.
  intros Hc Hss Hu Eo Ez Lo Lz Fo Fz. unfold index_sections.
  destruct ((row =? 0) || (ix_unit_count ix <? row)) eqn:Erow; [reflexivity|].
  assert (Hrow : 1 <= row <= ix_unit_count ix) by lia.
  change (2 ^ 32) with 4294967296 in Hu.
  rewrite chk_sub_ok by lia. cbn [bind].
  rewrite chk_mul_ok by (change (2 ^ 64) with 18446744073709551616; nia). cbn [bind].
  rewrite chk_mul_ok by (change (2 ^ 64) with 18446744073709551616; nia). cbn [bind].
  set (c := N.to_nat (ix_section_count ix)).
  set (k := (N.to_nat (row - 1) * c)%nat).
  assert (Hk : (k + c <= length offs)%nat).
  { rewrite Lo. unfold k. fold c.
    replace (N.to_nat (row - 1) * c + c)%nat with ((N.to_nat (row - 1) + 1) * c)%nat by lia.
    apply Nat.mul_le_mono_r. lia. }
  assert (Hro : (row - 1) * ix_section_count ix * 4 = N.of_nat k * N.of_nat 4).
  { unfold k, c. rewrite Nat2N.inj_mul, !N2Nat.id. reflexivity. }
  rewrite Hro, Eo, Ez.
  rewrite <- (app_nil_r (enc_words 4 be offs)), <- (app_nil_r (enc_words 4 be szs)).
  rewrite !rd_skip_words by lia. cbn [bind].
  rewrite Hss. destruct (N.of_nat 8 <? ix_section_count ix) eqn:E8; [lia|].
  f_equal.
  rewrite <- (firstn_skipn c (skipn k offs)) at 1. rewrite <- (firstn_skipn c (skipn k szs)) at 1.
  rewrite !enc_words_app, <- !app_assoc.
  apply sect_iter_words.
  - rewrite !firstn_length, skipn_length. lia.
  - rewrite !firstn_length, skipn_length. lia.
  - apply Forall_firstn, Forall_skipn. exact Fo.
  - apply Forall_firstn, Forall_skipn. exact Fz.
Qed.

(* the column-kind tables of parse are the DW_SECT tables of the standard *)
Definition kind_of_code (c : N) : option isect :=
  if c =? 0 then Some SAbbrev else if c =? 1 then Some SInfo else if c =? 2 then Some SLine
  else if c =? 3 then Some SLoc else if c =? 4 then Some SLocLists else if c =? 5 then Some SMacinfo
  else if c =? 6 then Some SMacro else if c =? 7 then Some SRngLists else if c =? 8 then Some SStrOffsets
  else if c =? 9 then Some STypes else None.

Lemma kind_of_code_isect s : kind_of_code (isect_code s) = Some s.
Proof. destruct s; reflexivity. Qed.

Lemma sect_v2_table n :
  sect_v2 n = match assoc n DW_SECT_V2 with Some c => kind_of_code c | None => None end.
Proof.
  unfold sect_v2, DW_SECT_V2, assoc.
  rewrite (N.eqb_sym 1 n), (N.eqb_sym 2 n), (N.eqb_sym 3 n), (N.eqb_sym 4 n), (N.eqb_sym 5 n),
          (N.eqb_sym 6 n), (N.eqb_sym 7 n), (N.eqb_sym 8 n).
  repeat match goal with |- context [n =? ?c] => destruct (n =? c); [reflexivity|] end. reflexivity.
Qed.

Lemma sect_v5_table n :
  sect_v5 n = match assoc n DW_SECT_V5 with Some c => kind_of_code c | None => None end.
Proof.
  unfold sect_v5, DW_SECT_V5, assoc.
  rewrite (N.eqb_sym 1 n), (N.eqb_sym 3 n), (N.eqb_sym 4 n), (N.eqb_sym 5 n),
          (N.eqb_sym 6 n), (N.eqb_sym 7 n), (N.eqb_sym 8 n).
  repeat match goal with |- context [n =? ?c] => destruct (n =? c); [reflexivity|] end. reflexivity.
Qed.

(* ------------------------------------------------------------------ parse: post-condition for ALL byte strings *)

Definition ix_wf (ix : unit_index) : Prop :=
  ix_slot_count ix < 2 ^ 32 /\ ix_unit_count ix < 2 ^ 32 /\ ix_section_count ix <= 8 /\
  length (ix_sections ix) = 8%nat /\
  blen (ix_hash_ids ix) = ix_slot_count ix * 8 /\ blen (ix_hash_rows ix) = ix_slot_count ix * 4 /\
  blen (ix_offsets ix) = ix_unit_count ix * ix_section_count ix * 4 /\
  blen (ix_sizes ix) = ix_unit_count ix * ix_section_count ix * 4.

(* an outcome that is neither Panic nor OutOfFuel, and satisfies P when it is Ok *)
Definition post {A} (P : A -> Prop) (r : res A) : Prop :=
  match r with Ok a => P a | Err _ => True | Panic => False | OutOfFuel => False end.

Lemma post_bind {A B} (P : A -> Prop) (Q : B -> Prop) (r : res A) (f : A -> res B) :
  post P r -> (forall a, r = Ok a -> P a -> post Q (f a)) -> post Q (bind r f).
Proof. destruct r; cbn; intros H1 H2; auto. Qed.

Lemma post_weaken {A} (P Q : A -> Prop) r : post P r -> (forall a, P a -> Q a) -> post Q r.
Proof. destruct r; cbn; auto. Qed.

Lemma post_read_un n be bs :
  post (fun p => fst p < 2 ^ (8 * N.of_nat n) /\ snd p = skipn n bs /\ (n <= length bs)%nat) (read_un n be bs).
Proof.
  destruct (read_un_cases n be bs) as [(v & H & Hl & Hv)|(H & _)]; rewrite H; cbn; auto.
Qed.

Lemma post_rd_split n bs :
  post (fun p => fst p = firstn (N.to_nat n) bs /\ snd p = skipn (N.to_nat n) bs /\ n <= blen bs) (rd_split n bs).
Proof. destruct (rd_split_cases n bs) as [(H & Hl)|(H & _)]; rewrite H; cbn; auto. Qed.

Lemma post_rd_skip n bs :
  post (fun r => r = skipn (N.to_nat n) bs /\ n <= blen bs) (rd_skip n bs).
Proof. destruct (rd_skip_cases n bs) as [(H & Hl)|(H & _)]; rewrite H; cbn; auto. Qed.

Lemma post_read_sections be version : forall n bs,
  post (fun p => length (fst p) = n) (read_sections be version n bs).
Proof.
  induction n as [|n IH]; intros bs; [cbn; reflexivity|].
  cbn [read_sections].
  eapply post_bind; [apply post_read_un|]. intros [code r] _ _.
  eapply post_bind with (P := fun _ => True).
  { destruct (version =? 2); [destruct (sect_v2 code)|destruct (sect_v5 code)]; cbn; auto. }
  intros s _ _. eapply post_bind; [apply IH|]. intros [ss r'] _ Hl. cbn in *. lia.
Qed.

Lemma blen_firstn n bs : n <= blen bs -> blen (firstn (N.to_nat n) bs) = n.
Proof. unfold blen. intros H. rewrite firstn_length. lia. Qed.

Theorem index_parse_post dbg be bs : post ix_wf (index_parse dbg be bs).
Proof.
  unfold index_parse. destruct bs as [|b0 bs0].
  { cbn. unfold ix_wf; cbn. repeat split; try reflexivity; try lia. }
  set (bs := b0 :: bs0).
  eapply post_bind; [apply post_read_un|]. intros [v32 i0] _ _.
  eapply post_bind with (P := fun _ => True).
  { destruct (v32 =? 2); [exact I|].
    eapply post_bind; [apply post_read_un|]. intros [v16 r] _ _. destruct (v16 =? 5); exact I. }
  intros version _ _.
  eapply post_bind; [apply post_read_un|]. intros [sc i1] _ (Hsc & _ & _).
  eapply post_bind; [apply post_read_un|]. intros [uc i2] _ (Huc & _ & _).
  eapply post_bind; [apply post_read_un|]. intros [slots i3] _ (Hsl & _ & _).
  cbn [fst snd] in *. change (8 * N.of_nat 4) with 32 in *.
  change (2 ^ 32) with 4294967296 in *.
  eapply post_bind with (P := fun _ => True).
  { destruct (slots =? 0) eqn:E; [exact I|]. rewrite chk_sub_ok by lia. exact I. }
  intros bad _ _. destruct bad; [exact I|].
  rewrite chk_mul_ok by (change (2 ^ 64) with 18446744073709551616; lia). cbn [bind].
  eapply post_bind; [apply post_rd_split|]. intros [ids i4] _ (Hids & _ & Hidl). cbn [fst snd] in *.
  rewrite chk_mul_ok by (change (2 ^ 64) with 18446744073709551616; lia). cbn [bind].
  eapply post_bind; [apply post_rd_split|]. intros [rows i5] _ (Hrows & _ & Hrowl). cbn [fst snd] in *.
  unfold SECTION_COUNT_MAX. destruct (8 <? sc) eqn:E8; [exact I|].
  eapply post_bind; [apply post_read_sections|]. intros [ss i6] _ Hss. cbn [fst snd] in *.
  rewrite chk_mul_ok by (change (2 ^ 64) with 18446744073709551616; nia). cbn [bind].
  rewrite chk_mul_ok by (change (2 ^ 64) with 18446744073709551616; nia). cbn [bind].
  eapply post_bind; [apply post_rd_split|]. intros [offs i7] _ (Hoffs & _ & Hoffl). cbn [fst snd] in *.
  eapply post_bind; [apply post_rd_split|]. intros [szs i8] _ (Hszs & _ & Hszl). cbn [fst snd] in *.
  cbn [post]. unfold ix_wf. cbn.
  change (2 ^ 32) with 4294967296.
  repeat split; try lia.
  - rewrite app_length, repeat_length. change (match length ss with O => 8 | S _ => _ end)%nat with (8 - length ss)%nat. lia.
  - subst ids. apply blen_firstn. exact Hidl.
  - subst rows. apply blen_firstn. exact Hrowl.
  - subst offs. apply blen_firstn. exact Hoffl.
  - subst szs. apply blen_firstn. exact Hszl.
Qed.

(* sections of a parsed index never panics, whatever the row *)
Lemma index_sections_post dbg be ix row :
  ix_wf ix -> post (fun _ => True) (index_sections dbg be ix row).
Proof.
  intros (Hs & Hu & Hc & Hl & _). unfold index_sections.
  destruct ((row =? 0) || (ix_unit_count ix <? row)) eqn:E; [exact I|].
  change (2 ^ 32) with 4294967296 in *.
  rewrite chk_sub_ok by lia. cbn [bind].
  rewrite chk_mul_ok by (change (2 ^ 64) with 18446744073709551616; nia). cbn [bind].
  rewrite chk_mul_ok by (change (2 ^ 64) with 18446744073709551616; nia). cbn [bind].
  eapply post_bind; [apply post_rd_skip|]. intros o _ _.
  eapply post_bind; [apply post_rd_skip|]. intros z _ _.
  rewrite Hl. destruct (N.of_nat 8 <? ix_section_count ix) eqn:E8; [lia|]. exact I.
Qed.

Lemma pkg_ranges_post cs seclen ks : post (fun _ => True) (pkg_ranges cs seclen ks).
Proof.
  induction ks as [|k ks IH]; [exact I|]. cbn [pkg_ranges].
  destruct (contrib_of k cs (0, 0)) as [o z].
  destruct (seclen k <? o); [exact I|]. destruct (seclen k - o <? z); [exact I|].
  eapply post_bind; [exact IH|]. intros; exact I.
Qed.

Lemma pkg_sections_post dbg be ix row seclen :
  ix_wf ix -> post (fun _ => True) (pkg_sections dbg be ix row seclen).
Proof.
  intros H. unfold pkg_sections. eapply post_bind; [apply index_sections_post; exact H|].
  intros; apply pkg_ranges_post.
Qed.

Lemma dwp_range_post o z bs :
  post (fun r => r = firstn (N.to_nat z) (skipn (N.to_nat o) bs) /\ o + z <= blen bs) (dwp_range o z bs).
Proof.
  unfold dwp_range. eapply post_bind; [apply post_rd_skip|]. intros d _ (-> & Ho).
  unfold rd_truncate. destruct (blen (skipn (N.to_nat o) bs) <? z) eqn:E; [exact I|].
  cbn. split; [reflexivity|]. unfold blen in *. rewrite skipn_length in E. lia.
Qed.

(* ------------------------------------------------------------------ parse of an encoded index *)

Lemma n2b_mod a b : a mod 256 = b mod 256 -> n2b a = n2b b.
Proof. intros H. unfold n2b. rewrite H. reflexivity. Qed.

(* two 16-bit halves are one 32-bit word *)
Lemma enc_halves be a b : a < 65536 -> b < 65536 ->
  enc_un 2 be a ++ enc_un 2 be b = enc_un 4 be (if be then a * 65536 + b else a + 65536 * b).
Proof.
  intros Ha Hb. unfold enc_un, be_bytes. destruct be; cbn [le_bytes rev app].
  - f_equal; [|f_equal; [|f_equal; [|f_equal]]]; apply n2b_mod; lia.
  - f_equal; [|f_equal; [|f_equal; [|f_equal]]]; apply n2b_mod; lia.
Qed.

Definition col_ok (v2 : bool) (c : N) : Prop :=
  c < 2 ^ 32 /\ (if v2 then sect_v2 c else sect_v5 c) <> None.
Definition col_kind (v2 : bool) (c : N) : isect :=
  match (if v2 then sect_v2 c else sect_v5 c) with Some s => s | None => SAbbrev end.

Lemma read_sections_enc be v2 cols rest :
  Forall (col_ok v2) cols ->
  read_sections be (if v2 then 2 else 5) (length cols) (enc_words 4 be cols ++ rest)
  = Ok (map (col_kind v2) cols, rest).
Proof.
  induction cols as [|c cols IH]; intros F; [reflexivity|].
  inversion F as [|? ? (Hc & Hk) F']; subst.
  cbn [length read_sections]. rewrite enc_words_cons, <- app_assoc.
  rewrite read_un_enc_small by (change (8 * N.of_nat 4) with 32; exact Hc). cbn [bind].
  unfold col_kind. cbn [map]. destruct v2.
  - change (2 =? 2) with true. cbv iota. destruct (sect_v2 c) as [s|]; [|congruence]. cbn [of_option bind].
    rewrite (IH F'). reflexivity.
  - change (5 =? 2) with false. cbv iota. destruct (sect_v5 c) as [s|]; [|congruence]. cbn [of_option bind].
    rewrite (IH F'). reflexivity.
Qed.

Definition desc_wf (d : index_desc) : Prop :=
  let slots := N.of_nat (length (d_slots d)) in
  let nc := N.of_nat (length (d_cols d)) in
  nc <= 8 /\ d_unit_count d < 2 ^ 32 /\ slots < 2 ^ 32 /\ d_pad d < 65536 /\
  (slots = 0 \/ ((exists k, slots = 2 ^ k) /\ d_unit_count d < slots)) /\
  in_range (d_slots d) /\
  Forall (col_ok (d_v2 d)) (d_cols d) /\
  length (d_offsets d) = (N.to_nat (d_unit_count d) * length (d_cols d))%nat /\
  length (d_sizes d) = (N.to_nat (d_unit_count d) * length (d_cols d))%nat /\
  Forall (fun v => v < 2 ^ 32) (d_offsets d) /\ Forall (fun v => v < 2 ^ 32) (d_sizes d).

Definition index_of_desc (be : bool) (d : index_desc) : unit_index :=
  {| ix_version := if d_v2 d then 2 else 5;
     ix_section_count := N.of_nat (length (d_cols d));
     ix_unit_count := d_unit_count d;
     ix_slot_count := N.of_nat (length (d_slots d));
     ix_hash_ids := enc_words 8 be (map fst (d_slots d));
     ix_hash_rows := enc_words 4 be (map snd (d_slots d));
     ix_sections := map (col_kind (d_v2 d)) (d_cols d) ++ repeat SAbbrev (8 - length (d_cols d));
     ix_offsets := enc_words 4 be (d_offsets d);
     ix_sizes := enc_words 4 be (d_sizes d) |}.

Lemma blen_enc_words n be ws : blen (enc_words n be ws) = N.of_nat n * N.of_nat (length ws).
Proof. unfold blen. rewrite enc_words_length. lia. Qed.

Lemma enc_index_nonempty be d : enc_index be d <> [].
Proof.
  unfold enc_index. destruct (d_v2 d).
  - intros H. apply (f_equal (@length byte)) in H. rewrite app_length, enc_un_length in H. cbn in H. lia.
  - intros H. apply (f_equal (@length byte)) in H. rewrite !app_length, enc_un_length in H. cbn in H. lia.
Qed.

Theorem index_parse_encoded dbg be d trailing :
  desc_wf d -> index_parse dbg be (enc_index be d ++ trailing) = Ok (index_of_desc be d).
Proof.
  intros (Hnc & Hu & Hs & Hpad & Hslots & Hrg & Hcols & Lo & Lz & Fo & Fz).
  unfold index_parse.
  destruct (enc_index be d ++ trailing) as [|b0 l0] eqn:Ebs.
  { exfalso. apply app_eq_nil in Ebs. destruct Ebs as [E _]. exact (enc_index_nonempty be d E). }
  rewrite <- Ebs. clear Ebs b0 l0.
  set (slots := N.of_nat (length (d_slots d))) in *.
  set (nc := N.of_nat (length (d_cols d))) in *.
  change (2 ^ 32) with 4294967296 in *.
  assert (Hversion :
    exists v32, read_un 4 be (enc_index be d ++ trailing)
                = Ok (v32, skipn 4 (enc_index be d ++ trailing)) /\
    (let* version := (if v32 =? 2 then Ok 2
                      else let* (v16, _) := read_un 2 be (enc_index be d ++ trailing) in
                           if v16 =? 5 then Ok v16 else Err EUnknownVersion) in Ok version)
    = Ok (if d_v2 d then 2 else 5) /\
    skipn 4 (enc_index be d ++ trailing) =
      enc_un 4 be nc ++ enc_un 4 be (d_unit_count d) ++ enc_un 4 be slots
      ++ enc_words 8 be (map fst (d_slots d)) ++ enc_words 4 be (map snd (d_slots d))
      ++ enc_words 4 be (d_cols d) ++ enc_words 4 be (d_offsets d) ++ enc_words 4 be (d_sizes d) ++ trailing).
  { unfold enc_index. fold slots nc. destruct (d_v2 d).
    - exists 2. rewrite <- !app_assoc. split; [|split].
      + rewrite read_un_enc_small by (change (8 * N.of_nat 4) with 32; reflexivity).
        f_equal. f_equal. generalize (enc_un_length 4 be 2).
        destruct (enc_un 4 be 2) as [|a [|b [|c [|e [|]]]]]; cbn; intros; try lia. reflexivity.
      + reflexivity.
      + generalize (enc_un_length 4 be 2).
        destruct (enc_un 4 be 2) as [|a [|b [|c [|e [|]]]]]; cbn; intros; try lia. reflexivity.
    - exists (if be then 5 * 65536 + d_pad d else 5 + 65536 * d_pad d).
      rewrite <- !app_assoc. split; [|split].
      + rewrite (app_assoc (enc_un 2 be 5)), enc_halves by lia.
        rewrite read_un_enc_small by (change (8 * N.of_nat 4) with 32; destruct be; lia).
        f_equal. f_equal. generalize (enc_un_length 4 be (if be then 5 * 65536 + d_pad d else 5 + 65536 * d_pad d)).
        destruct (enc_un 4 be _) as [|a [|b [|c [|e [|]]]]]; cbn; intros; try lia. reflexivity.
      + assert (E2 : ((if be then 5 * 65536 + d_pad d else 5 + 65536 * d_pad d) =? 2) = false)
          by (destruct be; lia).
        rewrite E2. rewrite read_un_enc_small by (change (8 * N.of_nat 2) with 16; reflexivity).
        reflexivity.
      + generalize (enc_un_length 2 be 5) (enc_un_length 2 be (d_pad d)).
        destruct (enc_un 2 be 5) as [|a [|b [|]]]; cbn; intros; try lia.
        destruct (enc_un 2 be (d_pad d)) as [|c [|e [|]]]; cbn in *; intros; try lia. reflexivity. }
  destruct Hversion as (v32 & Hr32 & Hver & Hrest).
  rewrite Hr32. cbn [bind].
  match type of Hver with (let* version := ?X in _) = _ =>
    assert (Hv : X = Ok (if d_v2 d then 2 else 5))
      by (destruct X; cbn in Hver; congruence) end.
  rewrite Hv. cbn [bind]. rewrite Hrest.
  rewrite read_un_enc_small by (change (8 * N.of_nat 4) with 32; lia). cbn [bind].
  rewrite read_un_enc_small by (change (8 * N.of_nat 4) with 32; lia). cbn [bind].
  rewrite read_un_enc_small by (change (8 * N.of_nat 4) with 32; lia). cbn [bind].
  assert (Hbad : (if slots =? 0 then Ok false
                  else let* m := chk_sub 32 dbg slots 1 in
                       Ok (negb (N.land slots m =? 0) || (slots <=? d_unit_count d))) = Ok false).
  { destruct Hslots as [H0|((k & Hk) & Hlt)].
    - rewrite H0. reflexivity.
    - destruct (slots =? 0) eqn:E0; [reflexivity|]. rewrite chk_sub_ok by lia. cbn [bind].
      rewrite Hk at 2 3. rewrite land_mask. rewrite <- Hk. rewrite N.mod_same by lia.
      destruct (slots <=? d_unit_count d) eqn:E; [lia|]. reflexivity. }
  rewrite Hbad. cbn [bind].
  rewrite chk_mul_ok by (change (2 ^ 64) with 18446744073709551616; lia). cbn [bind].
  rewrite rd_split_app_n by (rewrite blen_enc_words, map_length; fold slots; lia). cbn [bind].
  rewrite chk_mul_ok by (change (2 ^ 64) with 18446744073709551616; lia). cbn [bind].
  rewrite rd_split_app_n by (rewrite blen_enc_words, map_length; fold slots; lia). cbn [bind].
  unfold SECTION_COUNT_MAX. destruct (8 <? nc) eqn:E8; [lia|].
  unfold nc at 1. rewrite Nat2N.id.
  rewrite (read_sections_enc be (d_v2 d) (d_cols d) _ Hcols). cbn [bind].
  rewrite chk_mul_ok by (change (2 ^ 64) with 18446744073709551616; nia). cbn [bind].
  rewrite chk_mul_ok by (change (2 ^ 64) with 18446744073709551616; nia). cbn [bind].
  rewrite rd_split_app_n by (rewrite blen_enc_words, Lo; unfold nc; lia). cbn [bind].
  rewrite rd_split_app_n by (rewrite blen_enc_words, Lz; unfold nc; lia). cbn [bind].
  unfold index_of_desc. rewrite map_length. reflexivity.
Qed.

(* ------------------------------------------------------------------ executable construction yields built tables *)

Lemma insert_all_built slots : forall es t t',
  built slots t ->
  Forall (fun e => fst e <> 0 /\ fst e < 2 ^ 64 /\ snd e < 2 ^ 32) es ->
  NoDup (map fst es) ->
  (forall e, In e es -> forall r, ~ In (fst e, r) t) ->
  insert_all slots t es = Some t' -> built slots t'.
Proof.
  induction es as [|[id row] es IH]; intros t t' Hb F ND Hfresh Hins.
  - cbn in Hins. inversion Hins; subst. exact Hb.
  - cbn [insert_all] in Hins. destruct (insert slots t id row) as [t1|] eqn:E1; [|discriminate].
    inversion F as [|? ? (H0 & H64 & H32) F']; subst. cbn [fst snd] in *.
    inversion ND as [|? ? Hnotin ND']; subst.
    pose proof (insert_inserted slots t id row t1 E1) as Hi.
    assert (Hb1 : built slots t1).
    { eapply built_insert; eauto. intros r. apply (Hfresh (id, row)). left; reflexivity. }
    apply (IH t1 t' Hb1 F' ND'); [|exact Hins].
    intros e He r Hin. destruct Hi as (j & _ & _ & _ & ->).
    apply In_upd in Hin. destruct Hin as [Heq|Hin].
    + inversion Heq. apply Hnotin. rewrite <- H1. apply in_map. exact He.
    + eapply (Hfresh e); [right; exact He|exact Hin].
Qed.

Lemma insert_all_built_empty slots es t :
  Forall (fun e => fst e <> 0 /\ fst e < 2 ^ 64 /\ snd e < 2 ^ 32) es ->
  NoDup (map fst es) ->
  insert_all slots (empty_table slots) es = Some t -> built slots t.
Proof.
  intros F ND H. eapply insert_all_built; [apply built_empty|exact F|exact ND| |exact H].
  intros e He r Hin. unfold empty_table in Hin. apply repeat_spec in Hin. inversion Hin.
  rewrite Forall_forall in F. destruct (F e He) as (Hz & _). congruence.
Qed.

(* contents: the used slots *)
Lemma contents_spec t e : In e (contents t) <-> In e t /\ fst e <> 0.
Proof. unfold contents. rewrite filter_In. split; intros [H1 H2]; split; auto; lia. Qed.

(* ------------------------------------------------------------------ the probe sequence visits every slot
   (the step is odd and the table size a power of two), so insertion succeeds while a slot is unused *)

Lemma odd_mul_mod_pow2 : forall k d s,
  s mod 2 = 1 -> d < 2 ^ k -> (d * s) mod 2 ^ k = 0 -> d = 0.
Proof.
  induction k as [|k IH] using N.peano_ind; intros d s Hs Hd Hm.
  - change (2 ^ 0) with 1 in Hd. lia.
  - rewrite N.pow_succ_r' in *.
    pose proof (pow_pos_N k) as Hp. set (P := 2 ^ k) in *.
    assert (Hev : d mod 2 = 0).
    { destruct (N.eq_dec (d mod 2) 0) as [E|E]; [exact E|exfalso].
      assert (Hd1 : d mod 2 = 1) by (pose proof (N.mod_lt d 2); lia).
      pose proof (N.div_mod d 2 ltac:(lia)) as Ed. pose proof (N.div_mod s 2 ltac:(lia)) as Es.
      pose proof (N.div_mod (d * s) (2 * P) ltac:(lia)) as Ep. rewrite Hm in Ep.
      rewrite Hd1 in Ed. rewrite Hs in Es.
      set (a := d / 2) in *. set (b := s / 2) in *. set (q := d * s / (2 * P)) in *.
      assert (d * s = 2 * (2 * a * b + a + b) + 1) by (rewrite Ed, Es; ring). nia. }
    pose proof (N.div_mod d 2 ltac:(lia)) as Ed. rewrite Hev, N.add_0_r in Ed.
    set (d' := d / 2) in *.
    assert (Hm' : (d' * s) mod P = 0).
    { rewrite Ed, <- N.mul_assoc, N.mul_mod_distr_l in Hm by lia. lia. }
    assert (d' = 0) by (apply (IH d' s Hs); [lia|exact Hm']). lia.
Qed.

Lemma add_mod_cancel x y m : m <> 0 -> (x + y) mod m = x mod m -> y mod m = 0.
Proof.
  intros Hm H.
  pose proof (N.div_mod (x + y) m Hm) as E1. pose proof (N.div_mod x m Hm) as E2.
  pose proof (N.div_mod y m Hm) as E3. pose proof (N.mod_lt y m Hm) as L3. pose proof (N.mod_lt x m Hm) as L2.
  rewrite H in E1.
  set (q1 := (x + y) / m) in *. set (q2 := x / m) in *. set (q3 := y / m) in *.
  set (r := x mod m) in *. set (r3 := y mod m) in *.
  assert (Hr : m * q1 = m * q2 + m * q3 + r3) by lia.
  destruct (N.eq_dec r3 0) as [E|E]; [exact E|exfalso].
  assert (Hq : m * (q1 - q2 - q3) = r3) by nia.
  assert (q1 - q2 - q3 = 0 \/ 1 <= q1 - q2 - q3) by lia. nia.
Qed.

Lemma probe_step_odd slots id : probe_step slots id mod 2 = 1.
Proof. unfold probe_step. apply lor_1_odd. Qed.

Lemma probe_inj k id i j : i < j -> j < 2 ^ k -> probe (2 ^ k) id i <> probe (2 ^ k) id j.
Proof.
  intros Hij Hj Heq. unfold probe in Heq.
  assert (Hnz : 2 ^ k <> 0) by (apply N.pow_nonzero; discriminate).
  set (a := id mod 2 ^ k) in *. set (s := probe_step (2 ^ k) id) in *.
  replace (a + j * s) with ((a + i * s) + (j - i) * s) in Heq by nia.
  symmetry in Heq. apply add_mod_cancel in Heq; [|exact Hnz].
  apply odd_mul_mod_pow2 in Heq; [lia|apply probe_step_odd|lia].
Qed.

Lemma NoDup_map_inj_on {A B} (f : A -> B) (l : list A) :
  (forall x y, In x l -> In y l -> f x = f y -> x = y) -> NoDup l -> NoDup (map f l).
Proof.
  induction l as [|a l IH]; intros Hinj ND; [constructor|].
  inversion ND as [|? ? Hnotin ND']; subst. cbn [map]. constructor.
  - intros Hin. apply in_map_iff in Hin. destruct Hin as (x & Hfx & Hx).
    assert (x = a) by (apply Hinj; [right; exact Hx|left; reflexivity|exact Hfx]). subst. contradiction.
  - apply IH; [|exact ND']. intros x y Hx Hy. apply Hinj; right; assumption.
Qed.

(* every slot is probed within the first 2^k steps *)
Lemma probe_surj k id s : s < 2 ^ k -> exists i, i < 2 ^ k /\ probe (2 ^ k) id i = s.
Proof.
  intros Hs.
  assert (Hnz : 2 ^ k <> 0) by (apply N.pow_nonzero; discriminate).
  set (m := N.to_nat (2 ^ k)).
  set (f := fun i : nat => N.to_nat (probe (2 ^ k) id (N.of_nat i))).
  assert (ND : NoDup (map f (seq 0 m))).
  { apply NoDup_map_inj_on; [|apply seq_NoDup].
    intros x y Hx Hy Hf. apply in_seq in Hx. apply in_seq in Hy. unfold f in Hf.
    apply N2Nat.inj in Hf.
    destruct (Nat.lt_trichotomy x y) as [H|[H|H]]; [|exact H|].
    - exfalso. apply (probe_inj k id (N.of_nat x) (N.of_nat y)); [lia|unfold m in *; lia|exact Hf].
    - exfalso. apply (probe_inj k id (N.of_nat y) (N.of_nat x)); [lia|unfold m in *; lia|symmetry; exact Hf]. }
  assert (Hincl : incl (map f (seq 0 m)) (seq 0 m)).
  { intros x Hx. apply in_map_iff in Hx. destruct Hx as (i & <- & Hi). apply in_seq. unfold f.
    pose proof (probe_lt (2 ^ k) id (N.of_nat i) Hnz). unfold m. lia. }
  assert (Hrev : incl (seq 0 m) (map f (seq 0 m))).
  { apply NoDup_length_incl; [exact ND|rewrite map_length; lia|exact Hincl]. }
  assert (Hin : In (N.to_nat s) (seq 0 m)) by (apply in_seq; unfold m; lia).
  apply Hrev in Hin. apply in_map_iff in Hin. destruct Hin as (i & Hfi & Hi). apply in_seq in Hi.
  exists (N.of_nat i). split; [unfold m in Hi; lia|]. unfold f in Hfi. apply N2Nat.inj in Hfi. exact Hfi.
Qed.

Lemma insert_at_succeeds slots t id row : forall fuel j0,
  (forall s, s < slots -> exists x, slot_id t s = Some x) -> slots <> 0 ->
  (exists i, j0 <= i /\ i < j0 + N.of_nat fuel /\ slot_id t (probe slots id i) = Some 0) ->
  exists t', insert_at fuel slots t id row j0 = Some t'.
Proof.
  induction fuel as [|fuel IH]; intros j0 Hall Hnz (i & Hle & Hlt & Hz); [lia|].
  cbn [insert_at]. destruct (Hall (probe slots id j0) (probe_lt _ _ _ Hnz)) as [x Hx]. rewrite Hx.
  destruct (x =? 0) eqn:E; [eauto|].
  apply IH; [exact Hall|exact Hnz|]. exists i. repeat split; try lia; [|exact Hz].
  destruct (N.eq_dec i j0) as [->|]; [|lia]. rewrite Hx in Hz. inversion Hz. lia.
Qed.

(* any load factor can be reached: while a slot of a 2^k table is unused, insertion of any id succeeds *)
Theorem insert_succeeds k t id row :
  length t = N.to_nat (2 ^ k) -> (exists s, s < 2 ^ k /\ slot_id t s = Some 0) ->
  exists t', insert (2 ^ k) t id row = Some t' /\ inserted (2 ^ k) t id row t'.
Proof.
  intros Hlen (s & Hs & Hz).
  assert (Hnz : 2 ^ k <> 0) by (apply N.pow_nonzero; discriminate).
  destruct (probe_surj k id s Hs) as (i & Hi & Hp).
  assert (Hall : forall s0, s0 < 2 ^ k -> exists x, slot_id t s0 = Some x).
  { intros s0 Hs0. unfold slot_id. destruct (nth_error t (N.to_nat s0)) as [[a b]|] eqn:E; [cbn; eauto|].
    apply nth_error_None in E. lia. }
  destruct (insert_at_succeeds (2 ^ k) t id row (N.to_nat (2 ^ k)) 0 Hall Hnz) as [t' Ht'].
  { exists i. repeat split; [lia|lia|rewrite Hp; exact Hz]. }
  exists t'. split; [exact Ht'|apply insert_inserted; exact Ht'].
Qed.

(* ------------------------------------------------------------------ initial length / word of an encoding *)

Lemma read_initial_length_enc (fmt64 : bool) be len rest :
  len < (if fmt64 then 2 ^ 64 else 4294967280) ->
  read_initial_length be (enc_initial_length fmt64 be len ++ rest) = Ok ((len, fmt64), rest).
Proof.
  intros H. unfold read_initial_length, enc_initial_length. destruct fmt64.
  - rewrite <- app_assoc. rewrite read_un_enc_small by (change (8 * N.of_nat 4) with 32; reflexivity).
    cbn [bind]. change (4294967295 <? 4294967280) with false. change (4294967295 =? 4294967295) with true. cbv iota.
    rewrite read_un_enc_small by (change (8 * N.of_nat 8) with 64; exact H). reflexivity.
  - rewrite read_un_enc_small by (change (8 * N.of_nat 4) with 32; change (2 ^ 32) with 4294967296; lia).
    cbn [bind]. destruct (len <? 4294967280) eqn:E; [reflexivity|lia].
Qed.

Lemma read_word_enc (fmt64 : bool) be v rest :
  v < (if fmt64 then 2 ^ 64 else 2 ^ 32) ->
  read_word fmt64 be (enc_word fmt64 be v ++ rest) = Ok (v, rest).
Proof.
  intros H. unfold read_word, enc_word. destruct fmt64.
  - apply read_un_enc_small. exact H.
  - apply read_un_enc_small. exact H.
Qed.

Lemma blen_repeat (x : byte) n : blen (repeat x n) = N.of_nat n.
Proof. unfold blen. rewrite repeat_length. reflexivity. Qed.

