(* Proofs/CursorProofs.v — lemmas about Model/Cursor.v (C10). *)
From Coq Require Import List NArith ZArith Bool Lia ZifyBool ZifyN ZifyNat.
From Coq.Strings Require Import Byte.
Require Import GV.Base.Res GV.Base.Byt GV.Base.Ints GV.Model.Leb GV.Model.Prim
               GV.Spec.CursorSpec GV.Model.Cursor.
Import ListNotations.
Local Open Scope N_scope.
Local Arguments N.add : simpl never.
Local Arguments N.sub : simpl never.
Local Arguments N.mul : simpl never.
Local Arguments N.pow : simpl never.
Local Arguments N.of_nat : simpl never.
Local Arguments N.to_nat : simpl never.

(* ------------------------------------------------------------------ vocabulary of the theorems *)
(* representation invariant of SubRange: ptr .. ptr+len stays inside the allocation *)
Definition Inv (c : cur) : Prop := off c + len c <= blen c.
(* the allocation does not wrap around the address space (true of every Rust allocation) *)
Definition wf_alloc (c : cur) : Prop := base c + blen c < two64.
(* [c] reads the same buffer as [r] and its window lies inside the window of [r] *)
Definition Sub (r c : cur) : Prop :=
  buf c = buf r /\ base c = base r /\ off r <= off c /\ off c + len c <= off r + len r.
(* the reader after consuming n bytes *)
Definition adv (c : cur) (n : N) : cur := with_win c (off c + n) (len c - n).
Definition val_of (be : bool) (bs : list byte) : N := if be then be_val bs else le_val bs.

Lemma Sub_refl c : Sub c c.
Proof. unfold Sub; repeat split; lia. Qed.
Lemma Sub_trans a b c : Sub a b -> Sub b c -> Sub a c.
Proof.
  unfold Sub; intros (H1 & H2 & H3 & H4) (H5 & H6 & H7 & H8).
  repeat split; try congruence; lia.
Qed.
Lemma Sub_Inv r c : Inv r -> Sub r c -> Inv c.
Proof.
  unfold Inv, Sub, blen; intros HI (H1 & H2 & H3 & H4). rewrite H1. lia.
Qed.
Lemma Sub_wf r c : wf_alloc r -> Sub r c -> wf_alloc c.
Proof. unfold wf_alloc, Sub, blen; intros HI (H1 & H2 & _). rewrite H1, H2. exact HI. Qed.
Lemma new_Inv b a : Inv (new b a).
Proof. unfold Inv, new, blen; cbn. lia. Qed.

(* ------------------------------------------------------------------ lists and views *)
Lemma skipn_skipn {A} (x y : nat) (l : list A) : skipn x (skipn y l) = skipn (y + x) l.
Proof.
  revert l; induction y as [|y IH]; intros l; cbn; [reflexivity|].
  destruct l; [now rewrite skipn_nil | apply IH].
Qed.

Lemma view_of_length b o l :
  N.of_nat (length (view_of b o l)) = N.min l (N.of_nat (length b) - o).
Proof. unfold view_of. rewrite firstn_length, skipn_length. lia. Qed.

Lemma view_of_length_le b o l : N.of_nat (length (view_of b o l)) <= l.
Proof. rewrite view_of_length. lia. Qed.

Lemma view_of_length_in b o l :
  o + l <= N.of_nat (length b) -> N.of_nat (length (view_of b o l)) = l.
Proof. intros H. rewrite view_of_length. lia. Qed.

Lemma firstn_view b o l n :
  n <= l -> firstn (N.to_nat n) (view_of b o l) = view_of b o n.
Proof.
  intros H. unfold view_of. rewrite firstn_firstn. f_equal. lia.
Qed.

Lemma skipn_view b o l n :
  n <= l -> skipn (N.to_nat n) (view_of b o l) = view_of b (o + n) (l - n).
Proof.
  intros H. unfold view_of. rewrite skipn_firstn_comm, skipn_skipn.
  f_equal; [lia | f_equal; lia].
Qed.

Lemma view_of_app b o l n :
  n <= l -> view_of b o l = view_of b o n ++ view_of b (o + n) (l - n).
Proof.
  intros H. rewrite <- (firstn_view b o l n H), <- (skipn_view b o l n H).
  symmetry; apply firstn_skipn.
Qed.

Lemma view_of_is_view b o l :
  o + l <= N.of_nat (length b) -> is_view b o (view_of b o l).
Proof.
  intros H. exists (firstn (N.to_nat o) b), (skipn (N.to_nat (o + l)) b). split.
  - unfold view_of.
    rewrite <- (firstn_skipn (N.to_nat o) b) at 1. f_equal.
    rewrite <- (firstn_skipn (N.to_nat l) (skipn (N.to_nat o) b)) at 1. f_equal.
    rewrite skipn_skipn. f_equal. lia.
  - rewrite firstn_length. lia.
Qed.

Lemma app_same_length {A} (p1 p2 r1 r2 : list A) :
  length p1 = length p2 -> p1 ++ r1 = p2 ++ r2 -> p1 = p2 /\ r1 = r2.
Proof.
  revert p2. induction p1 as [|x p1 IH]; intros [|y p2] HL HE; cbn in *; try discriminate.
  - now split.
  - injection HE as -> HE. injection HL as HL. destruct (IH _ HL HE) as [-> ->]. now split.
Qed.

(* a view is determined by the section, its offset and its length *)
Lemma is_view_unique b o v w :
  is_view b o v -> is_view b o w -> length v = length w -> v = w.
Proof.
  intros (p1 & q1 & E1 & L1) (p2 & q2 & E2 & L2) HL.
  assert (Hp : length p1 = length p2) by lia.
  rewrite E1 in E2.
  destruct (app_same_length _ _ _ _ Hp E2) as [_ E3].
  destruct (app_same_length _ _ _ _ HL E3) as [E4 _]. exact E4.
Qed.

(* ------------------------------------------------------------------ closed forms of the primitives *)
Lemma sr_skip_eq dbg c n : n <= len c -> sr_skip dbg c n = Ok (adv c n).
Proof.
  intros H. unfold sr_skip, chk_sub.
  assert (E : (n <=? len c) = true) by lia. rewrite E. reflexivity.
Qed.
Lemma sr_truncate_eq c n : n <= len c -> sr_truncate c n = Ok (with_win c (off c) n).
Proof.
  intros H. unfold sr_truncate. assert (E : (n <=? len c) = true) by lia. now rewrite E.
Qed.

Lemma er_read_slice_eq dbg c n :
  er_read_slice dbg c n =
  if len c <? n then Err EUnexpectedEof else Ok (view_of (buf c) (off c) n, adv c n).
Proof.
  unfold er_read_slice, sr_read_slice. destruct (len c <? n) eqn:E; [reflexivity|].
  rewrite sr_skip_eq by lia. reflexivity.
Qed.
Lemma er_skip_eq dbg c n :
  er_skip dbg c n = if len c <? n then Err EUnexpectedEof else Ok (tt, adv c n).
Proof.
  unfold er_skip. destruct (len c <? n) eqn:E; [reflexivity|].
  rewrite sr_skip_eq by lia. reflexivity.
Qed.
Lemma er_split_eq dbg c n :
  er_split dbg c n =
  if len c <? n then Err EUnexpectedEof else Ok (with_win c (off c) n, adv c n).
Proof.
  unfold er_split. destruct (len c <? n) eqn:E; [reflexivity|].
  rewrite sr_truncate_eq, sr_skip_eq by lia. reflexivity.
Qed.
Lemma er_truncate_eq c n :
  er_truncate c n = if len c <? n then Err EUnexpectedEof else Ok (tt, with_win c (off c) n).
Proof.
  unfold er_truncate. destruct (len c <? n) eqn:E; [reflexivity|].
  rewrite sr_truncate_eq by lia. reflexivity.
Qed.
Lemma er_empty_eq c : er_empty c = Ok (tt, with_win c (off c) 0).
Proof. unfold er_empty. rewrite sr_truncate_eq by lia. reflexivity. Qed.

Lemma position_lt b l i : position b l = Some i -> i < N.of_nat (length l).
Proof.
  revert i; induction l as [|x l IH]; intros i; cbn [position length]; [discriminate|].
  destruct (b2n x =? b2n b).
  - intros [= <-]. lia.
  - destruct (position b l) as [j|]; [|discriminate].
    intros [= <-]. specialize (IH j eq_refl). lia.
Qed.

(* ------------------------------------------------------------------ the cursor specification *)
(* Closed form of one call: a failing call never moves the reader; the window only shrinks. *)
Definition spec_read_un (be : bool) (c : cur) (w : nat) (f : N -> oval cur) : cur * res (oval cur) :=
  let n := N.of_nat w in
  if len c <? n then (c, Err EUnexpectedEof)
  else (adv c n, Ok (f (val_of be (view_of (buf c) (off c) n)))).

Definition spec_step (dbg be : bool) (root c : cur) (op : cop) : cur * res (oval cur) :=
  match op with
  | CReadSlice n =>
      if len c <? n then (c, Err EUnexpectedEof)
      else (adv c n, Ok (VBytes (view_of (buf c) (off c) n)))
  | CReadUn w => spec_read_un be c w VNum
  | CReadIn w => spec_read_un be c w (fun v => VInt (to_signed (8 * N.of_nat w) v))
  | CReadUint k => if Nat.ltb 8 k then (c, Panic) else spec_read_un be c k VNum
  | CSkip n => if len c <? n then (c, Err EUnexpectedEof) else (adv c n, Ok VUnit)
  | CSplit n =>
      if len c <? n then (c, Err EUnexpectedEof)
      else (adv c n, Ok (VRd (with_win c (off c) n)))
  | CTruncate n =>
      if len c <? n then (c, Err EUnexpectedEof) else (with_win c (off c) n, Ok VUnit)
  | CEmpty => (with_win c (off c) 0, Ok VUnit)
  | CFind b =>
      (c, match position b (bytes c) with Some i => Ok (VNum i) | None => Err EUnexpectedEof end)
  | CLen => (c, Ok (VNum (len c)))
  | CIsEmpty => (c, Ok (VBool (len c =? 0)))
  | COffsetId => (c, Ok (VNum (ptr c)))
  | CLookupId id => (c, rmap VOpt (lookup_id_ptrs dbg (ptr c) (len c) id))
  | CRootLookupSelf => (c, rmap VOpt (lookup_id_ptrs dbg (ptr root) (len root) (ptr c)))
  | COffsetFromRoot => (c, rmap VNum (offset_from_ptrs dbg (ptr c) (len c) (ptr root) (len root)))
  | CToSlice => (c, Ok (VBytes (bytes c)))
  | CToString => (c, if utf8_valid (bytes c) then Ok (VBytes (bytes c)) else Err EBadUtf8)
  | CReadCstr =>
      match position x00 (bytes c) with
      | Some i => (adv c (i + 1), Ok (VRd (with_win c (off c) i)))
      | None => (c, Err EUnexpectedEof)
      end
  | CReadAddress size =>
      if size =? 1 then spec_read_un be c 1 VNum
      else if size =? 2 then spec_read_un be c 2 VNum
      else if size =? 4 then spec_read_un be c 4 VNum
      else if size =? 8 then spec_read_un be c 8 VNum
      else (c, Err EUnsupportedAddressSize)
  | CReadOffset f | CReadLength f =>
      if f then spec_read_un be c 8 VNum else spec_read_un be c 4 VNum
  | CReadSizedOffset size =>
      if size =? 1 then spec_read_un be c 1 VNum
      else if size =? 2 then spec_read_un be c 2 VNum
      else if size =? 4 then spec_read_un be c 4 VNum
      else if size =? 8 then spec_read_un be c 8 VNum
      else (c, Err EUnsupportedOffsetSize)
  end.

Lemma er_read_un_eq dbg be c w (f : N -> oval cur) :
  mmap f (g_read_un (er_req dbg) w be) c = spec_read_un be c w f.
Proof.
  unfold mmap, g_read_un, mbind, mret, spec_read_un. cbn [q_read_slice er_req]. unfold mprim.
  rewrite er_read_slice_eq. destruct (len c <? N.of_nat w); reflexivity.
Qed.

Lemma er_read_in_eq dbg be c w :
  mmap VInt (g_read_in (er_req dbg) w be) c =
  spec_read_un be c w (fun v => VInt (to_signed (8 * N.of_nat w) v)).
Proof.
  unfold mmap, g_read_in, g_read_un, mbind, mret, spec_read_un. cbn [q_read_slice er_req]. unfold mprim.
  rewrite er_read_slice_eq. destruct (len c <? N.of_nat w); reflexivity.
Qed.

Lemma adv_adv c i j : i + j <= len c -> adv (adv c i) j = adv c (i + j).
Proof.
  intros H. unfold adv, with_win; cbn. f_equal; lia.
Qed.

Lemma er_read_cstr_eq dbg c :
  mmap VRd (g_read_cstr (er_req dbg)) c =
  match position x00 (bytes c) with
  | Some i => (adv c (i + 1), Ok (VRd (with_win c (off c) i)))
  | None => (c, Err EUnexpectedEof)
  end.
Proof.
  unfold mmap, g_read_cstr, mbind, mret, mget. cbn [q_find q_split q_skip er_req]. unfold mprim, er_find.
  destruct (position x00 (bytes c)) as [i|] eqn:P; [|reflexivity].
  pose proof (position_lt _ _ _ P) as Hlt.
  pose proof (view_of_length_le (buf c) (off c) (len c)) as Hle. fold (bytes c) in Hle.
  rewrite er_split_eq. assert (E1 : (len c <? i) = false) by lia. rewrite E1.
  rewrite er_skip_eq. assert (E2 : (len (adv c i) <? 1) = false) by (cbn; lia). rewrite E2.
  rewrite adv_adv by lia. reflexivity.
Qed.

Theorem step_spec dbg be root c op : step dbg be root c op = spec_step dbg be root c op.
Proof.
  unfold step, gstep, er_impl, default_impl. cbn [i_req i_read_address i_read_offset i_read_sized_offset].
  destruct op; cbn [spec_step].
  - (* read_slice *) unfold mmap, mbind, mret. cbn [q_read_slice er_req]. unfold mprim.
    rewrite er_read_slice_eq. destruct (len c <? n); reflexivity.
  - apply er_read_un_eq.
  - apply er_read_in_eq.
  - unfold g_read_uint. destruct (Nat.ltb 8 n); [reflexivity | apply er_read_un_eq].
  - (* skip *) unfold mmap, mbind, mret. cbn [q_skip er_req]. unfold mprim.
    rewrite er_skip_eq. destruct (len c <? n); reflexivity.
  - (* split *) unfold mmap, mbind, mret. cbn [q_split er_req]. unfold mprim.
    rewrite er_split_eq. destruct (len c <? n); reflexivity.
  - (* truncate *) unfold mmap, mbind, mret. cbn [q_truncate er_req]. unfold mprim.
    rewrite er_truncate_eq. destruct (len c <? n); reflexivity.
  - (* empty *) unfold mmap, mbind, mret. cbn [q_empty er_req]. unfold mprim.
    rewrite er_empty_eq. reflexivity.
  - (* find *) cbn [q_find er_req]. unfold er_find. destruct (position b (bytes c)); reflexivity.
  - reflexivity.
  - reflexivity.
  - reflexivity.
  - reflexivity.
  - reflexivity.
  - reflexivity.
  - reflexivity.
  - (* to_string *) cbn [q_to_string er_req]. unfold er_to_string. destruct (utf8_valid (bytes c)); reflexivity.
  - apply er_read_cstr_eq.
  - (* read_address *) unfold g_read_address.
    destruct (size =? 1); [apply er_read_un_eq|]. destruct (size =? 2); [apply er_read_un_eq|].
    destruct (size =? 4); [apply er_read_un_eq|]. destruct (size =? 8); [apply er_read_un_eq|]. reflexivity.
  - unfold g_read_word. destruct fmt64; apply er_read_un_eq.
  - unfold g_read_word. destruct fmt64; apply er_read_un_eq.
  - unfold g_read_sized_offset.
    destruct (size =? 1); [apply er_read_un_eq|]. destruct (size =? 2); [apply er_read_un_eq|].
    destruct (size =? 4); [apply er_read_un_eq|]. destruct (size =? 8); [apply er_read_un_eq|]. reflexivity.
Qed.

(* ------------------------------------------------------------------ window invariant *)
Lemma adv_Sub c n : n <= len c -> Sub c (adv c n).
Proof. intros H. unfold Sub, adv, with_win; cbn. repeat split; lia. Qed.
Lemma win_Sub c n : n <= len c -> Sub c (with_win c (off c) n).
Proof. intros H. unfold Sub, with_win; cbn. repeat split; lia. Qed.

Lemma spec_read_un_Sub be c w f :
  (forall v r, f v <> VRd r) ->
  Sub c (fst (spec_read_un be c w f)) /\
  forall r, snd (spec_read_un be c w f) = Ok (VRd r) -> Sub c r.
Proof.
  intros Hf. unfold spec_read_un. destruct (len c <? N.of_nat w) eqn:E; cbn [fst snd].
  - split; [apply Sub_refl | discriminate].
  - split; [apply adv_Sub; lia|]. intros r [= H]. now apply Hf in H.
Qed.

Lemma spec_step_Sub dbg be root c op :
  Sub c (fst (spec_step dbg be root c op)) /\
  forall r, snd (spec_step dbg be root c op) = Ok (VRd r) -> Sub c r.
Proof.
  assert (HN : forall v r, @VNum cur v <> VRd r) by discriminate.
  assert (HR : forall (x : res N) r, rmap (@VNum cur) x <> Ok (VRd r))
    by (intros [?|?| |] r; cbn; discriminate).
  assert (HO : forall (x : res (option N)) r, rmap (@VOpt cur) x <> Ok (VRd r))
    by (intros [?|?| |] r; cbn; discriminate).
  destruct op; cbn [spec_step].
  - destruct (len c <? n) eqn:E; cbn [fst snd]; (split; [|discriminate]);
      [apply Sub_refl | apply adv_Sub; lia].
  - now apply spec_read_un_Sub.
  - apply spec_read_un_Sub; discriminate.
  - destruct (Nat.ltb 8 n); [cbn [fst snd]; split; [apply Sub_refl | discriminate]|].
    now apply spec_read_un_Sub.
  - destruct (len c <? n) eqn:E; cbn [fst snd]; (split; [|discriminate]);
      [apply Sub_refl | apply adv_Sub; lia].
  - destruct (len c <? n) eqn:E; cbn [fst snd].
    + split; [apply Sub_refl | discriminate].
    + split; [apply adv_Sub; lia|]. intros r [= <-]. apply win_Sub; lia.
  - destruct (len c <? n) eqn:E; cbn [fst snd]; (split; [|discriminate]);
      [apply Sub_refl | apply win_Sub; lia].
  - cbn [fst snd]. split; [apply win_Sub; lia | discriminate].
  - cbn [fst snd]. split; [apply Sub_refl|]. destruct (position b (bytes c)); discriminate.
  - cbn [fst snd]. split; [apply Sub_refl | discriminate].
  - cbn [fst snd]. split; [apply Sub_refl | discriminate].
  - cbn [fst snd]. split; [apply Sub_refl | discriminate].
  - cbn [fst snd]. split; [apply Sub_refl|]. intros r H. now apply HO in H.
  - cbn [fst snd]. split; [apply Sub_refl|]. intros r H. now apply HO in H.
  - cbn [fst snd]. split; [apply Sub_refl|]. intros r H. now apply HR in H.
  - cbn [fst snd]. split; [apply Sub_refl | discriminate].
  - cbn [fst snd]. split; [apply Sub_refl|]. destruct (utf8_valid (bytes c)); discriminate.
  - destruct (position x00 (bytes c)) as [i|] eqn:P; cbn [fst snd].
    + pose proof (position_lt _ _ _ P) as Hlt.
      pose proof (view_of_length_le (buf c) (off c) (len c)) as Hle. fold (bytes c) in Hle.
      split; [apply adv_Sub; lia|]. intros r [= <-]. apply win_Sub; lia.
    + split; [apply Sub_refl | discriminate].
  - destruct (size =? 1); [now apply spec_read_un_Sub|]. destruct (size =? 2); [now apply spec_read_un_Sub|].
    destruct (size =? 4); [now apply spec_read_un_Sub|]. destruct (size =? 8); [now apply spec_read_un_Sub|].
    cbn [fst snd]. split; [apply Sub_refl | discriminate].
  - destruct fmt64; now apply spec_read_un_Sub.
  - destruct fmt64; now apply spec_read_un_Sub.
  - destruct (size =? 1); [now apply spec_read_un_Sub|]. destruct (size =? 2); [now apply spec_read_un_Sub|].
    destruct (size =? 4); [now apply spec_read_un_Sub|]. destruct (size =? 8); [now apply spec_read_un_Sub|].
    cbn [fst snd]. split; [apply Sub_refl | discriminate].
Qed.

Lemma step_Sub dbg be root c op :
  Sub c (fst (step dbg be root c op)) /\
  forall r, snd (step dbg be root c op) = Ok (VRd r) -> Sub c r.
Proof. rewrite step_spec. apply spec_step_Sub. Qed.

Lemma inv_preserved_lemma dbg be root c op :
  Inv c ->
  Inv (fst (step dbg be root c op)) /\
  forall r, snd (step dbg be root c op) = Ok (VRd r) -> Inv r.
Proof.
  intros HI. destruct (step_Sub dbg be root c op) as [H1 H2]. split.
  - eapply Sub_Inv; eauto.
  - intros r Hr. eapply Sub_Inv; eauto.
Qed.

(* a call that does not return Ok leaves the reader where it was *)
Lemma spec_read_un_fail be c w f :
  is_ok (snd (spec_read_un be c w f)) = false -> fst (spec_read_un be c w f) = c.
Proof. unfold spec_read_un. destruct (len c <? N.of_nat w); cbn; [reflexivity | discriminate]. Qed.

Lemma failure_keeps_state_lemma dbg be root c op :
  is_ok (snd (step dbg be root c op)) = false -> fst (step dbg be root c op) = c.
Proof.
  rewrite step_spec. destruct op; cbn [spec_step]; try (intros _; reflexivity);
    try apply spec_read_un_fail.
  - destruct (len c <? n); cbn; [reflexivity | discriminate].
  - destruct (Nat.ltb 8 n); [reflexivity | apply spec_read_un_fail].
  - destruct (len c <? n); cbn; [reflexivity | discriminate].
  - destruct (len c <? n); cbn; [reflexivity | discriminate].
  - destruct (len c <? n); cbn; [reflexivity | discriminate].
  - cbn; discriminate.
  - destruct (position x00 (bytes c)); cbn; [discriminate | reflexivity].
  - destruct (size =? 1); [apply spec_read_un_fail|]. destruct (size =? 2); [apply spec_read_un_fail|].
    destruct (size =? 4); [apply spec_read_un_fail|]. destruct (size =? 8); [apply spec_read_un_fail|]. reflexivity.
  - destruct fmt64; apply spec_read_un_fail.
  - destruct fmt64; apply spec_read_un_fail.
  - destruct (size =? 1); [apply spec_read_un_fail|]. destruct (size =? 2); [apply spec_read_un_fail|].
    destruct (size =? 4); [apply spec_read_un_fail|]. destruct (size =? 8); [apply spec_read_un_fail|]. reflexivity.
Qed.

(* ------------------------------------------------------------------ histories *)
Lemma run_cons dbg be root c op ops :
  run dbg be root c (op :: ops) =
  (fst (run dbg be root (fst (step dbg be root c op)) ops),
   snd (step dbg be root c op) :: snd (run dbg be root (fst (step dbg be root c op)) ops)).
Proof.
  unfold run, step. cbn [grun].
  destruct (gstep (er_impl dbg) be root c op) as [c1 o]. cbn [fst snd].
  destruct (grun (er_impl dbg) be root c1 ops) as [c2 os]. reflexivity.
Qed.

Lemma run_Sub dbg be root ops : forall c,
  Sub c (fst (run dbg be root c ops)) /\
  Forall (fun o => forall r, o = Ok (VRd r) -> Sub c r) (snd (run dbg be root c ops)).
Proof.
  induction ops as [|op ops IH]; intros c.
  - cbn. split; [apply Sub_refl | constructor].
  - rewrite run_cons. cbn [fst snd].
    destruct (step_Sub dbg be root c op) as [H1 H2].
    destruct (IH (fst (step dbg be root c op))) as [H3 H4]. split.
    + eapply Sub_trans; eauto.
    + constructor; [exact H2|].
      eapply Forall_impl; [|exact H4]. intros o Ho r Hr. eapply Sub_trans; eauto.
Qed.

(* pool *)
Lemma Forall_set_nth {A} (P : A -> Prop) i x l : Forall P l -> P x -> Forall P (set_nth i x l).
Proof.
  intros H Hx. revert i. induction H as [|h t Hh Ht IH]; intros [|i]; cbn; constructor; auto.
Qed.
Lemma Forall_remove_nth {A} (P : A -> Prop) i l : Forall P l -> Forall P (remove_nth i l).
Proof.
  intros H. revert i. induction H as [|h t Hh Ht IH]; intros [|i]; cbn; try constructor; auto.
Qed.
Lemma Forall_nth_error {A} (P : A -> Prop) l i x : Forall P l -> nth_error l i = Some x -> P x.
Proof. intros H E. rewrite Forall_forall in H. apply H. eapply nth_error_In; eauto. Qed.

Lemma pstep_Sub dbg be root r0 p o :
  Forall (Sub r0) p ->
  Forall (Sub r0) (fst (pstep dbg be root p o)) /\
  forall r, snd (pstep dbg be root p o) = Some (Ok (VRd r)) -> Sub r0 r.
Proof.
  intros HP. destruct o as [i op|i|i|i j|i j]; cbn [pstep].
  - destruct (nth_error p i) as [c|] eqn:E; [|cbn; split; [exact HP | discriminate]].
    pose proof (Forall_nth_error _ _ _ _ HP E) as Hc.
    destruct (step_Sub dbg be root c op) as [H1 H2].
    destruct (step dbg be root c op) as [c' r]. cbn [fst snd] in *.
    assert (Hset : Forall (Sub r0) (set_nth i c' p))
      by (apply Forall_set_nth; [exact HP | eapply Sub_trans; eauto]).
    split.
    + destruct r as [[| | | | |x|]| | |]; try exact Hset.
      apply Forall_app; split; [exact Hset|]. constructor; [|constructor].
      eapply Sub_trans; [exact Hc | now apply H2].
    + intros x [= ->]. eapply Sub_trans; [exact Hc | now apply H2].
  - destruct (nth_error p i) as [c|] eqn:E; cbn [fst snd]; [|split; [exact HP | discriminate]].
    pose proof (Forall_nth_error _ _ _ _ HP E) as Hc. split.
    + apply Forall_app; split; [exact HP | constructor; [exact Hc | constructor]].
    + intros x [= <-]. exact Hc.
  - destruct (nth_error p i); cbn [fst snd]; (split; [|discriminate]);
      [now apply Forall_remove_nth | exact HP].
  - destruct (nth_error p i), (nth_error p j); cbn [fst snd]; (split; [exact HP|]); try discriminate.
    intros x. destruct (er_offset_from dbg c c0); cbn; discriminate.
  - destruct (nth_error p i), (nth_error p j); cbn [fst snd]; (split; [exact HP|]); try discriminate.
    intros x. destruct (er_lookup_offset_id dbg c (er_offset_id c0)); cbn; discriminate.
Qed.

Lemma prun_cons dbg be root p o ops :
  prun dbg be root p (o :: ops) =
  (fst (prun dbg be root (fst (pstep dbg be root p o)) ops),
   snd (pstep dbg be root p o) :: snd (prun dbg be root (fst (pstep dbg be root p o)) ops)).
Proof.
  cbn [prun]. destruct (pstep dbg be root p o) as [p1 x]. cbn [fst snd].
  destruct (prun dbg be root p1 ops) as [p2 xs]. reflexivity.
Qed.

Lemma prun_Sub dbg be root r0 ops : forall p,
  Forall (Sub r0) p ->
  Forall (Sub r0) (fst (prun dbg be root p ops)) /\
  Forall (fun o => forall r, o = Some (Ok (VRd r)) -> Sub r0 r) (snd (prun dbg be root p ops)).
Proof.
  induction ops as [|o ops IH]; intros p HP.
  - cbn. split; [exact HP | constructor].
  - rewrite prun_cons. cbn [fst snd].
    destruct (pstep_Sub dbg be root r0 p o HP) as [H1 H2].
    destruct (IH _ H1) as [H3 H4]. split; [exact H3 | constructor; assumption].
Qed.

Definition in_section (b : list byte) (a : N) (c : cur) : Prop := buf c = b /\ base c = a /\ Inv c.

Lemma Sub_new_in_section b a c : Sub (new b a) c -> in_section b a c.
Proof.
  intros H. pose proof (Sub_Inv _ _ (new_Inv b a) H) as HI.
  destruct H as (H1 & H2 & _). repeat split; assumption.
Qed.

Lemma all_histories_lemma dbg be b a (ops : list pop) :
  Forall (in_section b a) (fst (prun dbg be (new b a) [new b a] ops)) /\
  Forall (fun o => forall r, o = Some (Ok (VRd r)) -> in_section b a r)
         (snd (prun dbg be (new b a) [new b a] ops)).
Proof.
  destruct (prun_Sub dbg be (new b a) (new b a) ops [new b a]) as [H1 H2].
  { constructor; [apply Sub_refl | constructor]. }
  split.
  - eapply Forall_impl; [|exact H1]. intros c. apply Sub_new_in_section.
  - eapply Forall_impl; [|exact H2]. intros o Ho r Hr. apply Sub_new_in_section. now apply Ho.
Qed.

Lemma one_reader_histories_lemma dbg be b a (ops : list cop) :
  in_section b a (fst (run dbg be (new b a) (new b a) ops)) /\
  Forall (fun o => forall r, o = Ok (VRd r) -> in_section b a r)
         (snd (run dbg be (new b a) (new b a) ops)).
Proof.
  destruct (run_Sub dbg be (new b a) ops (new b a)) as [H1 H2]. split.
  - now apply Sub_new_in_section.
  - eapply Forall_impl; [|exact H2]. intros o Ho r Hr. apply Sub_new_in_section. now apply Ho.
Qed.

(* ------------------------------------------------------------------ views *)
Lemma bytes_length c : Inv c -> N.of_nat (length (bytes c)) = len c.
Proof. unfold Inv, blen, bytes. intros H. now apply view_of_length_in. Qed.

Lemma bytes_is_view c : Inv c -> is_view (buf c) (off c) (bytes c).
Proof. unfold Inv, blen, bytes. intros H. now apply view_of_is_view. Qed.

Lemma bytes_adv c n : n <= len c -> bytes (adv c n) = skipn (N.to_nat n) (bytes c).
Proof. intros H. unfold bytes, adv, with_win; cbn. symmetry. now apply skipn_view. Qed.

Lemma bytes_win c n : n <= len c -> bytes (with_win c (off c) n) = firstn (N.to_nat n) (bytes c).
Proof. intros H. unfold bytes, with_win; cbn. symmetry. now apply firstn_view. Qed.

Lemma bytes_split c n :
  n <= len c -> bytes c = bytes (with_win c (off c) n) ++ bytes (adv c n).
Proof.
  intros H. rewrite bytes_win, bytes_adv by exact H. symmetry. apply firstn_skipn.
Qed.

Lemma Sub_view_in r c :
  Inv r -> Sub r c ->
  is_view (buf r) (off c) (bytes c) /\ N.of_nat (length (bytes c)) = len c.
Proof.
  intros HI HS. pose proof (Sub_Inv _ _ HI HS) as HIc.
  destruct HS as (H1 & _). rewrite <- H1. split; [now apply bytes_is_view | now apply bytes_length].
Qed.

(* everything a call hands back is a run of bytes of the section inside the old window *)
Lemma spec_read_un_nobytes be c w f :
  (forall v bs, f v <> VBytes bs) ->
  forall bs, snd (spec_read_un be c w f) <> Ok (VBytes bs).
Proof.
  intros Hf bs. unfold spec_read_un. destruct (len c <? N.of_nat w); cbn; [discriminate|].
  intros [= H]. now apply Hf in H.
Qed.

Lemma returned_bytes_lemma dbg be root c op bs :
  Inv c -> snd (step dbg be root c op) = Ok (VBytes bs) ->
  exists o, off c <= o /\ o + N.of_nat (length bs) <= off c + len c /\ is_view (buf c) o bs.
Proof.
  intros HI. rewrite step_spec.
  assert (Hall : exists o, off c <= o /\ o + N.of_nat (length (bytes c)) <= off c + len c
                           /\ is_view (buf c) o (bytes c)).
  { exists (off c). rewrite bytes_length by exact HI. repeat split; try lia. now apply bytes_is_view. }
  assert (HN : forall v x, @VNum cur v <> VBytes x) by discriminate.
  assert (HR : forall (x : res N) y, rmap (@VNum cur) x <> Ok (VBytes y))
    by (intros [?|?| |] y; cbn; discriminate).
  assert (HO : forall (x : res (option N)) y, rmap (@VOpt cur) x <> Ok (VBytes y))
    by (intros [?|?| |] y; cbn; discriminate).
  destruct op; cbn [spec_step];
    repeat match goal with |- context [if ?g then _ else _] => destruct g eqn:? end;
    try (intros H; exfalso; revert H; apply spec_read_un_nobytes; discriminate);
    cbn [snd]; try discriminate;
    try (intros H; exfalso; revert H; first [apply HO | apply HR]);
    try (destruct (position _ (bytes c)); cbn [snd]; discriminate).
  all: intros [= <-]; try exact Hall.
  (* read_slice *)
  exists (off c). unfold Inv, blen in HI.
  rewrite view_of_length_in by lia. repeat split; try lia. apply view_of_is_view; lia.
Qed.

Lemma view_correct_lemma dbg be root c op c' r :
  Inv c -> step dbg be root c op = (c', r) ->
  (* the reader afterwards: same section, window inside the old one, its bytes are the section's *)
  (Sub c c' /\ is_view (buf c) (off c') (bytes c') /\ N.of_nat (length (bytes c')) = len c') /\
  (* a returned reader: likewise, at its reported offset and length *)
  (forall x, r = Ok (VRd x) ->
     Sub c x /\ is_view (buf c) (off x) (bytes x) /\ N.of_nat (length (bytes x)) = len x) /\
  (* returned bytes occur in the section inside the old window *)
  (forall bs, r = Ok (VBytes bs) ->
     exists o, off c <= o /\ o + N.of_nat (length bs) <= off c + len c /\ is_view (buf c) o bs).
Proof.
  intros HI E.
  destruct (step_Sub dbg be root c op) as [H1 H2]. rewrite E in H1, H2. cbn [fst snd] in H1, H2.
  split; [|split].
  - split; [exact H1 | now apply Sub_view_in].
  - intros x ->. specialize (H2 x eq_refl). split; [exact H2 | now apply Sub_view_in].
  - intros bs ->. apply (returned_bytes_lemma dbg be root c op bs HI). now rewrite E.
Qed.

Lemma split_exact_lemma dbg be root c n :
  (n <= len c ->
   exists x c', step dbg be root c (CSplit n) = (c', Ok (VRd x)) /\
     off x = off c /\ len x = n /\ off c' = off c + n /\ len c' = len c - n /\
     bytes c = bytes x ++ bytes c') /\
  (len c < n -> step dbg be root c (CSplit n) = (c, Err EUnexpectedEof)).
Proof.
  rewrite step_spec. cbn [spec_step]. split; intros H.
  - assert (E : (len c <? n) = false) by lia. rewrite E.
    exists (with_win c (off c) n), (adv c n). repeat split. now apply bytes_split.
  - assert (E : (len c <? n) = true) by lia. now rewrite E.
Qed.

(* ------------------------------------------------------------------ reads = the list-level codecs of Prim.v *)
Lemma take_eq n (l : list byte) :
  take n l = if Nat.ltb (length l) n then None else Some (firstn n l, skipn n l).
Proof.
  revert l; induction n as [|n IH]; intros l; cbn [take]; [reflexivity|].
  destruct l as [|x l]; [reflexivity|]. rewrite IH. cbn [length firstn skipn].
  change (Nat.ltb (S (length l)) (S n)) with (Nat.ltb (length l) n).
  destruct (Nat.ltb (length l) n); reflexivity.
Qed.

Lemma prim_read_un_eq w be (l : list byte) :
  Prim.read_un w be l =
  if Nat.ltb (length l) w then Err EUnexpectedEof
  else Ok (val_of be (firstn w l), skipn w l).
Proof.
  unfold Prim.read_un, read_bytes. rewrite take_eq.
  destruct (Nat.ltb (length l) w); reflexivity.
Qed.

(* [st] is what the list-level parser [p] does on the bytes of [c] *)
Definition refines_prim {A} (p : list byte -> res (A * list byte)) (inj : A -> oval cur -> Prop)
           (c : cur) (st : cur * res (oval cur)) : Prop :=
  match p (bytes c) with
  | Ok (a, rest) => exists c' v, st = (c', Ok v) /\ inj a v /\ bytes c' = rest /\ Sub c c'
  | Err e => st = (c, Err e)
  | Panic => st = (c, Panic)
  | OutOfFuel => False
  end.

Lemma spec_read_un_refines be c w (f : N -> oval cur) :
  Inv c ->
  refines_prim (Prim.read_un w be) (fun a v => v = f a) c (spec_read_un be c w f).
Proof.
  intros HI. unfold refines_prim, spec_read_un. rewrite prim_read_un_eq.
  pose proof (bytes_length c HI) as HL.
  destruct (len c <? N.of_nat w) eqn:E.
  - assert (E' : Nat.ltb (length (bytes c)) w = true) by lia. now rewrite E'.
  - assert (E' : Nat.ltb (length (bytes c)) w = false) by lia. rewrite E'.
    exists (adv c (N.of_nat w)), (f (val_of be (view_of (buf c) (off c) (N.of_nat w)))).
    split; [reflexivity|]. split; [|split].
    + f_equal. f_equal. rewrite <- (firstn_view (buf c) (off c) (len c) (N.of_nat w)) by lia.
      now rewrite Nat2N.id.
    + rewrite bytes_adv by lia. now rewrite Nat2N.id.
    + apply adv_Sub. lia.
Qed.

Lemma read_un_refines_lemma dbg be root c w :
  Inv c ->
  refines_prim (Prim.read_un w be) (fun a v => v = VNum a) c (step dbg be root c (CReadUn w)).
Proof. intros HI. rewrite step_spec. now apply spec_read_un_refines. Qed.

Lemma refines_prim_map {A B} (p : list byte -> res (A * list byte)) (g : A -> B)
      (inj : B -> oval cur -> Prop) c st :
  refines_prim p (fun a v => inj (g a) v) c st ->
  refines_prim (fun l => let* (a, t) := p l in Ok (g a, t)) inj c st.
Proof.
  unfold refines_prim. destruct (p (bytes c)) as [[a t]|e| |]; cbn; auto.
Qed.

Lemma read_in_refines_lemma dbg be root c w :
  Inv c ->
  refines_prim (Prim.read_in w be) (fun a v => v = VInt a) c (step dbg be root c (CReadIn w)).
Proof.
  intros HI. rewrite step_spec. cbn [spec_step]. unfold Prim.read_in.
  apply (refines_prim_map (Prim.read_un w be) (to_signed (8 * N.of_nat w)) (fun a v => v = VInt a)).
  now apply (spec_read_un_refines be c w (fun v => VInt (to_signed (8 * N.of_nat w) v))).
Qed.

Lemma read_uint_refines_lemma dbg be root c n :
  Inv c ->
  refines_prim (Prim.read_uint n be) (fun a v => v = VNum a) c (step dbg be root c (CReadUint n)).
Proof.
  intros HI. rewrite step_spec. cbn [spec_step]. unfold Prim.read_uint, refines_prim.
  destruct (Nat.ltb 8 n); [reflexivity|]. now apply spec_read_un_refines.
Qed.

Lemma read_address_refines_lemma dbg be root c size :
  Inv c ->
  refines_prim (Prim.read_address size be) (fun a v => v = VNum a) c
               (step dbg be root c (CReadAddress size)).
Proof.
  intros HI. rewrite step_spec. cbn [spec_step]. unfold Prim.read_address.
  destruct (size =? 1); [now apply spec_read_un_refines|].
  destruct (size =? 2); [now apply spec_read_un_refines|].
  destruct (size =? 4); [now apply spec_read_un_refines|].
  destruct (size =? 8); [now apply spec_read_un_refines|]. reflexivity.
Qed.

Lemma read_sized_offset_refines_lemma dbg be root c size :
  Inv c ->
  refines_prim (Prim.read_sized_offset size be) (fun a v => v = VNum a) c
               (step dbg be root c (CReadSizedOffset size)).
Proof.
  intros HI. rewrite step_spec. cbn [spec_step]. unfold Prim.read_sized_offset.
  destruct (size =? 1); [now apply spec_read_un_refines|].
  destruct (size =? 2); [now apply spec_read_un_refines|].
  destruct (size =? 4); [now apply spec_read_un_refines|].
  destruct (size =? 8); [now apply spec_read_un_refines|]. reflexivity.
Qed.

Lemma read_word_refines_lemma dbg be root c f :
  Inv c ->
  refines_prim (Prim.read_word f be) (fun a v => v = VNum a) c (step dbg be root c (CReadOffset f)) /\
  refines_prim (Prim.read_word f be) (fun a v => v = VNum a) c (step dbg be root c (CReadLength f)).
Proof.
  intros HI. rewrite !step_spec. cbn [spec_step]. unfold Prim.read_word.
  destruct f; split; now apply spec_read_un_refines.
Qed.

Lemma b2n_x00 : b2n x00 = 0.
Proof. reflexivity. Qed.

Lemma prim_read_cstr_eq (l : list byte) :
  Prim.read_cstr l =
  match position x00 l with
  | Some i => Ok (firstn (N.to_nat i) l, skipn (N.to_nat (i + 1)) l)
  | None => Err EUnexpectedEof
  end.
Proof.
  induction l as [|x l IH]; cbn [Prim.read_cstr position]; [reflexivity|].
  rewrite b2n_x00. destruct (b2n x =? 0).
  - reflexivity.
  - rewrite IH. destruct (position x00 l) as [i|]; cbn; [|reflexivity].
    replace (N.to_nat (N.succ i)) with (S (N.to_nat i)) by lia.
    replace (N.to_nat (N.succ i + 1)) with (S (N.to_nat (i + 1))) by lia.
    reflexivity.
Qed.

Lemma read_cstr_refines_lemma dbg be root c :
  Inv c ->
  refines_prim Prim.read_cstr (fun s v => exists x, v = VRd x /\ bytes x = s /\ off x = off c) c
               (step dbg be root c CReadCstr).
Proof.
  intros HI. rewrite step_spec. cbn [spec_step]. unfold refines_prim. rewrite prim_read_cstr_eq.
  destruct (position x00 (bytes c)) as [i|] eqn:P; [|reflexivity].
  pose proof (position_lt _ _ _ P) as Hlt. rewrite (bytes_length c HI) in Hlt.
  exists (adv c (i + 1)), (VRd (with_win c (off c) i)).
  split; [reflexivity|]. split; [|split].
  - exists (with_win c (off c) i). split; [reflexivity|]. split; [|reflexivity]. apply bytes_win. lia.
  - apply bytes_adv. lia.
  - apply adv_Sub. lia.
Qed.

(* ------------------------------------------------------------------ offsets and offset ids *)
Lemma chk_add64_small dbg a b : a + b < two64 -> chk_add 64 dbg a b = Ok (a + b).
Proof.
  intros H. unfold chk_add. change (2 ^ 64) with two64.
  assert (E : (a + b <? two64) = true) by lia. now rewrite E.
Qed.
Lemma chk_sub64_le dbg a b : b <= a -> chk_sub 64 dbg a b = Ok (a - b).
Proof. intros H. unfold chk_sub. assert (E : (b <=? a) = true) by lia. now rewrite E. Qed.

Lemma lookup_id_in dbg p l id :
  p + l < two64 -> p <= id -> id <= p + l -> lookup_id_ptrs dbg p l id = Ok (Some (id - p)).
Proof.
  intros H1 H2 H3. unfold lookup_id_ptrs. rewrite chk_add64_small by exact H1. cbn [bind].
  assert (E : ((p <=? id) && (id <=? p + l)) = true) by lia. rewrite E.
  rewrite chk_sub64_le by exact H2. reflexivity.
Qed.
Lemma lookup_id_out dbg p l id :
  p + l < two64 -> (id < p \/ p + l < id) -> lookup_id_ptrs dbg p l id = Ok None.
Proof.
  intros H1 H2. unfold lookup_id_ptrs. rewrite chk_add64_small by exact H1. cbn [bind].
  assert (E : ((p <=? id) && (id <=? p + l)) = false) by lia. now rewrite E.
Qed.
Lemma lookup_id_some dbg p l id k :
  lookup_id_ptrs dbg p l id = Ok (Some k) -> id = p + k /\ k <= l.
Proof.
  unfold lookup_id_ptrs, chk_add, chk_sub. change (2 ^ 64) with two64.
  destruct (p + l <? two64) eqn:E0; cbn [bind].
  - destruct ((p <=? id) && (id <=? p + l)) eqn:E; [|discriminate].
    assert (E1 : (p <=? id) = true) by lia. rewrite E1. cbn [bind]. intros [= <-]. lia.
  - destruct dbg; [discriminate|]. cbn [bind]. unfold wrapN. change (2 ^ 64) with two64.
    destruct ((p <=? id) && (id <=? (p + l) mod two64)) eqn:E; [|discriminate].
    assert (E1 : (p <=? id) = true) by lia. rewrite E1. cbn [bind]. intros [= <-].
    assert ((p + l) mod two64 <= p + l) by (apply N.mod_le; unfold two64; lia). lia.
Qed.

Lemma ptr_bound r c : Inv r -> wf_alloc r -> Sub r c -> ptr c + len c <= ptr r + len r /\ ptr r + len r < two64.
Proof.
  unfold Inv, wf_alloc, Sub, ptr. intros HI HW (H1 & H2 & H3 & H4). rewrite H2. lia.
Qed.

Lemma offset_ids_lemma dbg root c :
  Inv root -> wf_alloc root -> Sub root c ->
  (* the id of any reader inside the section maps back to its position ... *)
  er_lookup_offset_id dbg root (er_offset_id c) = Ok (Some (off c - off root)) /\
  (* ... so does the id of its end ... *)
  er_lookup_offset_id dbg root (er_offset_id c + len c) = Ok (Some (off c + len c - off root)) /\
  (* ... an id is accepted only if it is an address of the section, and names that position ... *)
  (forall id k, er_lookup_offset_id dbg root id = Ok (Some k) ->
                id = er_offset_id root + k /\ k <= len root) /\
  (* ... and everything outside the section is rejected *)
  (forall id, id < er_offset_id root \/ er_offset_id root + len root < id ->
              er_lookup_offset_id dbg root id = Ok None).
Proof.
  intros HI HW HS. pose proof (ptr_bound _ _ HI HW HS) as [Hb1 Hb2].
  unfold er_lookup_offset_id, er_offset_id.
  assert (Hp : ptr c = ptr root + (off c - off root)).
  { destruct HS as (_ & H2 & H3 & _). unfold ptr. rewrite H2. lia. }
  repeat split.
  - rewrite lookup_id_in; try lia. f_equal. f_equal. lia.
  - rewrite lookup_id_in; try lia. f_equal. f_equal. destruct HS as (_ & _ & H3 & _). lia.
  - apply (lookup_id_some dbg _ _ _ _ H).
  - apply (lookup_id_some dbg _ _ _ _ H).
  - intros id Hid. apply lookup_id_out; [lia | exact Hid].
Qed.

Lemma offset_from_ptrs_in dbg p pl bp bl :
  bp + bl < two64 -> bp <= p -> p + pl <= bp + bl -> offset_from_ptrs dbg p pl bp bl = Ok (p - bp).
Proof.
  intros H1 H2 H3. unfold offset_from_ptrs.
  assert (E1 : (bp <=? p) = true) by lia. rewrite E1. cbn [negb]. rewrite andb_false_r.
  destruct dbg.
  - rewrite !chk_add64_small by lia. cbn [bind].
    assert (E2 : (p + pl <=? bp + bl) = true) by lia. rewrite E2. cbn [negb andb].
    now apply chk_sub64_le.
  - cbn [bind andb]. now apply chk_sub64_le.
Qed.

Lemma offset_from_lemma dbg root c :
  Inv root -> wf_alloc root -> Sub root c ->
  er_offset_from dbg c root = Ok (off c - off root).
Proof.
  intros HI HW HS. pose proof (ptr_bound _ _ HI HW HS) as [Hb1 Hb2].
  unfold er_offset_from.
  assert (Hp : ptr c = ptr root + (off c - off root)).
  { destruct HS as (_ & H2 & H3 & _). unfold ptr. rewrite H2. lia. }
  rewrite offset_from_ptrs_in; try lia. f_equal. lia.
Qed.

(* every reader of every history maps back to its position through the section's lookup *)
Lemma history_offset_ids_lemma dbg be b a (ops : list pop) :
  a + N.of_nat (length b) < two64 ->
  Forall (fun c => er_lookup_offset_id dbg (new b a) (er_offset_id c) = Ok (Some (off c)) /\
                   er_offset_from dbg c (new b a) = Ok (off c))
         (fst (prun dbg be (new b a) [new b a] ops)).
Proof.
  intros HW.
  destruct (prun_Sub dbg be (new b a) (new b a) ops [new b a]) as [H1 _].
  { constructor; [apply Sub_refl | constructor]. }
  eapply Forall_impl; [|exact H1]. intros c HS.
  assert (HWr : wf_alloc (new b a)) by exact HW.
  destruct (offset_ids_lemma dbg (new b a) c (new_Inv b a) HWr HS) as (E1 & _).
  rewrite E1, (offset_from_lemma dbg (new b a) c (new_Inv b a) HWr HS).
  cbn [new off]. rewrite N.sub_0_r. split; reflexivity.
Qed.

(* ------------------------------------------------------------------ RelocateReader with the identity relocation *)
Definition RInv (rc : rrd cur) : Prop :=
  Inv (rsection rc) /\ wf_alloc (rsection rc) /\ Sub (rsection rc) (rreader rc).

Lemma set_reader_id {R} (rc : rrd R) : set_reader rc (rreader rc) = rc.
Proof. destruct rc; reflexivity. Qed.

Lemma lift_pure {A} rc (r : res A) (f : A -> oval (rrd cur)) (g : A -> oval cur) :
  (forall a, f a = lift_val rc (g a)) ->
  (rc, rmap f r) = lift_out rc (rreader rc, rmap g r).
Proof.
  intros H. unfold lift_out. cbn [fst snd]. rewrite set_reader_id. f_equal.
  destruct r; cbn; try reflexivity. now rewrite H.
Qed.

Lemma mmap_on_reader {A} rc (m : M cur A) (f : A -> oval (rrd cur)) (g : A -> oval cur) :
  (forall a, f a = lift_val rc (g a)) ->
  mmap f (on_reader m) rc = lift_out rc (mmap g m (rreader rc)).
Proof.
  intros H. unfold mmap, mbind, mret, on_reader, lift_out.
  destruct (m (rreader rc)) as [c' [a|e| |]]; cbn; try reflexivity. now rewrite H.
Qed.

Lemma g_read_un_rr {R} (I : reader_impl R) w be rc :
  g_read_un (rr_req I) w be rc = on_reader (g_read_un (i_req I) w be) rc.
Proof.
  unfold g_read_un, mbind, mret. cbn [q_read_slice rr_req]. unfold on_reader.
  destruct (q_read_slice (i_req I) (N.of_nat w) (rreader rc)) as [c' [bs|e| |]]; reflexivity.
Qed.
Lemma g_read_in_rr {R} (I : reader_impl R) w be rc :
  g_read_in (rr_req I) w be rc = on_reader (g_read_in (i_req I) w be) rc.
Proof.
  unfold g_read_in, mbind. rewrite (g_read_un_rr I). unfold on_reader, mret.
  destruct (g_read_un (i_req I) w be (rreader rc)) as [c' [v|e| |]]; reflexivity.
Qed.
Lemma g_read_uint_rr {R} (I : reader_impl R) n be rc :
  g_read_uint (rr_req I) n be rc = on_reader (g_read_uint (i_req I) n be) rc.
Proof.
  unfold g_read_uint. destruct (Nat.ltb 8 n).
  - unfold mpanic, on_reader. now rewrite set_reader_id.
  - apply (g_read_un_rr I).
Qed.
Lemma g_read_word_rr {R} (I : reader_impl R) be f rc :
  g_read_word (rr_req I) be f rc = on_reader (g_read_word (i_req I) be f) rc.
Proof. unfold g_read_word. destruct f; apply (g_read_un_rr I). Qed.

Lemma rr_relocated_id dbg (inner : M cur N) rc :
  RInv rc ->
  mmap VNum (rr_relocated (er_impl dbg) inner rel_id) rc = lift_out rc (mmap VNum inner (rreader rc)).
Proof.
  intros (HI & HW & HS). unfold rr_relocated, mmap, mbind, mret, lift_out.
  cbn [i_req er_impl default_impl q_offset_from er_req].
  rewrite (offset_from_lemma dbg _ _ HI HW HS).
  destruct (inner (rreader rc)) as [c' [v|e| |]]; reflexivity.
Qed.

Lemma rr_split_er dbg n rc :
  mmap VRd (rr_split (er_impl dbg) n) rc = lift_out rc (spec_step dbg false (rreader rc) (rreader rc) (CSplit n)).
Proof.
  unfold rr_split, mmap, mbind, mret, lift_out. cbn [i_req er_impl default_impl q_truncate q_skip er_req spec_step].
  unfold mprim. rewrite er_truncate_eq, er_skip_eq.
  destruct (len (rreader rc) <? n); cbn; [now rewrite set_reader_id | reflexivity].
Qed.

Lemma rr_read_cstr_er dbg rc :
  mmap VRd (g_read_cstr (rr_req (er_impl dbg))) rc =
  lift_out rc (spec_step dbg false (rreader rc) (rreader rc) CReadCstr).
Proof.
  unfold mmap, g_read_cstr, mbind, mret, mget, lift_out.
  cbn [q_find q_split q_skip rr_req i_req er_impl default_impl er_req spec_step].
  unfold rr_split, on_reader. cbn [i_req er_impl default_impl q_truncate q_skip er_req].
  unfold mprim, er_find.
  destruct (position x00 (bytes (rreader rc))) as [i|] eqn:P; cbn [fst snd rmap bind].
  2: now rewrite set_reader_id.
  pose proof (position_lt _ _ _ P) as Hlt.
  pose proof (view_of_length_le (buf (rreader rc)) (off (rreader rc)) (len (rreader rc))) as Hle.
  fold (bytes (rreader rc)) in Hle.
  rewrite er_truncate_eq, er_skip_eq.
  assert (E1 : (len (rreader rc) <? i) = false) by lia. rewrite E1.
  cbn [rreader set_reader].
  rewrite er_skip_eq. assert (E2 : (len (adv (rreader rc) i) <? 1) = false) by (cbn; lia). rewrite E2.
  rewrite adv_adv by lia. reflexivity.
Qed.

Lemma reloc_identity_lemma dbg be root rc op :
  RInv rc ->
  rstep dbg be root rc op = lift_out rc (step dbg be (rreader root) (rreader rc) op).
Proof.
  intros HR. unfold rstep, step, gstep.
  cbn [i_req rr_impl i_read_address i_read_offset i_read_sized_offset er_impl default_impl].
  destruct op.
  - cbn [q_read_slice rr_req]. now apply mmap_on_reader.
  - unfold mmap at 1, mbind at 1. rewrite g_read_un_rr.
    change (mmap VNum (on_reader (g_read_un (i_req (er_impl dbg)) w be)) rc = lift_out rc (mmap VNum (g_read_un (er_req dbg) w be) (rreader rc))).
    now apply mmap_on_reader.
  - unfold mmap at 1, mbind at 1. rewrite g_read_in_rr.
    change (mmap VInt (on_reader (g_read_in (i_req (er_impl dbg)) w be)) rc = lift_out rc (mmap VInt (g_read_in (er_req dbg) w be) (rreader rc))).
    now apply mmap_on_reader.
  - unfold mmap at 1, mbind at 1. rewrite g_read_uint_rr.
    change (mmap VNum (on_reader (g_read_uint (i_req (er_impl dbg)) n be)) rc = lift_out rc (mmap VNum (g_read_uint (er_req dbg) n be) (rreader rc))).
    now apply mmap_on_reader.
  - cbn [q_skip rr_req]. now apply mmap_on_reader.
  - change (mmap VRd (rr_split (er_impl dbg) n) rc =
            lift_out rc (step dbg be (rreader root) (rreader rc) (CSplit n))).
    rewrite rr_split_er. now rewrite step_spec.
  - cbn [q_truncate rr_req]. now apply mmap_on_reader.
  - cbn [q_empty rr_req]. now apply mmap_on_reader.
  - cbn [q_find rr_req]. now apply lift_pure.
  - cbn [q_len rr_req]. now apply (lift_pure rc (Ok (len (rreader rc))) VNum VNum).
  - unfold g_is_empty. cbn [q_len rr_req].
    now apply (lift_pure rc (Ok (len (rreader rc) =? 0)) VBool VBool).
  - cbn [q_offset_id rr_req]. now apply (lift_pure rc (Ok (er_offset_id (rreader rc))) VNum VNum).
  - cbn [q_lookup_offset_id rr_req]. now apply lift_pure.
  - cbn [q_lookup_offset_id q_offset_id rr_req]. now apply lift_pure.
  - cbn [q_offset_from rr_req]. now apply lift_pure.
  - cbn [q_to_slice rr_req]. now apply (lift_pure rc (Ok (bytes (rreader rc))) VBytes VBytes).
  - cbn [q_to_string rr_req]. now apply lift_pure.
  - change (mmap VRd (g_read_cstr (rr_req (er_impl dbg))) rc =
            lift_out rc (step dbg be (rreader root) (rreader rc) CReadCstr)).
    rewrite rr_read_cstr_er. now rewrite step_spec.
  - now apply rr_relocated_id.
  - now apply rr_relocated_id.
  - unfold mmap at 1, mbind at 1. rewrite g_read_word_rr.
    change (mmap VNum (on_reader (g_read_word (i_req (er_impl dbg)) be fmt64)) rc = lift_out rc (mmap VNum (g_read_word (er_req dbg) be fmt64) (rreader rc))).
    now apply mmap_on_reader.
  - now apply rr_relocated_id.
Qed.

Lemma rrun_cons dbg be root rc op ops :
  rrun dbg be root rc (op :: ops) =
  (fst (rrun dbg be root (fst (rstep dbg be root rc op)) ops),
   snd (rstep dbg be root rc op) :: snd (rrun dbg be root (fst (rstep dbg be root rc op)) ops)).
Proof.
  unfold rrun, rstep. cbn [grun].
  destruct (gstep (rr_impl (er_impl dbg) rel_id rel_id) be root rc op) as [c1 o]. cbn [fst snd].
  destruct (grun (rr_impl (er_impl dbg) rel_id rel_id) be root c1 ops) as [c2 os]. reflexivity.
Qed.

Lemma lift_val_set rc c v : lift_val (set_reader rc c) v = lift_val rc v.
Proof. destruct v; reflexivity. Qed.

Lemma RInv_step dbg be root rc op :
  RInv rc -> RInv (set_reader rc (fst (step dbg be root (rreader rc) op))).
Proof.
  intros (HI & HW & HS). split; [exact HI|]. split; [exact HW|]. cbn [rsection rreader set_reader].
  eapply Sub_trans; [exact HS | apply step_Sub].
Qed.

Lemma reloc_identity_histories_lemma dbg be root ops : forall rc,
  RInv rc ->
  rrun dbg be root rc ops =
  (set_reader rc (fst (run dbg be (rreader root) (rreader rc) ops)),
   map (rmap (lift_val rc)) (snd (run dbg be (rreader root) (rreader rc) ops))).
Proof.
  induction ops as [|op ops IH]; intros rc HR.
  - cbn. now rewrite set_reader_id.
  - rewrite rrun_cons, run_cons, (reloc_identity_lemma dbg be root rc op HR).
    unfold lift_out. cbn [fst snd].
    rewrite (IH _ (RInv_step dbg be (rreader root) rc op HR)).
    cbn [fst snd rreader set_reader map]. reflexivity.
Qed.

Lemma RInv_new b a : a + N.of_nat (length b) < two64 -> RInv (rr_new (new b a)).
Proof.
  intros H. split; [apply new_Inv|]. split; [exact H | apply Sub_refl].
Qed.

(* ------------------------------------------------------------------ EndianSlice = EndianReader *)
Definition abs_val (v : oval cur) : oval srd :=
  match v with
  | VUnit => VUnit | VNum n => VNum n | VInt z => VInt z | VBool b => VBool b
  | VBytes bs => VBytes bs | VRd r => VRd (abs r) | VOpt o => VOpt o
  end.
Definition abs_out (x : cur * res (oval cur)) : srd * res (oval srd) :=
  (abs (fst x), rmap abs_val (snd x)).

Lemma slen_abs c : Inv c -> slen (abs c) = len c.
Proof. intros H. unfold slen, abs; cbn [swin]. now apply bytes_length. Qed.

Lemma abs_adv c n :
  n <= len c -> abs (adv c n) = mkS (saddr (abs c) + n) (skipn (N.to_nat n) (swin (abs c))).
Proof.
  intros H. unfold abs at 1. rewrite bytes_adv by exact H. cbn [abs saddr swin]. f_equal.
  unfold ptr, adv, with_win; cbn. lia.
Qed.
Lemma abs_win c n :
  n <= len c -> abs (with_win c (off c) n) = mkS (saddr (abs c)) (firstn (N.to_nat n) (swin (abs c))).
Proof.
  intros H. unfold abs at 1. rewrite bytes_win by exact H. reflexivity.
Qed.

Lemma sl_read_slice_abs c n :
  Inv c ->
  sl_read_slice (abs c) n =
  if len c <? n then Err EUnexpectedEof else Ok (view_of (buf c) (off c) n, abs (adv c n)).
Proof.
  intros HI. unfold sl_read_slice. rewrite slen_abs by exact HI.
  destruct (len c <? n) eqn:E; [reflexivity|].
  rewrite abs_adv by lia. f_equal. f_equal. cbn [abs swin]. unfold bytes. apply firstn_view. lia.
Qed.
Lemma sl_skip_abs c n :
  Inv c ->
  sl_skip (abs c) n = if len c <? n then Err EUnexpectedEof else Ok (tt, abs (adv c n)).
Proof.
  intros HI. unfold sl_skip. rewrite slen_abs by exact HI.
  destruct (len c <? n) eqn:E; [reflexivity|]. now rewrite abs_adv by lia.
Qed.
Lemma sl_truncate_abs c n :
  Inv c ->
  sl_truncate (abs c) n =
  if len c <? n then Err EUnexpectedEof else Ok (tt, abs (with_win c (off c) n)).
Proof.
  intros HI. unfold sl_truncate. rewrite slen_abs by exact HI.
  destruct (len c <? n) eqn:E; [reflexivity|]. now rewrite abs_win by lia.
Qed.
Lemma sl_split_abs c n :
  Inv c ->
  sl_split (abs c) n =
  if len c <? n then Err EUnexpectedEof else Ok (abs (with_win c (off c) n), abs (adv c n)).
Proof.
  intros HI. unfold sl_split. rewrite sl_read_slice_abs by exact HI.
  destruct (len c <? n) eqn:E; [reflexivity|]. cbn [bind].
  rewrite abs_win by lia. f_equal. f_equal. f_equal. cbn [abs swin]. unfold bytes.
  symmetry. apply firstn_view. lia.
Qed.

Lemma sl_read_un_eq dbg be c w (f : N -> oval srd) (g : N -> oval cur) :
  Inv c -> (forall v, f v = abs_val (g v)) ->
  mmap f (g_read_un (sl_req dbg) w be) (abs c) = abs_out (spec_read_un be c w g).
Proof.
  intros HI Hf. unfold mmap, g_read_un, mbind, mret, spec_read_un, abs_out.
  cbn [q_read_slice sl_req]. unfold mprim. rewrite sl_read_slice_abs by exact HI.
  destruct (len c <? N.of_nat w); cbn [fst snd rmap bind]; [reflexivity|].
  now rewrite Hf.
Qed.

Lemma sl_read_in_eq dbg be c w :
  Inv c ->
  mmap VInt (g_read_in (sl_req dbg) w be) (abs c) =
  abs_out (spec_read_un be c w (fun v => VInt (to_signed (8 * N.of_nat w) v))).
Proof.
  intros HI. unfold mmap, g_read_in, g_read_un, mbind, mret, spec_read_un, abs_out.
  cbn [q_read_slice sl_req]. unfold mprim. rewrite sl_read_slice_abs by exact HI.
  destruct (len c <? N.of_nat w); reflexivity.
Qed.

Lemma abs_pure {A} c (r : res A) (f : A -> oval srd) (g : A -> oval cur) :
  (forall a, f a = abs_val (g a)) -> (abs c, rmap f r) = abs_out (c, rmap g r).
Proof.
  intros H. unfold abs_out. cbn [fst snd]. f_equal. destruct r; cbn; try reflexivity. now rewrite H.
Qed.

Lemma sl_read_cstr_eq dbg c :
  Inv c ->
  mmap VRd (g_read_cstr (sl_req dbg)) (abs c) =
  abs_out (spec_step dbg false c c CReadCstr).
Proof.
  intros HI. unfold mmap, g_read_cstr, mbind, mret, mget, abs_out.
  cbn [q_find q_split q_skip sl_req spec_step]. unfold mprim, sl_find. cbn [abs swin].
  destruct (position x00 (bytes c)) as [i|] eqn:P; cbn [fst snd rmap bind]; [|reflexivity].
  pose proof (position_lt _ _ _ P) as Hlt. rewrite (bytes_length c HI) in Hlt.
  change (mkS (ptr c) (bytes c)) with (abs c).
  rewrite sl_split_abs by exact HI. assert (E1 : (len c <? i) = false) by lia. rewrite E1.
  assert (HIa : Inv (adv c i)) by (eapply Sub_Inv; [exact HI | apply adv_Sub; lia]).
  rewrite sl_skip_abs by exact HIa.
  assert (E2 : (len (adv c i) <? 1) = false) by (cbn; lia). rewrite E2.
  rewrite adv_adv by lia. reflexivity.
Qed.

Lemma kinds_agree_lemma dbg be root c op :
  Inv c -> Inv root ->
  sstep dbg be (abs root) (abs c) op = abs_out (step dbg be root c op).
Proof.
  intros HI HIr. rewrite step_spec. unfold sstep, gstep, sl_impl, default_impl.
  cbn [i_req i_read_address i_read_offset i_read_sized_offset].
  destruct op; cbn [spec_step].
  - unfold mmap, mbind, mret, abs_out. cbn [q_read_slice sl_req]. unfold mprim.
    rewrite sl_read_slice_abs by exact HI. destruct (len c <? n); reflexivity.
  - now apply sl_read_un_eq.
  - now apply sl_read_in_eq.
  - unfold g_read_uint. destruct (Nat.ltb 8 n); [reflexivity | now apply sl_read_un_eq].
  - unfold mmap, mbind, mret, abs_out. cbn [q_skip sl_req]. unfold mprim.
    rewrite sl_skip_abs by exact HI. destruct (len c <? n); reflexivity.
  - unfold mmap, mbind, mret, abs_out. cbn [q_split sl_req]. unfold mprim.
    rewrite sl_split_abs by exact HI. destruct (len c <? n); reflexivity.
  - unfold mmap, mbind, mret, abs_out. cbn [q_truncate sl_req]. unfold mprim.
    rewrite sl_truncate_abs by exact HI. destruct (len c <? n); reflexivity.
  - (* empty: `&self.slice[..0]` keeps the address, as SubRange::truncate(0) keeps ptr *)
    unfold mmap, mbind, mret, abs_out. cbn [q_empty sl_req]. unfold mprim, sl_empty. cbn [fst snd rmap bind].
    reflexivity.
  - cbn [q_find sl_req]. unfold sl_find. cbn [abs swin]. change (mkS (ptr c) (bytes c)) with (abs c).
    destruct (position b (bytes c)); reflexivity.
  - cbn [q_len sl_req]. rewrite slen_abs by exact HI. reflexivity.
  - unfold g_is_empty. cbn [q_len sl_req]. rewrite slen_abs by exact HI. reflexivity.
  - reflexivity.
  - cbn [q_lookup_offset_id sl_req]. unfold sl_lookup_offset_id. rewrite slen_abs by exact HI.
    now apply abs_pure.
  - cbn [q_lookup_offset_id q_offset_id sl_req]. unfold sl_lookup_offset_id. rewrite slen_abs by exact HIr.
    now apply abs_pure.
  - cbn [q_offset_from sl_req]. unfold sl_offset_from. rewrite !slen_abs by assumption.
    now apply abs_pure.
  - reflexivity.
  - cbn [q_to_string sl_req]. unfold sl_to_string. cbn [abs swin]. change (mkS (ptr c) (bytes c)) with (abs c).
    destruct (utf8_valid (bytes c)); reflexivity.
  - rewrite (sl_read_cstr_eq dbg c HI). reflexivity.
  - unfold g_read_address.
    destruct (size =? 1); [now apply sl_read_un_eq|]. destruct (size =? 2); [now apply sl_read_un_eq|].
    destruct (size =? 4); [now apply sl_read_un_eq|]. destruct (size =? 8); [now apply sl_read_un_eq|]. reflexivity.
  - unfold g_read_word. destruct fmt64; now apply sl_read_un_eq.
  - unfold g_read_word. destruct fmt64; now apply sl_read_un_eq.
  - unfold g_read_sized_offset.
    destruct (size =? 1); [now apply sl_read_un_eq|]. destruct (size =? 2); [now apply sl_read_un_eq|].
    destruct (size =? 4); [now apply sl_read_un_eq|]. destruct (size =? 8); [now apply sl_read_un_eq|]. reflexivity.
Qed.

Lemma srun_cons dbg be root s op ops :
  srun dbg be root s (op :: ops) =
  (fst (srun dbg be root (fst (sstep dbg be root s op)) ops),
   snd (sstep dbg be root s op) :: snd (srun dbg be root (fst (sstep dbg be root s op)) ops)).
Proof.
  unfold srun, sstep. cbn [grun].
  destruct (gstep (sl_impl dbg) be root s op) as [c1 o]. cbn [fst snd].
  destruct (grun (sl_impl dbg) be root c1 ops) as [c2 os]. reflexivity.
Qed.

Lemma kinds_agree_histories_lemma dbg be root ops : forall c,
  Inv c -> Inv root ->
  srun dbg be (abs root) (abs c) ops =
  (abs (fst (run dbg be root c ops)), map (rmap abs_val) (snd (run dbg be root c ops))).
Proof.
  induction ops as [|op ops IH]; intros c HI HIr.
  - reflexivity.
  - rewrite srun_cons, run_cons.
    rewrite (kinds_agree_lemma dbg be root c op HI HIr).
    unfold abs_out. cbn [fst snd].
    rewrite IH; [reflexivity | | exact HIr].
    now apply inv_preserved_lemma.
Qed.

(* ------------------------------------------------------------------ find *)
Lemma position_spec b l i : position b l = Some i <-> first_occurrence b l i.
Proof.
  split.
  - revert i. induction l as [|x l IH]; intros i; cbn [position]; [discriminate|].
    destruct (b2n x =? b2n b) eqn:E.
    + intros [= <-]. apply N.eqb_eq, b2n_inj in E. subst x.
      exists [], l. repeat split. intros [].
    + destruct (position b l) as [j|]; [|discriminate]. intros [= <-].
      destruct (IH j eq_refl) as (pre & post & -> & Hn & HL).
      exists (x :: pre), post. repeat split.
      * intros [->|Hin]; [rewrite N.eqb_refl in E; discriminate | now apply Hn].
      * cbn [length]. lia.
  - intros (pre & post & -> & Hn & HL). revert i HL.
    induction pre as [|x pre IH]; intros i HL; cbn [app position].
    + rewrite N.eqb_refl. cbn in HL. now subst.
    + destruct (b2n x =? b2n b) eqn:E.
      * apply N.eqb_eq, b2n_inj in E. subst x. exfalso. apply Hn. now left.
      * rewrite (IH (fun H => Hn (or_intror H)) (N.of_nat (length pre)) eq_refl).
        f_equal. cbn [length] in HL. lia.
Qed.

Lemma position_none b l : position b l = None <-> ~ In b l.
Proof.
  induction l as [|x l IH]; cbn [position In]; [tauto|].
  destruct (b2n x =? b2n b) eqn:E.
  - apply N.eqb_eq, b2n_inj in E. subst x. split; [discriminate | intros H; exfalso; apply H; now left].
  - destruct (position b l) as [j|].
    + split; [discriminate|]. intros H. exfalso.
      assert (Hn : ~ In b l) by (intros Hin; apply H; now right).
      apply IH in Hn. discriminate.
    + split; [|reflexivity]. intros _ [->|Hin]; [rewrite N.eqb_refl in E; discriminate|].
      now apply (proj1 IH eq_refl).
Qed.

Lemma find_spec_lemma dbg be root c b :
  Inv c ->
  match snd (step dbg be root c (CFind b)) with
  | Ok (VNum i) => first_occurrence b (bytes c) i
  | Err EUnexpectedEof => ~ In b (bytes c)
  | _ => False
  end.
Proof.
  intros _. rewrite step_spec. cbn [spec_step snd].
  destruct (position b (bytes c)) as [i|] eqn:P.
  - now apply position_spec.
  - now apply position_none.
Qed.

(* ------------------------------------------------------------------ to_string accepts exactly well-formed UTF-8 *)
Lemma inr_rng lo hi b : inr lo hi b = true <-> rng lo hi b.
Proof. unfold inr, rng. lia. Qed.

Lemma utf8_valid_wf_fuel n : forall l, (length l <= n)%nat -> utf8_valid l = true -> wf_utf8 l.
Proof.
  induction n as [|n IH]; intros l HL.
  - destruct l; [intros _; constructor | cbn in HL; lia].
  - destruct l as [|a r]; [intros _; constructor|].
    cbn [length] in HL. cbn [utf8_valid]. destruct (b2n a <? 128) eqn:E1.
    { intros H. change (a :: r) with ([a] ++ r). constructor.
      - apply wf1. unfold rng. lia.
      - apply IH; [lia | exact H]. }
    destruct r as [|b r2]; [discriminate|]. cbn [length] in HL.
    destruct (inr 194 223 a) eqn:E2.
    { intros H. apply andb_true_iff in H as [Hb Hr].
      change (a :: b :: r2) with ([a; b] ++ r2). constructor.
      - apply wf2; now apply inr_rng.
      - apply IH; [lia | exact Hr]. }
    destruct r2 as [|c r3]; [discriminate|]. cbn [length] in HL.
    destruct (lead3 a b) eqn:E3.
    { intros H. apply andb_true_iff in H as [Hc Hr].
      assert (Hr' : wf_utf8 r3) by (apply IH; [lia | exact Hr]).
      apply inr_rng in Hc.
      change (a :: b :: c :: r3) with ([a; b; c] ++ r3). constructor; [|exact Hr'].
      unfold lead3, cont in E3.
      repeat rewrite orb_true_iff in E3. repeat rewrite andb_true_iff in E3.
      repeat rewrite inr_rng in E3.
      destruct E3 as [[[[A B]|[A B]]|[A B]]|[A B]];
        [now apply wf3_e0 | now apply wf3_e1 | now apply wf3_ed | now apply wf3_ee]. }
    destruct r3 as [|d r4]; [discriminate|]. cbn [length] in HL.
    intros H. apply andb_true_iff in H as [H Hr]. apply andb_true_iff in H as [H Hd].
    apply andb_true_iff in H as [E4 Hc].
    assert (Hr' : wf_utf8 r4) by (apply IH; [lia | exact Hr]).
    apply inr_rng in Hc. apply inr_rng in Hd.
    change (a :: b :: c :: d :: r4) with ([a; b; c; d] ++ r4). constructor; [|exact Hr'].
    unfold lead4, cont in E4.
    repeat rewrite orb_true_iff in E4. repeat rewrite andb_true_iff in E4.
    repeat rewrite inr_rng in E4.
    destruct E4 as [[[A B]|[A B]]|[A B]];
      [now apply wf4_f0 | now apply wf4_f1 | now apply wf4_f4].
Qed.

Ltac decide_ifs :=
  repeat match goal with
         | |- context [if ?g then _ else _] =>
             let E := fresh "E" in
             first [ assert (E : g = true) by lia; rewrite E; clear E
                   | assert (E : g = false) by lia; rewrite E; clear E ]
         end.

Lemma wf_utf8_valid l : wf_utf8 l -> utf8_valid l = true.
Proof.
  induction 1 as [|s r Hs Hr IH]; [reflexivity|].
  destruct Hs; cbn [app utf8_valid]; unfold lead3, lead4, cont, inr, rng in *;
    decide_ifs; rewrite ?IH; lia.
Qed.

Lemma utf8_valid_spec_lemma l : utf8_valid l = true <-> wf_utf8 l.
Proof.
  split; [apply (utf8_valid_wf_fuel (length l)); lia | apply wf_utf8_valid].
Qed.

Lemma to_string_spec_lemma dbg be root c :
  match snd (step dbg be root c CToString) with
  | Ok (VBytes bs) => bs = bytes c /\ wf_utf8 (bytes c)
  | Err EBadUtf8 => ~ wf_utf8 (bytes c)
  | _ => False
  end.
Proof.
  rewrite step_spec. cbn [spec_step snd].
  destruct (utf8_valid (bytes c)) eqn:E.
  - split; [reflexivity | now apply utf8_valid_spec_lemma].
  - intros H. apply utf8_valid_spec_lemma in H. congruence.
Qed.

(* ------------------------------------------------------------------ the only panic is read_uint(n > 8) *)
Lemma lookup_id_total dbg p l id :
  p + l < two64 -> exists o, lookup_id_ptrs dbg p l id = Ok o.
Proof.
  intros H. destruct (N.le_gt_cases p id) as [H1|H1].
  - destruct (N.le_gt_cases id (p + l)) as [H2|H2].
    + eexists. now apply lookup_id_in.
    + eexists. apply lookup_id_out; [exact H | now right].
  - eexists. apply lookup_id_out; [exact H | now left].
Qed.

Lemma spec_read_un_total be c w f :
  snd (spec_read_un be c w f) <> Panic /\ snd (spec_read_un be c w f) <> OutOfFuel.
Proof. unfold spec_read_un. destruct (len c <? N.of_nat w); cbn; split; discriminate. Qed.

Lemma only_read_uint_panics_lemma dbg be root c op :
  Inv root -> wf_alloc root -> Sub root c ->
  (snd (step dbg be root c op) = Panic -> exists n, op = CReadUint n /\ (8 < n)%nat) /\
  snd (step dbg be root c op) <> OutOfFuel.
Proof.
  intros HI HW HS. pose proof (ptr_bound _ _ HI HW HS) as [Hb1 Hb2].
  assert (Hb3 : ptr root + len root < two64) by exact Hb2.
  assert (Hc : ptr c + len c < two64) by lia.
  rewrite step_spec.
  destruct op; cbn [spec_step];
    try (split; [intros H; exfalso; revert H|]; apply spec_read_un_total);
    try (destruct (len c <? n); cbn [snd]; split; discriminate);
    try (cbn [snd]; split; discriminate).
  - destruct (Nat.ltb 8 n) eqn:E.
    + cbn [snd]. split; [intros _; exists n; split; [reflexivity | now apply Nat.ltb_lt] | discriminate].
    + split; [intros H; exfalso; revert H|]; apply spec_read_un_total.
  - cbn [snd]. destruct (position b (bytes c)); split; discriminate.
  - cbn [snd]. destruct (lookup_id_total dbg (ptr c) (len c) id Hc) as [o ->]. cbn. split; discriminate.
  - cbn [snd]. destruct (lookup_id_total dbg (ptr root) (len root) (ptr c) Hb3) as [o ->]. cbn. split; discriminate.
  - cbn [snd]. fold (er_offset_from dbg c root). rewrite (offset_from_lemma dbg root c HI HW HS). cbn. split; discriminate.
  - cbn [snd]. destruct (utf8_valid (bytes c)); split; discriminate.
  - destruct (position x00 (bytes c)); cbn [snd]; split; discriminate.
  - destruct (size =? 1); [split; [intros H; exfalso; revert H|]; apply spec_read_un_total|].
    destruct (size =? 2); [split; [intros H; exfalso; revert H|]; apply spec_read_un_total|].
    destruct (size =? 4); [split; [intros H; exfalso; revert H|]; apply spec_read_un_total|].
    destruct (size =? 8); [split; [intros H; exfalso; revert H|]; apply spec_read_un_total|].
    cbn [snd]; split; discriminate.
  - destruct fmt64; (split; [intros H; exfalso; revert H|]; apply spec_read_un_total).
  - destruct fmt64; (split; [intros H; exfalso; revert H|]; apply spec_read_un_total).
  - destruct (size =? 1); [split; [intros H; exfalso; revert H|]; apply spec_read_un_total|].
    destruct (size =? 2); [split; [intros H; exfalso; revert H|]; apply spec_read_un_total|].
    destruct (size =? 4); [split; [intros H; exfalso; revert H|]; apply spec_read_un_total|].
    destruct (size =? 8); [split; [intros H; exfalso; revert H|]; apply spec_read_un_total|].
    cbn [snd]; split; discriminate.
Qed.
