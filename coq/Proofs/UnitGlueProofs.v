(* Proofs/UnitGlueProofs.v — lemmas about Model/UnitGlue.v (the glue of src/read/dwarf.rs): the root-attribute loop of
   Unit::new_with_abbreviations = the declarative choice of Spec/UnitGlueSpec.v for every attribute list; every field
   of the returned Unit; attr_string / attr_line_string / attr_address by variant over the string and address
   tables (C08 offset tables); implicit bases; make_dwo / copy_relocated_attributes; no panic. *)
From Coq Require Import List NArith ZArith Bool Lia.
From Coq.Strings Require Import Byte.
Require Import GV.Base.Res GV.Base.Byt GV.Base.Ints GV.Model.Leb GV.Model.Prim GV.Spec.FormSpec
               GV.Model.Attr GV.Spec.Forest GV.Model.AbbrevRd GV.Model.DieRd GV.Spec.ListSpec
               GV.Spec.UnitGlueSpec GV.Model.UnitGlue.
Import ListNotations.
Local Open Scope N_scope.

Lemma last_attr_snoc f l p : last_attr f (l ++ [p]) = if f p then Some p else last_attr f l.
Proof. unfold last_attr. rewrite rev_app_distr. reflexivity. Qed.

Ltac names :=
  unfold DW_AT_name, DW_AT_comp_dir, DW_AT_low_pc, DW_AT_stmt_list, DW_AT_str_offsets_base, DW_AT_addr_base,
         DW_AT_GNU_addr_base, DW_AT_loclists_base, DW_AT_rnglists_base, DW_AT_GNU_ranges_base, DW_AT_GNU_dwo_id in *.

Ltac step_tac s p :=
  let sp := fresh "sp" in let raw := fresh "raw" in
  unfold scan_step, named, named2, val, nm; destruct p as [sp raw]; cbn [fst snd];
  generalize (attr_normalise (at_name sp) raw); generalize (at_name sp);
  let n := fresh "n" in let v := fresh "v" in intros n v; names;
  repeat (match goal with
          | |- context [N.eqb n ?c] => let E := fresh "E" in destruct (N.eqb_spec n c) as [E|E]; [subst n|]
          end);
  cbn; try reflexivity;
  destruct v; cbn; try reflexivity; destruct (sc_dwo_id s) eqn:?; cbn; congruence.

Lemma step_name s p : sc_name (scan_step s p) = if named DW_AT_name p then Some (val p) else sc_name s.
Proof. step_tac s p. Qed.
Lemma step_comp_dir s p : sc_comp_dir (scan_step s p) = if named DW_AT_comp_dir p then Some (val p) else sc_comp_dir s.
Proof. step_tac s p. Qed.
Lemma step_low_pc s p : sc_low_pc (scan_step s p) = if named DW_AT_low_pc p then Some (val p) else sc_low_pc s.
Proof. step_tac s p. Qed.
Lemma step_stmt s p :
  sc_stmt (scan_step s p) =
  if named DW_AT_stmt_list p && is_some (as_line_ref (val p)) then as_line_ref (val p) else sc_stmt s.
Proof. step_tac s p. Qed.
Lemma step_sob s p :
  sc_sob (scan_step s p) =
  if named DW_AT_str_offsets_base p && is_some (as_sob (val p)) then or_default (as_sob (val p)) 0 else sc_sob s.
Proof. step_tac s p. Qed.
Lemma step_ab s p :
  sc_ab (scan_step s p) =
  if named2 DW_AT_addr_base DW_AT_GNU_addr_base p && is_some (as_addr_base (val p))
  then or_default (as_addr_base (val p)) 0 else sc_ab s.
Proof. step_tac s p. Qed.
Lemma step_llb s p :
  sc_llb (scan_step s p) =
  if named DW_AT_loclists_base p && is_some (as_llb (val p)) then or_default (as_llb (val p)) 0 else sc_llb s.
Proof. step_tac s p. Qed.
Lemma step_rlb s p :
  sc_rlb (scan_step s p) =
  if named2 DW_AT_rnglists_base DW_AT_GNU_ranges_base p && is_some (as_rlb (val p))
  then or_default (as_rlb (val p)) 0 else sc_rlb s.
Proof. step_tac s p. Qed.
Lemma step_dwo_id s p :
  sc_dwo_id (scan_step s p) =
  match sc_dwo_id s with
  | Some i => Some i
  | None => if named DW_AT_GNU_dwo_id p && is_some (as_dwo_id (val p)) then as_dwo_id (val p) else None
  end.
Proof. step_tac s p. Qed.

(* ------------------------------------------------------------------ the whole loop *)
Lemma scan_name l : forall s0,
  sc_name (fold_left scan_step l s0) =
  match last_attr (named DW_AT_name) l with Some p => Some (val p) | None => sc_name s0 end.
Proof.
  induction l as [|x l IHl] using rev_ind; intros s0; [reflexivity|].
  rewrite fold_left_app; cbn [fold_left]. rewrite step_name, last_attr_snoc.
  destruct (named DW_AT_name x); [reflexivity|apply IHl].
Qed.
Lemma scan_comp_dir l : forall s0,
  sc_comp_dir (fold_left scan_step l s0) =
  match last_attr (named DW_AT_comp_dir) l with Some p => Some (val p) | None => sc_comp_dir s0 end.
Proof.
  induction l as [|x l IHl] using rev_ind; intros s0; [reflexivity|].
  rewrite fold_left_app; cbn [fold_left]. rewrite step_comp_dir, last_attr_snoc.
  destruct (named DW_AT_comp_dir x); [reflexivity|apply IHl].
Qed.
Lemma scan_low_pc l : forall s0,
  sc_low_pc (fold_left scan_step l s0) =
  match last_attr (named DW_AT_low_pc) l with Some p => Some (val p) | None => sc_low_pc s0 end.
Proof.
  induction l as [|x l IHl] using rev_ind; intros s0; [reflexivity|].
  rewrite fold_left_app; cbn [fold_left]. rewrite step_low_pc, last_attr_snoc.
  destruct (named DW_AT_low_pc x); [reflexivity|apply IHl].
Qed.

Lemma last_of_class_snoc sel cls l p :
  last_of_class sel cls (l ++ [p]) =
  if sel p && is_some (cls (val p)) then cls (val p) else last_of_class sel cls l.
Proof. unfold last_of_class. rewrite last_attr_snoc. destruct (sel p && is_some (cls (val p))); reflexivity. Qed.

Lemma or_default_some o d : is_some o = true -> or_default o d = or_default o 0.
Proof. destruct o; [reflexivity|discriminate]. Qed.

Lemma scan_stmt l : forall s0,
  sc_stmt (fold_left scan_step l s0) =
  match last_of_class (named DW_AT_stmt_list) as_line_ref l with Some o => Some o | None => sc_stmt s0 end.
Proof.
  induction l as [|x l IHl] using rev_ind; intros s0; [reflexivity|].
  rewrite fold_left_app; cbn [fold_left]. rewrite step_stmt, last_of_class_snoc.
  destruct (named DW_AT_stmt_list x && is_some (as_line_ref (val x))) eqn:E; [|apply IHl].
  apply andb_prop in E. destruct E as [_ E]. destruct (as_line_ref (val x)); [reflexivity|discriminate].
Qed.

(* the four bases share one shape *)
Lemma scan_base (proj : scan -> N) sel cls :
  (forall s p, proj (scan_step s p) =
               if sel p && is_some (cls (val p)) then or_default (cls (val p)) 0 else proj s) ->
  forall l s0, proj (fold_left scan_step l s0) = or_default (last_of_class sel cls l) (proj s0).
Proof.
  intros Hstep l. induction l as [|x l IHl] using rev_ind; intros s0; [reflexivity|].
  rewrite fold_left_app; cbn [fold_left]. rewrite Hstep, last_of_class_snoc.
  destruct (sel x && is_some (cls (val x))) eqn:E; [|apply IHl].
  apply andb_prop in E. destruct E as [_ E]. symmetry. apply or_default_some. exact E.
Qed.

Lemma scan_dwo_id l : forall s0,
  sc_dwo_id (fold_left scan_step l s0) =
  match sc_dwo_id s0 with
  | Some i => Some i
  | None => first_of_class (named DW_AT_GNU_dwo_id) as_dwo_id l
  end.
Proof.
  induction l as [|x l IHl]; intros s0; cbn [fold_left].
  - destruct (sc_dwo_id s0); reflexivity.
  - rewrite IHl, step_dwo_id. destruct (sc_dwo_id s0) as [i|]; [reflexivity|].
    unfold first_of_class, first_attr. cbn [find].
    destruct (named DW_AT_GNU_dwo_id x && is_some (as_dwo_id (val x))) eqn:E; [|reflexivity].
    apply andb_prop in E. destruct E as [_ E]. destruct (as_dwo_id (val x)); [reflexivity|discriminate].
Qed.

Lemma default_sob_implicit v f dwo : default_str_offsets_base v f dwo = implicit_str_offsets_base v f dwo.
Proof. unfold default_str_offsets_base, implicit_str_offsets_base, initial_length_size.
       destruct ((5 <=? v) && dwo); [destruct f; reflexivity|reflexivity]. Qed.
Lemma default_lists_implicit v f dwo : ListsRd.default_lists_base v f dwo = implicit_lists_base v f dwo.
Proof. unfold ListsRd.default_lists_base, implicit_lists_base.
       destruct ((5 <=? v) && dwo); [destruct f; reflexivity|reflexivity]. Qed.

Lemma header_dwo_id_spec t : header_dwo_id t = header_id t.
Proof. destruct t; reflexivity. Qed.

(* the fields the root entry determines, for EVERY attribute list *)
Definition scan_spec (d : dwarf) (h : unit_header) (attrs : list rattr) : scan :=
  let ch := choose attrs in
  let e := u_enc h in
  mkScan (ch_name ch) (ch_comp_dir ch) (ch_low_pc ch) (ch_stmt_list ch)
         (or_default (ch_str_offsets_base ch) (implicit_str_offsets_base (version e) (fmt64 e) (dw_dwo d)))
         (or_default (ch_addr_base ch) 0)
         (or_default (ch_loclists_base ch) (implicit_lists_base (version e) (fmt64 e) (dw_dwo d)))
         (or_default (ch_rnglists_base ch) (implicit_lists_base (version e) (fmt64 e) (dw_dwo d)))
         (match header_id (u_type h) with Some i => Some i | None => ch_gnu_dwo_id ch end).

Lemma scan_eta s : s = mkScan (sc_name s) (sc_comp_dir s) (sc_low_pc s) (sc_stmt s) (sc_sob s) (sc_ab s)
                             (sc_llb s) (sc_rlb s) (sc_dwo_id s).
Proof. destruct s; reflexivity. Qed.

Lemma scan_is_choice d h attrs : fold_left scan_step attrs (scan_init d h) = scan_spec d h attrs.
Proof.
  rewrite (scan_eta (fold_left _ _ _)). unfold scan_spec, choose.
  cbn [ch_name ch_comp_dir ch_low_pc ch_stmt_list ch_str_offsets_base ch_addr_base ch_loclists_base
       ch_rnglists_base ch_gnu_dwo_id].
  rewrite scan_name, scan_comp_dir, scan_low_pc, scan_stmt, scan_dwo_id.
  rewrite (scan_base sc_sob _ _ step_sob), (scan_base sc_ab _ _ step_ab),
          (scan_base sc_llb _ _ step_llb), (scan_base sc_rlb _ _ step_rlb).
  unfold scan_init.
  cbn [sc_name sc_comp_dir sc_low_pc sc_stmt sc_sob sc_ab sc_llb sc_rlb sc_dwo_id].
  rewrite default_sob_implicit, default_lists_implicit, header_dwo_id_spec.
  f_equal; try reflexivity; unfold option_map;
    match goal with |- context [match ?x with Some _ => _ | None => _ end] => destruct x end; reflexivity.
Qed.

(* ------------------------------------------------------------------ strings *)
Require Import GV.Proofs.ListsRdProofs.
Require GV.Proofs.AttrProofs GV.Proofs.LineRdHdrSafe GV.Proofs.NavProofs GV.Proofs.AbbrevRdProofs.

Lemma read_cstr_until bs :
  read_cstr bs = match until_nul bs with
                 | Some s => Ok (s, skipn (S (length s)) bs)
                 | None => Err EUnexpectedEof
                 end.
Proof.
  induction bs as [|b r IH]; [reflexivity|]. cbn [read_cstr until_nul].
  destruct (b2n b =? 0); [reflexivity|]. rewrite IH.
  destruct (until_nul r) as [s|]; reflexivity.
Qed.

(* DebugStr::get_str / DebugLineStr::get_str = the NUL-terminated string at the offset, or UnexpectedEof *)
Lemma get_str_spec sect off :
  get_str sect off = match cstr_at sect off with Some s => Ok s | None => Err EUnexpectedEof end.
Proof.
  unfold get_str, cstr_at, ListsRd.skip.
  destruct (N.of_nat (length sect) <? off); [reflexivity|]. cbn [bind].
  rewrite read_cstr_until. destruct (until_nul (skipn (N.to_nat off) sect)); reflexivity.
Qed.

Lemma get_str_good sect off : good (get_str sect off).
Proof. rewrite get_str_spec. destruct (cstr_at sect off); [apply good_Ok|apply good_Err]. Qed.

Definition ok_or_eof {A} (o : option A) : res A := match o with Some a => Ok a | None => Err EUnexpectedEof end.

(* attr_string, every variant of AttributeValue *)
Lemma attr_string_spec d u v :
  N.of_nat (length (dw_str_offsets d)) < two64 ->
  attr_string d u v =
  match v with
  | VString s => Ok s
  | VDebugStrRef o => ok_or_eof (cstr_at (dw_str d) o)
  | VDebugStrRefSup o =>
      match dw_sup d with
      | Some s => ok_or_eof (cstr_at s o)
      | None => Err EExpectedStringAttributeValue
      end
  | VDebugLineStrRef o => ok_or_eof (cstr_at (dw_line_str d) o)
  | VDebugStrOffsetsIndex i =>
      match str_offset_table (dw_be d) (fmt64 (u_enc (un_header u))) (dw_str_offsets d)
                             (un_str_offsets_base u) i with
      | Some o => ok_or_eof (cstr_at (dw_str d) o)
      | None => Err EUnexpectedEof
      end
  | _ => Err EExpectedStringAttributeValue
  end.
Proof.
  intros Hlen. unfold ok_or_eof.
  destruct v; try reflexivity; cbn [attr_string]; unfold dw_string, dw_line_string, dw_sup_string.
  - apply get_str_spec.
  - destruct (dw_sup d); [apply get_str_spec|reflexivity].
  - unfold string_offset. rewrite (get_str_offset_spec _ _ _ _ _ Hlen).
    destruct (str_offset_table _ _ _ _ _); cbn [bind]; [apply get_str_spec|reflexivity].
  - apply get_str_spec.
Qed.

Lemma attr_line_string_spec d v :
  attr_line_string d v =
  match v with
  | VString s => Ok s
  | VDebugStrRef o => ok_or_eof (cstr_at (dw_str d) o)
  | VDebugStrRefSup o =>
      match dw_sup d with
      | Some s => ok_or_eof (cstr_at s o)
      | None => Err EExpectedStringAttributeValue
      end
  | VDebugLineStrRef o => ok_or_eof (cstr_at (dw_line_str d) o)
  | _ => Err EExpectedStringAttributeValue
  end.
Proof.
  unfold ok_or_eof.
  destruct v; try reflexivity; cbn [attr_line_string]; unfold dw_string, dw_line_string, dw_sup_string.
  - apply get_str_spec.
  - destruct (dw_sup d); [apply get_str_spec|reflexivity].
  - apply get_str_spec.
Qed.

(* attr_line_string = attr_string on everything but an indexed string *)
Lemma attr_line_string_agrees d u v :
  (forall i, v <> VDebugStrOffsetsIndex i) -> attr_line_string d v = attr_string d u v.
Proof. intros H. destruct v; try reflexivity. exfalso. exact (H i eq_refl). Qed.

(* attr_address *)
Lemma attr_address_spec d u v :
  valid_asize (address_size (u_enc (un_header u))) = true -> N.of_nat (length (dw_addr d)) < two64 ->
  attr_address d u v =
  match v with
  | VAddr a => Ok (Some a)
  | VDebugAddrIndex i =>
      match addr_table (dw_be d) (address_size (u_enc (un_header u))) (dw_addr d) (un_addr_base u) i with
      | Some a => Ok (Some a)
      | None => Err EUnexpectedEof
      end
  | _ => Ok None
  end.
Proof.
  intros Hv Hlen. destruct v; try reflexivity. cbn [attr_address]. unfold address.
  rewrite (get_address_spec _ _ _ _ _ Hv Hlen). destruct (addr_table _ _ _ _ _); reflexivity.
Qed.

Lemma attr_string_good d u v : good (attr_string d u v).
Proof.
  destruct v; cbn [attr_string]; try apply good_Err; try apply good_Ok;
    unfold dw_string, dw_line_string, dw_sup_string; try apply get_str_good.
  - destruct (dw_sup d); [apply get_str_good|apply good_Err].
  - unfold string_offset. apply good_bind; [apply c08_no_panic_tables; exact 1|intros; apply get_str_good].
Qed.

Lemma attr_address_good d u v : good (attr_address d u v).
Proof.
  destruct v; cbn [attr_address]; try apply good_Ok.
  unfold address. apply good_bind; [apply c08_no_panic_tables; exact false|intros; apply good_Ok].
Qed.

(* ------------------------------------------------------------------ Unit::new *)
Lemma attr_string_ext d u u' v :
  un_header u = un_header u' -> un_str_offsets_base u = un_str_offsets_base u' ->
  attr_string d u v = attr_string d u' v.
Proof. intros H1 H2. destruct v; try reflexivity. cbn [attr_string]. unfold string_offset. rewrite H1, H2. reflexivity. Qed.

Lemma attr_address_ext d u u' v :
  un_header u = un_header u' -> un_addr_base u = un_addr_base u' ->
  attr_address d u v = attr_address d u' v.
Proof. intros H1 H2. destruct v; try reflexivity. cbn [attr_address]. unfold address. rewrite H1, H2. reflexivity. Qed.

Definition opt_of_res {A} (r : res A) : option A := match r with Ok a => Some a | _ => None end.

(* every field of the Unit that Unit::new returns, in terms of the choice made among the root attributes and of
   the FINISHED unit itself: name, comp_dir and low_pc are resolved against the bases the unit ends up with,
   wherever in the attribute list those bases were given *)
Lemma unit_of_root_fields dbg d h tbl root u :
  unit_of_root dbg d h tbl root = Ok u ->
  let sp := scan_spec d h (d_attrs root) in
  un_header u = h /\ un_abbrevs u = tbl /\
  un_str_offsets_base u = sc_sob sp /\ un_addr_base u = sc_ab sp /\
  un_loclists_base u = sc_llb sp /\ un_rnglists_base u = sc_rlb sp /\ un_dwo_id u = sc_dwo_id sp /\
  un_name u = match sc_name sp with Some v => opt_of_res (attr_string d u v) | None => None end /\
  un_comp_dir u = match sc_comp_dir sp with Some v => opt_of_res (attr_string d u v) | None => None end /\
  un_low_pc u = match sc_low_pc sp with
                | Some v => match attr_address d u v with Ok (Some a) => a | _ => 0 end
                | None => 0
                end /\
  match sc_stmt sp with
  | None => un_line_program u = None
  | Some off =>
      exists p, line_program dbg d off (address_size (u_enc h)) (un_comp_dir u) (un_name u) = Ok p /\
                un_line_program u = Some p
  end.
Proof.
  unfold unit_of_root. rewrite scan_is_choice. intros H. set (sp := scan_spec d h (d_attrs root)) in *.
  set (u0 := mkU h tbl None None 0 (sc_sob sp) (sc_ab sp) (sc_llb sp) (sc_rlb sp) None (sc_dwo_id sp)) in H.
  destruct (match sc_name sp with Some v => res_ok (attr_string d u0 v) | None => Ok None end) as [name| | |] eqn:En;
    cbn [bind] in H; try discriminate.
  destruct (match sc_comp_dir sp with Some v => res_ok (attr_string d u0 v) | None => Ok None end) as [cd| | |] eqn:Ec;
    cbn [bind] in H; try discriminate.
  destruct (match sc_stmt sp with
            | Some off => let* p := line_program dbg d off (address_size (u_enc h)) cd name in Ok (Some p)
            | None => Ok None end) as [lp| | |] eqn:El; cbn [bind] in H; try discriminate.
  destruct (match sc_low_pc sp with
            | Some v => let* o := attr_address d u0 v in Ok match o with Some a => a | None => 0 end
            | None => Ok 0 end) as [low| | |] eqn:Ea; cbn [bind] in H; try discriminate.
  inversion H; subst u; clear H.
  cbn [un_header un_abbrevs un_str_offsets_base un_addr_base un_loclists_base un_rnglists_base un_dwo_id
       un_name un_comp_dir un_low_pc un_line_program].
  repeat (split; [reflexivity|]).
  set (u := mkU h tbl name cd low (sc_sob sp) (sc_ab sp) (sc_llb sp) (sc_rlb sp) lp (sc_dwo_id sp)).
  assert (Hs : forall v, attr_string d u v = attr_string d u0 v) by (intros; apply attr_string_ext; reflexivity).
  assert (Ha : forall v, attr_address d u v = attr_address d u0 v) by (intros; apply attr_address_ext; reflexivity).
  split; [|split; [|split]].
  - destruct (sc_name sp) as [v|]; [|congruence]. rewrite Hs.
    destruct (attr_string d u0 v); cbn [res_ok opt_of_res] in *; congruence.
  - destruct (sc_comp_dir sp) as [v|]; [|congruence]. rewrite Hs.
    destruct (attr_string d u0 v); cbn [res_ok opt_of_res] in *; congruence.
  - destruct (sc_low_pc sp) as [v|]; [|congruence]. rewrite Ha.
    destruct (attr_address d u0 v) as [[a|]| | |]; cbn [bind] in Ea; congruence.
  - destruct (sc_stmt sp) as [off|]; [|congruence].
    destruct (line_program dbg d off (address_size (u_enc h)) cd name) as [p| | |]; cbn [bind] in El; try discriminate.
    exists p. split; [reflexivity|congruence].
Qed.

(* Unit::new fails only through the line program or through the address of DW_AT_low_pc (name and comp_dir
   failures are swallowed by `.ok()`), and in that order *)
Lemma unit_of_root_error dbg d h tbl root e :
  unit_of_root dbg d h tbl root = Err e ->
  let sp := scan_spec d h (d_attrs root) in
  (exists off cd nm, sc_stmt sp = Some off /\ line_program dbg d off (address_size (u_enc h)) cd nm = Err e) \/
  (exists v u0, sc_low_pc sp = Some v /\ un_header u0 = h /\ un_addr_base u0 = sc_ab sp /\ attr_address d u0 v = Err e).
Proof.
  unfold unit_of_root. rewrite scan_is_choice. intros H. set (sp := scan_spec d h (d_attrs root)) in *.
  set (u0 := mkU h tbl None None 0 (sc_sob sp) (sc_ab sp) (sc_llb sp) (sc_rlb sp) None (sc_dwo_id sp)) in H.
  destruct (match sc_name sp with Some v => res_ok (attr_string d u0 v) | None => Ok None end) as [name| | |] eqn:En;
    cbn [bind] in H; try discriminate.
  2:{ destruct (sc_name sp); [|discriminate]. destruct (attr_string d u0 a); discriminate. }
  destruct (match sc_comp_dir sp with Some v => res_ok (attr_string d u0 v) | None => Ok None end) as [cd| | |] eqn:Ec;
    cbn [bind] in H; try discriminate.
  2:{ destruct (sc_comp_dir sp); [|discriminate]. destruct (attr_string d u0 a); discriminate. }
  destruct (sc_stmt sp) as [off|] eqn:Es.
  - destruct (line_program dbg d off (address_size (u_enc h)) cd name) as [p| | |] eqn:Ep; cbn [bind] in H; try discriminate.
    + destruct (sc_low_pc sp) as [v|] eqn:Ev; cbn [bind] in H; [|discriminate].
      destruct (attr_address d u0 v) as [o| | |] eqn:Eaa; cbn [bind] in H; try discriminate.
      right. exists v, u0. repeat split; try reflexivity. congruence.
    + left. exists off, cd, name. split; [reflexivity|congruence].
  - cbn [bind] in H. destruct (sc_low_pc sp) as [v|] eqn:Ev; cbn [bind] in H; [|discriminate].
    destruct (attr_address d u0 v) as [o| | |] eqn:Eaa; cbn [bind] in H; try discriminate.
    right. exists v, u0. repeat split; try reflexivity. congruence.
Qed.

(* ------------------------------------------------------------------ no panic *)
Lemma res_ok_good {A} (r : res A) : good r -> good (res_ok r).
Proof. intros [H1 H2]. destruct r; try (exfalso; congruence); split; discriminate. Qed.

Lemma line_program_good dbg d off asz cd nm : good (line_program dbg d off asz cd nm).
Proof.
  unfold line_program. apply good_bind; [apply skip_good|]. intros r _.
  apply good_bind; [exact (LineRdHdrSafe.parse_header_np dbg (dw_be d) asz r)|]. intros; apply good_Ok.
Qed.

(* for ANY root entry (any attribute list), any sections, both build modes *)
Lemma unit_of_root_good dbg d h tbl root : good (unit_of_root dbg d h tbl root).
Proof.
  unfold unit_of_root.
  apply good_bind. { destruct (sc_name _); [apply res_ok_good, attr_string_good|apply good_Ok]. } intros name _.
  apply good_bind. { destruct (sc_comp_dir _); [apply res_ok_good, attr_string_good|apply good_Ok]. } intros cd _.
  apply good_bind. { destruct (sc_stmt _); [|apply good_Ok]. apply good_bind; [apply line_program_good|intros; apply good_Ok]. }
  intros lp _.
  apply good_bind. { destruct (sc_low_pc _); [|apply good_Ok]. apply good_bind; [apply attr_address_good|intros; apply good_Ok]. }
  intros; apply good_Ok.
Qed.

Lemma root_dfs_good dbg h tbl off :
  header_size dbg h = Ok off -> off + nlen (u_entries h) < two63 -> good (root_dfs dbg h tbl).
Proof.
  intros Hs Hlt. unfold root_dfs, entries. rewrite Hs. cbn [bind].
  destruct (cursor_new dbg (u_entries h) off) as [c| | |] eqn:Ec; cbn [bind];
    try (unfold cursor_new, raw_new in Ec;
         destruct (chk_add 64 dbg off (nlen (u_entries h))) eqn:Ek; cbn [bind] in Ec; try discriminate;
         unfold chk_add in Ek; replace (off + nlen (u_entries h) <? 2 ^ 64) with true in Ek
           by (symmetry; apply N.ltb_lt; unfold two63 in Hlt; lia); discriminate).
  - pose proof (NavProofs.cursor_new_ok dbg (u_entries h) off c Hlt Ec) as Hc.
    pose proof (NavProofs.next_dfs_inv dbg (u_enc h) tbl (cursor_fuel c) c Hc ltac:(unfold cursor_fuel; apply le_n)) as H.
    destruct (next_dfs (cursor_fuel c) dbg (u_enc h) tbl c) as [[o c'|x c']| | |]; try contradiction; cbn [bind].
    + destruct o; [apply good_Ok|apply good_Err].
    + apply good_Err.
Qed.

Lemma unit_new_good dbg d h off :
  header_size dbg h = Ok off -> off + nlen (u_entries h) < two63 -> good (unit_new dbg d h).
Proof.
  intros Hs Hlt. unfold unit_new. apply good_bind.
  { exact (AbbrevRdProofs.abbreviations_at_res dbg (dw_abbrev d) (u_abbrev h)). }
  intros tbl _. unfold unit_new_with_abbreviations. apply good_bind; [exact (root_dfs_good dbg h tbl off Hs Hlt)|].
  intros root _. apply unit_of_root_good.
Qed.

Lemma unit_ranges_all_good dbg d u off :
  header_size dbg (un_header u) = Ok off -> off + nlen (u_entries (un_header u)) < two63 ->
  valid_asize (address_size (u_enc (un_header u))) = true ->
  good (unit_ranges_all dbg d u).
Proof.
  intros Hs Hlt Hv. unfold unit_ranges_all, unit_ranges.
  destruct (root_dfs dbg (un_header u) (un_abbrevs u)) as [root| | |] eqn:Er; cbn [bind].
  - exact (die_ranges_all_good dbg (uctx_of d u) (map die_attr_view (d_attrs root)) Hv).
  - apply good_Err.
  - pose proof (root_dfs_good dbg (un_header u) (un_abbrevs u) off Hs Hlt) as [G _]. congruence.
  - pose proof (root_dfs_good dbg (un_header u) (un_abbrevs u) off Hs Hlt) as [_ G]. congruence.
Qed.

(* ------------------------------------------------------------------ implicit bases *)
Lemma enc_initial_length_len be f len : nlen (enc_initial_length be f len) = if f then 12 else 4.
Proof. unfold enc_initial_length, nlen. destruct f; rewrite ?app_length, !DieRdProofs.enc_fixed_length; reflexivity. Qed.

(* the implicit str_offsets_base of a DWARF 5 .dwo unit is exactly the size of the header of a string offsets
   table in the unit's format, whatever its length field holds and in either byte order *)
Lemma implicit_sob_header be f len v dwo :
  implicit_str_offsets_base v f dwo =
  if (5 <=? v) && dwo then nlen (str_offsets_header be f len) else 0.
Proof.
  unfold implicit_str_offsets_base. destruct ((5 <=? v) && dwo); [|reflexivity].
  unfold str_offsets_header, nlen. rewrite !app_length, !DieRdProofs.enc_fixed_length.
  fold (nlen (enc_initial_length be f len)).
  rewrite !Nat2N.inj_add. fold (nlen (enc_initial_length be f len)). rewrite enc_initial_length_len.
  destruct f; reflexivity.
Qed.

(* ------------------------------------------------------------------ split DWARF *)
Lemma make_dwo_fields self parent :
  let r := make_dwo self parent in
  (* taken from the parent *)
  dw_dwo r = true /\ dw_addr r = dw_addr parent /\ dw_ranges r = dw_ranges parent /\ dw_sup r = dw_sup parent /\
  (* untouched *)
  dw_be r = dw_be self /\ dw_abbrev r = dw_abbrev self /\ dw_aranges r = dw_aranges self /\
  dw_info r = dw_info self /\ dw_line r = dw_line self /\ dw_line_str r = dw_line_str self /\
  dw_macinfo r = dw_macinfo self /\ dw_macro r = dw_macro self /\ dw_names r = dw_names self /\
  dw_str r = dw_str self /\ dw_str_offsets r = dw_str_offsets self /\ dw_types r = dw_types self /\
  dw_loc r = dw_loc self /\ dw_loclists r = dw_loclists self /\ dw_rnglists r = dw_rnglists self.
Proof. cbv zeta. repeat split. Qed.

Lemma copy_relocated_fields self other :
  let r := copy_relocated_attributes self other in
  un_low_pc r = un_low_pc other /\ un_addr_base r = un_addr_base other /\
  un_rnglists_base r = (if version (u_enc (un_header self)) <? 5 then un_rnglists_base other
                        else un_rnglists_base self) /\
  un_header r = un_header self /\ un_abbrevs r = un_abbrevs self /\ un_name r = un_name self /\
  un_comp_dir r = un_comp_dir self /\ un_str_offsets_base r = un_str_offsets_base self /\
  un_loclists_base r = un_loclists_base self /\ un_line_program r = un_line_program self /\
  un_dwo_id r = un_dwo_id self.
Proof. cbv zeta. repeat split. Qed.

(* a range list reference of a pre-DWARF 5 split unit is relative to the skeleton's DW_AT_GNU_ranges_base and
   is read from the parent's .debug_ranges: the context die_ranges runs in after the usual loading sequence *)
Lemma load_dwo_unit_context dbg dwo parent skeleton h d u :
  load_dwo_unit dbg dwo parent skeleton h = Ok (d, u) ->
  let x := uctx_of d u in
  ListsRd.u_dwo x = true /\ ListsRd.u_debug_addr x = dw_addr parent /\
  ListsRd.u_debug_ranges x = dw_ranges parent /\ ListsRd.u_debug_rnglists x = dw_rnglists dwo /\
  ListsRd.u_low_pc x = un_low_pc skeleton /\ ListsRd.u_addr_base x = un_addr_base skeleton /\
  (version (u_enc h) <? 5 = true -> ListsRd.u_rnglists_base x = un_rnglists_base skeleton).
Proof.
  unfold load_dwo_unit. destruct (unit_new dbg (make_dwo dwo parent) h) as [u1| | |] eqn:E; cbn [bind]; try discriminate.
  intros H. inversion H; subst d u; clear H. cbv zeta.
  assert (Hh : un_header u1 = h).
  { unfold unit_new in E. destruct (abbreviations_at dbg _ _) as [tbl| | |]; cbn [bind] in E; try discriminate.
    unfold unit_new_with_abbreviations in E. destruct (root_dfs dbg h tbl) as [root| | |]; cbn [bind] in E; try discriminate.
    apply unit_of_root_fields in E. tauto. }
  unfold uctx_of, copy_relocated_attributes, make_dwo.
  cbn [ListsRd.u_dwo ListsRd.u_debug_addr ListsRd.u_debug_ranges ListsRd.u_debug_rnglists ListsRd.u_low_pc
       ListsRd.u_addr_base ListsRd.u_rnglists_base un_header un_low_pc un_addr_base un_rnglists_base
       dw_dwo dw_addr dw_ranges dw_rnglists].
  repeat (split; [reflexivity|]). rewrite Hh. intros Hv. rewrite Hv. reflexivity.
Qed.

(* ================================================================== continuation *)
(* ------------------------------------------------------------------ header size arithmetic of parsed headers *)

Lemma read_un_le n bigend bs v r : read_un n bigend bs = Ok (v, r) -> (length r <= length bs)%nat.
Proof. intros H. apply AttrProofs.read_un_length in H. lia. Qed.
Lemma read_u8_le bs v r : read_u8 bs = Ok (v, r) -> (length r <= length bs)%nat.
Proof. intros H. apply AttrProofs.read_u8_spec in H. destruct H as (b & -> & _). cbn. lia. Qed.
Lemma read_word_le f bigend bs v r : read_word f bigend bs = Ok (v, r) -> (length r <= length bs)%nat.
Proof. unfold read_word. destruct f; apply read_un_le. Qed.
Lemma read_address_size_le bs v r : read_address_size bs = Ok (v, r) -> (length r <= length bs)%nat.
Proof.
  unfold read_address_size. destruct (read_u8 bs) as [[s t]| | |] eqn:E; cbn [bind]; try discriminate.
  destruct ((s =? 1) || (s =? 2) || (s =? 4) || (s =? 8)); [|discriminate].
  intros H. inversion H; subst. exact (read_u8_le _ _ _ E).
Qed.

Lemma read_address_size_valid bs v r : read_address_size bs = Ok (v, r) -> valid_asize v = true.
Proof.
  unfold read_address_size, valid_asize. destruct (read_u8 bs) as [[s t]| | |]; cbn [bind]; try discriminate.
  destruct ((s =? 1) || (s =? 2) || (s =? 4) || (s =? 8)) eqn:E; [|discriminate].
  intros H. inversion H; subst. exact E.
Qed.

Lemma parse_unit_type_le bigend f code bs t r :
  parse_unit_type bigend f code bs = Ok (t, r) -> (length r <= length bs)%nat.
Proof.
  unfold parse_unit_type, read_u64.
  repeat match goal with
  | |- (if ?c then _ else _) = _ -> _ => destruct c
  end; try discriminate;
  try (intros H; inversion H; subst; lia);
  try (destruct (read_un 8 bigend bs) as [[s r1]| | |] eqn:E1; cbn [bind]; try discriminate;
       apply read_un_le in E1;
       try (intros H; inversion H; subst; lia);
       destruct (read_word f bigend r1) as [[o r2]| | |] eqn:E2; cbn [bind]; try discriminate;
       apply read_word_le in E2; intros H; inversion H; subst; lia).
Qed.

(* the size arithmetic of every header the parser returns: the entries are what is left of the unit_length bytes
   that follow the initial length, so header_size = initial length size + unit_length - |entries| cannot
   underflow, and initial length + unit_length is at most the section size *)
Lemma parse_unit_header_sizes bigend types uoff bs h after :
  parse_unit_header bigend types uoff bs = Ok (h, after) ->
  nlen (u_entries h) <= u_length h /\
  initial_length_size (fmt64 (u_enc h)) + u_length h + nlen after = nlen bs /\
  valid_asize (address_size (u_enc h)) = true.
Proof.
  unfold parse_unit_header, read_initial_length.
  destruct (read_un 4 bigend bs) as [[v r]| | |] eqn:E1; cbn [bind]; try discriminate.
  apply AttrProofs.read_un_length in E1.
  assert (Hil : forall X : res (N * bool * list byte),
            X = (if v <? 4294967280 then Ok (v, false, r)
                 else if v =? 4294967295 then let* (v8, r8) := read_un 8 bigend r in Ok (v8, true, r8)
                      else Err EUnknownReservedLength) ->
            forall len f64 r0, X = Ok (len, f64, r0) ->
              (length r = (if f64 then 8 else 0) + length r0)%nat).
  { intros X -> len f64 r0. destruct (v <? 4294967280); [intros H; inversion H; subst; lia|].
    destruct (v =? 4294967295); [|discriminate].
    destruct (read_un 8 bigend r) as [[v8 r8]| | |] eqn:E8; cbn [bind]; try discriminate.
    intros H. inversion H; subst. apply AttrProofs.read_un_length in E8. lia. }
  match goal with |- (bind ?X _) = _ -> _ => pose proof (Hil X eq_refl) as Hx; destruct X as [[[len f64] r0]| | |] end;
    cbn [bind]; try discriminate.
  specialize (Hx len f64 r0 eq_refl).
  destruct (split_n len r0) as [[rest aft]| | |] eqn:Es; cbn [bind]; try discriminate.
  apply AttrProofs.split_n_spec in Es. destruct Es as [Es Hlen].
  destruct (read_u16 bigend rest) as [[version r1]| | |] eqn:Ev; cbn [bind]; try discriminate.
  apply read_un_le in Ev.
  match goal with |- (bind ?X _) = _ -> _ => destruct X as [[[[ut asz] aoff] r2]| | |] eqn:Ef end;
    cbn [bind]; try discriminate.
  assert (Hr2 : (length r2 <= length r1)%nat /\ valid_asize asz = true).
  { destruct ((2 <=? version) && (version <=? 4)).
    - destruct (read_word f64 bigend r1) as [[a ra]| | |] eqn:Ea; cbn [bind] in Ef; try discriminate.
      destruct (read_address_size ra) as [[s rb]| | |] eqn:Eb; cbn [bind] in Ef; try discriminate.
      apply read_word_le in Ea. pose proof (read_address_size_valid _ _ _ Eb). apply read_address_size_le in Eb. inversion Ef; subst. split; [lia|assumption].
    - destruct (version =? 5); [|discriminate].
      destruct (read_u8 r1) as [[a ra]| | |] eqn:Ea; cbn [bind] in Ef; try discriminate.
      destruct (read_address_size ra) as [[s rb]| | |] eqn:Eb; cbn [bind] in Ef; try discriminate.
      destruct (read_word f64 bigend rb) as [[c rc]| | |] eqn:Ec; cbn [bind] in Ef; try discriminate.
      apply read_u8_le in Ea. pose proof (read_address_size_valid _ _ _ Eb). apply read_address_size_le in Eb.
      apply read_word_le in Ec. inversion Ef; subst. split; [lia|assumption]. }
  destruct Hr2 as [Hr2 Hva].
  destruct (parse_unit_type bigend f64 ut r2) as [[utype r3]| | |] eqn:Et; cbn [bind]; try discriminate.
  apply parse_unit_type_le in Et.
  intros H. inversion H; subst h after. cbn [u_entries u_length u_enc fmt64 address_size].
  unfold initial_length_size, nlen. rewrite Es, app_length in Hx.
  split; [lia|]. split; [destruct f64; lia|exact Hva].
Qed.

Lemma parsed_header_size dbg bigend types uoff bs h after :
  parse_unit_header bigend types uoff bs = Ok (h, after) -> nlen bs < two63 ->
  exists off, header_size dbg h = Ok off /\ off + nlen (u_entries h) < two63.
Proof.
  intros Hp Hlen. destruct (parse_unit_header_sizes _ _ _ _ _ _ Hp) as (H1 & H2 & _).
  exists (initial_length_size (fmt64 (u_enc h)) + u_length h - nlen (u_entries h)).
  unfold header_size, length_including_self, chk_add, chk_sub.
  replace (initial_length_size (fmt64 (u_enc h)) + u_length h <? 2 ^ 64) with true
    by (symmetry; apply N.ltb_lt; unfold two63 in Hlen; lia).
  cbn [bind].
  replace (nlen (u_entries h) <=? initial_length_size (fmt64 (u_enc h)) + u_length h) with true
    by (symmetry; apply N.leb_le; lia).
  split; [reflexivity|]. unfold two63 in *. lia.
Qed.

(* ------------------------------------------------------------------ Dwarf::lookup_offset_id *)

(* id lies in the closed address range of the section *)
Definition inb (place : sid -> N * N) (id : N) (s : sid) : bool :=
  (fst (place s) <=? id) && (id <=? fst (place s) + snd (place s)).
Definition placed_ok (place : sid -> N * N) : Prop := forall s, fst (place s) + snd (place s) < two64.

Lemma slice_lookup_spec dbg place id s : placed_ok place ->
  slice_lookup dbg (place s) id = Ok (if inb place id s then Some (id - fst (place s)) else None).
Proof.
  intros H. unfold slice_lookup, chk_add, inb. change (2 ^ 64) with two64.
  replace (fst (place s) + snd (place s) <? two64) with true by (symmetry; apply N.ltb_lt; apply H).
  cbn [bind]. destruct ((fst (place s) <=? id) && (id <=? fst (place s) + snd (place s))); reflexivity.
Qed.

Lemma lookup_first_spec dbg place id : placed_ok place -> forall l,
  lookup_first dbg place l id =
  Ok (match find (inb place id) l with Some s => Some (s, id - fst (place s)) | None => None end).
Proof.
  intros H l. induction l as [|s t IH]; [reflexivity|]. cbn [lookup_first find].
  rewrite (slice_lookup_spec dbg place id s H). cbn [bind]. destruct (inb place id s); [reflexivity|exact IH].
Qed.

Definition lookup_spec (place : sid -> N * N) (sup : option (sid -> N * N)) (id : N) : option (bool * sid * N) :=
  match find (inb place id) lookup_order with
  | Some s => Some (false, s, id - fst (place s))
  | None =>
      match sup with
      | Some sp =>
          match find (inb sp id) lookup_order with
          | Some s => Some (true, s, id - fst (sp s))
          | None => None
          end
      | None => None
      end
  end.

Lemma lookup_offset_id_spec dbg place sup id :
  placed_ok place -> (forall sp, sup = Some sp -> placed_ok sp) ->
  lookup_offset_id dbg place sup id = Ok (lookup_spec place sup id).
Proof.
  intros H Hs. unfold lookup_offset_id, lookup_spec. rewrite (lookup_first_spec dbg place id H). cbn [bind].
  destruct (find (inb place id) lookup_order) as [s|]; [reflexivity|].
  destruct sup as [sp|]; [|reflexivity]. rewrite (lookup_first_spec dbg sp id (Hs sp eq_refl)). cbn [bind].
  destruct (find (inb sp id) lookup_order); reflexivity.
Qed.

(* find = the first element of the list satisfying the predicate *)
Lemma find_first {A} (f : A -> bool) l x :
  find f l = Some x <-> exists pre post, l = pre ++ x :: post /\ f x = true /\ forallb (fun y => negb (f y)) pre = true.
Proof.
  split.
  - induction l as [|a l IH]; [discriminate|]. cbn [find]. destruct (f a) eqn:E.
    + intros H. inversion H; subst. exists [], l. auto.
    + intros H. destruct (IH H) as (pre & post & -> & Hx & Hp). exists (a :: pre), post. cbn. rewrite E. auto.
  - intros (pre & post & -> & Hx & Hp). induction pre as [|a pre IH]; cbn [app find].
    + rewrite Hx. reflexivity.
    + cbn in Hp. apply andb_prop in Hp. destruct Hp as [Ha Hp]. destruct (f a); [discriminate|]. apply IH. exact Hp.
Qed.

(* (a) an id inside section S of the main file — S searched, no section coded before S containing the id —
       resolves to (false, S, offset); on a shared boundary the FIRST section in the coded order wins *)
Lemma lookup_inside dbg place sup id pre S post o :
  placed_ok place -> (forall sp, sup = Some sp -> placed_ok sp) ->
  lookup_order = pre ++ S :: post ->
  id = fst (place S) + o -> o <= snd (place S) ->
  forallb (fun s => negb (inb place id s)) pre = true ->
  lookup_offset_id dbg place sup id = Ok (Some (false, S, o)).
Proof.
  intros H Hs Hl Hid Ho Hpre. rewrite (lookup_offset_id_spec dbg place sup id H Hs). unfold lookup_spec.
  assert (Hf : find (inb place id) lookup_order = Some S).
  { apply find_first. exists pre, post. split; [exact Hl|]. split; [|exact Hpre].
    unfold inb. apply andb_true_intro. split; apply N.leb_le; lia. }
  rewrite Hf. f_equal. f_equal. f_equal. lia.
Qed.

(* (b) the same in the supplementary file, when no searched section of the main file contains the id *)
Lemma lookup_inside_sup dbg place sp id pre S post o :
  placed_ok place -> placed_ok sp ->
  lookup_order = pre ++ S :: post ->
  id = fst (sp S) + o -> o <= snd (sp S) ->
  forallb (fun s => negb (inb place id s)) lookup_order = true ->
  forallb (fun s => negb (inb sp id s)) pre = true ->
  lookup_offset_id dbg place (Some sp) id = Ok (Some (true, S, o)).
Proof.
  intros H Hs Hl Hid Ho Hmain Hpre.
  rewrite (lookup_offset_id_spec dbg place (Some sp) id H) by (intros ? E; inversion E; subst; exact Hs).
  unfold lookup_spec.
  assert (Hn : find (inb place id) lookup_order = None).
  { destruct (find (inb place id) lookup_order) as [s|] eqn:E; [|reflexivity].
    apply find_some in E. destruct E as [Hin Ht]. rewrite forallb_forall in Hmain.
    specialize (Hmain s Hin). rewrite Ht in Hmain. discriminate. }
  rewrite Hn.
  assert (Hf : find (inb sp id) lookup_order = Some S).
  { apply find_first. exists pre, post. split; [exact Hl|]. split; [|exact Hpre].
    unfold inb. apply andb_true_intro. split; apply N.leb_le; lia. }
  rewrite Hf. f_equal. f_equal. f_equal. lia.
Qed.

(* (c) an id in no searched section (of either file) is None *)
Lemma lookup_none dbg place sup id :
  placed_ok place -> (forall sp, sup = Some sp -> placed_ok sp) ->
  forallb (fun s => negb (inb place id s)) lookup_order = true ->
  (forall sp, sup = Some sp -> forallb (fun s => negb (inb sp id s)) lookup_order = true) ->
  lookup_offset_id dbg place sup id = Ok None.
Proof.
  intros H Hs Hmain Hsup. rewrite (lookup_offset_id_spec dbg place sup id H Hs). unfold lookup_spec.
  assert (Hn : forall pl, forallb (fun s => negb (inb pl id s)) lookup_order = true ->
                          find (inb pl id) lookup_order = None).
  { intros pl Hp. destruct (find (inb pl id) lookup_order) as [s|] eqn:E; [|reflexivity].
    apply find_some in E. destruct E as [Hin Ht]. rewrite forallb_forall in Hp.
    specialize (Hp s Hin). rewrite Ht in Hp. discriminate. }
  rewrite (Hn place Hmain). destruct sup as [sp|]; [|reflexivity]. rewrite (Hn sp (Hsup sp eq_refl)). reflexivity.
Qed.

(* the three sections of a Dwarf that the chain never asks *)
Lemma unsearched_sections s : ~ In s lookup_order <-> s = SMacinfo \/ s = SMacro \/ s = SNames.
Proof.
  split.
  - intros H. destruct s; try (exfalso; apply H; cbn; tauto); tauto.
  - intros [ -> | [ -> | -> ] ] H; cbn in H; repeat (destruct H as [H|H]; [discriminate|]); exact H.
Qed.

(* ... so an id that lies ONLY inside .debug_macinfo, .debug_macro or .debug_names is reported as belonging to no
   section, although the section is a field of the Dwarf *)
Lemma lookup_unsearched dbg place sup id s :
  placed_ok place -> (forall sp, sup = Some sp -> placed_ok sp) ->
  s = SMacinfo \/ s = SMacro \/ s = SNames -> inb place id s = true ->
  (forall t, In t lookup_order -> inb place id t = false) ->
  (forall sp t, sup = Some sp -> In t lookup_order -> inb sp id t = false) ->
  lookup_offset_id dbg place sup id = Ok None.
Proof.
  intros H Hs _ _ Hmain Hsup. apply lookup_none; try assumption.
  - apply forallb_forall. intros t Ht. rewrite (Hmain t Ht). reflexivity.
  - intros sp Esp. apply forallb_forall. intros t Ht. rewrite (Hsup sp t Esp Ht). reflexivity.
Qed.


(* ------------------------------------------------------------------ Unit::dwo_name *)
Lemma die_attr_value_first d n : die_attr_value d n = option_map val (first_attr (named n) (d_attrs d)).
Proof.
  unfold die_attr_value, first_attr.
  assert (E : forall o : option (aspec * attr_value),
             match o with Some (s, v) => Some (attr_normalise (at_name s) v) | None => None end = option_map val o)
    by (intros [[s v]|]; reflexivity).
  apply E.
Qed.

(* when the first entry of the unit is not a null entry it is the root Unit::new uses *)
Lemma root_dfs_first_entry dbg h tbl c c' root :
  entries dbg h = Ok c -> next_entry dbg (u_enc h) tbl c = Ok (SOk true c') -> current c' = Some root ->
  root_dfs dbg h tbl = Ok root.
Proof.
  intros Hc Hn Hr. unfold root_dfs. rewrite Hc. cbn [bind]. unfold cursor_fuel. cbn [next_dfs]. rewrite Hn. cbn [bind].
  unfold current in Hr. destruct (is_null (c_cur c')); [discriminate|]. inversion Hr; subst. reflexivity.
Qed.

Definition dwo_name_attr (ver : N) : N := if ver <? 5 then DW_AT_GNU_dwo_name else DW_AT_dwo_name.

Lemma dwo_name_root dbg u c c' root :
  entries dbg (un_header u) = Ok c ->
  next_entry dbg (u_enc (un_header u)) (un_abbrevs u) c = Ok (SOk true c') -> current c' = Some root ->
  root_dfs dbg (un_header u) (un_abbrevs u) = Ok root /\
  dwo_name dbg u =
  Ok (option_map val (first_attr (named (dwo_name_attr (version (u_enc (un_header u))))) (d_attrs root))).
Proof.
  intros Hc Hn Hr. split; [exact (root_dfs_first_entry dbg _ _ c c' root Hc Hn Hr)|].
  unfold dwo_name. rewrite Hc. cbn [bind]. rewrite Hn. cbn [bind]. rewrite Hr.
  rewrite die_attr_value_first. reflexivity.
Qed.

(* a leading null entry: Unit::new skips it (next_dfs), dwo_name reports MissingUnitDie *)
Lemma dwo_name_leading_null dbg u c b c' :
  entries dbg (un_header u) = Ok c ->
  next_entry dbg (u_enc (un_header u)) (un_abbrevs u) c = Ok (SOk b c') -> current c' = None ->
  dwo_name dbg u = Err EMissingUnitDie.
Proof. intros Hc Hn Hr. unfold dwo_name. rewrite Hc. cbn [bind]. rewrite Hn. cbn [bind]. rewrite Hr. reflexivity. Qed.

(* ------------------------------------------------------------------ Dwarf::unit_ranges *)
Definition glue_other (p : rattr) : bool :=
  negb ((nm p =? DW_AT_low_pc) || (nm p =? DW_AT_high_pc) || (nm p =? DW_AT_ranges)).

Lemma view_other p : glue_other p = true -> other_attr (die_attr_view p) = true.
Proof.
  unfold glue_other, other_attr, die_attr_view, to_aname, nm. cbn [fst].
  destruct (at_name (fst p) =? DW_AT_low_pc); [discriminate|].
  destruct (at_name (fst p) =? DW_AT_high_pc); [discriminate|].
  destruct (at_name (fst p) =? DW_AT_ranges); [discriminate|]. reflexivity.
Qed.
Lemma view_others l : forallb glue_other l = true -> forallb other_attr (map die_attr_view l) = true.
Proof.
  induction l as [|p l IH]; [reflexivity|]. cbn [forallb map]. intros H. apply andb_prop in H. destruct H as [H1 H2].
  rewrite (view_other p H1), (IH H2). reflexivity.
Qed.

Lemma view_named p n a :
  nm p = n -> to_aname n = a -> die_attr_view p = (a, to_aval (val p)).
Proof. intros <- <-. reflexivity. Qed.

(* unit_ranges = die_ranges (C08) of the root entry Unit::new used, in the unit's context *)
Lemma unit_ranges_root dbg d u root :
  root_dfs dbg (un_header u) (un_abbrevs u) = Ok root ->
  unit_ranges dbg d u = ListsRd.die_ranges (uctx_of d u) (map die_attr_view (d_attrs root)) /\
  unit_ranges_all dbg d u = ListsRd.die_ranges_all dbg (uctx_of d u) (map die_attr_view (d_attrs root)).
Proof. intros H. unfold unit_ranges_all, unit_ranges, ListsRd.die_ranges_all. rewrite H. cbn [bind]. split; reflexivity. Qed.

(* DW_AT_ranges of class rangelistptr: C08's resolution of the list at that offset (+ the ranges base in a
   pre-DWARF 5 .dwo) against the unit's low_pc, in .debug_ranges / .debug_rnglists by version *)
Lemma unit_ranges_list dbg d u root pre p post o :
  root_dfs dbg (un_header u) (un_abbrevs u) = Ok root ->
  d_attrs root = pre ++ p :: post -> forallb glue_other pre = true ->
  nm p = DW_AT_ranges -> val p = VRangeListsRef o ->
  let x := uctx_of d u in
  unit_ranges_all dbg d u =
  ListsRd.ranges_all dbg (ListsRd.u_cfg x) (ListsRd.u_lctx x) (dw_ranges d) (dw_rnglists d)
    (if dw_dwo d && (version (u_enc (un_header u)) <? 5) then (o + un_rnglists_base u) mod two64 else o)
    (un_low_pc u).
Proof.
  intros Hr Ha Hp Hn Hv x. destruct (unit_ranges_root dbg d u root Hr) as [_ ->].
  rewrite Ha, map_app. cbn [map]. rewrite (view_named p DW_AT_ranges ListsRd.AtRanges Hn eq_refl), Hv. cbn [to_aval].
  rewrite (die_ranges_list dbg x _ _ o (view_others pre Hp)). reflexivity.
Qed.

(* DW_AT_ranges of class rnglistx: through the offset table at the unit's rnglists_base *)
Lemma unit_ranges_listx dbg d u root pre p post i off :
  root_dfs dbg (un_header u) (un_abbrevs u) = Ok root ->
  d_attrs root = pre ++ p :: post -> forallb glue_other pre = true ->
  nm p = DW_AT_ranges -> val p = VDebugRngListsIndex i ->
  N.of_nat (length (dw_rnglists d)) < two64 ->
  offset_table (dw_be d) (fmt64 (u_enc (un_header u))) (dw_rnglists d) (un_rnglists_base u) i = Some off ->
  off < two64 ->
  let x := uctx_of d u in
  unit_ranges_all dbg d u =
  ListsRd.ranges_all dbg (ListsRd.u_cfg x) (ListsRd.u_lctx x) (dw_ranges d) (dw_rnglists d) off (un_low_pc u).
Proof.
  intros Hr Ha Hp Hn Hv Hlen Ht Hoff x. destruct (unit_ranges_root dbg d u root Hr) as [_ ->].
  rewrite Ha, map_app. cbn [map]. rewrite (view_named p DW_AT_ranges ListsRd.AtRanges Hn eq_refl), Hv. cbn [to_aval].
  rewrite (die_ranges_listx dbg x _ _ i off (view_others pre Hp) Hlen Ht Hoff). reflexivity.
Qed.

(* no DW_AT_ranges: DW_AT_low_pc (address) and DW_AT_high_pc (constant) in either order give [low, low + n) *)
Lemma unit_ranges_low_high dbg d u root pre p1 mid p2 post lo n :
  root_dfs dbg (un_header u) (un_abbrevs u) = Ok root ->
  d_attrs root = pre ++ p1 :: mid ++ p2 :: post ->
  forallb glue_other pre = true -> forallb glue_other mid = true -> forallb glue_other post = true ->
  nm p1 = DW_AT_low_pc -> val p1 = VAddr lo -> nm p2 = DW_AT_high_pc -> val p2 = VUdata n ->
  unit_ranges dbg d u =
  if lo + n <? two64 then Ok (ListsRd.RiSingle (Some (lowhigh_const lo n))) else Err EAddressOverflow.
Proof.
  intros Hr Ha H1 H2 H3 Hn1 Hv1 Hn2 Hv2. destruct (unit_ranges_root dbg d u root Hr) as [-> _].
  rewrite Ha, map_app. cbn [map]. rewrite map_app. cbn [map].
  rewrite (view_named p1 DW_AT_low_pc ListsRd.AtLowPc Hn1 eq_refl), Hv1.
  rewrite (view_named p2 DW_AT_high_pc ListsRd.AtHighPc Hn2 eq_refl), Hv2. cbn [to_aval].
  exact (die_lowhigh_const (uctx_of d u) _ _ _ lo n (view_others pre H1) (view_others mid H2) (view_others post H3)).
Qed.

(* neither: the empty iterator *)
Lemma unit_ranges_empty dbg d u root :
  root_dfs dbg (un_header u) (un_abbrevs u) = Ok root -> forallb glue_other (d_attrs root) = true ->
  unit_ranges dbg d u = Ok (ListsRd.RiSingle None) /\ unit_ranges_all dbg d u = Ok [].
Proof.
  intros Hr Ho. destruct (unit_ranges_root dbg d u root Hr) as [E1 E2]. rewrite E1, E2.
  unfold ListsRd.die_ranges_all, ListsRd.die_ranges.
  rewrite <- (app_nil_r (map die_attr_view (d_attrs root))).
  rewrite (die_loop_other (uctx_of d u) _ [] None None None (view_others _ Ho)). cbn. split; reflexivity.
Qed.

(* ------------------------------------------------------------------ no panic from the section bytes on *)
Lemma dwo_name_good dbg u off :
  header_size dbg (un_header u) = Ok off -> off + nlen (u_entries (un_header u)) < two63 -> good (dwo_name dbg u).
Proof.
  intros Hs Hlt. unfold dwo_name, entries. rewrite Hs. cbn [bind].
  destruct (cursor_new dbg (u_entries (un_header u)) off) as [c| | |] eqn:Ec; cbn [bind];
    try (unfold cursor_new, raw_new in Ec;
         destruct (chk_add 64 dbg off (nlen (u_entries (un_header u)))) eqn:Ek; cbn [bind] in Ec; try discriminate;
         unfold chk_add in Ek; replace (off + nlen (u_entries (un_header u)) <? 2 ^ 64) with true in Ek
           by (symmetry; apply N.ltb_lt; unfold two63 in Hlt; lia); discriminate).
  pose proof (NavProofs.cursor_new_ok dbg _ off c Hlt Ec) as Hc.
  pose proof (NavProofs.next_entry_inv dbg (u_enc (un_header u)) (un_abbrevs u) c Hc) as H.
  destruct (next_entry dbg (u_enc (un_header u)) (un_abbrevs u) c) as [[b c'|x c']| | |]; try contradiction; cbn [bind].
  - destruct (current c'); [apply good_Ok|apply good_Err].
  - apply good_Err.
Qed.

(* every header the C02 parser returns for a section shorter than 2^63 bytes: Unit::new, unit_ranges and dwo_name
   neither panic nor run out of fuel, whatever the other sections hold, in both build modes *)
Lemma glue_good_parsed dbg d bigend types uoff bs h after :
  parse_unit_header bigend types uoff bs = Ok (h, after) -> nlen bs < two63 ->
  good (unit_new dbg d h) /\
  forall u, un_header u = h -> good (unit_ranges_all dbg d u) /\ good (dwo_name dbg u).
Proof.
  intros Hp Hlen. destruct (parsed_header_size dbg _ _ _ _ _ _ Hp Hlen) as (off & Hs & Hlt).
  destruct (parse_unit_header_sizes _ _ _ _ _ _ Hp) as (_ & _ & Hv).
  split; [exact (unit_new_good dbg d h off Hs Hlt)|]. intros u Hu. subst h.
  split; [exact (unit_ranges_all_good dbg d u off Hs Hlt Hv)|exact (dwo_name_good dbg u off Hs Hlt)].
Qed.

Lemma first_header_good d types : good (first_header d types).
Proof.
  unfold first_header. destruct (is_nil _); [apply good_Ok|].
  apply good_bind; [exact (NavProofs.parse_unit_header_res _ _ _ _)|]. intros [h r] _. apply good_Ok.
Qed.

Lemma glue_good_bytes dbg d types :
  nlen (dw_info d) < two63 -> nlen (dw_types d) < two63 ->
  good (first_header d types) /\
  forall h, first_header d types = Ok (Some h) ->
    good (unit_new dbg d h) /\
    forall u, un_header u = h -> good (unit_ranges_all dbg d u) /\ good (dwo_name dbg u).
Proof.
  intros Hi Ht. split; [apply first_header_good|]. intros h Hf. unfold first_header in Hf.
  destruct (is_nil (if types then dw_types d else dw_info d)); [discriminate|].
  destruct (parse_unit_header (dw_be d) types 0 (if types then dw_types d else dw_info d)) as [[h' r]| | |] eqn:E;
    cbn [bind] in Hf; try discriminate.
  inversion Hf; subst h'. apply (glue_good_parsed dbg d _ _ _ _ h r E). destruct types; assumption.
Qed.

(* ------------------------------------------------------------------ DW_AT_ranges after low_pc / high_pc *)

(* attributes before DW_AT_ranges that cannot end die_ranges early: anything that is not low_pc / high_pc /
   ranges, a DW_AT_low_pc of class address (not indexed), a DW_AT_high_pc of class address or constant *)
Definition benign_view (q : ListsRd.aname * ListsRd.aval) : bool :=
  match q with
  | (ListsRd.AtOther, _) => true
  | (ListsRd.AtLowPc, ListsRd.AvAddr _) => true
  | (ListsRd.AtHighPc, ListsRd.AvAddr _) | (ListsRd.AtHighPc, ListsRd.AvUdata _) => true
  | _ => false
  end.

Lemma die_loop_benign u : forall pre k low high size, forallb benign_view pre = true ->
  exists low' high' size',
    ListsRd.die_ranges_loop u (pre ++ k) low high size = ListsRd.die_ranges_loop u k low' high' size'.
Proof.
  induction pre as [|[a v] pre IH]; intros k low high size H; [exists low, high, size; reflexivity|].
  cbn [forallb] in H. apply andb_prop in H. destruct H as [Hq Hp]. cbn [app].
  destruct a; destruct v; cbn [benign_view] in Hq; try discriminate;
    cbn [ListsRd.die_ranges_loop ListsRd.attr_address bind]; apply IH; exact Hp.
Qed.

(* once DW_AT_ranges designates a list, what was collected from low_pc / high_pc before is irrelevant *)
Lemma ranges_attr_indep u v post l h s l' h' s' :
  (exists o, v = ListsRd.AvRangesRef o) \/ (exists i, v = ListsRd.AvRnglistx i) ->
  ListsRd.die_ranges_loop u ((ListsRd.AtRanges, v) :: post) l h s =
  ListsRd.die_ranges_loop u ((ListsRd.AtRanges, v) :: post) l' h' s'.
Proof.
  intros [[o ->]|[i ->]]; cbn [ListsRd.die_ranges_loop]; unfold ListsRd.attr_ranges, ListsRd.attr_ranges_offset; cbn [bind].
  - destruct (ListsRd.raw_ranges _ _ _ _) as [[inp bare]| | |]; reflexivity.
  - destruct (ListsRd.get_offset _ _ _ _ _) as [off| | |]; cbn [bind]; try reflexivity.
    destruct (ListsRd.raw_ranges _ _ _ _) as [[inp bare]| | |]; reflexivity.
Qed.

Lemma die_ranges_benign u pre v post :
  forallb benign_view pre = true ->
  (exists o, v = ListsRd.AvRangesRef o) \/ (exists i, v = ListsRd.AvRnglistx i) ->
  ListsRd.die_ranges u (pre ++ (ListsRd.AtRanges, v) :: post) = ListsRd.die_ranges u ((ListsRd.AtRanges, v) :: post).
Proof.
  intros Hp Hv. unfold ListsRd.die_ranges.
  destruct (die_loop_benign u pre ((ListsRd.AtRanges, v) :: post) None None None Hp) as (l & h & s & ->).
  apply ranges_attr_indep. exact Hv.
Qed.

Definition glue_benign (p : rattr) : bool := benign_view (die_attr_view p).

Lemma view_benign l : forallb glue_benign l = true -> forallb benign_view (map die_attr_view l) = true.
Proof. induction l as [|p l IH]; [reflexivity|]. cbn [forallb map]. unfold glue_benign at 1. intros H.
       apply andb_prop in H. destruct H as [H1 H2]. rewrite H1, (IH H2). reflexivity. Qed.

(* unit_ranges with DW_AT_ranges after DW_AT_low_pc / DW_AT_high_pc (the usual producer order) *)
Lemma unit_ranges_list_after_low_pc dbg d u root pre p post o :
  root_dfs dbg (un_header u) (un_abbrevs u) = Ok root ->
  d_attrs root = pre ++ p :: post -> forallb glue_benign pre = true ->
  nm p = Attr.DW_AT_ranges -> val p = VRangeListsRef o ->
  let x := uctx_of d u in
  unit_ranges_all dbg d u =
  ListsRd.ranges_all dbg (ListsRd.u_cfg x) (ListsRd.u_lctx x) (dw_ranges d) (dw_rnglists d)
    (if dw_dwo d && (version (u_enc (un_header u)) <? 5) then (o + un_rnglists_base u) mod two64 else o)
    (un_low_pc u).
Proof.
  intros Hr Ha Hp Hn Hv x. destruct (unit_ranges_root dbg d u root Hr) as [_ ->].
  rewrite Ha, map_app. cbn [map]. rewrite (view_named p Attr.DW_AT_ranges ListsRd.AtRanges Hn eq_refl), Hv. cbn [to_aval].
  unfold ListsRd.die_ranges_all.
  rewrite (die_ranges_benign x _ (ListsRd.AvRangesRef o) _ (view_benign pre Hp)) by (left; eexists; reflexivity).
  exact (die_ranges_list dbg x [] (map die_attr_view post) o eq_refl).
Qed.

Lemma unit_ranges_listx_after_low_pc dbg d u root pre p post i off :
  root_dfs dbg (un_header u) (un_abbrevs u) = Ok root ->
  d_attrs root = pre ++ p :: post -> forallb glue_benign pre = true ->
  nm p = Attr.DW_AT_ranges -> val p = VDebugRngListsIndex i ->
  N.of_nat (length (dw_rnglists d)) < two64 ->
  offset_table (dw_be d) (fmt64 (u_enc (un_header u))) (dw_rnglists d) (un_rnglists_base u) i = Some off ->
  off < two64 ->
  let x := uctx_of d u in
  unit_ranges_all dbg d u =
  ListsRd.ranges_all dbg (ListsRd.u_cfg x) (ListsRd.u_lctx x) (dw_ranges d) (dw_rnglists d) off (un_low_pc u).
Proof.
  intros Hr Ha Hp Hn Hv Hlen Ht Hoff x. destruct (unit_ranges_root dbg d u root Hr) as [_ ->].
  rewrite Ha, map_app. cbn [map]. rewrite (view_named p Attr.DW_AT_ranges ListsRd.AtRanges Hn eq_refl), Hv. cbn [to_aval].
  unfold ListsRd.die_ranges_all.
  rewrite (die_ranges_benign x _ (ListsRd.AvRnglistx i) _ (view_benign pre Hp)) by (right; eexists; reflexivity).
  exact (die_ranges_listx dbg x [] (map die_attr_view post) i off eq_refl Hlen Ht Hoff).
Qed.
