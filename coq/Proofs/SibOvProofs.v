(* Proofs/SibOvProofs.v — units whose DW_AT_sibling VALUES are wrong: the spec encoder of Spec/Forest.v with a
   per-entry override `ov : entry offset -> option value` of the value written into the DW_AT_sibling slots
   (ISib items, same form and width, so every offset and length is unchanged), and the full depth-first
   cursor walk over such units. *)
From Coq Require Import List NArith ZArith Bool Lia ZifyBool ZifyN ZifyNat.
From Coq.Strings Require Import Byte.
Require Import GV.Base.Res GV.Base.Byt GV.Base.Ints GV.Model.Leb GV.Model.Prim
               GV.Spec.LebSpec GV.Spec.FormSpec GV.Model.Attr GV.Spec.Forest GV.Model.AbbrevRd
               GV.Model.DieRd GV.Proofs.AttrProofs GV.Proofs.AbbrevRdProofs GV.Proofs.DieRdProofs GV.Proofs.NavProofs.
Import ListNotations.
Local Open Scope N_scope.
Local Arguments N.add : simpl never.
Local Arguments N.sub : simpl never.
Local Arguments N.mul : simpl never.
Local Arguments N.pow : simpl never.
Local Arguments N.of_nat : simpl never.
Local Arguments Z.add : simpl never.
Local Arguments Z.sub : simpl never.

Section Ov.
  Variables (codes : coding) (ov : N -> option N).

  (* the value written into the DW_AT_sibling slots of the entry at `off` *)
  Definition sibv (off next : N) : N := match ov off with Some v => v | None => next end.

  Definition head_bytes_ov (bigend : bool) (off : N) (t : tree) : list byte :=
    enc_uleb (t_code codes t) ++ concat (map (enc_item bigend (sibv off (off + tree_size codes t))) (t_items t)).

  Fixpoint enc_tree_ov (bigend : bool) (off : N) (t : tree) : list byte :=
    match t with
    | Node tag flag items kids =>
        head_bytes_ov bigend off t ++
        (if has_children t
         then on_list (enc_tree_ov bigend) (tree_size codes) (kids_off codes off t) kids ++ [x00]
         else [])
    end.

  Definition enc_forest_ov (bigend : bool) (off : N) (f : list tree) (pad : nat) : list byte :=
    on_list (enc_tree_ov bigend) (tree_size codes) off f ++ repeat x00 pad.

  (* what is reported: the entry of Spec/Forest.v with the overridden value in its DW_AT_sibling slots *)
  Definition root_die_ov (off : N) (depth : Z) (t : tree) : die :=
    mkDie off depth (t_tag t) (has_children t) (map (item_val (sibv off (off + tree_size codes t))) (t_items t)).

  Fixpoint pre_tree_ov (depth : Z) (off : N) (t : tree) : list die :=
    match t with
    | Node tag flag items kids =>
        root_die_ov off depth t ::
        on_list (pre_tree_ov (depth + 1)) (tree_size codes) (kids_off codes off t) kids
    end.
  Definition preorder_ov (off : N) (depth : Z) (f : list tree) : list die :=
    on_list (pre_tree_ov depth) (tree_size codes) off f.

  (* the overridden values fit their form *)
  Definition fits_ov (p : N * tree) : Prop :=
    Forall (item_fits (sibv (fst p) (fst p + tree_size codes (snd p)))) (t_items (snd p)).
  Definition sibs_fit_ov (off : N) (f : list tree) : Prop :=
    Forall fits_ov (on_list (placed codes) (tree_size codes) off f).

  Lemma enc_tree_ov_unfold bigend off t :
    enc_tree_ov bigend off t =
    head_bytes_ov bigend off t ++
    (if has_children t
     then on_list (enc_tree_ov bigend) (tree_size codes) (kids_off codes off t) (t_kids t) ++ [x00]
     else []).
  Proof. destruct t. reflexivity. Qed.

  Lemma head_bytes_ov_len bigend off t : nlen (head_bytes_ov bigend off t) = kids_off codes off t - off.
  Proof. unfold head_bytes_ov, kids_off. rewrite nlen_app, nlen_concat_items. lia. Qed.

  Lemma head_bytes_ov_cons bigend off t : exists b r, head_bytes_ov bigend off t = b :: r.
  Proof. unfold head_bytes_ov. destruct (enc_uleb_cons (t_code codes t)) as (b & r & E). rewrite E. cbn [app]. eauto. Qed.

  (* the override changes nothing but the bytes of the DW_AT_sibling slots: same lengths *)
  Lemma head_bytes_ov_same_len bigend off t :
    nlen (head_bytes_ov bigend off t) = nlen (head_bytes codes bigend off t).
  Proof. rewrite head_bytes_ov_len, head_bytes_len. reflexivity. Qed.

  Lemma read_head_ov dbg e tbl t off d rest E :
    addr_size_ok e -> covered tbl codes t -> node_ok codes e t -> fits_ov (off, t) ->
    E = off + nlen (head_bytes_ov (be e) off t) + nlen rest -> E < two64 ->
    depth_ok d (head_bytes_ov (be e) off t ++ rest) ->
    read_entry dbg e tbl (mkRaw (head_bytes_ov (be e) off t ++ rest) E d) =
    Ok (true, root_die_ov off d t, mkRaw rest E (post_depth d t)).
  Proof.
    intros He Hcov [Hab Hitems] Hfit HE HE64 [D1 D2].
    unfold read_entry. cbn [r_depth].
    rewrite next_offset_ok by (rewrite nlen_app; lia). cbn [bind].
    replace (E - nlen (head_bytes_ov (be e) off t ++ rest)) with off by (rewrite nlen_app; lia).
    unfold read_abbreviation. cbn [r_in r_end r_depth].
    rewrite nlen_app in D1, D2. destruct (head_bytes_ov_cons (be e) off t) as (b0 & r0 & Eh).
    rewrite Eh, nlen_cons in D1, D2. clear Eh.
    unfold head_bytes_ov. rewrite <- !app_assoc.
    destruct Hab as (Hc & Htag & Hspecs). cbn [t_abbrev ab_code] in Hc.
    rewrite read_uleb128_enc by lia. cbn [bind].
    replace (t_code codes t =? 0) with false by lia.
    unfold covered in Hcov. rewrite Hcov.
    assert (Hd : (if has_children t then chk_s 64 dbg (d + 1) else Ok d) = Ok (post_depth d t)).
    { unfold post_depth. destruct (has_children t); [apply chk_s_ok; lia|reflexivity]. }
    unfold t_abbrev. cbn [ab_children ab_specs ab_tag].
    rewrite Hd. cbn [bind r_in r_end r_depth ab_children ab_specs ab_tag].
    unfold fits_ov in Hfit. cbn [fst snd] in Hfit.
    unfold t_specs. rewrite read_items; try assumption.
    cbn [bind]. unfold root_die_ov. reflexivity.
  Qed.

  Definition head_ev_ov (bigend : bool) (d : Z) (off : N) (t : tree) : xev :=
    mkX (head_bytes_ov bigend off t) (root_die_ov off d t) (post_depth d t).

  Lemma head_ev_ov_ok dbg e tbl d off t :
    addr_size_ok e -> covered tbl codes t -> node_ok codes e t -> fits_ov (off, t) ->
    ev_ok dbg e tbl (head_ev_ov (be e) d off t).
  Proof.
    intros He Hc Hok Hfit. split; [apply head_bytes_ov_cons|].
    split; [cbn [head_ev_ov x_die x_post root_die_ov d_depth]; unfold post_depth; destruct (has_children t); lia|].
    intros rest E HE HE64 Hd. cbn [head_ev_ov x_bytes x_die x_post] in *.
    assert (Hnn : is_null (root_die_ov off d t) = false).
    { destruct Hok as [(_ & Ht & _) _]. cbn [t_abbrev ab_tag] in Ht. unfold is_null, root_die_ov. cbn [d_tag]. lia. }
    rewrite Hnn. cbn [negb].
    cbn [root_die_ov d_depth d_offset] in *. apply read_head_ov; assumption.
  Qed.

  Fixpoint evs_ov (bigend : bool) (d : Z) (off : N) (t : tree) : list xev :=
    match t with
    | Node tag flag items kids =>
        head_ev_ov bigend d off t ::
        (if has_children t
         then on_list (evs_ov bigend (d + 1)) (tree_size codes) (kids_off codes off t) kids ++
              [null_ev (off + tree_size codes t - 1) (d + 1)]
         else [])
    end.

  Lemma evs_ov_unfold bigend d off t :
    evs_ov bigend d off t =
    head_ev_ov bigend d off t ::
    (if has_children t
     then on_list (evs_ov bigend (d + 1)) (tree_size codes) (kids_off codes off t) (t_kids t) ++
          [null_ev (off + tree_size codes t - 1) (d + 1)]
     else []).
  Proof. destruct t. reflexivity. Qed.

  Definition evs_list_ov (bigend : bool) (d : Z) (off : N) (l : list tree) : list xev :=
    on_list (evs_ov bigend d) (tree_size codes) off l.

  (* one statement per tree: bytes, length, chain, end depth, non-null dies *)
  Definition tree_facts (bigend : bool) (t : tree) : Prop :=
    forall d off,
      xbytes (evs_ov bigend d off t) = enc_tree_ov bigend off t /\
      nlen (xbytes (evs_ov bigend d off t)) = tree_size codes t /\
      chain off d (evs_ov bigend d off t) /\ end_depth d (evs_ov bigend d off t) = d.

  Lemma list_facts bigend d : forall l off, Forall (tree_facts bigend) l ->
    xbytes (evs_list_ov bigend d off l) = on_list (enc_tree_ov bigend) (tree_size codes) off l /\
    nlen (xbytes (evs_list_ov bigend d off l)) = forest_size codes l /\
    chain off d (evs_list_ov bigend d off l) /\ end_depth d (evs_list_ov bigend d off l) = d.
  Proof.
    unfold evs_list_ov, forest_size. induction l as [|t l IH]; intros off H.
    - cbn. repeat split; reflexivity.
    - inversion H as [|? ? Ht Hl]; subst. destruct (Ht d off) as (B1 & L1 & C1 & E1).
      destruct (IH (off + tree_size codes t) Hl) as (B2 & L2 & C2 & E2).
      rewrite !on_list_cons, xbytes_app, nlen_app. cbn [map sumN fold_right].
      split; [rewrite B1, B2; reflexivity|]. split; [unfold sumN in *; rewrite L1, L2; reflexivity|]. split.
      + apply chain_app. split; [exact C1|]. rewrite E1, L1. exact C2.
      + rewrite end_depth_app, E1. exact E2.
  Qed.

  Lemma evs_ov_facts bigend : forall t, tree_facts bigend t.
  Proof.
    induction t as [tag flag items kids IH] using tree_ind'. intros d off.
    set (t := Node tag flag items kids) in *.
    rewrite evs_ov_unfold, enc_tree_ov_unfold. change (t_kids t) with kids.
    pose proof (kids_off_ge codes off t) as Hk.
    assert (Hsz : tree_size codes t = (kids_off codes off t - off) +
                  (if has_children t then forest_size codes kids + 1 else 0)).
    { rewrite (tree_size_unfold codes t). change (t_kids t) with kids. unfold kids_off, forest_size. lia. }
    destruct (has_children t) eqn:Hc.
    - fold (evs_list_ov bigend (d + 1) (kids_off codes off t) kids).
      destruct (list_facts bigend (d + 1) kids (kids_off codes off t) IH) as (B & L & C & Ee).
      set (K := evs_list_ov bigend (d + 1) (kids_off codes off t) kids) in *.
      set (nul := null_ev (off + tree_size codes t - 1) (d + 1)).
      split; [|split; [|split]].
      + rewrite xbytes_cons, xbytes_app, B. reflexivity.
      + rewrite xbytes_cons, xbytes_app, !nlen_app, L. cbn [head_ev_ov x_bytes]. rewrite head_bytes_ov_len.
        change (nlen (xbytes [nul])) with 1. lia.
      + cbn [chain head_ev_ov x_die x_bytes x_post root_die_ov d_offset d_depth].
        split; [reflexivity|]. split; [reflexivity|].
        rewrite head_bytes_ov_len. replace (off + (kids_off codes off t - off)) with (kids_off codes off t) by lia.
        unfold post_depth. rewrite Hc. apply chain_app. split; [exact C|].
        rewrite Ee, L. cbn [chain nul null_ev x_die null_at d_offset d_depth]. repeat split. lia.
      + cbn [end_depth head_ev_ov x_post]. unfold post_depth. rewrite Hc, end_depth_app, Ee.
        cbn [end_depth nul null_ev x_post]. lia.
    - split; [|split; [|split]].
      + rewrite xbytes_cons. reflexivity.
      + rewrite xbytes_cons, nlen_app. cbn [head_ev_ov x_bytes]. rewrite head_bytes_ov_len.
        change (nlen (xbytes [])) with 0. lia.
      + cbn [chain head_ev_ov x_die root_die_ov d_offset d_depth]. repeat split.
      + cbn [end_depth head_ev_ov x_post]. unfold post_depth. rewrite Hc. reflexivity.
  Qed.

  Definition placed_ok_ov (e : enc) (tbl : abbrevs) (p : N * tree) : Prop :=
    covered tbl codes (snd p) /\ node_ok codes e (snd p) /\ fits_ov p.

  Lemma evs_list_ov_ok_of dbg e tbl d : forall l off,
    Forall (fun t => forall d o, Forall (placed_ok_ov e tbl) (placed codes o t) ->
                                 Forall (ev_ok dbg e tbl) (evs_ov (be e) d o t)) l ->
    Forall (placed_ok_ov e tbl) (on_list (placed codes) (tree_size codes) off l) ->
    Forall (ev_ok dbg e tbl) (evs_list_ov (be e) d off l).
  Proof.
    unfold evs_list_ov. induction l as [|t l IH]; intros off H Hp; [constructor|]. inversion H; subst.
    rewrite on_list_cons in *. apply Forall_app in Hp. destruct Hp as [Hp1 Hp2].
    apply Forall_app. split; auto.
  Qed.

  Lemma evs_ov_ok dbg e tbl : addr_size_ok e -> forall t d off,
    Forall (placed_ok_ov e tbl) (placed codes off t) -> Forall (ev_ok dbg e tbl) (evs_ov (be e) d off t).
  Proof.
    intros He. induction t as [tag flag items kids IH] using tree_ind'. intros d off Hp.
    set (t := Node tag flag items kids) in *.
    rewrite placed_unfold in Hp. inversion Hp as [|? ? (Hc & Hok & Hfit) Hk]; subst. cbn [snd t_kids t] in *.
    rewrite evs_ov_unfold. change (t_kids t) with kids. constructor; [apply head_ev_ov_ok; assumption|].
    destruct (has_children t); [|constructor].
    apply Forall_app. split; [|constructor; [apply null_ev_ok|constructor]].
    apply (evs_list_ov_ok_of dbg e tbl (d + 1) kids); assumption.
  Qed.

  (* the non-null entries of the event list *)
  Lemma filter_list_ov e bigend d : forall l off,
    Forall (fun t => Forall (node_ok codes e) (nodes t) ->
                     forall d o, filter not_null (map x_die (evs_ov bigend d o t)) = pre_tree_ov d o t) l ->
    Forall (node_ok codes e) (forest_nodes l) ->
    filter not_null (map x_die (evs_list_ov bigend d off l)) = on_list (pre_tree_ov d) (tree_size codes) off l.
  Proof.
    unfold evs_list_ov. induction l as [|t l IH]; intros off H Hok; [reflexivity|]. inversion H; subst.
    cbn [forest_nodes flat_map] in Hok. apply Forall_app in Hok. destruct Hok as [Ht Hl].
    rewrite !on_list_cons, map_app, filter_app. f_equal; auto.
  Qed.

  Lemma filter_tree_ov e bigend : forall t, Forall (node_ok codes e) (nodes t) ->
    forall d off, filter not_null (map x_die (evs_ov bigend d off t)) = pre_tree_ov d off t.
  Proof.
    induction t as [tag flag items kids IH] using tree_ind'. intros Hok d off.
    set (t := Node tag flag items kids) in *.
    cbn [nodes t] in Hok. inversion Hok as [|? ? Ht Hk]; subst.
    rewrite evs_ov_unfold. change (pre_tree_ov d off t) with
      (root_die_ov off d t :: on_list (pre_tree_ov (d + 1)) (tree_size codes) (kids_off codes off t) kids).
    change (t_kids t) with kids. cbn [map filter head_ev_ov x_die]. unfold not_null at 1.
    assert (Hnn : is_null (root_die_ov off d t) = false).
    { destruct Ht as [(_ & Ht & _) _]. cbn [t_abbrev ab_tag t_tag t] in Ht. unfold is_null, root_die_ov. cbn [d_tag t_tag t]. lia. }
    rewrite Hnn. cbn [negb]. f_equal.
    destruct (has_children t) eqn:Hc.
    - rewrite map_app, filter_app. cbn [map filter not_null null_ev x_die is_null null_at d_tag N.eqb negb]. rewrite app_nil_r.
      apply (filter_list_ov e bigend (d + 1) kids); assumption.
    - apply no_children_no_kids in Hc. change (t_kids t) with kids in Hc. subst kids. reflexivity.
  Qed.
End Ov.

(* no override = the encoder of Spec/Forest.v *)
Lemma enc_tree_ov_none codes bigend : forall t off, enc_tree_ov codes (fun _ => None) bigend off t = enc_tree codes bigend off t.
Proof.
  induction t as [tag flag items kids IH] using tree_ind'. intros off.
  rewrite enc_tree_ov_unfold, enc_tree_split. unfold kids_bytes. cbn [t_kids]. f_equal.
  destruct (has_children (Node tag flag items kids)); [|reflexivity]. f_equal.
  apply on_list_ext. eapply Forall_impl; [|exact IH]. intros k Hk o. apply Hk.
Qed.

(* the override changes no length (hence no offset): only the bytes inside the DW_AT_sibling slots differ *)
Lemma enc_forest_ov_len codes ov bigend off f pad :
  nlen (enc_forest_ov codes ov bigend off f pad) = nlen (enc_forest codes bigend off f pad).
Proof.
  assert (Hfacts : Forall (tree_facts codes ov bigend) f)
    by (apply Forall_forall; intros t _; apply evs_ov_facts).
  destruct (list_facts codes ov bigend 0 f off Hfacts) as (B & L & _ & _).
  unfold enc_forest_ov, enc_forest. rewrite !nlen_app, <- B, L, enc_forest_list_len. reflexivity.
Qed.

(* ------------------------------------------------------------------ *)
(** * The full depth-first walk of a unit with overridden DW_AT_sibling values *)
Section UnitOv.
  Variables (dbg bigend types : bool) (uoff : N) (h : uheader) (codes : coding) (ov : N -> option N)
            (f : list tree) (pad : nat) (tbl : abbrevs).
  Let e := unit_enc bigend h.
  Let hl := header_len h.
  Let body := enc_forest_ov codes ov bigend hl f pad.
  Let hdr := parsed_header bigend types uoff h body.
  Hypothesis He : addr_size_ok e.
  Hypothesis Hlen : hl + nlen body < two63.
  Hypothesis Hcov : all_covered tbl codes f.
  Hypothesis Hok : forest_ok codes e f.
  Hypothesis Hfit : sibs_fit_ov codes ov hl f.

  Lemma dfs_ov :
    exists c, entries dbg hdr = Ok c /\
              dfs_all (cursor_fuel c) dbg e tbl c = Ok (preorder_ov codes ov hl 0 f, None).
  Proof.
    set (l := evs_list_ov codes ov bigend 0 hl f ++ pad_evs (hl + forest_size codes f) 0 pad).
    assert (Hfacts : Forall (tree_facts codes ov bigend) f)
      by (apply Forall_forall; intros t _; apply evs_ov_facts).
    destruct (list_facts codes ov bigend 0 f hl Hfacts) as (B & L & C & Ee).
    assert (Hb : xbytes l = body).
    { unfold l, body, enc_forest_ov. rewrite xbytes_app, B, pad_evs_bytes. reflexivity. }
    assert (Hp : Forall (placed_ok_ov codes ov e tbl) (on_list (placed codes) (tree_size codes) hl f)).
    { pose proof (placed_ok_all e tbl codes hl f Hcov Hok) as _.
      unfold all_covered in Hcov. unfold forest_ok in Hok. unfold sibs_fit_ov in Hfit.
      rewrite Forall_forall in *. intros p Hin. split; [|split].
      - apply Hcov. rewrite <- (placed_list_nodes codes f hl). apply (in_map snd) in Hin. exact Hin.
      - apply Hok. rewrite <- (placed_list_nodes codes f hl). apply (in_map snd) in Hin. exact Hin.
      - apply Hfit. exact Hin. }
    assert (Hev : Forall (ev_ok dbg e tbl) l).
    { unfold l. apply Forall_app. split; [|apply pad_evs_ok].
      change bigend with (be e).
      apply (evs_list_ov_ok_of codes ov dbg e tbl 0 f hl); [|exact Hp].
      apply Forall_forall. intros t _ d o. apply evs_ov_ok. exact He. }
    assert (Hch : chain hl 0 l).
    { unfold l. apply chain_app. split; [exact C|]. rewrite Ee, L. apply pad_evs_chain. }
    pose proof (at_chain_init dbg e tbl l hl (hl + nlen body) Hev Hch ltac:(rewrite Hb; reflexivity) Hlen) as Hat.
    rewrite Hb in Hat.
    set (c := mkCur (mkRaw body (hl + nlen body) 0) null_die).
    exists c. split; [apply entries_parsed; exact Hlen|].
    change (mkRaw body (hl + nlen body) 0) with (c_raw c) in Hat.
    pose proof (at_chain_fuel _ _ _ _ _ _ Hat) as Hf. unfold cursor_fuel.
    rewrite (dfs_all_chain dbg e tbl _ _ _ c Hat Hf). f_equal. f_equal.
    unfold l. rewrite map_app, filter_app, pad_evs_dies, filter_pad_nulls, app_nil_r.
    apply (filter_list_ov codes ov e bigend 0 f hl); [|exact Hok].
    apply Forall_forall. intros t _ Ht d o. apply (filter_tree_ov codes ov e); assumption.
  Qed.
End UnitOv.
