(* Proofs/OpDecProofs.v — lemmas about Model/OpDec.v (Operation::parse). *)
From Coq Require Import List NArith ZArith Bool Lia ZifyBool ZifyN ZifyNat.
From Coq.Strings Require Import Byte.
Require Import GV.Base.Res GV.Base.Byt GV.Base.Ints GV.Spec.LebSpec GV.Model.Leb GV.Model.Prim
  GV.Model.OpDec GV.Model.OpVal GV.Spec.StackSpec GV.Proofs.LebProofs.
Import ListNotations.
Local Open Scope N_scope.

Lemma read_u8_un (be : bool) (bs : list byte) : read_u8 bs = read_un 1 be bs.
Proof.
  destruct bs as [|b r]; [reflexivity|].
  unfold read_u8, read_un, read_bytes. cbn [take bind].
  destruct be; unfold be_val; cbn [rev app le_val]; f_equal; f_equal; lia.
Qed.

Ltac dt_step :=
  match goal with
  | |- ?a = ?a => reflexivity
  | |- context [bind (if ?c then _ else _) _] => destruct c eqn:?
  | |- context [bind ?x _] =>
      lazymatch x with
      | context [bind _ _] => fail
      | Ok _ => fail
      | Err _ => fail
      | _ => destruct x as [[? ?]| ? | |]
      end
  | |- context [if ?c then _ else _] => destruct c eqn:?
  end.

Lemma decode_table_lemma (dbg : bool) (e : enc) (opc : byte) (bs : list byte) :
  parse_opcode dbg e opc bs = generic_decode dbg e opc bs.
Proof.
  destruct opc; try reflexivity;
  unfold parse_opcode, parse_wasm, generic_decode, op_layout, read_operands, read_operand, read_register,
    register_from_u64, read_offset, read_u, read_i, two16, two64;
  rewrite ?(read_u8_un (e_be e));
  cbn [bind app op_build b2n Byte.to_N];
  repeat (dt_step; cbn [bind app op_build b2n Byte.to_N]); try reflexivity; try (exfalso; lia).
Qed.

(* ---------------------------------------------------------------- no panic, input consumption *)

(* r is what is left of bs after removing a prefix *)
Definition sfx (r bs : list byte) : Prop := exists u, bs = u ++ r.

Lemma sfx_refl bs : sfx bs bs.
Proof. now exists []. Qed.
Lemma sfx_trans a b c : sfx a b -> sfx b c -> sfx a c.
Proof. intros [u ->] [v ->]. exists (v ++ u). now rewrite app_assoc. Qed.
Lemma sfx_cons b r bs : sfx r bs -> sfx r (b :: bs).
Proof. intros [u ->]. now exists (b :: u). Qed.
Lemma sfx_length r bs : sfx r bs -> (length r <= length bs)%nat.
Proof. intros [u ->]. rewrite app_length. lia. Qed.

(* a reader result that is no panic, no fuel exhaustion, and leaves a suffix of its input *)
Definition rgood {A} (bs : list byte) (r : res (A * list byte)) : Prop :=
  r <> Panic /\ r <> OutOfFuel /\ forall v rest, r = Ok (v, rest) -> sfx rest bs.

Lemma rgood_ok {A} bs (v : A) r : sfx r bs -> rgood bs (Ok (v, r)).
Proof. intros H. split; [|split]; try discriminate. intros v' r' E. now inversion E; subst. Qed.
Lemma rgood_err {A} bs e : @rgood A bs (Err e).
Proof. split; [|split]; discriminate. Qed.
Lemma rgood_weaken {A} r bs (x : res (A * list byte)) : sfx r bs -> rgood r x -> rgood bs x.
Proof. intros S (H1 & H2 & H3). split; [|split]; auto. intros v rest E. eapply sfx_trans; eauto. Qed.
Lemma rgood_bind {A B} bs (m : res (A * list byte)) (f : A * list byte -> res (B * list byte)) :
  rgood bs m -> (forall v r, sfx r bs -> rgood bs (f (v, r))) -> rgood bs (bind m f).
Proof.
  intros (H1 & H2 & H3) Hf. destruct m as [[v r]| e | |]; cbn [bind].
  - apply Hf. exact (H3 v r eq_refl).
  - apply rgood_err.
  - now destruct H1.
  - now destruct H2.
Qed.
(* bind of a pure (non-reader) step *)
Lemma rgood_bind_pure {A B} bs (m : res A) (f : A -> res (B * list byte)) :
  m <> Panic -> m <> OutOfFuel -> (forall v, rgood bs (f v)) -> rgood bs (bind m f).
Proof. intros H1 H2 Hf. destruct m; cbn [bind]; auto using rgood_err; contradiction. Qed.

Lemma take_sfx n : forall bs h t, take n bs = Some (h, t) -> bs = h ++ t.
Proof.
  induction n as [|n IH]; intros bs h t H; cbn [take] in H.
  - now inversion H.
  - destruct bs as [|b r]; [discriminate|]. destruct (take n r) as [[h' t']|] eqn:E; [|discriminate].
    inversion H; subst. cbn. f_equal. now apply IH.
Qed.

Lemma read_bytes_good n bs : rgood bs (read_bytes n bs).
Proof.
  unfold read_bytes. destruct (take n bs) as [[h t]|] eqn:E; [|apply rgood_err].
  apply rgood_ok. exists h. now apply take_sfx in E.
Qed.
Lemma read_un_good n be bs : rgood bs (read_un n be bs).
Proof. unfold read_un. apply rgood_bind; [apply read_bytes_good|]. intros v r S. now apply rgood_ok. Qed.
Lemma read_in_good n be bs : rgood bs (read_in n be bs).
Proof. unfold read_in. apply rgood_bind; [apply read_un_good|]. intros v r S. now apply rgood_ok. Qed.
Lemma read_u8_good bs : rgood bs (read_u8 bs).
Proof. rewrite (read_u8_un false). apply read_un_good. Qed.
Lemma read_address_good sz be bs : rgood bs (read_address sz be bs).
Proof. unfold read_address. repeat (destruct (_ =? _)); auto using read_un_good, rgood_err. Qed.
Lemma read_word_good f be bs : rgood bs (read_word f be bs).
Proof. unfold read_word. destruct f; apply read_un_good. Qed.

Lemma read_uleb128_good dbg bs : rgood bs (read_uleb128 dbg bs).
Proof.
  rewrite read_uleb128_exact. unfold uleb_spec.
  destruct (split_leb bs) as [[en r]|] eqn:S.
  - apply split_leb_app in S. destruct (_ && _); [|apply rgood_err]. apply rgood_ok. now exists en.
  - destruct (_ <=? _)%nat; apply rgood_err.
Qed.
Lemma read_sleb128_good dbg bs : rgood bs (read_sleb128 dbg bs).
Proof.
  rewrite read_sleb128_exact. unfold sleb_spec.
  destruct (split_leb bs) as [[en r]|] eqn:S.
  - apply split_leb_app in S. destruct (_ && _); [|apply rgood_err]. apply rgood_ok. now exists en.
  - destruct (_ <=? _)%nat; apply rgood_err.
Qed.
Lemma read_uleb128_u32_good dbg bs : rgood bs (read_uleb128_u32 dbg bs).
Proof.
  unfold read_uleb128_u32. apply rgood_bind; [apply read_uleb128_good|]. intros v r S.
  destruct (_ <? _); auto using rgood_ok, rgood_err.
Qed.
Lemma split_n_good len bs : rgood bs (split_n len bs).
Proof.
  unfold split_n. destruct (_ <? _); [apply rgood_err|]. apply rgood_ok.
  exists (firstn (N.to_nat len) bs). now rewrite firstn_skipn.
Qed.
Lemma read_register_good dbg bs : rgood bs (read_register dbg bs).
Proof.
  unfold read_register. apply rgood_bind; [apply read_uleb128_good|]. intros v r S.
  unfold register_from_u64. destruct (_ <? _); cbn [bind]; auto using rgood_ok, rgood_err.
Qed.
Lemma read_offset_good e bs : rgood bs (read_offset e bs).
Proof. apply read_word_good. Qed.

Global Hint Resolve read_un_good read_in_good read_u8_good read_address_good read_word_good read_uleb128_good
  read_sleb128_good read_uleb128_u32_good split_n_good read_register_good read_offset_good sfx_refl rgood_err : rgood.

Ltac rgood_step :=
  match goal with
  | |- rgood _ (Ok (_, _)) => apply rgood_ok; eauto using sfx_trans, sfx_refl
  | |- rgood _ (Err _) => apply rgood_err
  | |- rgood _ (if ?c then _ else _) => destruct c
  | |- rgood ?bs (bind ?m _) =>
      apply rgood_bind;
      [ first [ solve [auto with rgood]
              | match goal with S : sfx ?r bs |- rgood bs (_ ?r) => apply (rgood_weaken r bs _ S); auto with rgood end
              | match goal with S : sfx ?r bs |- rgood bs (_ _ ?r) => apply (rgood_weaken r bs _ S); auto with rgood end
              | match goal with S : sfx ?r bs |- rgood bs (_ _ _ ?r) => apply (rgood_weaken r bs _ S); auto with rgood end
              | match goal with S : sfx ?r bs |- rgood bs (_ _ _ _ ?r) => apply (rgood_weaken r bs _ S); auto with rgood end ]
      | intros ? ? ?; cbn beta iota ]
  end.

Lemma parse_wasm_good dbg e bs : rgood bs (parse_wasm dbg e bs).
Proof. unfold parse_wasm, read_u. repeat rgood_step. Qed.

Lemma parse_opcode_good dbg e opc bs : rgood bs (parse_opcode dbg e opc bs).
Proof.
  destruct opc; unfold parse_opcode; try apply rgood_err; try apply parse_wasm_good;
    unfold read_u, read_i; repeat rgood_step.
Show.
