(* Proofs/LineRdU16.v — leb128::read::u16 inverts the canonical encoder below 2^14 (all DWARF form codes):
   a finite sweep plus an extension lemma. *)
From Coq Require Import List NArith ZArith Bool Lia ZifyBool ZifyN ZifyNat.
From Coq.Strings Require Import Byte.
Require Import GV.Base.Res GV.Base.Byt GV.Base.Ints GV.Model.Leb GV.Model.Prim GV.Spec.LebSpec.
Import ListNotations.
Local Open Scope N_scope.

(* ---------------------------------------------------------------- leb128::read::u16 on canonical encodings *)
Definition below16384 : list N := map N.of_nat (seq 0 (N.to_nat 16384)).
Lemma below16384_in n : n < 16384 -> In n below16384.
Proof.
  intros H. unfold below16384. apply in_map_iff. exists (N.to_nat n). split; [lia|]. apply in_seq. lia.
Qed.

Definition u16_case (v : N) : bool :=
  match read_uleb128_u16 (enc_uleb v) with
  | Ok (v', []) => v' =? v
  | _ => false
  end.

Lemma u16_sweep : forallb u16_case below16384 = true.
Proof. vm_compute. reflexivity. Qed.

Lemma read_uleb128_u16_ext a v r t : read_uleb128_u16 a = Ok (v, r) -> read_uleb128_u16 (a ++ t) = Ok (v, r ++ t).
Proof.
  unfold read_uleb128_u16. destruct a as [|b0 a]; cbn [read_u8 bind app]; [discriminate|].
  destruct (negb (has_cont (b2n b0))); [intros H; inversion H; reflexivity|].
  destruct a as [|b1 a]; cbn [read_u8 bind app]; [discriminate|].
  destruct (negb (has_cont (b2n b1))); [intros H; inversion H; reflexivity|].
  destruct a as [|b2 a]; cbn [read_u8 bind app]; [discriminate|].
  destruct (3 <? b2n b2); [discriminate|].
  match goal with |- context[if ?c then _ else _] => destruct c end; intros H; inversion H; reflexivity.
Qed.

Lemma read_uleb128_u16_enc v tail : v < 16384 -> read_uleb128_u16 (enc_uleb v ++ tail) = Ok (v, tail).
Proof.
  intros H. pose proof u16_sweep as S. rewrite forallb_forall in S.
  specialize (S v (below16384_in v H)). unfold u16_case in S.
  destruct (read_uleb128_u16 (enc_uleb v)) as [[v' [|? ?]]| | |] eqn:E; try discriminate.
  apply N.eqb_eq in S. subst v'. apply (read_uleb128_u16_ext _ _ _ tail) in E. exact E.
Qed.

