(* Proofs/CfiRdPtr.v — parse_encoded_value / parse_encoded_pointer against ptr_spec (C05 clause 3). *)
From Coq Require Import List NArith ZArith Bool Lia ZifyBool ZifyN ZifyNat.
From Coq.Strings Require Import Byte.
Require Import GV.Base.Res GV.Base.Byt GV.Base.Ints GV.Model.Leb GV.Model.Prim GV.Spec.LebSpec.
Require Import GV.Spec.CfiSpec GV.Model.CfiRd GV.Proofs.CfiRdBase.
Import ListNotations.
Local Open Scope N_scope.

Local Ltac Zify.zify_post_hook ::= Z.div_mod_to_equations.
Local Arguments N.add : simpl never.
Local Arguments N.sub : simpl never.
Local Arguments N.mul : simpl never.
Local Arguments N.shiftl : simpl never.
Local Arguments N.shiftr : simpl never.
Local Arguments N.land : simpl never.
Local Arguments N.lor : simpl never.
Local Arguments N.pow : simpl never.
Local Arguments N.div : simpl never.
Local Arguments N.modulo : simpl never.

Lemma fmt_cases : forall f, fmt_valid f = true ->
  f = 0 \/ f = 1 \/ f = 2 \/ f = 3 \/ f = 4 \/ f = 9 \/ f = 10 \/ f = 11 \/ f = 12.
Proof.
  intros f H. unfold fmt_valid in H. cbn [existsb] in H. lia.
Qed.

Lemma app_cases : forall a, app_valid a = true ->
  a = 0 \/ a = 16 \/ a = 32 \/ a = 48 \/ a = 64 \/ a = 80.
Proof.
  intros a H. unfold app_valid in H. cbn [existsb] in H. lia.
Qed.

Lemma pow256 : forall n, 256 ^ n = 2 ^ (8 * n).
Proof. intros. change 256 with (2 ^ 8). rewrite <- N.pow_mul_r. reflexivity. Qed.

(* a value that fits its format is read back unchanged, consuming exactly its encoding *)
Lemma pev_enc : forall dbg be enc pp o v rest,
  asz_ok (pp_asz pp) -> fmt_valid (pe_format enc) = true ->
  value_fits (pe_format enc) (pp_asz pp) v = true ->
  parse_encoded_value dbg be enc pp (mkrd o (enc_value (pe_format enc) (pp_asz pp) be v ++ rest))
  = Ok (v, mkrd (o + nlen (enc_value (pe_format enc) (pp_asz pp) be v)) rest).
Proof.
  intros dbg be enc pp o v rest Hasz Hf Hfit.
  unfold parse_encoded_value, enc_value, value_fits in *.
  apply fmt_cases in Hf.
  destruct Hf as [Hf|[Hf|[Hf|[Hf|[Hf|[Hf|[Hf|[Hf|Hf]]]]]]]]; rewrite Hf in *; cbn [N.eqb Pos.eqb] in *.
  - (* absptr *)
    apply lift_app. rewrite read_address_ok by exact Hasz.
    apply read_un_small. rewrite N2Nat.id, pow256. lia.
  - (* uleb128 *)
    apply lift_app. apply read_uleb_enc. lia.
  - apply lift_app. apply (read_un_small 2). change (256 ^ N.of_nat 2) with (2 ^ 16). lia.
  - apply lift_app. apply (read_un_small 4). change (256 ^ N.of_nat 4) with (2 ^ 32). lia.
  - apply lift_app. apply (read_un_small 8). change (256 ^ N.of_nat 8) with (2 ^ 64). lia.
  - (* sleb128 *)
    rewrite (lift_app _ _ _ _ _ (s64 v)).
    + cbn [bind]. rewrite of_i64_s64 by lia. reflexivity.
    + apply read_sleb_enc. apply s64_range. lia.
  - (* sdata2 *)
    rewrite (lift_app _ _ _ _ _ (to_signed 16 (v mod 2 ^ 16))).
    + cbn [bind]. rewrite of_i64_to_signed; [reflexivity|auto| |].
      * change (2 ^ (16 - 1)) with (2 ^ 15). lia.
      * change (2 ^ (16 - 1)) with (2 ^ 15). lia.
    + apply (read_in_enc 2).
  - rewrite (lift_app _ _ _ _ _ (to_signed 32 (v mod 2 ^ 32))).
    + cbn [bind]. rewrite of_i64_to_signed; [reflexivity|auto| |].
      * change (2 ^ (32 - 1)) with (2 ^ 31). lia.
      * change (2 ^ (32 - 1)) with (2 ^ 31). lia.
    + apply (read_in_enc 4).
  - rewrite (lift_app _ _ _ _ _ (to_signed 64 (v mod 2 ^ 64))).
    + cbn [bind]. rewrite of_i64_to_signed; [reflexivity|auto| |].
      * lia.
      * change (2 ^ (64 - 1)) with (2 ^ 63). lia.
    + apply (read_in_enc 8).
Qed.

(* ------------------------------------------------------------------ pointers *)
Definition pb_of (pp : pparams) : pbases :=
  mkpb (sb_section (pp_bases pp)) (sb_text (pp_bases pp)) (sb_data (pp_bases pp)) (pp_func pp).
Definition mkptr (ind : bool) (a : N) : pointer := if ind then Indirect a else Direct a.

(* which error a pointer with an unusable application reports *)
Definition base_err (app : N) : error :=
  if app =? 16 then EPcRelativePointerButSectionBaseIsUndefined
  else if app =? 32 then ETextRelativePointerButTextBaseIsUndefined
  else if app =? 48 then EDataRelativePointerButDataBaseIsUndefined
  else if app =? 64 then EFuncRelativePointerInBadContext
  else EUnsupportedPointerEncoding.

(* parse_encoded_pointer on ANY reader: validity, omit, base selection exactly as the LSB
   definition (base_spec), then the value, then truncation to the address size *)
Lemma pep_char : forall dbg be enc pp r,
  enc < 256 -> asz_ok (pp_asz pp) ->
  parse_encoded_pointer dbg be enc pp r =
  if negb (valid_spec enc) then Err EUnknownPointerEncoding
  else if enc =? 255 then Err ECannotParseOmitPointerEncoding
  else match base_spec (app_of enc) (pp_asz pp) (pb_of pp) (off r) with
       | None => Err (base_err (app_of enc))
       | Some base =>
           let* (offset, r1) := parse_encoded_value dbg be enc pp r in
           Ok (mkptr (negb (ind_of enc =? 0)) ((base + offset) mod 2 ^ (8 * pp_asz pp)), r1)
       end.
Proof.
  intros dbg be enc pp r He Hasz. unfold parse_encoded_pointer.
  rewrite pe_valid_all_lem_base by exact He.
  destruct (valid_spec enc) eqn:Ev; [|reflexivity]. cbn [negb].
  unfold DW_EH_PE_omit. destruct (enc =? 255) eqn:E255; [reflexivity|].
  destruct (pe_decomp_base enc He) as (Hfmt & Happ & Hind & _).
  rewrite Happ. unfold pointer_new. rewrite Hind.
  assert (Hav : app_valid (app_of enc) = true).
  { unfold valid_spec in Ev. rewrite E255 in Ev. cbn [orb] in Ev. apply andb_true_iff in Ev. tauto. }
  apply app_cases in Hav. unfold base_spec, base_err, pb_of. cbn [b_section b_text b_data b_func].
  destruct Hav as [Ha|[Ha|[Ha|[Ha|[Ha|Ha]]]]]; rewrite Ha; cbn [N.eqb Pos.eqb].
  - cbn [bind]. destruct (parse_encoded_value dbg be enc pp r) as [[offset r1]| | |]; cbn [bind]; try reflexivity.
    rewrite wadd_sized_ok by exact Hasz. reflexivity.
  - destruct (sb_section (pp_bases pp)) as [sb|]; [|reflexivity].
    rewrite wadd_sized_ok by exact Hasz. cbn [bind].
    destruct (parse_encoded_value dbg be enc pp r) as [[offset r1]| | |]; cbn [bind]; try reflexivity.
    rewrite wadd_sized_ok by exact Hasz. reflexivity.
  - destruct (sb_text (pp_bases pp)) as [t|]; [|reflexivity]. cbn [bind].
    destruct (parse_encoded_value dbg be enc pp r) as [[offset r1]| | |]; cbn [bind]; try reflexivity.
    rewrite wadd_sized_ok by exact Hasz. reflexivity.
  - destruct (sb_data (pp_bases pp)) as [t|]; [|reflexivity]. cbn [bind].
    destruct (parse_encoded_value dbg be enc pp r) as [[offset r1]| | |]; cbn [bind]; try reflexivity.
    rewrite wadd_sized_ok by exact Hasz. reflexivity.
  - destruct (pp_func pp) as [t|]; [|reflexivity]. cbn [bind].
    destruct (parse_encoded_value dbg be enc pp r) as [[offset r1]| | |]; cbn [bind]; try reflexivity.
    rewrite wadd_sized_ok by exact Hasz. reflexivity.
  - reflexivity.
Qed.

(* round trip: the pointer denoted by (enc, bases, position, value) is what the reader returns *)
Lemma pep_enc : forall dbg be enc pp o v rest ind a,
  enc < 256 -> asz_ok (pp_asz pp) -> valid_spec enc = true -> enc <> 255 ->
  value_fits (fmt_of enc) (pp_asz pp) v = true ->
  ptr_spec enc (pp_asz pp) (pb_of pp) o v = Some (ind, a) ->
  parse_encoded_pointer dbg be enc pp (mkrd o (enc_value (fmt_of enc) (pp_asz pp) be v ++ rest))
  = Ok (mkptr ind a, mkrd (o + nlen (enc_value (fmt_of enc) (pp_asz pp) be v)) rest).
Proof.
  intros dbg be enc pp o v rest ind a He Hasz Hv H255 Hfit Hspec.
  rewrite pep_char by assumption. rewrite Hv. cbn [negb].
  destruct (enc =? 255) eqn:E255; [lia|]. cbn [off].
  unfold ptr_spec in Hspec.
  destruct (base_spec (app_of enc) (pp_asz pp) (pb_of pp) o) as [base|]; [|discriminate].
  injection Hspec as <- <-.
  destruct (pe_decomp_base enc He) as (Hfmt & _).
  rewrite <- Hfmt in *.
  rewrite pev_enc; [reflexivity|exact Hasz| |exact Hfit].
  unfold valid_spec in Hv. rewrite E255 in Hv. cbn [orb] in Hv. apply andb_true_iff in Hv.
  rewrite Hfmt. tauto.
Qed.
