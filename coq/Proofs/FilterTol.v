(* Proofs/FilterTol.v — the error-tolerant filtered conversion emits exactly the reserved DIEs, for EVERY
   forest (no hypothesis that the unfiltered conversion succeeds): out-of-bounds and dangling references
   neither add to nor remove from the output. *)
From Coq Require Import List NArith ZArith Bool Lia.
Require Import GV.Base.Res GV.Spec.Graph GV.Model.Filter GV.Spec.FilterSpec.
Require Import GV.Proofs.FilterProofs GV.Proofs.FilterEdges GV.Proofs.FilterConv.
Import ListNotations.
Local Open Scope N_scope.

Lemma ent_sec_strip : forall u rs, map (ent_sec u) (map strip_raw rs) = map (ent_sec u) rs.
Proof. intros u rs. rewrite map_map. apply map_ext. intros r. reflexivity. Qed.

Lemma convert_units_tol_char : forall ids units out,
  exists out', convert_units_tol ids units out = Ok out' /\
    map fst out' = map fst out ++
      filter (fun x => mem_n x ids) (flat_map (fun u => map (ent_sec u) (unit_raw u)) units).
Proof.
  intros ids units. induction units as [|u us IH]; intros out.
  - exists out. cbn. now rewrite app_nil_r.
  - cbn [convert_units_tol flat_map].
    match goal with |- context [cu_entries u ids ?st _] =>
      destruct (cu_entries_char u ids (map strip_raw (unit_raw u)) st) as [st' [H1 H2]] end.
    { intros r Hr _. apply in_map_iff in Hr. destruct Hr as [r0 [<- _]]. reflexivity. }
    unfold unit_raw in H1. rewrite H1. cbn [bind].
    destruct (IH (snd st')) as [out' [H3 H4]].
    exists out'. split; [exact H3|]. rewrite H4, H2, ent_sec_strip. cbn [snd].
    rewrite filter_app, app_assoc. reflexivity.
Qed.

Lemma tolerant_emits_reserved_full : forall rf (dbg : bool) (req : N -> bool) (units : list unitd),
  wf_offsets units -> wf_layout units ->
  exists S out,
    reserved rf dbg req units = Ok S /\
    convert_filtered_tol rf dbg req units = Ok out /\
    (forall x, In x (map fst out) <-> In x S) /\
    (strict_sorted (section_offsets units) -> map fst out = S).
Proof.
  intros rf dbg req units Hwf Hlay.
  destruct (filtered_ids rf dbg req units Hwf Hlay) as [S [ids [HS [Hsort [Hin [Hsl [_ Hids]]]]]]].
  assert (Hids' : convert_filtered_tol rf dbg req units =
                  convert_units_tol (reserve_all units (map (fun u => filter (in_unit u) S) units)) units []).
  { unfold convert_filtered_tol. rewrite HS. cbn [bind]. rewrite Hsl. reflexivity. }
  destruct (convert_units_tol_char (reserve_all units (map (fun u => filter (in_unit u) S) units)) units [])
    as [out [Hout Hfst]].
  assert (Hmem : forall x, In x (reserve_all units (map (fun u => filter (in_unit u) S) units)) <->
                           is_root units x \/ In x S).
  { intros x. rewrite reserve_all_in. unfold is_root. split.
    - intros [u [Hu [->|Hx]]]; [left; eauto|]. right. apply filter_In in Hx. tauto.
    - intros [[u [Hu ->]]|Hx]; [exists u; auto|].
      assert (Hv : f_valid units x) by (apply Hin in Hx; eapply reach_valid; eauto).
      destruct (valid_covered _ _ Hlay Hv) as [u [Hu Hx']].
      exists u. split; auto. right. apply filter_In. auto. }
  exists S, out. split; [exact HS|]. split; [now rewrite Hids'|].
  rewrite Hfst, unit_raw_offsets. cbn [map app].
  assert (Hset : forall x, In x (filter (fun x => mem_n x (reserve_all units (map (fun u => filter (in_unit u) S) units)))
                                  (section_offsets units)) <-> In x S).
  { intros x. rewrite filter_In, mem_n_iff, Hmem, <- section_al_offsets, section_al_valid. split.
    - intros [Hv [Hroot|HinS]]; auto. exfalso. eapply valid_not_root; eauto.
    - intros HinS. assert (f_valid units x) by (apply Hin in HinS; eapply reach_valid; eauto). auto. }
  split; [exact Hset|].
  intros Hss. apply strict_sorted_unique; auto. now apply filter_strict_sorted.
Qed.
