(* Proofs/LineWrSeqProofs.v — sequences of writer calls: op_advance, generate_row, end_sequence,
   set_address and whole scripts against Spec/LineAdvSpec.v (property C13). *)
From Coq Require Import List NArith ZArith Bool Lia ZifyBool ZifyN ZifyNat.
From Coq.Strings Require Import Byte.
Require Import GV.Base.Res GV.Base.Byt GV.Base.Ints GV.Model.Leb GV.Model.Prim.
Require Import GV.Spec.LineAdvSpec GV.Model.LineWr GV.Proofs.LineWrProofs.
Import ListNotations.

Local Ltac Zify.zify_post_hook ::= Z.div_mod_to_equations.
Local Arguments N.add : simpl never.
Local Arguments N.sub : simpl never.
Local Arguments N.mul : simpl never.
Local Arguments N.div : simpl never.
Local Arguments N.modulo : simpl never.
Local Arguments N.pow : simpl never.
Local Arguments Z.add : simpl never.
Local Arguments Z.sub : simpl never.
Local Arguments Z.mul : simpl never.
Local Arguments Z.div : simpl never.
Local Arguments Z.modulo : simpl never.
Local Arguments Z.of_N : simpl never.

(* ------------------------------------------------------------------ op_advance_vliw *)

(* what the caller has to respect between two consecutive rows of a sequence (documented: the offset
   does not decrease; inherent to the encoding: offsets are multiples of the instruction length, the
   operation index is below maximum_operations_per_instruction, the operation pointer does not go back) *)
Definition step_ok (l : lenc) (pao popi ao opi : N) : Prop :=
  (pao <= ao)%N /\ (pao mod le_min_len l = 0)%N /\ (ao mod le_min_len l = 0)%N /\
  (popi < le_max_ops l)%N /\ (opi < le_max_ops l)%N /\ (pao < ao \/ popi <= opi)%N.

Definition op_advance_value (l : lenc) (pao popi ao opi : N) : N :=
  ((ao - pao) / le_min_len l * le_max_ops l + opi - popi)%N.

Lemma op_advance_ok dbg l row prev :
  enc_ok l ->
  step_ok l (w_address_offset prev) (w_op_index prev) (w_address_offset row) (w_op_index row) ->
  ((w_address_offset row - w_address_offset prev) / le_min_len l * le_max_ops l + w_op_index row
     < 18446744073709551616)%N ->
  op_advance dbg l row prev =
    Ok (op_advance_value l (w_address_offset prev) (w_op_index prev) (w_address_offset row) (w_op_index row)).
Proof.
  intros (_ & _ & _ & Hmin & Hmax) (Hle & Hpm & Hm & Hpo & Ho & Hmono) Hrange.
  unfold op_advance, op_advance_value.
  set (ao := w_address_offset row) in *. set (pao := w_address_offset prev) in *.
  set (opi := w_op_index row) in *. set (popi := w_op_index prev) in *.
  set (mil := le_min_len l) in *. set (mops := le_max_ops l) in *.
  destruct (N.ltb_spec ao pao) as [Hc|_]; [lia|]. rewrite andb_false_r.
  rewrite chk_sub64_ok by lia. cbn [bind].
  assert (Ediv : ((ao - pao) mod mil = 0)%N).
  { rewrite (N.div_mod ao mil) at 1 by lia. rewrite (N.div_mod pao mil) at 1 by lia.
    rewrite Hpm, Hm, !N.add_0_r. rewrite <- N.mul_sub_distr_l.
    rewrite N.mul_comm. apply N.mod_mul. lia. }
  assert (Eq := N.div_mod (ao - pao) mil ltac:(lia)). rewrite Ediv, N.add_0_r in Eq.
  set (q := ((ao - pao) / mil)%N) in *.
  assert (Hq : (q * mops + opi >= popi)%N).
  { pose proof (N.le_0_l (q * mops)) as Hnn.
    destruct Hmono as [Hlt|Hge]; [|lia].
    destruct (N.eq_dec q 0) as [Hz|Hnz]; [rewrite Hz in Eq; lia|].
    assert (1 * mops <= q * mops)%N by (apply N.mul_le_mono_r; lia). lia. }
  destruct (N.eqb_spec mil 1) as [E1|N1]; cbn [negb].
  - cbn [bind]. assert (Eq1 : (ao - pao = q)%N) by (rewrite E1 in Eq; lia). rewrite Eq1.
    rewrite chk_mul64_ok by lia. cbn [bind]. rewrite chk_add64_ok by lia. cbn [bind].
    rewrite chk_sub64_ok by lia. reflexivity.
  - destruct (N.eqb_spec mil 0) as [Hc|_]; [lia|].
    rewrite Hm. cbn [N.eqb negb]. rewrite andb_false_r. cbn [bind].
    rewrite chk_mul64_ok by lia. cbn [bind]. rewrite chk_add64_ok by lia. cbn [bind].
    rewrite chk_sub64_ok by lia. reflexivity.
Qed.

(* the reader turns that operation advance back into exactly (address + delta, op_index') *)
Lemma op_advance_vliw l pao popi ao opi r :
  enc_ok l -> step_ok l pao popi ao opi -> r_op_index r = Z.of_N popi ->
  op_adv (params_of l) (Z.of_N (op_advance_value l pao popi ao opi)) r =
  mkRegs (r_address r + (Z.of_N ao - Z.of_N pao)) (Z.of_N opi) (r_file r) (r_line r) (r_column r)
         (r_is_stmt r) (r_basic_block r) (r_end_sequence r) (r_prologue_end r) (r_epilogue_begin r)
         (r_isa r) (r_discriminator r).
Proof.
  intros (_ & _ & _ & Hmin & Hmax) (Hle & Hpm & Hm & Hpo & Ho & Hmono) Hopi.
  unfold op_adv, op_advance_value. cbn [params_of lp_min_len lp_max_ops]. rewrite Hopi.
  set (mil := le_min_len l) in *. set (mops := le_max_ops l) in *.
  assert (Ediv : ((ao - pao) mod mil = 0)%N).
  { rewrite (N.div_mod ao mil) at 1 by lia. rewrite (N.div_mod pao mil) at 1 by lia.
    rewrite Hpm, Hm, !N.add_0_r. rewrite <- N.mul_sub_distr_l.
    rewrite N.mul_comm. apply N.mod_mul. lia. }
  assert (Eq := N.div_mod (ao - pao) mil ltac:(lia)). rewrite Ediv, N.add_0_r in Eq.
  set (q := ((ao - pao) / mil)%N) in *.
  assert (Hq : (q * mops + opi >= popi)%N).
  { pose proof (N.le_0_l (q * mops)) as Hnn.
    destruct Hmono as [Hlt|Hge]; [|lia].
    destruct (N.eq_dec q 0) as [Hz|Hnz]; [rewrite Hz in Eq; lia|].
    assert (1 * mops <= q * mops)%N by (apply N.mul_le_mono_r; lia). lia. }
  replace (Z.of_N popi + Z.of_N (q * mops + opi - popi))%Z with (Z.of_N opi + Z.of_N q * Z.of_N mops)%Z by lia.
  destruct (special_decompose (Z.of_N opi) (Z.of_N q) (Z.of_N mops) ltac:(lia)) as [Ed Em].
  rewrite Ed, Em. f_equal. lia.
Qed.

(* ------------------------------------------------------------------ generate_row *)

Lemma wrap_signed64_id z : i64 z -> wrap_signed 64 z = z.
Proof.
  intros H. unfold i64 in H. unfold wrap_signed, to_signed, of_signed, wrapN. rewrite pow64.
  change (2 ^ (64 - 1))%N with 9223372036854775808%N.
  change (Z.of_N 18446744073709551616) with 18446744073709551616%Z.
  assert (Hm : (0 <= z mod 18446744073709551616 < 18446744073709551616)%Z) by (apply Z.mod_pos_bound; lia).
  rewrite N.mod_small by lia.
  destruct (N.ltb_spec (Z.to_N (z mod 18446744073709551616)) 9223372036854775808); lia.
Qed.

(* the chunking loop: enough fuel for f+1 multiples of the i64 range; the chunks advance the line by
   delta - rest and the rest fits an i64 *)
Lemma line_chunks_S f delta :
  line_chunks (S f) delta =
  if (9223372036854775807 <? delta)%Z then
    let* (l, d) := line_chunks f (delta - 9223372036854775807)%Z in Ok (IAdvanceLine 9223372036854775807 :: l, d)
  else if (delta <? -9223372036854775808)%Z then
    let* (l, d) := line_chunks f (delta - -9223372036854775808)%Z in Ok (IAdvanceLine (-9223372036854775808) :: l, d)
  else Ok ([], delta).
Proof. reflexivity. Qed.

Lemma line_chunks_gen f : forall delta,
  (-9223372036854775808 * (Z.of_nat f + 1) <= delta <= 9223372036854775807 * (Z.of_nat f + 1))%Z ->
  exists chunks d,
    line_chunks (S f) delta = Ok (chunks, d) /\ i64 d /\ Forall special_ok chunks /\
    forall ver p r, run p (map (denote ver) chunks) r = ([], line_adv (delta - d) r).
Proof.
  induction f as [|f IH]; intros delta Hd; rewrite line_chunks_S.
  - destruct (Z.ltb_spec 9223372036854775807 delta) as [Hc|_]; [lia|].
    destruct (Z.ltb_spec delta (-9223372036854775808)) as [Hc|_]; [lia|].
    exists [], delta. repeat split; try (unfold i64; lia); auto.
    intros ver p r. cbn [map run]. rewrite Z.sub_diag. now rewrite line_adv_0.
  - destruct (Z.ltb_spec 9223372036854775807 delta) as [Hgt|Hle].
    + destruct (IH (delta - 9223372036854775807)%Z ltac:(lia)) as (chunks & d & E & Hi & F & R).
      rewrite E. cbn [bind].
      exists (IAdvanceLine 9223372036854775807 :: chunks), d. split; [reflexivity|]. split; [exact Hi|].
      split; [constructor; [exact I|exact F]|].
      intros ver p r. cbn [map denote run step exec]. rewrite R. cbn [app].
      rewrite line_adv_line_adv. f_equal. f_equal. lia.
    + destruct (Z.ltb_spec delta (-9223372036854775808)) as [Hlt|Hge].
      * destruct (IH (delta - -9223372036854775808)%Z ltac:(lia)) as (chunks & d & E & Hi & F & R).
        rewrite E. cbn [bind].
        exists (IAdvanceLine (-9223372036854775808) :: chunks), d. split; [reflexivity|]. split; [exact Hi|].
        split; [constructor; [exact I|exact F]|].
        intros ver p r. cbn [map denote run step exec]. rewrite R. cbn [app].
        rewrite line_adv_line_adv. f_equal. f_equal. lia.
      * exists [], delta. repeat split; try (unfold i64; lia); auto.
        intros ver p r. cbn [map run]. rewrite Z.sub_diag. now rewrite line_adv_0.
Qed.

(* fuel 3 suffices for the difference of any two u64 line numbers *)
Lemma line_chunks_ok a b : (a < 18446744073709551616)%N -> (b < 18446744073709551616)%N ->
  exists chunks d,
    line_chunks 3 (Z.of_N a - Z.of_N b) = Ok (chunks, d) /\ i64 d /\ Forall special_ok chunks /\
    forall ver p r, run p (map (denote ver) chunks) r = ([], line_adv (Z.of_N a - Z.of_N b - d) r).
Proof.
  intros Ha Hb. apply (line_chunks_gen 2). cbn. lia.
Qed.

(* the row the reader must produce for a writer row: address advanced by the offset difference,
   every other register verbatim *)
Definition row_regs (ver : N) (r : regs) (pao : N) (row : wrow) : regs :=
  mkRegs (r_address r + (Z.of_N (w_address_offset row) - Z.of_N pao)) (Z.of_N (w_op_index row))
         (raw ver (w_file row)) (Z.of_N (w_line row)) (Z.of_N (w_column row)) (w_is_statement row)
         (w_basic_block row) false (w_prologue_end row) (w_epilogue_begin row)
         (Z.of_N (w_isa row)) (Z.of_N (w_discriminator row)).

(* what a caller may ask of generate_row, relative to the previous row of the sequence: the step
   conditions, u64 line numbers (any), and an operation advance that fits a u64 (the remaining known
   finding: `address_advance * max_ops + op_index` is unchecked) *)
Definition row_ok (l : lenc) (prev row : wrow) : Prop :=
  step_ok l (w_address_offset prev) (w_op_index prev) (w_address_offset row) (w_op_index row) /\
  (w_line prev < 18446744073709551616)%N /\ (w_line row < 18446744073709551616)%N /\
  ((w_address_offset row - w_address_offset prev) / le_min_len l * le_max_ops l + w_op_index row
     < 18446744073709551616)%N.

Lemma generate_row_correct dbg p row ver r :
  enc_ok (p_lenc p) ->
  synced ver (p_prev p) r -> row_ok (p_lenc p) (p_prev p) row ->
  exists new,
    generate_row dbg (set_row row p) =
      Ok (set_prev (clear_row_flags row) (set_row (clear_row_flags row)
            (push_insns new (set_in_seq true (set_row row p))))) /\
    Forall special_ok new /\
    run (params_of (p_lenc p)) (map (denote ver) new) r =
      ([row_regs ver r (w_address_offset (p_prev p)) row],
       after_row (params_of (p_lenc p)) (row_regs ver r (w_address_offset (p_prev p)) row)) /\
    synced ver (clear_row_flags row)
           (after_row (params_of (p_lenc p)) (row_regs ver r (w_address_offset (p_prev p)) row)).
Proof.
  intros Hok Hsync (Hstep & Hpl & Hrl & Hq).
  set (l := p_lenc p) in *. set (prev := p_prev p) in *.
  unfold generate_row. cbn [p_row p_prev p_lenc set_row clear_row_flags w_line w_address_offset w_op_index].
  fold l. fold prev.
  destruct (line_chunks_ok (w_line row) (w_line prev) Hrl Hpl) as (chunks & d & Ech & Hd & Fch & Rch).
  rewrite Ech. cbn [bind]. rewrite (wrap_signed64_id d Hd).
  (* op_advance only reads address_offset and op_index *)
  assert (Eop : op_advance dbg l (clear_row_flags row) prev = op_advance dbg l row prev) by reflexivity.
  rewrite Eop. clear Eop.
  rewrite (op_advance_ok dbg l row prev Hok Hstep Hq). cbn [bind].
  set (oadv := op_advance_value l (w_address_offset prev) (w_op_index prev) (w_address_offset row) (w_op_index row)) in *.
  destruct (advance_correct dbg l d oadv Hok Hd) as (adv & Eadv & Fadv & Radv).
  rewrite Eadv. cbn [bind].
  exists (field_insns row prev ++ chunks ++ adv). split; [reflexivity|].
  assert (Hmaxz : (0 < lp_max_ops (params_of l))%Z) by (destruct Hok as (_ & _ & _ & _ & ?); cbn; lia).
  pose proof Hsync as Hsync'. destruct Hsync' as (Sop & Sfile & Sline & Scol & Sstmt & Sisa & Sdisc & Sbb & Spe & Seb & Ses).
  destruct Hstep as (Hle & Hpm & Hm & Hpo & Ho & Hmono).
  split.
  { apply Forall_app; split; [|apply Forall_app; split; [exact Fch|exact Fadv]].
    unfold field_insns. repeat (apply Forall_app; split);
      match goal with |- Forall _ (if ?c then _ else _) => destruct c; repeat constructor end. }
  assert (Erow : op_adv (params_of l) (Z.of_N oadv)
                   (line_adv d (line_adv (Z.of_N (w_line row) - Z.of_N (w_line prev) - d) (fields_set ver row r)))
                 = row_regs ver r (w_address_offset prev) row).
  { rewrite line_adv_line_adv. unfold oadv. rewrite (op_advance_vliw l _ _ _ _ _ Hok
      (conj Hle (conj Hpm (conj Hm (conj Hpo (conj Ho Hmono)))))) by (cbn; exact Sop).
    unfold row_regs. cbn. f_equal. lia. }
  split.
  - rewrite map_app, run_app. rewrite (row_fields ver _ row prev r Hsync). cbv beta iota.
    rewrite map_app, run_app. rewrite Rch. cbv beta iota.
    rewrite Radv by (unfold regs_ok; cbn; rewrite Sop; lia).
    rewrite Erow. reflexivity.
  - unfold after_row, row_regs. cbn. unfold synced. cbn. repeat split; reflexivity.
Qed.

(* ------------------------------------------------------------------ end_sequence, seq_reset, set_address *)

(* the end_sequence row: the registers as they are, at the end address, flagged *)
Definition end_regs (r : regs) (pao off opi : N) : regs :=
  mkRegs (r_address r + (Z.of_N off - Z.of_N pao)) (Z.of_N opi) (r_file r) (r_line r) (r_column r)
         (r_is_stmt r) (r_basic_block r) true (r_prologue_end r) (r_epilogue_begin r) (r_isa r)
         (r_discriminator r).

Definition end_ok (l : lenc) (prev : wrow) (off opi : N) : Prop :=
  step_ok l (w_address_offset prev) (w_op_index prev) off opi /\
  ((off - w_address_offset prev) / le_min_len l * le_max_ops l + opi < 18446744073709551616)%N.

(* seq_reset: the writer's initial row and the reader's initial registers agree (versions <= 5) *)
Lemma seq_reset e l : (e_version e <= 5)%N ->
  synced (e_version e) (wrow_initial e l) (init_regs (params_of l)).
Proof.
  intros Hv. unfold synced, wrow_initial, init_regs, raw, fileid_initial. cbn.
  repeat split; try reflexivity.
  destruct (N.eqb_spec (e_version e) 5) as [->|Hne]; [reflexivity|].
  destruct (N.leb_spec (e_version e) 4); [reflexivity|lia].
Qed.

Lemma end_sequence_correct dbg p off opi ver r :
  enc_ok (p_lenc p) -> synced ver (p_prev p) r -> end_ok (p_lenc p) (p_prev p) off opi ->
  exists new,
    end_sequence dbg (set_row (with_op_index (p_row p) opi) p) off =
      Ok (set_prev (wrow_initial (p_enc p) (p_lenc p)) (set_row (wrow_initial (p_enc p) (p_lenc p))
            (push_insns new (set_in_seq false (set_row (with_op_index (p_row p) opi) p))))) /\
    Forall special_ok new /\
    run (params_of (p_lenc p)) (map (denote ver) new) r =
      ([end_regs r (w_address_offset (p_prev p)) off opi], init_regs (params_of (p_lenc p))).
Proof.
  intros Hok Hsync (Hstep & Hq).
  set (l := p_lenc p) in *. set (prev := p_prev p) in *.
  unfold end_sequence. cbn [p_row p_prev p_lenc p_enc set_row with_op_index w_op_index w_address_offset].
  fold l. fold prev.
  match goal with |- context [op_advance dbg l ?rw prev] => set (row := rw) end.
  assert (Hstep' : step_ok l (w_address_offset prev) (w_op_index prev) (w_address_offset row) (w_op_index row))
    by exact Hstep.
  rewrite (op_advance_ok dbg l row prev Hok Hstep' Hq). cbn [bind].
  cbn [w_address_offset w_op_index row].
  set (oadv := op_advance_value l (w_address_offset prev) (w_op_index prev) off opi).
  eexists. split; [reflexivity|].
  assert (Hmaxz : (0 < lp_max_ops (params_of l))%Z) by (destruct Hok as (_ & _ & _ & _ & ?); cbn; lia).
  destruct Hsync as (Sop & _).
  assert (Hr0 : regs_ok (params_of l) r).
  { unfold regs_ok. rewrite Sop. destruct Hstep as (_ & _ & _ & Hpo & _). cbn. lia. }
  assert (Eadv : op_adv (params_of l) (Z.of_N oadv) r =
                 mkRegs (r_address r + (Z.of_N off - Z.of_N (w_address_offset prev))) (Z.of_N opi) (r_file r)
                        (r_line r) (r_column r) (r_is_stmt r) (r_basic_block r) (r_end_sequence r)
                        (r_prologue_end r) (r_epilogue_begin r) (r_isa r) (r_discriminator r))
    by (unfold oadv; apply op_advance_vliw; assumption).
  split.
  { apply Forall_app; split; [destruct (negb (oadv =? 0)%N)|]; repeat constructor. }
  rewrite map_app, run_app.
  destruct (N.eqb_spec oadv 0) as [E0|E0]; cbn [negb map denote run step exec app].
  - rewrite E0 in Eadv. rewrite op_adv_0 in Eadv by assumption.
    assert (Ea := f_equal r_address Eadv). assert (Eo := f_equal r_op_index Eadv). cbn in Ea, Eo.
    unfold after_row, end_regs, set_end_sequence. cbn. rewrite <- Ea, <- Eo. reflexivity.
  - rewrite Eadv. unfold after_row, end_regs. cbn. reflexivity.
Qed.

(* set_address: the writer forgets the op_index exactly as the reader does (fix 64c2c71) *)
Lemma set_address_synced ver prev r a :
  synced ver prev r -> synced ver (with_op_index prev 0) (LineAdvSpec.set_address a r).
Proof.
  intros (Sop & Srest). unfold synced, LineAdvSpec.set_address, with_op_index. cbn.
  split; [reflexivity|exact Srest].
Qed.

Lemma set_address_synced0 ver prev r a :
  synced ver prev r -> w_op_index prev = 0%N -> synced ver prev (LineAdvSpec.set_address a r).
Proof.
  intros (Sop & Srest) H0. unfold synced, LineAdvSpec.set_address. cbn. rewrite H0. split; [reflexivity|exact Srest].
Qed.

(* ------------------------------------------------------------------ scripts of writer calls *)

(* the row-producing part of the writer API (directories, files and the file_has_* flags do not touch
   the instruction stream: see table_ops_keep_rows below) *)
Inductive rop : Type :=
| RBegin (a : option N)            (* begin_sequence(a.map(Address::Constant)) *)
| RSetAddr (a : N)                 (* set_address(Address::Constant(a)) *)
| RRow (row : wrow)                (* *row() = row; generate_row() *)
| REnd (off opi : N).              (* row().op_index = opi; end_sequence(off) *)

Definition apply_rop (dbg : bool) (p : prog) (o : rop) : res prog :=
  match o with
  | RBegin a => begin_sequence p (option_map AConst a)
  | RSetAddr a => Ok (LineWr.set_address p (AConst a))
  | RRow row => generate_row dbg (set_row row p)
  | REnd off opi => end_sequence dbg (set_row (with_op_index (p_row p) opi) p) off
  end.

Fixpoint apply_rops (dbg : bool) (p : prog) (ops : list rop) : res prog :=
  match ops with
  | [] => Ok p
  | o :: r => let* p' := apply_rop dbg p o in apply_rops dbg p' r
  end.

(* Meaning of a script (DESIGN §5 C13): state = reader registers + offset of the previous row.
   A row's address is the previous address plus the difference of the offsets (equivalently: sequence
   base + offset since the base); every other field is verbatim; set_address moves the address. *)
Definition m_step (ver : N) (lp : lparams) (st : regs * N) (o : rop) : list regs * (regs * N) :=
  match o with
  | RBegin None => ([], st)
  | RBegin (Some a) => ([], (LineAdvSpec.set_address (Z.of_N a) (fst st), snd st))
  | RSetAddr a => ([], (LineAdvSpec.set_address (Z.of_N a) (fst st), snd st))
  | RRow row => let rr := row_regs ver (fst st) (snd st) row in
                ([rr], (after_row lp rr, w_address_offset row))
  | REnd off opi => ([end_regs (fst st) (snd st) off opi], (init_regs lp, 0%N))
  end.

Fixpoint meaning (ver : N) (lp : lparams) (st : regs * N) (ops : list rop) : list regs * (regs * N) :=
  match ops with
  | [] => ([], st)
  | o :: r => let (rows1, st1) := m_step ver lp st o in
              let (rows2, st2) := meaning ver lp st1 r in (rows1 ++ rows2, st2)
  end.

(* what the caller has to respect (prev = the previous row as given by the caller, or the initial row) *)
Fixpoint script_ok (e : enc) (l : lenc) (prev : wrow) (in_seq : bool) (ops : list rop) : Prop :=
  match ops with
  | [] => True
  | RBegin a :: r => in_seq = false /\ w_op_index prev = 0%N /\ script_ok e l prev true r
  | RSetAddr a :: r => script_ok e l (with_op_index prev 0) true r
  | RRow row :: r => row_ok l prev row /\ script_ok e l (clear_row_flags row) true r
  | REnd off opi :: r => end_ok l prev off opi /\ script_ok e l (wrow_initial e l) false r
  end.

Lemma script_correct dbg ops : forall p r,
  enc_ok (p_lenc p) -> (e_version (p_enc p) <= 5)%N ->
  synced (e_version (p_enc p)) (p_prev p) r ->
  script_ok (p_enc p) (p_lenc p) (p_prev p) (p_in_seq p) ops ->
  exists p' new,
    apply_rops dbg p ops = Ok p' /\
    p_insns p' = p_insns p ++ new /\ p_enc p' = p_enc p /\ p_lenc p' = p_lenc p /\
    Forall special_ok new /\
    run (params_of (p_lenc p)) (map (denote (e_version (p_enc p))) new) r =
      (fst (meaning (e_version (p_enc p)) (params_of (p_lenc p)) (r, w_address_offset (p_prev p)) ops),
       fst (snd (meaning (e_version (p_enc p)) (params_of (p_lenc p)) (r, w_address_offset (p_prev p)) ops))).
Proof.
  induction ops as [|o ops IH]; intros p r Hok Hver Hsync Hscript.
  - exists p, []. cbn. rewrite app_nil_r. repeat split; auto.
  - destruct o as [a|a|row|off opi]; cbn [script_ok] in Hscript.
    + (* begin_sequence *)
      destruct Hscript as (Hin & Hop0 & Hrest).
      cbn [apply_rops apply_rop]. unfold begin_sequence. rewrite Hin.
      destruct a as [a|]; cbn [option_map bind].
      * set (p1 := push_insns [ISetAddress (AConst a)] (set_in_seq true p)).
        destruct (IH p1 (LineAdvSpec.set_address (Z.of_N a) r) Hok Hver
                    (set_address_synced0 _ _ _ _ Hsync Hop0) Hrest)
          as (p' & new & Eap & Eins & Eenc & Elenc & Fnew & Rnew).
        exists p', (ISetAddress (AConst a) :: new). split; [exact Eap|].
        split; [rewrite Eins; cbn; now rewrite <- app_assoc|].
        split; [exact Eenc|]. split; [exact Elenc|]. split; [constructor; [exact I|exact Fnew]|].
        cbn [map denote run step exec meaning m_step fst snd]. cbn [p1 p_lenc p_enc p_prev push_insns set_in_seq] in Rnew.
        rewrite Rnew.
        destruct (meaning (e_version (p_enc p)) (params_of (p_lenc p))
                    (LineAdvSpec.set_address (Z.of_N a) r, w_address_offset (p_prev p)) ops) as [rows st].
        reflexivity.
      * set (p1 := set_in_seq true p).
        destruct (IH p1 r Hok Hver Hsync Hrest) as (p' & new & Eap & Eins & Eenc & Elenc & Fnew & Rnew).
        exists p', new. split; [exact Eap|]. split; [exact Eins|].
        split; [exact Eenc|]. split; [exact Elenc|]. split; [exact Fnew|].
        cbn [meaning m_step fst snd]. cbn [p1 p_lenc p_enc p_prev set_in_seq] in Rnew. rewrite Rnew.
        destruct (meaning (e_version (p_enc p)) (params_of (p_lenc p)) (r, w_address_offset (p_prev p)) ops)
          as [rows st]. reflexivity.
    + (* set_address *)
      cbn [apply_rops apply_rop bind]. unfold LineWr.set_address.
      set (p1 := set_prev (with_op_index (p_prev p) 0) (push_insns [ISetAddress (AConst a)] (set_in_seq true p))).
      destruct (IH p1 (LineAdvSpec.set_address (Z.of_N a) r) Hok Hver
                  (set_address_synced _ _ _ (Z.of_N a) Hsync) Hscript)
        as (p' & new & Eap & Eins & Eenc & Elenc & Fnew & Rnew).
      exists p', (ISetAddress (AConst a) :: new). split; [exact Eap|].
      split; [rewrite Eins; cbn; now rewrite <- app_assoc|].
      split; [exact Eenc|]. split; [exact Elenc|]. split; [constructor; [exact I|exact Fnew]|].
      cbn [map denote run step exec meaning m_step fst snd].
      cbn [p1 p_lenc p_enc p_prev push_insns set_in_seq set_prev with_op_index w_address_offset] in Rnew.
      rewrite Rnew.
      destruct (meaning (e_version (p_enc p)) (params_of (p_lenc p))
                  (LineAdvSpec.set_address (Z.of_N a) r, w_address_offset (p_prev p)) ops) as [rows st].
      reflexivity.
    + (* row *)
      destruct Hscript as (Hrow & Hrest).
      destruct (generate_row_correct dbg p row (e_version (p_enc p)) r Hok Hsync Hrow)
        as (new1 & Egen & F1 & R1 & S1).
      cbn [apply_rops apply_rop]. rewrite Egen. cbn [bind].
      match goal with |- context [apply_rops dbg ?q ops] => set (p1 := q) end.
      destruct (IH p1 _ Hok Hver S1 Hrest) as (p' & new & Eap & Eins & Eenc & Elenc & Fnew & Rnew).
      exists p', (new1 ++ new). split; [exact Eap|].
      split; [rewrite Eins; cbn; now rewrite <- app_assoc|].
      split; [exact Eenc|]. split; [exact Elenc|]. split; [apply Forall_app; split; assumption|].
      rewrite map_app, run_app, R1. cbv beta iota.
      cbn [p1 p_lenc p_enc p_prev push_insns set_in_seq set_row set_prev clear_row_flags w_address_offset] in Rnew.
      rewrite Rnew. cbn [meaning m_step fst snd].
      destruct (meaning (e_version (p_enc p)) (params_of (p_lenc p))
                  (after_row (params_of (p_lenc p)) (row_regs (e_version (p_enc p)) r (w_address_offset (p_prev p)) row),
                   w_address_offset row) ops) as [rows st].
      reflexivity.
    + (* end_sequence *)
      destruct Hscript as (Hend & Hrest).
      destruct (end_sequence_correct dbg p off opi (e_version (p_enc p)) r Hok Hsync Hend)
        as (new1 & Eend & F1 & R1).
      cbn [apply_rops apply_rop]. rewrite Eend. cbn [bind].
      match goal with |- context [apply_rops dbg ?q ops] => set (p1 := q) end.
      destruct (IH p1 (init_regs (params_of (p_lenc p))) Hok Hver (seq_reset _ _ Hver) Hrest)
        as (p' & new & Eap & Eins & Eenc & Elenc & Fnew & Rnew).
      exists p', (new1 ++ new). split; [exact Eap|].
      split; [rewrite Eins; cbn; now rewrite <- app_assoc|].
      split; [exact Eenc|]. split; [exact Elenc|]. split; [apply Forall_app; split; assumption|].
      rewrite map_app, run_app, R1. cbv beta iota.
      cbn [p1 p_lenc p_enc p_prev push_insns set_in_seq set_row set_prev wrow_initial w_address_offset] in Rnew.
      rewrite Rnew. cbn [meaning m_step fst snd].
      destruct (meaning (e_version (p_enc p)) (params_of (p_lenc p)) (init_regs (params_of (p_lenc p)), 0%N) ops)
        as [rows st].
      reflexivity.
Qed.

(* ------------------------------------------------------------------ whole programs *)

(* directories, files and flags leave the row machinery untouched *)
Definition same_rows (p p' : prog) : Prop :=
  p_insns p' = p_insns p /\ p_prev p' = p_prev p /\ p_row p' = p_row p /\ p_in_seq p' = p_in_seq p /\
  p_enc p' = p_enc p /\ p_lenc p' = p_lenc p.

Lemma add_directory_same_rows p d p' id : add_directory p d = Ok (p', id) -> same_rows p p'.
Proof.
  unfold add_directory. intros H. apply bind_ok in H. destruct H as (u & _ & H).
  destruct (dir_find (p_dirs p) d 0); inversion H; subst; unfold same_rows; cbn; repeat split.
Qed.

Lemma add_file_same_rows p f dir info p' id : add_file p f dir info = Ok (p', id) -> same_rows p p'.
Proof.
  unfold add_file. intros H. apply bind_ok in H. destruct H as (u & _ & H).
  destruct (file_find (p_files p) (f, dir) 0); destruct info; inversion H; subst;
    unfold same_rows; cbn; repeat split.
Qed.

Lemma set_flags_same_rows a b c d p : same_rows p (set_flags a b c d p).
Proof. unfold same_rows; cbn; repeat split. Qed.

(* a program fresh from LineProgram::new *)
Lemma lp_new_fresh dbg e l wd sd sf info p :
  lp_new dbg e l wd sd sf info = Ok p ->
  p_insns p = [] /\ p_prev p = wrow_initial e l /\ p_in_seq p = false /\ p_enc p = e /\ p_lenc p = l.
Proof.
  unfold lp_new. intros H.
  destruct (negb (le_line_base l <=? 0)%Z); [discriminate|].
  destruct (negb (0 <? le_line_base l + Z.of_N (le_line_range l))%Z); [discriminate|].
  apply bind_ok in H. destruct H as ([p1 wdid] & H1 & H).
  apply add_directory_same_rows in H1. destruct H1 as (I1 & P1 & _ & S1 & E1 & L1). cbn in I1, P1, S1, E1, L1.
  destruct (5 <=? e_version e)%N.
  - apply bind_ok in H. destruct H as ([p2 sdid] & H2 & H).
    assert (R2 : same_rows p1 p2).
    { destruct sd as [d|]; [eapply add_directory_same_rows; exact H2|].
      inversion H2; subst. unfold same_rows; repeat split. }
    apply bind_ok in H. destruct H as ([p3 fid] & H3 & H). inversion H; subst p3.
    apply add_file_same_rows in H3.
    destruct R2 as (I2 & P2 & _ & S2 & E2 & L2). destruct H3 as (I3 & P3 & _ & S3 & E3 & L3).
    repeat split; congruence.
  - inversion H; subst p1. repeat split; assumption.
Qed.

(* Instruction-level round trip of whole programs: for every documented encoding in the exact range of
   advance_correct and every script of writer calls that respects script_ok, the writer succeeds, every
   special opcode it emits is a byte in 13..255, and executing the emitted instructions on the DWARF
   state machine yields exactly the rows the script means. *)
Lemma program_rows_correct dbg e l wd sd sf info p ops :
  enc_ok l -> (e_version e <= 5)%N ->
  lp_new dbg e l wd sd sf info = Ok p ->
  script_ok e l (wrow_initial e l) false ops ->
  exists p',
    apply_rops dbg p ops = Ok p' /\
    Forall special_ok (p_insns p') /\
    rows_of (params_of l) (map (denote (e_version e)) (p_insns p')) =
      fst (meaning (e_version e) (params_of l) (init_regs (params_of l), 0%N) ops).
Proof.
  intros Hok Hver Hnew Hscript.
  destruct (lp_new_fresh _ _ _ _ _ _ _ _ Hnew) as (Ins & Prev & Seq & Enc & Lenc).
  destruct (script_correct dbg ops p (init_regs (params_of l))) as (p' & new & Eap & Eins & _ & _ & Fnew & Rnew).
  - rewrite Lenc; exact Hok.
  - rewrite Enc; exact Hver.
  - rewrite Enc, Prev. apply seq_reset. exact Hver.
  - rewrite Enc, Lenc, Prev, Seq. exact Hscript.
  - exists p'. split; [exact Eap|]. rewrite Eins, Ins. cbn [app]. split; [exact Fnew|].
    unfold rows_of. rewrite Enc, Lenc, Prev in Rnew. rewrite Rnew. reflexivity.
Qed.

(* the harness operations are these writer calls *)
Lemma run_op_row dbg st r f :
  match rs_file r with None => Ok (w_file (p_row (st_prog st)))
                     | Some h => unwrap (nth_error (st_fids st) (N.to_nat h)) end = Ok f ->
  run_op dbg st (ORow r) =
  (let* p' := apply_rop dbg (st_prog st)
                (RRow (mkWrow (rs_address_offset r) (rs_op_index r) f (rs_line r) (rs_column r)
                              (rs_discriminator r) (rs_is_statement r) (rs_basic_block r)
                              (rs_prologue_end r) (rs_epilogue_begin r) (rs_isa r))) in
   Ok (mkSstate p' (st_ls st) (st_ss st) (st_dids st) (st_fids st))).
Proof. intros H. unfold run_op. rewrite H. reflexivity. Qed.

Lemma run_op_end dbg st off opi :
  run_op dbg st (OEnd off opi) =
  (let* p' := apply_rop dbg (st_prog st) (REnd off opi) in
   Ok (mkSstate p' (st_ls st) (st_ss st) (st_dids st) (st_fids st))).
Proof. reflexivity. Qed.

Lemma run_op_begin dbg st a :
  run_op dbg st (OBegin (option_map AConst a)) =
  (let* p' := apply_rop dbg (st_prog st) (RBegin a) in
   Ok (mkSstate p' (st_ls st) (st_ss st) (st_dids st) (st_fids st))).
Proof. reflexivity. Qed.

Lemma run_op_set_address dbg st a :
  run_op dbg st (OSetAddr (AConst a)) =
  (let* p' := apply_rop dbg (st_prog st) (RSetAddr a) in
   Ok (mkSstate p' (st_ls st) (st_ss st) (st_dids st) (st_fids st))).
Proof. reflexivity. Qed.

(* ------------------------------------------------------------------ examples *)

Definition enc_v4 : enc := mkEnc false 4 8.
Definition lenc_vliw : lenc := mkLenc 1 2 true (-5) 14.
Definition lenc_default : lenc := mkLenc 1 1 true (-5) 14.
Definition prow (ao opi line : N) : wrow := mkWrow ao opi 0 line 0 0 true false false false 0.
Definition fresh (l : lenc) : prog :=
  mkProg enc_v4 l [LStr [x64]] [] false false false false (wrow_initial enc_v4 l) (wrow_initial enc_v4 l) [] false.

Lemma fresh_is_new dbg l : enc_ok l ->
  lp_new dbg enc_v4 l (LStr [x64]) None (LStr [x66]) None = Ok (fresh l).
Proof.
  intros Hok. destruct (new_asserts_pass l Hok) as (H1 & H2).
  unfold lp_new. rewrite H1, H2. reflexivity.
Qed.

(* non-vacuity: a script that satisfies script_ok: two sequences, VLIW, a mid-sequence set_address in the
   middle of a VLIW instruction (op_index 1), line numbers 2^64-1 and back (line deltas beyond i64) *)
Definition ops_example : list rop :=
  [RBegin (Some 4096%N); RRow (prow 0 0 7); RRow (prow 3 1 18446744073709551615); RSetAddr 8192;
   RRow (prow 4 0 2); RRow (prow 10 1 2); REnd 12 0; RSetAddr 100; RRow (prow 0 0 1); REnd 1 1].

Lemma ops_example_ok : script_ok enc_v4 lenc_vliw (wrow_initial enc_v4 lenc_vliw) false ops_example.
Proof.
  unfold ops_example. cbn [script_ok].
  unfold row_ok, end_ok, step_ok, op_advance_value, clear_row_flags, wrow_initial, prow, lenc_vliw, enc_v4.
  cbn [w_address_offset w_op_index w_line le_min_len le_max_ops le_line_range le_line_base e_version fileid_initial].
  repeat split; try reflexivity; try (vm_compute; reflexivity); try (left; vm_compute; reflexivity);
    try (right; vm_compute; discriminate); try (vm_compute; discriminate).
Qed.
