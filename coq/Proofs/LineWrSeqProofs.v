(* Proofs/LineWrSeqProofs.v — sequences of writer calls: op_advance, generate_row, end_sequence,
   set_address and whole scripts against Spec/LineAdvSpec.v (property C13). *)
From Coq Require Import List NArith ZArith Bool Lia ZifyBool ZifyN ZifyNat.
From Coq.Strings Require Import Byte.
Require Import GV.Base.Res GV.Base.Byt GV.Base.Ints GV.Model.Leb GV.Model.Prim.
Require Import GV.Spec.LineAdvSpec GV.Model.LineWr GV.Proofs.LineWrProofs.
Import ListNotations.

Local Ltac Zify.zify_post_hook ::= Z.div_mod_to_equations.
Local Arguments N.add : simpl never.
Local Arguments N.sub : simpl never.
Local Arguments N.mul : simpl never.
Local Arguments N.div : simpl never.
Local Arguments N.modulo : simpl never.
Local Arguments N.pow : simpl never.
Local Arguments Z.add : simpl never.
Local Arguments Z.sub : simpl never.
Local Arguments Z.mul : simpl never.
Local Arguments Z.div : simpl never.
Local Arguments Z.modulo : simpl never.
Local Arguments Z.of_N : simpl never.

(* ------------------------------------------------------------------ op_advance_vliw *)

(* what the caller has to respect between two consecutive rows of a sequence (documented: the offset
   does not decrease; inherent to the encoding: offsets are multiples of the instruction length, the
   operation index is below maximum_operations_per_instruction, the operation pointer does not go back) *)
Definition step_ok (l : lenc) (pao popi ao opi : N) : Prop :=
  (pao <= ao)%N /\ (pao mod le_min_len l = 0)%N /\ (ao mod le_min_len l = 0)%N /\
  (popi < le_max_ops l)%N /\ (opi < le_max_ops l)%N /\ (pao < ao \/ popi <= opi)%N.

Definition op_advance_value (l : lenc) (pao popi ao opi : N) : N :=
  ((ao - pao) / le_min_len l * le_max_ops l + opi - popi)%N.

Lemma op_advance_ok dbg l row prev :
  enc_ok l ->
  step_ok l (w_address_offset prev) (w_op_index prev) (w_address_offset row) (w_op_index row) ->
  ((w_address_offset row - w_address_offset prev) / le_min_len l * le_max_ops l + w_op_index row
     < 18446744073709551616)%N ->
  op_advance dbg l row prev =
    Ok (op_advance_value l (w_address_offset prev) (w_op_index prev) (w_address_offset row) (w_op_index row)).
Proof.
  intros (_ & _ & _ & Hmin & Hmax) (Hle & Hpm & Hm & Hpo & Ho & Hmono) Hrange.
  unfold op_advance, op_advance_value.
  set (ao := w_address_offset row) in *. set (pao := w_address_offset prev) in *.
  set (opi := w_op_index row) in *. set (popi := w_op_index prev) in *.
  set (mil := le_min_len l) in *. set (mops := le_max_ops l) in *.
  destruct (N.ltb_spec ao pao) as [Hc|_]; [lia|]. rewrite andb_false_r.
  rewrite chk_sub64_ok by lia. cbn [bind].
  assert (Ediv : ((ao - pao) mod mil = 0)%N).
  { rewrite (N.div_mod ao mil) at 1 by lia. rewrite (N.div_mod pao mil) at 1 by lia.
    rewrite Hpm, Hm, !N.add_0_r. rewrite <- N.mul_sub_distr_l.
    rewrite N.mul_comm. apply N.mod_mul. lia. }
  assert (Eq := N.div_mod (ao - pao) mil ltac:(lia)). rewrite Ediv, N.add_0_r in Eq.
  set (q := ((ao - pao) / mil)%N) in *.
  assert (Hq : (q * mops + opi >= popi)%N).
  { pose proof (N.le_0_l (q * mops)) as Hnn.
    destruct Hmono as [Hlt|Hge]; [|lia].
    destruct (N.eq_dec q 0) as [Hz|Hnz]; [rewrite Hz in Eq; lia|].
    assert (1 * mops <= q * mops)%N by (apply N.mul_le_mono_r; lia). lia. }
  destruct (N.eqb_spec mil 1) as [E1|N1]; cbn [negb].
  - cbn [bind]. assert (Eq1 : (ao - pao = q)%N) by (rewrite E1 in Eq; lia). rewrite Eq1.
    rewrite chk_mul64_ok by lia. cbn [bind]. rewrite chk_add64_ok by lia. cbn [bind].
    rewrite chk_sub64_ok by lia. reflexivity.
  - destruct (N.eqb_spec mil 0) as [Hc|_]; [lia|].
    rewrite Hm. cbn [N.eqb negb]. rewrite andb_false_r. cbn [bind].
    rewrite chk_mul64_ok by lia. cbn [bind]. rewrite chk_add64_ok by lia. cbn [bind].
    rewrite chk_sub64_ok by lia. reflexivity.
Qed.

(* the reader turns that operation advance back into exactly (address + delta, op_index') *)
Lemma op_advance_vliw l pao popi ao opi r :
  enc_ok l -> step_ok l pao popi ao opi -> r_op_index r = Z.of_N popi ->
  op_adv (params_of l) (Z.of_N (op_advance_value l pao popi ao opi)) r =
  mkRegs (r_address r + (Z.of_N ao - Z.of_N pao)) (Z.of_N opi) (r_file r) (r_line r) (r_column r)
         (r_is_stmt r) (r_basic_block r) (r_end_sequence r) (r_prologue_end r) (r_epilogue_begin r)
         (r_isa r) (r_discriminator r).
Proof.
  intros (_ & _ & _ & Hmin & Hmax) (Hle & Hpm & Hm & Hpo & Ho & Hmono) Hopi.
  unfold op_adv, op_advance_value. cbn [params_of lp_min_len lp_max_ops]. rewrite Hopi.
  set (mil := le_min_len l) in *. set (mops := le_max_ops l) in *.
  assert (Ediv : ((ao - pao) mod mil = 0)%N).
  { rewrite (N.div_mod ao mil) at 1 by lia. rewrite (N.div_mod pao mil) at 1 by lia.
    rewrite Hpm, Hm, !N.add_0_r. rewrite <- N.mul_sub_distr_l.
    rewrite N.mul_comm. apply N.mod_mul. lia. }
  assert (Eq := N.div_mod (ao - pao) mil ltac:(lia)). rewrite Ediv, N.add_0_r in Eq.
  set (q := ((ao - pao) / mil)%N) in *.
  assert (Hq : (q * mops + opi >= popi)%N).
  { pose proof (N.le_0_l (q * mops)) as Hnn.
    destruct Hmono as [Hlt|Hge]; [|lia].
    destruct (N.eq_dec q 0) as [Hz|Hnz]; [rewrite Hz in Eq; lia|].
    assert (1 * mops <= q * mops)%N by (apply N.mul_le_mono_r; lia). lia. }
  replace (Z.of_N popi + Z.of_N (q * mops + opi - popi))%Z with (Z.of_N opi + Z.of_N q * Z.of_N mops)%Z by lia.
  destruct (special_decompose (Z.of_N opi) (Z.of_N q) (Z.of_N mops) ltac:(lia)) as [Ed Em].
  rewrite Ed, Em. f_equal. lia.
Qed.

(* ------------------------------------------------------------------ generate_row *)

Lemma to_i64_small n : (n < 9223372036854775808)%N -> to_i64 n = Z.of_N n.
Proof.
  intros H. unfold to_i64, to_signed, wrapN. rewrite pow64.
  change (2 ^ (64 - 1))%N with 9223372036854775808%N.
  rewrite N.mod_small by lia. destruct (N.ltb_spec n 9223372036854775808); [reflexivity | lia].
Qed.

Lemma chk_s64_ok dbg z : i64 z -> chk_s 64 dbg z = Ok z.
Proof.
  intros H. unfold i64 in H. unfold chk_s.
  assert (E : in_signed 64 z = true).
  { unfold in_signed. change (Z.of_N (2 ^ (64 - 1))) with 9223372036854775808%Z.
    apply andb_true_intro; split; [apply Z.leb_le | apply Z.ltb_lt]; lia. }
  now rewrite E.
Qed.

(* the row the reader must produce for a writer row: address advanced by the offset difference,
   every other register verbatim *)
Definition row_regs (ver : N) (r : regs) (pao : N) (row : wrow) : regs :=
  mkRegs (r_address r + (Z.of_N (w_address_offset row) - Z.of_N pao)) (Z.of_N (w_op_index row))
         (raw ver (w_file row)) (Z.of_N (w_line row)) (Z.of_N (w_column row)) (w_is_statement row)
         (w_basic_block row) false (w_prologue_end row) (w_epilogue_begin row)
         (Z.of_N (w_isa row)) (Z.of_N (w_discriminator row)).

(* what a caller may ask of generate_row, relative to the previous row of the sequence *)
Definition row_ok (l : lenc) (prev row : wrow) : Prop :=
  step_ok l (w_address_offset prev) (w_op_index prev) (w_address_offset row) (w_op_index row) /\
  (w_line prev < 9223372036854775808)%N /\ (w_line row < 9223372036854775808)%N /\
  ((w_address_offset row - w_address_offset prev) / le_min_len l * le_max_ops l + w_op_index row
     < 18446744073709551616)%N /\
  (op_advance_value l (w_address_offset prev) (w_op_index prev) (w_address_offset row) (w_op_index row)
     * le_line_range l + le_line_range l + 12 < 18446744073709551616)%N.

Lemma generate_row_correct dbg p row ver r :
  enc_ok (p_lenc p) -> range_ok dbg (p_lenc p) ->
  synced ver (p_prev p) r -> row_ok (p_lenc p) (p_prev p) row ->
  exists new,
    generate_row dbg (set_row row p) =
      Ok (set_prev (clear_row_flags row) (set_row (clear_row_flags row)
            (push_insns new (set_in_seq true (set_row row p))))) /\
    Forall special_ok new /\
    run (params_of (p_lenc p)) (map (denote ver) new) r =
      ([row_regs ver r (w_address_offset (p_prev p)) row],
       after_row (params_of (p_lenc p)) (row_regs ver r (w_address_offset (p_prev p)) row)) /\
    synced ver (clear_row_flags row)
           (after_row (params_of (p_lenc p)) (row_regs ver r (w_address_offset (p_prev p)) row)).
Proof.
  intros Hok Hrange Hsync (Hstep & Hpl & Hrl & Hq & Hov).
  set (l := p_lenc p) in *. set (prev := p_prev p) in *.
  unfold generate_row. cbn [p_row p_prev p_lenc set_row clear_row_flags w_line w_address_offset w_op_index].
  fold l. fold prev.
  rewrite !to_i64_small by assumption.
  rewrite chk_s64_ok by (unfold i64; lia). cbn [bind].
  (* op_advance only reads address_offset and op_index *)
  assert (Eop : op_advance dbg l (clear_row_flags row) prev = op_advance dbg l row prev) by reflexivity.
  rewrite Eop. clear Eop.
  rewrite (op_advance_ok dbg l row prev Hok Hstep Hq). cbn [bind].
  set (oadv := op_advance_value l (w_address_offset prev) (w_op_index prev) (w_address_offset row) (w_op_index row)) in *.
  destruct (advance_correct dbg l (Z.of_N (w_line row) - Z.of_N (w_line prev)) oadv Hok Hrange
              ltac:(unfold i64; lia) Hov) as (adv & Eadv & Fadv & Radv).
  rewrite Eadv. cbn [bind].
  exists (field_insns row prev ++ adv). split; [reflexivity|].
  assert (Hmaxz : (0 < lp_max_ops (params_of l))%Z) by (destruct Hok as (_ & _ & _ & _ & ?); cbn; lia).
  pose proof Hsync as Hsync'. destruct Hsync' as (Sop & Sfile & Sline & Scol & Sstmt & Sisa & Sdisc & Sbb & Spe & Seb & Ses).
  destruct Hstep as (Hle & Hpm & Hm & Hpo & Ho & Hmono).
  split.
  { apply Forall_app; split; [|exact Fadv].
    unfold field_insns. repeat (apply Forall_app; split);
      match goal with |- Forall _ (if ?c then _ else _) => destruct c; repeat constructor end. }
  assert (Erow : op_adv (params_of l) (Z.of_N oadv)
                   (line_adv (Z.of_N (w_line row) - Z.of_N (w_line prev)) (fields_set ver row r))
                 = row_regs ver r (w_address_offset prev) row).
  { unfold oadv. rewrite (op_advance_vliw l _ _ _ _ _ Hok
      (conj Hle (conj Hpm (conj Hm (conj Hpo (conj Ho Hmono)))))) by (cbn; exact Sop).
    unfold row_regs. cbn. f_equal. lia. }
  split.
  - rewrite map_app, run_app. rewrite (row_fields ver _ row prev r Hsync). cbv beta iota.
    rewrite Radv by (unfold regs_ok; cbn; rewrite Sop; lia).
    rewrite Erow. reflexivity.
  - unfold after_row, row_regs. cbn. unfold synced. cbn. repeat split; reflexivity.
Qed.

(* ------------------------------------------------------------------ end_sequence, seq_reset, set_address *)

Definition with_op_index (r : wrow) (opi : N) : wrow :=
  mkWrow (w_address_offset r) opi (w_file r) (w_line r) (w_column r) (w_discriminator r)
         (w_is_statement r) (w_basic_block r) (w_prologue_end r) (w_epilogue_begin r) (w_isa r).

(* the end_sequence row: the registers as they are, at the end address, flagged *)
Definition end_regs (r : regs) (pao off opi : N) : regs :=
  mkRegs (r_address r + (Z.of_N off - Z.of_N pao)) (Z.of_N opi) (r_file r) (r_line r) (r_column r)
         (r_is_stmt r) (r_basic_block r) true (r_prologue_end r) (r_epilogue_begin r) (r_isa r)
         (r_discriminator r).

Definition end_ok (l : lenc) (prev : wrow) (off opi : N) : Prop :=
  step_ok l (w_address_offset prev) (w_op_index prev) off opi /\
  ((off - w_address_offset prev) / le_min_len l * le_max_ops l + opi < 18446744073709551616)%N.

(* seq_reset: the writer's initial row and the reader's initial registers agree (versions <= 5) *)
Lemma seq_reset e l : (e_version e <= 5)%N ->
  synced (e_version e) (wrow_initial e l) (init_regs (params_of l)).
Proof.
  intros Hv. unfold synced, wrow_initial, init_regs, raw, fileid_initial. cbn.
  repeat split; try reflexivity.
  destruct (N.eqb_spec (e_version e) 5) as [->|Hne]; [reflexivity|].
  destruct (N.leb_spec (e_version e) 4); [reflexivity|lia].
Qed.

Lemma end_sequence_correct dbg p off opi ver r :
  enc_ok (p_lenc p) -> synced ver (p_prev p) r -> end_ok (p_lenc p) (p_prev p) off opi ->
  exists new,
    end_sequence dbg (set_row (with_op_index (p_row p) opi) p) off =
      Ok (set_prev (wrow_initial (p_enc p) (p_lenc p)) (set_row (wrow_initial (p_enc p) (p_lenc p))
            (push_insns new (set_in_seq false (set_row (with_op_index (p_row p) opi) p))))) /\
    Forall special_ok new /\
    run (params_of (p_lenc p)) (map (denote ver) new) r =
      ([end_regs r (w_address_offset (p_prev p)) off opi], init_regs (params_of (p_lenc p))).
Proof.
  intros Hok Hsync (Hstep & Hq).
  set (l := p_lenc p) in *. set (prev := p_prev p) in *.
  unfold end_sequence. cbn [p_row p_prev p_lenc p_enc set_row with_op_index w_op_index w_address_offset].
  fold l. fold prev.
  match goal with |- context [op_advance dbg l ?rw prev] => set (row := rw) end.
  assert (Hstep' : step_ok l (w_address_offset prev) (w_op_index prev) (w_address_offset row) (w_op_index row))
    by exact Hstep.
  rewrite (op_advance_ok dbg l row prev Hok Hstep' Hq). cbn [bind].
  cbn [w_address_offset w_op_index row].
  set (oadv := op_advance_value l (w_address_offset prev) (w_op_index prev) off opi).
  eexists. split; [reflexivity|].
  assert (Hmaxz : (0 < lp_max_ops (params_of l))%Z) by (destruct Hok as (_ & _ & _ & _ & ?); cbn; lia).
  destruct Hsync as (Sop & _).
  assert (Hr0 : regs_ok (params_of l) r).
  { unfold regs_ok. rewrite Sop. destruct Hstep as (_ & _ & _ & Hpo & _). cbn. lia. }
  assert (Eadv : op_adv (params_of l) (Z.of_N oadv) r =
                 mkRegs (r_address r + (Z.of_N off - Z.of_N (w_address_offset prev))) (Z.of_N opi) (r_file r)
                        (r_line r) (r_column r) (r_is_stmt r) (r_basic_block r) (r_end_sequence r)
                        (r_prologue_end r) (r_epilogue_begin r) (r_isa r) (r_discriminator r))
    by (unfold oadv; apply op_advance_vliw; assumption).
  split.
  { apply Forall_app; split; [destruct (negb (oadv =? 0)%N)|]; repeat constructor. }
  rewrite map_app, run_app.
  destruct (N.eqb_spec oadv 0) as [E0|E0]; cbn [negb map denote run step exec app].
  - rewrite E0 in Eadv. rewrite op_adv_0 in Eadv by assumption.
    assert (Ea := f_equal r_address Eadv). assert (Eo := f_equal r_op_index Eadv). cbn in Ea, Eo.
    unfold after_row, end_regs, set_end_sequence. cbn. rewrite <- Ea, <- Eo. reflexivity.
  - rewrite Eadv. unfold after_row, end_regs. cbn. reflexivity.
Qed.

Lemma set_address_synced ver prev r a :
  synced ver prev r -> w_op_index prev = 0%N -> synced ver prev (LineAdvSpec.set_address a r).
Proof.
  intros (Sop & Srest) H0. unfold synced, LineAdvSpec.set_address. cbn. rewrite H0. split; [reflexivity|exact Srest].
Qed.
