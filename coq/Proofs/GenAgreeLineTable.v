(* Proofs/GenAgreeLineTable.v — translator tie for LineInstruction::parse (src/read/line.rs): the standard and
   extended opcode -> variant tables regenerated from the source text (coq/Gen/LineTable.v) against
   Model/LineRd.v parse_insn, for all 256 opcode bytes and all 256 extended opcodes. *)
From Coq Require Import List NArith ZArith Bool String Lia.
From Coq.Strings Require Import Byte.
Require Import GV.Base.Res GV.Base.Byt GV.Proofs.GenSweep.
Require GV.Gen.LineTable GV.Gen.Constants.
Require Import GV.Spec.LineSpec GV.Model.LineRd.
Import ListNotations.
Local Open Scope string_scope.
Local Open Scope N_scope.

(* the Rust name of each constructor of the model's LineInstruction *)
Definition insn_ctor (i : insn) : string :=
  match i with
  | ISpecial _ => "Special" | ICopy => "Copy" | IAdvancePc _ => "AdvancePc" | IAdvanceLine _ => "AdvanceLine"
  | ISetFile _ => "SetFile" | ISetColumn _ => "SetColumn" | INegateStmt => "NegateStatement"
  | ISetBasicBlock => "SetBasicBlock" | IConstAddPc => "ConstAddPc" | IFixedAddPc _ => "FixedAddPc"
  | ISetPrologueEnd => "SetPrologueEnd" | ISetEpilogueBegin => "SetEpilogueBegin" | ISetIsa _ => "SetIsa"
  | IUnkStd0 _ => "UnknownStandard0" | IUnkStd1 _ _ => "UnknownStandard1" | IUnkStdN _ _ => "UnknownStandardN"
  | IEndSequence => "EndSequence" | ISetAddress _ => "SetAddress" | IDefineFile _ => "DefineFile"
  | ISetDiscriminator _ => "SetDiscriminator" | IUnkExt _ _ => "UnknownExtended"
  end.

Fixpoint lookup_l (n : N) (l : list (N * list string)) : option (list string) :=
  match l with [] => None | (k, v) :: r => if n =? k then Some v else lookup_l n r end.

(* headers: version 4 / 5, 8-byte addresses, opcode_base ob with standard_opcode_lengths 0,1,2,0,1,2,... *)
Definition std_lengths (ob : N) : list byte := map (fun k => n2b (k mod 3)) (rev (count_up (ob - 1))).
Definition hdr (version ob : N) : header :=
  mk_header false version 8 0 0 1 1 true (-5)%Z 14 ob (std_lengths ob) [] [] [] [] [].
(* operands: every LEB128 is the single byte 1; a path "\x01" + NUL for DW_LNE_define_file *)
Definition tail : list byte := [x01; x00; x01; x01; x01; x01; x01; x01; x01; x01; x01; x01].

(* LineInstruction::parse as the regenerated tables describe it *)
Definition gen_standard (ob opcode : N) : list string :=
  if ob <=? opcode then ["Special"]
  else match lookup_l opcode LineTable.standard_table with
       | Some vs => vs
       | None => ["UnknownStandard0"; "UnknownStandard1"; "UnknownStandardN"]
       end.
Definition gen_extended (sub : N) : list string :=
  match lookup_l sub LineTable.extended_table with Some vs => vs | None => ["UnknownExtended"] end.

Definition standard_agree (version ob opcode : N) : bool :=
  (opcode =? 0) ||
  match parse_insn false false (hdr version ob) (n2b opcode :: tail) with
  | Ok (i, _) => smem (insn_ctor i) (gen_standard ob opcode)
  | _ => false
  end.
(* 00 len=12 sub operands... : the extended instruction spans exactly the tail *)
Definition extended_agree (version sub : N) : bool :=
  match parse_insn false false (hdr version 13) (x00 :: x0c :: n2b sub :: removelast tail) with
  | Ok (i, _) => smem (insn_ctor i) (gen_extended sub)
  | _ => false
  end.

Lemma gen_line_table_sweep :
  forallb (fun v => forallb (fun ob => forallb (standard_agree v ob) (count_up 256)) [1; 10; 13; 14; 40; 255]) [4; 5] = true /\
  forallb (fun v => forallb (extended_agree v) (count_up 256)) [4; 5] = true.
Proof. split; vm_compute; reflexivity. Qed.

(* all 256 opcode bytes (opcode_base 13 and five other bases, DWARF 4 and 5) and all 256 extended opcodes: the
   model builds a variant that the arm of LineInstruction::parse for that opcode builds *)
Lemma gen_line_standard_agree : forall version ob opcode,
  In version [4; 5] -> In ob [1; 10; 13; 14; 40; 255] -> opcode < 256 -> standard_agree version ob opcode = true.
Proof.
  intros version ob opcode Hv Hob H. destruct gen_line_table_sweep as [S _].
  pose proof (forallb_In _ _ _ S version Hv) as S1. cbv beta in S1.
  pose proof (forallb_In _ _ _ S1 ob Hob) as S2. cbv beta in S2.
  exact (sweep_lt _ _ S2 opcode H).
Qed.
Lemma gen_line_extended_agree : forall version sub,
  In version [4; 5] -> sub < 256 -> extended_agree version sub = true.
Proof.
  intros version sub Hv H. destruct gen_line_table_sweep as [_ S].
  pose proof (forallb_In _ _ _ S version Hv) as S1. cbv beta in S1.
  exact (sweep_lt _ _ S1 sub H).
Qed.

(* DW_LNE_define_file: DefineFile up to version 4, UnknownExtended from version 5 *)
Lemma gen_line_define_file :
  lookup_l Constants.DW_LNE_define_file LineTable.extended_table = Some ["DefineFile"; "UnknownExtended"] /\
  map (fun v => match parse_insn false false (hdr v 13) (x00 :: x0c :: x03 :: removelast tail) with
                | Ok (i, _) => insn_ctor i | _ => "" end) [2; 3; 4; 5] =
    ["DefineFile"; "DefineFile"; "DefineFile"; "UnknownExtended"].
Proof. split; vm_compute; reflexivity. Qed.

(* the keys are the DW_LNS_* / DW_LNE_* constants: every standard opcode of constants.rs has an arm *)
Lemma gen_line_table_keys :
  map fst LineTable.standard_table = Constants.DwLns_values /\
  forallb (fun k => existsb (N.eqb k) Constants.DwLne_values) (map fst LineTable.extended_table) = true.
Proof. split; vm_compute; reflexivity. Qed.
