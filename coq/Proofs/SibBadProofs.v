(* Proofs/SibBadProofs.v — which DW_AT_sibling values the DW_AT_sibling fast path of
   EntriesCursor::next_sibling / EntriesTree::next ignores, and which it believes, for EVERY reader
   state and EVERY entry (no well-formedness assumed). The attribute is consulted only through
   DieRd.sibling_jump (DebuggingInformationEntry::sibling + EntriesRaw::seek_forward). *)
From Coq Require Import List NArith ZArith Bool Lia ZifyBool ZifyN ZifyNat.
From Coq.Strings Require Import Byte.
Require Import GV.Base.Res GV.Base.Byt GV.Base.Ints GV.Model.Leb GV.Model.Prim
               GV.Spec.FormSpec GV.Model.Attr GV.Spec.Forest GV.Model.AbbrevRd GV.Model.DieRd
               GV.Proofs.AttrProofs GV.Proofs.DieRdProofs.
Import ListNotations.
Local Open Scope N_scope.
Local Arguments N.add : simpl never.
Local Arguments N.sub : simpl never.
Local Arguments N.of_nat : simpl never.

(* the value classes that are ignored: the entry has no children; there is no DW_AT_sibling, or its
   (normalised) value is not a unit reference (DW_FORM_data*, udata, ref_addr, sec_offset, strings,
   ...); the reference points backwards or at the entry itself; it points before the reader, i.e.
   into the entry's own abbreviation code / attribute bytes; it points beyond the end of the unit *)
Definition sib_ignored (r : raw_st) (cur : die) : Prop :=
  d_children cur = false \/
  match die_attr_value cur DW_AT_sibling with
  | Some (VUnitRef o) => o <= d_offset cur \/ o < r_end r - nlen (r_in r) \/ r_end r < o
  | _ => True
  end.

Lemma skip_n_short n bs : nlen bs < n -> exists x, skip_n n bs = Err x.
Proof.
  intros H. pose proof (skip_n_res n bs) as [P O].
  destruct (skip_n n bs) as [t|x| |] eqn:E; try congruence; [|eauto].
  exfalso. apply skip_n_spec in E. destruct E as (hd & -> & L). unfold nlen in H. rewrite app_length in H. lia.
Qed.

Lemma skip_n_enough n bs : n <= nlen bs -> skip_n n bs = Ok (skipn (N.to_nat n) bs).
Proof.
  intros H. rewrite <- (firstn_skipn (N.to_nat n) bs) at 1.
  replace n with (N.of_nat (length (firstn (N.to_nat n) bs))) at 1; [apply skip_n_app|].
  rewrite firstn_length. unfold nlen in H. lia.
Qed.

Lemma bad_sibling_ignored dbg r cur :
  nlen (r_in r) <= r_end r -> sib_ignored r cur -> sibling_jump dbg r cur = Ok r.
Proof.
  intros Hle [Hc|Hv]; unfold sibling_jump; [rewrite Hc; reflexivity|].
  destruct (d_children cur); [|reflexivity]. unfold die_sibling.
  destruct (die_attr_value cur DW_AT_sibling) as [v|]; [|reflexivity].
  destruct v; try reflexivity.
  match goal with |- context [d_offset cur <? ?o] => rename o into off end.
  destruct (N.ltb_spec (d_offset cur) off) as [Hlt|Hge]; [|reflexivity].
  unfold seek_forward, next_offset, chk_sub. replace (nlen (r_in r) <=? r_end r) with true by lia. cbn [bind].
  destruct (N.ltb_spec off (r_end r - nlen (r_in r))) as [Hb|Hb]; [reflexivity|].
  destruct Hv as [Hv|[Hv|Hv]]; try lia.
  destruct (skip_n_short (off - (r_end r - nlen (r_in r))) (r_in r) ltac:(lia)) as (x & ->). reflexivity.
Qed.

(* the boundary: every other value — a unit reference beyond the entry, at or after the reader, at or
   before the end of the unit — is believed: the reader moves there and takes the entry's depth *)
Lemma sibling_believed dbg r cur o :
  nlen (r_in r) <= r_end r -> d_children cur = true ->
  die_attr_value cur DW_AT_sibling = Some (VUnitRef o) -> d_offset cur < o ->
  r_end r - nlen (r_in r) <= o <= r_end r ->
  sibling_jump dbg r cur =
  Ok (mkRaw (skipn (N.to_nat (o - (r_end r - nlen (r_in r)))) (r_in r)) (r_end r) (d_depth cur)).
Proof.
  intros Hle Hc Hv Hlt [Hlo Hhi]. unfold sibling_jump, die_sibling. rewrite Hc, Hv.
  replace (d_offset cur <? o) with true by lia.
  unfold seek_forward, next_offset, chk_sub. replace (nlen (r_in r) <=? r_end r) with true by lia. cbn [bind].
  replace (o <? r_end r - nlen (r_in r)) with false by lia.
  rewrite skip_n_enough by lia. reflexivity.
Qed.

(* the two classes are complementary *)
Lemma sibling_classes r cur : nlen (r_in r) <= r_end r ->
  sib_ignored r cur \/
  exists o, d_children cur = true /\ die_attr_value cur DW_AT_sibling = Some (VUnitRef o) /\ d_offset cur < o /\
            r_end r - nlen (r_in r) <= o <= r_end r.
Proof.
  intros Hle. unfold sib_ignored. destruct (d_children cur); [|left; left; reflexivity].
  destruct (die_attr_value cur DW_AT_sibling) as [v|]; [|left; right; exact I].
  destruct v; try (left; right; exact I).
  match goal with |- context [VUnitRef ?o] => rename o into off end.
  destruct (N.le_gt_cases off (d_offset cur)); [left; right; left; assumption|].
  destruct (N.lt_ge_cases off (r_end r - nlen (r_in r))); [left; right; right; left; assumption|].
  destruct (N.lt_ge_cases (r_end r) off); [left; right; right; right; assumption|].
  right. exists off. repeat split; try assumption; lia.
Qed.

(* consequently an iteration of either loop over an entry with an ignored pointer is the scanning
   iteration: the next entry is read from where the reader stands *)
Lemma tree_loop_ignored k dbg e tbl depth t :
  nlen (r_in (tr_raw t)) <= r_end (tr_raw t) -> sib_ignored (tr_raw t) (tr_entry t) ->
  tree_next_loop (S k) dbg e tbl depth t =
  if raw_is_empty (tr_raw t) then Ok (TOk false (mkTree (tr_root t) (tr_raw t) (set_null (tr_entry t)))) else
  match read_entry dbg e tbl (tr_raw t) with
  | Ok (ok, d, r2) =>
      if (d_depth d =? depth)%Z then Ok (TOk ok (mkTree (tr_root t) r2 d))
      else tree_next_loop k dbg e tbl depth (mkTree (tr_root t) r2 d)
  | Err x => tree_fail dbg (mkTree (tr_root t) (tr_raw t) (tr_entry t)) x
  | Panic => Panic
  | OutOfFuel => OutOfFuel
  end.
Proof. intros Hle Hi. cbn [tree_next_loop]. rewrite (bad_sibling_ignored dbg _ _ Hle Hi). reflexivity. Qed.

Lemma sibling_loop_ignored k dbg e tbl T c :
  nlen (r_in (c_raw c)) <= r_end (c_raw c) -> sib_ignored (c_raw c) (c_cur c) ->
  sibling_loop (S k) dbg e tbl T c =
  let* s := next_entry dbg e tbl c in
  match s with
  | SErr x c' => Ok (SErr x c')
  | SOk false c' => Ok (SOk None c')
  | SOk true c' =>
      if (d_depth (c_cur c') =? T)%Z then Ok (SOk (current c') c') else sibling_loop k dbg e tbl T c'
  end.
Proof.
  intros Hle Hi. cbn [sibling_loop]. unfold current.
  destruct (is_null (c_cur c)); [|rewrite (bad_sibling_ignored dbg _ _ Hle Hi)]; cbn [bind]; destruct c; reflexivity.
Qed.
