(* Proofs/CfaScriptProofs.v — property C14, unwind rows: the reader models (C06 CfiRun table evaluation over
   the instruction windows that C05 CfiRd hands out) on the bytes produced by the writer model (CfiWr) return
   the rows of the call-frame machine defined directly over the writer's script (Spec/CfaScriptSpec.v).
   A. relations between the reader-side spec state (CfaSpec, expressions = section references) and the script
      state (expressions = bytes), and the lemma that the effect of a reader instruction depends only on its
      C14 meaning (CfaEncSpec.sem);
   B. whole programs: the reader's decoded item list of a written CIE/FDE instruction area implements the
      script ([implc]/[impl]) and CfaSpec.run_spec_lim on such lists = script_rows_lim;
   C. the writer's areas decode to such lists; composition with C06 (model_eq_spec). *)
From Coq Require Import List NArith ZArith Bool Lia ZifyBool ZifyN ZifyNat.
From Coq.Strings Require Import Byte.
Require Import GV.Base.Res GV.Base.Byt GV.Base.Ints GV.Spec.LebSpec GV.Model.Leb GV.Model.Prim.
Require GV.Model.CfiRun GV.Proofs.CfiRunProofs.
Require Import GV.Spec.CfaEncSpec GV.Model.CfiWr GV.Proofs.CfiWrProofs GV.Proofs.CfiRoundtrip.
Require Import GV.Spec.CfaScriptSpec.
Require Import GV.Spec.CfaSpec.
Import ListNotations.
Local Open Scope N_scope.
Local Arguments N.add : simpl never.
Local Arguments N.sub : simpl never.
Local Arguments N.mul : simpl never.
Local Arguments N.pow : simpl never.
Local Arguments N.modulo : simpl never.
Local Arguments N.div : simpl never.
Local Arguments N.lxor : simpl never.
Local Arguments Z.mul : simpl never.
Local Arguments Z.add : simpl never.

(* ------------------------------------------------------------------ *)
(* A. relations and the step lemma                                       *)
(* ------------------------------------------------------------------ *)

Lemma wrap_i64_small z : (-9223372036854775808 <= z < 9223372036854775808)%Z -> wrap_i64 z = z.
Proof.
  intros H. unfold wrap_i64, wrap_signed, to_signed, of_signed, wrapN.
  change (2 ^ (64 - 1)) with 9223372036854775808. change (2 ^ 64) with 18446744073709551616.
  change (Z.of_N 18446744073709551616) with 18446744073709551616%Z.
  assert (Hm : (0 <= z mod 18446744073709551616 < 18446744073709551616)%Z) by (apply Z.mod_pos_bound; lia).
  rewrite N.mod_small by lia.
  assert (Hd : z = (18446744073709551616 * (z / 18446744073709551616) + z mod 18446744073709551616)%Z)
    by (apply Z.div_mod; lia).
  destruct (Z.to_N (z mod 18446744073709551616) <? 9223372036854775808) eqn:E; rewrite Z2N.id by lia; lia.
Qed.

Lemma wrap_i64_i32 z : is_i32 z = true -> wrap_i64 z = z.
Proof. intros H. apply is_i32_iff in H. apply wrap_i64_small. lia. Qed.

(* [X ue e]: the section reference ue designates the bytes e *)
Definition rule_rel (X : uexpr -> list byte -> Prop) (a : rule) (b : xrule) : Prop :=
  match a, b with
  | RUndefined, XUndefined => True
  | RSameValue, XSameValue => True
  | ROffset x, XOffset y => x = y
  | RValOffset x, XValOffset y => x = y
  | RRegister x, XRegister y => x = y
  | RConstant x, XConstant y => x = y
  | RExpression u, XExpression e => X u e
  | RValExpression u, XValExpression e => X u e
  | _, _ => False
  end.

Definition cfa_rel (X : uexpr -> list byte -> Prop) (a : cfa_rule) (b : xcfa) : Prop :=
  match a, b with
  | CfaRegOff r o, XCfaRegOff r' o' => r = r' /\ o = o'
  | CfaExpr u, XCfaExpr e => X u e
  | _, _ => False
  end.

Definition pair_rel X (p : reg * rule) (q : N * xrule) : Prop := fst p = fst q /\ rule_rel X (snd p) (snd q).
(* the two maps list the same registers in the same order with related rules *)
Definition map_rel X (m : CfaSpec.rmap) (xm : xmap) : Prop := Forall2 (pair_rel X) m xm.
Definition orule_rel X (a : option rule) (b : option xrule) : Prop :=
  match a, b with
  | Some x, Some y => rule_rel X x y
  | None, None => True
  | _, _ => False
  end.
Definition omap_rel X (a : option CfaSpec.rmap) (b : option xmap) : Prop :=
  match a, b with
  | Some m, Some xm => map_rel X m xm
  | None, None => True
  | _, _ => False
  end.
Definition entry_rel X (e : cfa_rule * CfaSpec.rmap * N) (x : xcfa * xmap * N) : Prop :=
  cfa_rel X (fst (fst e)) (fst (fst x)) /\ map_rel X (snd (fst e)) (snd (fst x)) /\ snd e = snd x.
Definition state_rel X (s : sstate) (xs : xstate) : Prop :=
  cfa_rel X (s_cfa s) (x_cfa xs) /\ map_rel X (s_rules s) (x_rules xs) /\ s_args s = x_args xs /\
  Forall2 (entry_rel X) (s_stack s) (x_stack xs).
Definition srow_rel X (sr : srow) (xr : xrow) : Prop :=
  sr_start sr = xr_start xr /\ sr_end sr = xr_end xr /\ cfa_rel X (sr_cfa sr) (xr_cfa xr) /\
  sr_args sr = xr_args xr /\ map_rel X (sr_rules sr) (xr_rules xr).

Section Rel.
Variable X : uexpr -> list byte -> Prop.

Lemma lookup_rel r m xm : map_rel X m xm -> orule_rel X (CfaSpec.lookup r m) (xlookup r xm).
Proof.
  induction 1 as [|[g x] [g' y] m xm [Hg Hr] _ IH]; [exact I|].
  cbn [fst snd] in Hg, Hr. subst g'. cbn [CfaSpec.lookup xlookup].
  destruct (g =? r); [exact Hr|exact IH].
Qed.

Lemma remove_rel r m xm : map_rel X m xm -> map_rel X (remove r m) (xremove r xm).
Proof.
  induction 1 as [|[g x] [g' y] m xm [Hg Hr] _ IH]; [constructor|].
  cbn [fst snd] in Hg, Hr. subst g'. unfold remove, xremove in *. cbn [filter fst].
  destruct (negb (g =? r)); [constructor; [split; [reflexivity|exact Hr]|exact IH]|exact IH].
Qed.

Lemma update_rel r o xo m xm : orule_rel X o xo -> map_rel X m xm -> map_rel X (update r o m) (xupdate r xo xm).
Proof.
  intros Ho Hm. destruct o as [x|], xo as [y|]; cbn [orule_rel] in Ho; try contradiction; cbn [update xupdate].
  - constructor; [split; [reflexivity|exact Ho]|apply remove_rel; exact Hm].
  - apply remove_rel; exact Hm.
Qed.

Lemma map_rel_length m xm : map_rel X m xm -> length m = length xm.
Proof. induction 1; cbn [length]; congruence. Qed.

Lemma sim_set r x y s xs : state_rel X s xs -> rule_rel X x y -> state_rel X (set_rule r x s) (x_set r y xs).
Proof.
  intros (H1 & H2 & H3 & H4) Hr. unfold set_rule, x_set, with_rules, x_with_rules, state_rel.
  cbn [s_cfa s_rules s_args s_stack x_cfa x_rules x_args x_stack].
  repeat split; try assumption. apply update_rel; [exact Hr|exact H2].
Qed.

Lemma sim_cfa c xc s xs : state_rel X s xs -> cfa_rel X c xc -> state_rel X (with_cfa c s) (x_with_cfa xc xs).
Proof.
  intros (H1 & H2 & H3 & H4) Hr. unfold with_cfa, x_with_cfa, state_rel.
  cbn [s_cfa s_rules s_args s_stack x_cfa x_rules x_args x_stack]. repeat split; assumption.
Qed.

(* a reader instruction whose C14 meaning (under the CIE's factors) is the abstract instruction i, with its
   expression operand designating the bytes of i's expression *)
Definition insn_rel (caf : N) (daf : Z) (ri : insn) (i : cfi) : Prop :=
  exists d off total,
    ri = to_insn off total d /\ sem caf daf d = MInsn i /\ cfi_wf i = true /\
    forall e, expr_of d = Some e -> X (rd_uexpr off total e) e.

Definition step_agrees (loc : N) (rs : res (sstate * option srow)) (rx : res xstate) : Prop :=
  match rs, rx with
  | Ok (s', None), Ok xs' => s_loc s' = loc /\ state_rel X s' xs'
  | Err e, Err e' => e = e'
  | _, _ => False
  end.

(* THE missing lemma of rows_read_by_reader_partial: the effect of a reader instruction on the call-frame
   state is the effect of its meaning on the script state *)
Lemma step_by_meaning p aa ini xini s xs ri i :
  state_rel X s xs -> omap_rel X ini xini -> insn_rel (sp_caf p) (sp_daf p) ri i -> vendor_ok aa i = true ->
  step_agrees (s_loc s) (spec_step p ini s ri) (script_step aa xini xs i).
Proof.
  intros Hst Hini (d & off & total & -> & Hsem & Hwf & Hex) Hv.
  pose proof Hst as (Hc & Hm & Ha & Hk).
  destruct d; cbn [sem] in Hsem; try discriminate; injection Hsem as <-;
    cbn [to_insn spec_step script_step cfi_wf] in *;
    repeat match goal with
           | Hx : _ && _ = true |- _ => apply andb_true_iff in Hx; destruct Hx
           end; unfold step_agrees.
  - (* DOffset *)
    split; [reflexivity|]. apply sim_set; [exact Hst|]. cbn [rule_rel]. unfold factored. apply wrap_i64_i32. assumption.
  - (* DRestore *)
    destruct ini as [m|], xini as [xm|]; cbn [omap_rel] in Hini; try contradiction; [|reflexivity].
    split; [reflexivity|]. unfold with_rules, x_with_rules, state_rel.
    cbn [s_cfa s_rules s_args s_stack x_cfa x_rules x_args x_stack]. repeat split; try assumption.
    apply update_rel; [apply lookup_rel; exact Hini|exact Hm].
  - split; [reflexivity|]. apply sim_set; [exact Hst|exact I].
  - split; [reflexivity|]. apply sim_set; [exact Hst|exact I].
  - split; [reflexivity|]. apply sim_set; [exact Hst|reflexivity].
  - (* DRememberState *)
    split; [reflexivity|]. unfold state_rel. cbn [s_cfa s_rules s_args s_stack x_cfa x_rules x_args x_stack].
    repeat split; try assumption. constructor; [|exact Hk]. unfold entry_rel. cbn [fst snd]. auto.
  - (* DRestoreState *)
    destruct Hk as [|[[c0 m0] a0] [[xc0 xm0] xa0] st xst (E1 & E2 & E3) Hk']; [reflexivity|].
    cbn [fst snd] in E1, E2, E3. split; [reflexivity|]. unfold state_rel.
    cbn [s_cfa s_rules s_args s_stack x_cfa x_rules x_args x_stack]. auto.
  - (* DDefCfa *)
    split; [reflexivity|]. apply sim_cfa; [exact Hst|]. cbn [cfa_rel]. split; [reflexivity|]. apply wrap_i64_i32. assumption.
  - (* DDefCfaRegister *)
    destruct (s_cfa s) as [r0 o0|u0], (x_cfa xs) as [r1 o1|e1]; cbn [cfa_rel] in Hc; try contradiction; [|reflexivity].
    destruct Hc as [-> ->]. split; [reflexivity|]. apply sim_cfa; [exact Hst|]. cbn [cfa_rel]. auto.
  - (* DDefCfaOffset *)
    destruct (s_cfa s) as [r0 o0|u0], (x_cfa xs) as [r1 o1|e1]; cbn [cfa_rel] in Hc; try contradiction; [|reflexivity].
    destruct Hc as [-> ->]. split; [reflexivity|]. apply sim_cfa; [exact Hst|]. cbn [cfa_rel]. split; [reflexivity|].
    apply wrap_i64_i32. assumption.
  - (* DDefCfaExpression *)
    split; [reflexivity|]. apply sim_cfa; [exact Hst|]. cbn [cfa_rel]. apply Hex. reflexivity.
  - (* DExpression *)
    split; [reflexivity|]. apply sim_set; [exact Hst|]. cbn [rule_rel]. apply Hex. reflexivity.
  - (* DOffsetExtendedSf *)
    split; [reflexivity|]. apply sim_set; [exact Hst|]. cbn [rule_rel]. unfold factored. apply wrap_i64_i32. assumption.
  - (* DDefCfaSf *)
    split; [reflexivity|]. apply sim_cfa; [exact Hst|]. cbn [cfa_rel]. split; [reflexivity|]. unfold factored.
    apply wrap_i64_i32. assumption.
  - (* DDefCfaOffsetSf *)
    destruct (s_cfa s) as [r0 o0|u0], (x_cfa xs) as [r1 o1|e1]; cbn [cfa_rel] in Hc; try contradiction; [|reflexivity].
    destruct Hc as [-> ->]. split; [reflexivity|]. apply sim_cfa; [exact Hst|]. cbn [cfa_rel]. split; [reflexivity|].
    unfold factored. apply wrap_i64_i32. assumption.
  - (* DValOffset *)
    split; [reflexivity|]. apply sim_set; [exact Hst|]. cbn [rule_rel]. unfold factored. apply wrap_i64_i32. assumption.
  - (* DValOffsetSf *)
    split; [reflexivity|]. apply sim_set; [exact Hst|]. cbn [rule_rel]. unfold factored. apply wrap_i64_i32. assumption.
  - (* DValExpression *)
    split; [reflexivity|]. apply sim_set; [exact Hst|]. cbn [rule_rel]. apply Hex. reflexivity.
  - (* DArgsSize *)
    split; [reflexivity|]. unfold with_args, x_with_args, state_rel.
    cbn [s_cfa s_rules s_args s_stack x_cfa x_rules x_args x_stack]. auto.
  - (* DNegateRaState *)
    unfold vendor_ok in Hv. cbn in Hv. rewrite orb_false_r in Hv. subst aa. cbn [negb].
    pose proof (lookup_rel RA_SIGN_STATE _ _ Hm) as Hl.
    destruct (CfaSpec.lookup RA_SIGN_STATE (s_rules s)) as [x|], (xlookup RA_SIGN_STATE (x_rules xs)) as [y|];
      cbn [orule_rel] in Hl; try contradiction.
    + destruct x, y; cbn [rule_rel] in Hl; try contradiction; try reflexivity.
      subst. split; [reflexivity|]. apply sim_set; [exact Hst|reflexivity].
    + split; [reflexivity|]. apply sim_set; [exact Hst|reflexivity].
Qed.

(* the storage-limit check sees the same occupancy *)
Lemma guard_rel c ini xini s xs :
  state_rel X s xs -> omap_rel X ini xini -> guard c ini s = xguard c xini xs.
Proof.
  intros (_ & Hm & _ & Hk) Hini. unfold guard, xguard, stack_occ, x_stack_occ, rules_occ, x_rules_occ.
  rewrite (map_rel_length _ _ Hm).
  assert (Hl : length (s_stack s) = length (x_stack xs)) by (induction Hk; cbn [length]; congruence).
  rewrite Hl.
  destruct ini as [m|], xini as [xm|]; cbn [omap_rel] in Hini; try contradiction; [|reflexivity].
  rewrite (map_rel_length _ _ Hini). reflexivity.
Qed.

End Rel.

(* ------------------------------------------------------------------ *)
(* B. whole programs                                                     *)
(* ------------------------------------------------------------------ *)

Lemma insn_rel_mono (X Y : uexpr -> list byte -> Prop) caf daf ri i :
  (forall u e, X u e -> Y u e) -> insn_rel X caf daf ri i -> insn_rel Y caf daf ri i.
Proof.
  intros H (d & off & total & E1 & E2 & E3 & E4). exists d, off, total. repeat split; try assumption.
  intros e He. apply H, E4, He.
Qed.

Lemma vendor_bad aa i : vendor_ok aa i = false -> aa = false /\ i = NegateRaState.
Proof. unfold vendor_ok. destruct aa; [discriminate|]. destruct i; cbn; try discriminate. auto. Qed.

Section Progs.
Variable X : uexpr -> list byte -> Prop.
Variable caf : N.
Variable daf : Z.
Variable aa : bool.

(* the reader's item list of a CIE instruction area implements the abstract instruction list:
   one reader instruction per abstract instruction with that meaning, then nop padding; a negate_ra_state the
   reader's vendor does not know ends the list with UnknownCallFrameInstruction *)
Inductive implc : list cfi -> list item -> Prop :=
| implc_nil n : implc [] (map It (repeat INop n))
| implc_cons i ri l items :
    insn_rel X caf daf ri i -> vendor_ok aa i = true -> implc l items -> implc (i :: l) (It ri :: items)
| implc_bad i l : vendor_ok aa i = false -> implc (i :: l) [Bad EUnknownCallFrameInstruction].

(* ... and of an FDE instruction area the (offset, instruction) script: an advance_loc by the factored
   distance exactly where the offset grows *)
Inductive impl : N -> list (N * cfi) -> list item -> Prop :=
| impl_nil prev n : impl prev [] (map It (repeat INop n))
| impl_same prev i ri l items :
    insn_rel X caf daf ri i -> vendor_ok aa i = true -> impl prev l items ->
    impl prev ((prev, i) :: l) (It ri :: items)
| impl_same_bad prev i l :
    vendor_ok aa i = false -> impl prev ((prev, i) :: l) [Bad EUnknownCallFrameInstruction]
| impl_adv prev off delta i ri l items :
    prev < off -> delta * caf = off - prev -> off - prev < two64 ->
    insn_rel X caf daf ri i -> vendor_ok aa i = true -> impl off l items ->
    impl prev ((off, i) :: l) (It (IAdvanceLoc delta) :: It ri :: items)
| impl_adv_bad prev off delta i l :
    prev < off -> delta * caf = off - prev -> off - prev < two64 ->
    vendor_ok aa i = false ->
    impl prev ((off, i) :: l) [It (IAdvanceLoc delta); Bad EUnknownCallFrameInstruction].

Variable c : caps.
Variable p : sparams.
Hypothesis Hcaf : sp_caf p = caf.
Hypothesis Hdaf : sp_daf p = daf.

Lemma xguard_cases xini xs : xguard c xini xs = Ok tt \/ exists e, xguard c xini xs = Err e.
Proof.
  unfold xguard. destruct (over _ _); [right; eexists; reflexivity|].
  destruct (over _ _); [right; eexists; reflexivity|left; reflexivity].
Qed.

Lemma step_lim_sim ini xini s xs ri i :
  state_rel X s xs -> omap_rel X ini xini -> insn_rel X caf daf ri i -> vendor_ok aa i = true ->
  match step_lim c p ini s ri, xstep_lim c aa xini xs i with
  | Ok (s', None), Ok xs' => s_loc s' = s_loc s /\ state_rel X s' xs' /\ guard c ini s' = Ok tt
  | Err e, Err e' => e = e'
  | _, _ => False
  end.
Proof.
  intros Hst Hini Hrel Hv. rewrite <- Hcaf, <- Hdaf in Hrel.
  pose proof (step_by_meaning X p aa ini xini s xs ri i Hst Hini Hrel Hv) as H.
  unfold step_lim, xstep_lim, step_agrees in *.
  destruct (spec_step p ini s ri) as [[s1 [row|]]|e| |], (script_step aa xini xs i) as [xs1|e'| |];
    try contradiction; cbn [bind].
  - destruct H as [Hl Hs1]. rewrite (guard_rel X c ini xini s1 xs1 Hs1 Hini).
    destruct (xguard_cases xini xs1) as [G|(e & G)]; rewrite G; cbn [bind].
    + split; [exact Hl|]. split; [exact Hs1|]. rewrite (guard_rel X c ini xini s1 xs1 Hs1 Hini). exact G.
    + reflexivity.
  - exact H.
Qed.

Lemma vendor_bad_step xini xs i :
  vendor_ok aa i = false -> xstep_lim c aa xini xs i = Err EUnknownCallFrameInstruction.
Proof. intros H. apply vendor_bad in H as [-> ->]. reflexivity. Qed.

Lemma nops_run ini e s n :
  guard c ini s = Ok tt -> spec_run c p ini e s (map It (repeat INop n)) = ([row_of s e], (Done, s)).
Proof.
  intros G. induction n as [|n IH]; [reflexivity|].
  cbn [repeat map spec_run]. unfold step_lim. cbn [spec_step bind]. rewrite G. cbn [bind]. exact IH.
Qed.

(* the CIE's initial instructions *)
Lemma cie_sim e : forall l items, implc l items -> forall s xs,
  state_rel X s xs -> guard c None s = Ok tt ->
  match script_cie c aa xs l with
  | Ok xs' => exists rows s', spec_run c p None e s items = (rows, (Done, s')) /\ state_rel X s' xs' /\
                              guard c None s' = Ok tt
  | Err er => exists rows s', spec_run c p None e s items = (rows, (Fail er, s'))
  | _ => False
  end.
Proof.
  induction 1 as [n|i ri l items Hrel Hv _ IH|i l Hv]; intros s xs Hst G.
  - cbn [script_cie]. exists [row_of s e], s. split; [apply nops_run; exact G|]. auto.
  - cbn [script_cie spec_run].
    pose proof (step_lim_sim None None s xs ri i Hst I Hrel Hv) as H.
    destruct (step_lim c p None s ri) as [[s1 [row|]]|er| |], (xstep_lim c aa None xs i) as [xs1|er'| |];
      try contradiction; cbn [bind].
    + destruct H as (_ & Hs1 & G1). apply IH; assumption.
    + subst er'. exists [], s. reflexivity.
  - cbn [script_cie]. rewrite (vendor_bad_step None xs i Hv). cbn [bind spec_run].
    exists [], s. reflexivity.
Qed.

(* the FDE's instructions at their code offsets *)
Lemma fde_sim ini xini asz init e : sp_asize p = asz -> omap_rel X ini xini ->
  forall prev l items, impl prev l items -> forall s xs,
  state_rel X s xs -> guard c ini s = Ok tt -> s_loc s = init + prev ->
  Forall2 (srow_rel X) (fst (spec_run c p ini e s items)) (fst (script_fde c aa xini asz init e prev xs l)) /\
  fst (snd (spec_run c p ini e s items)) = snd (script_fde c aa xini asz init e prev xs l).
Proof.
  intros Hasz Hini.
  assert (Hrow : forall s xs a b, state_rel X s xs -> s_loc s = a -> srow_rel X (row_of s b) (xrow_of xs a b)).
  { intros s xs a b (H1 & H2 & H3 & _) Hl. unfold srow_rel, row_of, xrow_of.
    cbn [sr_start sr_end sr_cfa sr_args sr_rules xr_start xr_end xr_cfa xr_args xr_rules]. auto. }
  induction 1 as [prev n|prev i ri l items Hrel Hv _ IH|prev i l Hv
                 |prev off delta i ri l items Hlt Hmul Hsm Hrel Hv _ IH|prev off delta i l Hlt Hmul Hsm Hv];
    intros s xs Hst G Hloc.
  - rewrite (nops_run ini e s n G). cbn [script_fde fst snd]. split; [|reflexivity].
    constructor; [|constructor]. apply Hrow; assumption.
  - cbn [script_fde spec_run]. rewrite N.ltb_irrefl.
    pose proof (step_lim_sim ini xini s xs ri i Hst Hini Hrel Hv) as H.
    destruct (step_lim c p ini s ri) as [[s1 [row|]]|er| |], (xstep_lim c aa xini xs i) as [xs1|er'| |];
      try contradiction.
    + destruct H as (Hl & Hs1 & G1). apply IH; [assumption|assumption|congruence].
    + subst er'. cbn [fst snd outcome_of]. split; [constructor|reflexivity].
  - cbn [script_fde spec_run]. rewrite N.ltb_irrefl. rewrite (vendor_bad_step xini xs i Hv).
    cbn [fst snd outcome_of]. split; [constructor|reflexivity].
  - (* an advance, then the instruction *)
    cbn [script_fde]. replace (prev <? off) with true by lia.
    change (spec_run c p ini e s (It (IAdvanceLoc delta) :: It ri :: items))
      with (match step_lim c p ini s (IAdvanceLoc delta) with
            | Ok (s', None) => spec_run c p ini e s' (It ri :: items)
            | Ok (s', Some row) => let '(rows, fin) := spec_run c p ini e s' (It ri :: items) in (row :: rows, fin)
            | Err er => ([], (Fail er, s))
            | Panic => ([], (Crash, s))
            | OutOfFuel => ([], (Fuel, s))
            end).
    unfold step_lim. cbn [spec_step].
    assert (Ha : s_loc s + wrap64 (delta * sp_caf p) = init + off).
    { rewrite Hcaf, Hmul. unfold wrap64. rewrite N.mod_small by exact Hsm. lia. }
    rewrite Ha, Hasz. destruct (2 ^ (8 * asz) <=? init + off) eqn:Eov.
    + cbn [bind fst snd]. split; [constructor|reflexivity].
    + cbn [bind]. change (guard c ini (with_loc (init + off) s)) with (guard c ini s). rewrite G. cbn [bind].
      set (s0 := with_loc (init + off) s).
      assert (Hst0 : state_rel X s0 xs) by exact Hst.
      assert (Hr0 : srow_rel X (row_of s (init + off)) (xrow_of xs (init + prev) (init + off))) by (apply Hrow; assumption).
      cbn [spec_run].
      pose proof (step_lim_sim ini xini s0 xs ri i Hst0 Hini Hrel Hv) as H.
      destruct (step_lim c p ini s0 ri) as [[s1 [row|]]|er| |], (xstep_lim c aa xini xs i) as [xs1|er'| |];
        try contradiction.
      * destruct H as (Hl & Hs1 & G1).
        specialize (IH s1 xs1 Hs1 G1 ltac:(rewrite Hl; reflexivity)).
        destruct (spec_run c p ini e s1 items) as [rows [o sf]].
        destruct (script_fde c aa xini asz init e off xs1 l) as [xrows xo]. cbn [fst snd] in *.
        destruct IH as [IH1 IH2]. split; [constructor; assumption|exact IH2].
      * subst er'. cbn [fst snd outcome_of]. split; [constructor; [exact Hr0|constructor]|reflexivity].
  - cbn [script_fde]. replace (prev <? off) with true by lia.
    cbn [spec_run]. unfold step_lim. cbn [spec_step].
    assert (Ha : s_loc s + wrap64 (delta * sp_caf p) = init + off).
    { rewrite Hcaf, Hmul. unfold wrap64. rewrite N.mod_small by exact Hsm. lia. }
    rewrite Ha, Hasz. destruct (2 ^ (8 * asz) <=? init + off) eqn:Eov.
    + cbn [bind fst snd]. split; [constructor|reflexivity].
    + cbn [bind]. change (guard c ini (with_loc (init + off) s)) with (guard c ini s). rewrite G. cbn [bind].
      rewrite (vendor_bad_step xini xs i Hv). cbn [fst snd outcome_of].
      split; [constructor; [apply Hrow; assumption|constructor]|reflexivity].
Qed.

(* CIE then FDE: the table *)
Lemma rows_sim asz init range lc lf itc itf :
  sp_asize p = asz -> CfiRun.cap_full (max_stack c) 0 = false ->
  implc lc itc -> impl 0 lf itf ->
  Forall2 (srow_rel X) (fst (run_spec_lim c p init (spec_end asz init range) itc itf))
                       (fst (script_rows_lim c aa asz init range lc lf)) /\
  snd (run_spec_lim c p init (spec_end asz init range) itc itf) = snd (script_rows_lim c aa asz init range lc lf).
Proof.
  intros Hasz Hcap Hc Hf. unfold run_spec_lim, script_rows_lim.
  assert (G0 : guard c None init_state = Ok tt).
  { unfold guard, stack_occ, rules_occ. cbn [init_state s_stack s_rules length Nat.add].
    rewrite <- CfiRunProofs.cap_full_over, Hcap. destruct (max_rules c); reflexivity. }
  assert (S0 : state_rel X init_state init_x).
  { unfold state_rel. cbn. repeat split; constructor. }
  pose proof (cie_sim 0 lc itc Hc init_state init_x S0 G0) as H.
  destruct (script_cie c aa init_x lc) as [xsc|er| |]; try contradiction.
  - destruct H as (rows & sc & -> & Hsc & Gc).
    assert (Hini : omap_rel X (Some (s_rules sc)) (Some (x_rules xsc))) by (destruct Hsc as (_ & H2 & _); exact H2).
    change (guard c (Some (s_rules sc)) (with_loc init sc)) with (guard c (Some (s_rules sc)) sc).
    rewrite (guard_rel X c _ _ sc xsc Hsc Hini).
    destruct (xguard_cases (Some (x_rules xsc)) xsc) as [G|(e & G)]; rewrite G.
    + assert (G' : guard c (Some (s_rules sc)) (with_loc init sc) = Ok tt).
      { change (guard c (Some (s_rules sc)) (with_loc init sc)) with (guard c (Some (s_rules sc)) sc).
        rewrite (guard_rel X c _ _ sc xsc Hsc Hini). exact G. }
      pose proof (fde_sim (Some (s_rules sc)) (Some (x_rules xsc)) asz init (spec_end asz init range) Hasz Hini
                          0 lf itf Hf (with_loc init sc) xsc Hsc G' ltac:(cbn [with_loc s_loc]; lia)) as H.
      destruct (spec_run c p (Some (s_rules sc)) (spec_end asz init range) (with_loc init sc) itf) as [r [o sf]].
      cbn [fst snd] in *. exact H.
    + cbn [fst snd outcome_of]. split; [constructor|reflexivity].
  - destruct H as (rows & sc & ->). cbn [fst snd outcome_of]. split; [constructor|reflexivity].
Qed.

End Progs.

Lemma implc_mono (X Y : uexpr -> list byte -> Prop) caf daf aa l items :
  (forall u e, X u e -> Y u e) -> implc X caf daf aa l items -> implc Y caf daf aa l items.
Proof.
  intros H. induction 1; [constructor|constructor; try assumption; eapply insn_rel_mono; eassumption|constructor; assumption].
Qed.

Lemma impl_mono (X Y : uexpr -> list byte -> Prop) caf daf aa prev l items :
  (forall u e, X u e -> Y u e) -> impl X caf daf aa prev l items -> impl Y caf daf aa prev l items.
Proof.
  intros H. induction 1.
  - constructor.
  - constructor; try assumption. eapply insn_rel_mono; eassumption.
  - constructor; assumption.
  - econstructor; try eassumption. eapply insn_rel_mono; eassumption.
  - econstructor; eassumption.
Qed.
