(* Proofs/CfaScriptProofs.v — property C14, unwind rows: the reader models (C06 CfiRun table evaluation over
   the instruction windows that C05 CfiRd hands out) on the bytes produced by the writer model (CfiWr) return
   the rows of the call-frame machine defined directly over the writer's script (Spec/CfaScriptSpec.v).
   A. relations between the reader-side spec state (CfaSpec, expressions = section references) and the script
      state (expressions = bytes), and the lemma that the effect of a reader instruction depends only on its
      C14 meaning (CfaEncSpec.sem);
   B. whole programs: the reader's decoded item list of a written CIE/FDE instruction area implements the
      script ([implc]/[impl]) and CfaSpec.run_spec_lim on such lists = script_rows_lim;
   C. the writer's areas decode to such lists; composition with C06 (model_eq_spec). *)
From Coq Require Import List NArith ZArith Bool Lia ZifyBool ZifyN ZifyNat.
From Coq.Strings Require Import Byte.
Require Import GV.Base.Res GV.Base.Byt GV.Base.Ints GV.Spec.LebSpec GV.Model.Leb GV.Model.Prim.
Require GV.Model.CfiRun GV.Proofs.CfiRunProofs.
Require Import GV.Spec.CfaEncSpec GV.Model.CfiWr GV.Proofs.CfiWrProofs GV.Proofs.CfiRoundtrip.
Require Import GV.Spec.CfaScriptSpec.
Require Import GV.Spec.CfaSpec.
Import ListNotations.
Local Open Scope N_scope.
Local Arguments N.add : simpl never.
Local Arguments N.sub : simpl never.
Local Arguments N.mul : simpl never.
Local Arguments N.pow : simpl never.
Local Arguments N.modulo : simpl never.
Local Arguments N.div : simpl never.
Local Arguments N.lxor : simpl never.
Local Arguments Z.mul : simpl never.
Local Arguments Z.add : simpl never.

(* ------------------------------------------------------------------ *)
(* A. relations and the step lemma                                       *)
(* ------------------------------------------------------------------ *)

Lemma wrap_i64_small z : (-9223372036854775808 <= z < 9223372036854775808)%Z -> wrap_i64 z = z.
Proof.
  intros H. unfold wrap_i64, wrap_signed, to_signed, of_signed, wrapN.
  change (2 ^ (64 - 1)) with 9223372036854775808. change (2 ^ 64) with 18446744073709551616.
  change (Z.of_N 18446744073709551616) with 18446744073709551616%Z.
  assert (Hm : (0 <= z mod 18446744073709551616 < 18446744073709551616)%Z) by (apply Z.mod_pos_bound; lia).
  rewrite N.mod_small by lia.
  assert (Hd : z = (18446744073709551616 * (z / 18446744073709551616) + z mod 18446744073709551616)%Z)
    by (apply Z.div_mod; lia).
  destruct (Z.to_N (z mod 18446744073709551616) <? 9223372036854775808) eqn:E; rewrite Z2N.id by lia; lia.
Qed.

Lemma wrap_i64_i32 z : is_i32 z = true -> wrap_i64 z = z.
Proof. intros H. apply is_i32_iff in H. apply wrap_i64_small. lia. Qed.

(* [X ue e]: the section reference ue designates the bytes e *)
Definition rule_rel (X : uexpr -> list byte -> Prop) (a : rule) (b : xrule) : Prop :=
  match a, b with
  | RUndefined, XUndefined => True
  | RSameValue, XSameValue => True
  | ROffset x, XOffset y => x = y
  | RValOffset x, XValOffset y => x = y
  | RRegister x, XRegister y => x = y
  | RConstant x, XConstant y => x = y
  | RExpression u, XExpression e => X u e
  | RValExpression u, XValExpression e => X u e
  | _, _ => False
  end.

Definition cfa_rel (X : uexpr -> list byte -> Prop) (a : cfa_rule) (b : xcfa) : Prop :=
  match a, b with
  | CfaRegOff r o, XCfaRegOff r' o' => r = r' /\ o = o'
  | CfaExpr u, XCfaExpr e => X u e
  | _, _ => False
  end.

Definition pair_rel X (p : reg * rule) (q : N * xrule) : Prop := fst p = fst q /\ rule_rel X (snd p) (snd q).
(* the two maps list the same registers in the same order with related rules *)
Definition map_rel X (m : CfaSpec.rmap) (xm : xmap) : Prop := Forall2 (pair_rel X) m xm.
Definition orule_rel X (a : option rule) (b : option xrule) : Prop :=
  match a, b with
  | Some x, Some y => rule_rel X x y
  | None, None => True
  | _, _ => False
  end.
Definition omap_rel X (a : option CfaSpec.rmap) (b : option xmap) : Prop :=
  match a, b with
  | Some m, Some xm => map_rel X m xm
  | None, None => True
  | _, _ => False
  end.
Definition entry_rel X (e : cfa_rule * CfaSpec.rmap * N) (x : xcfa * xmap * N) : Prop :=
  cfa_rel X (fst (fst e)) (fst (fst x)) /\ map_rel X (snd (fst e)) (snd (fst x)) /\ snd e = snd x.
Definition state_rel X (s : sstate) (xs : xstate) : Prop :=
  cfa_rel X (s_cfa s) (x_cfa xs) /\ map_rel X (s_rules s) (x_rules xs) /\ s_args s = x_args xs /\
  Forall2 (entry_rel X) (s_stack s) (x_stack xs).
Definition srow_rel X (sr : srow) (xr : xrow) : Prop :=
  sr_start sr = xr_start xr /\ sr_end sr = xr_end xr /\ cfa_rel X (sr_cfa sr) (xr_cfa xr) /\
  sr_args sr = xr_args xr /\ map_rel X (sr_rules sr) (xr_rules xr).

Section Rel.
Variable X : uexpr -> list byte -> Prop.

Lemma lookup_rel r m xm : map_rel X m xm -> orule_rel X (CfaSpec.lookup r m) (xlookup r xm).
Proof.
  induction 1 as [|[g x] [g' y] m xm [Hg Hr] _ IH]; [exact I|].
  cbn [fst snd] in Hg, Hr. subst g'. cbn [CfaSpec.lookup xlookup].
  destruct (g =? r); [exact Hr|exact IH].
Qed.

Lemma remove_rel r m xm : map_rel X m xm -> map_rel X (remove r m) (xremove r xm).
Proof.
  induction 1 as [|[g x] [g' y] m xm [Hg Hr] _ IH]; [constructor|].
  cbn [fst snd] in Hg, Hr. subst g'. unfold remove, xremove in *. cbn [filter fst].
  destruct (negb (g =? r)); [constructor; [split; [reflexivity|exact Hr]|exact IH]|exact IH].
Qed.

Lemma update_rel r o xo m xm : orule_rel X o xo -> map_rel X m xm -> map_rel X (update r o m) (xupdate r xo xm).
Proof.
  intros Ho Hm. destruct o as [x|], xo as [y|]; cbn [orule_rel] in Ho; try contradiction; cbn [update xupdate].
  - constructor; [split; [reflexivity|exact Ho]|apply remove_rel; exact Hm].
  - apply remove_rel; exact Hm.
Qed.

Lemma map_rel_length m xm : map_rel X m xm -> length m = length xm.
Proof. induction 1; cbn [length]; congruence. Qed.

Lemma sim_set r x y s xs : state_rel X s xs -> rule_rel X x y -> state_rel X (set_rule r x s) (x_set r y xs).
Proof.
  intros (H1 & H2 & H3 & H4) Hr. unfold set_rule, x_set, with_rules, x_with_rules, state_rel.
  cbn [s_cfa s_rules s_args s_stack x_cfa x_rules x_args x_stack].
  repeat split; try assumption. apply update_rel; [exact Hr|exact H2].
Qed.

Lemma sim_cfa c xc s xs : state_rel X s xs -> cfa_rel X c xc -> state_rel X (with_cfa c s) (x_with_cfa xc xs).
Proof.
  intros (H1 & H2 & H3 & H4) Hr. unfold with_cfa, x_with_cfa, state_rel.
  cbn [s_cfa s_rules s_args s_stack x_cfa x_rules x_args x_stack]. repeat split; assumption.
Qed.

(* a reader instruction whose C14 meaning (under the CIE's factors) is the abstract instruction i, with its
   expression operand designating the bytes of i's expression *)
Definition insn_rel (caf : N) (daf : Z) (ri : insn) (i : cfi) : Prop :=
  exists d off total,
    ri = to_insn off total d /\ sem caf daf d = MInsn i /\ cfi_wf i = true /\
    forall e, expr_of d = Some e -> X (rd_uexpr off total e) e.

Definition step_agrees (loc : N) (rs : res (sstate * option srow)) (rx : res xstate) : Prop :=
  match rs, rx with
  | Ok (s', None), Ok xs' => s_loc s' = loc /\ state_rel X s' xs'
  | Err e, Err e' => e = e'
  | _, _ => False
  end.

(* THE missing lemma of rows_read_by_reader_partial: the effect of a reader instruction on the call-frame
   state is the effect of its meaning on the script state *)
Lemma step_by_meaning p aa ini xini s xs ri i :
  state_rel X s xs -> omap_rel X ini xini -> insn_rel (sp_caf p) (sp_daf p) ri i -> vendor_ok aa i = true ->
  step_agrees (s_loc s) (spec_step p ini s ri) (script_step aa xini xs i).
Proof.
  intros Hst Hini (d & off & total & -> & Hsem & Hwf & Hex) Hv.
  pose proof Hst as (Hc & Hm & Ha & Hk).
  destruct d; cbn [sem] in Hsem; try discriminate; injection Hsem as <-;
    cbn [to_insn spec_step script_step cfi_wf] in *;
    repeat match goal with
           | Hx : _ && _ = true |- _ => apply andb_true_iff in Hx; destruct Hx
           end; unfold step_agrees.
  - (* DOffset *)
    split; [reflexivity|]. apply sim_set; [exact Hst|]. cbn [rule_rel]. unfold factored. apply wrap_i64_i32. assumption.
  - (* DRestore *)
    destruct ini as [m|], xini as [xm|]; cbn [omap_rel] in Hini; try contradiction; [|reflexivity].
    split; [reflexivity|]. unfold with_rules, x_with_rules, state_rel.
    cbn [s_cfa s_rules s_args s_stack x_cfa x_rules x_args x_stack]. repeat split; try assumption.
    apply update_rel; [apply lookup_rel; exact Hini|exact Hm].
  - split; [reflexivity|]. apply sim_set; [exact Hst|exact I].
  - split; [reflexivity|]. apply sim_set; [exact Hst|exact I].
  - split; [reflexivity|]. apply sim_set; [exact Hst|reflexivity].
  - (* DRememberState *)
    split; [reflexivity|]. unfold state_rel. cbn [s_cfa s_rules s_args s_stack x_cfa x_rules x_args x_stack].
    repeat split; try assumption. constructor; [|exact Hk]. unfold entry_rel. cbn [fst snd]. auto.
  - (* DRestoreState *)
    destruct Hk as [|[[c0 m0] a0] [[xc0 xm0] xa0] st xst (E1 & E2 & E3) Hk']; [reflexivity|].
    cbn [fst snd] in E1, E2, E3. split; [reflexivity|]. unfold state_rel.
    cbn [s_cfa s_rules s_args s_stack x_cfa x_rules x_args x_stack]. auto.
  - (* DDefCfa *)
    split; [reflexivity|]. apply sim_cfa; [exact Hst|]. cbn [cfa_rel]. split; [reflexivity|]. apply wrap_i64_i32. assumption.
  - (* DDefCfaRegister *)
    destruct (s_cfa s) as [r0 o0|u0], (x_cfa xs) as [r1 o1|e1]; cbn [cfa_rel] in Hc; try contradiction; [|reflexivity].
    destruct Hc as [-> ->]. split; [reflexivity|]. apply sim_cfa; [exact Hst|]. cbn [cfa_rel]. auto.
  - (* DDefCfaOffset *)
    destruct (s_cfa s) as [r0 o0|u0], (x_cfa xs) as [r1 o1|e1]; cbn [cfa_rel] in Hc; try contradiction; [|reflexivity].
    destruct Hc as [-> ->]. split; [reflexivity|]. apply sim_cfa; [exact Hst|]. cbn [cfa_rel]. split; [reflexivity|].
    apply wrap_i64_i32. assumption.
  - (* DDefCfaExpression *)
    split; [reflexivity|]. apply sim_cfa; [exact Hst|]. cbn [cfa_rel]. apply Hex. reflexivity.
  - (* DExpression *)
    split; [reflexivity|]. apply sim_set; [exact Hst|]. cbn [rule_rel]. apply Hex. reflexivity.
  - (* DOffsetExtendedSf *)
    split; [reflexivity|]. apply sim_set; [exact Hst|]. cbn [rule_rel]. unfold factored. apply wrap_i64_i32. assumption.
  - (* DDefCfaSf *)
    split; [reflexivity|]. apply sim_cfa; [exact Hst|]. cbn [cfa_rel]. split; [reflexivity|]. unfold factored.
    apply wrap_i64_i32. assumption.
  - (* DDefCfaOffsetSf *)
    destruct (s_cfa s) as [r0 o0|u0], (x_cfa xs) as [r1 o1|e1]; cbn [cfa_rel] in Hc; try contradiction; [|reflexivity].
    destruct Hc as [-> ->]. split; [reflexivity|]. apply sim_cfa; [exact Hst|]. cbn [cfa_rel]. split; [reflexivity|].
    unfold factored. apply wrap_i64_i32. assumption.
  - (* DValOffset *)
    split; [reflexivity|]. apply sim_set; [exact Hst|]. cbn [rule_rel]. unfold factored. apply wrap_i64_i32. assumption.
  - (* DValOffsetSf *)
    split; [reflexivity|]. apply sim_set; [exact Hst|]. cbn [rule_rel]. unfold factored. apply wrap_i64_i32. assumption.
  - (* DValExpression *)
    split; [reflexivity|]. apply sim_set; [exact Hst|]. cbn [rule_rel]. apply Hex. reflexivity.
  - (* DArgsSize *)
    split; [reflexivity|]. unfold with_args, x_with_args, state_rel.
    cbn [s_cfa s_rules s_args s_stack x_cfa x_rules x_args x_stack]. auto.
  - (* DNegateRaState *)
    unfold vendor_ok in Hv. cbn in Hv. rewrite orb_false_r in Hv. subst aa. cbn [negb].
    pose proof (lookup_rel RA_SIGN_STATE _ _ Hm) as Hl.
    destruct (CfaSpec.lookup RA_SIGN_STATE (s_rules s)) as [x|], (xlookup RA_SIGN_STATE (x_rules xs)) as [y|];
      cbn [orule_rel] in Hl; try contradiction.
    + destruct x, y; cbn [rule_rel] in Hl; try contradiction; try reflexivity.
      subst. split; [reflexivity|]. apply sim_set; [exact Hst|reflexivity].
    + split; [reflexivity|]. apply sim_set; [exact Hst|reflexivity].
Qed.

(* the storage-limit check sees the same occupancy *)
Lemma guard_rel c ini xini s xs :
  state_rel X s xs -> omap_rel X ini xini -> guard c ini s = xguard c xini xs.
Proof.
  intros (_ & Hm & _ & Hk) Hini. unfold guard, xguard, stack_occ, x_stack_occ, rules_occ, x_rules_occ.
  rewrite (map_rel_length _ _ Hm).
  assert (Hl : length (s_stack s) = length (x_stack xs)) by (induction Hk; cbn [length]; congruence).
  rewrite Hl.
  destruct ini as [m|], xini as [xm|]; cbn [omap_rel] in Hini; try contradiction; [|reflexivity].
  rewrite (map_rel_length _ _ Hini). reflexivity.
Qed.

End Rel.

(* ------------------------------------------------------------------ *)
(* B. whole programs                                                     *)
(* ------------------------------------------------------------------ *)

Lemma insn_rel_mono (X Y : uexpr -> list byte -> Prop) caf daf ri i :
  (forall u e, X u e -> Y u e) -> insn_rel X caf daf ri i -> insn_rel Y caf daf ri i.
Proof.
  intros H (d & off & total & E1 & E2 & E3 & E4). exists d, off, total. repeat split; try assumption.
  intros e He. apply H, E4, He.
Qed.

Lemma vendor_bad aa i : vendor_ok aa i = false -> aa = false /\ i = NegateRaState.
Proof. unfold vendor_ok. destruct aa; [discriminate|]. destruct i; cbn; try discriminate. auto. Qed.

Section Progs.
Variable X : uexpr -> list byte -> Prop.
Variable caf : N.
Variable daf : Z.
Variable aa : bool.

(* the reader's item list of a CIE instruction area implements the abstract instruction list:
   one reader instruction per abstract instruction with that meaning, then nop padding; a negate_ra_state the
   reader's vendor does not know ends the list with UnknownCallFrameInstruction *)
Inductive implc : list cfi -> list item -> Prop :=
| implc_nil n : implc [] (map It (repeat INop n))
| implc_cons i ri l items :
    insn_rel X caf daf ri i -> vendor_ok aa i = true -> implc l items -> implc (i :: l) (It ri :: items)
| implc_bad i l : vendor_ok aa i = false -> implc (i :: l) [Bad EUnknownCallFrameInstruction].

(* ... and of an FDE instruction area the (offset, instruction) script: an advance_loc by the factored
   distance exactly where the offset grows *)
Inductive impl : N -> list (N * cfi) -> list item -> Prop :=
| impl_nil prev n : impl prev [] (map It (repeat INop n))
| impl_same prev i ri l items :
    insn_rel X caf daf ri i -> vendor_ok aa i = true -> impl prev l items ->
    impl prev ((prev, i) :: l) (It ri :: items)
| impl_same_bad prev i l :
    vendor_ok aa i = false -> impl prev ((prev, i) :: l) [Bad EUnknownCallFrameInstruction]
| impl_adv prev off delta i ri l items :
    prev < off -> delta * caf = off - prev -> off - prev < two64 ->
    insn_rel X caf daf ri i -> vendor_ok aa i = true -> impl off l items ->
    impl prev ((off, i) :: l) (It (IAdvanceLoc delta) :: It ri :: items)
| impl_adv_bad prev off delta i l :
    prev < off -> delta * caf = off - prev -> off - prev < two64 ->
    vendor_ok aa i = false ->
    impl prev ((off, i) :: l) [It (IAdvanceLoc delta); Bad EUnknownCallFrameInstruction].

Variable c : caps.
Variable p : sparams.
Hypothesis Hcaf : sp_caf p = caf.
Hypothesis Hdaf : sp_daf p = daf.

Lemma xguard_cases xini xs : xguard c xini xs = Ok tt \/ exists e, xguard c xini xs = Err e.
Proof.
  unfold xguard. destruct (over _ _); [right; eexists; reflexivity|].
  destruct (over _ _); [right; eexists; reflexivity|left; reflexivity].
Qed.

Lemma step_lim_sim ini xini s xs ri i :
  state_rel X s xs -> omap_rel X ini xini -> insn_rel X caf daf ri i -> vendor_ok aa i = true ->
  match step_lim c p ini s ri, xstep_lim c aa xini xs i with
  | Ok (s', None), Ok xs' => s_loc s' = s_loc s /\ state_rel X s' xs' /\ guard c ini s' = Ok tt
  | Err e, Err e' => e = e'
  | _, _ => False
  end.
Proof.
  intros Hst Hini Hrel Hv. rewrite <- Hcaf, <- Hdaf in Hrel.
  pose proof (step_by_meaning X p aa ini xini s xs ri i Hst Hini Hrel Hv) as H.
  unfold step_lim, xstep_lim, step_agrees in *.
  destruct (spec_step p ini s ri) as [[s1 [row|]]|e| |], (script_step aa xini xs i) as [xs1|e'| |];
    try contradiction; cbn [bind].
  - destruct H as [Hl Hs1]. rewrite (guard_rel X c ini xini s1 xs1 Hs1 Hini).
    destruct (xguard_cases xini xs1) as [G|(e & G)]; rewrite G; cbn [bind].
    + split; [exact Hl|]. split; [exact Hs1|]. rewrite (guard_rel X c ini xini s1 xs1 Hs1 Hini). exact G.
    + reflexivity.
  - exact H.
Qed.

Lemma vendor_bad_step xini xs i :
  vendor_ok aa i = false -> xstep_lim c aa xini xs i = Err EUnknownCallFrameInstruction.
Proof. intros H. apply vendor_bad in H as [-> ->]. reflexivity. Qed.

Lemma nops_run ini e s n :
  guard c ini s = Ok tt -> spec_run c p ini e s (map It (repeat INop n)) = ([row_of s e], (Done, s)).
Proof.
  intros G. induction n as [|n IH]; [reflexivity|].
  cbn [repeat map spec_run]. unfold step_lim. cbn [spec_step bind]. rewrite G. cbn [bind]. exact IH.
Qed.

(* the CIE's initial instructions *)
Lemma cie_sim e : forall l items, implc l items -> forall s xs,
  state_rel X s xs -> guard c None s = Ok tt ->
  match script_cie c aa xs l with
  | Ok xs' => exists rows s', spec_run c p None e s items = (rows, (Done, s')) /\ state_rel X s' xs' /\
                              guard c None s' = Ok tt
  | Err er => exists rows s', spec_run c p None e s items = (rows, (Fail er, s'))
  | _ => False
  end.
Proof.
  induction 1 as [n|i ri l items Hrel Hv _ IH|i l Hv]; intros s xs Hst G.
  - cbn [script_cie]. exists [row_of s e], s. split; [apply nops_run; exact G|]. auto.
  - cbn [script_cie spec_run].
    pose proof (step_lim_sim None None s xs ri i Hst I Hrel Hv) as H.
    destruct (step_lim c p None s ri) as [[s1 [row|]]|er| |], (xstep_lim c aa None xs i) as [xs1|er'| |];
      try contradiction; cbn [bind].
    + destruct H as (_ & Hs1 & G1). apply IH; assumption.
    + subst er'. exists [], s. reflexivity.
  - cbn [script_cie]. rewrite (vendor_bad_step None xs i Hv). cbn [bind spec_run].
    exists [], s. reflexivity.
Qed.

(* the FDE's instructions at their code offsets *)
Lemma fde_sim ini xini asz init e : sp_asize p = asz -> omap_rel X ini xini ->
  forall prev l items, impl prev l items -> forall s xs,
  state_rel X s xs -> guard c ini s = Ok tt -> s_loc s = init + prev ->
  Forall2 (srow_rel X) (fst (spec_run c p ini e s items)) (fst (script_fde c aa xini asz init e prev xs l)) /\
  fst (snd (spec_run c p ini e s items)) = snd (script_fde c aa xini asz init e prev xs l).
Proof.
  intros Hasz Hini.
  assert (Hrow : forall s xs a b, state_rel X s xs -> s_loc s = a -> srow_rel X (row_of s b) (xrow_of xs a b)).
  { intros s xs a b (H1 & H2 & H3 & _) Hl. unfold srow_rel, row_of, xrow_of.
    cbn [sr_start sr_end sr_cfa sr_args sr_rules xr_start xr_end xr_cfa xr_args xr_rules]. auto. }
  induction 1 as [prev n|prev i ri l items Hrel Hv _ IH|prev i l Hv
                 |prev off delta i ri l items Hlt Hmul Hsm Hrel Hv _ IH|prev off delta i l Hlt Hmul Hsm Hv];
    intros s xs Hst G Hloc.
  - rewrite (nops_run ini e s n G). cbn [script_fde fst snd]. split; [|reflexivity].
    constructor; [|constructor]. apply Hrow; assumption.
  - cbn [script_fde spec_run]. rewrite N.ltb_irrefl.
    pose proof (step_lim_sim ini xini s xs ri i Hst Hini Hrel Hv) as H.
    destruct (step_lim c p ini s ri) as [[s1 [row|]]|er| |], (xstep_lim c aa xini xs i) as [xs1|er'| |];
      try contradiction.
    + destruct H as (Hl & Hs1 & G1). apply IH; [assumption|assumption|congruence].
    + subst er'. cbn [fst snd outcome_of]. split; [constructor|reflexivity].
  - cbn [script_fde spec_run]. rewrite N.ltb_irrefl. rewrite (vendor_bad_step xini xs i Hv).
    cbn [fst snd outcome_of]. split; [constructor|reflexivity].
  - (* an advance, then the instruction *)
    cbn [script_fde]. replace (prev <? off) with true by lia.
    change (spec_run c p ini e s (It (IAdvanceLoc delta) :: It ri :: items))
      with (match step_lim c p ini s (IAdvanceLoc delta) with
            | Ok (s', None) => spec_run c p ini e s' (It ri :: items)
            | Ok (s', Some row) => let '(rows, fin) := spec_run c p ini e s' (It ri :: items) in (row :: rows, fin)
            | Err er => ([], (Fail er, s))
            | Panic => ([], (Crash, s))
            | OutOfFuel => ([], (Fuel, s))
            end).
    unfold step_lim. cbn [spec_step].
    assert (Ha : s_loc s + wrap64 (delta * sp_caf p) = init + off).
    { rewrite Hcaf, Hmul. unfold wrap64. rewrite N.mod_small by exact Hsm. lia. }
    rewrite Ha, Hasz. destruct (2 ^ (8 * asz) <=? init + off) eqn:Eov.
    + cbn [bind fst snd]. split; [constructor|reflexivity].
    + cbn [bind]. change (guard c ini (with_loc (init + off) s)) with (guard c ini s). rewrite G. cbn [bind].
      set (s0 := with_loc (init + off) s).
      assert (Hst0 : state_rel X s0 xs) by exact Hst.
      assert (Hr0 : srow_rel X (row_of s (init + off)) (xrow_of xs (init + prev) (init + off))) by (apply Hrow; assumption).
      cbn [spec_run].
      pose proof (step_lim_sim ini xini s0 xs ri i Hst0 Hini Hrel Hv) as H.
      destruct (step_lim c p ini s0 ri) as [[s1 [row|]]|er| |], (xstep_lim c aa xini xs i) as [xs1|er'| |];
        try contradiction.
      * destruct H as (Hl & Hs1 & G1).
        specialize (IH s1 xs1 Hs1 G1 ltac:(rewrite Hl; reflexivity)).
        destruct (spec_run c p ini e s1 items) as [rows [o sf]].
        destruct (script_fde c aa xini asz init e off xs1 l) as [xrows xo]. cbn [fst snd] in *.
        destruct IH as [IH1 IH2]. split; [constructor; assumption|exact IH2].
      * subst er'. cbn [fst snd outcome_of]. split; [constructor; [exact Hr0|constructor]|reflexivity].
  - cbn [script_fde]. replace (prev <? off) with true by lia.
    cbn [spec_run]. unfold step_lim. cbn [spec_step].
    assert (Ha : s_loc s + wrap64 (delta * sp_caf p) = init + off).
    { rewrite Hcaf, Hmul. unfold wrap64. rewrite N.mod_small by exact Hsm. lia. }
    rewrite Ha, Hasz. destruct (2 ^ (8 * asz) <=? init + off) eqn:Eov.
    + cbn [bind fst snd]. split; [constructor|reflexivity].
    + cbn [bind]. change (guard c ini (with_loc (init + off) s)) with (guard c ini s). rewrite G. cbn [bind].
      rewrite (vendor_bad_step xini xs i Hv). cbn [fst snd outcome_of].
      split; [constructor; [apply Hrow; assumption|constructor]|reflexivity].
Qed.

(* CIE then FDE: the table *)
Lemma rows_sim asz init range lc lf itc itf :
  sp_asize p = asz -> CfiRun.cap_full (max_stack c) 0 = false ->
  implc lc itc -> impl 0 lf itf ->
  Forall2 (srow_rel X) (fst (run_spec_lim c p init (spec_end asz init range) itc itf))
                       (fst (script_rows_lim c aa asz init range lc lf)) /\
  snd (run_spec_lim c p init (spec_end asz init range) itc itf) = snd (script_rows_lim c aa asz init range lc lf).
Proof.
  intros Hasz Hcap Hc Hf. unfold run_spec_lim, script_rows_lim.
  assert (G0 : guard c None init_state = Ok tt).
  { unfold guard, stack_occ, rules_occ. cbn [init_state s_stack s_rules length Nat.add].
    rewrite <- CfiRunProofs.cap_full_over, Hcap. destruct (max_rules c); reflexivity. }
  assert (S0 : state_rel X init_state init_x).
  { unfold state_rel. cbn. repeat split; constructor. }
  pose proof (cie_sim 0 lc itc Hc init_state init_x S0 G0) as H.
  destruct (script_cie c aa init_x lc) as [xsc|er| |]; try contradiction.
  - destruct H as (rows & sc & -> & Hsc & Gc).
    assert (Hini : omap_rel X (Some (s_rules sc)) (Some (x_rules xsc))) by (destruct Hsc as (_ & H2 & _); exact H2).
    change (guard c (Some (s_rules sc)) (with_loc init sc)) with (guard c (Some (s_rules sc)) sc).
    rewrite (guard_rel X c _ _ sc xsc Hsc Hini).
    destruct (xguard_cases (Some (x_rules xsc)) xsc) as [G|(e & G)]; rewrite G.
    + assert (G' : guard c (Some (s_rules sc)) (with_loc init sc) = Ok tt).
      { change (guard c (Some (s_rules sc)) (with_loc init sc)) with (guard c (Some (s_rules sc)) sc).
        rewrite (guard_rel X c _ _ sc xsc Hsc Hini). exact G. }
      pose proof (fde_sim (Some (s_rules sc)) (Some (x_rules xsc)) asz init (spec_end asz init range) Hasz Hini
                          0 lf itf Hf (with_loc init sc) xsc Hsc G' ltac:(cbn [with_loc s_loc]; lia)) as H.
      destruct (spec_run c p (Some (s_rules sc)) (spec_end asz init range) (with_loc init sc) itf) as [r [o sf]].
      cbn [fst snd] in *. exact H.
    + cbn [fst snd outcome_of]. split; [constructor|reflexivity].
  - destruct H as (rows & sc & ->). cbn [fst snd outcome_of]. split; [constructor|reflexivity].
Qed.

End Progs.

Lemma implc_mono (X Y : uexpr -> list byte -> Prop) caf daf aa l items :
  (forall u e, X u e -> Y u e) -> implc X caf daf aa l items -> implc Y caf daf aa l items.
Proof.
  intros H. induction 1; [constructor|constructor; try assumption; eapply insn_rel_mono; eassumption|constructor; assumption].
Qed.

Lemma impl_mono (X Y : uexpr -> list byte -> Prop) caf daf aa prev l items :
  (forall u e, X u e -> Y u e) -> impl X caf daf aa prev l items -> impl Y caf daf aa prev l items.
Proof.
  intros H. induction 1.
  - constructor.
  - constructor; try assumption. eapply insn_rel_mono; eassumption.
  - constructor; assumption.
  - econstructor; try eassumption. eapply insn_rel_mono; eassumption.
  - econstructor; eassumption.
Qed.

(* ------------------------------------------------------------------ *)
(* C. the writer's instruction areas, and the composition with C06        *)
(* ------------------------------------------------------------------ *)

(* the section reference u designates the bytes e inside the area that starts at section offset base *)
Definition in_area (base : N) (area : list byte) (u : uexpr) (e : list byte) : Prop :=
  base <= ue_off u /\ ue_len u = len e /\ bytes_at base area (ue_off u) (ue_len u) = e.

Lemma written_insn_rel caf daf i (a : list byte) base pre rest d :
  cfi_wf i = true -> sem caf daf d = MInsn i -> (forall e, expr_of d = Some e -> exists p, a = p ++ e) ->
  insn_rel (in_area base (pre ++ a ++ rest)) caf daf (to_insn (base + len pre) (len a) d) i.
Proof.
  intros Hwf Hs Hex. exists d, (base + len pre), (len a). repeat split; try assumption.
  - destruct (Hex e H) as (q & ->). unfold rd_uexpr. cbn [ue_off]. rewrite len_app. lia.
  - destruct (Hex e H) as (q & ->). unfold rd_uexpr. cbn [ue_off ue_len]. apply bytes_at_here.
Qed.

(* one written instruction under the reader's lazy decoder *)
Lemma decode_written_insn dbg be aa asz caf daf i b base pre rest dbg' :
  cfi_wf i = true -> is_i8 daf = true -> write_insn dbg daf i = Ok b ->
  (vendor_ok aa i = true /\
   exists ri, insn_rel (in_area base (pre ++ b ++ rest)) caf daf ri i /\
     CfiRun.decode dbg' (dp_of be aa asz) (base + len pre) (b ++ rest)
     = It ri :: CfiRun.decode dbg' (dp_of be aa asz) (base + len pre + len b) rest)
  \/ (vendor_ok aa i = false /\
      CfiRun.decode dbg' (dp_of be aa asz) (base + len pre) (b ++ rest) = [Bad EUnknownCallFrameInstruction]).
Proof.
  intros Hi Hdaf Eb.
  destruct (insn_read_by_reader_lem dbg be caf daf i b Hi Hdaf Eb) as (d & Hd & Hs & Hex & Hrd).
  destruct (write_insn_decodes dbg be caf daf i b Hi Hdaf Eb) as (Hne & _).
  specialize (Hrd dbg' asz aa (base + len pre) rest).
  destruct (vendor_ok aa i) eqn:Hv.
  - left. split; [reflexivity|]. exists (to_insn (base + len pre) (len b) d).
    split; [apply written_insn_rel; assumption|].
    apply rdec_cons; [exact Hne|]. cbn [dp_of CfiRun.d_be CfiRun.d_asize CfiRun.d_aarch64]. rewrite Hrd.
    unfold vendor_ok in Hv. destruct aa; [reflexivity|]. destruct i; cbn in Hv |- *; try reflexivity. discriminate.
  - right. split; [reflexivity|]. apply rdec_bad; [exact Hne|].
    cbn [dp_of CfiRun.d_be CfiRun.d_asize CfiRun.d_aarch64]. rewrite Hrd.
    apply vendor_bad in Hv as [-> ->]. reflexivity.
Qed.

Lemma decode_nops dbg dp off pad : all_nop pad = true ->
  CfiRun.decode dbg dp off pad = map It (repeat INop (length pad)).
Proof. intros H. apply rreads_all. apply nops_rread. exact H. Qed.

Lemma write_insns_implc dbg be aa asz caf daf : forall l bs base pre pad,
  forallb cfi_wf l = true -> is_i8 daf = true -> write_insns dbg daf l = Ok bs -> all_nop pad = true ->
  forall dbg', implc (in_area base (pre ++ bs ++ pad)) caf daf aa l
                     (CfiRun.decode dbg' (dp_of be aa asz) (base + len pre) (bs ++ pad)).
Proof.
  induction l as [|i r IH]; intros bs base pre pad Hwf Hdaf H Hpad dbg'.
  - cbn [write_insns] in H. injection H as <-. cbn [app]. rewrite decode_nops by exact Hpad. constructor.
  - cbn [write_insns] in H. cbn [forallb] in Hwf. apply andb_true_iff in Hwf. destruct Hwf as [Hi Hr].
    destruct (write_insn dbg daf i) as [a| | |] eqn:Ea; try discriminate. cbn [bind] in H.
    destruct (write_insns dbg daf r) as [b| | |] eqn:Eb; try discriminate. cbn [bind] in H. injection H as <-.
    rewrite <- (app_assoc a b pad).
    destruct (decode_written_insn dbg be aa asz caf daf i a base pre (b ++ pad) dbg' Hi Hdaf Ea)
      as [(Hv & ri & Hrel & ->)|(Hv & ->)].
    + apply implc_cons; [exact Hrel|exact Hv|].
      specialize (IH b base (pre ++ a) pad Hr Hdaf eq_refl Hpad dbg').
      rewrite len_app, N.add_assoc in IH.
      replace (pre ++ a ++ b ++ pad) with ((pre ++ a) ++ b ++ pad) by (now rewrite <- app_assoc). exact IH.
    + apply implc_bad. exact Hv.
Qed.

Lemma write_fde_insns_impl dbg be aa asz caf daf : forall (l : list (N * cfi)) prev bs base pre pad,
  forallb fde_insn_wf l = true -> is_u8 caf = true -> is_i8 daf = true -> is_u32 prev = true ->
  write_fde_insns dbg be caf daf prev l = Ok bs -> all_nop pad = true ->
  forall dbg', impl (in_area base (pre ++ bs ++ pad)) caf daf aa prev l
                    (CfiRun.decode dbg' (dp_of be aa asz) (base + len pre) (bs ++ pad)).
Proof.
  induction l as [|[off i] r IH]; intros prev bs base pre pad Hwf Hcaf Hdaf Hprev H Hpad dbg'.
  - cbn [write_fde_insns] in H. injection H as <-. cbn [app]. rewrite decode_nops by exact Hpad. constructor.
  - cbn [write_fde_insns] in H. cbn [forallb] in Hwf. apply andb_true_iff in Hwf. destruct Hwf as [Hi Hr].
    unfold fde_insn_wf in Hi. cbn [fst snd] in Hi. apply andb_true_iff in Hi. destruct Hi as [Hoff Hi].
    destruct (write_advance_loc dbg be caf prev off) as [a| | |] eqn:Ea; try discriminate. cbn [bind] in H.
    destruct (write_insn dbg daf i) as [b| | |] eqn:Eb; try discriminate. cbn [bind] in H.
    destruct (write_fde_insns dbg be caf daf off r) as [c| | |] eqn:Ec; try discriminate. cbn [bind] in H.
    injection H as <-.
    specialize (IH off c base (pre ++ a ++ b) pad Hr Hcaf Hdaf Hoff Ec Hpad dbg').
    replace (base + len (pre ++ a ++ b)) with (base + len (pre ++ a) + len b) in IH by (rewrite !len_app; lia).
    rewrite <- ?app_assoc in IH |- *.
    destruct (decode_written_insn dbg be aa asz caf daf i b base (pre ++ a) (c ++ pad) dbg' Hi Hdaf Eb) as [D|D].
    + destruct D as (Hv & ri & Hrel & Hdec).
      rewrite <- ?app_assoc in Hrel.
      destruct (write_advance_loc_ok dbg be caf prev off a Hcaf Hprev Hoff Ea)
        as [[-> ->]|(delta & Hlt & Hmul & Hdl & ->)].
      * rewrite app_nil_r in Hdec, IH. cbn [app] in *. rewrite Hdec. apply impl_same; assumption.
      * rewrite (rdec_cons dbg' (dp_of be aa asz) (base + len pre) (adv_enc be delta) (b ++ c ++ pad) (IAdvanceLoc delta)
                   (adv_enc_nonempty be delta) (rp_adv_enc dbg' be asz aa (base + len pre) delta _ Hdl)).
        rewrite len_app, N.add_assoc in Hdec, IH. rewrite Hdec.
        apply is_u32_iff in Hoff.
        apply impl_adv; try assumption. unfold two64. lia.
    + destruct D as (Hv & Hdec).
      destruct (write_advance_loc_ok dbg be caf prev off a Hcaf Hprev Hoff Ea)
        as [[-> ->]|(delta & Hlt & Hmul & Hdl & ->)].
      * rewrite app_nil_r in Hdec. cbn [app] in *. rewrite Hdec. apply impl_same_bad. exact Hv.
      * rewrite (rdec_cons dbg' (dp_of be aa asz) (base + len pre) (adv_enc be delta) (b ++ c ++ pad) (IAdvanceLoc delta)
                   (adv_enc_nonempty be delta) (rp_adv_enc dbg' be asz aa (base + len pre) delta _ Hdl)).
        rewrite len_app, N.add_assoc in Hdec. rewrite Hdec.
        apply is_u32_iff in Hoff.
        apply impl_adv_bad; try assumption. unfold two64. lia.
Qed.

(* what a row of the reader's table model says, against a script row: same span, args size, CFA, and for
   EVERY register the same rule, expression operands designating (X) the bytes of the script's expression *)
Definition row_sees (X : uexpr -> list byte -> Prop) (r : CfiRun.row) (xr : xrow) : Prop :=
  CfiRun.r_start r = xr_start xr /\ CfiRun.r_end r = xr_end xr /\ CfiRun.r_args r = xr_args xr /\
  cfa_rel X (CfiRun.r_cfa r) (xr_cfa xr) /\
  forall g, orule_rel X (CfiRun.rm_get g (CfiRun.r_regs r)) (xlookup g (xr_rules xr)).

Lemma row_sees_compose X r sr xr : CfiRunProofs.row_equiv r sr -> srow_rel X sr xr -> row_sees X r xr.
Proof.
  intros (A1 & A2 & A3 & A4 & A5) (B1 & B2 & B3 & B4 & B5). unfold row_sees.
  rewrite A1, A2, A3, A4. repeat split; try assumption. intros g. rewrite A5. apply lookup_rel. exact B5.
Qed.

Lemma Forall2_compose {A B C} (P : A -> B -> Prop) (Q : B -> C -> Prop) (R : A -> C -> Prop) :
  (forall a b c, P a b -> Q b c -> R a c) ->
  forall l1 l2 l3, Forall2 P l1 l2 -> Forall2 Q l2 l3 -> Forall2 R l1 l3.
Proof.
  intros H l1 l2 l3 H1. revert l3. induction H1 as [|a b l1 l2 Hab _ IH]; intros l3 H2; inversion H2; subst; constructor.
  - eapply H; eassumption.
  - apply IH. assumption.
Qed.

(* an expression reference lies in the CIE's or in the FDE's instruction area *)
Definition in2 (cbase : N) (carea : list byte) (fbase : N) (farea : list byte) (u : uexpr) (e : list byte) : Prop :=
  in_area cbase carea u e \/ in_area fbase farea u e.

Definition mk_fde_in (be aa : bool) (asz caf : N) (daf : Z) (init range coff : N) (carea : list byte)
           (foff : N) (farea : list byte) : CfiRun.fde_in :=
  {| CfiRun.f_caf := caf; CfiRun.f_daf := daf; CfiRun.f_asize := asz; CfiRun.f_be := be; CfiRun.f_aarch64 := aa;
     CfiRun.f_init := init; CfiRun.f_range := range; CfiRun.f_cie_off := coff; CfiRun.f_cie := carea;
     CfiRun.f_fde_off := foff; CfiRun.f_fde := farea |}.

(* THE composition: the unwind table the reader model (C06) computes from two written instruction areas, at
   whatever section offsets they lie and whatever nop padding follows them, is the table of the script
   machine — with the context's storage limits, any reader vendor, any build mode *)
Theorem rows_by_script_areas dbg be aa asz caf daf (lc : list cfi) (lf : list (N * cfi)) ci fi pad1 pad2 :
  forallb cfi_wf lc = true -> forallb fde_insn_wf lf = true -> is_u8 caf = true -> is_i8 daf = true ->
  asz_ok asz ->
  write_insns dbg daf lc = Ok ci -> write_fde_insns dbg be caf daf 0 lf = Ok fi ->
  all_nop pad1 = true -> all_nop pad2 = true ->
  forall dbg' caps cx init range coff foff,
    CfiRun.cap_full (max_stack caps) 0 = false ->
    let fin := mk_fde_in be aa asz caf daf init range coff (ci ++ pad1) foff (fi ++ pad2) in
    let scr := script_rows_lim caps aa asz init range lc lf in
    Forall2 (row_sees (in2 coff (ci ++ pad1) foff (fi ++ pad2))) (fst (fst (CfiRun.fde_rows dbg' caps fin cx))) (fst scr) /\
    snd (fst (CfiRun.fde_rows dbg' caps fin cx)) = snd scr.
Proof.
  intros Hlc Hlf Hcaf Hdaf Hasz Hci Hfi Hp1 Hp2 dbg' caps cx init range coff foff Hcap fin scr.
  destruct (CfiRunProofs.model_eq_spec dbg' caps fin cx (valid_asize_of asz Hasz) Hcap) as [M1 M2].
  set (X := in2 coff (ci ++ pad1) foff (fi ++ pad2)).
  pose proof (write_insns_implc dbg be aa asz caf daf lc ci coff [] pad1 Hlc Hdaf Hci Hp1 dbg') as I1.
  pose proof (write_fde_insns_impl dbg be aa asz caf daf lf 0 fi foff [] pad2 Hlf Hcaf Hdaf eq_refl Hfi Hp2 dbg') as I2.
  change (len []) with 0 in I1, I2. rewrite N.add_0_r in I1, I2. cbn [app] in I1, I2.
  apply (implc_mono _ X) in I1; [|intros u e H; left; exact H].
  apply (impl_mono _ X) in I2; [|intros u e H; right; exact H].
  pose proof (rows_sim X caf daf aa caps (CfiRunProofs.sparams_of fin) eq_refl eq_refl asz init range lc lf _ _
                       eq_refl Hcap I1 I2) as [S1 S2].
  unfold CfiRunProofs.spec_of in M1, M2.
  cbn [fin mk_fde_in CfiRun.f_dparams CfiRun.f_be CfiRun.f_asize CfiRun.f_aarch64 CfiRun.f_cie_off CfiRun.f_cie
       CfiRun.f_fde_off CfiRun.f_fde CfiRun.f_init CfiRun.f_range] in M1, M2.
  fold (dp_of be aa asz) in M1, M2. fold fin in M1, M2.
  split.
  - eapply Forall2_compose; [|exact M1|exact S1]. intros a b c0. apply row_sees_compose.
  - rewrite M2. exact S2.
Qed.

(* ------------------------------------------------------------------ *)
(* D. written entries (tiles) and whole tables                            *)
(* ------------------------------------------------------------------ *)

(* rows_read_by_reader: a written CIE and a written FDE of it *)
Theorem rows_read_by_reader_full dbg be eh aa cpos fpos coff (c : CfiWr.cie) (f : CfiWr.fde) cb fb :
  cie_wf c = true -> fde_wf f = true ->
  cie_write dbg be eh cpos c = Ok cb -> fde_write dbg be eh fpos coff c f = Ok fb ->
  exists cil chdr carea fil fhdr farea,
    cb = cil ++ chdr ++ carea /\ fb = fil ++ fhdr ++ farea /\
    len cil = ilen_size (c_fmt64 c) /\ len fil = ilen_size (c_fmt64 c) /\
    forall dbg' caps cx init range,
      CfiRun.cap_full (max_stack caps) 0 = false ->
      let cbase := cpos + len cil + len chdr in
      let fbase := fpos + len fil + len fhdr in
      let fi := fde_in_of be aa c init range cbase carea fbase farea in
      let scr := script_rows_lim caps aa (c_asize c) init range (c_insns c) (f_insns f) in
      Forall2 (row_sees (in2 cbase carea fbase farea)) (fst (fst (CfiRun.fde_rows dbg' caps fi cx))) (fst scr) /\
      snd (fst (CfiRun.fde_rows dbg' caps fi cx)) = snd scr.
Proof.
  intros Hwf Hfw Hc Hf.
  pose proof (cie_write_ok_asz _ _ _ _ _ _ Hc) as Hasz.
  destruct (asz_cases_pow2 _ Hasz) as [Hu Hp].
  destruct (cie_wf_parts c Hwf) as (_ & Hcaf & Hdaf & Hins).
  pose proof (fde_wf_parts f Hfw) as Hfins.
  destruct (cie_write_layout dbg be eh cpos c cb Hu Hp Hc) as (cil & chdr & ci & pad1 & -> & _ & Hl1 & Hw1 & Hn1 & _).
  destruct (fde_write_layout dbg be eh fpos coff c f fb Hu Hp Hf) as (fil & fhdr & fi & pad2 & -> & _ & Hl2 & Hw2 & Hn2 & _).
  exists cil, chdr, (ci ++ pad1), fil, fhdr, (fi ++ pad2).
  split; [reflexivity|]. split; [reflexivity|]. split; [exact Hl1|]. split; [exact Hl2|].
  intros dbg' caps cx init range Hcap.
  exact (rows_by_script_areas dbg be aa (c_asize c) (c_caf c) (c_daf c) (c_insns c) (f_insns f) ci fi pad1 pad2
           Hins Hfins Hcaf Hdaf Hasz Hw1 Hw2 Hn1 Hn2 dbg' caps cx init range _ _ Hcap).
Qed.

Require GV.Model.CfiRd GV.Model.CfiUwi.

(* the bridge from C05's FDE record to the already-parsed CIE/FDE C06 evaluates (missing item 2 of the partial
   theorem): for the records the entry reader returns for a written CIE and FDE, CfiUwi.fde_in_of — the
   adapter used by unwind_info_for_address — is the fde_in of the two written areas *)
Lemma seen_rows dbg be aa (c : CfiWr.cie) (f : CfiWr.fde) o b (ci : CfiRd.cie) o' b' (fd : CfiRd.fde) :
  cie_wf c = true -> fde_wf f = true -> asz_ok (c_asize c) ->
  cie_seen dbg c o b ci -> fde_seen dbg be c f o' b' ci fd ->
  forall dbg' caps cx,
    CfiRun.cap_full (max_stack caps) 0 = false ->
    let fi := CfiUwi.fde_in_of be aa fd in
    let scr := script_rows_lim caps aa (c_asize c) (CfiRd.fd_init fd) (CfiRd.fd_range fd) (c_insns c) (f_insns f) in
    Forall2 (row_sees (in2 (CfiRd.off (CfiRd.ci_instr ci)) (CfiRd.win (CfiRd.ci_instr ci))
                           (CfiRd.off (CfiRd.fd_instr fd)) (CfiRd.win (CfiRd.fd_instr fd))))
            (fst (fst (CfiRun.fde_rows dbg' caps fi cx))) (fst scr) /\
    snd (fst (CfiRun.fde_rows dbg' caps fi cx)) = snd scr.
Proof.
  intros Hwf Hfw Hasz (_ & _ & _ & A4 & A5 & A6 & _ & _ & ins1 & pad1 & Hw1 & Hn1 & _ & Hwin1 & _)
         (_ & _ & B3 & _ & _ & _ & ins2 & pad2 & Hw2 & Hn2 & _ & Hwin2) dbg' caps cx Hcap.
  destruct (cie_wf_parts c Hwf) as (_ & Hcaf & Hdaf & Hins).
  pose proof (fde_wf_parts f Hfw) as Hfins.
  cbv zeta.
  assert (E : CfiUwi.fde_in_of be aa fd =
              mk_fde_in be aa (c_asize c) (c_caf c) (c_daf c) (CfiRd.fd_init fd) (CfiRd.fd_range fd)
                        (CfiRd.off (CfiRd.ci_instr ci)) (ins1 ++ pad1) (CfiRd.off (CfiRd.fd_instr fd)) (ins2 ++ pad2)).
  { unfold CfiUwi.fde_in_of, mk_fde_in. rewrite B3, A4, A5, A6, Hwin1, Hwin2. reflexivity. }
  rewrite E, Hwin1, Hwin2.
  exact (rows_by_script_areas dbg be aa (c_asize c) (c_caf c) (c_daf c) (c_insns c) (f_insns f) ins1 ins2 pad1 pad2
           Hins Hfins Hcaf Hdaf Hasz Hw1 Hw2 Hn1 Hn2 dbg' caps cx _ _ _ _ Hcap).
Qed.

(* per tile of a written section: what the reader's table evaluation returns for the k-th FDE tile *)
Section TableRows.
  Variables (dbg' be eh : bool) (asz : N) (cies : list CfiWr.cie) (fdes : list (nat * CfiWr.fde)) (sec : list byte).

  Definition fde_rows_by_script (c : CfiWr.cie) (f : CfiWr.fde) (fd : CfiRd.fde) : Prop :=
    CfiRd.fd_init fd = addr_val (f_addr f) mod 2 ^ (8 * c_asize c) /\ CfiRd.fd_range fd = f_len f /\
    forall aa dbg2 caps cx,
      CfiRun.cap_full (max_stack caps) 0 = false ->
      let fi := CfiUwi.fde_in_of be aa fd in
      let scr := script_rows_lim caps aa (c_asize c) (CfiRd.fd_init fd) (CfiRd.fd_range fd) (c_insns c) (f_insns f) in
      Forall2 (row_sees (in2 (CfiRd.off (CfiRd.ci_instr (CfiRd.fd_cie fd))) (CfiRd.win (CfiRd.ci_instr (CfiRd.fd_cie fd)))
                             (CfiRd.off (CfiRd.fd_instr fd)) (CfiRd.win (CfiRd.fd_instr fd))))
              (fst (fst (CfiRun.fde_rows dbg2 caps fi cx))) (fst scr) /\
      snd (fst (CfiRun.fde_rows dbg2 caps fi cx)) = snd scr.

  Fixpoint rows_seen (chunks : list (CfaEncSpec.item * list byte)) (items : list CfiRd.item) : Prop :=
    match chunks, items with
    | [], [] => True
    | (CfaEncSpec.ICie _, _) :: r, CfiRd.ICie _ :: its => rows_seen r its
    | (CfaEncSpec.IFde k, _) :: r, CfiRd.IFde p :: its =>
        (exists idx f c fd,
           nth_error fdes k = Some (idx, f) /\ nth_error cies idx = Some c /\
           CfiRd.fde_parse dbg' (rd_cfg eh be asz) sec p = Ok fd /\ fde_rows_by_script c f fd)
        /\ rows_seen r its
    | _, _ => False
    end.
End TableRows.

Lemma reader_sees_rows dbg dbg' be eh asz cies fdes sec :
  Forall (fun c => cie_wf c = true /\ c_asize c = asz) cies ->
  Forall (fun p => fde_wf (snd p) = true) fdes ->
  asz_ok asz ->
  forall chunks pos placed items,
    reader_sees dbg dbg' be eh asz cies fdes sec pos placed chunks items ->
    rows_seen dbg' be eh asz cies fdes sec chunks items.
Proof.
  intros HC HF Hasz. induction chunks as [|[[idx|k] b] r IH]; intros pos placed items H; destruct items as [|[ci|p] its];
    cbn [reader_sees rows_seen] in *; try contradiction; try exact I.
  - destruct H as [_ H]. eapply IH. exact H.
  - destruct H as [(idx & f & c & coff & ci & fd & Hk & Hn & _ & Hpc & _ & _ & Hparse & Hseen) H].
    split; [|eapply IH; exact H].
    exists idx, f, c, fd. split; [exact Hk|]. split; [exact Hn|]. split; [exact Hparse|].
    assert (Hcw : cie_wf c = true /\ c_asize c = asz).
    { rewrite Forall_forall in HC. apply HC. eapply nth_error_In. exact Hn. }
    destruct Hcw as [Hcw Hca].
    assert (Hfw : fde_wf f = true).
    { rewrite Forall_forall in HF. apply (HF (idx, f)). eapply nth_error_In. exact Hk. }
    destruct Hpc as (c' & cb & pre & post & Hn' & _ & _ & Hcs & _).
    rewrite Hn in Hn'. injection Hn' as <-.
    pose proof Hseen as (_ & _ & B3 & B4 & B5 & _).
    split; [exact B4|]. split; [exact B5|].
    intros aa dbg2 caps cx Hcap. rewrite B3.
    apply (seen_rows dbg be aa c f coff cb ci pos b fd Hcw Hfw ltac:(rewrite Hca; exact Hasz) Hcs Hseen dbg2 caps cx Hcap).
Qed.

(* table_rows_read_by_reader: entries_read_by_reader, and for every FDE tile the unwind table that the reader
   model computes for the FDE record the entry reader returned is the table of the script machine *)
Theorem table_rows_read_by_reader_lem dbg dbg' be eh asz (t : ftable) bs :
  Forall (fun c => cie_wf c = true /\ c_asize c = asz) (t_cies t) ->
  Forall (fun p => fde_wf (snd p) = true) (t_fdes t) ->
  len bs + 16 < 4294967295 ->
  write_table dbg be eh 0 t = Ok bs ->
  exists chunks items,
    map fst chunks = plan [] 0 (map fst (t_fdes t)) /\
    bs = concat (map snd chunks) /\
    CfiRd.entries_all dbg' (rd_cfg eh be asz) bs = Ok (items, None) /\
    reader_sees dbg dbg' be eh asz (t_cies t) (t_fdes t) bs 0 [] chunks items /\
    rows_seen dbg' be eh asz (t_cies t) (t_fdes t) bs chunks items.
Proof.
  intros HC HF Hsmall H.
  destruct (entries_read_by_reader_lem dbg dbg' be eh asz t bs HC HF Hsmall H) as (chunks & items & H1 & H2 & H3 & H4).
  exists chunks, items. repeat split; try assumption.
  destruct (t_fdes t) as [|[idx f] fr] eqn:Ef.
  - (* no FDE: nothing is written *)
    cbn [map plan] in H1. destruct chunks; [|discriminate]. destruct items; [exact I|]. cbn [reader_sees] in H4. contradiction.
  - (* the address size is that of a written CIE *)
    assert (Hasz : asz_ok asz).
    { destruct (write_table_tiled dbg be eh 0 t bs H) as (ch & Hp & _ & Hwt).
      rewrite Ef in Hp. cbn [map plan existsb] in Hp. destruct ch as [|[it0 b0] ch]; [discriminate|].
      cbn [map fst] in Hp. injection Hp as Hit _. subst it0.
      cbn [well_tiled] in Hwt. destruct Hwt as [(c & Hn & Hw) _].
      assert (Hcw : cie_wf c = true /\ c_asize c = asz).
      { rewrite Forall_forall in HC. apply HC. eapply nth_error_In. exact Hn. }
      destruct Hcw as [_ <-]. eapply cie_write_ok_asz. exact Hw. }
    rewrite <- Ef in *. eapply reader_sees_rows; eassumption.
Qed.

(* ------------------------------------------------------------------ *)
(* E. "limits not hit": the limited table is the unlimited one           *)
(* ------------------------------------------------------------------ *)

Lemma xstep_lim_fits c aa ini s i :
  match script_step aa ini s i with
  | Ok s' => xguard_ok c ini s' = true
  | _ => True
  end -> xstep_lim c aa ini s i = xstep_lim no_caps aa ini s i.
Proof.
  unfold xstep_lim. destruct (script_step aa ini s i) as [s'|e| |]; cbn [bind]; try reflexivity.
  unfold xguard_ok. intros G. destruct (xguard c ini s') as [[]|e| |]; try discriminate. reflexivity.
Qed.

Lemma script_cie_fits c aa : forall l s,
  xfits c aa None s l = true -> script_cie c aa s l = script_cie no_caps aa s l.
Proof.
  induction l as [|i r IH]; intros s H; [reflexivity|]. cbn [xfits script_cie] in *.
  rewrite (xstep_lim_fits c aa None s i).
  - unfold xstep_lim. destruct (script_step aa None s i) as [s'|e| |]; cbn [bind]; try reflexivity.
    apply andb_true_iff in H. destruct H as [_ H]. change (xguard no_caps None s') with (Ok tt : res unit). cbn [bind].
    apply IH. exact H.
  - destruct (script_step aa None s i); [|exact I|exact I|exact I]. apply andb_true_iff in H. tauto.
Qed.

Lemma script_fde_fits c aa ini asz init e : forall l cur s,
  xfits c aa ini s (map snd l) = true ->
  script_fde c aa ini asz init e cur s l = script_fde no_caps aa ini asz init e cur s l.
Proof.
  induction l as [|[off i] r IH]; intros cur s H; [reflexivity|]. cbn [map snd xfits script_fde] in *.
  assert (E : xstep_lim c aa ini s i = xstep_lim no_caps aa ini s i).
  { apply xstep_lim_fits. destruct (script_step aa ini s i); [|exact I|exact I|exact I]. apply andb_true_iff in H. tauto. }
  rewrite E.
  assert (Hn : forall s', xstep_lim no_caps aa ini s i = Ok s' -> xfits c aa ini s' (map snd r) = true).
  { intros s' Hs. unfold xstep_lim in Hs. destruct (script_step aa ini s i) as [s1|e1| |]; cbn [bind] in Hs; try discriminate.
    change (xguard no_caps ini s1) with (Ok tt : res unit) in Hs. cbn [bind] in Hs. injection Hs as <-.
    apply andb_true_iff in H. tauto. }
  destruct (cur <? off).
  - destruct (2 ^ (8 * asz) <=? init + off); [reflexivity|].
    destruct (xstep_lim no_caps aa ini s i) as [s'|e1| |]; try reflexivity.
    rewrite (IH off s' (Hn s' eq_refl)). reflexivity.
  - destruct (xstep_lim no_caps aa ini s i) as [s'|e1| |]; try reflexivity.
    apply IH. apply Hn. reflexivity.
Qed.

(* when the occupancy of the unlimited evaluation never exceeds the capacities, the capacities are invisible *)
Theorem script_fits_unlimited c aa asz init range cie fde :
  script_fits c aa cie fde = true ->
  script_rows_lim c aa asz init range cie fde = script_rows aa asz init range cie fde.
Proof.
  unfold script_fits, script_rows, script_rows_lim. intros H. apply andb_true_iff in H. destruct H as [H1 H2].
  rewrite (script_cie_fits c aa cie init_x H1).
  destruct (script_cie no_caps aa init_x cie) as [sc|e| |]; try reflexivity.
  apply andb_true_iff in H2. destruct H2 as [G H2]. unfold xguard_ok in G.
  destruct (xguard c (Some (x_rules sc)) sc) as [[]|e| |]; try discriminate.
  change (xguard no_caps (Some (x_rules sc)) sc) with (Ok tt : res unit).
  apply script_fde_fits. exact H2.
Qed.
